(* C32 — proofs about the SignedPacket model. *)
From V Require Import Lib.Base Lib.Dec Gen.Consts Model.C32.
From Coq Require Import ZifyBool.
Import C32.
Open Scope N_scope.

(* ---- the BEP44 encoding determines timestamp and payload ---- *)
Lemma signable_injective ts v ts' v' :
  signable ts v = signable ts' v' -> ts = ts' /\ v = v'.
Proof.
  unfold signable. intros E.
  apply app_inv_head in E.
  change (str_bytes "e1:v") with (101 :: [49; 58; 118]) in E.
  rewrite <- !app_comm_cons in E.
  apply (span_unique is_dec_digit) in E; try apply dec_digits; try reflexivity.
  destruct E as (Ets & _ & E). apply dec_inj in Ets. split; [exact Ets|].
  apply (app_inv_head [49; 58; 118]) in E.
  change (str_bytes ":") with [58] in E. cbn [app] in E.
  apply (span_unique is_dec_digit) in E; try apply dec_digits; try reflexivity.
  now destruct E as (_ & _ & E).
Qed.

(* the message alone also fixes the declared length *)
Lemma signable_length ts v : len (signable ts v) = 11 + len (dec ts) + len (dec (len v)) + len v.
Proof.
  unfold signable, len. rewrite !app_length. cbn [str_bytes length]. lia.
Qed.

Lemma key_of_eq bs : key_of bs = firstn 32 bs.
Proof. reflexivity. Qed.
Lemma sig_of_eq bs : sig_of bs = firstn 64 (skipn 32 bs).
Proof. reflexivity. Qed.

Lemma firstn_app_exact {A} (l1 l2 : list A) n : length l1 = n -> firstn n (l1 ++ l2) = l1.
Proof. intros <-. rewrite firstn_app, Nat.sub_diag. cbn [firstn]. rewrite firstn_all. apply app_nil_r. Qed.
Lemma skipn_app_exact {A} (l1 l2 : list A) n : length l1 = n -> skipn n (l1 ++ l2) = l2.
Proof. intros <-. rewrite skipn_app, Nat.sub_diag, skipn_all. reflexivity. Qed.

Lemma skipn_add {A} a b : forall (l : list A), skipn (a + b) l = skipn a (skipn b l).
Proof.
  induction b as [|b IH]; intros l.
  - now rewrite Nat.add_0_r.
  - rewrite Nat.add_succ_r. destruct l as [|x l]; cbn [skipn]; [now rewrite skipn_nil | apply IH].
Qed.

Section Proofs.
  Variable is_point : bytes -> bool.
  Variable verify : bytes -> bytes -> bytes -> bool.
  Variable dns_ok : bytes -> bool.

  Notation from_bytes := (from_bytes is_point verify dns_ok).
  Notation from_relay_payload := (from_relay_payload is_point verify dns_ok).
  Notation from_bytes_unchecked := (from_bytes_unchecked is_point dns_ok).
  Notation from_parts_unchecked := (from_parts_unchecked is_point dns_ok).
  Notation public_key := (public_key is_point).
  Notation observe := (observe is_point).

  (* from_bytes accepts exactly the authentic, well-formed packets, unchanged *)
  Lemma from_bytes_spec bs p :
    from_bytes bs = Ok p <->
    (p = bs /\ PKARR_HEADER_SIZE <= len bs /\ len bs <= PKARR_MAX_SIGNED_PACKET_SIZE /\
     is_point (key_of bs) = true /\
     verify (key_of bs) (signable (ts_of bs) (payload_of bs)) (sig_of bs) = true /\
     dns_ok (payload_of bs) = true).
  Proof.
    unfold C32.from_bytes.
    destruct (len bs <? PKARR_HEADER_SIZE) eqn:E1;
      [split; [discriminate | intros (_ & H & _); lia]|].
    destruct (PKARR_MAX_SIGNED_PACKET_SIZE <? len bs) eqn:E2;
      [split; [discriminate | intros (_ & _ & H & _); lia]|].
    destruct (is_point (key_of bs)) eqn:E3; cbn [negb];
      [|split; [discriminate | intros (_ & _ & _ & H & _); discriminate]].
    destruct (verify _ _ _) eqn:E4; cbn [negb];
      [|split; [discriminate | intros (_ & _ & _ & _ & H & _); discriminate]].
    destruct (dns_ok _) eqn:E5; cbn [negb];
      [|split; [discriminate | intros (_ & _ & _ & _ & _ & H); discriminate]].
    split.
    - intros [= <-]. repeat split; auto; lia.
    - intros (-> & _). reflexivity.
  Qed.

  Lemma from_bytes_sound bs p :
    from_bytes bs = Ok p ->
    p = bs /\ is_point (key_of bs) = true /\
    verify (key_of bs) (signable (ts_of bs) (payload_of bs)) (sig_of bs) = true /\
    dns_ok (payload_of bs) = true.
  Proof. intros H. apply from_bytes_spec in H. tauto. Qed.

  (* a rejected signature, key or payload is reported, never accepted *)
  Lemma from_bytes_rejects bs :
    is_point (key_of bs) = false \/
    verify (key_of bs) (signable (ts_of bs) (payload_of bs)) (sig_of bs) = false \/
    dns_ok (payload_of bs) = false ->
    exists e, from_bytes bs = Err e.
  Proof.
    intros H. destruct (from_bytes bs) as [p|e|] eqn:E.
    - apply from_bytes_spec in E. destruct E as (_ & _ & _ & H1 & H2 & H3).
      destruct H as [H|[H|H]]; congruence.
    - eauto.
    - unfold C32.from_bytes in E.
      repeat (match type of E with (if ?c then _ else _) = _ => destruct c end; try discriminate).
  Qed.

  (* from_relay_payload: authenticity is checked against the GIVEN key, and that
     key is the one the packet carries *)
  Lemma relay_parts key payload : length key = 32%nat ->
    key_of (key ++ payload) = key /\
    sig_of (key ++ payload) = firstn 64 payload /\
    ts_of (key ++ payload) = be_u64 (firstn 8 (skipn 64 payload)) /\
    payload_of (key ++ payload) = skipn 72 payload.
  Proof.
    intros L. repeat split.
    - rewrite key_of_eq. now apply firstn_app_exact.
    - rewrite sig_of_eq, (skipn_app_exact key payload 32 L). reflexivity.
    - unfold ts_of, slice. change (N.to_nat (104 - 96)) with 8%nat. change (N.to_nat 96) with (64 + 32)%nat.
      rewrite skipn_add, (skipn_app_exact key payload 32 L). reflexivity.
    - unfold payload_of. change 104%nat with (72 + 32)%nat.
      rewrite skipn_add, (skipn_app_exact key payload 32 L). reflexivity.
  Qed.

  Lemma relay_payload_uses_given_key key payload p :
    length key = 32%nat ->
    from_relay_payload key payload = Ok p ->
    p = key ++ payload /\ key_of p = key /\ is_point key = true /\
    verify key (signable (be_u64 (firstn 8 (skipn 64 payload))) (skipn 72 payload)) (firstn 64 payload) = true /\
    dns_ok (skipn 72 payload) = true.
  Proof.
    intros L H. unfold C32.from_relay_payload in H. apply from_bytes_sound in H.
    destruct (relay_parts key payload L) as (K & S & T & P).
    rewrite K, S, T, P in H. destruct H as (-> & H1 & H2 & H3). rewrite K. auto.
  Qed.

  (* ---- every constructed packet can be inspected ---- *)
  Definition inv (p : bytes) : Prop := PKARR_HEADER_SIZE <= len p /\ is_point (key_of p) = true.

  Lemma inv_total p : inv p -> obs_total (observe p) = true.
  Proof.
    intros [L K]. unfold PKARR_HEADER_SIZE in L.
    unfold C32.observe, obs_total. cbn [ob_key ob_sig ob_ts ob_payload ob_relay ob_txt ob_display ob_debug].
    unfold display, debug, txt_records, C32.public_key, signature, timestamp, encoded_packet, to_relay_payload.
    rewrite K.
    replace (len p <? 32) with false by lia.
    replace (len p <? 96) with false by lia.
    replace (len p <? 104) with false by lia.
    reflexivity.
  Qed.

  Lemma inv_public_key p : inv p -> public_key p = Ok (key_of p).
  Proof.
    intros [L K]. unfold PKARR_HEADER_SIZE in L. unfold C32.public_key. rewrite K.
    replace (len p <? 32) with false by lia. reflexivity.
  Qed.

  Lemma from_bytes_inv bs p : from_bytes bs = Ok p -> inv p.
  Proof. intros H. apply from_bytes_spec in H. destruct H as (-> & H1 & _ & H2 & _). split; assumption. Qed.

  Lemma from_bytes_unchecked_spec bs p :
    from_bytes_unchecked bs = Ok p <->
    (p = bs /\ PKARR_HEADER_SIZE <= len bs /\ len bs <= PKARR_MAX_SIGNED_PACKET_SIZE /\
     is_point (key_of bs) = true /\ dns_ok (payload_of bs) = true).
  Proof.
    unfold C32.from_bytes_unchecked, from_bytes_unchecked_with, FIXED. cbn [andb].
    destruct (len bs <? PKARR_HEADER_SIZE) eqn:E1;
      [split; [discriminate | intros (_ & H & _); lia]|].
    destruct (PKARR_MAX_SIGNED_PACKET_SIZE <? len bs) eqn:E2;
      [split; [discriminate | intros (_ & _ & H & _); lia]|].
    destruct (is_point (key_of bs)) eqn:E3; cbn [negb];
      [|split; [discriminate | intros (_ & _ & _ & H & _); discriminate]].
    destruct (dns_ok _) eqn:E5; cbn [negb];
      [|split; [discriminate | intros (_ & _ & _ & _ & H); discriminate]].
    split.
    - intros [= <-]. repeat split; auto; lia.
    - intros (-> & _). reflexivity.
  Qed.

  Lemma from_bytes_unchecked_inv bs p : from_bytes_unchecked bs = Ok p -> inv p.
  Proof. intros H. apply from_bytes_unchecked_spec in H. destruct H as (-> & H1 & _ & H2 & _). split; assumption. Qed.

  (* the values obtainable from the public constructors *)
  Inductive constructed : bytes -> Prop :=
  | c_from_bytes bs p : from_bytes bs = Ok p -> constructed p
  | c_relay key payload p : from_relay_payload key payload = Ok p -> constructed p
  | c_unchecked bs p : from_bytes_unchecked bs = Ok p -> constructed p
  | c_parts key sig ts payload p : from_parts_unchecked key sig ts payload = Ok p -> constructed p
  (* from_txt_strings: the key of a SecretKey (a point), a 64-byte signature, the clock, the built payload *)
  | c_signed key sig ts payload :
      is_point key = true -> length key = 32%nat -> length sig = 64%nat ->
      constructed (key ++ sig ++ be8 ts ++ payload).

  Lemma be_bytes_length n v : length (be_bytes n v) = n.
  Proof. revert v; induction n as [|n IH]; intros v; cbn [be_bytes]; [reflexivity|]. rewrite app_length, IH. cbn. lia. Qed.

  Lemma constructed_inv p : constructed p -> inv p.
  Proof.
    intros H. destruct H as [bs p H | key payload p H | bs p H | key sig ts payload p H | key sig ts payload Hk Lk Ls].
    - eapply from_bytes_inv; eauto.
    - eapply from_bytes_inv; eauto.
    - eapply from_bytes_unchecked_inv; eauto.
    - eapply from_bytes_unchecked_inv; eauto.
    - split.
      + unfold PKARR_HEADER_SIZE, len. rewrite !app_length, Lk, Ls. unfold be8. rewrite be_bytes_length. lia.
      + rewrite key_of_eq, (firstn_app_exact key _ 32 Lk). exact Hk.
  Qed.

  Lemma from_txt_strings_constructed key sig ts build p :
    is_point key = true -> length key = 32%nat -> length sig = 64%nat ->
    from_txt_strings key sig ts build = Ok p -> constructed p.
  Proof.
    intros Hk Lk Ls. unfold from_txt_strings. destruct build as [pl|]; [|discriminate].
    destruct (PKARR_MAX_DNS_PACKET_SIZE <? len pl); [discriminate|]. intros [= <-]. now apply c_signed.
  Qed.

  Lemma accessors_total p :
    constructed p ->
    public_key p = Ok (key_of p) /\ obs_total (observe p) = true.
  Proof. intros H. apply constructed_inv in H. split; [now apply inv_public_key | now apply inv_total]. Qed.
End Proofs.

(* ---- the code before the fix: an unchecked constructor returns a packet whose
   public_key() panics ---- *)
Lemma unchecked_old_refuted :
  exists (is_point dns_ok : bytes -> bool) bs p,
    from_bytes_unchecked_with is_point dns_ok false bs = Ok p /\
    public_key is_point p = Panic /\ display is_point p = Panic /\ debug is_point p = Panic.
Proof.
  exists (fun _ => false), (fun _ => true), (repeat 2 104), (repeat 2 104).
  vm_compute. auto.
Qed.

(* non-vacuity: with primitives that accept, a 104+12 byte packet is accepted and inspectable *)
Example accept_example :
  let bs := repeat 7 116 in
  from_bytes (fun _ => true) (fun _ _ _ => true) (fun _ => true) bs = Ok bs /\
  obs_total (observe (fun _ => true) bs) = true.
Proof. vm_compute. auto. Qed.

Example signable_example :
  signable 999 [1; 2; 3] = str_bytes "3:seqi999e1:v3:" ++ [1; 2; 3].
Proof. vm_compute. reflexivity. Qed.

(* ---- concrete instance: the model satisfies the monitor on every input ---- *)
Lemma map_res_ok {A B} (f : A -> B) r b : map_res f r = Ok b -> exists a, r = Ok a /\ b = f a.
Proof. destruct r; cbn; try discriminate. intros [= <-]. eauto. Qed.

Lemma accepted_from_bytes i bs :
  accepted_ok i (key_of bs) bs
    (map_res (c_observe i) (from_bytes (c_is_point i) (c_verify i) (c_dns_ok i) bs)) = true.
Proof.
  destruct (from_bytes (c_is_point i) (c_verify i) (c_dns_ok i) bs) as [p|e|] eqn:E; cbn [map_res accepted_ok].
  - pose proof (from_bytes_inv _ _ _ _ _ E) as I.
    apply from_bytes_spec in E. destruct E as (-> & _ & _ & H1 & H2 & H3).
    unfold c_observe. cbn [ob_bytes ob_key C32.observe].
    rewrite bytes_eqb_refl, H1, H2, H3, (inv_public_key _ _ I), (inv_total _ _ I). cbn. now rewrite bytes_eqb_refl.
  - reflexivity.
  - unfold from_bytes in E.
    repeat (match type of E with (if ?c then _ else _) = _ => destruct c end; try discriminate).
Qed.

Lemma inspect_unchecked i bs :
  inspect_ok (map_res (c_observe i) (from_bytes_unchecked (c_is_point i) (c_dns_ok i) bs)) = true.
Proof.
  destruct (from_bytes_unchecked (c_is_point i) (c_dns_ok i) bs) as [p|e|] eqn:E; cbn [map_res inspect_ok].
  - apply from_bytes_unchecked_inv in E. now apply inv_total.
  - reflexivity.
  - unfold from_bytes_unchecked, from_bytes_unchecked_with in E.
    repeat (match type of E with (if ?c then _ else _) = _ => destruct c end; try discriminate).
Qed.

Lemma model_monitor i : monitor i (model i) = true.
Proof.
  unfold monitor, model. cbv zeta. cbn [r_from_bytes r_unchecked r_parts r_relay r_relay2].
  rewrite accepted_from_bytes, !andb_true_l.
  rewrite inspect_unchecked, andb_true_l.
  unfold from_parts_unchecked, from_parts_unchecked_with.
  change (from_bytes_unchecked_with (c_is_point i) (c_dns_ok i) FIXED) with (from_bytes_unchecked (c_is_point i) (c_dns_ok i)).
  rewrite inspect_unchecked, andb_true_l.
  rewrite <- andb_assoc. apply andb_true_intro. split; [|apply andb_true_intro; split].
  - destruct ((32 <=? len (all_bytes i)) && c_is_point i (key_of (all_bytes i))); [|reflexivity].
    unfold from_relay_payload. rewrite key_of_eq, firstn_skipn. rewrite <- key_of_eq. apply accepted_from_bytes.
  - destruct (32 <=? len (all_bytes i)); [|reflexivity].
    destruct (len (in_key2 i) =? 32) eqn:L; cbn [negb orb]; [|reflexivity].
    unfold from_relay_payload.
    assert (K : key_of (in_key2 i ++ skipn 32 (all_bytes i)) = in_key2 i).
    { apply relay_parts. unfold len in L. lia. }
    rewrite <- K at 1. apply accepted_from_bytes.
  - destruct (txt_wf i) eqn:W; cbn [negb orb]; [|now destruct (in_txt i)].
    unfold txt_wf in W. destruct (in_txt i) as [t|]; [|discriminate].
    apply andb_true_iff in W. destruct W as [W Ls]. apply andb_true_iff in W. destruct W as [Hk Lk].
    destruct (model_txt i t) as [p|e|] eqn:E; cbn [map_res inspect_ok]; try reflexivity.
    + unfold model_txt in E. apply (from_txt_strings_constructed (c_is_point i) (c_verify i) (c_dns_ok i)) in E.
      * apply accessors_total in E. apply E.
      * exact Hk.
      * unfold len in Lk. lia.
      * unfold len in Ls. lia.
    + unfold model_txt, from_txt_strings in E. destruct (t_build t) as [pl|]; [|discriminate].
      destruct (PKARR_MAX_DNS_PACKET_SIZE <? len pl); discriminate.
Qed.

(* ---- the monitor in readable form ---- *)
Definition accepted_prop (i : input) (key bs : bytes) (r : res obs) : Prop :=
  match r with
  | Ok o => ob_bytes o = bs /\ c_is_point i key = true /\
            c_verify i key (signable (ts_of bs) (payload_of bs)) (sig_of bs) = true /\
            c_dns_ok i (payload_of bs) = true /\ ob_key o = Ok key /\ obs_total o = true
  | Err _ => True
  | Panic => False
  end.
Definition inspect_prop (r : res obs) : Prop :=
  match r with Ok o => obs_total o = true | Err _ => True | Panic => False end.

Lemma res_bytes_eqb_ok (r : res bytes) k : res_eqb bytes_eqb r (Ok k) = true <-> r = Ok k.
Proof.
  destruct r as [a|e|]; cbn; split; intros H; try discriminate.
  - apply bytes_eqb_eq in H. now subst.
  - injection H as ->. apply bytes_eqb_refl.
Qed.

Lemma accepted_ok_spec i key bs r : accepted_ok i key bs r = true <-> accepted_prop i key bs r.
Proof.
  destruct r as [o|e|]; cbn [accepted_ok accepted_prop]; [|tauto|split; [discriminate | tauto]].
  rewrite !andb_true_iff, res_bytes_eqb_ok. split.
  - intros [[[[[H1 H2] H3] H4] H5] H6]. apply bytes_eqb_eq in H1. tauto.
  - intros (H1 & H2 & H3 & H4 & H5 & H6). rewrite H1, bytes_eqb_refl. tauto.
Qed.

Lemma inspect_ok_spec r : inspect_ok r = true <-> inspect_prop r.
Proof. destruct r; cbn; [tauto | tauto | split; [discriminate | tauto]]. Qed.

Lemma monitor_spec i o :
  len (in_key2 i) = 32 ->
  (monitor i o = true <->
   accepted_prop i (key_of (all_bytes i)) (all_bytes i) (r_from_bytes o) /\
   inspect_prop (r_unchecked o) /\ inspect_prop (r_parts o) /\
   (forall r, r_relay o = Some r -> accepted_prop i (key_of (all_bytes i)) (all_bytes i) r) /\
   (forall r, r_relay2 o = Some r ->
      accepted_prop i (in_key2 i) (in_key2 i ++ skipn 32 (all_bytes i)) r) /\
   (forall r, r_txt o = Some r -> txt_wf i = true -> inspect_prop r)).
Proof.
  intros L. unfold monitor. cbv zeta. rewrite !andb_true_iff, accepted_ok_spec, !inspect_ok_spec.
  replace (len (in_key2 i) =? 32) with true by lia. cbn [negb orb].
  split.
  - intros [[[[[H1 H2] H3] H4] H5] H6]. repeat split; auto.
    + intros r E. rewrite E in H4. now apply accepted_ok_spec.
    + intros r E. rewrite E in H5. now apply accepted_ok_spec.
    + intros r E W. rewrite E, W in H6. cbn [negb orb] in H6. now apply inspect_ok_spec.
  - intros (H1 & H2 & H3 & H4 & H5 & H6). repeat split; auto.
    + destruct (r_relay o) as [r|]; [|reflexivity]. apply accepted_ok_spec. now apply H4.
    + destruct (r_relay2 o) as [r|]; [|reflexivity]. apply accepted_ok_spec. now apply H5.
    + destruct (r_txt o) as [r|]; [|reflexivity]. destruct (txt_wf i) eqn:W; cbn [negb orb]; [|reflexivity].
      apply inspect_ok_spec. now apply H6.
Qed.
