(* C04 — proofs: every datagram frame the relay writes to a connection stems from
   exactly one accepted send addressed to that connection's id while it was the
   active one, carries the authenticated sender and the unchanged datagram, and
   frames keep the order of acceptance.  Over all traces of Model/C04.v. *)
From V Require Import Lib.Base Gen.Consts.
From V Require Import Model.C04.
From V Require Import Model.C05.
From V Require Import Proofs.C05.
From Coq Require Import ZifyBool Sorted.
Import C04.
Open Scope N_scope.

(* ------------------------------------------------------------------ how one step changes a connection *)
Definition csame (c c' : conn) : Prop :=
  c_id c' = c_id c /\ c_pq c' = c_pq c /\ c_out c' = c_out c.

(* s' has the same connections as s up to fields that do not matter here *)
Definition nsame (s s' : state) : Prop :=
  length (conns s') = length (conns s) /\
  forall k c', getc s' k = Some c' -> exists c, getc s k = Some c /\ csame c c'.

Lemma csame_refl c : csame c c.
Proof. repeat split. Qed.

Lemma nsame_refl s : nsame s s.
Proof. split; [reflexivity|]. intros k c' H. exists c'. split; [exact H|apply csame_refl]. Qed.

Lemma nsame_trans s1 s2 s3 : nsame s1 s2 -> nsame s2 s3 -> nsame s1 s3.
Proof.
  intros [L1 H1] [L2 H2]. split; [congruence|].
  intros k c3 Hg. destruct (H2 k c3 Hg) as (c2 & Hg2 & E2 & E2' & E2'').
  destruct (H1 k c2 Hg2) as (c1 & Hg1 & E1 & E1' & E1'').
  exists c1. split; [exact Hg1|]. repeat split; congruence.
Qed.

Lemma nsame_conns s s' : conns s' = conns s -> nsame s s'.
Proof.
  intros E. split; [now rewrite E|]. intros k c' H. exists c'. split; [|apply csame_refl].
  unfold getc in *. now rewrite <- E.
Qed.

Definition neutral (f : conn -> conn) : Prop := forall c, csame c (f c).

Lemma nsame_updc s k f : neutral f -> nsame s (updc s k f).
Proof.
  intros Hf. split; [apply conns_updc_length|].
  intros j c'. rewrite getc_updc. destruct (N.eqb_spec j k) as [->|_].
  - destruct (getc s k) as [c|]; cbn; [|discriminate]. intros [= <-]. exists c. split; [reflexivity|apply Hf].
  - intros H. exists c'. split; [exact H|apply csame_refl].
Qed.

Ltac neutral_tac := let c0 := fresh "c" in intros c0; repeat split.

Lemma nsame_push_msg cfg s k m : nsame s (push_msg cfg s k m).
Proof.
  unfold push_msg. destruct (getc s k); [|apply nsame_refl].
  destruct (q_try cfg c (c_mq c)); try apply nsame_refl.
  apply nsame_updc. neutral_tac.
Qed.

Lemma nsame_push_health cfg s k code : nsame s (push_health cfg s k code).
Proof. unfold push_health. destruct (getc s k); [apply nsame_push_msg|apply nsame_refl]. Qed.

Lemma nsame_fold_gone cfg id peers : forall s,
  nsame s (fold_left (fun s peer =>
                 match find_entry peer (reg s) with
                 | Some pe => flag (push_msg cfg s (e_active pe) (MGone id)) B_GONE
                 | None => s
                 end) peers s).
Proof.
  induction peers as [|p peers IH]; intros s; cbn [fold_left]; [apply nsame_refl|].
  eapply nsame_trans; [|apply IH]. destruct (find_entry p (reg s)); [|apply nsame_refl].
  eapply nsame_trans; [apply nsame_push_msg|apply nsame_conns; reflexivity].
Qed.

Lemma nsame_fold_cop targets : forall s,
  nsame s (fold_left (fun s j => updc s j with_cop) targets s).
Proof.
  induction targets as [|j targets IH]; intros s; cbn [fold_left]; [apply nsame_refl|].
  eapply nsame_trans; [|apply IH]. apply nsame_updc. neutral_tac.
Qed.

Lemma nsame_do_insert cfg s k c : nsame s (do_insert cfg s k c).
Proof.
  unfold do_insert.
  assert (H1 : nsame s (updc s k with_ins)) by (apply nsame_updc; neutral_tac).
  destruct (find_entry (c_id c) (reg (updc s k with_ins))).
  - eapply nsame_trans; [exact H1|].
    eapply nsame_trans; [|apply nsame_conns; reflexivity].
    eapply nsame_trans; [|apply nsame_push_health]. apply nsame_conns. reflexivity.
  - eapply nsame_trans; [exact H1|]. apply nsame_conns. reflexivity.
Qed.

Lemma nsame_do_unregister cfg s k c : nsame s (do_unregister cfg s k c).
Proof.
  unfold do_unregister.
  assert (H1 : nsame s (updc s k (with_phase Unregistered))) by (apply nsame_updc; neutral_tac).
  destruct (find_entry (c_id c) (reg (updc s k (with_phase Unregistered)))); [|exact H1].
  destruct (e_active e =? k).
  - destruct (last_opt (e_inactive e)) as [[rest l]|].
    + eapply nsame_trans; [exact H1|].
      eapply nsame_trans; [|apply nsame_conns; reflexivity].
      eapply nsame_trans; [|apply nsame_push_health]. apply nsame_conns. reflexivity.
    + eapply nsame_trans; [exact H1|].
      eapply nsame_trans; [|apply nsame_fold_gone]. apply nsame_conns. reflexivity.
  - eapply nsame_trans; [exact H1|]. apply nsame_conns. reflexivity.
Qed.

Lemma nsame_do_disconnect s id o : nsame s (do_disconnect s id o).
Proof.
  unfold do_disconnect. destruct (find_entry id (reg s)); [|apply nsame_refl]. apply nsame_fold_cop.
Qed.

(* The ways a step can change connection k. *)
Inductive crel (cfg : cfg) (s : state) (e : event) (k : N) (c c' : conn) : Prop :=
| CR_same : csame c c' -> crel cfg s e k c c'
| CR_ctrl x : (forall p, x <> FD p) -> c_id c' = c_id c -> c_pq c' = c_pq c ->
              c_out c' = c_out c ++ [x] -> crel cfg s e k c c'
| CR_push k' raw cs dst d en :
    e = ERecv k' raw -> getc s k' = Some cs -> c_phase cs = Running ->
    decode (valid cfg) raw = Ok (CDatagrams dst d) ->
    find_entry dst (reg s) = Some en -> e_active en = k ->
    c_id c' = c_id c -> c_pq c' = c_pq c ++ [mkPkt (c_id cs) d (clock s)] ->
    c_out c' = c_out c -> crel cfg s e k c c'
| CR_write p q : c_pq c = p :: q -> c_pq c' = q -> c_out c' = c_out c ++ [FD p] ->
                 c_id c' = c_id c -> crel cfg s e k c c'
| CR_droppkt p q : c_pq c = p :: q -> c_pq c' = q -> c_out c' = c_out c ->
                   c_id c' = c_id c -> crel cfg s e k c c'.

Definition srel (cfg : cfg) (s : state) (e : event) (s' : state) : Prop :=
  forall k c', getc s' k = Some c' ->
    (exists c, getc s k = Some c /\ crel cfg s e k c c') \/
    (getc s k = None /\ c_pq c' = [] /\ c_out c' = []).

Lemma srel_nsame cfg s e s' : nsame s s' -> srel cfg s e s'.
Proof.
  intros [_ H] k c' Hg. left. destruct (H k c' Hg) as (c & Hc & Hs).
  exists c. split; [exact Hc|now apply CR_same].
Qed.

(* an update of one connection, all others untouched *)
Lemma srel_updc cfg s e k f :
  (forall c, getc s k = Some c -> crel cfg s e k c (f c)) -> srel cfg s e (updc s k f).
Proof.
  intros Hf j c'. rewrite getc_updc. destruct (N.eqb_spec j k) as [->|_].
  - destruct (getc s k) as [c|] eqn:E; cbn; [|discriminate]. intros [= <-].
    left. exists c. split; [reflexivity|]. apply Hf. reflexivity.
  - intros H. left. exists c'. split; [exact H|]. apply CR_same, csame_refl.
Qed.

Lemma srel_conns cfg s e s1 s2 : conns s2 = conns s1 -> srel cfg s e s1 -> srel cfg s e s2.
Proof. intros E H k c' Hg. apply H. unfold getc in *. now rewrite <- E. Qed.

Lemma running_phase' c : is_running c = true -> c_phase c = Running.
Proof. apply running_phase. Qed.

Lemma step_body_srel cfg s e : srel cfg s e (step_body cfg s e).
Proof.
  destruct e; cbn [step_body].
  - (* spawn *)
    intros j c'. unfold getc. cbn [conns]. intros Hg.
    destruct (Nat.lt_ge_cases (N.to_nat j) (length (conns s))) as [Hlt|Hge].
    + rewrite nth_error_app1 in Hg by exact Hlt. left. exists c'. split; [exact Hg|apply CR_same, csame_refl].
    + right. split; [now apply nth_error_None|].
      rewrite nth_error_app2 in Hg by exact Hge.
      destruct (N.to_nat j - length (conns s))%nat as [|n]; cbn in Hg.
      * injection Hg as <-. split; reflexivity.
      * destruct n; discriminate.
  - destruct (getc s k) as [c|]; [|apply srel_nsame, nsame_refl].
    destruct (c_ins c); [apply srel_nsame, nsame_refl|]. apply srel_nsame, nsame_do_insert.
  - (* recv *)
    destruct (getc s k) as [c|] eqn:Hg; [|apply srel_nsame, nsame_refl].
    destruct (is_running c) eqn:Hr; [|apply srel_nsame, nsame_refl].
    unfold handle_frame. destruct (decode (valid cfg) raw) as [[dst d|p|p]|?|] eqn:Hd.
    + destruct (forwardable d); [|apply srel_nsame, nsame_conns; reflexivity].
      unfold send_packet. destruct (find_entry dst (reg s)) as [en|] eqn:Hf;
        [|apply srel_nsame, nsame_conns; reflexivity].
      destruct (getc s (e_active en)) as [ca|] eqn:Ha; [|apply srel_nsame, nsame_refl].
      destruct (q_try cfg ca (c_pq ca)).
      * eapply srel_conns; [reflexivity|]. apply srel_updc. intros c0 Hc0.
        eapply (CR_push cfg s _ _ c0 _ k raw c dst d en); eauto using running_phase.
      * apply srel_nsame, nsame_conns; reflexivity.
      * eapply srel_conns; [reflexivity|]. apply srel_nsame, nsame_updc. neutral_tac.
    + apply srel_updc. intros c0 _. eapply (CR_ctrl _ _ _ _ _ _ (FPong p)); try reflexivity. discriminate.
    + apply srel_nsame, nsame_refl.
    + eapply srel_conns; [reflexivity|]. apply srel_nsame, nsame_updc. neutral_tac.
    + eapply srel_conns; [reflexivity|]. apply srel_nsame, nsame_updc. neutral_tac.
  - destruct (getc s k) as [c|]; [|apply srel_nsame, nsame_refl].
    destruct (is_running c); [|apply srel_nsame, nsame_refl]. apply srel_nsame, nsame_updc. neutral_tac.
  - destruct (getc s k) as [c|]; [|apply srel_nsame, nsame_refl].
    destruct (is_running c); [|apply srel_nsame, nsame_refl]. apply srel_nsame, nsame_updc. neutral_tac.
  - destruct (getc s k) as [c|]; [|apply srel_nsame, nsame_refl].
    destruct (is_running c); [|apply srel_nsame, nsame_refl].
    apply srel_updc. intros c0 _. eapply (CR_ctrl _ _ _ _ _ _ FPing); try reflexivity. discriminate.
  - (* write pkt *)
    destruct (getc s k) as [c|] eqn:Hg; [|apply srel_nsame, nsame_refl].
    destruct (is_running c); [|apply srel_nsame, nsame_refl].
    destruct (c_pq c) as [|p q] eqn:Hq; [apply srel_nsame, nsame_refl|].
    destruct (sink_ok (p_dg p)); (eapply srel_conns; [reflexivity|]); apply srel_updc;
      intros c0 Hc0; rewrite Hg in Hc0; injection Hc0 as <-.
    + eapply CR_write; eauto.
    + eapply CR_droppkt; eauto.
  - destruct (getc s k) as [c|] eqn:Hg; [|apply srel_nsame, nsame_refl].
    destruct (is_running c); [|apply srel_nsame, nsame_refl].
    destruct (c_mq c) as [|m q]; [apply srel_nsame, nsame_refl|].
    apply srel_updc. intros c0 _. eapply (CR_ctrl _ _ _ _ _ _ (frame_of_msg m)); try reflexivity.
    destruct m; discriminate.
  - apply srel_nsame, nsame_do_disconnect.
  - destruct (getc s k) as [c|]; [|apply srel_nsame, nsame_refl].
    destruct (is_running c && (c_cop c || c_cint c)); [|apply srel_nsame, nsame_refl].
    eapply srel_conns; [reflexivity|]. apply srel_nsame, nsame_updc. neutral_tac.
  - destruct (getc s k) as [c|]; [|apply srel_nsame, nsame_refl].
    destruct (c_phase c); try apply srel_nsame, nsame_refl. apply srel_nsame, nsame_do_unregister.
  - destruct (getc s k) as [c|]; [|apply srel_nsame, nsame_refl].
    destruct (c_phase c); try apply srel_nsame, nsame_refl. apply srel_nsame, nsame_updc. neutral_tac.
Qed.

Lemma step_srel cfg s e : srel cfg s e (step cfg s e).
Proof. unfold step. apply (srel_conns cfg s e (step_body cfg s e)); [reflexivity|apply step_body_srel]. Qed.

(* ------------------------------------------------------------------ the invariant *)
Fixpoint out_pkts (o : list frame) : list pkt :=
  match o with
  | [] => []
  | FD p :: r => p :: out_pkts r
  | _ :: r => out_pkts r
  end.

Lemma out_pkts_app a b : out_pkts (a ++ b) = out_pkts a ++ out_pkts b.
Proof. induction a as [|x a IH]; cbn; [reflexivity|]. destruct x; cbn; now rewrite ?IH. Qed.

Lemma out_pkts_in o p : In p (out_pkts o) <-> In (FD p) o.
Proof.
  induction o as [|x o IH]; cbn; [tauto|]. destruct x; cbn; rewrite ?IH.
  - split; intros [H|H]; auto; [left; congruence|left; congruence].
  - split; [auto|intros [H|H]; [discriminate|auto]].
  - split; [auto|intros [H|H]; [discriminate|auto]].
  - split; [auto|intros [H|H]; [discriminate|auto]].
  - split; [auto|intros [H|H]; [discriminate|auto]].
  - split; [auto|intros [H|H]; [discriminate|auto]].
Qed.

(* delivered, then still queued: in order of acceptance *)
Definition tags (c : conn) : list N := map p_tag (out_pkts (c_out c)) ++ map p_tag (c_pq c).

(* Packet p, held by connection k whose id is [id], was accepted by the step at position
   p_tag p of the trace: that step read a frame from a running connection c' whose
   authenticated id is p_src p; the decoder turned it into a datagram for [id] with exactly
   p's ecn, segment size and contents; and at that moment k was the active connection of [id]. *)
Definition accepted (cfg : cfg) (t : list event) (k : N) (id : bytes) (p : pkt) : Prop :=
  exists c' raw cs en,
    nth_error t (N.to_nat (p_tag p)) = Some (ERecv c' raw) /\
    decode (valid cfg) raw = Ok (CDatagrams id (p_dg p)) /\
    getc (run cfg (firstn (N.to_nat (p_tag p)) t)) c' = Some cs /\
    c_phase cs = Running /\ c_id cs = p_src p /\
    find_entry id (reg (run cfg (firstn (N.to_nat (p_tag p)) t))) = Some en /\ e_active en = k.

Record dinv (cfg : cfg) (t : list event) (k : N) (c : conn) : Prop := mkDinv {
  d_acc : forall p, In p (c_pq c) \/ In (FD p) (c_out c) -> accepted cfg t k (c_id c) p;
  d_sorted : StronglySorted N.lt (tags c);
  d_bound : Forall (fun g => g < len t) (tags c)
}.

Lemma accepted_weaken cfg t e k id p : accepted cfg t k id p -> accepted cfg (t ++ [e]) k id p.
Proof.
  intros (c' & raw & cs & en & H1 & H2 & H3 & H4 & H5 & H6 & H7).
  assert (Hlt : (N.to_nat (p_tag p) < length t)%nat) by (apply nth_error_Some; congruence).
  exists c', raw, cs, en.
  rewrite nth_error_app1 by exact Hlt.
  rewrite firstn_app. replace (N.to_nat (p_tag p) - length t)%nat with 0%nat by lia.
  cbn [firstn]. rewrite app_nil_r. repeat split; assumption.
Qed.

Lemma clock_push_msg cfg s k m : clock (push_msg cfg s k m) = clock s.
Proof.
  unfold push_msg. destruct (getc s k); [|reflexivity].
  destruct (q_try cfg c (c_mq c)); reflexivity.
Qed.

Lemma clock_push_health cfg s k code : clock (push_health cfg s k code) = clock s.
Proof. unfold push_health. destruct (getc s k); [apply clock_push_msg|reflexivity]. Qed.

Lemma clock_fold_gone cfg id peers : forall s,
  clock (fold_left (fun s peer =>
                 match find_entry peer (reg s) with
                 | Some pe => flag (push_msg cfg s (e_active pe) (MGone id)) B_GONE
                 | None => s
                 end) peers s) = clock s.
Proof.
  induction peers as [|p peers IH]; intros s; cbn [fold_left]; [reflexivity|].
  rewrite IH. destruct (find_entry p (reg s)); [|reflexivity].
  change (clock (push_msg cfg s (e_active e) (MGone id)) = clock s). apply clock_push_msg.
Qed.

Lemma clock_fold_cop targets : forall s,
  clock (fold_left (fun s j => updc s j with_cop) targets s) = clock s.
Proof.
  induction targets as [|j targets IH]; intros s; cbn [fold_left]; [reflexivity|]. now rewrite IH.
Qed.

Lemma clock_step_body cfg s e : clock (step_body cfg s e) = clock s.
Proof.
  destruct e; cbn [step_body]; try reflexivity.
  - destruct (getc s k); [|reflexivity]. destruct (c_ins c); [reflexivity|].
    unfold do_insert. destruct (find_entry (c_id c) (reg (updc s k with_ins))); [|reflexivity].
    unfold flag. cbn [clock]. now rewrite clock_push_health.
  - destruct (getc s k); [|reflexivity]. destruct (is_running c); [|reflexivity].
    unfold handle_frame. destruct (decode (valid cfg) raw) as [[dst d|p|p]|?|]; try reflexivity.
    destruct (forwardable d); [|reflexivity]. unfold send_packet.
    destruct (find_entry dst (reg s)); [|reflexivity].
    destruct (getc s (e_active e)); [|reflexivity].
    destruct (q_try cfg c0 (c_pq c0)); reflexivity.
  - destruct (getc s k); [|reflexivity]. destruct (is_running c); reflexivity.
  - destruct (getc s k); [|reflexivity]. destruct (is_running c); reflexivity.
  - destruct (getc s k); [|reflexivity]. destruct (is_running c); reflexivity.
  - destruct (getc s k); [|reflexivity]. destruct (is_running c); [|reflexivity].
    destruct (c_pq c); [reflexivity|]. destruct (sink_ok (p_dg p)); reflexivity.
  - destruct (getc s k); [|reflexivity]. destruct (is_running c); [|reflexivity].
    destruct (c_mq c); reflexivity.
  - unfold do_disconnect. destruct (find_entry id (reg s)); [|reflexivity]. apply clock_fold_cop.
  - destruct (getc s k); [|reflexivity].
    destruct (is_running c && (c_cop c || c_cint c)); reflexivity.
  - destruct (getc s k); [|reflexivity]. destruct (c_phase c); try reflexivity.
    unfold do_unregister.
    destruct (find_entry (c_id c) (reg (updc s k (with_phase Unregistered)))); [|reflexivity].
    destruct (e_active e =? k); [|reflexivity].
    destruct (last_opt (e_inactive e)) as [[rest l]|].
    + unfold flag. cbn [clock]. now rewrite clock_push_health.
    + now rewrite clock_fold_gone.
  - destruct (getc s k); [|reflexivity]. destruct (c_phase c); reflexivity.
Qed.

Lemma clock_run cfg t : clock (run cfg t) = len t.
Proof.
  induction t as [|e t IH] using rev_ind; [reflexivity|].
  rewrite run_snoc. unfold step. cbn [clock tick]. rewrite clock_step_body, IH.
  unfold len. rewrite app_length. cbn. lia.
Qed.

Lemma sorted_snoc l g : StronglySorted N.lt l -> Forall (fun x => x < g) l -> StronglySorted N.lt (l ++ [g]).
Proof.
  induction l as [|a l IH]; intros Hs Hb; cbn.
  - constructor; constructor.
  - inversion Hs as [|? ? Hs' Ha]; subst. inversion Hb as [|? ? Hag Hb']; subst.
    constructor; [now apply IH|]. apply Forall_app. split; [exact Ha|constructor; [exact Hag|constructor]].
Qed.

Lemma Forall_lt_mono (l : list N) a b : a <= b -> Forall (fun g => g < a) l -> Forall (fun g => g < b) l.
Proof. intros Hab H. eapply Forall_impl; [|exact H]. cbn. intros; lia. Qed.

Lemma dinv_step cfg t e s k c c' :
  s = run cfg t -> reg_ok s -> getc s k = Some c ->
  dinv cfg t k c -> crel cfg s e k c c' -> dinv cfg (t ++ [e]) k c'.
Proof.
  intros Hs HR Hg [D1 D2 D3] Hrel.
  assert (Hlen : len (t ++ [e]) = len t + 1) by (unfold len; rewrite app_length; cbn; lia).
  assert (D3' : Forall (fun g => g < len (t ++ [e])) (tags c))
    by (eapply Forall_lt_mono; [|exact D3]; lia).
  destruct Hrel as [(E1 & E2 & E3)|x Hx E1 E2 E3|k' raw cs dst d en He Hk' Hph Hd Hf Hact E1 E2 E3
                   |p q Hq E2 E3 E1|p q Hq E2 E3 E1].
  - split.
    + intros p. rewrite E1, E2, E3. intros H. apply accepted_weaken. auto.
    + unfold tags. now rewrite E2, E3.
    + unfold tags. rewrite E2, E3. exact D3'.
  - assert (Ht : tags c' = tags c).
    { unfold tags. rewrite E2, E3, out_pkts_app.
      assert (out_pkts [x] = []) as -> by (destruct x; try reflexivity; exfalso; eapply Hx; reflexivity).
      now rewrite app_nil_r. }
    split.
    + intros p. rewrite E1, E2, E3. intros [H|H]; apply accepted_weaken; apply D1; [now left|right].
      apply in_app_or in H as [H|[H|[]]]; [exact H|]. exfalso. eapply Hx; eauto.
    + now rewrite Ht.
    + now rewrite Ht.
  - (* a new packet is accepted *)
    assert (Hclk : clock s = len t) by (rewrite Hs; apply clock_run).
    assert (Hid : c_id c = dst).
    { apply find_entry_some in Hf as [Hin Hid]. destruct (HR en Hin k (or_introl (eq_sym Hact))) as (c0 & Hg0 & Hc0).
      rewrite Hg in Hg0. injection Hg0 as <-. congruence. }
    assert (Ht : tags c' = tags c ++ [len t]).
    { unfold tags. rewrite E2, E3, map_app, app_assoc. cbn [map p_tag]. now rewrite Hclk. }
    split.
    + intros p. rewrite E1, E2, E3. intros [H|H].
      * apply in_app_or in H as [H|[<-|[]]]; [apply accepted_weaken; auto|].
        exists k', raw, cs, en. cbn [p_tag p_dg p_src]. rewrite Hclk.
        assert (Hn : N.to_nat (len t) = length t) by (unfold len; apply Nat2N.id).
        rewrite Hn, nth_error_app2, Nat.sub_diag by lia. cbn [nth_error].
        rewrite firstn_app, Nat.sub_diag, firstn_all. cbn [firstn]. rewrite app_nil_r.
        rewrite <- Hs, Hid. subst e. repeat split; auto.
      * apply accepted_weaken; auto.
    + rewrite Ht. apply sorted_snoc; assumption.
    + rewrite Ht. apply Forall_app. split; [exact D3'|]. constructor; [lia|constructor].
  - (* write: the head of the queue becomes the last delivered *)
    assert (Ht : tags c' = tags c).
    { unfold tags. rewrite E2, E3, Hq, out_pkts_app, map_app. cbn [out_pkts map].
      now rewrite <- app_assoc. }
    split.
    + intros p0. rewrite E1, E2, E3. intros [H|H]; apply accepted_weaken; apply D1.
      * left. rewrite Hq. now right.
      * apply in_app_or in H as [H|[H|[]]]; [now right|]. injection H as ->. left. rewrite Hq. now left.
    + now rewrite Ht.
    + now rewrite Ht.
  - (* the head of the queue is dropped *)
    assert (Hsub : forall P : N -> Prop, Forall P (tags c) -> Forall P (tags c')).
    { intros P H. unfold tags in *. rewrite E2, E3. rewrite Hq in H. cbn [map] in H.
      apply Forall_app in H as [H1 H2]. apply Forall_app. split; [exact H1|]. now inversion H2. }
    split.
    + intros p0. rewrite E1, E2, E3. intros [H|H]; apply accepted_weaken; apply D1.
      * left. rewrite Hq. now right.
      * now right.
    + unfold tags in *. rewrite E2, E3. rewrite Hq in D2. cbn [map] in D2.
      clear - D2. induction (map p_tag (out_pkts (c_out c))) as [|a l IH]; cbn in *.
      * now inversion D2.
      * inversion D2 as [|? ? Hs Ha]; subst. constructor; [now apply IH|].
        apply Forall_app in Ha as [Ha1 Ha2]. apply Forall_app. split; [exact Ha1|now inversion Ha2].
    + now apply Hsub.
Qed.

Lemma dinv_run cfg t : allc (dinv cfg t) (run cfg t).
Proof.
  induction t as [|e t IH] using rev_ind.
  - intros k c. unfold getc, run, run_from, init. cbn. destruct (N.to_nat k); discriminate.
  - rewrite run_snoc. intros k c' Hg.
    destruct (step_srel cfg (run cfg t) e k c' Hg) as [(c & Hc & Hrel)|(Hnone & Hq & Ho)].
    + destruct (Inv_run cfg t) as [_ HR].
      eapply dinv_step; eauto.
    + split.
      * intros p. rewrite Hq, Ho. intros [[]|[]].
      * unfold tags. rewrite Hq, Ho. constructor.
      * unfold tags. rewrite Hq, Ho. constructor.
Qed.

(* ------------------------------------------------------------------ the theorems *)
Lemma delivery_sound cfg t k c p :
  getc (run cfg t) k = Some c -> In (FD p) (c_out c) -> accepted cfg t k (c_id c) p.
Proof. intros Hg Hin. apply (d_acc _ _ _ _ (dinv_run cfg t k c Hg)). now right. Qed.

Lemma sorted_app_l l1 l2 : StronglySorted N.lt (l1 ++ l2) -> StronglySorted N.lt l1.
Proof.
  induction l1 as [|a l1 IH]; cbn; intros H; [constructor|].
  inversion H as [|? ? Hs Ha]; subst. constructor; [now apply IH|].
  apply Forall_app in Ha. tauto.
Qed.

(* frames are written in the order in which their datagrams were accepted *)
Lemma fifo cfg t k c :
  getc (run cfg t) k = Some c -> StronglySorted N.lt (map p_tag (out_pkts (c_out c))).
Proof. intros Hg. apply (sorted_app_l _ (map p_tag (c_pq c))). apply (d_sorted _ _ _ _ (dinv_run cfg t k c Hg)). Qed.

Lemma sorted_nth_lt l : StronglySorted N.lt l ->
  forall i j a b, nth_error l i = Some a -> nth_error l j = Some b -> (i < j)%nat -> a < b.
Proof.
  induction 1 as [|x l Hs IH Hx]; intros i j a b Hi Hj Hij; [destruct i; discriminate|].
  destruct j as [|j]; [lia|]. destruct i as [|i]; cbn in *.
  - injection Hi as <-. rewrite Forall_forall in Hx. apply Hx. eapply nth_error_In; eauto.
  - eapply IH; eauto. lia.
Qed.

(* at most once: two delivered frames with the same tag are the same frame of the same connection *)
Lemma at_most_once cfg t k1 k2 c1 c2 i1 i2 p1 p2 :
  getc (run cfg t) k1 = Some c1 -> getc (run cfg t) k2 = Some c2 ->
  nth_error (out_pkts (c_out c1)) i1 = Some p1 -> nth_error (out_pkts (c_out c2)) i2 = Some p2 ->
  p_tag p1 = p_tag p2 -> k1 = k2 /\ i1 = i2.
Proof.
  intros Hg1 Hg2 Hn1 Hn2 Ht.
  assert (Hk : k1 = k2).
  { pose proof (nth_error_In _ _ Hn1) as Hin1. pose proof (nth_error_In _ _ Hn2) as Hin2.
    apply out_pkts_in in Hin1, Hin2.
    destruct (delivery_sound cfg t k1 c1 p1 Hg1 Hin1) as (a1 & r1 & cs1 & en1 & A1 & A2 & _ & _ & _ & A6 & A7).
    destruct (delivery_sound cfg t k2 c2 p2 Hg2 Hin2) as (a2 & r2 & cs2 & en2 & B1 & B2 & _ & _ & _ & B6 & B7).
    rewrite Ht in A1, A6. rewrite A1 in B1. injection B1 as <- <-.
    rewrite A2 in B2. injection B2 as Hid _. rewrite Hid in A6. rewrite A6 in B6. injection B6 as <-.
    congruence. }
  subst k2. split; [reflexivity|]. rewrite Hg1 in Hg2. injection Hg2 as <-.
  pose proof (fifo cfg t k1 c1 Hg1) as Hs.
  assert (M1 : nth_error (map p_tag (out_pkts (c_out c1))) i1 = Some (p_tag p1)) by (rewrite nth_error_map, Hn1; reflexivity).
  assert (M2 : nth_error (map p_tag (out_pkts (c_out c1))) i2 = Some (p_tag p2)) by (rewrite nth_error_map, Hn2; reflexivity).
  destruct (Nat.lt_trichotomy i1 i2) as [H|[H|H]]; [|exact H|].
  - pose proof (sorted_nth_lt _ Hs _ _ _ _ M1 M2 H). lia.
  - pose proof (sorted_nth_lt _ Hs _ _ _ _ M2 M1 H). lia.
Qed.

(* FIFO per pair, spelled out: of two frames written to a connection, the one written
   first was accepted first (in particular for one sender) *)
Lemma fifo_per_pair cfg t k c i j p q :
  getc (run cfg t) k = Some c ->
  nth_error (out_pkts (c_out c)) i = Some p -> nth_error (out_pkts (c_out c)) j = Some q ->
  (i < j)%nat -> p_tag p < p_tag q.
Proof.
  intros Hg Hi Hj Hij. pose proof (fifo cfg t k c Hg) as Hs.
  eapply (sorted_nth_lt _ Hs i j); [rewrite nth_error_map, Hi|rewrite nth_error_map, Hj|exact Hij]; reflexivity.
Qed.

(* ------------------------------------------------------------------ what a connection holds is a
   sublist of what was sent to its id (used for the monitor) *)
Inductive sublist {A} : list A -> list A -> Prop :=
| sl_nil l : sublist [] l
| sl_skip x l1 l2 : sublist l1 l2 -> sublist l1 (x :: l2)
| sl_take x l1 l2 : sublist l1 l2 -> sublist (x :: l1) (x :: l2).

Lemma sublist_refl {A} (l : list A) : sublist l l.
Proof. induction l; [apply sl_nil|now apply sl_take]. Qed.

Lemma sublist_app_r {A} (l L L' : list A) : sublist l L -> sublist l (L ++ L').
Proof. induction 1; cbn; [apply sl_nil|now apply sl_skip|now apply sl_take]. Qed.

Lemma sublist_app_skip {A} (l L0 L : list A) : sublist l L -> sublist l (L0 ++ L).
Proof. intros H. induction L0; cbn; [exact H|now apply sl_skip]. Qed.

Lemma sublist_snoc {A} (l L : list A) x : sublist l L -> sublist (l ++ [x]) (L ++ [x]).
Proof.
  induction 1; cbn.
  - induction l as [|y l IH]; cbn; [apply sl_take, sl_nil|apply sl_skip, IH].
  - now apply sl_skip.
  - now apply sl_take.
Qed.

Lemma sublist_tail {A} (x : A) l L : sublist (x :: l) L -> sublist l L.
Proof.
  remember (x :: l) as xl eqn:E. induction 1 as [|y l1 l2 H IH|y l1 l2 H IH]; [discriminate| |].
  - apply sl_skip. auto.
  - injection E as -> ->. now apply sl_skip.
Qed.

Lemma sublist_trans {A} (a b c : list A) : sublist a b -> sublist b c -> sublist a c.
Proof.
  intros Hab Hbc. revert a Hab. induction Hbc as [l|x l1 l2 H IH|x l1 l2 H IH]; intros a Hab.
  - inversion Hab. constructor.
  - apply sl_skip. auto.
  - inversion Hab as [|y a1 a2 Ha|y a1 a2 Ha]; subst.
    + constructor.
    + apply sl_skip. auto.
    + apply sl_take. auto.
Qed.

Lemma sublist_filter {A} (f : A -> bool) l L : sublist l L -> sublist (filter f l) (filter f L).
Proof.
  induction 1; cbn; [apply sl_nil| |].
  - destruct (f x); [now apply sl_skip|assumption].
  - destruct (f x); [now apply sl_take|assumption].
Qed.

Lemma sublist_map {A B} (f : A -> B) l L : sublist l L -> sublist (map f l) (map f L).
Proof. induction 1; cbn; [apply sl_nil|now apply sl_skip|now apply sl_take]. Qed.

Lemma sublist_app_l {A} (l1 l2 L : list A) : sublist (l1 ++ l2) L -> sublist l1 L.
Proof.
  revert L. induction l1 as [|x l1 IH]; intros L H; [constructor|].
  cbn in H. remember (x :: l1 ++ l2) as xl eqn:E.
  induction H as [|y a b H IHs|y a b H IHs]; [discriminate| |].
  - apply sl_skip. auto.
  - injection E as -> ->. apply sl_take. auto.
Qed.

Lemma sublist_remove_mid {A} (a : list A) x b : sublist (a ++ b) (a ++ x :: b).
Proof. induction a; cbn; [apply sl_skip, sublist_refl|now apply sl_take]. Qed.

Lemma sublist_app2 {A} (a a' b b' : list A) : sublist a a' -> sublist b b' -> sublist (a ++ b) (a' ++ b').
Proof. induction 1; cbn; intros Hb; [now apply sublist_app_skip|apply sl_skip; auto|apply sl_take; auto]. Qed.

Definition dsend_of (idl : list bytes) (vld : bytes -> bool) (e : event) : list (bytes * bytes * dgram) :=
  match e with
  | ERecv k raw =>
      match nth_error idl (N.to_nat k), decode vld raw with
      | Some s, Ok (CDatagrams d dg) => [(s, d, dg)]
      | _, _ => []
      end
  | _ => []
  end.
Definition dsends_of idl vld (t : list event) := flat_map (dsend_of idl vld) t.
Definition to_dst (dst : bytes) (L : list (bytes * bytes * dgram)) : list (bytes * dgram) :=
  map (fun x => (fst (fst x), snd x)) (filter (fun x => bytes_eqb (snd (fst x)) dst) L).
Definition held (c : conn) : list (bytes * dgram) :=
  map (fun p => (p_src p, p_dg p)) (out_pkts (c_out c) ++ c_pq c).

Lemma to_dst_app d a b : to_dst d (a ++ b) = to_dst d a ++ to_dst d b.
Proof. unfold to_dst. now rewrite filter_app, map_app. Qed.

Lemma dsend_of_mono idl x vld e : sublist (dsend_of idl vld e) (dsend_of (idl ++ x) vld e).
Proof.
  destruct e; cbn; try constructor.
  destruct (nth_error idl (N.to_nat k)) as [s|] eqn:E; [|constructor].
  rewrite nth_error_app1 by (apply nth_error_Some; congruence). rewrite E. apply sublist_refl.
Qed.

Lemma dsends_of_mono idl x vld t : sublist (dsends_of idl vld t) (dsends_of (idl ++ x) vld t).
Proof.
  induction t as [|e t IH]; cbn; [constructor|]. apply sublist_app2; [apply dsend_of_mono|exact IH].
Qed.

Lemma to_dst_mono d L L' : sublist L L' -> sublist (to_dst d L) (to_dst d L').
Proof. intros H. unfold to_dst. apply sublist_map, sublist_filter, H. Qed.

Lemma getc_ids s k c : getc s k = Some c -> nth_error (ids s) (N.to_nat k) = Some (c_id c).
Proof. unfold getc, ids. intros H. rewrite nth_error_map, H. reflexivity. Qed.

Definition kinv (cfg : cfg) (t : list event) (s : state) : Prop :=
  forall k c, getc s k = Some c ->
    sublist (held c) (to_dst (c_id c) (dsends_of (ids s) (valid cfg) t)).

Lemma kinv_run cfg t : kinv cfg t (run cfg t).
Proof.
  induction t as [|e t IH] using rev_ind.
  - intros k c. unfold getc, run, run_from, init. cbn. destruct (N.to_nat k); discriminate.
  - rewrite run_snoc. set (s := run cfg t) in *. intros k c' Hg.
    assert (Hids : exists x, ids (step cfg s e) = ids s ++ x) by (rewrite ids_step; eauto).
    destruct Hids as [x Hx].
    assert (Hmono : forall id, sublist (to_dst id (dsends_of (ids s) (valid cfg) t))
                      (to_dst id (dsends_of (ids (step cfg s e)) (valid cfg) (t ++ [e])))).
    { intros id. unfold dsends_of. rewrite flat_map_app, to_dst_app. apply sublist_app_r.
      apply to_dst_mono. rewrite Hx. apply dsends_of_mono. }
    destruct (step_srel cfg s e k c' Hg) as [(c & Hc & Hrel)|(Hnone & Hq & Ho)].
    + specialize (IH k c Hc).
      destruct Hrel as [(E1 & E2 & E3)|y Hy E1 E2 E3|k' raw cs dst d en He Hk' Hph Hd Hf Hact E1 E2 E3
                       |p q Hq E2 E3 E1|p q Hq E2 E3 E1].
      * unfold held. rewrite E1, E2, E3. eapply sublist_trans; [exact IH|apply Hmono].
      * unfold held. rewrite E1, E2, E3, out_pkts_app.
        assert (out_pkts [y] = []) as -> by (destruct y; try reflexivity; exfalso; eapply Hy; reflexivity).
        rewrite app_nil_r. eapply sublist_trans; [exact IH|apply Hmono].
      * assert (Hid : c_id c = dst).
        { destruct (Inv_run cfg t) as [_ HR]. fold s in HR.
          apply find_entry_some in Hf as [Hin Hid].
          destruct (HR en Hin k (or_introl (eq_sym Hact))) as (c0 & Hg0 & Hc0).
          rewrite Hc in Hg0. injection Hg0 as <-. congruence. }
        unfold held. rewrite E1, E2, E3, app_assoc, map_app. cbn [map p_src p_dg].
        unfold dsends_of. rewrite flat_map_app, to_dst_app. cbn [flat_map]. rewrite app_nil_r.
        assert (Hlast : to_dst (c_id c) (dsend_of (ids (step cfg s e)) (valid cfg) e) = [(c_id cs, d)]).
        { subst e. cbn [dsend_of]. rewrite Hx, nth_error_app1, (getc_ids s k' cs Hk'), Hd.
          - unfold to_dst. cbn [filter fst snd]. rewrite Hid, bytes_eqb_refl. reflexivity.
          - apply nth_error_Some. rewrite (getc_ids s k' cs Hk'). discriminate. }
        rewrite Hlast. apply sublist_app2; [|apply sublist_refl].
        eapply sublist_trans; [exact IH|]. apply to_dst_mono. rewrite Hx. apply dsends_of_mono.
      * unfold held. rewrite E1, E2, E3, out_pkts_app. cbn [out_pkts]. rewrite <- app_assoc. cbn [app].
        rewrite <- Hq. eapply sublist_trans; [exact IH|apply Hmono].
      * unfold held. rewrite E1, E2, E3.
        eapply sublist_trans; [|eapply sublist_trans; [exact IH|apply Hmono]].
        unfold held. rewrite Hq. apply sublist_map. apply sublist_remove_mid.
    + unfold held. rewrite Hq, Ho. constructor.
Qed.

(* ------------------------------------------------------------------ frames read by the harness schedule *)
Definition erecvs (t : list event) : list (N * bytes) :=
  flat_map (fun e => match e with ERecv k raw => [(k, raw)] | _ => [] end) t.

Definition rinv (ops : list op) (x : st) : Prop := erecvs (rev (snd x)) = sends ops.

Lemma erecvs_snoc t e : erecvs (t ++ [e]) = erecvs t ++ erecvs [e].
Proof. unfold erecvs. now rewrite flat_map_app. Qed.

Lemma rinv_apply_other cfg ops x e :
  rinv ops x -> (forall k raw, e <> ERecv k raw) -> rinv ops (apply cfg x e).
Proof.
  unfold rinv, apply. cbn [snd rev]. intros H Hne. rewrite erecvs_snoc, H.
  destruct e; cbn; rewrite ?app_nil_r; try reflexivity. exfalso. eapply Hne; reflexivity.
Qed.

Lemma internal_not_recv e : internal e -> forall k raw, e <> ERecv k raw.
Proof. intros H k raw ->. exact H. Qed.

Lemma rinv_quiesce cfg ops : forall fuel x, rinv ops x -> rinv ops (quiesce fuel cfg x).
Proof.
  induction fuel as [|f IH]; intros x H; cbn [quiesce]; [exact H|].
  destruct (next_internal 0 (conns (fst x))) as [e|] eqn:E; [|exact H].
  apply IH. apply rinv_apply_other; [exact H|]. apply internal_not_recv. eapply next_internal_internal; eauto.
Qed.

Lemma rinv_settle_conn cfg ops k : forall fuel x, rinv ops x -> rinv ops (settle_conn fuel cfg k x).
Proof.
  induction fuel as [|f IH]; intros x H; cbn [settle_conn]; [exact H|].
  destruct (getc (fst x) k) as [c|]; [|exact H].
  destruct (conn_next k c) as [e|] eqn:E; [|exact H].
  apply IH. apply rinv_apply_other; [exact H|]. apply internal_not_recv. eapply conn_next_internal; eauto.
Qed.

Lemma erecvs_settle_conn cfg k fuel x :
  erecvs (rev (snd (settle_conn fuel cfg k x))) = erecvs (rev (snd x)).
Proof.
  pose proof (rinv_settle_conn cfg [OBurst (erecvs (rev (snd x)))] k fuel x) as H.
  unfold rinv in H. cbn [sends] in H. rewrite app_nil_r in H. apply H. reflexivity.
Qed.

Lemma rinv_burst cfg fuel : forall l x pre,
  erecvs (rev (snd x)) = pre -> erecvs (rev (snd (burst cfg fuel l x))) = pre ++ l.
Proof.
  induction l as [|kr l IH]; intros x pre H; cbn [burst]; [now rewrite app_nil_r|].
  assert (Ha : erecvs (rev (snd (apply cfg x (ERecv (fst kr) (snd kr))))) = pre ++ [kr]).
  { unfold apply. cbn [snd rev]. rewrite erecvs_snoc, H. cbn. now destruct kr. }
  assert (Hs : forall k, erecvs (rev (snd (settle_conn fuel cfg k (apply cfg x (ERecv (fst kr) (snd kr)))))) = pre ++ [kr]).
  { intros k. now rewrite erecvs_settle_conn. }
  destruct l as [|kr' l'].
  - cbn [burst]. apply Hs.
  - replace (pre ++ kr :: kr' :: l') with ((pre ++ [kr]) ++ kr' :: l') by now rewrite <- app_assoc.
    destruct (fst kr' =? fst kr); apply IH; [exact Ha|apply Hs].
Qed.

Lemma rinv_exec_op cfg ops x o : rinv ops x -> rinv (ops ++ [o]) (exec_op cfg x o).
Proof.
  intros H. unfold rinv in *. rewrite sends_app.
  assert (Hq : forall y, erecvs (rev (snd y)) = sends ops ++ sends [o] ->
                         erecvs (rev (snd (settle cfg y))) = sends ops ++ sends [o]).
  { intros y Hy. pose proof (rinv_quiesce cfg (ops ++ [o]) (fuel_of cfg (fst y)) y) as Hz.
    unfold rinv in Hz. rewrite sends_app in Hz. apply Hz. exact Hy. }
  assert (Hother : forall e, (forall k raw, e <> ERecv k raw) -> sends [o] = [] ->
                   erecvs (rev (snd (apply cfg x e))) = sends ops ++ sends [o]).
  { intros e He Ho. rewrite Ho, app_nil_r. apply (rinv_apply_other cfg ops x e H He). }
  destruct o; cbn [exec_op].
  - apply Hq. unfold apply. cbn [snd rev fst]. rewrite !erecvs_snoc, H. cbn. now rewrite !app_nil_r.
  - apply Hq, Hother; [discriminate|reflexivity].
  - apply Hq, Hother; [discriminate|reflexivity].
  - apply Hq. unfold apply. cbn [snd rev]. rewrite erecvs_snoc, H. reflexivity.
  - apply Hq. cbn [sends]. rewrite app_nil_r. now apply rinv_burst.
  - apply Hq, Hother; [discriminate|reflexivity].
  - destruct (getc (fst x) k); [apply Hq, Hother; [discriminate|reflexivity]|].
    cbn [sends]. now rewrite app_nil_r.
Qed.

Lemma rinv_exec_from cfg : forall rest done x,
  rinv done x -> rinv (done ++ rest) (fold_left (exec_op cfg) rest x).
Proof.
  induction rest as [|o rest IH]; intros done x H; cbn [fold_left]; [now rewrite app_nil_r|].
  replace (done ++ o :: rest) with ((done ++ [o]) ++ rest) by now rewrite <- app_assoc.
  apply IH. now apply rinv_exec_op.
Qed.

Lemma erecvs_exec cfg ops : erecvs (rev (snd (exec cfg ops))) = sends ops.
Proof. apply (rinv_exec_from cfg ops [] (init, [])). reflexivity. Qed.

(* ------------------------------------------------------------------ model satisfies monitor *)
Lemma dsends_of_erecvs idl vld t :
  dsends_of idl vld t =
  flat_map (fun kr => match nth_error idl (N.to_nat (fst kr)), decode vld (snd kr) with
                      | Some src, Ok (CDatagrams dst d) => [(src, dst, d)]
                      | _, _ => []
                      end) (erecvs t).
Proof.
  induction t as [|e t IH]; cbn; [reflexivity|].
  unfold erecvs in *. cbn [flat_map]. rewrite flat_map_app, <- IH. f_equal.
  destruct e; cbn; try reflexivity. now rewrite app_nil_r.
Qed.

(* the greedy boolean subsequence test finds any embedding *)
Inductive emb : list oframe -> list dgram -> Prop :=
| emb_nil ds : emb [] ds
| emb_skip d fs ds : emb fs ds -> emb fs (d :: ds)
| emb_take f d fs ds : dg_matches d f = true -> emb fs ds -> emb (f :: fs) (d :: ds).

Lemma emb_tail f fs ds : emb (f :: fs) ds -> emb fs ds.
Proof.
  remember (f :: fs) as l eqn:E. induction 1 as [|d ? ? H IH|? d ? ? Hm H IH]; [discriminate| |].
  - apply emb_skip. auto.
  - injection E as -> ->. now apply emb_skip.
Qed.

Lemma emb_subseq : forall ds fs, emb fs ds -> subseq fs ds = true.
Proof.
  induction ds as [|d ds IH]; intros fs H.
  - inversion H. reflexivity.
  - destruct fs as [|f fs]; [reflexivity|]. cbn [subseq].
    destruct (dg_matches d f) eqn:E.
    + apply IH. inversion H; subst; [eapply emb_tail; eauto|assumption].
    + apply IH. inversion H; subst; [assumption|congruence].
Qed.

Definition obs_pair (x : bytes * dgram) : oframe := OD (fst x) (d_ecn (snd x)) (d_seg (snd x)) (d_data (snd x)).

Lemma dg_matches_obs s d : dg_matches d (obs_pair (s, d)) = true.
Proof.
  cbn. rewrite N.eqb_refl, bytes_eqb_refl. destruct (d_seg d); cbn; [now rewrite N.eqb_refl|reflexivity].
Qed.

Lemma sublist_emb (l L : list (bytes * dgram)) :
  sublist l L -> emb (map obs_pair l) (map snd L).
Proof.
  induction 1 as [L|x l1 l2 H IH|x l1 l2 H IH]; cbn.
  - constructor.
  - apply emb_skip. exact IH.
  - apply emb_take; [destruct x; apply dg_matches_obs|exact IH].
Qed.

Lemma obs_out_held o :
  filter is_od (map obs_frame o) = map obs_pair (map (fun p => (p_src p, p_dg p)) (out_pkts o)).
Proof.
  induction o as [|f o IH]; cbn; [reflexivity|]. destruct f; cbn; now rewrite ?IH.
Qed.

Lemma from_src_filter src (fs : list oframe) :
  filter (from_src src) fs = filter (from_src src) (filter is_od fs).
Proof.
  induction fs as [|f fs IH]; cbn; [reflexivity|].
  destruct f; cbn; rewrite ?IH; try reflexivity.
Qed.

Lemma filter_map_obs_pair src (l : list (bytes * dgram)) :
  filter (from_src src) (map obs_pair l) = map obs_pair (filter (fun x => bytes_eqb (fst x) src) l).
Proof.
  induction l as [|x l IH]; cbn; [reflexivity|].
  destruct (bytes_eqb (fst x) src); cbn; now rewrite IH.
Qed.

Lemma pair_sends_to_dst (L : list (bytes * bytes * dgram)) src dst :
  map snd (filter (fun x => bytes_eqb (fst (fst x)) src && bytes_eqb (snd (fst x)) dst) L) =
  map snd (filter (fun x => bytes_eqb (fst x) src) (to_dst dst L)).
Proof.
  unfold to_dst. induction L as [|x L IH]; cbn; [reflexivity|].
  destruct (bytes_eqb (snd (fst x)) dst); cbn; rewrite ?andb_true_r, ?andb_false_r.
  - destruct (bytes_eqb (fst (fst x)) src); cbn; now rewrite IH.
  - exact IH.
Qed.

Lemma ids_prefix cfg t1 : forall t2, exists x, ids (run cfg (t1 ++ t2)) = ids (run cfg t1) ++ x.
Proof.
  induction t2 as [|e t2 IHt] using rev_ind; [exists []; now rewrite !app_nil_r|].
  rewrite app_assoc, run_snoc, ids_step. destruct IHt as [x ->]. rewrite <- app_assoc. eauto.
Qed.

Lemma combine_map2 {A B C} (f : A -> B) (g : A -> C) l :
  combine (map f l) (map g l) = map (fun x => (f x, g x)) l.
Proof. induction l as [|a l IH]; cbn; [reflexivity|now rewrite IH]. Qed.

Lemma model_monitor1 i : C04.monitor1 i (C04.model i) = true.
Proof.
  unfold C04.monitor1, C04.model.
  set (cfg := cfg_of i). set (ops := i_ops i).
  destruct (sched_exec cfg ops) as [H1 H2 H3].
  pose proof (erecvs_exec cfg ops) as HE.
  set (sF := fst (exec cfg ops)) in *. set (t := rev (snd (exec cfg ops))) in *.
  assert (Hds : dsends i = dsends_of (ids sF) (valid cfg) t).
  { unfold dsends. rewrite dsends_of_erecvs, HE, H2. reflexivity. }
  unfold observe. apply andb_true_intro. split.
  - rewrite map_length, <- H2. unfold ids. rewrite map_length. apply Nat.eqb_refl.
  - rewrite <- H2. unfold ids. rewrite combine_map2, forallb_forall.
    intros [id [alive fs]] Hin. apply in_map_iff in Hin as (c & E & Hc).
    injection E as <- <- <-. cbn [fst snd].
    apply In_nth_error in Hc as [n Hn].
    assert (Hg : getc sF (N.of_nat n) = Some c) by (unfold getc; now rewrite Nat2N.id).
    rewrite H1 in Hg. pose proof (kinv_run cfg t _ _ Hg) as HK. rewrite <- H1 in HK, Hg.
    unfold conn_sound. apply andb_true_intro. split.
    + apply forallb_forall. intros f Hf. apply in_map_iff in Hf as (fr & <- & Hfr).
      destruct fr; cbn; try reflexivity.
      apply existsb_exists.
      destruct (delivery_sound cfg t (N.of_nat n) c p) as (c' & raw & cs & en & A1 & A2 & A3 & A4 & A5 & _);
        [rewrite <- H1; exact Hg|exact Hfr|].
      exists (p_src p). split; [|apply bytes_eqb_refl].
      rewrite <- A5. fold ops. rewrite <- H2.
      (* the sender's connection exists in the final state with the same id *)
      destruct (ids_prefix cfg (firstn (N.to_nat (p_tag p)) t) (skipn (N.to_nat (p_tag p)) t)) as [x Hx].
      rewrite firstn_skipn in Hx.
      rewrite H1, Hx. apply in_or_app. left.
      eapply nth_error_In. apply getc_ids. exact A3.
    + apply forallb_forall. intros src _.
      apply emb_subseq. unfold pair_sends. rewrite Hds, pair_sends_to_dst.
      rewrite from_src_filter, obs_out_held, filter_map_obs_pair.
      apply sublist_emb. apply sublist_filter.
      eapply sublist_trans; [|exact HK]. unfold held. rewrite map_app. apply sublist_app_r, sublist_refl.
Qed.

(* ------------------------------------------------------------------ the monitor is the property *)
(* the frame a connection receives for datagram [d] of sender [src] *)
Definition frame_of (src : bytes) (d : dgram) : oframe := OD src (d_ecn d) (d_seg d) (d_data d).

(* One connection, authenticated as [dst], on whose socket the frames [fs] were observed:
   for EVERY id [src], the datagram frames among [fs] that name [src] as their sender are,
   in the order observed, exactly the frames [frame_of src d] of a sublist [ds] (order kept,
   every send used at most once) of [pair_sends i src dst] - the datagrams which the case's
   connections authenticated as [src] sent, in that order, in well-formed frames addressed to
   [dst].  In particular a frame naming a sender that sent nothing to [dst] (or an id of no
   connection at all) cannot occur, and ecn, segment size and contents are those sent. *)
Definition conn_spec (i : input) (dst : bytes) (fs : list oframe) : Prop :=
  forall src, exists ds,
    sublist ds (pair_sends i src dst) /\ filter (from_src src) fs = map (frame_of src) ds.

(* The run was observed (no harness failure), there is one observation per connection of the
   case, and each connection's frames satisfy [conn_spec] for that connection's id. *)
Definition spec (i : input) (o : output) : Prop :=
  exists l, o = Ok l /\
    Forall2 (fun dst x => conn_spec i dst (snd x)) (conn_ids (i_ops i)) l.

Lemma subseq_emb : forall ds fs, subseq fs ds = true -> emb fs ds.
Proof.
  induction ds as [|d ds IH]; intros [|f fs] H; cbn [subseq] in H; [constructor|discriminate|constructor|].
  destruct (dg_matches d f) eqn:E.
  - apply emb_take; [exact E|apply IH, H].
  - apply emb_skip. apply IH, H.
Qed.

Lemma opt_N_eqb_eq (a b : option N) : opt_eqb N.eqb a b = true -> a = b.
Proof. destruct a, b; cbn; try discriminate; try reflexivity. intros H. apply N.eqb_eq in H. now subst. Qed.

Lemma matches_frame_of src d f :
  dg_matches d f = true -> from_src src f = true -> f = frame_of src d.
Proof.
  destruct f; cbn; try discriminate. intros H Hs.
  apply andb_prop in H as [H H3]. apply andb_prop in H as [H1 H2].
  apply bytes_eqb_eq in Hs, H3. apply N.eqb_eq in H1. apply opt_N_eqb_eq in H2.
  unfold frame_of. congruence.
Qed.

Lemma dg_matches_frame_of src d : dg_matches d (frame_of src d) = true.
Proof. exact (dg_matches_obs src d). Qed.

Lemma emb_sublist src : forall fs ds, emb fs ds ->
  Forall (fun f => from_src src f = true) fs ->
  exists ds', sublist ds' ds /\ fs = map (frame_of src) ds'.
Proof.
  induction 1 as [ds|d fs ds H IH|f d fs ds Hm H IH]; intros HF.
  - exists []. split; [constructor|reflexivity].
  - destruct (IH HF) as (ds' & S & E). exists ds'. split; [now apply sl_skip|exact E].
  - inversion HF as [|? ? Hf HF']; subst. destruct (IH HF') as (ds' & S & E).
    exists (d :: ds'). split; [now apply sl_take|]. cbn [map]. f_equal; [|exact E].
    now apply matches_frame_of.
Qed.

Lemma sublist_emb_frames src (ds' ds : list dgram) :
  sublist ds' ds -> emb (map (frame_of src) ds') ds.
Proof.
  induction 1 as [L|x l1 l2 H IH|x l1 l2 H IH]; cbn [map].
  - constructor.
  - now apply emb_skip.
  - apply emb_take; [apply dg_matches_frame_of|exact IH].
Qed.

Lemma sublist_In {A} (l L : list A) x : sublist l L -> In x l -> In x L.
Proof.
  induction 1 as [L|y l1 l2 H IH|y l1 l2 H IH]; cbn; intros Hin; [contradiction|auto|].
  destruct Hin as [->|Hin]; auto.
Qed.

Lemma dsends_src i s d dg : In (s, d, dg) (dsends i) -> In s (conn_ids (i_ops i)).
Proof.
  unfold dsends. intros H. apply in_flat_map in H as (kr & _ & H).
  destruct (nth_error (conn_ids (i_ops i)) (N.to_nat (fst kr))) as [src|] eqn:E; [|contradiction].
  destruct (decode (valid (cfg_of i)) (snd kr)) as [[dst0 d0|?|?]|?|]; try contradiction.
  destruct H as [H|[]]. injection H as <- _ _. eapply nth_error_In; eauto.
Qed.

Lemma pair_sends_src i src dst d : In d (pair_sends i src dst) -> In src (conn_ids (i_ops i)).
Proof.
  unfold pair_sends. intros H. apply in_map_iff in H as ([[s d0] dg] & _ & H).
  apply filter_In in H as [H E]. cbn [fst snd] in E. apply andb_prop in E as [E _].
  apply bytes_eqb_eq in E. subst s. eapply dsends_src; eauto.
Qed.

Lemma existsb_bytes_In src (l : list bytes) : existsb (bytes_eqb src) l = true <-> In src l.
Proof.
  split.
  - intros H. apply existsb_exists in H as (k & Hk & E). apply bytes_eqb_eq in E. now subst.
  - intros H. apply existsb_exists. exists src. split; [exact H|apply bytes_eqb_refl].
Qed.

Lemma conn_sound_spec i dst fs : conn_sound i dst fs = true <-> conn_spec i dst fs.
Proof.
  unfold conn_sound, conn_spec. set (srcs := conn_ids (i_ops i)). split.
  - intros H. apply andb_prop in H as [H1 H2]. rewrite forallb_forall in H1, H2. intros src.
    destruct (existsb (bytes_eqb src) srcs) eqn:Ein.
    + apply existsb_bytes_In in Ein. specialize (H2 src Ein). apply subseq_emb in H2.
      apply (emb_sublist src) in H2; [exact H2|].
      apply Forall_forall. intros f Hf. apply filter_In in Hf. tauto.
    + exists []. split; [constructor|]. cbn [map].
      destruct (filter (from_src src) fs) as [|f r] eqn:Ef; [reflexivity|exfalso].
      assert (Hf : In f (filter (from_src src) fs)) by (rewrite Ef; now left).
      apply filter_In in Hf as [Hf Hs]. specialize (H1 f Hf).
      destruct f; try discriminate. cbn in Hs, H1. apply bytes_eqb_eq in Hs. subst src0.
      apply existsb_exists in H1 as (k & Hk & E). apply bytes_eqb_eq in E. subst k.
      apply existsb_bytes_In in Hk. congruence.
  - intros H. apply andb_true_intro. split; apply forallb_forall.
    + intros f Hf. destruct f; try reflexivity. cbn [is_od negb orb].
      destruct (H src) as (ds & S & E).
      assert (Hin : In (OD src ecn seg data) (filter (from_src src) fs)).
      { apply filter_In. split; [exact Hf|]. cbn. apply bytes_eqb_refl. }
      rewrite E in Hin. apply in_map_iff in Hin as (d & _ & Hd).
      apply (sublist_In _ _ _ S) in Hd. apply pair_sends_src in Hd.
      apply existsb_exists. exists src. split; [exact Hd|]. cbn. apply bytes_eqb_refl.
    + intros src _. destruct (H src) as (ds & S & E). rewrite E.
      apply emb_subseq, sublist_emb_frames, S.
Qed.

Lemma forallb_combine_Forall2 {A B} (f : A * B -> bool) : forall (l1 : list A) (l2 : list B),
  (Nat.eqb (length l2) (length l1) && forallb f (combine l1 l2) = true) <->
  Forall2 (fun a b => f (a, b) = true) l1 l2.
Proof.
  induction l1 as [|a l1 IH]; intros [|b l2]; cbn [length combine forallb Nat.eqb andb].
  - split; [constructor|reflexivity].
  - split; [discriminate|intros H; inversion H].
  - split; [discriminate|intros H; inversion H].
  - split.
    + intros H. apply andb_prop in H as [H1 H2]. apply andb_prop in H2 as [H2 H3].
      constructor; [exact H2|]. apply IH. now rewrite H1, H3.
    + intros H. inversion H as [|? ? ? ? H1 H2]; subst. apply IH in H2.
      apply andb_prop in H2 as [H2 H3]. now rewrite H1, H2, H3.
Qed.

Lemma Forall2_imp {A B} (P Q : A -> B -> Prop) l1 l2 :
  (forall a b, P a b -> Q a b) -> Forall2 P l1 l2 -> Forall2 Q l1 l2.
Proof. intros H. induction 1; constructor; auto. Qed.

Lemma monitor1_spec i o : C04.monitor1 i o = true <-> spec i o.
Proof.
  unfold C04.monitor1, spec. destruct o as [l|e|].
  - rewrite (forallb_combine_Forall2 (fun x => conn_sound i (fst x) (snd (snd x)))). cbn [fst snd].
    split.
    + intros H. exists l. split; [reflexivity|].
      eapply Forall2_imp; [|exact H]. cbn beta. intros a b. apply conn_sound_spec.
    + intros (l' & E & H). injection E as <-.
      eapply Forall2_imp; [|exact H]. cbn beta. intros a b. apply conn_sound_spec.
  - split; [discriminate|]. intros (l' & E & _). discriminate.
  - split; [discriminate|]. intros (l' & E & _). discriminate.
Qed.

(* [monitor] judges each connection on its own: it does NOT say that a datagram is not
   delivered on two connections of one id.  Witness: B is connected twice, A sends ONE
   datagram to B, and an observation showing that datagram on both of B's sockets passes. *)
Example monitor_is_per_connection :
  let i := mkInput 0 [(idA, true); (idB, true)]
             [OConnect idA 2; OConnect idB 2; OConnect idB 2; OSend 0 (4 :: idB ++ [1; 9])] in
  let o := Ok [(true, []); (true, [OD idA 1 None [9]]); (true, [OD idA 1 None [9]])] in
  length (dsends i) = 1%nat /\ C04.monitor1 i o = true /\ C04.agree i o = false.
Proof. vm_compute. repeat split. Qed.

(* ------------------------------------------------------------------ across the connections of one id *)
(* Frames carry no identity of the send they stem from, so on observed frames "not delivered
   on two connections of one id" is a statement about numbers: on all sockets of connections
   authenticated as [dst] together, the frame (src, d) shows up at most as often as
   connections authenticated as [src] sent d to [dst]. *)
Definition dgram_eqb (a b : dgram) : bool :=
  N.eqb (d_ecn a) (d_ecn b) && opt_eqb N.eqb (d_seg a) (d_seg b) && bytes_eqb (d_data a) (d_data b).
Definition sd_eqb (x y : bytes * dgram) : bool := bytes_eqb (fst x) (fst y) && dgram_eqb (snd x) (snd y).
Definition cnt (x : bytes * dgram) (l : list (bytes * dgram)) : nat := length (filter (sd_eqb x) l).

Fixpoint lsum (l : list nat) : nat := match l with [] => 0%nat | x :: r => (x + lsum r)%nat end.

(* how often frame [f] was observed on the sockets of the connections whose id is [dst] *)
Definition cross_count (idl : list bytes) (l : list (bool * list oframe)) (dst : bytes) (f : oframe) : nat :=
  lsum (map (fun x => if bytes_eqb (fst x) dst then count f (snd (snd x)) else 0%nat) (combine idl l)).

Definition cross_once (i : input) (src : bytes) (l : list (bool * list oframe)) : Prop :=
  forall dst d,
    (cross_count (conn_ids (i_ops i)) l dst (frame_of src d)
     <= length (filter (dgram_eqb d) (pair_sends i src dst)))%nat.

Lemma bytes_eqb_sym a b : bytes_eqb a b = bytes_eqb b a.
Proof.
  destruct (bytes_eqb a b) eqn:E1, (bytes_eqb b a) eqn:E2; try reflexivity.
  - apply bytes_eqb_eq in E1. subst. now rewrite bytes_eqb_refl in E2.
  - apply bytes_eqb_eq in E2. subst. now rewrite bytes_eqb_refl in E1.
Qed.

Lemma sublist_length {A} (l L : list A) : sublist l L -> (length l <= length L)%nat.
Proof. induction 1; cbn; lia. Qed.

Lemma sublist_cnt x l L : sublist l L -> (cnt x l <= cnt x L)%nat.
Proof. intros H. unfold cnt. apply sublist_length, sublist_filter, H. Qed.

Lemma cnt_app x a b : cnt x (a ++ b) = (cnt x a + cnt x b)%nat.
Proof. unfold cnt. now rewrite filter_app, app_length. Qed.

Lemma nth_error_tl {A} (l : list A) n : nth_error (tl l) n = nth_error l (S n).
Proof. destruct l; [destruct n|]; reflexivity. Qed.

Lemma sum_pointwise {A} (g : A -> nat) : forall (l' l : list A) (ind : nat -> nat),
  (forall n c', nth_error l' n = Some c' ->
     (exists c, nth_error l n = Some c /\ (g c' <= g c + ind n)%nat) \/ (nth_error l n = None /\ g c' = 0%nat)) ->
  (lsum (map g l') <= lsum (map g l) + lsum (map ind (seq 0 (length l'))))%nat.
Proof.
  induction l' as [|c' l' IH]; intros l ind H; [cbn; lia|].
  cbn [map lsum length seq].
  specialize (IH (tl l) (fun n => ind (S n))).
  assert (IH' : (lsum (map g l') <= lsum (map g (tl l)) + lsum (map ind (seq 1 (length l'))))%nat).
  { rewrite <- seq_shift, map_map. apply IH. intros n c1 Hn. rewrite nth_error_tl. apply (H (S n) c1 Hn). }
  destruct (H 0%nat c' eq_refl) as [(c & Hc & Hle)|(Hnone & Hz)].
  - destruct l as [|c0 r]; [discriminate|]. injection Hc as ->. cbn [map lsum tl] in *. lia.
  - destruct l as [|c0 r]; [|discriminate]. cbn [map lsum tl] in *. lia.
Qed.

Lemma ind_sum_zero k0 (dl : nat) : forall n a, (k0 < a)%nat ->
  lsum (map (fun k => if Nat.eqb k k0 then dl else 0%nat) (seq a n)) = 0%nat.
Proof.
  induction n as [|n IH]; intros a Ha; [reflexivity|]. cbn [seq map lsum].
  rewrite IH by lia. destruct (Nat.eqb_spec a k0); lia.
Qed.

Lemma ind_sum k0 (dl : nat) : forall n a,
  (lsum (map (fun k => if Nat.eqb k k0 then dl else 0%nat) (seq a n)) <= dl)%nat.
Proof.
  induction n as [|n IH]; intros a; [cbn; lia|]. cbn [seq map lsum].
  destruct (Nat.eqb_spec a k0) as [->|Hne].
  - rewrite ind_sum_zero by lia. lia.
  - specialize (IH (S a)). lia.
Qed.

Lemma lsum_le {A} (g h : A -> nat) l :
  (forall c, In c l -> (g c <= h c)%nat) -> (lsum (map g l) <= lsum (map h l))%nat.
Proof.
  induction l as [|c l IH]; intros H; [cbn; lia|]. cbn [map lsum].
  pose proof (H c (or_introl eq_refl)). assert (forall c0, In c0 l -> (g c0 <= h c0)%nat) by (intros; apply H; now right).
  specialize (IH H1). lia.
Qed.

Definition contrib (dst : bytes) (x : bytes * dgram) (c : conn) : nat :=
  if bytes_eqb (c_id c) dst then cnt x (held c) else 0%nat.
Definition total (dst : bytes) (x : bytes * dgram) (cs : list conn) : nat := lsum (map (contrib dst x) cs).

(* the connection whose queue a step pushes to (if it pushes) *)
Definition target (cfg : cfg) (s : state) (e : event) : N :=
  match e with
  | ERecv _ raw =>
      match decode (valid cfg) raw with
      | Ok (CDatagrams dst _) => match find_entry dst (reg s) with Some en => e_active en | None => 0 end
      | _ => 0
      end
  | _ => 0
  end.

Lemma held_same c c' : c_pq c' = c_pq c -> c_out c' = c_out c -> held c' = held c.
Proof. unfold held. now intros -> ->. Qed.

Lemma total_step cfg t e dst x :
  (total dst x (conns (step cfg (run cfg t) e)) <=
   total dst x (conns (run cfg t)) +
   cnt x (to_dst dst (dsend_of (ids (step cfg (run cfg t) e)) (valid cfg) e)))%nat.
Proof.
  set (s := run cfg t). set (s' := step cfg s e).
  set (dl := cnt x (to_dst dst (dsend_of (ids s') (valid cfg) e))).
  unfold total.
  eapply Nat.le_trans;
    [apply (sum_pointwise (contrib dst x) (conns s') (conns s)
              (fun k => if Nat.eqb k (N.to_nat (target cfg s e)) then dl else 0%nat))|].
  2:{ pose proof (ind_sum (N.to_nat (target cfg s e)) dl (length (conns s')) 0). lia. }
  intros n c' Hn.
  assert (Hg : getc s' (N.of_nat n) = Some c') by (unfold getc; now rewrite Nat2N.id).
  assert (Hgs : forall c, getc s (N.of_nat n) = c -> nth_error (conns s) n = c)
    by (unfold getc; now rewrite Nat2N.id).
  destruct (step_srel cfg s e _ c' Hg) as [(c & Hc & Hrel)|(Hnone & Hq & Ho)].
  - left. exists c. split; [now apply Hgs|].
    destruct Hrel as [(E1 & E2 & E3)|y Hy E1 E2 E3|k' raw cs dst0 d en He Hk' Hph Hd Hf Hact E1 E2 E3
                     |p q Hq E2 E3 E1|p q Hq E2 E3 E1]; unfold contrib; rewrite E1.
    + rewrite (held_same c c' E2 E3). lia.
    + assert (held c' = held c) as ->; [|lia]. unfold held. rewrite E2, E3, out_pkts_app.
      assert (out_pkts [y] = []) as -> by (destruct y; try reflexivity; exfalso; eapply Hy; reflexivity).
      now rewrite app_nil_r.
    + assert (Hid : c_id c = dst0).
      { destruct (Inv_run cfg t) as [_ HR]. fold s in HR.
        apply find_entry_some in Hf as [Hin Hid].
        destruct (HR en Hin _ (or_introl (eq_sym Hact))) as (c0 & Hg0 & Hc0).
        rewrite Hc in Hg0. injection Hg0 as <-. congruence. }
      assert (Ht : N.to_nat (target cfg s e) = n).
      { subst e. cbn [target]. rewrite Hd, Hf, Hact. apply Nat2N.id. }
      rewrite Ht, Nat.eqb_refl.
      assert (Hh : held c' = held c ++ [(c_id cs, d)]).
      { unfold held. rewrite E2, E3, app_assoc, map_app. reflexivity. }
      rewrite Hh, cnt_app.
      assert (Hdl : dl = if bytes_eqb dst0 dst then cnt x [(c_id cs, d)] else 0%nat).
      { unfold dl. subst e. cbn [dsend_of].
        assert (Hx : exists xs, ids s' = ids s ++ xs) by (unfold s'; rewrite ids_step; eauto).
        destruct Hx as [xs Hx]. rewrite Hx, nth_error_app1, (getc_ids s k' cs Hk'), Hd.
        - unfold to_dst. cbn [filter fst snd]. destruct (bytes_eqb dst0 dst); reflexivity.
        - apply nth_error_Some. rewrite (getc_ids s k' cs Hk'). discriminate. }
      rewrite Hdl, Hid. destruct (bytes_eqb dst0 dst); lia.
    + assert (held c' = held c) as ->; [|lia]. unfold held.
      rewrite E2, E3, Hq, out_pkts_app. cbn [out_pkts]. now rewrite <- app_assoc.
    + assert (Hs : sublist (held c') (held c)).
      { unfold held. rewrite E2, E3, Hq. apply sublist_map, sublist_remove_mid. }
      pose proof (sublist_cnt x _ _ Hs). destruct (bytes_eqb (c_id c) dst); lia.
  - right. split; [now apply Hgs|]. unfold contrib, held. rewrite Hq, Ho. cbn.
    now destruct (bytes_eqb (c_id c') dst).
Qed.

Lemma ginv_run cfg t dst x :
  (total dst x (conns (run cfg t)) <= cnt x (to_dst dst (dsends_of (ids (run cfg t)) (valid cfg) t)))%nat.
Proof.
  induction t as [|e t IH] using rev_ind; [cbn; lia|].
  pose proof (total_step cfg t e dst x) as Hs. rewrite run_snoc.
  set (s := run cfg t) in *. set (s' := step cfg s e) in *.
  assert (Hx : exists xs, ids s' = ids s ++ xs) by (unfold s'; rewrite ids_step; eauto).
  destruct Hx as [xs Hx].
  unfold dsends_of. rewrite flat_map_app, to_dst_app, cnt_app. cbn [flat_map]. rewrite app_nil_r.
  assert (Hm : (cnt x (to_dst dst (dsends_of (ids s) (valid cfg) t)) <=
                cnt x (to_dst dst (flat_map (dsend_of (ids s') (valid cfg)) t)))%nat).
  { apply sublist_cnt, to_dst_mono. rewrite Hx. apply dsends_of_mono. }
  lia.
Qed.

(* ---- from states to observed frames ---- *)
Lemma count_obs src d o :
  count (frame_of src d) (map obs_frame o) = cnt (src, d) (map (fun p => (p_src p, p_dg p)) (out_pkts o)).
Proof.
  unfold count, cnt. induction o as [|f o IH]; [reflexivity|].
  destruct f; cbn [map obs_frame out_pkts filter oframe_eqb frame_of]; try exact IH.
  unfold sd_eqb, dgram_eqb at 1. cbn [fst snd].
  rewrite <- !andb_assoc.
  destruct (bytes_eqb src (p_src p) && (N.eqb (d_ecn d) (d_ecn (p_dg p)) &&
            (opt_eqb N.eqb (d_seg d) (d_seg (p_dg p)) && bytes_eqb (d_data d) (d_data (p_dg p)))));
    cbn [length]; now rewrite IH.
Qed.

Lemma cnt_pair_sends src d (M : list (bytes * dgram)) :
  cnt (src, d) M = length (filter (dgram_eqb d) (map snd (filter (fun x => bytes_eqb (fst x) src) M))).
Proof.
  unfold cnt. induction M as [|y M IH]; [reflexivity|]. cbn [filter]. unfold sd_eqb at 1. cbn [fst snd].
  rewrite (bytes_eqb_sym src (fst y)).
  destruct (bytes_eqb (fst y) src); cbn [andb map filter]; [|exact IH].
  destruct (dgram_eqb d (snd y)); cbn [length]; now rewrite IH.
Qed.

Lemma model_cross_once i src :
  exists l, C04.model i = Ok l /\ cross_once i src l.
Proof.
  unfold C04.model. eexists. split; [reflexivity|]. intros dst d.
  set (cfg := cfg_of i). set (ops := i_ops i).
  destruct (sched_exec cfg ops) as [H1 H2 H3].
  pose proof (erecvs_exec cfg ops) as HE.
  set (sF := fst (exec cfg ops)) in *. set (t := rev (snd (exec cfg ops))) in *.
  assert (Hds : dsends i = dsends_of (ids sF) (valid cfg) t).
  { unfold dsends. rewrite dsends_of_erecvs, HE, H2. reflexivity. }
  unfold cross_count, observe. rewrite <- H2. unfold ids at 1. rewrite combine_map2, map_map. cbn [fst snd].
  unfold pair_sends. rewrite Hds, pair_sends_to_dst, <- cnt_pair_sends.
  pose proof (ginv_run cfg t dst (src, d)) as HG. rewrite <- H1 in HG.
  eapply Nat.le_trans; [|exact HG]. unfold total. apply lsum_le. intros c _. unfold contrib.
  destruct (bytes_eqb (c_id c) dst); [|lia].
  rewrite count_obs. apply sublist_cnt. unfold held. rewrite map_app. apply sublist_app_r, sublist_refl.
Qed.

(* ---- [agree] carries it over to the implementation's frames ---- *)
Lemma oframe_eqb_od s e g x f : oframe_eqb (OD s e g x) f = true -> f = OD s e g x.
Proof.
  destruct f; cbn; try discriminate. intros H.
  apply andb_prop in H as [H H4]. apply andb_prop in H as [H H3]. apply andb_prop in H as [H1 H2].
  apply bytes_eqb_eq in H1, H4. apply N.eqb_eq in H2. apply opt_N_eqb_eq in H3. congruence.
Qed.

Lemma list_eqb_od a : forall b, Forall (fun f => is_od f = true) a -> list_eqb oframe_eqb a b = true -> a = b.
Proof.
  induction a as [|f a IH]; intros [|g b] HF H; cbn in H; try discriminate; [reflexivity|].
  inversion HF as [|? ? Hf HF']; subst. apply andb_prop in H as [H1 H2].
  destruct f; try discriminate. apply oframe_eqb_od in H1. subst g. f_equal. now apply IH.
Qed.

Lemma count_from_src src d fs :
  count (frame_of src d) fs = count (frame_of src d) (filter (from_src src) fs).
Proof.
  unfold count. induction fs as [|f fs IH]; [reflexivity|]. cbn [filter].
  destruct (oframe_eqb (frame_of src d) f) eqn:E.
  - apply oframe_eqb_od in E. subst f. cbn [from_src frame_of]. rewrite bytes_eqb_refl.
    cbn [filter]. unfold frame_of in IH |- *.
    assert (R : oframe_eqb (OD src (d_ecn d) (d_seg d) (d_data d)) (OD src (d_ecn d) (d_seg d) (d_data d)) = true).
    { cbn. rewrite !bytes_eqb_refl, N.eqb_refl. destruct (d_seg d); cbn; [now rewrite N.eqb_refl|reflexivity]. }
    rewrite R. cbn [length]. now rewrite IH.
  - destruct (from_src src f); [|exact IH]. cbn [filter]. rewrite E. exact IH.
Qed.

Lemma agree_count keys src d : In src keys -> forall idl (m l : list (bool * list oframe)),
  list_eqb (conn_agree keys) m l = true -> forall dst,
  cross_count idl l dst (frame_of src d) = cross_count idl m dst (frame_of src d).
Proof.
  intros Hin idl. unfold cross_count.
  induction idl as [|id idl IH]; intros m l H dst; [reflexivity|].
  destruct m as [|mj m], l as [|lj l]; cbn in H; try discriminate; [reflexivity|].
  apply andb_prop in H as [Hj H]. cbn [combine map lsum fst snd]. rewrite (IH m l H dst). f_equal.
  destruct (bytes_eqb id dst); [|reflexivity].
  unfold conn_agree in Hj. apply andb_prop in Hj as [_ Hj]. unfold frames_agree in Hj.
  apply andb_prop in Hj as [Hj _]. apply andb_prop in Hj as [_ Hj].
  rewrite forallb_forall in Hj. specialize (Hj src Hin).
  apply list_eqb_od in Hj.
  - rewrite (count_from_src src d (snd lj)), (count_from_src src d (snd mj)). now rewrite Hj.
  - apply Forall_forall. intros f Hf. apply filter_In in Hf as [_ Hf]. now destruct f.
Qed.

Lemma agree_cross_once i o src :
  C04.agree i o = true -> In src (map fst (i_keys i)) ->
  exists l, o = Ok l /\ cross_once i src l.
Proof.
  intros H Hin. destruct (model_cross_once i src) as (m & Hm & Hc).
  unfold C04.agree in H. rewrite Hm in H. destruct o as [l|?|]; try discriminate.
  exists l. split; [reflexivity|]. intros dst d.
  rewrite (agree_count _ src d Hin _ m l H dst). apply Hc.
Qed.

(* the statement has content: the observation that [monitor] lets through is refused here *)
Example cross_once_rejects :
  let i := mkInput 0 [(idA, true); (idB, true)]
             [OConnect idA 2; OConnect idB 2; OConnect idB 2; OSend 0 (4 :: idB ++ [1; 9])] in
  ~ cross_once i idA [(true, []); (true, [OD idA 1 None [9]]); (true, [OD idA 1 None [9]])].
Proof.
  intros i H. specialize (H idB (mkDg 1 None [9])). vm_compute in H. lia.
Qed.

(* for ids of no connection [monitor] already says that no frame names them; so when the
   key table of the case lists the ids of its connections (the harness builds it so),
   [agree] and [monitor] together give the bound for every sender *)
Lemma monitor_cross_once_unconnected i l src :
  C04.monitor1 i (Ok l) = true -> ~ In src (conn_ids (i_ops i)) -> cross_once i src l.
Proof.
  intros Hm Hn dst d. apply monitor1_spec in Hm as (l' & E & HF). injection E as <-.
  assert (HZ : Forall2 (fun (_ : bytes) x => count (frame_of src d) (snd x) = 0%nat) (conn_ids (i_ops i)) l).
  { eapply Forall2_imp; [|exact HF]. cbn beta. intros id x Hx.
    rewrite count_from_src. destruct (Hx src) as (ds & S & ->).
    destruct ds as [|d0 ds]; [reflexivity|]. exfalso. apply Hn.
    apply (pair_sends_src i src id d0). eapply sublist_In; [exact S|now left]. }
  clear HF Hn. unfold cross_count.
  induction HZ as [|id x idl l Hz HZ IH]; [cbn; lia|].
  cbn [combine map lsum fst snd]. rewrite Hz. destruct (bytes_eqb id dst); cbn [Nat.add]; exact IH.
Qed.

Lemma judge_cross_once i o :
  C04.agree i o = true -> C04.monitor1 i o = true ->
  (forall id, In id (conn_ids (i_ops i)) -> In id (map fst (i_keys i))) ->
  exists l, o = Ok l /\ forall src, cross_once i src l.
Proof.
  intros Ha Hm Hk. destruct o as [l|?|]; try discriminate. exists l. split; [reflexivity|]. intros src.
  destruct (existsb (bytes_eqb src) (conn_ids (i_ops i))) eqn:E.
  - apply existsb_bytes_In in E. destruct (agree_cross_once i (Ok l) src Ha (Hk src E)) as (l' & El & H).
    now injection El as <-.
  - apply monitor_cross_once_unconnected; [exact Hm|]. intros Hin. apply existsb_bytes_In in Hin. congruence.
Qed.

(* ------------------------------------------------------------------ examples *)
(* Two connections of B; A's datagram reaches only the newer (active) one, attributed to A;
   after the active one closes the older one is promoted and receives the next datagram. *)
Example duplicate_connections :
  let s := run wcfg [ESpawn idA 2; EInsert 0; ESpawn idB 2; EInsert 1; ESpawn idB 2; EInsert 2;
                     ERecv 0 (4 :: idB ++ [1; 9]); EWritePkt 2; EWritePkt 1;
                     EClose 2; EUnregister 2; EDrop 2;
                     ERecv 0 (5 :: idB ++ [3; 0; 7; 8; 8]); EWritePkt 1; EWritePkt 2] in
  map (fun c => filter is_od (map obs_frame (c_out c))) (conns s) =
  [[]; [OD idA 3 (Some 7) [8; 8]]; [OD idA 1 None [9]]].
Proof. vm_compute. reflexivity. Qed.

(* queue capacity: with capacity 4 the fifth undelivered datagram is dropped *)
Example queue_full_drops :
  let s := run wcfg [ESpawn idA 2; EInsert 0; ESpawn idB 2; EInsert 1;
                     ERecv 0 (4 :: idB ++ [0; 1]); ERecv 0 (4 :: idB ++ [0; 2]); ERecv 0 (4 :: idB ++ [0; 3]);
                     ERecv 0 (4 :: idB ++ [0; 4]); ERecv 0 (4 :: idB ++ [0; 5])] in
  option_map (fun c => map (fun p => d_data (p_dg p)) (c_pq c)) (getc s 1) = Some [[1]; [2]; [3]; [4]].
Proof. vm_compute. reflexivity. Qed.

(* ------------------------------------------------------------------ only on the ACTIVE connection *)
(* the routing history of a trace: [routes cfg t] lists, in trace order, for every datagram
   frame read from a running connection while its destination had a registry entry, the
   entry's active connection at that moment together with (authenticated sender, datagram) *)
Lemma routes_from_app cfg : forall t1 s t2,
  routes_from cfg s (t1 ++ t2) = routes_from cfg s t1 ++ routes_from cfg (run_from cfg s t1) t2.
Proof.
  induction t1 as [|a t1 IH]; intros s t2; cbn [app routes_from]; [reflexivity|].
  rewrite IH, <- app_assoc. reflexivity.
Qed.

Lemma routes_snoc cfg t e : routes cfg (t ++ [e]) = routes cfg t ++ route_of cfg (run cfg t) e.
Proof. unfold routes. rewrite routes_from_app. cbn [routes_from]. rewrite app_nil_r. reflexivity. Qed.

Lemma to_conn_app k a b : to_conn k (a ++ b) = to_conn k a ++ to_conn k b.
Proof. unfold to_conn. now rewrite filter_app, map_app. Qed.

(* what a connection was given (delivered ++ still queued) is a sublist of what the trace
   routed to THIS connection number, i.e. of the sends accepted while it was the active
   connection of its endpoint id *)
Definition kinv2 (cfg : cfg) (t : list event) (s : state) : Prop :=
  forall k c, getc s k = Some c -> sublist (held c) (to_conn k (routes cfg t)).

Lemma kinv2_run cfg t : kinv2 cfg t (run cfg t).
Proof.
  induction t as [|e t IH] using rev_ind.
  - intros k c. unfold getc, run, run_from, init. cbn. destruct (N.to_nat k); discriminate.
  - rewrite run_snoc. set (s := run cfg t) in *. intros k c' Hg.
    rewrite routes_snoc, to_conn_app. fold s.
    destruct (step_srel cfg s e k c' Hg) as [(c & Hc & Hrel)|(Hnone & Hq & Ho)].
    + specialize (IH k c Hc).
      destruct Hrel as [(E1 & E2 & E3)|y Hy E1 E2 E3|k' raw cs dst d en He Hk' Hph Hd Hf Hact E1 E2 E3
                       |p q Hq E2 E3 E1|p q Hq E2 E3 E1].
      * unfold held. rewrite E2, E3. apply sublist_app_r. exact IH.
      * unfold held. rewrite E2, E3, out_pkts_app.
        assert (out_pkts [y] = []) as -> by (destruct y; try reflexivity; exfalso; eapply Hy; reflexivity).
        rewrite app_nil_r. apply sublist_app_r. exact IH.
      * unfold held. rewrite E2, E3, app_assoc, map_app. cbn [map p_src p_dg].
        assert (Hlast : to_conn k (route_of cfg s e) = [(c_id cs, d)]).
        { subst e. cbn [route_of]. rewrite Hk'. unfold is_running. rewrite Hph, Hd, Hf.
          unfold to_conn. cbn [filter fst]. rewrite Hact, N.eqb_refl. reflexivity. }
        rewrite Hlast. apply sublist_app2; [exact IH|apply sublist_refl].
      * unfold held. rewrite E2, E3, out_pkts_app. cbn [out_pkts]. rewrite <- app_assoc. cbn [app].
        rewrite <- Hq. apply sublist_app_r. exact IH.
      * unfold held. rewrite E2, E3.
        eapply sublist_trans; [|apply sublist_app_r; exact IH].
        unfold held. rewrite Hq. apply sublist_map. apply sublist_remove_mid.
    + unfold held. rewrite Hq, Ho. constructor.
Qed.

Lemma in_combine_seq {A} : forall (l : list A) n k x,
  In (k, x) (combine (map N.of_nat (seq n (length l))) l) <->
  exists j, k = N.of_nat (n + j) /\ nth_error l j = Some x.
Proof.
  induction l as [|a l IH]; intros n k x; cbn [length seq map combine In].
  - split; [contradiction|]. intros (j & _ & H). destruct j; discriminate.
  - rewrite IH. split.
    + intros [E|(j & -> & H)].
      * injection E as <- <-. exists 0%nat. split; [f_equal; lia|reflexivity].
      * exists (S j). split; [f_equal; lia|exact H].
    + intros ([|j] & -> & H).
      * left. cbn in H. injection H as <-. f_equal. f_equal. lia.
      * right. exists j. split; [f_equal; lia|exact H].
Qed.

Lemma in_combine_indices {A} (l : list A) k x :
  In (k, x) (combine (indices l) l) <-> exists j, k = N.of_nat j /\ nth_error l j = Some x.
Proof. unfold indices. rewrite in_combine_seq. reflexivity. Qed.

Lemma model_monitor2 i : C04.monitor2 i (C04.model i) = true.
Proof.
  unfold C04.monitor2, C04.model, trace_of.
  set (cfg := cfg_of i). set (ops := i_ops i).
  destruct (sched_exec cfg ops) as [H1 H2 H3].
  set (sF := fst (exec cfg ops)) in *. set (t := rev (snd (exec cfg ops))) in *.
  cbv zeta. unfold observe. apply forallb_forall. intros [k [alive fs]] Hin.
  apply in_combine_indices in Hin as (j & -> & Hn).
  rewrite nth_error_map in Hn. destruct (nth_error (conns sF) j) as [c|] eqn:Hc; [|discriminate].
  cbn [option_map] in Hn. injection Hn as <- <-.
  assert (Hg : getc sF (N.of_nat j) = Some c) by (unfold getc; now rewrite Nat2N.id).
  rewrite H1 in Hg. pose proof (kinv2_run cfg t _ _ Hg) as HK.
  apply forallb_forall. intros src _. cbn [fst snd].
  apply emb_subseq. unfold conn_routed.
  rewrite from_src_filter, obs_out_held, filter_map_obs_pair.
  apply sublist_emb. apply sublist_filter.
  eapply sublist_trans; [|exact HK]. unfold held. rewrite map_app. apply sublist_app_r, sublist_refl.
Qed.

Lemma model_monitor i : C04.monitor i (C04.model i) = true.
Proof. unfold C04.monitor. now rewrite model_monitor1, model_monitor2. Qed.

(* [monitor2], readably: the run was observed, and on connection NUMBER k, for every sender
   id [src] of the case, the datagram frames naming [src] are exactly the frames of a sublist
   (order kept, each send used at most once) of the datagrams of [src] that the script's
   registry history routed to connection k - the sends accepted while k was the ACTIVE
   connection of its endpoint.  A frame on an inactive duplicate has no such send. *)
Definition spec2 (i : input) (o : output) : Prop :=
  exists l, o = Ok l /\
    forall k x, nth_error l k = Some x -> forall src, In src (conn_ids (i_ops i)) ->
      exists ds, sublist ds (conn_routed (routes (cfg_of i) (trace_of i)) (N.of_nat k) src) /\
                 filter (from_src src) (snd x) = map (frame_of src) ds.

Lemma monitor2_spec i o : C04.monitor2 i o = true <-> spec2 i o.
Proof.
  unfold C04.monitor2, spec2. destruct o as [l|e|].
  - cbv zeta. rewrite forallb_forall. split.
    + intros H. exists l. split; [reflexivity|]. intros k x Hn src Hs.
      assert (Hin : In (N.of_nat k, x) (combine (indices l) l)) by (apply in_combine_indices; eauto).
      specialize (H _ Hin). cbn [fst snd] in H. rewrite forallb_forall in H. specialize (H src Hs).
      apply subseq_emb in H. apply (emb_sublist src) in H; [exact H|].
      apply Forall_forall. intros f Hf. apply filter_In in Hf. tauto.
    + intros (l' & E & H). injection E as <-. intros [k x] Hin.
      apply in_combine_indices in Hin as (j & -> & Hn). apply forallb_forall. intros src Hs.
      destruct (H j x Hn src Hs) as (ds & S & E). cbn [fst snd]. rewrite E.
      apply emb_subseq, sublist_emb_frames, S.
  - split; [discriminate|]. intros (l' & E & _). discriminate.
  - split; [discriminate|]. intros (l' & E & _). discriminate.
Qed.

Lemma monitor_spec i o : C04.monitor i o = true <-> spec i o /\ spec2 i o.
Proof. unfold C04.monitor. rewrite andb_true_iff, monitor1_spec, monitor2_spec. reflexivity. Qed.

(* the observation that the per-connection clause lets through (one send, the frame on both
   sockets of a twice-connected id) is refused by the active-connection clause: connection 1
   was not B's active connection when the send was accepted *)
Example monitor_rejects_inactive_delivery :
  let i := mkInput 0 [(idA, true); (idB, true)]
             [OConnect idA 2; OConnect idB 2; OConnect idB 2; OSend 0 (4 :: idB ++ [1; 9])] in
  let o := Ok [(true, []); (true, [OD idA 1 None [9]]); (true, [OD idA 1 None [9]])] in
  let o' := Ok [(true, []); (true, [OD idA 1 None [9]]); (true, [])] in
  C04.monitor1 i o = true /\ C04.monitor i o = false /\
  C04.monitor1 i o' = true /\ C04.monitor i o' = false /\
  to_conn 2 (routes (cfg_of i) (trace_of i)) = [(idA, mkDg 1 None [9])] /\
  to_conn 1 (routes (cfg_of i) (trace_of i)) = [].
Proof. vm_compute. repeat split. Qed.

Lemma judge_cross_once' i o :
  C04.agree i o = true -> C04.monitor i o = true ->
  (forall id, In id (conn_ids (i_ops i)) -> In id (map fst (i_keys i))) ->
  exists l, o = Ok l /\ forall src, cross_once i src l.
Proof.
  intros Ha Hm. apply andb_true_iff in Hm as [Hm _]. exact (judge_cross_once i o Ha Hm).
Qed.
