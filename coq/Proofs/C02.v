(* C02 — lemmas about the model of key.rs / endpoint_addr.rs. *)
From V Require Import Lib.Base Lib.MachineInt Lib.BaseN Lib.Hex Lib.Leb128 Model.C02.
From Coq Require Import Lia ZifyBool ZifyNat PeanoNat.
Import C02.
Open Scope N_scope.

Ltac Zify.zify_post_hook ::= Z.to_euclidean_division_equations.

(* ------------------------------------------------------------------ *)
(** * data-encoding entry points *)

Lemma enc_decode_len_small c n : N.of_nat n <= MAXLEN -> enc_decode_len c n = decode_len c n.
Proof. intros H. unfold enc_decode_len. destruct (MAXLEN <? N.of_nat n) eqn:E; [lia|reflexivity]. Qed.

Lemma decode_len_total c n : decode_len c n <> Panic.
Proof. unfold decode_len. destruct (_ <=? _)%nat; discriminate. Qed.

Lemma enc_decode_mut_ok c s m : enc_decode_len c (length s) = Ok m -> enc_decode_mut c s m = decode c s.
Proof. intros H. unfold enc_decode_mut. rewrite H, Nat.eqb_refl. reflexivity. Qed.

Lemma enc_decode_total c s : codec_ok c = true -> len s <= MAXLEN -> enc_decode c s <> Panic.
Proof.
  intros Hc H. unfold enc_decode, bind.
  destruct (enc_decode_len c (length s)) as [m| |] eqn:E; [|discriminate|].
  - rewrite (enc_decode_mut_ok _ _ _ E). now apply decode_total.
  - rewrite enc_decode_len_small in E by exact H. now apply decode_len_total in E.
Qed.

Lemma enc_decode_small c s : len s <= MAXLEN -> enc_decode c s = decode c s.
Proof.
  intros H. unfold enc_decode, bind. rewrite enc_decode_len_small by exact H.
  destruct (decode_len c (length s)) as [m| |] eqn:E.
  - apply enc_decode_mut_ok. now rewrite enc_decode_len_small.
  - unfold decode. now rewrite E.
  - now apply decode_len_total in E.
Qed.

(* ------------------------------------------------------------------ *)
(** * decode_base32_hex *)

Lemma hex_len_64 : enc_decode_len HEXLOWER 64 = Ok 32%nat. Proof. reflexivity. Qed.
Lemma b32_len_52 : enc_decode_len BASE32_NOPAD 52 = Ok 32%nat. Proof. reflexivity. Qed.
Lemma z32_len_52 : enc_decode_len Z_BASE_32 52 = Ok 32%nat. Proof. reflexivity. Qed.

Lemma wrap_total (r : res bytes) e : r <> Panic ->
  match r with
  | Ok b => if (length b =? 32)%nat then Ok b else Err 3
  | Err _ => Err e
  | Panic => Panic
  end <> Panic.
Proof. intros H. destruct r as [a| |]; [destruct (length a =? 32)%nat| |]; try discriminate. exact H. Qed.

Lemma decode_base32_hex_total s : len s <= MAXLEN -> decode_base32_hex s <> Panic.
Proof.
  intros H. unfold decode_base32_hex.
  destruct (length s =? 64)%nat eqn:E.
  - apply Nat.eqb_eq in E.
    assert (X : enc_decode_mut HEXLOWER s 32 = decode HEXLOWER s).
    { apply enc_decode_mut_ok. rewrite E. exact hex_len_64. }
    rewrite X. apply wrap_total, decode_total.
  - cbv zeta. rewrite ascii_upper_length.
    destruct (enc_decode_len BASE32_NOPAD (length s)) as [m| |] eqn:L; [|discriminate|].
    + destruct (m =? 32)%nat eqn:M; [|discriminate].
      apply Nat.eqb_eq in M. subst m.
      assert (X : enc_decode_mut BASE32_NOPAD (ascii_upper s) 32 = decode BASE32_NOPAD (ascii_upper s)).
      { apply enc_decode_mut_ok. now rewrite ascii_upper_length. }
      rewrite X. apply wrap_total, decode_total.
    + rewrite enc_decode_len_small in L by exact H. now apply decode_len_total in L.
Qed.

Lemma decode_base32_hex_len s b : decode_base32_hex s = Ok b -> length b = 32%nat.
Proof.
  unfold decode_base32_hex.
  destruct (length s =? 64)%nat.
  - destruct (enc_decode_mut HEXLOWER s 32) as [x| |]; try discriminate.
    destruct (length x =? 32)%nat eqn:E; [|discriminate]. intros [= <-]. now apply Nat.eqb_eq.
  - cbv zeta. destruct (enc_decode_len _ _) as [m| |]; try discriminate.
    destruct (m =? 32)%nat; [|discriminate].
    destruct (enc_decode_mut _ _ _) as [x| |]; try discriminate.
    destruct (length x =? 32)%nat eqn:E; [|discriminate]. intros [= <-]. now apply Nat.eqb_eq.
Qed.

Lemma encode_len_4_32 : encode_len 4 32 = 64%nat. Proof. reflexivity. Qed.
Lemma encode_len_5_32 : encode_len 5 32 = 52%nat. Proof. reflexivity. Qed.

Lemma decode_base32_hex_hex k : length k = 32%nat -> bytes_ok k = true ->
  decode_base32_hex (encode HEXLOWER k) = Ok k.
Proof.
  intros L B. unfold decode_base32_hex.
  assert (EL : length (encode HEXLOWER k) = 64%nat).
  { rewrite (encode_length HEXLOWER HEXLOWER_ok), L. reflexivity. }
  rewrite EL. cbn [Nat.eqb].
  rewrite enc_decode_mut_ok by (rewrite EL; exact hex_len_64).
  rewrite (decode_encode HEXLOWER HEXLOWER_ok k B), L. reflexivity.
Qed.

Lemma decode_base32_hex_b32 s k : length k = 32%nat -> bytes_ok k = true ->
  ascii_upper s = encode BASE32_NOPAD k -> decode_base32_hex s = Ok k.
Proof.
  intros L B U. unfold decode_base32_hex.
  assert (EL : length (encode BASE32_NOPAD k) = 52%nat).
  { rewrite (encode_length BASE32_NOPAD BASE32_NOPAD_ok), L. reflexivity. }
  assert (SL : length s = 52%nat) by (now rewrite <- (ascii_upper_length s), U).
  rewrite SL. cbn [Nat.eqb]. cbv zeta. rewrite U, EL, b32_len_52. cbn [Nat.eqb].
  rewrite enc_decode_mut_ok by (rewrite EL; exact b32_len_52).
  rewrite (decode_encode BASE32_NOPAD BASE32_NOPAD_ok k B), L. reflexivity.
Qed.

Lemma to_upper_lower ch : to_upper (to_lower ch) = to_upper ch.
Proof.
  unfold to_upper, to_lower.
  destruct ((65 <=? ch) && (ch <=? 90)) eqn:A.
  - destruct ((97 <=? ch + 32) && (ch + 32 <=? 122)) eqn:B; [|lia].
    destruct ((97 <=? ch) && (ch <=? 122)) eqn:C; lia.
  - reflexivity.
Qed.

Lemma ascii_upper_lower s : ascii_upper (ascii_lower s) = ascii_upper s.
Proof. unfold ascii_upper, ascii_lower. rewrite map_map. apply map_ext, to_upper_lower. Qed.

(* ------------------------------------------------------------------ *)
(** * Public keys *)

Section Keys.
Variable is_point : bytes -> bool.

Lemma pk_from_bytes_ok b k : pk_from_bytes is_point b = Ok k -> k = b /\ is_point k = true.
Proof. unfold pk_from_bytes. destruct (is_point b) eqn:E; [|discriminate]. intros [= <-]. auto. Qed.

Lemma pk_try_from_slice_ok b k : pk_try_from_slice is_point b = Ok k ->
  k = b /\ is_point k = true /\ length k = 32%nat.
Proof.
  unfold pk_try_from_slice. destruct (length b =? 32)%nat eqn:E; [|discriminate].
  intros H. apply pk_from_bytes_ok in H as (-> & P). apply Nat.eqb_eq in E. auto.
Qed.

Lemma pk_from_str_ok s k : pk_from_str is_point s = Ok k -> is_point k = true /\ length k = 32%nat.
Proof.
  unfold pk_from_str, bind. destruct (decode_base32_hex s) as [b| |] eqn:D; try discriminate.
  intros H. apply pk_from_bytes_ok in H as (-> & P). split; auto. now apply decode_base32_hex_len in D.
Qed.

Lemma pk_from_z32_ok s k : pk_from_z32 is_point s = Ok k -> is_point k = true /\ length k = 32%nat.
Proof.
  unfold pk_from_z32. destruct (enc_decode Z_BASE_32 s) as [b| |]; try discriminate.
  intros H. now apply pk_try_from_slice_ok in H as (_ & P & L).
Qed.

Lemma pk_postcard_dec_ok l k r : pk_postcard_dec is_point l = Ok (k, r) ->
  is_point k = true /\ length k = 32%nat.
Proof.
  unfold pk_postcard_dec. destruct (length l <? 32)%nat; [discriminate|].
  destruct (pk_try_from_slice is_point (firstn 32 l)) as [x| |] eqn:E; try discriminate.
  intros [= <- _]. now apply pk_try_from_slice_ok in E as (_ & P & L).
Qed.

Lemma pk_from_str_total s : len s <= MAXLEN -> pk_from_str is_point s <> Panic.
Proof.
  intros H. unfold pk_from_str, bind. pose proof (decode_base32_hex_total s H) as T.
  destruct (decode_base32_hex s); [|discriminate|congruence].
  unfold pk_from_bytes. destruct (is_point a); discriminate.
Qed.

Lemma pk_try_from_slice_total b : pk_try_from_slice is_point b <> Panic.
Proof.
  unfold pk_try_from_slice, pk_from_bytes.
  destruct (length b =? 32)%nat; [destruct (is_point b)|]; discriminate.
Qed.

Lemma pk_from_z32_total s : len s <= MAXLEN -> pk_from_z32 is_point s <> Panic.
Proof.
  intros H. unfold pk_from_z32. pose proof (enc_decode_total Z_BASE_32 s Z_BASE_32_ok H) as T.
  destruct (enc_decode Z_BASE_32 s); [apply pk_try_from_slice_total|discriminate|congruence].
Qed.

Lemma pk_postcard_dec_total l : pk_postcard_dec is_point l <> Panic.
Proof.
  unfold pk_postcard_dec. destruct (length l <? 32)%nat; [discriminate|].
  pose proof (pk_try_from_slice_total (firstn 32 l)) as T.
  destruct (pk_try_from_slice is_point (firstn 32 l)); [discriminate|discriminate|congruence].
Qed.

Definition valid_key (k : bytes) : Prop := length k = 32%nat /\ bytes_ok k = true /\ is_point k = true.

Lemma pk_hex_roundtrip k : valid_key k -> pk_from_str is_point (pk_display k) = Ok k.
Proof.
  intros (L & B & P). unfold pk_from_str, pk_display, bind.
  rewrite decode_base32_hex_hex by assumption. unfold pk_from_bytes. now rewrite P.
Qed.

Lemma pk_base32_roundtrip k s : valid_key k -> ascii_upper s = pk_base32 k ->
  pk_from_str is_point s = Ok k.
Proof.
  intros (L & B & P) U. unfold pk_from_str, bind.
  rewrite (decode_base32_hex_b32 s k L B U). unfold pk_from_bytes. now rewrite P.
Qed.

Lemma pk_base32_upper_roundtrip k : valid_key k -> pk_from_str is_point (pk_base32 k) = Ok k.
Proof. intros V. apply pk_base32_roundtrip; auto. apply base32_encode_upper. Qed.

Lemma pk_base32_lower_roundtrip k : valid_key k ->
  pk_from_str is_point (ascii_lower (pk_base32 k)) = Ok k.
Proof.
  intros V. apply pk_base32_roundtrip; auto. rewrite ascii_upper_lower. apply base32_encode_upper.
Qed.

Lemma pk_z32_roundtrip k : valid_key k -> pk_from_z32 is_point (pk_to_z32 k) = Ok k.
Proof.
  intros (L & B & P). unfold pk_from_z32, pk_to_z32, enc_decode, bind.
  assert (EL : length (encode Z_BASE_32 k) = 52%nat).
  { rewrite (encode_length Z_BASE_32 Z_BASE_32_ok), L. reflexivity. }
  rewrite EL, z32_len_52.
  rewrite enc_decode_mut_ok by (rewrite EL; exact z32_len_52).
  rewrite (decode_encode Z_BASE_32 Z_BASE_32_ok k B).
  unfold pk_try_from_slice, pk_from_bytes. rewrite L, P. reflexivity.
Qed.

Lemma pk_postcard_roundtrip k rest : valid_key k ->
  pk_postcard_dec is_point (pk_postcard_enc k ++ rest) = Ok (k, rest).
Proof.
  intros (L & B & P). unfold pk_postcard_dec, pk_postcard_enc.
  assert (F : firstn 32 (k ++ rest) = k) by (rewrite <- L; apply firstn_app_exact).
  assert (S : skipn 32 (k ++ rest) = rest) by (rewrite <- L; apply skipn_app_exact).
  rewrite app_length, L.
  destruct (32 + length rest <? 32)%nat eqn:E; [apply Nat.ltb_lt in E; lia|].
  rewrite F, S.
  unfold pk_try_from_slice, pk_from_bytes. rewrite L, P. reflexivity.
Qed.

Lemma pk_slice_roundtrip k : valid_key k -> pk_try_from_slice is_point k = Ok k.
Proof. intros (L & B & P). unfold pk_try_from_slice, pk_from_bytes. now rewrite L, P. Qed.

(* canonicity of the accepted strings: a 64-byte string is the Display form,
   anything else is the base32 form up to ASCII case *)
Lemma pk_from_str_canonical s k : len s <= MAXLEN -> pk_from_str is_point s = Ok k ->
  (length s = 64%nat /\ s = pk_display k) \/ (length s = 52%nat /\ ascii_upper s = pk_base32 k).
Proof.
  intros H. unfold pk_from_str, bind.
  destruct (decode_base32_hex s) as [b| |] eqn:D; try discriminate.
  intros F. apply pk_from_bytes_ok in F as (-> & _).
  unfold decode_base32_hex in D.
  destruct (length s =? 64)%nat eqn:E.
  - left. apply Nat.eqb_eq in E. split; auto.
    rewrite enc_decode_mut_ok in D by (rewrite E; exact hex_len_64).
    destruct (decode HEXLOWER s) as [x| |] eqn:X; try discriminate.
    destruct (length x =? 32)%nat; [|discriminate]. injection D as <-.
    symmetry. now apply (encode_decode HEXLOWER HEXLOWER_ok).
  - right. cbv zeta in D. rewrite ascii_upper_length in D.
    destruct (enc_decode_len BASE32_NOPAD (length s)) as [m| |] eqn:L; try discriminate.
    destruct (m =? 32)%nat eqn:M; [|discriminate]. apply Nat.eqb_eq in M. subst m.
    rewrite enc_decode_mut_ok in D by (now rewrite ascii_upper_length).
    destruct (decode BASE32_NOPAD (ascii_upper s)) as [x| |] eqn:X; try discriminate.
    destruct (length x =? 32)%nat eqn:LX; [|discriminate]. injection D as <-.
    apply Nat.eqb_eq in LX.
    pose proof (encode_decode BASE32_NOPAD BASE32_NOPAD_ok _ _ eq_refl X) as C.
    split; [|now symmetry].
    rewrite <- (ascii_upper_length s), <- C, (encode_length BASE32_NOPAD BASE32_NOPAD_ok), LX.
    reflexivity.
Qed.

End Keys.

(* non-vacuity: a table that accepts some 32 bytes *)
Example valid_key_exists : exists k, valid_key (fun _ => true) k.
Proof. exists (repeat 0 32). repeat split. Qed.

Example pk_parse_examples :
  pk_from_str (fun _ => true) (str_bytes "foobarbaz") = Err 3 /\
  pk_from_str (fun _ => true) (str_bytes "ae58ff8833241ac82d6ff7611046ed67b5072d142c588d0063e942d9a75502b6")
    = Ok (hex "ae58ff8833241ac82d6ff7611046ed67b5072d142c588d0063e942d9a75502b6") /\
  pk_from_str (fun _ => true) (str_bytes "AE58FF8833241AC82D6FF7611046ED67B5072D142C588D0063E942D9A75502B6") = Err 1 /\
  pk_from_str (fun _ => false) (str_bytes "ae58ff8833241ac82d6ff7611046ed67b5072d142c588d0063e942d9a75502b6") = Err 4.
Proof. vm_compute. repeat split. Qed.

(* ------------------------------------------------------------------ *)
(** * CustomAddr *)

Lemma as_bytes_copy d : as_bytes (copy_from_slice d) = Ok d.
Proof.
  unfold copy_from_slice. destruct (length d <=? 30)%nat eqn:E; [|reflexivity].
  cbn [as_bytes]. unfold len. rewrite app_length.
  destruct (N.of_nat (length d) <=? N.of_nat (length d + length (repeat 0 (30 - length d)))) eqn:F; [|lia].
  rewrite Nat2N.id, firstn_app_exact. reflexivity.
Qed.

(* inline_heap_canonical *)
Lemma copy_inline_iff d : is_inline (copy_from_slice d) = (length d <=? 30)%nat.
Proof. unfold copy_from_slice. now destruct (length d <=? 30)%nat. Qed.

Lemma copy_wf d : bytes_ok d = true -> wf_cab (copy_from_slice d) = true.
Proof.
  intros B. unfold copy_from_slice. destruct (length d <=? 30)%nat eqn:E.
  - apply Nat.leb_le in E. cbn [wf_cab]. unfold len.
    rewrite app_length, repeat_length, Nat2N.id, skipn_app_exact.
    assert (Z : forall n, forallb (N.eqb 0) (repeat 0 n) = true) by (induction n; cbn; auto).
    assert (O : forall n, bytes_ok (repeat 0 n) = true) by (induction n; cbn; auto).
    unfold bytes_ok in *. rewrite forallb_app, B, Z. fold (bytes_ok (repeat 0 (30 - length d))).
    rewrite O. replace (length d + (30 - length d))%nat with 30%nat by lia.
    cbn. destruct (N.of_nat (length d) <=? 30) eqn:F; [reflexivity|lia].
  - cbn [wf_cab]. rewrite B. apply Nat.leb_gt in E.
    destruct (30 <? length d)%nat eqn:F; [reflexivity|apply Nat.ltb_ge in F; lia].
Qed.

(* the representation is a function of the bytes: derived Eq agrees with byte equality *)
Lemma cab_eqb_refl c : cab_eqb c c = true.
Proof. destruct c; cbn; rewrite ?N.eqb_refl, bytes_eqb_refl; reflexivity. Qed.
Lemma custom_eqb_refl a : custom_eqb a a = true.
Proof. unfold custom_eqb. now rewrite N.eqb_refl, cab_eqb_refl. Qed.

Lemma cab_eqb_eq a b : cab_eqb a b = true -> a = b.
Proof.
  destruct a, b; cbn; try discriminate; intros H.
  - apply andb_prop in H as (H1 & H2). apply N.eqb_eq in H1. apply bytes_eqb_eq in H2. congruence.
  - apply bytes_eqb_eq in H. congruence.
Qed.

Lemma from_parts_eq_iff id d id' d' :
  custom_eqb (from_parts id d) (from_parts id' d') = true <-> (id = id' /\ d = d').
Proof.
  split.
  - unfold custom_eqb, from_parts. cbn [cid cdata]. intros H. apply andb_prop in H as (H1 & H2).
    apply N.eqb_eq in H1. apply cab_eqb_eq in H2. split; auto.
    pose proof (as_bytes_copy d) as A. pose proof (as_bytes_copy d') as A'. congruence.
  - intros (-> & ->). apply custom_eqb_refl.
Qed.

Lemma le_enc_length k n : length (le_enc k n) = k.
Proof. revert n; induction k; intros n; cbn [le_enc length]; auto. Qed.

Lemma le_dec_enc k : forall n, n < 256 ^ N.of_nat k -> le_dec (le_enc k n) = n.
Proof.
  induction k as [|k IH]; intros n H.
  - change (256 ^ N.of_nat 0) with 1 in H. cbn. lia.
  - rewrite Nat2N.inj_succ, N.pow_succ_r' in H. cbn [le_enc le_dec].
    rewrite IH by lia. lia.
Qed.

Lemma le_enc_ok k : forall n, bytes_ok (le_enc k n) = true.
Proof.
  induction k as [|k IH]; intros n; cbn [le_enc]; [reflexivity|].
  unfold bytes_ok in *. cbn [forallb]. rewrite IH. unfold byte_ok.
  destruct (n mod 256 <? 256) eqn:E; [reflexivity|lia].
Qed.

Lemma ca_to_vec_parts id d : ca_to_vec (from_parts id d) = Ok (le_enc 8 id ++ d).
Proof. unfold ca_to_vec, from_parts, bind. cbn [cdata cid]. now rewrite as_bytes_copy. Qed.

Lemma ca_bin_roundtrip id d : id <= U64_MAX ->
  ca_from_bytes (le_enc 8 id ++ d) = Ok (from_parts id d).
Proof.
  intros H. unfold ca_from_bytes. rewrite app_length, le_enc_length.
  destruct (8 + length d <? 8)%nat eqn:E; [apply Nat.ltb_lt in E; lia|].
  assert (F : firstn 8 (le_enc 8 id ++ d) = le_enc 8 id).
  { rewrite <- (le_enc_length 8 id) at 1. apply firstn_app_exact. }
  assert (S : skipn 8 (le_enc 8 id ++ d) = d).
  { rewrite <- (le_enc_length 8 id) at 1. apply skipn_app_exact. }
  rewrite F, S, le_dec_enc; [reflexivity|].
  change (256 ^ N.of_nat 8) with 18446744073709551616. unfold U64_MAX in H. lia.
Qed.

Lemma ca_from_bytes_short b : (length b < 8)%nat -> ca_from_bytes b = Err 1.
Proof. intros H. unfold ca_from_bytes. apply Nat.ltb_lt in H. now rewrite H. Qed.

Lemma split_once_app ch a b : Forall (fun c => c <> ch) a ->
  split_once ch (a ++ ch :: b) = Some (a, b).
Proof.
  induction 1 as [|c a Hc _ IH]; cbn [app split_once].
  - now rewrite N.eqb_refl.
  - destruct (c =? ch) eqn:E; [apply N.eqb_eq in E; contradiction|]. now rewrite IH.
Qed.

Lemma fmt_lower_hex_no_sep n : Forall (fun c => c <> 95) (fmt_lower_hex n).
Proof.
  unfold fmt_lower_hex. apply Forall_forall. intros c Hc.
  apply in_map_iff in Hc as (d & <- & _). unfold digit_char.
  destruct (d <? 10) eqn:E; [lia|].
  (* digits are < 16 only for in-range values; for any d: 87 + d = 95 iff d = 8, excluded by E *)
  lia.
Qed.

Lemma hex_len_even n : N.of_nat (2 * n) <= MAXLEN -> enc_decode_len HEXLOWER (2 * n) = Ok n.
Proof.
  intros H. rewrite enc_decode_len_small by exact H. unfold decode_len.
  change (bitw HEXLOWER) with 4%nat.
  destruct (4 <=? (4 * (2 * n)) mod 8)%nat eqn:E; [apply Nat.leb_le in E; lia|].
  f_equal. lia.
Qed.

Lemma hex_encode_len d : length (encode HEXLOWER d) = (2 * length d)%nat.
Proof.
  rewrite (encode_length HEXLOWER HEXLOWER_ok). change (bitw HEXLOWER) with 4%nat.
  unfold encode_len. lia.
Qed.

Lemma enc_decode_hex_roundtrip d : bytes_ok d = true -> 2 * len d <= MAXLEN ->
  enc_decode HEXLOWER (encode HEXLOWER d) = Ok d.
Proof.
  intros B H. unfold enc_decode, bind. rewrite hex_encode_len.
  assert (H' : N.of_nat (2 * length d) <= MAXLEN) by (unfold len in H; lia).
  rewrite (hex_len_even _ H').
  rewrite enc_decode_mut_ok by (rewrite hex_encode_len; apply hex_len_even, H').
  now apply (decode_encode HEXLOWER HEXLOWER_ok).
Qed.

Lemma ca_display_parts id d :
  ca_display (from_parts id d) = Ok (fmt_lower_hex id ++ [95] ++ encode HEXLOWER d).
Proof. unfold ca_display, from_parts, bind. cbn [cdata cid]. now rewrite as_bytes_copy. Qed.

Lemma ca_str_roundtrip id d : id <= U64_MAX -> bytes_ok d = true -> 2 * len d <= MAXLEN ->
  ca_from_str (fmt_lower_hex id ++ [95] ++ encode HEXLOWER d) = Ok (from_parts id d).
Proof.
  intros H B L. unfold ca_from_str. cbn [app].
  rewrite split_once_app by apply fmt_lower_hex_no_sep.
  rewrite from_str_radix_fmt by exact H.
  now rewrite enc_decode_hex_roundtrip.
Qed.

Lemma ca_from_str_total s : len s <= MAXLEN -> ca_from_str s <> Panic.
Proof.
  intros H. unfold ca_from_str.
  destruct (split_once 95 s) as [(a, b)|] eqn:S; [|discriminate].
  destruct (u64_from_str_radix16 a); [|discriminate].
  assert (Lb : len b <= MAXLEN).
  { enough (length b <= length s)%nat by (unfold len in *; lia).
    clear -S. revert a b S. induction s as [|c s IH]; intros a b; cbn [split_once]; [discriminate|].
    destruct (c =? 95).
    - intros [= _ <-]. cbn. lia.
    - destruct (split_once 95 s) as [(x, y)|]; [|discriminate].
      intros [= _ <-]. specialize (IH x y eq_refl). cbn. lia. }
  pose proof (enc_decode_total HEXLOWER b HEXLOWER_ok Lb) as T.
  destruct (enc_decode HEXLOWER b); [discriminate|discriminate|congruence].
Qed.

Lemma ca_postcard_parts id d :
  ca_postcard_enc (from_parts id d) = Ok (varint_u64_enc id ++ varint_u64_enc (len d) ++ d).
Proof. unfold ca_postcard_enc, from_parts, bind. cbn [cdata cid]. now rewrite as_bytes_copy. Qed.

Lemma dec_bytes_roundtrip d rest : len d <= U64_MAX ->
  dec_bytes (varint_u64_enc (len d) ++ d ++ rest) = Ok (d, rest).
Proof.
  intros H. unfold dec_bytes, bind. rewrite varint_u64_roundtrip by exact H.
  unfold len at 1. rewrite app_length.
  destruct (N.of_nat (length d + length rest) <? len d) eqn:E; [unfold len in E; lia|].
  unfold len. rewrite Nat2N.id, firstn_app_exact, skipn_app_exact. reflexivity.
Qed.

Lemma ca_postcard_roundtrip id d rest : id <= U64_MAX -> len d <= U64_MAX ->
  ca_postcard_dec (varint_u64_enc id ++ varint_u64_enc (len d) ++ d ++ rest) = Ok (from_parts id d, rest).
Proof.
  intros H L. unfold ca_postcard_dec, bind. rewrite varint_u64_roundtrip by exact H.
  now rewrite dec_bytes_roundtrip.
Qed.

Lemma dec_bytes_total l : dec_bytes l <> Panic.
Proof.
  unfold dec_bytes, bind, varint_u64_dec. pose proof (leb_dec_total 10 1 1 0 l) as T.
  destruct (leb_dec 10 1 1 0 l) as [(n, r)| |]; [|discriminate|congruence].
  destruct (len r <? n); discriminate.
Qed.

Lemma ca_postcard_dec_total l : ca_postcard_dec l <> Panic.
Proof.
  unfold ca_postcard_dec, bind, varint_u64_dec. pose proof (leb_dec_total 10 1 1 0 l) as T.
  destruct (leb_dec 10 1 1 0 l) as [(n, r)| |]; [|discriminate|congruence].
  pose proof (dec_bytes_total r) as T2.
  destruct (dec_bytes r) as [(d, r2)| |]; [discriminate|discriminate|congruence].
Qed.

(* every accepted / constructed CustomAddr is from_parts of something: its accessors are total *)
Lemma ca_obs_parts id d :
  ca_obs (from_parts id d) =
  [Ok (le_enc 8 id ++ d); Ok (fmt_lower_hex id ++ [95] ++ encode HEXLOWER d);
   flag (length d <=? 30)%nat].
Proof.
  unfold ca_obs. rewrite ca_to_vec_parts, ca_display_parts. unfold from_parts. cbn [cdata].
  now rewrite copy_inline_iff.
Qed.

(* ------------------------------------------------------------------ *)
(** * The monitor on the model's own output *)

Lemma pk_accept_obs isp k : isp k = true -> length k = 32%nat -> pk_accept_ok isp (pk_obs k) = true.
Proof. intros P L. unfold pk_accept_ok, pk_obs. rewrite L, P. reflexivity. Qed.

Lemma ca_accept_parts id d : ca_accept_ok (ca_obs (from_parts id d)) = true.
Proof.
  rewrite ca_obs_parts. unfold ca_accept_ok, flag.
  rewrite app_length, le_enc_length.
  replace (8 + length d - 8)%nat with (length d) by lia.
  destruct (length d <=? 30)%nat; reflexivity.
Qed.

Definition is_ea (i : input) : bool :=
  match fst (fst i) with OpEaRt _ | OpEaPostcard _ => true | _ => false end.

Lemma mon_pk_parse isp (r : res bytes) :
  r <> Panic -> (forall k, r = Ok k -> isp k = true /\ length k = 32%nat) ->
  match r >>= (fun k => Ok (OBytes (pk_obs k))) with
  | Ok (OBytes l) => pk_accept_ok isp l
  | Ok _ => false
  | Err _ => true
  | Panic => false
  end = true.
Proof.
  intros T H. destruct r as [k| |]; cbn [bind]; [|reflexivity|congruence].
  destruct (H k eq_refl). now apply pk_accept_obs.
Qed.

Lemma no_trailing_ok {A} (r : res (A * bytes)) a : no_trailing r = Ok a -> exists t, r = Ok (a, t).
Proof. unfold no_trailing, bind. destruct r as [(x, t)| |]; try discriminate. intros [= <-]. eauto. Qed.

Lemma no_trailing_total {A} (r : res (A * bytes)) : r <> Panic -> no_trailing r <> Panic.
Proof. unfold no_trailing, bind. destruct r as [(x, t)| |]; try discriminate. congruence. Qed.

Lemma len_gt_maxlen (s : bytes) : (MAXLEN <? len s) = false -> len s <= MAXLEN.
Proof. lia. Qed.

Lemma monitor_model_non_ea i : is_ea i = false -> monitor i (model i) = true.
Proof.
  destruct i as ((o, pts), urls). unfold is_ea. cbn [fst].
  set (isp := is_point_of pts). set (up := url_parse_of urls).
  destruct o; try discriminate; intros _; unfold monitor, model; fold isp; fold up.
  - (* PkStr *)
    destruct (MAXLEN <? len s) eqn:E; [reflexivity|]. apply len_gt_maxlen in E.
    apply mon_pk_parse; [now apply pk_from_str_total|apply pk_from_str_ok].
  - (* PkZ32 *)
    destruct (MAXLEN <? len s) eqn:E; [reflexivity|]. apply len_gt_maxlen in E.
    apply mon_pk_parse; [now apply pk_from_z32_total|apply pk_from_z32_ok].
  - (* PkSlice *)
    apply mon_pk_parse; [apply pk_try_from_slice_total|].
    intros k H. now apply pk_try_from_slice_ok in H as (_ & P & L).
  - (* PkPostcard *)
    apply mon_pk_parse; [apply no_trailing_total, pk_postcard_dec_total|].
    intros k H. apply no_trailing_ok in H as (t & H). now apply pk_postcard_dec_ok in H.
  - (* PkJson *)
    destruct (MAXLEN <? len s) eqn:E; [reflexivity|]. apply len_gt_maxlen in E.
    pose proof (pk_from_str_total isp s E) as T.
    destruct (pk_from_str isp s) as [k| |] eqn:P; [|reflexivity|congruence].
    apply pk_from_str_ok in P as (P & L). now apply pk_accept_obs.
  - (* SkStr *)
    destruct (MAXLEN <? len s) eqn:E; [reflexivity|]. apply len_gt_maxlen in E.
    unfold sk_from_str. pose proof (decode_base32_hex_total s E) as T.
    destruct (decode_base32_hex s) as [k| |] eqn:P; cbn [bind]; [|reflexivity|congruence].
    apply decode_base32_hex_len in P. rewrite P. reflexivity.
  - (* PkRt *)
    destruct ((length b =? 32)%nat && bytes_ok b) eqn:W; [|reflexivity]. cbn [negb].
    apply andb_prop in W as (L & B). apply Nat.eqb_eq in L.
    destruct (isp b) eqn:P.
    + assert (V : valid_key isp b) by (repeat split; auto).
      rewrite (pk_slice_roundtrip isp b V). cbn [bind].
      rewrite (pk_hex_roundtrip isp b V), (pk_base32_upper_roundtrip isp b V),
        (pk_base32_lower_roundtrip isp b V), (pk_z32_roundtrip isp b V).
      pose proof (pk_postcard_roundtrip isp b [] V) as PC. rewrite app_nil_r in PC. rewrite PC.
      unfold no_trailing. cbn [bind all_ok_eq forallb length Nat.eqb].
      unfold rb_eqb. cbn [res_eqb]. rewrite bytes_eqb_refl. reflexivity.
    + unfold pk_try_from_slice, pk_from_bytes. rewrite L, P. reflexivity.
  - (* SigPostcard *)
    unfold sig_postcard_dec, no_trailing.
    destruct (length b <? 64)%nat eqn:E; cbn [bind]; [reflexivity|].
    apply Nat.ltb_ge in E. rewrite firstn_length, Nat.min_l by exact E. reflexivity.
  - (* CaStr *)
    destruct (MAXLEN <? len s) eqn:E; [reflexivity|]. apply len_gt_maxlen in E.
    pose proof (ca_from_str_total s E) as T.
    destruct (ca_from_str s) as [a| |] eqn:P; cbn [bind]; [|reflexivity|congruence].
    unfold ca_from_str in P.
    destruct (split_once 95 s) as [(x, y)|]; [|discriminate].
    destruct (u64_from_str_radix16 x) as [id|]; [|discriminate].
    destruct (enc_decode HEXLOWER y) as [d| |]; try discriminate.
    injection P as <-. apply ca_accept_parts.
  - (* CaBytes *)
    unfold ca_from_bytes. destruct (length b <? 8)%nat eqn:E; cbn [bind]; [reflexivity|].
    apply ca_accept_parts.
  - (* CaPostcard *)
    pose proof (no_trailing_total _ (ca_postcard_dec_total b)) as T.
    destruct (no_trailing (ca_postcard_dec b)) as [a| |] eqn:P; cbn [bind]; [|reflexivity|congruence].
    apply no_trailing_ok in P as (t & P). unfold ca_postcard_dec, bind in P.
    destruct (varint_u64_dec b) as [(id, r)| |]; try discriminate.
    destruct (dec_bytes r) as [(d0, r2)| |]; try discriminate.
    injection P as <- _. apply ca_accept_parts.
  - (* CaRt *)
    destruct ((id <=? U64_MAX) && bytes_ok d && (2 * len d <=? MAXLEN)) eqn:W; [|reflexivity].
    cbn [negb]. apply andb_prop in W as (W & LM). apply andb_prop in W as (HI & B).
    assert (Hid : id <= U64_MAX) by lia. assert (HL : 2 * len d <= MAXLEN) by lia.
    assert (HL2 : len d <= U64_MAX) by (unfold MAXLEN, U64_MAX in *; lia).
    rewrite ca_obs_parts, ca_display_parts, ca_to_vec_parts, ca_postcard_parts.
    change (cdata (from_parts id d)) with (copy_from_slice d).
    change (cid (from_parts id d)) with id.
    rewrite !as_bytes_copy. cbn [bind].
    rewrite (ca_str_roundtrip id d Hid B HL), (ca_bin_roundtrip id d Hid).
    pose proof (ca_postcard_roundtrip id d [] Hid HL2) as PC. rewrite app_nil_r in PC. rewrite PC.
    unfold no_trailing. cbn [bind].
    unfold ca_back. rewrite !ca_to_vec_parts, !custom_eqb_refl.
    change (cdata (from_parts id d)) with (copy_from_slice d). rewrite !copy_inline_iff.
    unfold flag. cbn [app triples_ok length Nat.eqb].
    rewrite !bytes_eqb_refl.
    destruct (length d <=? 30)%nat; reflexivity.
Qed.

(* ------------------------------------------------------------------ *)
(** * EndpointAddr: the SocketAddrV6 flow-info / scope-id finding, and witnesses *)

Definition k0 : bytes := repeat 0 32.
Definition ea_v6_scope : input :=
  (OpEaRt (mkEa k0 [Ip (V6 (repeat 0 15 ++ [1]) 80 0 5)]), [(k0, true)], []).
Definition ea_v6_flow : input :=
  (OpEaRt (mkEa k0 [Ip (V6 (repeat 0 15 ++ [1]) 80 7 0)]), [(k0, true)], []).
Definition ea_good : input :=
  (OpEaRt (mkEa k0 [Relay (str_bytes "https://example.com/"); Ip (V4 [127;0;0;1] 9);
                    Ip (V6 (repeat 0 15 ++ [1]) 443 0 0);
                    Custom (from_parts 5525330 (repeat 9 30)); Custom (from_parts 5525330 (repeat 9 31))]),
   [(k0, true)], [(str_bytes "https://example.com/", Ok (str_bytes "https://example.com/"))]).

(* an address with a scope id (or flow info) is well-formed, and does not come back equal *)
Lemma ea_v6_refuted : exists i, known i = 1 /\ monitor i (model i) = false /\
  match i with (OpEaRt e, pts, urls) => wf_eaddr (is_point_of pts) (url_parse_of urls) e = true | _ => False end.
Proof. exists ea_v6_scope. vm_compute. auto. Qed.

Lemma ea_v6_flow_refuted : known ea_v6_flow = 1 /\ monitor ea_v6_flow (model ea_v6_flow) = false.
Proof. vm_compute. auto. Qed.

(* non-vacuity of the guarded statement: a mixed address set with plain V6 survives *)
Example ea_good_roundtrip : known ea_good = 0 /\ monitor ea_good (model ea_good) = true /\
  match ea_good with (OpEaRt e, pts, urls) => wf_eaddr (is_point_of pts) (url_parse_of urls) e = true | _ => False end.
Proof. vm_compute. auto. Qed.

Lemma ca_from_bytes_total b : ca_from_bytes b <> Panic.
Proof. unfold ca_from_bytes. destruct (length b <? 8)%nat; discriminate. Qed.

Lemma custom_parse_total s :
  (len s <= MAXLEN -> ca_from_str s <> Panic) /\ ca_from_bytes s <> Panic /\ ca_postcard_dec s <> Panic.
Proof. split; [apply ca_from_str_total|split; [apply ca_from_bytes_total|apply ca_postcard_dec_total]]. Qed.

Lemma custom_str_roundtrip' id d : id <= U64_MAX -> bytes_ok d = true -> 2 * len d <= MAXLEN ->
  ca_display (from_parts id d) >>= ca_from_str = Ok (from_parts id d).
Proof. intros. rewrite ca_display_parts. cbn [bind]. now apply ca_str_roundtrip. Qed.

Lemma custom_bin_roundtrip' id d : id <= U64_MAX ->
  ca_to_vec (from_parts id d) >>= ca_from_bytes = Ok (from_parts id d).
Proof. intros. rewrite ca_to_vec_parts. cbn [bind]. now apply ca_bin_roundtrip. Qed.
