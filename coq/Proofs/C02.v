(* C02 — lemmas about the model of key.rs / endpoint_addr.rs. *)
From V Require Import Lib.Base Lib.MachineInt Lib.BaseN Lib.Hex Lib.Leb128 Model.C02.
From Coq Require Import Lia ZifyBool ZifyNat PeanoNat.
Import C02.
Open Scope N_scope.

Ltac Zify.zify_post_hook ::= Z.to_euclidean_division_equations.

(* ------------------------------------------------------------------ *)
(** * data-encoding entry points *)

Lemma enc_decode_len_small c n : N.of_nat n <= MAXLEN -> enc_decode_len c n = decode_len c n.
Proof. intros H. unfold enc_decode_len. destruct (MAXLEN <? N.of_nat n) eqn:E; [lia|reflexivity]. Qed.

Lemma decode_len_total c n : decode_len c n <> Panic.
Proof. unfold decode_len. destruct (_ <=? _)%nat; discriminate. Qed.

Lemma enc_decode_mut_ok c s m : enc_decode_len c (length s) = Ok m -> enc_decode_mut c s m = decode c s.
Proof. intros H. unfold enc_decode_mut. rewrite H, Nat.eqb_refl. reflexivity. Qed.

Lemma enc_decode_total c s : codec_ok c = true -> len s <= MAXLEN -> enc_decode c s <> Panic.
Proof.
  intros Hc H. unfold enc_decode, bind.
  destruct (enc_decode_len c (length s)) as [m| |] eqn:E; [|discriminate|].
  - rewrite (enc_decode_mut_ok _ _ _ E). now apply decode_total.
  - rewrite enc_decode_len_small in E by exact H. now apply decode_len_total in E.
Qed.

Lemma enc_decode_small c s : len s <= MAXLEN -> enc_decode c s = decode c s.
Proof.
  intros H. unfold enc_decode, bind. rewrite enc_decode_len_small by exact H.
  destruct (decode_len c (length s)) as [m| |] eqn:E.
  - apply enc_decode_mut_ok. now rewrite enc_decode_len_small.
  - unfold decode. now rewrite E.
  - now apply decode_len_total in E.
Qed.

(* ------------------------------------------------------------------ *)
(** * decode_base32_hex *)

Lemma hex_len_64 : enc_decode_len HEXLOWER 64 = Ok 32%nat. Proof. reflexivity. Qed.
Lemma b32_len_52 : enc_decode_len BASE32_NOPAD 52 = Ok 32%nat. Proof. reflexivity. Qed.
Lemma z32_len_52 : enc_decode_len Z_BASE_32 52 = Ok 32%nat. Proof. reflexivity. Qed.

Lemma wrap_total (r : res bytes) e : r <> Panic ->
  match r with
  | Ok b => if (length b =? 32)%nat then Ok b else Err 3
  | Err _ => Err e
  | Panic => Panic
  end <> Panic.
Proof. intros H. destruct r as [a| |]; [destruct (length a =? 32)%nat| |]; try discriminate. exact H. Qed.

Lemma decode_base32_hex_total s : len s <= MAXLEN -> decode_base32_hex s <> Panic.
Proof.
  intros H. unfold decode_base32_hex.
  destruct (length s =? 64)%nat eqn:E.
  - apply Nat.eqb_eq in E.
    assert (X : enc_decode_mut HEXLOWER s 32 = decode HEXLOWER s).
    { apply enc_decode_mut_ok. rewrite E. exact hex_len_64. }
    rewrite X. apply wrap_total, decode_total.
  - cbv zeta. rewrite ascii_upper_length.
    destruct (enc_decode_len BASE32_NOPAD (length s)) as [m| |] eqn:L; [|discriminate|].
    + destruct (m =? 32)%nat eqn:M; [|discriminate].
      apply Nat.eqb_eq in M. subst m.
      assert (X : enc_decode_mut BASE32_NOPAD (ascii_upper s) 32 = decode BASE32_NOPAD (ascii_upper s)).
      { apply enc_decode_mut_ok. now rewrite ascii_upper_length. }
      rewrite X. apply wrap_total, decode_total.
    + rewrite enc_decode_len_small in L by exact H. now apply decode_len_total in L.
Qed.

Lemma decode_base32_hex_len s b : decode_base32_hex s = Ok b -> length b = 32%nat.
Proof.
  unfold decode_base32_hex.
  destruct (length s =? 64)%nat.
  - destruct (enc_decode_mut HEXLOWER s 32) as [x| |]; try discriminate.
    destruct (length x =? 32)%nat eqn:E; [|discriminate]. intros [= <-]. now apply Nat.eqb_eq.
  - cbv zeta. destruct (enc_decode_len _ _) as [m| |]; try discriminate.
    destruct (m =? 32)%nat; [|discriminate].
    destruct (enc_decode_mut _ _ _) as [x| |]; try discriminate.
    destruct (length x =? 32)%nat eqn:E; [|discriminate]. intros [= <-]. now apply Nat.eqb_eq.
Qed.

Lemma encode_len_4_32 : encode_len 4 32 = 64%nat. Proof. reflexivity. Qed.
Lemma encode_len_5_32 : encode_len 5 32 = 52%nat. Proof. reflexivity. Qed.

Lemma decode_base32_hex_hex k : length k = 32%nat -> bytes_ok k = true ->
  decode_base32_hex (encode HEXLOWER k) = Ok k.
Proof.
  intros L B. unfold decode_base32_hex.
  assert (EL : length (encode HEXLOWER k) = 64%nat).
  { rewrite (encode_length HEXLOWER HEXLOWER_ok), L. reflexivity. }
  rewrite EL. cbn [Nat.eqb].
  rewrite enc_decode_mut_ok by (rewrite EL; exact hex_len_64).
  rewrite (decode_encode HEXLOWER HEXLOWER_ok k B), L. reflexivity.
Qed.

Lemma decode_base32_hex_b32 s k : length k = 32%nat -> bytes_ok k = true ->
  ascii_upper s = encode BASE32_NOPAD k -> decode_base32_hex s = Ok k.
Proof.
  intros L B U. unfold decode_base32_hex.
  assert (EL : length (encode BASE32_NOPAD k) = 52%nat).
  { rewrite (encode_length BASE32_NOPAD BASE32_NOPAD_ok), L. reflexivity. }
  assert (SL : length s = 52%nat) by (now rewrite <- (ascii_upper_length s), U).
  rewrite SL. cbn [Nat.eqb]. cbv zeta. rewrite U, EL, b32_len_52. cbn [Nat.eqb].
  rewrite enc_decode_mut_ok by (rewrite EL; exact b32_len_52).
  rewrite (decode_encode BASE32_NOPAD BASE32_NOPAD_ok k B), L. reflexivity.
Qed.

Lemma to_upper_lower ch : to_upper (to_lower ch) = to_upper ch.
Proof.
  unfold to_upper, to_lower.
  destruct ((65 <=? ch) && (ch <=? 90)) eqn:A.
  - destruct ((97 <=? ch + 32) && (ch + 32 <=? 122)) eqn:B; [|lia].
    destruct ((97 <=? ch) && (ch <=? 122)) eqn:C; lia.
  - reflexivity.
Qed.

Lemma ascii_upper_lower s : ascii_upper (ascii_lower s) = ascii_upper s.
Proof. unfold ascii_upper, ascii_lower. rewrite map_map. apply map_ext, to_upper_lower. Qed.

(* ------------------------------------------------------------------ *)
(** * Public keys *)

Section Keys.
Variable is_point : bytes -> bool.

Lemma pk_from_bytes_ok b k : pk_from_bytes is_point b = Ok k -> k = b /\ is_point k = true.
Proof. unfold pk_from_bytes. destruct (is_point b) eqn:E; [|discriminate]. intros [= <-]. auto. Qed.

Lemma pk_try_from_slice_ok b k : pk_try_from_slice is_point b = Ok k ->
  k = b /\ is_point k = true /\ length k = 32%nat.
Proof.
  unfold pk_try_from_slice. destruct (length b =? 32)%nat eqn:E; [|discriminate].
  intros H. apply pk_from_bytes_ok in H as (-> & P). apply Nat.eqb_eq in E. auto.
Qed.

Lemma pk_from_str_ok s k : pk_from_str is_point s = Ok k -> is_point k = true /\ length k = 32%nat.
Proof.
  unfold pk_from_str, bind. destruct (decode_base32_hex s) as [b| |] eqn:D; try discriminate.
  intros H. apply pk_from_bytes_ok in H as (-> & P). split; auto. now apply decode_base32_hex_len in D.
Qed.

Lemma pk_from_z32_ok s k : pk_from_z32 is_point s = Ok k -> is_point k = true /\ length k = 32%nat.
Proof.
  unfold pk_from_z32. destruct (enc_decode Z_BASE_32 s) as [b| |]; try discriminate.
  intros H. now apply pk_try_from_slice_ok in H as (_ & P & L).
Qed.

Lemma pk_postcard_dec_ok l k r : pk_postcard_dec is_point l = Ok (k, r) ->
  is_point k = true /\ length k = 32%nat.
Proof.
  unfold pk_postcard_dec. destruct (length l <? 32)%nat; [discriminate|].
  destruct (pk_try_from_slice is_point (firstn 32 l)) as [x| |] eqn:E; try discriminate.
  intros [= <- _]. now apply pk_try_from_slice_ok in E as (_ & P & L).
Qed.

Lemma pk_from_str_total s : len s <= MAXLEN -> pk_from_str is_point s <> Panic.
Proof.
  intros H. unfold pk_from_str, bind. pose proof (decode_base32_hex_total s H) as T.
  destruct (decode_base32_hex s); [|discriminate|congruence].
  unfold pk_from_bytes. destruct (is_point a); discriminate.
Qed.

Lemma pk_try_from_slice_total b : pk_try_from_slice is_point b <> Panic.
Proof.
  unfold pk_try_from_slice, pk_from_bytes.
  destruct (length b =? 32)%nat; [destruct (is_point b)|]; discriminate.
Qed.

Lemma pk_from_z32_total s : len s <= MAXLEN -> pk_from_z32 is_point s <> Panic.
Proof.
  intros H. unfold pk_from_z32. pose proof (enc_decode_total Z_BASE_32 s Z_BASE_32_ok H) as T.
  destruct (enc_decode Z_BASE_32 s); [apply pk_try_from_slice_total|discriminate|congruence].
Qed.

Lemma pk_postcard_dec_total l : pk_postcard_dec is_point l <> Panic.
Proof.
  unfold pk_postcard_dec. destruct (length l <? 32)%nat; [discriminate|].
  pose proof (pk_try_from_slice_total (firstn 32 l)) as T.
  destruct (pk_try_from_slice is_point (firstn 32 l)); [discriminate|discriminate|congruence].
Qed.

Definition valid_key (k : bytes) : Prop := length k = 32%nat /\ bytes_ok k = true /\ is_point k = true.

Lemma pk_hex_roundtrip k : valid_key k -> pk_from_str is_point (pk_display k) = Ok k.
Proof.
  intros (L & B & P). unfold pk_from_str, pk_display, bind.
  rewrite decode_base32_hex_hex by assumption. unfold pk_from_bytes. now rewrite P.
Qed.

Lemma pk_base32_roundtrip k s : valid_key k -> ascii_upper s = pk_base32 k ->
  pk_from_str is_point s = Ok k.
Proof.
  intros (L & B & P) U. unfold pk_from_str, bind.
  rewrite (decode_base32_hex_b32 s k L B U). unfold pk_from_bytes. now rewrite P.
Qed.

Lemma pk_base32_upper_roundtrip k : valid_key k -> pk_from_str is_point (pk_base32 k) = Ok k.
Proof. intros V. apply pk_base32_roundtrip; auto. apply base32_encode_upper. Qed.

Lemma pk_base32_lower_roundtrip k : valid_key k ->
  pk_from_str is_point (ascii_lower (pk_base32 k)) = Ok k.
Proof.
  intros V. apply pk_base32_roundtrip; auto. rewrite ascii_upper_lower. apply base32_encode_upper.
Qed.

Lemma pk_z32_roundtrip k : valid_key k -> pk_from_z32 is_point (pk_to_z32 k) = Ok k.
Proof.
  intros (L & B & P). unfold pk_from_z32, pk_to_z32, enc_decode, bind.
  assert (EL : length (encode Z_BASE_32 k) = 52%nat).
  { rewrite (encode_length Z_BASE_32 Z_BASE_32_ok), L. reflexivity. }
  rewrite EL, z32_len_52.
  rewrite enc_decode_mut_ok by (rewrite EL; exact z32_len_52).
  rewrite (decode_encode Z_BASE_32 Z_BASE_32_ok k B).
  unfold pk_try_from_slice, pk_from_bytes. rewrite L, P. reflexivity.
Qed.

Lemma pk_postcard_roundtrip k rest : valid_key k ->
  pk_postcard_dec is_point (pk_postcard_enc k ++ rest) = Ok (k, rest).
Proof.
  intros (L & B & P). unfold pk_postcard_dec, pk_postcard_enc.
  assert (F : firstn 32 (k ++ rest) = k) by (rewrite <- L; apply firstn_app_exact).
  assert (S : skipn 32 (k ++ rest) = rest) by (rewrite <- L; apply skipn_app_exact).
  rewrite app_length, L.
  destruct (32 + length rest <? 32)%nat eqn:E; [apply Nat.ltb_lt in E; lia|].
  rewrite F, S.
  unfold pk_try_from_slice, pk_from_bytes. rewrite L, P. reflexivity.
Qed.

Lemma pk_slice_roundtrip k : valid_key k -> pk_try_from_slice is_point k = Ok k.
Proof. intros (L & B & P). unfold pk_try_from_slice, pk_from_bytes. now rewrite L, P. Qed.

(* canonicity of the accepted strings: a 64-byte string is the Display form,
   anything else is the base32 form up to ASCII case *)
Lemma pk_from_str_canonical s k : len s <= MAXLEN -> pk_from_str is_point s = Ok k ->
  (length s = 64%nat /\ s = pk_display k) \/ (length s = 52%nat /\ ascii_upper s = pk_base32 k).
Proof.
  intros H. unfold pk_from_str, bind.
  destruct (decode_base32_hex s) as [b| |] eqn:D; try discriminate.
  intros F. apply pk_from_bytes_ok in F as (-> & _).
  unfold decode_base32_hex in D.
  destruct (length s =? 64)%nat eqn:E.
  - left. apply Nat.eqb_eq in E. split; auto.
    rewrite enc_decode_mut_ok in D by (rewrite E; exact hex_len_64).
    destruct (decode HEXLOWER s) as [x| |] eqn:X; try discriminate.
    destruct (length x =? 32)%nat; [|discriminate]. injection D as <-.
    symmetry. now apply (encode_decode HEXLOWER HEXLOWER_ok).
  - right. cbv zeta in D. rewrite ascii_upper_length in D.
    destruct (enc_decode_len BASE32_NOPAD (length s)) as [m| |] eqn:L; try discriminate.
    destruct (m =? 32)%nat eqn:M; [|discriminate]. apply Nat.eqb_eq in M. subst m.
    rewrite enc_decode_mut_ok in D by (now rewrite ascii_upper_length).
    destruct (decode BASE32_NOPAD (ascii_upper s)) as [x| |] eqn:X; try discriminate.
    destruct (length x =? 32)%nat eqn:LX; [|discriminate]. injection D as <-.
    apply Nat.eqb_eq in LX.
    pose proof (encode_decode BASE32_NOPAD BASE32_NOPAD_ok _ _ eq_refl X) as C.
    split; [|now symmetry].
    rewrite <- (ascii_upper_length s), <- C, (encode_length BASE32_NOPAD BASE32_NOPAD_ok), LX.
    reflexivity.
Qed.

End Keys.

(* non-vacuity: a table that accepts some 32 bytes *)
Example valid_key_exists : exists k, valid_key (fun _ => true) k.
Proof. exists (repeat 0 32). repeat split. Qed.

Example pk_parse_examples :
  pk_from_str (fun _ => true) (str_bytes "foobarbaz") = Err 3 /\
  pk_from_str (fun _ => true) (str_bytes "ae58ff8833241ac82d6ff7611046ed67b5072d142c588d0063e942d9a75502b6")
    = Ok (hex "ae58ff8833241ac82d6ff7611046ed67b5072d142c588d0063e942d9a75502b6") /\
  pk_from_str (fun _ => true) (str_bytes "AE58FF8833241AC82D6FF7611046ED67B5072D142C588D0063E942D9A75502B6") = Err 1 /\
  pk_from_str (fun _ => false) (str_bytes "ae58ff8833241ac82d6ff7611046ed67b5072d142c588d0063e942d9a75502b6") = Err 4.
Proof. vm_compute. repeat split. Qed.

(* ------------------------------------------------------------------ *)
(** * CustomAddr *)

Lemma as_bytes_copy d : as_bytes (copy_from_slice d) = Ok d.
Proof.
  unfold copy_from_slice. destruct (length d <=? 30)%nat eqn:E; [|reflexivity].
  cbn [as_bytes]. unfold len. rewrite app_length.
  destruct (N.of_nat (length d) <=? N.of_nat (length d + length (repeat 0 (30 - length d)))) eqn:F; [|lia].
  rewrite Nat2N.id, firstn_app_exact. reflexivity.
Qed.

(* inline_heap_canonical *)
Lemma copy_inline_iff d : is_inline (copy_from_slice d) = (length d <=? 30)%nat.
Proof. unfold copy_from_slice. now destruct (length d <=? 30)%nat. Qed.

Lemma copy_wf d : bytes_ok d = true -> len d <= U64_MAX -> wf_cab (copy_from_slice d) = true.
Proof.
  intros B LU. unfold copy_from_slice. destruct (length d <=? 30)%nat eqn:E.
  - apply Nat.leb_le in E. cbn [wf_cab]. unfold len.
    rewrite app_length, repeat_length, Nat2N.id, skipn_app_exact.
    assert (Z : forall n, forallb (N.eqb 0) (repeat 0 n) = true) by (induction n; cbn; auto).
    assert (O : forall n, bytes_ok (repeat 0 n) = true) by (induction n; cbn; auto).
    unfold bytes_ok in *. rewrite forallb_app, B, Z. fold (bytes_ok (repeat 0 (30 - length d))).
    rewrite O. replace (length d + (30 - length d))%nat with 30%nat by lia.
    cbn. destruct (N.of_nat (length d) <=? 30) eqn:F; [reflexivity|lia].
  - cbn [wf_cab]. rewrite B. apply Nat.leb_gt in E.
    destruct (30 <? length d)%nat eqn:F; [|apply Nat.ltb_ge in F; lia].
    destruct (len d <=? U64_MAX) eqn:G; [reflexivity|lia].
Qed.

(* the representation is a function of the bytes: derived Eq agrees with byte equality *)
Lemma cab_eqb_refl c : cab_eqb c c = true.
Proof. destruct c; cbn; rewrite ?N.eqb_refl, bytes_eqb_refl; reflexivity. Qed.
Lemma custom_eqb_refl a : custom_eqb a a = true.
Proof. unfold custom_eqb. now rewrite N.eqb_refl, cab_eqb_refl. Qed.

Lemma cab_eqb_eq a b : cab_eqb a b = true -> a = b.
Proof.
  destruct a, b; cbn; try discriminate; intros H.
  - apply andb_prop in H as (H1 & H2). apply N.eqb_eq in H1. apply bytes_eqb_eq in H2. congruence.
  - apply bytes_eqb_eq in H. congruence.
Qed.

Lemma from_parts_eq_iff id d id' d' :
  custom_eqb (from_parts id d) (from_parts id' d') = true <-> (id = id' /\ d = d').
Proof.
  split.
  - unfold custom_eqb, from_parts. cbn [cid cdata]. intros H. apply andb_prop in H as (H1 & H2).
    apply N.eqb_eq in H1. apply cab_eqb_eq in H2. split; auto.
    pose proof (as_bytes_copy d) as A. pose proof (as_bytes_copy d') as A'. congruence.
  - intros (-> & ->). apply custom_eqb_refl.
Qed.

Lemma le_enc_length k n : length (le_enc k n) = k.
Proof. revert n; induction k; intros n; cbn [le_enc length]; auto. Qed.

Lemma le_dec_enc k : forall n, n < 256 ^ N.of_nat k -> le_dec (le_enc k n) = n.
Proof.
  induction k as [|k IH]; intros n H.
  - change (256 ^ N.of_nat 0) with 1 in H. cbn. lia.
  - rewrite Nat2N.inj_succ, N.pow_succ_r' in H. cbn [le_enc le_dec].
    rewrite IH by lia. lia.
Qed.

Lemma le_enc_ok k : forall n, bytes_ok (le_enc k n) = true.
Proof.
  induction k as [|k IH]; intros n; cbn [le_enc]; [reflexivity|].
  unfold bytes_ok in *. cbn [forallb]. rewrite IH. unfold byte_ok.
  destruct (n mod 256 <? 256) eqn:E; [reflexivity|lia].
Qed.

Lemma ca_to_vec_parts id d : ca_to_vec (from_parts id d) = Ok (le_enc 8 id ++ d).
Proof. unfold ca_to_vec, from_parts, bind. cbn [cdata cid]. now rewrite as_bytes_copy. Qed.

Lemma ca_bin_roundtrip id d : id <= U64_MAX ->
  ca_from_bytes (le_enc 8 id ++ d) = Ok (from_parts id d).
Proof.
  intros H. unfold ca_from_bytes. rewrite app_length, le_enc_length.
  destruct (8 + length d <? 8)%nat eqn:E; [apply Nat.ltb_lt in E; lia|].
  assert (F : firstn 8 (le_enc 8 id ++ d) = le_enc 8 id).
  { rewrite <- (le_enc_length 8 id) at 1. apply firstn_app_exact. }
  assert (S : skipn 8 (le_enc 8 id ++ d) = d).
  { rewrite <- (le_enc_length 8 id) at 1. apply skipn_app_exact. }
  rewrite F, S, le_dec_enc; [reflexivity|].
  change (256 ^ N.of_nat 8) with 18446744073709551616. unfold U64_MAX in H. lia.
Qed.

Lemma ca_from_bytes_short b : (length b < 8)%nat -> ca_from_bytes b = Err 1.
Proof. intros H. unfold ca_from_bytes. apply Nat.ltb_lt in H. now rewrite H. Qed.

Lemma split_once_app ch a b : Forall (fun c => c <> ch) a ->
  split_once ch (a ++ ch :: b) = Some (a, b).
Proof.
  induction 1 as [|c a Hc _ IH]; cbn [app split_once].
  - now rewrite N.eqb_refl.
  - destruct (c =? ch) eqn:E; [apply N.eqb_eq in E; contradiction|]. now rewrite IH.
Qed.

Lemma fmt_lower_hex_no_sep n : Forall (fun c => c <> 95) (fmt_lower_hex n).
Proof.
  unfold fmt_lower_hex. apply Forall_forall. intros c Hc.
  apply in_map_iff in Hc as (d & <- & _). unfold digit_char.
  destruct (d <? 10) eqn:E; [lia|].
  (* digits are < 16 only for in-range values; for any d: 87 + d = 95 iff d = 8, excluded by E *)
  lia.
Qed.

Lemma hex_len_even n : N.of_nat (2 * n) <= MAXLEN -> enc_decode_len HEXLOWER (2 * n) = Ok n.
Proof.
  intros H. rewrite enc_decode_len_small by exact H. unfold decode_len.
  change (bitw HEXLOWER) with 4%nat.
  destruct (4 <=? (4 * (2 * n)) mod 8)%nat eqn:E; [apply Nat.leb_le in E; lia|].
  f_equal. lia.
Qed.

Lemma hex_encode_len d : length (encode HEXLOWER d) = (2 * length d)%nat.
Proof.
  rewrite (encode_length HEXLOWER HEXLOWER_ok). change (bitw HEXLOWER) with 4%nat.
  unfold encode_len. lia.
Qed.

Lemma enc_decode_hex_roundtrip d : bytes_ok d = true -> 2 * len d <= MAXLEN ->
  enc_decode HEXLOWER (encode HEXLOWER d) = Ok d.
Proof.
  intros B H. unfold enc_decode, bind. rewrite hex_encode_len.
  assert (H' : N.of_nat (2 * length d) <= MAXLEN) by (unfold len in H; lia).
  rewrite (hex_len_even _ H').
  rewrite enc_decode_mut_ok by (rewrite hex_encode_len; apply hex_len_even, H').
  now apply (decode_encode HEXLOWER HEXLOWER_ok).
Qed.

Lemma ca_display_parts id d :
  ca_display (from_parts id d) = Ok (fmt_lower_hex id ++ [95] ++ encode HEXLOWER d).
Proof. unfold ca_display, from_parts, bind. cbn [cdata cid]. now rewrite as_bytes_copy. Qed.

Lemma ca_str_roundtrip id d : id <= U64_MAX -> bytes_ok d = true -> 2 * len d <= MAXLEN ->
  ca_from_str (fmt_lower_hex id ++ [95] ++ encode HEXLOWER d) = Ok (from_parts id d).
Proof.
  intros H B L. unfold ca_from_str. cbn [app].
  rewrite split_once_app by apply fmt_lower_hex_no_sep.
  rewrite from_str_radix_fmt by exact H.
  now rewrite enc_decode_hex_roundtrip.
Qed.

Lemma ca_from_str_total s : len s <= MAXLEN -> ca_from_str s <> Panic.
Proof.
  intros H. unfold ca_from_str.
  destruct (split_once 95 s) as [(a, b)|] eqn:S; [|discriminate].
  destruct (u64_from_str_radix16 a); [|discriminate].
  assert (Lb : len b <= MAXLEN).
  { enough (length b <= length s)%nat by (unfold len in *; lia).
    clear -S. revert a b S. induction s as [|c s IH]; intros a b; cbn [split_once]; [discriminate|].
    destruct (c =? 95).
    - intros [= _ <-]. cbn. lia.
    - destruct (split_once 95 s) as [(x, y)|]; [|discriminate].
      intros [= _ <-]. specialize (IH x y eq_refl). cbn. lia. }
  pose proof (enc_decode_total HEXLOWER b HEXLOWER_ok Lb) as T.
  destruct (enc_decode HEXLOWER b); [discriminate|discriminate|congruence].
Qed.

Lemma ca_postcard_parts id d :
  ca_postcard_enc (from_parts id d) = Ok (varint_u64_enc id ++ varint_u64_enc (len d) ++ d).
Proof. unfold ca_postcard_enc, from_parts, bind. cbn [cdata cid]. now rewrite as_bytes_copy. Qed.

Lemma dec_bytes_roundtrip d rest : len d <= U64_MAX ->
  dec_bytes (varint_u64_enc (len d) ++ d ++ rest) = Ok (d, rest).
Proof.
  intros H. unfold dec_bytes, bind. rewrite varint_u64_roundtrip by exact H.
  unfold len at 1. rewrite app_length.
  destruct (N.of_nat (length d + length rest) <? len d) eqn:E; [unfold len in E; lia|].
  unfold len. rewrite Nat2N.id, firstn_app_exact, skipn_app_exact. reflexivity.
Qed.

Lemma ca_postcard_roundtrip id d rest : id <= U64_MAX -> len d <= U64_MAX ->
  ca_postcard_dec (varint_u64_enc id ++ varint_u64_enc (len d) ++ d ++ rest) = Ok (from_parts id d, rest).
Proof.
  intros H L. unfold ca_postcard_dec, bind. rewrite varint_u64_roundtrip by exact H.
  now rewrite dec_bytes_roundtrip.
Qed.

Lemma dec_bytes_total l : dec_bytes l <> Panic.
Proof.
  unfold dec_bytes, bind, varint_u64_dec. pose proof (leb_dec_total 10 1 1 0 l) as T.
  destruct (leb_dec 10 1 1 0 l) as [(n, r)| |]; [|discriminate|congruence].
  destruct (len r <? n); discriminate.
Qed.

Lemma ca_postcard_dec_total l : ca_postcard_dec l <> Panic.
Proof.
  unfold ca_postcard_dec, bind, varint_u64_dec. pose proof (leb_dec_total 10 1 1 0 l) as T.
  destruct (leb_dec 10 1 1 0 l) as [(n, r)| |]; [|discriminate|congruence].
  pose proof (dec_bytes_total r) as T2.
  destruct (dec_bytes r) as [(d, r2)| |]; [discriminate|discriminate|congruence].
Qed.

(* every accepted / constructed CustomAddr is from_parts of something: its accessors are total *)
Lemma ca_obs_parts id d :
  ca_obs (from_parts id d) =
  [Ok (le_enc 8 id ++ d); Ok (fmt_lower_hex id ++ [95] ++ encode HEXLOWER d);
   flag (length d <=? 30)%nat].
Proof.
  unfold ca_obs. rewrite ca_to_vec_parts, ca_display_parts. unfold from_parts. cbn [cdata].
  now rewrite copy_inline_iff.
Qed.

(* ------------------------------------------------------------------ *)
(** * The monitor on the model's own output *)

Lemma pk_accept_obs isp k : isp k = true -> length k = 32%nat -> pk_accept_ok isp (pk_obs k) = true.
Proof. intros P L. unfold pk_accept_ok, pk_obs. rewrite L, P. reflexivity. Qed.

Lemma ca_accept_parts id d : ca_accept_ok (ca_obs (from_parts id d)) = true.
Proof.
  rewrite ca_obs_parts. unfold ca_accept_ok, flag.
  rewrite app_length, le_enc_length.
  replace (8 + length d - 8)%nat with (length d) by lia.
  destruct (length d <=? 30)%nat; reflexivity.
Qed.

Definition is_ea (i : input) : bool :=
  match fst (fst i) with OpEaRt _ | OpEaPostcard _ => true | _ => false end.

Lemma mon_pk_parse isp (r : res bytes) :
  r <> Panic -> (forall k, r = Ok k -> isp k = true /\ length k = 32%nat) ->
  match r >>= (fun k => Ok (OBytes (pk_obs k))) with
  | Ok (OBytes l) => pk_accept_ok isp l
  | Ok _ => false
  | Err _ => true
  | Panic => false
  end = true.
Proof.
  intros T H. destruct r as [k| |]; cbn [bind]; [|reflexivity|congruence].
  destruct (H k eq_refl). now apply pk_accept_obs.
Qed.

Lemma no_trailing_ok {A} (r : res (A * bytes)) a : no_trailing r = Ok a -> exists t, r = Ok (a, t).
Proof. unfold no_trailing, bind. destruct r as [(x, t)| |]; try discriminate. intros [= <-]. eauto. Qed.

Lemma no_trailing_total {A} (r : res (A * bytes)) : r <> Panic -> no_trailing r <> Panic.
Proof. unfold no_trailing, bind. destruct r as [(x, t)| |]; try discriminate. congruence. Qed.

Lemma len_gt_maxlen (s : bytes) : (MAXLEN <? len s) = false -> len s <= MAXLEN.
Proof. lia. Qed.

Lemma monitor_model_non_ea i : is_ea i = false -> monitor i (model i) = true.
Proof.
  destruct i as ((o, pts), urls). unfold is_ea. cbn [fst].
  set (isp := is_point_of pts). set (up := url_parse_of urls).
  destruct o; try discriminate; intros _; unfold monitor, model; fold isp; fold up.
  - (* PkStr *)
    destruct (MAXLEN <? len s) eqn:E; [reflexivity|]. apply len_gt_maxlen in E.
    apply mon_pk_parse; [now apply pk_from_str_total|apply pk_from_str_ok].
  - (* PkZ32 *)
    destruct (MAXLEN <? len s) eqn:E; [reflexivity|]. apply len_gt_maxlen in E.
    apply mon_pk_parse; [now apply pk_from_z32_total|apply pk_from_z32_ok].
  - (* PkSlice *)
    apply mon_pk_parse; [apply pk_try_from_slice_total|].
    intros k H. now apply pk_try_from_slice_ok in H as (_ & P & L).
  - (* PkPostcard *)
    apply mon_pk_parse; [apply no_trailing_total, pk_postcard_dec_total|].
    intros k H. apply no_trailing_ok in H as (t & H). now apply pk_postcard_dec_ok in H.
  - (* PkJson *)
    destruct (MAXLEN <? len s) eqn:E; [reflexivity|]. apply len_gt_maxlen in E.
    pose proof (pk_from_str_total isp s E) as T.
    destruct (pk_from_str isp s) as [k| |] eqn:P; [|reflexivity|congruence].
    apply pk_from_str_ok in P as (P & L). now apply pk_accept_obs.
  - (* SkStr *)
    destruct (MAXLEN <? len s) eqn:E; [reflexivity|]. apply len_gt_maxlen in E.
    unfold sk_from_str. pose proof (decode_base32_hex_total s E) as T.
    destruct (decode_base32_hex s) as [k| |] eqn:P; cbn [bind]; [|reflexivity|congruence].
    apply decode_base32_hex_len in P. rewrite P. reflexivity.
  - (* PkRt *)
    destruct ((length b =? 32)%nat && bytes_ok b) eqn:W; [|reflexivity]. cbn [negb].
    apply andb_prop in W as (L & B). apply Nat.eqb_eq in L.
    destruct (isp b) eqn:P.
    + assert (V : valid_key isp b) by (repeat split; auto).
      rewrite (pk_slice_roundtrip isp b V). cbn [bind].
      rewrite (pk_hex_roundtrip isp b V), (pk_base32_upper_roundtrip isp b V),
        (pk_base32_lower_roundtrip isp b V), (pk_z32_roundtrip isp b V).
      pose proof (pk_postcard_roundtrip isp b [] V) as PC. rewrite app_nil_r in PC. rewrite PC.
      unfold no_trailing. cbn [bind all_ok_eq forallb length Nat.eqb].
      unfold rb_eqb. cbn [res_eqb]. rewrite bytes_eqb_refl. reflexivity.
    + unfold pk_try_from_slice, pk_from_bytes. rewrite L, P. reflexivity.
  - (* SigPostcard *)
    unfold sig_postcard_dec, no_trailing.
    destruct (length b <? 64)%nat eqn:E; cbn [bind]; [reflexivity|].
    apply Nat.ltb_ge in E. rewrite firstn_length, Nat.min_l by exact E. reflexivity.
  - (* CaStr *)
    destruct (MAXLEN <? len s) eqn:E; [reflexivity|]. apply len_gt_maxlen in E.
    pose proof (ca_from_str_total s E) as T.
    destruct (ca_from_str s) as [a| |] eqn:P; cbn [bind]; [|reflexivity|congruence].
    unfold ca_from_str in P.
    destruct (split_once 95 s) as [(x, y)|]; [|discriminate].
    destruct (u64_from_str_radix16 x) as [id|]; [|discriminate].
    destruct (enc_decode HEXLOWER y) as [d| |]; try discriminate.
    injection P as <-. apply ca_accept_parts.
  - (* CaBytes *)
    unfold ca_from_bytes. destruct (length b <? 8)%nat eqn:E; cbn [bind]; [reflexivity|].
    apply ca_accept_parts.
  - (* CaPostcard *)
    pose proof (no_trailing_total _ (ca_postcard_dec_total b)) as T.
    destruct (no_trailing (ca_postcard_dec b)) as [a| |] eqn:P; cbn [bind]; [|reflexivity|congruence].
    apply no_trailing_ok in P as (t & P). unfold ca_postcard_dec, bind in P.
    destruct (varint_u64_dec b) as [(id, r)| |]; try discriminate.
    destruct (dec_bytes r) as [(d0, r2)| |]; try discriminate.
    injection P as <- _. apply ca_accept_parts.
  - (* CaRt *)
    destruct ((id <=? U64_MAX) && bytes_ok d && (2 * len d <=? MAXLEN)) eqn:W; [|reflexivity].
    cbn [negb]. apply andb_prop in W as (W & LM). apply andb_prop in W as (HI & B).
    assert (Hid : id <= U64_MAX) by lia. assert (HL : 2 * len d <= MAXLEN) by lia.
    assert (HL2 : len d <= U64_MAX) by (unfold MAXLEN, U64_MAX in *; lia).
    rewrite ca_obs_parts, ca_display_parts, ca_to_vec_parts, ca_postcard_parts.
    change (cdata (from_parts id d)) with (copy_from_slice d).
    change (cid (from_parts id d)) with id.
    rewrite !as_bytes_copy. cbn [bind].
    rewrite (ca_str_roundtrip id d Hid B HL), (ca_bin_roundtrip id d Hid).
    pose proof (ca_postcard_roundtrip id d [] Hid HL2) as PC. rewrite app_nil_r in PC. rewrite PC.
    unfold no_trailing. cbn [bind].
    unfold ca_back. rewrite !ca_to_vec_parts, !custom_eqb_refl.
    change (cdata (from_parts id d)) with (copy_from_slice d). rewrite !copy_inline_iff.
    unfold flag. cbn [app triples_ok length Nat.eqb].
    rewrite !bytes_eqb_refl.
    destruct (length d <=? 30)%nat; reflexivity.
  - (* Verify: the model answers with the oracle entry vo, which the guard equates with honest *)
    unfold pk_try_from_slice, pk_from_bytes, flag.
    destruct honest, vo; cbn [Bool.eqb negb orb andb]; try reflexivity;
      destruct (length k =? 32)%nat; cbn [negb andb bind]; try reflexivity;
      destruct (isp k); reflexivity.
Qed.

(* ---- sign / verify: what the monitor clause says, and that it can fail ---- *)

(* For an OpVerify case the harness can produce (oracle entry = what the property demands;
   an honest case has a 32-byte curve point as key) the monitor holds of an observed output
   exactly when: honest -> the implementation answered "accepted"; not honest -> it answered
   "rejected" or refused the key. *)
Lemma monitor_verify_spec k m sg honest pts urls (o : output) :
  (honest = true -> length k = 32%nat /\ is_point_of pts k = true) ->
  monitor (OpVerify k m sg honest honest, pts, urls) o = true <->
  (if honest then o = Ok (OBytes [Ok [1]])
   else o = Ok (OBytes [Ok [0]]) \/ exists e, o = Err e).
Proof.
  intros H. unfold monitor. rewrite Bool.eqb_reflx. cbn [negb orb].
  destruct honest.
  - destruct (H eq_refl) as (L & P). rewrite L, P. cbn [Nat.eqb andb negb].
    destruct o as [[l|e l]| |];
      [destruct l as [|[b| |] [|? ?]]; [|destruct b as [|f [|? ?]]|destruct b as [|? [|? ?]]|..]|..];
      cbn; try (split; [discriminate|intros X; discriminate X]).
    split; [intros E; apply N.eqb_eq in E; now subst|intros [= ->]; reflexivity].
  - cbn [andb negb].
    destruct o as [[l|e l]| |];
      [destruct l as [|[b| |] [|? ?]]; [|destruct b as [|f [|? ?]]|destruct b as [|? [|? ?]]|..]|..];
      cbn; try (split; [discriminate|intros [X|(? & X)]; discriminate X]).
    + split; [intros E; apply N.eqb_eq in E; subst; now left|intros [[= ->]|(? & [=])]; reflexivity].
    + split; [intros _; right; eauto|reflexivity].
Qed.

(* the identity point as key, R = identity, S = 0, any message: a crafted signature *)
Definition weak_key : bytes := 1 :: repeat 0 31.
Definition weak_sig : bytes := 1 :: repeat 0 63.
Definition verify_weak (m : bytes) : input :=
  (OpVerify weak_key m weak_sig false false, [(weak_key, true)], []).

(* non-vacuity / sensitivity: the model (strict verification) rejects it, the monitor accepts
   "rejected" and fails on "accepted" (what non-strict verification answers), for any message *)
Example verify_weak_ex m :
  known (verify_weak m) = 0 /\ model (verify_weak m) = Ok (OBytes [Ok [0]]) /\
  monitor (verify_weak m) (Ok (OBytes [Ok [0]])) = true /\
  monitor (verify_weak m) (Ok (OBytes [Ok [1]])) = false.
Proof. repeat split. Qed.

Example verify_honest_ex :
  let i := (OpVerify (repeat 0 32) [1] (repeat 7 64) true true, [(repeat 0 32, true)], []) in
  monitor i (model i) = true /\ monitor i (Ok (OBytes [Ok [0]])) = false /\ monitor i (Err 4) = false.
Proof. vm_compute. auto. Qed.

(* ------------------------------------------------------------------ *)
(** * EndpointAddr: the SocketAddrV6 flow-info / scope-id finding, and witnesses *)

Definition k0 : bytes := repeat 0 32.
Definition ea_v6_scope : input :=
  (OpEaRt (mkEa k0 [Ip (V6 (repeat 0 15 ++ [1]) 80 0 5)]), [(k0, true)], []).
Definition ea_v6_flow : input :=
  (OpEaRt (mkEa k0 [Ip (V6 (repeat 0 15 ++ [1]) 80 7 0)]), [(k0, true)], []).
Definition ea_good : input :=
  (OpEaRt (mkEa k0 [Relay (str_bytes "https://example.com/"); Ip (V4 [127;0;0;1] 9);
                    Ip (V6 (repeat 0 15 ++ [1]) 443 0 0);
                    Custom (from_parts 5525330 (repeat 9 30)); Custom (from_parts 5525330 (repeat 9 31))]),
   [(k0, true)], [(str_bytes "https://example.com/", Ok (str_bytes "https://example.com/"))]).

(* an address with a scope id (or flow info) is well-formed, and does not come back equal *)
Lemma ea_v6_refuted : exists i, known i = 1 /\ monitor i (model i) = false /\
  match i with (OpEaRt e, pts, urls) => wf_eaddr (is_point_of pts) (url_parse_of urls) e = true | _ => False end.
Proof. exists ea_v6_scope. vm_compute. auto. Qed.

Lemma ea_v6_flow_refuted : known ea_v6_flow = 1 /\ monitor ea_v6_flow (model ea_v6_flow) = false.
Proof. vm_compute. auto. Qed.

(* non-vacuity of the guarded statement: a mixed address set with plain V6 survives *)
Example ea_good_roundtrip : known ea_good = 0 /\ monitor ea_good (model ea_good) = true /\
  match ea_good with (OpEaRt e, pts, urls) => wf_eaddr (is_point_of pts) (url_parse_of urls) e = true | _ => False end.
Proof. vm_compute. auto. Qed.

Lemma ca_from_bytes_total b : ca_from_bytes b <> Panic.
Proof. unfold ca_from_bytes. destruct (length b <? 8)%nat; discriminate. Qed.

Lemma custom_parse_total s :
  (len s <= MAXLEN -> ca_from_str s <> Panic) /\ ca_from_bytes s <> Panic /\ ca_postcard_dec s <> Panic.
Proof. split; [apply ca_from_str_total|split; [apply ca_from_bytes_total|apply ca_postcard_dec_total]]. Qed.

Lemma custom_str_roundtrip' id d : id <= U64_MAX -> bytes_ok d = true -> 2 * len d <= MAXLEN ->
  ca_display (from_parts id d) >>= ca_from_str = Ok (from_parts id d).
Proof. intros. rewrite ca_display_parts. cbn [bind]. now apply ca_str_roundtrip. Qed.

Lemma custom_bin_roundtrip' id d : id <= U64_MAX ->
  ca_to_vec (from_parts id d) >>= ca_from_bytes = Ok (from_parts id d).
Proof. intros. rewrite ca_to_vec_parts. cbn [bind]. now apply ca_bin_roundtrip. Qed.

From Coq Require Import Sorting.Sorted.

(* ------------------------------------------------------------------ *)
(** * EndpointAddr through postcard: the general round trip and totality *)

(** ** BTreeSet re-insertion of an ascending sequence *)

Definition insert_all (l acc : list taddr) : list taddr :=
  fold_left (fun acc a => set_insert a acc) l acc.

Lemma set_insert_last a : forall acc,
  forallb (fun p => match taddr_cmp a p with Gt => true | _ => false end) acc = true ->
  set_insert a acc = acc ++ [a].
Proof.
  induction acc as [|x r IH]; cbn [forallb set_insert app]; [reflexivity|].
  intros H. apply andb_prop in H as (H1 & H2).
  destruct (taddr_cmp a x); try discriminate. now rewrite IH.
Qed.

Lemma insert_all_ascending : forall l prev, ascending prev l = true -> insert_all l prev = prev ++ l.
Proof.
  induction l as [|a r IH]; intros prev H; unfold insert_all; cbn [fold_left].
  - now rewrite app_nil_r.
  - cbn [ascending] in H. apply andb_prop in H as (H1 & H2).
    rewrite set_insert_last by exact H1. fold (insert_all r (prev ++ [a])).
    rewrite IH by exact H2. now rewrite <- app_assoc.
Qed.

(* the derived order is antisymmetric: a < b iff b > a *)
Lemma lex_opp c1 c2 : lex (CompOpp c1) (CompOpp c2) = CompOpp (lex c1 c2).
Proof. destruct c1; reflexivity. Qed.

Lemma bytes_cmp_antisym : forall a b, bytes_cmp b a = CompOpp (bytes_cmp a b).
Proof.
  induction a as [|x a IH]; intros [|y b]; cbn [bytes_cmp]; try reflexivity.
  rewrite (N.compare_antisym x y). destruct (x ?= y); cbn [CompOpp]; auto.
Qed.

Lemma cab_cmp_antisym a b : cab_cmp b a = CompOpp (cab_cmp a b).
Proof.
  destruct a as [s d|d], b as [s' d'|d']; cbn [cab_cmp]; try reflexivity.
  - rewrite (N.compare_antisym s s'), (bytes_cmp_antisym d d'). apply lex_opp.
  - apply bytes_cmp_antisym.
Qed.

Lemma sock_cmp_antisym a b : sock_cmp b a = CompOpp (sock_cmp a b).
Proof.
  destruct a as [i p|i p f s], b as [i' p'|i' p' f' s']; cbn [sock_cmp]; try reflexivity.
  - rewrite (bytes_cmp_antisym i i'), (N.compare_antisym p p'). apply lex_opp.
  - rewrite (bytes_cmp_antisym i i'), (N.compare_antisym p p'), (N.compare_antisym f f'),
      (N.compare_antisym s s'), !lex_opp. reflexivity.
Qed.

Lemma taddr_cmp_antisym a b : taddr_cmp b a = CompOpp (taddr_cmp a b).
Proof.
  destruct a as [u|x|x], b as [u'|y|y]; cbn [taddr_cmp]; try reflexivity.
  - apply bytes_cmp_antisym.
  - apply sock_cmp_antisym.
  - unfold custom_cmp. rewrite (N.compare_antisym (cid x) (cid y)), (cab_cmp_antisym (cdata x) (cdata y)).
    apply lex_opp.
Qed.

(* `ascending [] l` is strict sortedness in the derived order (hence duplicate-free) *)
Definition taddr_lt (a b : taddr) : Prop := taddr_cmp a b = Lt.

Lemma taddr_lt_iff a b : taddr_lt a b <-> taddr_cmp b a = Gt.
Proof. unfold taddr_lt. rewrite (taddr_cmp_antisym a b). destruct (taddr_cmp a b); cbn; split; congruence. Qed.

Lemma ascending_spec : forall l prev, ascending prev l = true <->
  (Forall (fun a => Forall (fun p => taddr_lt p a) prev) l /\ StronglySorted taddr_lt l).
Proof.
  induction l as [|a r IH]; intros prev; cbn [ascending].
  - split; [intros _; split; constructor|reflexivity].
  - rewrite andb_true_iff, IH, forallb_forall. split.
    + intros (H1 & H2 & H3). split.
      * constructor.
        -- apply Forall_forall. intros p Hp. specialize (H1 p Hp). apply taddr_lt_iff.
           destruct (taddr_cmp a p); congruence.
        -- eapply Forall_impl; [|exact H2]. cbn. intros x Hx. apply Forall_app in Hx. tauto.
      * constructor; [exact H3|].
        eapply Forall_impl; [|exact H2]. cbn. intros x Hx. apply Forall_app in Hx as (_ & Hx).
        now inversion Hx.
    + intros (H1 & H2). inversion H1 as [|? ? Ha Hr]; subst. inversion H2 as [|? ? Hs Hf]; subst.
      split; [|split].
      * intros p Hp. rewrite Forall_forall in Ha. specialize (Ha p Hp). apply taddr_lt_iff in Ha. now rewrite Ha.
      * rewrite Forall_forall in *. intros x Hx. apply Forall_app. split; [now apply Hr|].
        constructor; [now apply Hf|constructor].
      * exact Hs.
Qed.

Lemma ascending_sorted l : ascending [] l = true <-> StronglySorted taddr_lt l.
Proof.
  rewrite ascending_spec. split; [tauto|]. intros H. split; [|exact H].
  apply Forall_forall. intros; constructor.
Qed.

(** ** one address *)

Lemma rb_eqb_ok r u : rb_eqb r (Ok u) = true -> r = Ok u.
Proof. destruct r; cbn; try discriminate. intros H. apply bytes_eqb_eq in H. now subst. Qed.

Lemma zeros_repeat l : forallb (N.eqb 0) l = true -> l = repeat 0 (length l).
Proof.
  induction l as [|x l IH]; cbn [forallb length repeat]; [reflexivity|].
  intros H. apply andb_prop in H as (H1 & H2). apply N.eqb_eq in H1. subst x. now rewrite <- IH.
Qed.

(* a well-formed representation is the one copy_from_slice builds from its bytes *)
Lemma wf_cab_copy c : wf_cab c = true ->
  exists d, as_bytes c = Ok d /\ copy_from_slice d = c /\ len d <= U64_MAX.
Proof.
  destruct c as [s d|d]; cbn [wf_cab]; intros H.
  - apply andb_prop in H as (H & Z). apply andb_prop in H as (H & B). apply andb_prop in H as (S & L).
    apply Nat.eqb_eq in L. exists (firstn (N.to_nat s) d).
    assert (Ls : (N.to_nat s <= 30)%nat) by lia.
    assert (Lf : length (firstn (N.to_nat s) d) = N.to_nat s) by (apply firstn_length_le; lia).
    split; [|split].
    + cbn [as_bytes]. unfold len. rewrite L. destruct (s <=? N.of_nat 30) eqn:E; [reflexivity|lia].
    + unfold copy_from_slice. rewrite Lf.
      destruct (N.to_nat s <=? 30)%nat eqn:E; [|apply Nat.leb_gt in E; lia].
      unfold len. rewrite Lf, N2Nat.id. f_equal.
      transitivity (firstn (N.to_nat s) d ++ skipn (N.to_nat s) d); [|apply firstn_skipn]. f_equal.
      rewrite (zeros_repeat _ Z), skipn_length, L. reflexivity.
    + unfold len, U64_MAX. rewrite Lf. lia.
  - apply andb_prop in H as (H & LU). apply andb_prop in H as (L & B). exists d.
    split; [reflexivity|split; [|lia]].
    unfold copy_from_slice. destruct (length d <=? 30)%nat eqn:E; [apply Nat.leb_le in E; lia|reflexivity].
Qed.

Lemma dec_u8s_app k ip rest : length ip = k -> dec_u8s k (ip ++ rest) = Ok (ip, rest).
Proof.
  intros <-. unfold dec_u8s. rewrite app_length.
  destruct (length ip + length rest <? length ip)%nat eqn:E; [apply Nat.ltb_lt in E; lia|].
  now rewrite firstn_app_exact, skipn_app_exact.
Qed.

Lemma sock_roundtrip a rest : wf_sock a = true -> v6_plain (Ip a) = true ->
  sock_dec (sock_enc a ++ rest) = Ok (a, rest).
Proof.
  destruct a as [ip p|ip p f s]; cbn [wf_sock v6_plain sock_enc]; intros W V; unfold sock_dec.
  - apply andb_prop in W as (W & P). apply andb_prop in W as (L & B). apply Nat.eqb_eq in L.
    rewrite <- !app_assoc. rewrite varint_u32_roundtrip by (unfold U32_MAX; lia). cbn [bind].
    change (0 =? 0) with true. cbv iota. rewrite dec_u8s_app by exact L. cbn [bind].
    rewrite varint_u16_roundtrip by lia. reflexivity.
  - apply andb_prop in W as (W & _). apply andb_prop in W as (W & _).
    apply andb_prop in W as (W & P). apply andb_prop in W as (L & B). apply Nat.eqb_eq in L.
    apply andb_prop in V as (F & S). apply N.eqb_eq in F. apply N.eqb_eq in S. subst f s.
    rewrite <- !app_assoc. rewrite varint_u32_roundtrip by (unfold U32_MAX; lia). cbn [bind].
    change (1 =? 0) with false. change (1 =? 1) with true. cbv iota.
    rewrite dec_u8s_app by exact L. cbn [bind].
    rewrite varint_u16_roundtrip by lia. reflexivity.
Qed.

Section Addr.
Variable is_point : bytes -> bool.
Variable url_parse : bytes -> res bytes.

Lemma taddr_roundtrip a rest : wf_taddr url_parse a = true -> v6_plain a = true ->
  exists x, taddr_enc a = Ok x /\ (0 < length x)%nat /\ taddr_dec url_parse (x ++ rest) = Ok (a, rest).
Proof.
  destruct a as [u|a|c]; cbn [wf_taddr taddr_enc]; intros W V.
  - apply andb_prop in W as (W & U). apply andb_prop in W as (B & L). apply rb_eqb_ok in U.
    eexists. split; [reflexivity|]. split; [change (varint_u32_enc 0) with [0]; cbn [app length]; lia|].
    unfold taddr_dec. rewrite <- !app_assoc. rewrite varint_u32_roundtrip by (unfold U32_MAX; lia).
    cbn [bind]. change (0 =? 0) with true. cbv iota.
    rewrite dec_bytes_roundtrip by lia. cbn [bind]. rewrite U. reflexivity.
  - eexists. split; [reflexivity|]. split; [change (varint_u32_enc 1) with [1]; cbn [app length]; lia|].
    unfold taddr_dec. rewrite <- !app_assoc. rewrite varint_u32_roundtrip by (unfold U32_MAX; lia).
    cbn [bind]. change (1 =? 0) with false. change (1 =? 1) with true. cbv iota.
    rewrite sock_roundtrip by assumption. reflexivity.
  - unfold wf_custom in W. apply andb_prop in W as (I & W).
    destruct (wf_cab_copy _ W) as (d & A & C & L).
    destruct c as [id cd]. cbn [cid cdata] in *. subst cd.
    change (mkCustom id (copy_from_slice d)) with (from_parts id d).
    rewrite ca_postcard_parts. cbn [bind].
    eexists. split; [reflexivity|]. split; [change (varint_u32_enc 2) with [2]; cbn [app length]; lia|].
    unfold taddr_dec. rewrite <- !app_assoc. rewrite varint_u32_roundtrip by (unfold U32_MAX; lia).
    cbn [bind]. change (2 =? 0) with false. change (2 =? 1) with false. change (2 =? 2) with true. cbv iota.
    rewrite ca_postcard_roundtrip by lia. reflexivity.
Qed.

(** ** the sequence *)

Lemma taddrs_roundtrip : forall l rest acc fuel,
  forallb (wf_taddr url_parse) l = true -> forallb v6_plain l = true -> (length l <= fuel)%nat ->
  exists b, taddrs_enc l = Ok b /\ (length l <= length b)%nat /\
    taddrs_dec url_parse fuel (len l) (b ++ rest) acc = Ok (insert_all l acc, rest).
Proof.
  induction l as [|a r IH]; intros rest acc fuel W V F.
  - exists []. split; [reflexivity|]. split; [cbn; lia|].
    change (len (@nil taddr)) with 0. destruct fuel; reflexivity.
  - cbn [forallb] in W, V. apply andb_prop in W as (Wa & Wr). apply andb_prop in V as (Va & Vr).
    destruct fuel as [|f]; [cbn [length] in F; lia|]. cbn [length] in F.
    destruct (taddr_roundtrip a) with (rest := @nil N) as (x & Ex & Lx & _); [assumption..|].
    destruct (IH rest (set_insert a acc) f Wr Vr ltac:(lia)) as (y & Ey & Ly & Dy).
    exists (x ++ y). cbn [taddrs_enc]. rewrite Ex. cbn [bind]. rewrite Ey. cbn [bind].
    split; [reflexivity|]. split; [rewrite app_length; cbn [length]; lia|].
    cbn [taddrs_dec].
    destruct (len (a :: r) =? 0) eqn:E; [unfold len in E; cbn [length] in E; lia|].
    replace (len (a :: r) - 1) with (len r) by (unfold len; cbn [length]; lia).
    rewrite <- app_assoc.
    destruct (taddr_roundtrip a (y ++ rest) Wa Va) as (x' & Ex' & _ & Dx).
    rewrite Ex in Ex'. injection Ex' as <-. rewrite Dx. cbn [bind]. exact Dy.
Qed.

(** ** the whole value *)

Lemma wf_key_valid k : wf_key is_point k = true <-> valid_key is_point k.
Proof.
  unfold wf_key, valid_key. rewrite !andb_true_iff, Nat.eqb_eq. tauto.
Qed.

Lemma ea_roundtrip e rest : wf_eaddr is_point url_parse e = true -> forallb v6_plain (eaddrs e) = true ->
  exists b, ea_enc e = Ok b /\ ea_dec is_point url_parse (b ++ rest) = Ok (e, rest).
Proof.
  intros W V. unfold wf_eaddr in W. apply andb_prop in W as (W & LU). apply andb_prop in W as (W & A).
  apply andb_prop in W as (K & WA). apply wf_key_valid in K.
  destruct (taddrs_roundtrip (eaddrs e) rest [] (S (length (eaddrs e))) WA V ltac:(lia)) as (b & Eb & Lb & _).
  destruct (taddrs_roundtrip (eaddrs e) rest [] (S (length (b ++ rest))) WA V) as (b' & Eb' & _ & Db).
  { rewrite app_length. lia. }
  rewrite Eb in Eb'. injection Eb' as <-.
  unfold ea_enc. rewrite Eb. cbn [bind]. eexists. split; [reflexivity|].
  unfold ea_dec. rewrite <- !app_assoc.
  change (eid e ++ varint_u64_enc (len (eaddrs e)) ++ b ++ rest)
    with (pk_postcard_enc (eid e) ++ varint_u64_enc (len (eaddrs e)) ++ b ++ rest).
  rewrite pk_postcard_roundtrip by exact K. cbn [bind].
  rewrite varint_u64_roundtrip by lia. cbn [bind].
  rewrite Db. cbn [bind]. rewrite insert_all_ascending by exact A. cbn [app].
  destruct e; reflexivity.
Qed.

End Addr.

(** ** the decoder is total, and what it accepts can be re-serialised *)

Lemma bind_total {A B} (x : res A) (f : A -> res B) :
  x <> Panic -> (forall a, x = Ok a -> f a <> Panic) -> x >>= f <> Panic.
Proof. destruct x; cbn [bind]; intros H G; [now apply G|discriminate|congruence]. Qed.

Lemma varint_u32_dec_total l : varint_u32_dec l <> Panic.
Proof. apply leb_dec_total. Qed.
Lemma varint_u16_dec_total l : varint_u16_dec l <> Panic.
Proof. apply leb_dec_total. Qed.
Lemma varint_u64_dec_total l : varint_u64_dec l <> Panic.
Proof. apply leb_dec_total. Qed.

Lemma dec_u8s_total k l : dec_u8s k l <> Panic.
Proof. unfold dec_u8s. destruct (length l <? k)%nat; discriminate. Qed.

Lemma sock_dec_total l : sock_dec l <> Panic.
Proof.
  unfold sock_dec. apply bind_total; [apply varint_u32_dec_total|]. intros (v, r) _.
  destruct (v =? 0); [|destruct (v =? 1); [|discriminate]].
  - apply bind_total; [apply dec_u8s_total|]. intros (ip, r2) _.
    apply bind_total; [apply varint_u16_dec_total|]. intros (p, r3) _. discriminate.
  - apply bind_total; [apply dec_u8s_total|]. intros (ip, r2) _.
    apply bind_total; [apply varint_u16_dec_total|]. intros (p, r3) _. discriminate.
Qed.

Definition encodable (a : taddr) : bool := match taddr_enc a with Ok _ => true | _ => false end.

Lemma set_insert_Forall (P : taddr -> Prop) a : forall acc,
  P a -> Forall P acc -> Forall P (set_insert a acc).
Proof.
  induction acc as [|x r IH]; intros Pa F; cbn [set_insert]; [constructor; auto|].
  inversion F; subst. destruct (taddr_cmp a x); auto.
Qed.

Lemma taddrs_enc_encodable : forall l, Forall (fun a => encodable a = true) l ->
  exists b, taddrs_enc l = Ok b.
Proof.
  induction l as [|a r IH]; intros F; [exists []; reflexivity|].
  inversion F as [|? ? Ha Hr]; subst. destruct (IH Hr) as (y & Ey).
  unfold encodable in Ha. cbn [taddrs_enc]. destruct (taddr_enc a) as [x| |]; try discriminate.
  cbn [bind]. rewrite Ey. cbn [bind]. eauto.
Qed.

Section AddrDec.
Variable is_point : bytes -> bool.
Variable url_parse : bytes -> res bytes.

Lemma taddr_dec_encodable l a r : taddr_dec url_parse l = Ok (a, r) -> encodable a = true.
Proof.
  unfold taddr_dec. destruct (varint_u32_dec l) as [(v, r0)| |]; cbn [bind]; try discriminate.
  destruct (v =? 0); [|destruct (v =? 1); [|destruct (v =? 2); [|discriminate]]].
  - destruct (dec_bytes r0) as [(s, r2)| |]; cbn [bind]; try discriminate.
    destruct (url_parse s); cbn [bind]; try discriminate. intros [= <- _]. reflexivity.
  - destruct (sock_dec r0) as [(x, r2)| |]; cbn [bind]; try discriminate. intros [= <- _]. reflexivity.
  - unfold ca_postcard_dec. destruct (varint_u64_dec r0) as [(id, r1)| |]; cbn [bind]; try discriminate.
    destruct (dec_bytes r1) as [(d, r2)| |]; cbn [bind]; try discriminate. intros [= <- _].
    unfold encodable. cbn [taddr_enc]. rewrite ca_postcard_parts. reflexivity.
Qed.

Lemma taddrs_dec_encodable : forall fuel cnt l acc out r,
  Forall (fun a => encodable a = true) acc ->
  taddrs_dec url_parse fuel cnt l acc = Ok (out, r) -> Forall (fun a => encodable a = true) out.
Proof.
  induction fuel as [|f IH]; intros cnt l acc out r F; cbn [taddrs_dec];
    (destruct (cnt =? 0); [intros [= <- _]; exact F|]); [discriminate|].
  destruct (taddr_dec url_parse l) as [(a, r1)| |] eqn:D; cbn [bind]; try discriminate.
  apply IH. apply set_insert_Forall; [|exact F]. eapply taddr_dec_encodable, D.
Qed.

Lemma ea_dec_ok l e r : ea_dec is_point url_parse l = Ok (e, r) ->
  eid e = firstn 32 l /\ length (eid e) = 32%nat /\ is_point (eid e) = true /\ exists b, ea_enc e = Ok b.
Proof.
  unfold ea_dec. destruct (pk_postcard_dec is_point l) as [(k, r0)| |] eqn:P; cbn [bind]; try discriminate.
  destruct (varint_u64_dec r0) as [(cnt, r2)| |]; cbn [bind]; try discriminate.
  destruct (taddrs_dec url_parse (S (length r2)) cnt r2 []) as [(out, r3)| |] eqn:T; cbn [bind]; try discriminate.
  intros [= <- _]. cbn [eid eaddrs].
  assert (K : k = firstn 32 l).
  { unfold pk_postcard_dec in P. destruct (length l <? 32)%nat; [discriminate|].
    destruct (pk_try_from_slice is_point (firstn 32 l)) as [k'| |] eqn:Q; try discriminate.
    injection P as <- _. now apply pk_try_from_slice_ok in Q as (Q & _). }
  apply pk_postcard_dec_ok in P as (P1 & P2).
  split; [exact K|]. split; [exact P2|]. split; [exact P1|].
  apply taddrs_dec_encodable in T; [|constructor].
  destruct (taddrs_enc_encodable _ T) as (b & Eb). unfold ea_enc. cbn [eid eaddrs]. rewrite Eb.
  cbn [bind]. eauto.
Qed.

Hypothesis url_parse_total : forall s, url_parse s <> Panic.

Lemma taddr_dec_total l : taddr_dec url_parse l <> Panic.
Proof.
  unfold taddr_dec. apply bind_total; [apply varint_u32_dec_total|]. intros (v, r) _.
  destruct (v =? 0); [|destruct (v =? 1); [|destruct (v =? 2); [|discriminate]]].
  - apply bind_total; [apply dec_bytes_total|]. intros (s, r2) _.
    apply bind_total; [apply url_parse_total|]. intros u _. discriminate.
  - apply bind_total; [apply sock_dec_total|]. intros (a, r2) _. discriminate.
  - apply bind_total; [apply ca_postcard_dec_total|]. intros (c, r2) _. discriminate.
Qed.

Lemma taddrs_dec_total : forall fuel cnt l acc, taddrs_dec url_parse fuel cnt l acc <> Panic.
Proof.
  induction fuel as [|f IH]; intros cnt l acc; cbn [taddrs_dec];
    (destruct (cnt =? 0); [discriminate|]); [discriminate|].
  apply bind_total; [apply taddr_dec_total|]. intros (a, r) _. apply IH.
Qed.

Lemma ea_dec_total l : ea_dec is_point url_parse l <> Panic.
Proof.
  unfold ea_dec. apply bind_total; [apply pk_postcard_dec_total|]. intros (k, r) _.
  apply bind_total; [apply varint_u64_dec_total|]. intros (cnt, r2) _.
  apply bind_total; [apply taddrs_dec_total|]. intros (out, r3) _. discriminate.
Qed.

End AddrDec.

(** ** the monitor on the model's output, all 14 operations *)

Lemma sock_eqb_refl a : sock_eqb a a = true.
Proof. destruct a; cbn [sock_eqb]; rewrite bytes_eqb_refl, ?N.eqb_refl; reflexivity. Qed.
Lemma taddr_eqb_refl a : taddr_eqb a a = true.
Proof. destruct a; cbn [taddr_eqb]; [apply bytes_eqb_refl|apply sock_eqb_refl|apply custom_eqb_refl]. Qed.
Lemma eaddr_eqb_refl e : eaddr_eqb e e = true.
Proof. unfold eaddr_eqb. rewrite bytes_eqb_refl. cbn [andb]. apply list_eqb_refl, taddr_eqb_refl. Qed.

Lemma v6_plain_noflow l : forallb v6_plain l = true -> forallb v6_noflow l = true.
Proof.
  rewrite !forallb_forall. intros H a Ha. specialize (H a Ha).
  destruct a as [u|[ip p|ip p f s]|c]; cbn [v6_plain v6_noflow] in *; auto.
  now apply andb_prop in H as (H & _).
Qed.

Lemma url_table_total_spec urls : url_table_total urls = true -> forall s, url_parse_of urls s <> Panic.
Proof.
  unfold url_table_total, url_parse_of. intros H s.
  induction urls as [|(k, v) t IH]; cbn [lookup]; [discriminate|].
  cbn [forallb snd] in H. apply andb_prop in H as (H1 & H2).
  destruct (bytes_eqb k s); [|now apply IH]. destruct v; [discriminate|discriminate|discriminate H1].
Qed.

Lemma bytes_ok_firstn n l : bytes_ok l = true -> bytes_ok (firstn n l) = true.
Proof.
  unfold bytes_ok. revert l; induction n as [|n IH]; intros [|x l]; cbn [firstn forallb]; auto.
  intros H. apply andb_prop in H as (H1 & H2). now rewrite H1, IH.
Qed.

Lemma monitor_model_ea_rt e pts urls : known (OpEaRt e, pts, urls) = 0 ->
  monitor (OpEaRt e, pts, urls) (model (OpEaRt e, pts, urls)) = true.
Proof.
  unfold known. cbn [fst]. destruct (forallb v6_plain (eaddrs e)) eqn:V; [intros _|discriminate].
  unfold monitor, model.
  destruct (wf_eaddr (is_point_of pts) (url_parse_of urls) e) eqn:W; [|reflexivity]. cbn [negb].
  destruct (ea_roundtrip _ _ e [] W V) as (b & Eb & Db). rewrite app_nil_r in Db.
  rewrite Eb. cbn [bind]. rewrite Db. unfold no_trailing. cbn [bind].
  rewrite (v6_plain_noflow _ V), eaddr_eqb_refl. reflexivity.
Qed.

Lemma monitor_model_ea_pc b pts urls :
  monitor (OpEaPostcard b, pts, urls) (model (OpEaPostcard b, pts, urls)) = true.
Proof.
  unfold monitor, model.
  destruct (bytes_ok b && url_table_total urls) eqn:G; [|reflexivity]. cbn [negb].
  apply andb_prop in G as (B & U).
  pose proof (ea_dec_total (is_point_of pts) _ (url_table_total_spec _ U) b) as T.
  destruct (ea_dec (is_point_of pts) (url_parse_of urls) b) as [(e', r)| |] eqn:D;
    unfold no_trailing; cbn [bind]; [|reflexivity|congruence].
  apply ea_dec_ok in D as (K & L & P & x & Ex). rewrite Ex.
  unfold wf_key. rewrite L, P, K, bytes_ok_firstn by exact B. reflexivity.
Qed.

Lemma monitor_model i : known i = 0 -> monitor i (model i) = true.
Proof.
  destruct (is_ea i) eqn:E; [|intros _; now apply monitor_model_non_ea].
  destruct i as ((o, pts), urls). unfold is_ea in E. cbn [fst] in E.
  destruct o; try discriminate; intros K; [now apply monitor_model_ea_rt|apply monitor_model_ea_pc].
Qed.

(* Prop-level reading of the hypotheses of the round trip *)
Definition wf_endpoint_addr (is_point : bytes -> bool) (url_parse : bytes -> res bytes) (e : eaddr) : Prop :=
  valid_key is_point (eid e) /\
  Forall (fun a => wf_taddr url_parse a = true /\ v6_plain a = true) (eaddrs e) /\
  StronglySorted taddr_lt (eaddrs e) /\
  len (eaddrs e) <= U64_MAX.

Lemma endpoint_addr_postcard_roundtrip is_point url_parse e rest :
  wf_endpoint_addr is_point url_parse e ->
  exists b, ea_enc e = Ok b /\ ea_dec is_point url_parse (b ++ rest) = Ok (e, rest).
Proof.
  intros (K & F & S & L). apply ea_roundtrip.
  - unfold wf_eaddr. rewrite !andb_true_iff. repeat split.
    + now apply wf_key_valid.
    + apply forallb_forall. rewrite Forall_forall in F. intros a Ha. now apply F.
    + now apply ascending_sorted.
    + lia.
  - apply forallb_forall. rewrite Forall_forall in F. intros a Ha. now apply F.
Qed.

Lemma endpoint_addr_decode_total is_point url_parse b :
  (forall s, url_parse s <> Panic) -> ea_dec is_point url_parse b <> Panic.
Proof. intros H. now apply ea_dec_total. Qed.

(* non-vacuity: the mixed address set of ea_good satisfies the Prop-level hypotheses *)
Example wf_endpoint_addr_ex :
  match ea_good with
  | (OpEaRt e, pts, urls) => wf_endpoint_addr (is_point_of pts) (url_parse_of urls) e
  | _ => False
  end.
Proof.
  cbv beta iota delta [ea_good]. unfold wf_endpoint_addr. split; [|split; [|split]].
  - vm_compute. repeat split.
  - apply Forall_forall. intros a Ha. apply andb_true_iff.
    revert a Ha. apply forallb_forall. vm_compute. reflexivity.
  - apply ascending_sorted. vm_compute. reflexivity.
  - vm_compute. discriminate.
Qed.

(* why the OpEaPostcard branch of the monitor is guarded: for "bytes" that are not bytes, or a url
   table recording a panic of url::Url, the unguarded conclusion fails on the model's own output *)
Example ea_pc_guards_needed :
  let i1 : input := (OpEaPostcard (repeat 300 32 ++ [0]), [(repeat 300 32, true)], []) in
  let i2 : input := (OpEaPostcard (repeat 0 32 ++ [1;0;0]), [(repeat 0 32, true)], [([], Panic)]) in
  match model i1 with Ok (OEa e' [Ok _]) => wf_key (is_point_of (snd (fst i1))) (eid e') = false | _ => False end /\
  model i2 = Panic.
Proof. vm_compute. auto. Qed.
