(* C21 — proofs about the RemoteMap / RemoteStateActor model. *)
From V Require Import Lib.Base Model.C21.
From Coq Require Import ZifyBool Sorted.
Import C21.
Open Scope N_scope.

(* ------------------------------------------------------------------ *)
(* small facts *)

Lemma reqs_app l1 l2 : reqs (l1 ++ l2) = reqs l1 ++ reqs l2.
Proof. unfold reqs. apply flat_map_app. Qed.

Lemma msg_eqb_eq a b : msg_eqb a b = true -> a = b.
Proof. destruct a, b; cbn; try discriminate; auto. intros H. apply N.eqb_eq in H. now subst. Qed.
Lemma msg_eqb_refl a : msg_eqb a a = true.
Proof. destruct a; cbn; auto. apply N.eqb_refl. Qed.
Lemma msgs_eqb_eq a b : msgs_eqb a b = true -> a = b.
Proof. apply list_eqb_eq. apply msg_eqb_eq. Qed.
Lemma msgs_eqb_refl a : msgs_eqb a a = true.
Proof. apply list_eqb_refl, msg_eqb_refl. Qed.
Lemma nlist_eqb_eq a b : nlist_eqb a b = true <-> a = b.
Proof.
  split; [apply list_eqb_eq; intros x y; apply N.eqb_eq|].
  intros ->. apply list_eqb_refl, N.eqb_refl.
Qed.

Lemma short_cases {A} (l : list A) : (length l <= 1)%nat -> l = [] \/ exists a, l = [a].
Proof. destruct l as [|a [|b l]]; cbn; intros H; [auto | eauto | lia]. Qed.

(* ------------------------------------------------------------------ *)
(* the invariant *)

Definition rinv (s : st) (r : N) : Prop :=
  hist (rs s r) ++ pending s r = issued (rs s r) /\
  (length (acts (rs s r)) <= 1)%nat /\
  (sender (rs s r) = true <-> acts (rs s r) <> []) /\
  (forall a, In a (acts (rs s r)) -> ph a <> ARun -> initm a = []) /\
  (forall n, In n (issued (rs s r)) -> n < nextn s) /\
  StronglySorted N.lt (issued (rs s r)).

Definition pcinv (s : st) : Prop :=
  match pc s with
  | OSending r m => sender (rs s r) = true
  | OReserved r m => exists a, acts (rs s r) = [a] /\ is_done a = false
  | _ => True
  end.

Definition Inv (s : st) : Prop := (forall r, rinv s r) /\ pcinv s.

Lemma inv_init : Inv init.
Proof.
  split; [|exact I]. intros r. unfold rinv; cbn.
  split; [reflexivity|]. split; [lia|]. split; [split; [discriminate | intros H; now contradiction H]|].
  split; [intros a []|]. split; [intros n []|]. constructor.
Qed.

(* a remote whose record, in-flight message and bound are untouched *)
Lemma rinv_frame s s' r :
  rs s' r = rs s r -> inflight s' r = inflight s r -> nextn s <= nextn s' ->
  rinv s r -> rinv s' r.
Proof.
  intros E1 E2 E3 (A & B & C & D & E & F). unfold rinv, pending. rewrite E1, E2.
  repeat split; auto; try apply C. intros n Hn. apply E in Hn. lia.
Qed.

Lemma sorted_snoc l n : StronglySorted N.lt l -> (forall x, In x l -> x < n) -> StronglySorted N.lt (l ++ [n]).
Proof.
  induction l as [|a l IH]; cbn; intros Hs Hb.
  - constructor; constructor.
  - inversion Hs as [|x y Hs' Hall]; subst. constructor.
    + apply IH; auto.
    + apply Forall_app. split; [assumption|]. constructor; [apply Hb; now left | constructor].
Qed.

Ltac inv_acts H :=
  let a := fresh "a" in
  destruct (short_cases _ H) as [?E | [a ?E]].

Lemma neqb_false (a b : N) : a <> b -> (a =? b) = false.
Proof. apply N.eqb_neq. Qed.

Ltac snd_iff C := split; [intros _; discriminate | intros _; apply C; discriminate].
Ltac done_empty A E F :=
  split; [exact A | split; [cbn; lia | split; [split; [discriminate | intros X; now contradiction X] |
  split; [intros ? [] | split; [exact E | exact F]]]]].
Ltac done_new A E F :=
  split; [exact A | split; [cbn; lia | split; [split; [discriminate | reflexivity] |
  split; [intros a' [<-|[]] Hph; cbn in Hph; congruence | split; [exact E | exact F]]]]].
Ltac solve_rs E0 := cbn; rewrite ?N.eqb_refl, ?E0; cbn; rewrite ?app_nil_r; reflexivity.
Ltac rsplit := split; [|split; [|split; [|split; [|split]]]].

Lemma rinv_other s s' r r' :
  r' <> r -> rs s' r' = rs s r' -> inflight s' r' = inflight s r' -> nextn s <= nextn s' ->
  rinv s r' -> rinv s' r'.
Proof. intros _. apply rinv_frame. Qed.

(* EBegin *)
Lemma inv_begin s r n started :
  Inv s -> enabled_ev s (EBegin r n started) = true -> Inv (apply s (EBegin r n started)).
Proof.
  intros [HR HP] Hen. cbn [enabled_ev] in Hen. destruct (pc s) eqn:Hpc; try discriminate.
  apply andb_prop in Hen as [Hn Hst]. apply N.eqb_eq in Hn. subst n.
  apply eqb_prop in Hst. subst started.
  split.
  - intros r'. destruct (N.eq_dec r' r) as [->|Hne].
    + destruct (HR r) as (A & B & C & D & E & F).
      unfold rinv, pending, inflight in *. cbn [apply rs pc nextn]. rewrite N.eqb_refl. rewrite Hpc in A.
      rewrite app_nil_r in A.
      destruct (sender (rs s r)) eqn:Sd; cbn [negb start sender acts hist issued].
      * rsplit.
        -- rewrite reqs_app. cbn [reqs flat_map app]. rewrite app_assoc, A. reflexivity.
        -- exact B.
        -- rewrite Sd. exact C.
        -- exact D.
        -- intros x Hx. apply in_app_iff in Hx as [Hx|[<-|[]]]; [apply E in Hx|]; lia.
        -- apply sorted_snoc; auto.
      * assert (Ha : acts (rs s r) = []).
        { destruct (acts (rs s r)) eqn:Ea; auto. exfalso.
          assert (true = true -> False); [|tauto]. intros _.
          assert (X : false = true) by (apply C; discriminate). discriminate. }
        rewrite Ha in *. cbn in A. rewrite app_nil_r in A. cbn.
        rsplit.
        -- now rewrite A.
        -- lia.
        -- split; [discriminate | reflexivity].
        -- intros a [<-|[]] Hph. reflexivity.
        -- intros x Hx. apply in_app_iff in Hx as [Hx|[<-|[]]]; [apply E in Hx|]; lia.
        -- apply sorted_snoc; auto.
    + apply (rinv_frame s); auto.
      * cbn. now rewrite (neqb_false _ _ Hne).
      * unfold inflight. cbn [apply pc]. rewrite Hpc. now rewrite (neqb_false _ _ (not_eq_sym Hne)).
      * cbn. lia.
  - unfold pcinv. cbn [apply pc rs]. rewrite N.eqb_refl. cbn.
    destruct (sender (rs s r)) eqn:Sd; cbn; [exact Sd | reflexivity].
Qed.

(* EReserve *)
Lemma inv_reserve s ok :
  Inv s -> enabled_ev s (EReserve ok) = true -> Inv (apply s (EReserve ok)).
Proof.
  intros [HR HP] Hen. cbn [enabled_ev] in Hen.
  destruct (pc s) as [|r m|r m|r m] eqn:Hpc; try discriminate.
  unfold live_is in Hen.
  destruct (HR r) as (A & B & C & D & E & F).
  destruct (short_cases _ B) as [E0 | [a E0]]; rewrite E0 in Hen; cbn in Hen; [discriminate|].
  apply andb_prop in Hen as [Hok Hcap]. apply eqb_prop in Hok.
  destruct ok.
  - split.
    + intros r'. destruct (N.eq_dec r' r) as [->|Hne].
      * unfold rinv, pending, inflight in *. cbn [apply]. rewrite Hpc in *.
        cbn [set_pc set_r rs pc nextn]. rewrite N.eqb_refl in *. rewrite E0 in *.
        cbn [set_acts upd_last acts hist issued sender flat_map] in *.
        unfold amsgs in *. cbn [ph initm inbox] in *.
        rsplit; auto.
        -- snd_iff C.
        -- intros a' [<-|[]] Hph. cbn in *. apply D; auto.
      * apply (rinv_frame s); auto.
        -- cbn [apply]. rewrite Hpc. cbn. now rewrite (neqb_false _ _ Hne).
        -- unfold inflight. cbn [apply]. rewrite Hpc. cbn. reflexivity.
        -- cbn [apply]. rewrite Hpc. cbn. lia.
    + unfold pcinv. cbn [apply]. rewrite Hpc. cbn. rewrite N.eqb_refl, E0. cbn.
      eexists. split; [reflexivity|]. unfold is_done, closed in *. cbn.
      symmetry in Hok. apply negb_true_iff in Hok. destruct (ph a); auto; discriminate.
  - split.
    + intros r'. apply (rinv_frame s); auto.
      * cbn [apply]. rewrite Hpc. reflexivity.
      * unfold inflight. cbn [apply]. rewrite Hpc. reflexivity.
      * cbn [apply]. rewrite Hpc. cbn. lia.
    + unfold pcinv. cbn [apply]. rewrite Hpc. cbn. exact I.
Qed.

(* EPush *)
Lemma inv_push s :
  Inv s -> enabled_ev s EPush = true -> Inv (apply s EPush).
Proof.
  intros [HR HP] Hen. cbn [enabled_ev] in Hen.
  destruct (pc s) as [|r m|r m|r m] eqn:Hpc; try discriminate.
  unfold pcinv in HP. rewrite Hpc in HP. destruct HP as [a [Ea Hd]].
  split.
  - intros r'. destruct (N.eq_dec r' r) as [->|Hne].
    + destruct (HR r) as (A & B & C & D & E & F).
      unfold rinv, pending, inflight in *. cbn [apply]. rewrite Hpc in *.
      cbn [set_pc set_r rs pc nextn]. rewrite N.eqb_refl in *. rewrite Ea in *.
      cbn [set_acts upd_last acts hist issued sender flat_map] in *.
      unfold amsgs, is_done in *. cbn [ph initm inbox] in *.
      rsplit; auto.
      * rewrite <- A. f_equal. f_equal.
        destruct (ph a) eqn:Pa; try discriminate; rewrite !app_nil_r, <- ?app_assoc; reflexivity.
      * snd_iff C.
      * intros a' [<-|[]] Hph. cbn in *. apply D; auto.
    + apply (rinv_frame s); auto.
      * cbn [apply]. rewrite Hpc. cbn. now rewrite (neqb_false _ _ Hne).
      * unfold inflight. cbn [apply]. rewrite Hpc. cbn. now rewrite (neqb_false _ _ (not_eq_sym Hne)).
      * cbn [apply]. rewrite Hpc. cbn. lia.
  - unfold pcinv. cbn [apply]. rewrite Hpc. cbn. exact I.
Qed.

(* the owner's pc invariant survives a change of remote r's record that keeps
   "sender and a live actor are there" *)
Lemma pcinv_keep s s' r :
  pc s' = pc s -> (forall r', r' <> r -> rs s' r' = rs s r') ->
  (forall m, pc s <> OReserved r m) ->
  (sender (rs s r) = true -> sender (rs s' r) = true) ->
  pcinv s -> pcinv s'.
Proof.
  intros Ep Eo Hnr Hs HP. unfold pcinv in *. rewrite Ep.
  destruct (pc s) as [|r1 m1|r1 m1|r1 m1] eqn:Hpc; auto.
  - destruct (N.eq_dec r1 r) as [->|Hne]; [auto | rewrite Eo; auto].
  - destruct (N.eq_dec r1 r) as [->|Hne]; [exfalso; eapply Hnr; reflexivity | rewrite Eo; auto].
Qed.

(* EJoin *)
Lemma inv_join s r l l' :
  Inv s -> enabled_ev s (EJoin r l l') = true -> Inv (apply s (EJoin r l l')).
Proof.
  intros [HR HP] Hen. cbn [enabled_ev] in Hen.
  destruct (HR r) as (A & B & C & D & E & F).
  destruct (short_cases _ B) as [E0 | [a E0]]; rewrite E0 in Hen; cbn in Hen; [discriminate|].
  destruct (ph a) as [| | |lf] eqn:Pa; try discriminate.
  apply andb_prop in Hen as [Hl Hl']. apply msgs_eqb_eq in Hl. subst lf.
  assert (Hpc' : (pc s = OIdle /\ l' = l) \/
                 (exists r' m, pc s = OJoining r' m /\ l' = if r' =? r then l ++ [m] else l)).
  { destruct (pc s) as [|r1 m1|r1 m1|r1 m1]; try discriminate.
    - left. split; auto. now apply msgs_eqb_eq.
    - right. exists r1, m1. split; auto. now apply msgs_eqb_eq. }
  split.
  - intros r'. destruct (N.eq_dec r' r) as [->|Hne].
    + unfold rinv, pending, inflight in *. cbn [apply set_pc set_r rs pc nextn].
      rewrite N.eqb_refl. rewrite E0 in *. cbn [take_done]. rewrite Pa.
      cbn [set_acts acts hist issued sender flat_map] in A |- *.
      unfold amsgs in A. rewrite Pa in A. rewrite app_nil_r in A.
      destruct Hpc' as [[Hpc ->] | [r1 [m1 [Hpc ->]]]]; rewrite Hpc in *.
      * destruct l as [|m0 l0].
        -- cbn [set_acts start acts hist issued sender app flat_map]. rewrite ?app_nil_r in *. done_empty A E F.
        -- cbn [set_acts start acts hist issued sender app flat_map]. unfold amsgs.
           cbn [new_actor ph initm inbox]. rewrite ?app_nil_r in *. done_new A E F.
      * destruct (r1 =? r) eqn:E1.
        -- destruct (l ++ [m1]) as [|m0 l0] eqn:El; [destruct l; discriminate|].
           cbn [set_acts start acts hist issued sender app flat_map]. unfold amsgs.
           cbn [new_actor ph initm inbox]. rewrite ?app_nil_r in *. done_new A E F.
        -- destruct l as [|m0 l0].
           ++ cbn [set_acts start acts hist issued sender app flat_map]. rewrite ?E1. rewrite ?app_nil_r in *.
              cbn [reqs flat_map]. rewrite ?app_nil_r in *. done_empty A E F.
           ++ cbn [set_acts start acts hist issued sender app flat_map]. unfold amsgs.
              cbn [new_actor ph initm inbox]. rewrite ?E1. rewrite ?app_nil_r in *. done_new A E F.
    + apply (rinv_frame s); auto.
      * cbn. now rewrite (neqb_false _ _ Hne).
      * unfold inflight. cbn [apply set_pc pc].
        destruct (pc s) as [|r1 m1|r1 m1|r1 m1]; auto.
        destruct (r1 =? r) eqn:E1; auto. apply N.eqb_eq in E1. subst r1.
        now rewrite (neqb_false _ _ (not_eq_sym Hne)).
      * cbn. lia.
  - unfold pcinv. cbn [apply set_pc pc].
    destruct Hpc' as [[Hpc ->] | [r1 [m1 [Hpc ->]]]]; rewrite Hpc; [exact I|].
    destruct (r1 =? r); exact I.
Qed.

(* an update of the single actor of r that keeps its requests, with optional handled request *)
Lemma inv_actor_upd s s' r a a' h :
  Inv s -> acts (rs s r) = [a] ->
  (forall m, pc s <> OReserved r m) ->
  pc s' = pc s -> nextn s' = nextn s ->
  (forall r', r' <> r -> rs s' r' = rs s r') ->
  acts (rs s' r) = [a'] -> sender (rs s' r) = sender (rs s r) ->
  hist (rs s' r) = hist (rs s r) ++ h -> issued (rs s' r) = issued (rs s r) ->
  reqs (amsgs a) = h ++ reqs (amsgs a') ->
  (ph a' <> ARun -> initm a' = []) ->
  Inv s'.
Proof.
  intros [HR HP] Ea Hnr Ep En Eo Er1 Er2 Er3 Er4 Hq Hi.
  split.
  - intros r'. destruct (N.eq_dec r' r) as [->|Hne].
    + destruct (HR r) as (A & B & C & D & E & F).
      unfold rinv, pending in *.
      assert (Ei : inflight s' r = inflight s r) by (unfold inflight; now rewrite Ep).
      rewrite Ei, Er1, Er2, Er3, Er4, En. rewrite Ea in *. cbn [acts hist issued sender flat_map] in *.
      rewrite app_nil_r in *. rewrite reqs_app in *.
      rsplit; auto.
      * rewrite <- A, Hq, <- !app_assoc. reflexivity.
      * snd_iff C.
      * intros x [<-|[]]. exact Hi.
    + apply (rinv_frame s); auto.
      * unfold inflight. now rewrite Ep.
      * rewrite En. lia.
  - apply (pcinv_keep s s' r); auto.
    rewrite Er2. auto.
Qed.

Lemma not_reserved md s e r m :
  enabled md s e = true -> md = AtomicSend -> e <> EPush -> pc s <> OReserved r m.
Proof.
  intros En -> Hne Hpc. unfold enabled in En. rewrite Hpc in En. destruct e; try discriminate. congruence.
Qed.

Lemma enabled_ev_of md s e : enabled md s e = true -> enabled_ev s e = true.
Proof. unfold enabled. destruct md, (pc s), e; auto; discriminate. Qed.

Ltac actor_upd s r a a' h E0 HR HP En :=
  apply (inv_actor_upd s _ r a a' h);
  [ split; [exact HR | exact HP] | exact E0
  | intros m0; eapply not_reserved; [exact En | reflexivity | discriminate]
  | try reflexivity | try reflexivity
  | intros r' Hne; cbn; now rewrite (neqb_false _ _ Hne)
  | solve_rs E0 | solve_rs E0 | solve_rs E0 | solve_rs E0 | | ].

Lemma inv_step s e s' : Inv s -> step AtomicSend s e = Some s' -> Inv s'.
Proof.
  intros HI. unfold step. destruct (enabled AtomicSend s e) eqn:En; [|discriminate].
  intros H; injection H as <-.
  pose proof (enabled_ev_of _ _ _ En) as Hen.
  destruct e as [r n started|ok| |r l l'|r res|r m|r|r|r l|n|].
  - now apply inv_begin.
  - now apply inv_reserve.
  - now apply inv_push.
  - now apply inv_join.
  - (* EForeign *)
    cbn [enabled_ev] in Hen. apply N.eqb_eq in Hen.
    cbn [apply]. destruct (res =? 0) eqn:R0; [|assumption].
    apply N.eqb_eq in R0. rewrite R0 in Hen. destruct HI as [HR HP].
    destruct (HR r) as (A & B & C & D & E & F).
    unfold foreign_result in Hen.
    destruct (sender (rs s r)) eqn:Sd; cbn in Hen; [|discriminate].
    destruct (short_cases _ B) as [E0 | [a E0]]; rewrite E0 in Hen; cbn in Hen; [discriminate|].
    destruct (closed a) eqn:Ca; [discriminate|].
    actor_upd s r a (mkActor (initm a) (inbox a ++ [MNet]) (ph a) (resv a)) (@nil N) E0 HR HP En.
    + unfold amsgs, closed in *. cbn. destruct (ph a); try discriminate; rewrite !reqs_app; cbn; now rewrite app_nil_r.
    + cbn. intros Hp. apply D; [rewrite E0; now left | assumption].
  - (* EHandle *)
    cbn [enabled_ev] in Hen. unfold live_is in Hen. destruct HI as [HR HP].
    destruct (HR r) as (A & B & C & D & E & F).
    destruct (short_cases _ B) as [E0 | [a E0]]; rewrite E0 in Hen; cbn in Hen; [discriminate|].
    apply andb_prop in Hen as [Hrun Hm]. unfold is_run in Hrun.
    destruct (ph a) eqn:Pa; try discriminate.
    destruct (next_msg a) as [m'|] eqn:Nm; [|discriminate]. apply msg_eqb_eq in Hm. subst m'.
    assert (Hsp : initm a ++ inbox a = m :: (initm (pop_msg a) ++ inbox (pop_msg a)) /\ ph (pop_msg a) = ARun).
    { unfold next_msg, pop_msg in *. destruct (initm a) as [|i0 il] eqn:Ei.
      - destruct (inbox a) as [|b0 bl]; [discriminate|]. cbn in Nm. injection Nm as ->. cbn. auto.
      - injection Nm as ->. cbn. auto. }
    destruct Hsp as [Hsp Hph'].
    destruct m as [n|].
    + actor_upd s r a (pop_msg a) [n] E0 HR HP En.
      * unfold amsgs. rewrite Pa, Hph', Hsp. reflexivity.
      * congruence.
    + actor_upd s r a (pop_msg a) (@nil N) E0 HR HP En.
      * unfold amsgs. rewrite Pa, Hph', Hsp. reflexivity.
      * congruence.
  - (* EBreak *)
    cbn [enabled_ev] in Hen. unfold live_is in Hen. destruct HI as [HR HP].
    destruct (HR r) as (A & B & C & D & E & F).
    destruct (short_cases _ B) as [E0 | [a E0]]; rewrite E0 in Hen; cbn in Hen; [discriminate|].
    apply andb_prop in Hen as [Hrun Hi]. unfold is_run in Hrun.
    destruct (ph a) eqn:Pa; try discriminate. destruct (initm a) eqn:Ia; [|discriminate].
    actor_upd s r a (set_ph ABroke a) (@nil N) E0 HR HP En.
    + unfold amsgs. cbn. now rewrite Pa.
    + intros _. exact Ia.
  - (* EClose *)
    cbn [enabled_ev] in Hen. unfold live_is in Hen. destruct HI as [HR HP].
    destruct (HR r) as (A & B & C & D & E & F).
    destruct (short_cases _ B) as [E0 | [a E0]]; rewrite E0 in Hen; cbn in Hen; [discriminate|].
    unfold is_broke in Hen. destruct (ph a) eqn:Pa; try discriminate.
    actor_upd s r a (set_ph AClosed a) (@nil N) E0 HR HP En.
    + unfold amsgs. cbn. now rewrite Pa.
    + cbn. intros _. apply D; [rewrite E0; now left | congruence].
  - (* EReturn *)
    cbn [enabled_ev] in Hen. unfold live_is in Hen. destruct HI as [HR HP].
    destruct (HR r) as (A & B & C & D & E & F).
    destruct (short_cases _ B) as [E0 | [a E0]]; rewrite E0 in Hen; cbn in Hen; [discriminate|].
    apply andb_prop in Hen as [Hc Hl]. unfold is_closed_ph in Hc.
    destruct (ph a) eqn:Pa; try discriminate. apply msgs_eqb_eq in Hl. subst l.
    assert (Ia : initm a = []) by (apply D; [rewrite E0; now left | congruence]).
    actor_upd s r a (mkActor (initm a) [] (ADone (inbox a)) (resv a)) (@nil N) E0 HR HP En.
    + unfold amsgs. cbn. now rewrite Pa, Ia.
    + intros _. exact Ia.
  - (* EAnswered *)
    destruct HI as [HR HP]. split; [|exact HP]. intros r'. apply (rinv_frame s); auto. cbn. lia.
  - assumption.
Qed.

Lemma inv_steps tr : forall s s', Inv s -> steps AtomicSend s tr = Some s' -> Inv s'.
Proof.
  induction tr as [|e tr IH]; cbn; intros s s' HI H.
  - now injection H as <-.
  - destruct (step AtomicSend s e) as [s1|] eqn:E; [|discriminate].
    eapply IH; [|eassumption]. eapply inv_step; eauto.
Qed.

Lemma sorted_nodup l : StronglySorted N.lt l -> NoDup l.
Proof.
  induction 1 as [|a l Hs IH Hall]; constructor; auto.
  intros Hin. rewrite Forall_forall in Hall. apply Hall in Hin. lia.
Qed.

(* ------------------------------------------------------------------ *)
(* the theorems *)

Lemma no_request_lost tr s r :
  steps AtomicSend init tr = Some s ->
  hist (rs s r) ++ pending s r = issued (rs s r) /\ NoDup (issued (rs s r)).
Proof.
  intros H. destruct (inv_steps _ _ _ inv_init H) as [HR _].
  destruct (HR r) as (A & _ & _ & _ & _ & F). split; auto. now apply sorted_nodup.
Qed.

(* every request made is in exactly one place: handled, or waiting exactly once *)
Lemma request_in_one_place tr s r n :
  steps AtomicSend init tr = Some s -> In n (issued (rs s r)) ->
  (In n (hist (rs s r)) /\ ~ In n (pending s r)) \/ (~ In n (hist (rs s r)) /\ In n (pending s r)).
Proof.
  intros H Hin. destruct (no_request_lost _ _ r H) as [A Hnd].
  rewrite <- A in Hin, Hnd. apply in_app_iff in Hin.
  destruct Hin as [Hh|Hp].
  - left. split; auto. intros Hp. revert Hnd Hh Hp. generalize (hist (rs s r)) (pending s r).
    induction l as [|x l IH]; cbn; intros l2 Hnd Hh Hp; [destruct Hh|].
    inversion Hnd as [|y z Hnot Hnd']; subst. destruct Hh as [->|Hh].
    + apply Hnot. apply in_app_iff. now right.
    + eapply IH; eauto.
  - right. split; auto. intros Hh. revert Hnd Hh Hp. generalize (hist (rs s r)) (pending s r).
    induction l as [|x l IH]; cbn; intros l2 Hnd Hh Hp; [destruct Hh|].
    inversion Hnd as [|y z Hnot Hnd']; subst. destruct Hh as [->|Hh].
    + apply Hnot. apply in_app_iff. now right.
    + eapply IH; eauto.
Qed.

Lemma at_most_one_live tr s r :
  steps AtomicSend init tr = Some s -> (length (acts (rs s r)) <= 1)%nat.
Proof.
  intros H. destruct (inv_steps _ _ _ inv_init H) as [HR _]. now destruct (HR r) as (_ & B & _).
Qed.

Lemma per_remote_fifo tr s r :
  steps AtomicSend init tr = Some s ->
  (exists rest, issued (rs s r) = hist (rs s r) ++ rest) /\ StronglySorted N.lt (issued (rs s r)).
Proof.
  intros H. destruct (inv_steps _ _ _ inv_init H) as [HR _].
  destruct (HR r) as (A & _ & _ & _ & _ & F). split; auto. exists (pending s r). now rewrite A.
Qed.

(* with the send split in two (permit, push) and a step of the actor in between, a request is lost *)
Definition lost_trace : list ev :=
  [EBegin 0 1 true; EReserve true; EBreak 0; EClose 0; EReturn 0 []; EPush; EJoin 0 [] []].

Lemma split_send_refuted :
  exists tr s, steps SplitSend init tr = Some s /\
    issued (rs s 0) = [1] /\ hist (rs s 0) = [] /\ pending s 0 = [] /\
    acts (rs s 0) = [] /\ pc s = OIdle /\ sender (rs s 0) = false.
Proof.
  exists lost_trace. eexists. split; [vm_compute; reflexivity|]. vm_compute. repeat split; reflexivity.
Qed.

(* non-vacuity: the same events with the send atomic are a run in which the request waits in the leftover *)
Example atomic_keeps_request :
  exists s, steps AtomicSend init
    [EBegin 0 1 true; EReserve true; EPush; EHandle 0 (MReq 1); EBreak 0;
     EBegin 0 2 false; EReserve true; EPush; EClose 0; EReturn 0 [MReq 2];
     EJoin 0 [MReq 2] [MReq 2]; EHandle 0 (MReq 2)] = Some s /\
    hist (rs s 0) = [1; 2] /\ issued (rs s 0) = [1; 2].
Proof. eexists. split; [vm_compute; reflexivity|]. vm_compute. split; reflexivity. Qed.

Example lost_trace_not_atomic : steps AtomicSend init lost_trace = None.
Proof. vm_compute. reflexivity. Qed.

(* ------------------------------------------------------------------ *)
(* monitor *)

Definition GoodP (s : st) : Prop :=
  forall r, In r remotes ->
    hist (rs s r) ++ pending s r = issued (rs s r) /\ (length (acts (rs s r)) <= 1)%nat.

Fixpoint AllGood (s : st) (tr : list ev) : Prop :=
  GoodP s /\
  match tr with
  | [] => True
  | e :: tr' => (e = EEnd -> all_answered s = true) /\ AllGood (apply s e) tr'
  end.

Lemma good_b_spec s : good_b s = true <-> GoodP s.
Proof.
  unfold good_b, GoodP. rewrite forallb_forall. split; intros H r Hr; specialize (H r Hr).
  - unfold good_r in H. apply andb_prop in H as [H1 H2]. apply nlist_eqb_eq in H1.
    apply Nat.leb_le in H2. auto.
  - destruct H as [H1 H2]. unfold good_r. apply andb_true_intro. split.
    + now apply nlist_eqb_eq.
    + now apply Nat.leb_le.
Qed.

Lemma all_states_spec tr : forall s, all_states s tr = true <-> AllGood s tr.
Proof.
  induction tr as [|e tr IH]; intros s; cbn [all_states AllGood].
  - rewrite andb_true_r, good_b_spec. tauto.
  - rewrite !andb_true_iff, good_b_spec, IH.
    assert (X : (match e with EEnd => all_answered s | _ => true end) = true <-> (e = EEnd -> all_answered s = true)).
    { destruct e; split; auto; try discriminate. }
    rewrite X. tauto.
Qed.

Lemma monitor_spec i tr : monitor i (Ok tr) = true <-> AllGood init tr.
Proof. unfold monitor. apply all_states_spec. Qed.

Lemma good_of_inv s : Inv s -> GoodP s.
Proof. intros [HR _] r _. destruct (HR r) as (A & B & _). auto. Qed.

Lemma all_good_of_run tr : forall s s',
  Inv s -> steps AtomicSend s tr = Some s' -> AllGood s tr.
Proof.
  induction tr as [|e tr IH]; cbn [AllGood steps]; intros s s' HI H.
  - split; auto. now apply good_of_inv.
  - split; [now apply good_of_inv|].
    destruct (step AtomicSend s e) as [s1|] eqn:E; [|discriminate].
    unfold step in E. destruct (enabled AtomicSend s e) eqn:En; [|discriminate]. injection E as <-.
    split.
    + intros ->. apply enabled_ev_of in En. exact En.
    + eapply IH; [|eassumption]. eapply inv_step; eauto. unfold step. now rewrite En.
Qed.

Lemma steps_app md a : forall s b,
  steps md s (a ++ b) = match steps md s a with Some s' => steps md s' b | None => None end.
Proof.
  induction a as [|e a IH]; cbn; intros s b; auto. destruct (step md s e); auto.
Qed.

Lemma keep_enabled_run md l : forall s l' s',
  keep_enabled md s l = (l', s') -> steps md s l' = Some s'.
Proof.
  induction l as [|e l IH]; cbn; intros s l' s' H.
  - injection H as <- <-. reflexivity.
  - destruct (step md s e) as [s1|] eqn:E.
    + destruct (keep_enabled md s1 l) as [r s2] eqn:K. injection H as <- <-.
      cbn. rewrite E. eapply IH; eauto.
    + injection H as <- <-. reflexivity.
Qed.

Lemma exec_all_run md cs : forall s, exists s', steps md s (exec_all md s cs) = Some s'.
Proof.
  induction cs as [|c cs IH]; cbn; intros s; [eauto|].
  destruct (keep_enabled md s (exec s c)) as [l s1] eqn:K.
  apply keep_enabled_run in K. rewrite steps_app, K. apply IH.
Qed.

Lemma model_trace_run i : exists s', steps code_mode init (model_trace i) = Some s'.
Proof. apply exec_all_run. Qed.

Lemma model_monitor i : monitor i (model i) = true.
Proof.
  unfold model. apply monitor_spec. destruct (model_trace_run i) as [s' H].
  eapply all_good_of_run; [apply inv_init | exact H].
Qed.

Lemma model_agrees i : agree i (model i) = true.
Proof. unfold agree, model. destruct (model_trace_run i) as [s' H]. now rewrite H. Qed.

(* the canonical schedule of a script is not trivial *)
Example model_trace_example :
  model_trace [CQ 0; CW; CT; CQ 0; CX 0; CY 0; CC; CW] =
  [EBegin 0 1 true; EReserve true; EPush; EHandle 0 (MReq 1); EBreak 0;
   EBegin 0 2 false; EReserve true; EPush; EClose 0; EReturn 0 [MReq 2];
   EJoin 0 [MReq 2] [MReq 2]; EHandle 0 (MReq 2)].
Proof. vm_compute. reflexivity. Qed.
