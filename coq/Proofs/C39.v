(* C39 — proofs: index consistency, transactions and crashes, committed-or-newer,
   storage format round trip, eviction. *)
From V Require Import Lib.Base Model.C38 Model.C39 Proofs.C38.
Import C38 C39.
Open Scope N_scope.

(* ---------- order ---------- *)
Lemma more_recent_ge e p : more_recent e p = true -> ge e p = true.
Proof.
  intros H. destruct (ge e p) eqn:E; [reflexivity|]. apply ge_total in E.
  unfold ge in E. rewrite H in E. discriminate.
Qed.

Lemma ge_ts a b : ge a b = true -> pts b <= pts a.
Proof.
  unfold ge, more_recent. destruct (N.eqb_spec (pts b) (pts a)); [lia|].
  rewrite negb_true_iff, N.ltb_ge. lia.
Qed.

(* ---------- the index as a set ---------- *)
Lemma row_eqb_eq a b : row_eqb a b = true <-> a = b.
Proof.
  destruct a as [x y], b as [u v]. unfold row_eqb. cbn [fst snd].
  rewrite andb_true_iff, !N.eqb_eq. split; [intros [-> ->]; reflexivity|intros [= -> ->]; auto].
Qed.

Lemma ix_mem_In r l : ix_mem r l = true <-> In r l.
Proof.
  unfold ix_mem. rewrite existsb_exists. split.
  - intros (x & Hx & E). apply row_eqb_eq in E. now subst.
  - intros H. exists r. split; auto. now apply row_eqb_eq.
Qed.

Lemma In_ix_insert r r' l : In r (ix_insert r' l) <-> r = r' \/ In r l.
Proof.
  unfold ix_insert. destruct (ix_mem r' l) eqn:E.
  - apply ix_mem_In in E. split; [auto|intros [->|]; auto].
  - cbn. split; intros [|]; auto.
Qed.

Lemma In_ix_remove r r' l : In r (ix_remove r' l) <-> In r l /\ r <> r'.
Proof.
  unfold ix_remove. rewrite filter_In, negb_true_iff. split; intros [A B]; split; auto.
  - intros ->. assert (row_eqb r' r' = true) by now apply row_eqb_eq. congruence.
  - destruct (row_eqb r r') eqn:E; auto. apply row_eqb_eq in E. contradiction.
Qed.

(* ---------- index_covers_store ---------- *)
(* every stored packet sits under its own key and has its (timestamp, key) index row *)
Definition covers (d : db) : Prop :=
  forall k ls p, pk d k = Some (ls, p) -> pkey p = k /\ In (pts p, k) (ix d).

(* what the evict task sends: rows older than a cut-off that is not later than the
   cut-off the actor computes when it handles the message (the clock is monotone) *)
Definition wf_msg (R : N) (m : msg) : Prop :=
  match m with CheckExpired now time k => time < now - R | _ => True end.

Lemma covers_empty : covers empty.
Proof. intros k ls p H. discriminate. Qed.

Lemma handle_covers R d m : covers d -> wf_msg R m -> covers (fst (handle R d m)).
Proof.
  intros C W. destruct m as [now p|k|now time k]; cbn [handle].
  - destruct (pk d (pkey p)) as [[ls e]|] eqn:E.
    + destruct (more_recent e p); [exact C|]. cbn [fst].
      intros k ls' q. cbn [pk ix]. unfold upd. destruct (N.eqb_spec k (pkey p)) as [->|Ne].
      * intros [= <- <-]. split; auto. apply In_ix_insert. now left.
      * intros H. destruct (C _ _ _ H) as [A B]. split; auto.
        apply In_ix_insert. right. apply In_ix_remove. split; auto. intros [= _ K]. congruence.
    + cbn [fst]. intros k ls' q. cbn [pk ix]. unfold upd. destruct (N.eqb_spec k (pkey p)) as [->|Ne].
      * intros [= <- <-]. split; auto. apply In_ix_insert. now left.
      * intros H. destruct (C _ _ _ H) as [A B]. split; auto. apply In_ix_insert. now right.
  - exact C.
  - cbn in W. destruct (pk d k) as [[ls q]|] eqn:E.
    + destruct (N.ltb_spec (pts q) (now - R)); cbn [fst]; intros k' ls' q'; cbn [pk ix]; unfold upd.
      * destruct (N.eqb_spec k' k) as [->|Ne]; [discriminate|].
        intros H'. destruct (C _ _ _ H') as [A B]. split; auto.
        apply In_ix_remove. split; auto. intros [= _ K]. congruence.
      * intros H'. destruct (C _ _ _ H') as [A B]. split; auto.
        apply In_ix_remove. split; auto. intros [= T K].
        rewrite K, E in H'. injection H' as <- <-. lia.
    + cbn [fst]. intros k' ls' q'. cbn [pk ix]. intros H'. destruct (C _ _ _ H') as [A B]. split; auto.
      apply In_ix_remove. split; auto. intros [= T K]. rewrite K in H'. congruence.
Qed.

Lemma apply_covers R : forall ms d, covers d -> Forall (wf_msg R) ms -> covers (apply R d ms).
Proof.
  induction ms as [|m r IH]; intros d C W; [exact C|]. cbn [apply]. inversion W; subst.
  apply IH; auto. apply handle_covers; auto.
Qed.

Lemma Forall_firstn {A} (P : A -> Prop) n : forall l, Forall P l -> Forall P (firstn n l).
Proof. induction n; intros [|a l] H; cbn; auto. inversion H; subst. constructor; auto. Qed.

(* at every point of every history (so in particular at every commit) *)
Lemma index_covers_store R d0 ms :
  covers d0 -> Forall (wf_msg R) ms -> forall n, covers (apply R d0 (firstn n ms)).
Proof. intros C W n. apply apply_covers; auto. now apply Forall_firstn. Qed.

(* the converse fails: a CheckExpired for an old row that arrives after the key was
   republished with another old timestamp removes the packet and leaves the new row *)
Definition dp1 := mkPkt 0 1 0 1 [1].
Definition dp2 := mkPkt 0 2 0 2 [2].
Definition dangling_history : list msg :=
  [Upsert 5 dp1; Upsert 6 dp2; CheckExpired 110 1 0].
Lemma dangling_row :
  Forall (wf_msg 100) dangling_history /\
  let d := apply 100 empty dangling_history in pk d 0 = None /\ ix d = [(2, 0)].
Proof. split; [repeat constructor; cbn; lia|]. vm_compute. auto. Qed.
(* ... and the next scan removes it *)
Lemma dangling_heals :
  ix (apply 100 empty (dangling_history ++ [CheckExpired 110 2 0])) = [].
Proof. vm_compute. reflexivity. Qed.

(* ---------- transactions and crashes ---------- *)
Lemma apply_app R : forall a d b, apply R d (a ++ b) = apply R (apply R d a) b.
Proof. induction a as [|m a IH]; intros d b; cbn; auto. Qed.

Lemma ev_run_aux R d0 : forall es done pending,
  ev_run R (apply R d0 done, apply R d0 (done ++ pending)) es =
  (apply R d0 (fst (survived_aux es done pending)),
   apply R d0 (fst (survived_aux es done pending) ++ snd (survived_aux es done pending))).
Proof.
  induction es as [|e es IH]; intros done pending; cbn [ev_run fold_left survived_aux fst snd].
  - reflexivity.
  - destruct e as [m| |]; cbn [ev_step fst snd].
    + specialize (IH done (pending ++ [m])%list). unfold ev_run in IH.
      assert (Q : apply R d0 (done ++ pending ++ [m]) = fst (handle R (apply R d0 (done ++ pending)) m)).
      { rewrite (app_assoc done pending [m]). rewrite (apply_app R (done ++ pending) d0 [m]). reflexivity. }
      rewrite Q in IH. exact IH.
    + specialize (IH (done ++ pending)%list []). unfold ev_run in IH.
      rewrite app_nil_r in IH. exact IH.
    + specialize (IH done []). unfold ev_run in IH. rewrite app_nil_r in IH. exact IH.
Qed.

(* the durable state is the effect of exactly the messages of committed batches (in order);
   the open transaction adds the pending ones *)
Lemma durable_is_survived R d0 es :
  ev_run R (d0, d0) es =
  (apply R d0 (fst (survived es)), apply R d0 (fst (survived es) ++ snd (survived es))).
Proof. exact (ev_run_aux R d0 es [] []). Qed.

Fixpoint no_crash (es : list event) : Prop :=
  match es with [] => True | ECrash :: _ => False | _ :: r => no_crash r end.

Lemma survived_prefix_aux : forall es done pending,
  no_crash es ->
  (done ++ pending ++ msgs_of es)%list =
  (fst (survived_aux es done pending) ++ snd (survived_aux es done pending))%list.
Proof.
  induction es as [|e es IH]; intros done pending H; cbn [survived_aux msgs_of fst snd].
  - now rewrite app_nil_r.
  - destruct e; cbn in H; try contradiction.
    + rewrite <- IH by auto. rewrite <- !app_assoc. reflexivity.
    + rewrite <- IH by auto. rewrite <- !app_assoc. reflexivity.
Qed.

(* a crash after a crash-free run: what is recovered is the effect of a prefix of
   the messages sent, namely those of the committed batches *)
Lemma recovered_is_prefix R d0 es :
  no_crash es ->
  let pre := fst (survived es) in
  ev_run R (d0, d0) (es ++ [ECrash]) = (apply R d0 pre, apply R d0 pre) /\
  exists rest, msgs_of es = (pre ++ rest)%list.
Proof.
  intros H pre. split.
  - unfold ev_run. rewrite fold_left_app. fold (ev_run R (d0, d0) es).
    rewrite durable_is_survived. reflexivity.
  - exists (snd (survived es)). exact (survived_prefix_aux es [] [] H).
Qed.

(* ---------- committed_or_newer ---------- *)
Definition holds (d : db) (p : pkt) : Prop :=
  exists ls q, pk d (pkey p) = Some (ls, q) /\ ge q p = true.

Lemma upsert_holds R d now p : holds (fst (handle R d (Upsert now p))) p.
Proof.
  cbn [handle]. destruct (pk d (pkey p)) as [[ls e]|] eqn:E.
  - destruct (more_recent e p) eqn:M; cbn [fst].
    + exists ls, e. split; auto. now apply more_recent_ge.
    + exists now, p. cbn [pk]. unfold upd. rewrite N.eqb_refl. split; auto. apply ge_refl.
  - cbn [fst]. exists now, p. cbn [pk]. unfold upd. rewrite N.eqb_refl. split; auto. apply ge_refl.
Qed.

Definition on_key (k : N) (m : msg) : bool :=
  match m with CheckExpired _ _ k' => k' =? k | _ => false end.

Lemma handle_holds R d m p :
  holds d p -> on_key (pkey p) m = false -> holds (fst (handle R d m)) p.
Proof.
  intros (ls & q & Hq & G) K. unfold holds. destruct m as [now p'|k|now time k]; cbn [handle].
  - destruct (pk d (pkey p')) as [[ls' e]|] eqn:E.
    + destruct (more_recent e p') eqn:M; cbn [fst]; [exists ls, q; auto|].
      cbn [pk]. unfold upd. destruct (N.eqb_spec (pkey p) (pkey p')) as [Eq|Ne].
      * exists now, p'. split; auto. rewrite Eq in Hq. rewrite E in Hq. injection Hq as <- <-.
        eapply ge_trans; [|exact G]. unfold ge. now rewrite M.
      * exists ls, q. auto.
    + cbn [fst pk]. unfold upd. destruct (N.eqb_spec (pkey p) (pkey p')) as [Eq|Ne].
      * rewrite Eq in Hq. congruence.
      * exists ls, q. auto.
  - exists ls, q. auto.
  - cbn in K. destruct (pk d k) as [[ls' q']|]; [destruct (pts q' <? now - R)|]; cbn [fst pk];
      try (exists ls, q; auto; fail).
    unfold upd. destruct (N.eqb_spec (pkey p) k) as [Eq|Ne].
    + subst k. rewrite N.eqb_refl in K. discriminate.
    + exists ls, q. auto.
Qed.

Lemma apply_holds R p : forall ms d,
  holds d p -> existsb (on_key (pkey p)) ms = false -> holds (apply R d ms) p.
Proof.
  induction ms as [|m r IH]; intros d H E; [exact H|]. cbn [apply]. cbn in E.
  apply orb_false_iff in E as [E1 E2]. apply IH; auto. now apply handle_holds.
Qed.

(* every packet whose upsert was handled stays stored, or a newer one does, as long
   as no CheckExpired for its key is handled afterwards (evict_only_old covers those) *)
Lemma committed_or_newer R d0 h1 now p h2 :
  existsb (on_key (pkey p)) h2 = false ->
  holds (apply R d0 (h1 ++ Upsert now p :: h2)) p.
Proof.
  intros E. rewrite apply_app. cbn [apply]. apply apply_holds; auto. apply upsert_holds.
Qed.

(* ---------- storage format ---------- *)
Section FormatProofs.
  Variable key_ok dns_ok : bytes -> bool.

  Lemma len_app {A} (a b : list A) : len (a ++ b) = len a + len b.
  Proof. unfold len. rewrite app_length. lia. Qed.

  Lemma be_bytes_length n : forall x, length (be_bytes n x) = n.
  Proof. induction n; intros x; cbn; auto. rewrite app_length, IHn. cbn. lia. Qed.

  Lemma skipn_serialize now b : skipn 8 (serialize now b) = b.
  Proof.
    unfold serialize. rewrite skipn_app.
    rewrite (skipn_all2 (be_bytes 8 now)) by (rewrite be_bytes_length; lia).
    rewrite be_bytes_length. reflexivity.
  Qed.

  (* a packet accepted by from_bytes_unchecked, written by serialize at any clock
     reading, is read back byte for byte *)
  Lemma serialize_roundtrip now b :
    from_bytes_unchecked key_ok dns_ok b = Ok b ->
    deserialize key_ok dns_ok (serialize now b) = Ok b.
  Proof.
    intros H. unfold deserialize. rewrite skipn_serialize, H.
    assert (L : (8 <=? len (serialize now b)) = true).
    { apply N.leb_le. unfold serialize. rewrite len_app. unfold len at 1. rewrite be_bytes_length. lia. }
    now rewrite L.
  Qed.

  (* a row in the pre-v0.35 format (the raw packet) is read back as itself, provided
     its tail from byte 8 on is not itself accepted as a packet *)
  Lemma legacy_roundtrip b :
    from_bytes_unchecked key_ok dns_ok b = Ok b ->
    (forall p, from_bytes_unchecked key_ok dns_ok (skipn 8 b) <> Ok p) ->
    deserialize key_ok dns_ok b = Ok b.
  Proof.
    intros H N. unfold deserialize.
    destruct (8 <=? len b); [|exact H].
    destruct (from_bytes_unchecked key_ok dns_ok (skipn 8 b)) eqn:E; try exact H.
    exfalso. eapply N. reflexivity.
  Qed.

  Lemma from_bytes_unchecked_id b p : from_bytes_unchecked key_ok dns_ok b = Ok p -> p = b.
  Proof.
    unfold from_bytes_unchecked.
    destruct (len b <? 104); [discriminate|]. destruct (1104 <? len b); [discriminate|].
    destruct (negb (key_ok (firstn 32 b))); [discriminate|]. destruct (dns_ok (skipn 104 b)); congruence.
  Qed.

  (* whatever deserialize returns is the stored value itself or the value without its first 8 bytes *)
  Lemma deserialize_shape data p :
    deserialize key_ok dns_ok data = Ok p -> p = skipn 8 data \/ p = data.
  Proof.
    unfold deserialize. destruct (8 <=? len data).
    - destruct (from_bytes_unchecked key_ok dns_ok (skipn 8 data)) eqn:E.
      + intros [= <-]. left. eapply from_bytes_unchecked_id; eauto.
      + intros H. right. eapply from_bytes_unchecked_id; eauto.
      + intros H. right. eapply from_bytes_unchecked_id; eauto.
    - intros H. right. eapply from_bytes_unchecked_id; eauto.
  Qed.
End FormatProofs.

(* ---------- eviction ---------- *)
(* CheckExpired touches one key, and removes its packet only when the packet is older
   than the retention period at the time of handling *)
Lemma evict_only_old R d now time k :
  let d' := fst (handle R d (CheckExpired now time k)) in
  (forall k', k' <> k -> pk d' k' = pk d k') /\
  (pk d' k = pk d k \/
   (pk d' k = None /\ exists ls q, pk d k = Some (ls, q) /\ pts q < now - R)).
Proof.
  cbn [handle]. destruct (pk d k) as [[ls q]|] eqn:E.
  - destruct (N.ltb_spec (pts q) (now - R)); cbn [fst pk]; unfold upd.
    + split.
      * intros k' Ne. destruct (N.eqb_spec k' k); [contradiction|reflexivity].
      * right. rewrite N.eqb_refl. split; auto. exists ls, q. auto.
    + split; auto.
  - cbn [fst pk]. split; auto.
Qed.

(* no message other than CheckExpired removes a packet, and an upsert only replaces by a
   packet that is not older *)
Lemma handle_keeps R d m k ls q :
  pk d k = Some (ls, q) -> on_key k m = false ->
  exists ls' q', pk (fst (handle R d m)) k = Some (ls', q') /\ ge q' q = true.
Proof.
  intros H K. destruct m as [now p'|k0|now time k0]; cbn [handle].
  - destruct (pk d (pkey p')) as [[ls' e]|] eqn:E.
    + destruct (more_recent e p') eqn:M; cbn [fst]; [exists ls, q; split; auto; apply ge_refl|].
      cbn [pk]. unfold upd. destruct (N.eqb_spec k (pkey p')) as [->|Ne].
      * exists now, p'. split; auto. rewrite E in H. injection H as <- <-. unfold ge. now rewrite M.
      * exists ls, q. split; auto. apply ge_refl.
    + cbn [fst pk]. unfold upd. destruct (N.eqb_spec k (pkey p')) as [->|Ne]; [congruence|].
      exists ls, q. split; auto. apply ge_refl.
  - exists ls, q. split; auto. apply ge_refl.
  - cbn in K. destruct (pk d k0) as [[ls' q']|]; [destruct (pts q' <? now - R)|]; cbn [fst pk];
      try (exists ls, q; split; auto; apply ge_refl).
    unfold upd. destruct (N.eqb_spec k k0) as [->|Ne].
    + rewrite N.eqb_refl in K. discriminate.
    + exists ls, q. split; auto. apply ge_refl.
Qed.

(* the effect of a list of CheckExpired messages handled at clock `now` *)
Definition is_check (now : N) (m : msg) : Prop :=
  match m with CheckExpired n _ _ => n = now | _ => False end.

Lemma apply_checks R now : forall l d k,
  Forall (is_check now) l ->
  pk (apply R d l) k =
  match pk d k with
  | Some (ls, q) => if (pts q <? now - R) && existsb (on_key k) l then None else Some (ls, q)
  | None => None
  end.
Proof.
  induction l as [|m l IH]; intros d k F.
  - cbn. destruct (pk d k) as [[ls q]|]; auto. now rewrite andb_false_r.
  - inversion F as [|? ? Hm Hl]; subst. destruct m as [| |n time k0]; cbn in Hm; try contradiction. subst n.
    cbn [apply]. rewrite IH by auto. cbn [existsb on_key].
    destruct (evict_only_old R d now time k0) as [Other Same]. cbn zeta in *.
    destruct (N.eqb_spec k0 k) as [->|Ne].
    + cbn [orb]. destruct Same as [S|(S & ls & q & Hq & Old)].
      * rewrite S. destruct (pk d k) as [[ls q]|] eqn:E; auto.
        destruct (N.ltb_spec (pts q) (now - R)); cbn [andb]; auto.
        exfalso. revert S. cbn [handle]. rewrite E. destruct (N.ltb_spec (pts q) (now - R)); [|lia].
        cbn [fst pk]. unfold upd. rewrite N.eqb_refl. discriminate.
      * rewrite S, Hq. apply N.ltb_lt in Old. now rewrite Old.
    + rewrite Other by auto. cbn [orb]. reflexivity.
Qed.

Lemma scan_checks cutoff now d : Forall (is_check now) (scan cutoff now d).
Proof. unfold scan. apply Forall_forall. intros m H. apply in_map_iff in H as (r & <- & _). reflexivity. Qed.

(* one scan: when the actor handles the CheckExpired messages of a scan with cut-off c
   (its own cut-off now - R being at least c), every packet older than c is gone and no
   other packet is touched *)
Lemma evict_eventually R d c now :
  covers d -> c <= now - R ->
  let d' := apply R d (scan c now d) in
  (forall k ls q, pk d' k = Some (ls, q) -> pk d k = Some (ls, q) /\ c <= pts q) /\
  (forall k ls q, pk d k = Some (ls, q) -> now - R <= pts q -> pk d' k = Some (ls, q)).
Proof.
  intros C Hc d'. unfold d'. split.
  - intros k ls q. rewrite (apply_checks R now _ d k (scan_checks c now d)).
    destruct (pk d k) as [[ls0 q0]|] eqn:E; [|discriminate].
    destruct (N.ltb_spec (pts q0) (now - R)); cbn [andb].
    + destruct (existsb (on_key k) (scan c now d)) eqn:X; [discriminate|].
      intros [= <- <-]. split; auto.
      destruct (N.lt_ge_cases (pts q0) c) as [Lt|]; auto. exfalso.
      destruct (C _ _ _ E) as [Kq In].
      assert (existsb (on_key k) (scan c now d) = true); [|congruence].
      apply existsb_exists. exists (CheckExpired now (pts q0) k). split.
      * unfold scan. apply in_map_iff. exists (pts q0, k). split; auto.
        apply filter_In. split; auto. cbn [fst]. now apply N.ltb_lt.
      * cbn. apply N.eqb_refl.
    + intros [= <- <-]. split; auto. lia.
  - intros k ls q E Hq. rewrite (apply_checks R now _ d k (scan_checks c now d)), E.
    destruct (N.ltb_spec (pts q) (now - R)); [lia|reflexivity].
Qed.

(* ---------- the monitor on the model's own output ---------- *)
Definition expired_by (R : N) (p : pkt) (ms : list msg) : bool :=
  existsb (fun m => match m with
                    | CheckExpired now _ k => (k =? pkey p) && (pts p <? now - R)
                    | _ => false end) ms.

Lemma holds_or_expired R p : forall ms d,
  holds d p -> holds (apply R d ms) p \/ expired_by R p ms = true.
Proof.
  induction ms as [|m r IH]; intros d H; [now left|]. cbn [apply].
  destruct (on_key (pkey p) m) eqn:K.
  - destruct m as [| |now time k]; try discriminate. cbn in K. apply N.eqb_eq in K. subst k.
    destruct H as (ls & q & Hq & G).
    destruct (evict_only_old R d now time (pkey p)) as [_ [S|(S & ls' & q' & Hq' & Old)]]; cbn zeta in *.
    + destruct (IH (fst (handle R d (CheckExpired now time (pkey p))))) as [A|B].
      * exists ls, q. now rewrite S.
      * now left.
      * right. unfold expired_by in *. cbn [existsb]. now rewrite B, orb_true_r.
    + right. unfold expired_by. cbn [existsb]. rewrite N.eqb_refl. rewrite Hq in Hq'. injection Hq' as <- <-.
      assert (pts p <? now - R = true) as ->; [|reflexivity].
      apply N.ltb_lt. apply ge_ts in G. lia.
  - destruct (IH (fst (handle R d m)) (handle_holds R d m p H K)) as [A|B]; [now left|].
    right. unfold expired_by in *. cbn [existsb]. now rewrite B, orb_true_r.
Qed.

Lemma upserted_holds_or_expired R p : forall ms d,
  In p (upserts ms) -> holds (apply R d ms) p \/ expired_by R p ms = true.
Proof.
  induction ms as [|m r IH]; intros d H; [contradiction|]. cbn [apply].
  assert (T : expired_by R p r = true -> expired_by R p (m :: r) = true).
  { intros e. unfold expired_by in *. cbn [existsb]. now rewrite e, orb_true_r. }
  unfold upserts in H. cbn [flat_map] in H. apply in_app_or in H as [H|H].
  - destruct m as [now p'| |]; cbn in H; try contradiction. destruct H as [->|[]].
    destruct (holds_or_expired R p r _ (upsert_holds R d now p)) as [A|B]; [now left|right; auto].
  - destruct (IH (fst (handle R d m)) H) as [A|B]; [now left|right; auto].
Qed.

Lemma expired_evicts R p ms : expired_by R p ms = true -> evicts_key (pkey p) ms = true.
Proof.
  unfold expired_by, evicts_key. rewrite !existsb_exists. intros (m & Hm & E). exists m. split; auto.
  destruct m; try discriminate. now apply andb_prop in E as [E _].
Qed.

Lemma expired_app R p a b : expired_by R p a = true -> expired_by R p (a ++ b) = true.
Proof. unfold expired_by. rewrite existsb_app. intros ->. reflexivity. Qed.

(* provenance: stored packets come from a given list *)
Definition prov (known : list pkt) (d : db) : Prop :=
  forall k ls p, pk d k = Some (ls, p) -> In p known.

Lemma handle_prov known R d m :
  prov known d -> (forall now p, m = Upsert now p -> In p known) -> prov known (fst (handle R d m)).
Proof.
  intros P U. destruct m as [now p|k|now time k]; cbn [handle].
  - destruct (pk d (pkey p)) as [[ls e]|]; [destruct (more_recent e p)|]; cbn [fst]; auto;
      intros k ls' q; cbn [pk]; unfold upd; destruct (N.eqb_spec k (pkey p));
      try (intros [= <- <-]; eapply U; eauto); apply P.
  - exact P.
  - destruct (pk d k) as [[ls q]|]; [destruct (pts q <? now - R)|]; cbn [fst]; auto;
      intros k' ls' q'; cbn [pk]; unfold upd; try apply P.
    destruct (N.eqb_spec k' k); [discriminate|apply P].
Qed.

Lemma apply_prov known R : forall ms d,
  prov known d -> incl (upserts ms) known -> prov known (apply R d ms).
Proof.
  induction ms as [|m r IH]; intros d P I; [exact P|]. cbn [apply].
  unfold upserts in I. cbn [flat_map] in I. apply incl_app_inv in I as [I1 I2].
  apply IH; auto. apply handle_prov; auto. intros now p ->. apply I1. now left.
Qed.

(* preload *)
Definition pre_step (d : db) (v : N * pkt) : db :=
  mkDb (upd (pk d) (pkey (snd v)) (Some v)) (ix_insert (pts (snd v), pkey (snd v)) (ix d)).

Lemma preload_inv (P : db -> Prop) pre :
  (forall d v, In v pre -> P d -> P (pre_step d v)) -> forall d, P d -> P (fold_left pre_step pre d).
Proof.
  induction pre as [|v r IH]; intros S d H; [exact H|]. cbn [fold_left].
  apply IH; [intros; apply S; auto; now right|]. apply S; auto. now left.
Qed.

Lemma preload_covers pre : covers (preload pre).
Proof.
  unfold preload. apply (preload_inv covers); [|apply covers_empty].
  intros d [ls p] _ C k ls' q. cbn [pre_step pk ix snd]. unfold upd.
  destruct (N.eqb_spec k (pkey p)) as [->|Ne].
  - intros [= <- <-]. split; auto. apply In_ix_insert. now left.
  - intros H. destruct (C _ _ _ H). split; auto. apply In_ix_insert. now right.
Qed.

Lemma preload_prov pre : prov (map snd pre) (preload pre).
Proof.
  unfold preload. apply (preload_inv (prov (map snd pre))); [|intros k ls p H; discriminate].
  intros d [ls p] Hin P k ls' q. cbn [pre_step pk snd]. unfold upd.
  destruct (N.eqb_spec k (pkey p)).
  - intros [= <- <-]. apply in_map_iff. exists (ls, p). auto.
  - apply P.
Qed.

Lemma nodup_keys_spec : forall l, nodup_keys l = true -> NoDup l.
Proof.
  induction l as [|k r IH]; cbn; intros H; constructor; apply andb_prop in H as [A B]; auto.
  intros I. apply negb_true_iff in A. assert (existsb (N.eqb k) r = true); [|congruence].
  apply existsb_exists. exists k. split; auto. apply N.eqb_refl.
Qed.

Lemma preload_holds : forall pre d v,
  NoDup (map (fun v => pkey (snd v)) pre) -> In v pre ->
  pk (fold_left pre_step pre d) (pkey (snd v)) = Some v.
Proof.
  induction pre as [|w r IH]; intros d v N I; [contradiction|]. cbn [fold_left].
  cbn [map] in N. inversion N as [|? ? Nin Nr]; subst. destruct I as [->|I].
  - clear IH. assert (G : forall r d, ~ In (pkey (snd v)) (map (fun v => pkey (snd v)) r) ->
       pk (fold_left pre_step r d) (pkey (snd v)) = pk d (pkey (snd v))).
    { clear. induction r as [|w r IH]; intros d H; [reflexivity|]. cbn [fold_left]. rewrite IH.
      - cbn [pre_step pk]. unfold upd. destruct (N.eqb_spec (pkey (snd v)) (pkey (snd w))); auto.
        exfalso. apply H. cbn. now left.
      - intros X. apply H. cbn. now right. }
    rewrite G by auto. cbn [pre_step pk]. unfold upd. now rewrite N.eqb_refl.
  - apply IH; auto.
Qed.

(* batches are consecutive pieces of the message list *)
Lemma chunks_prefix : forall f b ms j, exists rest, ms = (concat (firstn j (chunks_aux f b ms)) ++ rest)%list.
Proof.
  induction f as [|f IH]; intros b ms j.
  - exists ms. cbn. now rewrite firstn_nil.
  - destruct ms as [|m ms']; [exists []; cbn; now rewrite firstn_nil|].
    cbn [chunks_aux]. destruct j as [|j]; [exists (m :: ms'); reflexivity|].
    cbn [firstn concat]. destruct (IH b (skipn b (m :: ms')) j) as (rest & E).
    exists rest. rewrite <- app_assoc, <- E. symmetry. apply firstn_skipn.
Qed.

Lemma upserts_app a b : upserts (a ++ b) = (upserts a ++ upserts b)%list.
Proof. unfold upserts. apply flat_map_app. Qed.

(* from Prop facts about a state to the boolean checks on its dump *)
Lemma dump_ok_of known nkeys d : covers d -> prov known d -> dump_ok known (dump_of nkeys d) = true.
Proof.
  intros C P. unfold dump_ok, dump_of. cbn [fst snd]. apply forallb_forall. intros c Hc.
  apply in_map_iff in Hc as (k & <- & _). cbn [fst snd].
  destruct (pk d (N.of_nat k)) as [[ls p]|] eqn:E; cbn [option_map fst snd]; [|reflexivity].
  destruct (C _ _ _ E) as [Kp In]. apply andb_true_intro. split.
  - now apply ix_mem_In.
  - apply existsb_exists. exists p. split; [eapply P; eauto|]. now rewrite Kp, !N.eqb_refl.
Qed.

Lemma holds_ge_of known nkeys d p :
  covers d -> prov known d -> pkey p < N.of_nat nkeys -> holds d p ->
  holds_ge known (dump_of nkeys d) p = true.
Proof.
  intros C P K (ls & q & Hq & G). unfold holds_ge, dump_of. cbn [fst].
  apply existsb_exists. exists (pkey p, Some (ls, pts q, pval q)). split.
  - apply in_map_iff. exists (N.to_nat (pkey p)). rewrite N2Nat.id, Hq. split; auto.
    apply in_seq. lia.
  - cbn [fst snd]. rewrite N.eqb_refl. cbn [andb]. apply existsb_exists. exists q. split; [eapply P; eauto|].
    destruct (C _ _ _ Hq) as [Kq _]. now rewrite Kq, G, !N.eqb_refl.
Qed.

Lemma in_combine_map {A B} (f : A -> B) : forall l a b, In (a, b) (combine l (map f l)) -> b = f a.
Proof.
  induction l as [|x l IH]; intros a b H; [contradiction|]. cbn in H. destruct H as [[= <- <-]|H]; auto.
Qed.

Lemma evicts_key_app k a b : evicts_key k a = true -> evicts_key k (a ++ b) = true.
Proof. unfold evicts_key. rewrite existsb_app. intros ->. reflexivity. Qed.

Lemma wf_ops_spec R nkeys pre ms :
  wf_ops R nkeys pre ms = true ->
  Forall (wf_msg R) ms /\ NoDup (map (fun v => pkey (snd v)) pre) /\
  forall p, In p (map snd pre ++ upserts ms) -> pkey p < N.of_nat nkeys.
Proof.
  unfold wf_ops. intros H. apply andb_prop in H as [H H3]. apply andb_prop in H as [H1 H2].
  split; [|split].
  - apply Forall_forall. intros m Hm. rewrite forallb_forall in H1. specialize (H1 m Hm).
    destruct m; cbn; auto. now apply N.ltb_lt.
  - now apply nodup_keys_spec.
  - intros p Hp. rewrite forallb_forall in H3. apply N.ltb_lt. auto.
Qed.

Section OpsMonitor.
  Variables (R : N) (nkeys : nat) (pre : list (N * pkt)) (ms : list msg).
  Hypothesis W : wf_ops R nkeys pre ms = true.
  Let known := (map snd pre ++ upserts ms)%list.
  Let d0 := preload pre.

  Lemma prefix_facts pm rest :
    ms = (pm ++ rest)%list ->
    let d := apply R d0 pm in
    covers d /\ prov known d /\
    forall p, In p (map snd pre ++ upserts pm) -> holds d p \/ expired_by R p pm = true.
  Proof.
    intros E d. destruct (wf_ops_spec _ _ _ _ W) as (W1 & W2 & W3).
    assert (F : Forall (wf_msg R) pm).
    { rewrite E in W1. apply Forall_app in W1. tauto. }
    split; [|split].
    - apply apply_covers; auto. apply preload_covers.
    - apply apply_prov.
      + intros k ls p H. apply in_or_app. left. eapply preload_prov; eauto.
      + unfold known. rewrite E, upserts_app. intros x Hx. apply in_or_app. right. apply in_or_app. now left.
    - intros p Hp. apply in_app_or in Hp as [Hp|Hp].
      + apply holds_or_expired. apply in_map_iff in Hp as ([ls q] & <- & Hin). cbn [snd].
        exists ls, q. split; [|apply ge_refl].
        apply (preload_holds pre empty (ls, q)); auto.
      + now apply upserted_holds_or_expired.
  Qed.

  Lemma prefix_checks pm rest p :
    ms = (pm ++ rest)%list -> In p (map snd pre ++ upserts pm) ->
    evicts_key (pkey p) ms || holds_ge known (dump_of nkeys (apply R d0 pm)) p = true.
  Proof.
    intros E Hp. destruct (prefix_facts pm rest E) as (C & P & H).
    destruct (wf_ops_spec _ _ _ _ W) as (_ & _ & W3).
    destruct (H p Hp) as [Hh|He].
    - rewrite (holds_ge_of known nkeys _ p C P); [apply orb_true_r| |exact Hh].
      apply W3. apply in_app_or in Hp as [Hp|Hp]; apply in_or_app; [now left|right].
      rewrite E, upserts_app. apply in_or_app. now left.
    - rewrite E, (evicts_key_app _ pm rest (expired_evicts _ _ _ He)). reflexivity.
  Qed.

  Lemma ops_monitor batch crashes :
    monitor (IOps R nkeys batch pre ms crashes) (model (IOps R nkeys batch pre ms crashes)) = true.
  Proof.
    cbn [monitor model]. rewrite W. cbn [negb orb]. fold d0. fold known.
    destruct (prefix_facts ms [] (eq_sym (app_nil_r ms))) as (C & P & H). cbn zeta in *.
    destruct (wf_ops_spec _ _ _ _ W) as (_ & _ & W3).
    repeat (apply andb_true_intro; split).
    - apply dump_ok_of; auto.
    - apply forallb_forall. intros dmp Hd. apply in_map_iff in Hd as (c & <- & _).
      unfold after_batches, chunks.
      destruct (chunks_prefix (length ms) (Nat.max 1 batch) ms (fst c)) as (rest & E).
      destruct (prefix_facts _ rest E) as (C' & P' & _). apply dump_ok_of; auto.
    - apply forallb_forall. intros [c dmp] Hc. apply in_combine_map in Hc. subst dmp. cbn [fst snd].
      unfold after_batches, chunks.
      destruct (chunks_prefix (length ms) (Nat.max 1 batch) ms (fst c)) as (rest & E).
      apply forallb_forall. intros p Hp. eapply prefix_checks; eauto.
    - apply forallb_forall. intros p Hp. apply (prefix_checks ms [] p (eq_sym (app_nil_r ms)) Hp).
    - apply forallb_forall. intros p Hp. destruct (H p Hp) as [Hh|He].
      + rewrite (holds_ge_of known nkeys _ p C P); auto.
      + fold (expired_by R p ms). rewrite He. apply orb_true_r.
  Qed.
End OpsMonitor.

(* ---- end-to-end eviction on the model ---- *)
Lemma expired_by_upserts R p pubs : expired_by R p (map (Upsert 0) pubs) = false.
Proof. unfold expired_by. induction pubs; cbn; auto. Qed.

Lemma upserts_map_upsert pubs : upserts (map (Upsert 0) pubs) = pubs.
Proof. unfold upserts. induction pubs as [|p r IH]; cbn; [reflexivity|]. now rewrite IH. Qed.

Lemma wf_upserts R pubs : Forall (wf_msg R) (map (Upsert 0) pubs).
Proof. apply Forall_forall. intros m H. apply in_map_iff in H as (p & <- & _). exact I. Qed.

Lemma evict_monitor R now nkeys pubs :
  monitor (IEvict R now nkeys pubs) (model (IEvict R now nkeys pubs)) = true.
Proof.
  cbn [monitor model]. set (d := apply R empty (map (Upsert 0) pubs)).
  assert (C : covers d) by (apply apply_covers; [apply covers_empty|apply wf_upserts]).
  assert (P : prov pubs d).
  { apply apply_prov; [intros k ls p H; discriminate|rewrite upserts_map_upsert; apply incl_refl]. }
  assert (H : forall p, In p pubs -> holds d p).
  { intros p Hp. destruct (upserted_holds_or_expired R p (map (Upsert 0) pubs) empty) as [A|B]; auto.
    - now rewrite upserts_map_upsert.
    - rewrite expired_by_upserts in B. discriminate. }
  destruct (evict_eventually R d (now - R) now C (N.le_refl _)) as [E1 E2]. cbn zeta in *.
  apply forallb_forall. intros c Hc. apply in_map_iff in Hc as (k & <- & _). cbn [fst snd].
  set (K := N.of_nat k).
  destruct (pk (apply R d (scan (now - R) now d)) K) as [[ls q]|] eqn:E; cbn [option_map fst snd].
  - destruct (E1 _ _ _ E) as [Hd Hq]. destruct (C _ _ _ Hd) as [Kq _].
    apply existsb_exists. exists q. split.
    + apply filter_In. split; [eapply P; eauto|]. now apply N.eqb_eq.
    + rewrite !N.eqb_refl. cbn [andb]. now apply N.leb_le.
  - apply forallb_forall. intros p Hp. apply filter_In in Hp as [Hp Kp]. apply N.eqb_eq in Kp.
    destruct (H p Hp) as (ls & q & Hq & G). rewrite Kp in Hq.
    apply N.ltb_lt. destruct (N.lt_ge_cases (pts q) (now - R)) as [Lt|Ge].
    + apply ge_ts in G. lia.
    + rewrite (E2 _ _ _ Hq Ge) in E. discriminate.
Qed.

(* ---- the storage format on the model ---- *)
Lemma len_skipn {A} n (l : list A) : len (skipn n l) = len l - N.of_nat n.
Proof. unfold len. rewrite skipn_length. lia. Qed.

Lemma format_monitor data key8 key0 ok8 ok0 now :
  monitor (IFormat data key8 key0 ok8 ok0 now) (model (IFormat data key8 key0 ok8 ok0 now)) = true.
Proof.
  cbn [monitor model].
  set (o := dns_oracle (len data - 112) (len data - 104) ok8 ok0).
  set (ko := key_oracle (firstn 32 data) key8 key0).
  destruct (bytes_eqb (firstn 32 (skipn 8 data)) (firstn 32 data) && negb (Bool.eqb key8 key0)) eqn:Guard;
    [reflexivity|]. cbn [orb].
  (* the verdicts the model consults *)
  assert (K0 : ko (firstn 32 data) = key0).
  { unfold ko, key_oracle. now rewrite bytes_eqb_refl. }
  assert (K8 : ko (firstn 32 (skipn 8 data)) = key8).
  { unfold ko, key_oracle. destruct (bytes_eqb (firstn 32 (skipn 8 data)) (firstn 32 data)); auto.
    cbn [andb] in Guard. apply negb_false_iff in Guard. apply eqb_prop in Guard. auto. }
  assert (O0 : o (skipn 104 data) = ok0).
  { unfold o, dns_oracle. rewrite len_skipn. cbn [N.of_nat]. now rewrite N.eqb_refl. }
  assert (O8 : 112 <= len data -> o (skipn 104 (skipn 8 data)) = ok8).
  { intros L. unfold o, dns_oracle. rewrite !len_skipn.
    change (N.of_nat 104) with 104. change (N.of_nat 8) with 8.
    destruct (N.eqb_spec (len data - 8 - 104) (len data - 104)); [lia|].
    replace (len data - 8 - 104) with (len data - 112) by lia. now rewrite N.eqb_refl. }
  (* from_bytes_unchecked on data *)
  assert (F0 : from_bytes_unchecked ko o data =
     if len data <? 104 then Err 1 else if 1104 <? len data then Err 2
     else if negb key0 then Err 4 else if ok0 then Ok data else Err 3).
  { unfold from_bytes_unchecked. now rewrite K0, O0. }
  set (is_packet := key0 && ok0 && (104 <=? len data) && (len data <=? 1104)).
  assert (F0' : is_packet = true -> from_bytes_unchecked ko o data = Ok data).
  { unfold is_packet. intros H. apply andb_prop in H as [H L2]. apply andb_prop in H as [H L1].
    apply andb_prop in H as [-> ->]. rewrite F0.
    apply N.leb_le in L1, L2.
    destruct (N.ltb_spec (len data) 104); [lia|]. destruct (N.ltb_spec 1104 (len data)); [lia|]. reflexivity. }
  assert (F0'' : is_packet = false -> forall p, from_bytes_unchecked ko o data <> Ok p).
  { unfold is_packet. intros H p. rewrite F0.
    destruct (N.ltb_spec (len data) 104); [discriminate|]. destruct (N.ltb_spec 1104 (len data)); [discriminate|].
    destruct key0; [|discriminate]. destruct ok0; [|discriminate]. cbn [negb andb] in H.
    apply andb_false_iff in H as [H|H]; [apply N.leb_gt in H|apply N.leb_gt in H]; lia. }
  apply andb_true_intro. split.
  - destruct is_packet eqn:IP; [|reflexivity]. cbn [negb orb].
    destruct (key8 && ok8) eqn:T8; [reflexivity|]. cbn [orb].
    assert (L : 104 <= len data <= 1104).
    { unfold is_packet in IP. apply andb_prop in IP as [IP L2]. apply andb_prop in IP as [_ L1].
      apply N.leb_le in L1, L2. lia. }
    unfold deserialize. destruct (N.leb_spec 8 (len data)); [|lia].
    assert (E8 : forall p, from_bytes_unchecked ko o (skipn 8 data) <> Ok p).
    { intros p. unfold from_bytes_unchecked. rewrite len_skipn. change (N.of_nat 8) with 8.
      destruct (N.ltb_spec (len data - 8) 104); [discriminate|].
      destruct (N.ltb_spec 1104 (len data - 8)); [discriminate|].
      rewrite K8, O8 by lia. destruct key8; [|discriminate]. destruct ok8; discriminate. }
    destruct (from_bytes_unchecked ko o (skipn 8 data)) eqn:E; [exfalso; eapply E8; eauto| |];
      rewrite (F0' eq_refl); cbn; apply bytes_eqb_refl.
  - destruct is_packet eqn:IP.
    + rewrite (F0' eq_refl). cbn [andb].
      assert (L : 104 <= len data <= 1104).
      { unfold is_packet in IP. apply andb_prop in IP as [IP L2]. apply andb_prop in IP as [IP L1].
        apply N.leb_le in L1, L2. lia. }
      assert (KO : key0 = true /\ ok0 = true).
      { unfold is_packet in IP. apply andb_prop in IP as [IP _]. apply andb_prop in IP as [IP _].
        now apply andb_prop in IP. }
      destruct KO as [-> ->].
      rewrite (serialize_roundtrip (fun _ => true) (fun _ => true) now data).
      * cbn [res_eqb]. rewrite bytes_eqb_refl. cbn [andb].
        unfold serialize. rewrite len_app. unfold len at 1. rewrite be_bytes_length. apply N.eqb_eq. lia.
      * unfold from_bytes_unchecked.
        destruct (N.ltb_spec (len data) 104); [lia|]. destruct (N.ltb_spec 1104 (len data)); [lia|]. reflexivity.
    + destruct (from_bytes_unchecked ko o data) eqn:E; auto. exfalso. eapply (F0'' eq_refl); eauto.
Qed.

(* For every input the model's output satisfies the monitor (there is no known class). *)
Lemma model_monitor : forall i, monitor i (model i) = true.
Proof.
  intros [R nkeys batch pre ms crashes|data key8 key0 ok8 ok0 now|R now nkeys pubs].
  - destruct (wf_ops R nkeys pre ms) eqn:W.
    + now apply ops_monitor.
    + cbn [monitor model]. now rewrite W.
  - apply format_monitor.
  - apply evict_monitor.
Qed.
