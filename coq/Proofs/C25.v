(* C25 — proofs about the DirectAddrUpdateState scheduling model. *)
From V Require Import Lib.Base Model.C25.
Import C25.
Open Scope N_scope.

(* The order of the pinned code (guard dropped after the done signal): a request made
   while a run is in flight gets stuck. *)
Definition stuck_trace : list ev :=
  [ESched Periodic (SStart 1); ESched RelayMapChange SBusy; EWork 1; EStore 1; ESend 1;
   ERecv; ETry TBusy; ERelease 1; EEnd 1].

Definition stuck_state : st := mkSt (Some RelayMapChange) false [] 0 false false false 2.

Lemma send_first_refuted :
  exists tr s w, steps SendFirst 8 (init false) tr = Some s /\
    want s = Some w /\ pending_trigger s = false /\ tasks s = [] /\ lock s = false.
Proof. exists stuck_trace, stuck_state, RelayMapChange. vm_compute. repeat split; reflexivity. Qed.
