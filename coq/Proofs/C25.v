(* C25 — proofs about the DirectAddrUpdateState scheduling model. *)
From V Require Import Lib.Base Model.C25.
From Coq Require Import ZifyBool.
Import C25.
Open Scope N_scope.

(* ------------------------------------------------------------------ *)
(* task lists *)

Lemma find_task_some t l k : find_task t l = Some k -> In k l /\ tid k = t.
Proof.
  unfold find_task. intros H. apply find_some in H as [H1 H2]. split; [assumption|].
  now apply N.eqb_eq.
Qed.

Lemma nodup_tid_inj l k1 k2 :
  NoDup (map tid l) -> In k1 l -> In k2 l -> tid k1 = tid k2 -> k1 = k2.
Proof.
  induction l as [|a l IH]; cbn; [tauto|]. intros Hn H1 H2 E.
  inversion Hn as [|x y Hnot Hn']; subst.
  destruct H1 as [->|H1], H2 as [->|H2]; auto.
  - exfalso. apply Hnot. rewrite E. now apply in_map.
  - exfalso. apply Hnot. rewrite <- E. now apply in_map.
Qed.

Lemma find_task_in l k : NoDup (map tid l) -> In k l -> find_task (tid k) l = Some k.
Proof.
  intros Hn Hin. unfold find_task.
  destruct (find (fun k0 => tid k0 =? tid k) l) as [k'|] eqn:F.
  - apply find_some in F as [F1 F2]. apply N.eqb_eq in F2.
    f_equal. now apply (nodup_tid_inj l).
  - exfalso. apply (find_none _ _ F) in Hin. rewrite N.eqb_refl in Hin. discriminate.
Qed.

Lemma in_upd t f l k' :
  In k' (upd t f l) <-> exists k, In k l /\ k' = (if tid k =? t then f k else k).
Proof.
  unfold upd. rewrite in_map_iff. split; intros [k [A B]]; exists k; auto.
Qed.

Lemma map_tid_upd t f l : (forall k, tid (f k) = tid k) -> map tid (upd t f l) = map tid l.
Proof.
  intros Hf. unfold upd. rewrite map_map. apply map_ext. intros k.
  destruct (tid k =? t); auto.
Qed.

Lemma in_del t l k : In k (del t l) <-> In k l /\ tid k <> t.
Proof.
  unfold del. rewrite filter_In. split; intros [A B]; split; auto.
  - intros E. apply N.eqb_eq in E. rewrite E in B. discriminate.
  - apply N.eqb_neq in B. now rewrite B.
Qed.

Lemma nodup_map_filter (p : task -> bool) l :
  NoDup (map tid l) -> NoDup (map tid (filter p l)).
Proof.
  induction l as [|a l IH]; cbn; [auto|]. intros Hn. inversion Hn as [|x y Hnot Hn']; subst.
  destruct (p a); cbn; auto. constructor; auto.
  intros Hin. apply Hnot. apply in_map_iff in Hin as [k [E Hk]]. apply filter_In in Hk as [Hk _].
  rewrite <- E. now apply in_map.
Qed.

Lemma nodup_snoc {A} (l : list A) x : NoDup l -> ~ In x l -> NoDup (l ++ [x]).
Proof.
  induction l as [|a l IH]; cbn; intros Hn Hx.
  - repeat constructor; auto.
  - inversion Hn; subst. constructor.
    + rewrite in_app_iff; cbn. intuition (subst; auto).
    + apply IH; auto.
Qed.

(* ------------------------------------------------------------------ *)
(* the invariant *)

Definition ord_ok (o : order) (k : task) : Prop :=
  match o with
  | ReleaseFirst => snt k = true -> rel k = true
  | SendFirst => rel k = true -> snt k = true
  end.

Record Inv (o : order) (s : st) : Prop := {
  inv_nodup : NoDup (map tid (tasks s));
  inv_lt : forall k, In k (tasks s) -> tid k < next s;
  inv_free : lock s = false -> forall k, In k (tasks s) -> rel k = true;
  inv_held : lock s = true -> exists k, In k (tasks s) /\ rel k = false;
  inv_one : forall k1 k2, In k1 (tasks s) -> In k2 (tasks s) ->
            rel k1 = false -> rel k2 = false -> k1 = k2;
  inv_ph : forall k, In k (tasks s) -> rel k = true \/ snt k = true -> ph k = Stored;
  inv_ord : forall k, In k (tasks s) -> ord_ok o k
}.

Lemma inv_init o e0 : Inv o (init e0).
Proof.
  constructor; cbn; try tauto; try discriminate. constructor.
Qed.

(* states differing only in fields the invariant does not mention *)
Lemma inv_same o s s' :
  tasks s' = tasks s -> lock s' = lock s -> next s' = next s -> Inv o s -> Inv o s'.
Proof.
  intros E1 E2 E3 [A B C D E F G]. constructor; rewrite ?E1, ?E2, ?E3; assumption.
Qed.

Lemma sres_eqb_eq a b : sres_eqb a b = true -> a = b.
Proof. destruct a, b; cbn; try discriminate; auto. intros H. apply N.eqb_eq in H. now subst. Qed.
Lemma reason_eqb_eq a b : reason_eqb a b = true -> a = b.
Proof. destruct a, b; cbn; try discriminate; auto. Qed.
Lemma tres_eqb_eq a b : tres_eqb a b = true -> a = b.
Proof.
  destruct a, b; cbn; try discriminate; auto.
  - intros H. apply andb_prop in H as [H1 H2]. apply reason_eqb_eq in H1. apply N.eqb_eq in H2. now subst.
  - intros H. apply reason_eqb_eq in H. now subst.
  - intros H. apply reason_eqb_eq in H. now subst.
Qed.
Lemma reason_eqb_refl a : reason_eqb a a = true.
Proof. now destruct a. Qed.
Lemma sres_eqb_refl a : sres_eqb a a = true.
Proof. destruct a; cbn; auto. apply N.eqb_refl. Qed.
Lemma tres_eqb_refl a : tres_eqb a a = true.
Proof. destruct a; cbn; rewrite ?reason_eqb_refl, ?N.eqb_refl; auto. Qed.
Lemma ev_eqb_refl a : ev_eqb a a = true.
Proof.
  destruct a; cbn; rewrite ?reason_eqb_refl, ?sres_eqb_refl, ?tres_eqb_refl, ?N.eqb_refl; auto.
  now destruct e.
Qed.

Lemma sched_start s t : sched_result s = SStart t -> lock s = false /\ t = next s.
Proof.
  unfold sched_result. destruct (lock s); [discriminate|]. destruct (down s); [discriminate|].
  destruct (empty s); [discriminate|]. intros H. injection H as <-. auto.
Qed.

Lemma try_start s w t : try_result s = TStart w t -> lock s = false /\ t = next s /\ want s = Some w.
Proof.
  unfold try_result. destruct (lock s); [discriminate|]. destruct (want s) as [w'|]; [|discriminate].
  destruct (down s); [discriminate|]. destruct (empty s); [discriminate|].
  intros H. injection H as <- <-. auto.
Qed.

Lemma inv_spawn o s s0 t :
  Inv o s0 -> lock s0 = false -> t = next s0 ->
  tasks s = tasks s0 ++ [mkTask t Spawned false false] -> lock s = true -> next s = t + 1 ->
  Inv o s.
Proof.
  intros [A B C D E F G] L -> ET EL EN.
  assert (Hin : forall k, In k (tasks s) <-> In k (tasks s0) \/ k = mkTask (next s0) Spawned false false).
  { intros k. rewrite ET, in_app_iff. cbn. intuition. }
  constructor.
  - rewrite ET, map_app. cbn. apply nodup_snoc; auto.
    intros Hi. apply in_map_iff in Hi as [k [E1 E2]]. apply B in E2. lia.
  - intros k Hk. rewrite EN. apply Hin in Hk as [Hk | ->]; [apply B in Hk; lia | cbn; lia].
  - rewrite EL. discriminate.
  - intros _. eexists. split; [apply Hin; right; reflexivity | reflexivity].
  - intros k1 k2 H1 H2 R1 R2. apply Hin in H1, H2.
    destruct H1 as [H1 | E1]; [rewrite (C L _ H1) in R1; discriminate|].
    destruct H2 as [H2 | E2]; [rewrite (C L _ H2) in R2; discriminate|]. congruence.
  - intros k Hk. apply Hin in Hk as [Hk | ->]; auto. cbn. intros [X|X]; discriminate.
  - intros k Hk. apply Hin in Hk as [Hk | ->]; auto. destruct o; cbn; discriminate.
Qed.

Lemma in_upd_cases t f l kf k' :
  NoDup (map tid l) -> find_task t l = Some kf -> In k' (upd t f l) ->
  k' = f kf \/ (In k' l /\ tid k' <> t).
Proof.
  intros Hn Hf Hin. apply find_task_some in Hf as [Hk Ht].
  apply in_upd in Hin as [k [Hk' ->]].
  destruct (tid k =? t) eqn:E.
  - apply N.eqb_eq in E. left. f_equal. apply (nodup_tid_inj l); auto. congruence.
  - apply N.eqb_neq in E. right. auto.
Qed.

Lemma in_upd_other t f l k : In k l -> tid k <> t -> In k (upd t f l).
Proof.
  intros Hk Hne. apply in_upd. exists k. split; auto. apply N.eqb_neq in Hne. now rewrite Hne.
Qed.

Lemma in_upd_self t f l kf : find_task t l = Some kf -> In (f kf) (upd t f l).
Proof.
  intros Hf. apply find_task_some in Hf as [Hk Ht]. apply in_upd. exists kf. split; auto.
  subst t. now rewrite N.eqb_refl.
Qed.

(* an update of one task that keeps its id and its hold on the guard *)
Lemma inv_upd o s s' t f kf :
  Inv o s -> find_task t (tasks s) = Some kf ->
  (forall k, tid (f k) = tid k) -> (forall k, rel (f k) = rel k) ->
  tasks s' = upd t f (tasks s) -> lock s' = lock s -> next s' = next s ->
  (rel (f kf) = true \/ snt (f kf) = true -> ph (f kf) = Stored) ->
  ord_ok o (f kf) ->
  Inv o s'.
Proof.
  intros [A B C D E F G] Hf Ftid Frel ET EL EN Hph Hord.
  pose proof (find_task_some _ _ _ Hf) as [Hkf Htid].
  assert (Hc : forall k', In k' (tasks s') -> k' = f kf \/ (In k' (tasks s) /\ tid k' <> t)).
  { intros k'. rewrite ET. now apply in_upd_cases. }
  (* every task of s' comes from a task of s with the same id and rel *)
  assert (Hsrc : forall k', In k' (tasks s') -> exists k, In k (tasks s) /\ tid k = tid k' /\ rel k = rel k').
  { intros k' Hk'. apply Hc in Hk' as [-> | [Hk' _]]; eauto. }
  constructor.
  - rewrite ET, map_tid_upd; auto.
  - intros k' Hk'. rewrite EN. apply Hsrc in Hk' as [k [H1 [H2 _]]]. rewrite <- H2. auto.
  - rewrite EL. intros L k' Hk'. apply Hsrc in Hk' as [k [H1 [_ H3]]]. rewrite <- H3. auto.
  - rewrite EL. intros L. destruct (D L) as [k [H1 H2]].
    destruct (N.eq_dec (tid k) t) as [Et|Et].
    + assert (k = kf) by (apply (nodup_tid_inj (tasks s)); auto; congruence). subst k.
      exists (f kf). split; [rewrite ET; now apply in_upd_self | now rewrite Frel].
    + exists k. split; [rewrite ET; now apply in_upd_other | assumption].
  - intros k1 k2 H1 H2 R1 R2.
    pose proof (Hc _ H1) as C1. pose proof (Hc _ H2) as C2.
    destruct C1 as [-> | [I1 N1]], C2 as [-> | [I2 N2]]; auto.
    + rewrite Frel in R1. assert (kf = k2) by (apply E; auto). subst. congruence.
    + rewrite Frel in R2. assert (k1 = kf) by (apply E; auto). subst. congruence.
  - intros k' Hk'. apply Hc in Hk' as [-> | [Hk' _]]; auto.
  - intros k' Hk'. apply Hc in Hk' as [-> | [Hk' _]]; auto.
Qed.

Lemma task_is_some s t p : task_is s t p = true -> exists k, find_task t (tasks s) = Some k /\ p k = true.
Proof. unfold task_is. destruct (find_task t (tasks s)) as [k|]; [eauto|discriminate]. Qed.

Lemma is_ph_eq p k : is_ph p k = true -> ph k = p.
Proof. unfold is_ph. destruct p, (ph k); auto; discriminate. Qed.

Lemma inv_step o cap s e s' : Inv o s -> step o cap s e = Some s' -> Inv o s'.
Proof.
  intros HI. unfold step. destruct (enabled o cap s e) eqn:En; [|discriminate].
  intros H; injection H as <-.
  destruct e as [b| |w r| |r|t|t|t|t|t]; cbn [apply].
  - apply (inv_same o s); [reflexivity..|assumption].
  - apply (inv_same o s); [reflexivity..|assumption].
  - cbn [enabled] in En. apply andb_prop in En as [_ En]. apply sres_eqb_eq in En.
    destruct r as [t| | |]; try (apply (inv_same o s); [reflexivity..|assumption]).
    symmetry in En. apply sched_start in En as [L ->].
    eapply inv_spawn; eauto.
  - apply (inv_same o s); [reflexivity..|assumption].
  - cbn [enabled] in En. apply andb_prop in En as [_ En]. apply tres_eqb_eq in En.
    destruct r as [w t|w|w| |]; try (apply (inv_same o s); [reflexivity..|assumption]).
    symmetry in En. apply try_start in En as [L [-> _]].
    eapply inv_spawn with (s0 := s); eauto.
  - cbn [enabled] in En. apply task_is_some in En as [k [Hf Hp]]. apply is_ph_eq in Hp.
    pose proof (find_task_some _ _ _ Hf) as [Hk _].
    eapply inv_upd with (f := set_ph Worked); eauto; cbn.
    + intros [X|X]; pose proof (inv_ph _ _ HI k Hk) as Y; rewrite Y in Hp; auto; discriminate.
    + apply (inv_ord _ _ HI k Hk).
  - cbn [enabled] in En. apply task_is_some in En as [k [Hf Hp]]. apply is_ph_eq in Hp.
    pose proof (find_task_some _ _ _ Hf) as [Hk _].
    eapply inv_upd with (f := set_ph Stored); eauto; cbn.
    apply (inv_ord _ _ HI k Hk).
  - (* release *)
    cbn [enabled] in En. apply task_is_some in En as [kf [Hf Hp]].
    apply andb_prop in Hp as [Hp Ho]. apply andb_prop in Hp as [Hp Hr].
    apply is_ph_eq in Hp. apply negb_true_iff in Hr.
    pose proof (find_task_some _ _ _ Hf) as [Hkf Htid].
    destruct HI as [A B C D E F G].
    assert (Hc : forall k', In k' (upd t set_rel (tasks s)) -> k' = set_rel kf \/ (In k' (tasks s) /\ tid k' <> t)).
    { intros k'. now apply in_upd_cases. }
    assert (Hall : forall k', In k' (upd t set_rel (tasks s)) -> rel k' = true).
    { intros k' Hk'. apply Hc in Hk' as [-> | [Hk' Hne]]; [reflexivity|].
      destruct (rel k') eqn:R; auto. exfalso. apply Hne.
      assert (k' = kf) by (apply E; auto). congruence. }
    constructor; cbn.
    + rewrite map_tid_upd; auto.
    + intros k' Hk'. apply Hc in Hk' as [-> | [Hk' _]]; cbn; auto.
    + intros _. exact Hall.
    + discriminate.
    + intros k1 k2 H1 H2 R1. rewrite (Hall _ H1) in R1. discriminate.
    + intros k' Hk'. apply Hc in Hk' as [-> | [Hk' _]]; cbn; auto.
    + intros k' Hk'. apply Hc in Hk' as [-> | [Hk' _]]; auto.
      destruct o; cbn; auto.
  - (* send *)
    cbn [enabled] in En. apply andb_prop in En as [En _].
    apply task_is_some in En as [kf [Hf Hp]].
    apply andb_prop in Hp as [Hp Ho]. apply andb_prop in Hp as [Hp Hs].
    apply is_ph_eq in Hp.
    pose proof (find_task_some _ _ _ Hf) as [Hk _].
    eapply inv_upd with (f := set_snt); eauto; cbn; auto.
    destruct o; cbn; auto.
  - (* end *)
    cbn [enabled] in En. apply task_is_some in En as [kf [Hf Hp]].
    apply andb_prop in Hp as [Hp Hs]. apply andb_prop in Hp as [Hp Hr].
    pose proof (find_task_some _ _ _ Hf) as [Hkf Htid].
    destruct HI as [A B C D E F G].
    constructor; cbn.
    + now apply nodup_map_filter.
    + intros k Hk. apply in_del in Hk as [Hk _]. auto.
    + intros L k Hk. apply in_del in Hk as [Hk _]. auto.
    + intros L. destruct (D L) as [k [H1 H2]]. exists k. split; auto.
      apply in_del. split; auto. intros Et.
      assert (k = kf) by (apply (nodup_tid_inj (tasks s)); auto; congruence). subst. congruence.
    + intros k1 k2 H1 H2. apply in_del in H1 as [H1 _], H2 as [H2 _]. auto.
    + intros k Hk. apply in_del in Hk as [Hk _]. auto.
    + intros k Hk. apply in_del in Hk as [Hk _]. auto.
Qed.

Lemma inv_steps o cap tr : forall s s', Inv o s -> steps o cap s tr = Some s' -> Inv o s'.
Proof.
  induction tr as [|e tr IH]; cbn; intros s s' HI H.
  - now injection H as <-.
  - destruct (step o cap s e) as [s1|] eqn:E; [|discriminate].
    eapply IH; [|eassumption]. eapply inv_step; eauto.
Qed.

(* ------------------------------------------------------------------ *)
(* at most one run holds the reporter *)

Definition one_run (s : st) : Prop :=
  NoDup (map tid (tasks s)) /\
  (forall k1 k2, In k1 (tasks s) -> In k2 (tasks s) -> rel k1 = false -> rel k2 = false -> k1 = k2) /\
  (lock s = true <-> exists k, In k (tasks s) /\ rel k = false) /\
  (forall k, In k (tasks s) -> ph k = Spawned \/ ph k = Worked -> rel k = false).

Lemma inv_one_run o s : Inv o s -> one_run s.
Proof.
  intros [A B C D E F G]. repeat split; auto.
  - intros [k [H1 H2]]. destruct (lock s) eqn:L; auto. rewrite (C eq_refl k H1) in H2. discriminate.
  - intros k Hk Hp. destruct (rel k) eqn:R; auto.
    rewrite (F k Hk (or_introl R)) in Hp. destruct Hp; discriminate.
Qed.

Lemma at_most_one_run o cap e0 tr s :
  steps o cap (init e0) tr = Some s -> one_run s.
Proof. intros H. eapply inv_one_run, inv_steps; [apply inv_init | eassumption]. Qed.

(* ------------------------------------------------------------------ *)
(* no stuck request (guard released before the done signal) *)

Definition NS (s : st) : Prop := forall w, want s = Some w -> pending_trigger s = true.

Lemma existsb_unsent_in l k : In k l -> snt k = false -> existsb (fun k => negb (snt k)) l = true.
Proof. intros H1 H2. apply existsb_exists. exists k. split; auto. now rewrite H2. Qed.

Lemma pt_task s k : In k (tasks s) -> snt k = false -> pending_trigger s = true.
Proof.
  intros H1 H2. unfold pending_trigger. rewrite (existsb_unsent_in _ _ H1 H2).
  now rewrite orb_true_r.
Qed.

(* while the lock is held, the holder has not sent its done signal yet *)
Lemma held_unsent s : Inv ReleaseFirst s -> lock s = true -> pending_trigger s = true.
Proof.
  intros HI L. destruct (inv_held _ _ HI L) as [k [H1 H2]].
  apply (pt_task s k H1). pose proof (inv_ord _ _ HI k H1) as Ho. cbn in Ho.
  destruct (snt k); auto. rewrite Ho in H2; auto.
Qed.

Lemma existsb_upd_snt t f l :
  (forall k, snt (f k) = snt k) ->
  existsb (fun k => negb (snt k)) (upd t f l) = existsb (fun k => negb (snt k)) l.
Proof.
  intros Hf. unfold upd. induction l as [|a l IH]; cbn; auto.
  rewrite IH. f_equal. destruct (tid a =? t); auto. now rewrite Hf.
Qed.

Lemma ns_step cap s e s' :
  Inv ReleaseFirst s -> NS s -> step ReleaseFirst cap s e = Some s' -> NS s'.
Proof.
  intros HI HN. unfold step. destruct (enabled ReleaseFirst cap s e) eqn:En; [|discriminate].
  intros H; injection H as <-. unfold NS in *.
  destruct e as [b| |w r| |r|t|t|t|t|t]; cbn [apply].
  - exact HN.
  - exact HN.
  - cbn [enabled] in En. apply andb_prop in En as [_ En]. apply sres_eqb_eq in En.
    destruct r as [t| | |]; try exact HN.
    + intros w' _. unfold pending_trigger, spawn; cbn.
      rewrite existsb_app; cbn. now rewrite !orb_true_r.
    + intros w' _. unfold sched_result in En. destruct (lock s) eqn:L.
      * change (pending_trigger s = true). now apply held_unsent.
      * destruct (down s); [discriminate|]. destruct (empty s); discriminate.
  - intros w _. unfold pending_trigger; cbn. now rewrite orb_true_r.
  - cbn [enabled] in En. apply andb_prop in En as [_ En]. apply tres_eqb_eq in En.
    destruct r as [w t|w|w| |]; try (cbn; discriminate).
    + (* TNoWant: nothing was wanted *)
      unfold try_result in En. destruct (lock s); [discriminate|].
      destruct (want s) as [w|] eqn:W; [|cbn; rewrite W; discriminate].
      destruct (down s); [discriminate|]. destruct (empty s); discriminate.
    + (* TBusy *)
      intros w W. cbn in W.
      unfold try_result in En. destruct (lock s) eqn:L.
      * pose proof (held_unsent s HI L) as P. unfold pending_trigger in *; cbn.
        destruct (inv_held _ _ HI L) as [k [H1 H2]].
        pose proof (inv_ord _ _ HI k H1) as Ho. cbn in Ho.
        assert (snt k = false) by (destruct (snt k); auto; rewrite Ho in H2; auto; discriminate).
        rewrite (existsb_unsent_in _ _ H1 H). now rewrite !orb_true_r.
      * destruct (want s); [|discriminate]. destruct (down s); [discriminate|]. destruct (empty s); discriminate.
  - intros w W. cbn in W. specialize (HN w W). unfold pending_trigger in *; cbn.
    rewrite existsb_upd_snt; auto.
  - intros w W. cbn in W. specialize (HN w W). unfold pending_trigger in *; cbn.
    rewrite existsb_upd_snt; auto.
  - intros w W. cbn in W. specialize (HN w W). unfold pending_trigger in *; cbn.
    rewrite existsb_upd_snt; auto.
  - intros w W. unfold pending_trigger; cbn.
    assert (0 <? doneq s + 1 = true) by lia. now rewrite H.
  - (* end: the task that goes has sent *)
    intros w W. cbn in W. specialize (HN w W). unfold pending_trigger in *; cbn.
    cbn [enabled] in En. apply task_is_some in En as [kf [Hf Hp]].
    apply andb_prop in Hp as [Hp Hs].
    pose proof (find_task_some _ _ _ Hf) as [Hkf Htid].
    apply orb_prop in HN as [HN|HN]; [rewrite HN; reflexivity|].
    apply existsb_exists in HN as [k [H1 H2]].
    assert (In k (del t (tasks s))).
    { apply in_del. split; auto. intros Et.
      assert (k = kf) by (apply (nodup_tid_inj (tasks s)); auto; [apply (inv_nodup _ _ HI) | congruence]).
      subst. rewrite Hs in H2. discriminate. }
    assert (X : existsb (fun k => negb (snt k)) (del t (tasks s)) = true).
    { apply existsb_exists. eauto. }
    rewrite X. now rewrite orb_true_r.
Qed.

Lemma ns_init e0 : NS (init e0).
Proof. intros w; cbn; discriminate. Qed.

Lemma ns_steps cap tr : forall s s',
  Inv ReleaseFirst s -> NS s -> steps ReleaseFirst cap s tr = Some s' -> NS s'.
Proof.
  induction tr as [|e tr IH]; cbn; intros s s' HI HN H.
  - now injection H as <-.
  - destruct (step ReleaseFirst cap s e) as [s1|] eqn:E; [|discriminate].
    eapply IH; [| |eassumption]; [eapply inv_step | eapply ns_step]; eauto.
Qed.

(* the readable form of pending_trigger *)
Definition trigger_pending (s : st) : Prop :=
  0 < doneq s \/ got s = true \/ exists k, In k (tasks s) /\ snt k = false.

Lemma pending_trigger_spec s : pending_trigger s = true <-> trigger_pending s.
Proof.
  unfold pending_trigger, trigger_pending. rewrite !orb_true_iff, existsb_exists.
  split.
  - intros [[H|H]|[k [H1 H2]]]; [left; lia | right; left; assumption |].
    right; right. exists k. split; auto. now apply negb_true_iff.
  - intros [H|[H|[k [H1 H2]]]]; [left; left; lia | left; right; assumption |].
    right. exists k. split; auto. now rewrite H2.
Qed.

Lemma no_stuck_request cap e0 tr s w :
  steps ReleaseFirst cap (init e0) tr = Some s -> want s = Some w -> trigger_pending s.
Proof.
  intros H W. apply pending_trigger_spec.
  eapply ns_steps; eauto using inv_init, ns_init.
Qed.

(* ------------------------------------------------------------------ *)
(* the boolean monitor *)

Definition one_holder (s : st) : Prop :=
  (holders s = [] /\ lock s = false) \/ (exists k, holders s = [k] /\ lock s = true).

Definition Good (s : st) : Prop :=
  (forall w, want s = Some w -> trigger_pending s) /\ one_holder s.

Lemma onerun_b_spec s : onerun_b s = true <-> one_holder s.
Proof.
  unfold onerun_b, one_holder. destruct (holders s) as [|k [|k2 r]].
  - rewrite negb_true_iff. split; [auto|]. intros [[_ H]|[k [H _]]]; [auto|discriminate].
  - split; [intros H; right; eauto|]. intros [[H _]|[k' [_ H]]]; [discriminate|auto].
  - split; [discriminate|]. intros [[H _]|[k' [H _]]]; discriminate.
Qed.

Lemma good_b_spec s : good_b s = true <-> Good s.
Proof.
  unfold good_b, Good. rewrite andb_true_iff, onerun_b_spec.
  assert (X : nostuck_b s = true <-> (forall w, want s = Some w -> trigger_pending s)).
  { unfold nostuck_b. destruct (want s) as [w|].
    - rewrite pending_trigger_spec. split; [intros H w' _; exact H | intros H; exact (H w eq_refl)].
    - split; [discriminate | auto]. }
  now rewrite X.
Qed.

Lemma all_states_spec tr : forall s,
  all_states s tr = true <-> forall n, good_b (run_evs s (firstn n tr)) = true.
Proof.
  induction tr as [|e tr IH]; intros s; cbn [all_states].
  - rewrite andb_true_r. split.
    + intros H n. now rewrite firstn_nil.
    + intros H. exact (H O).
  - rewrite andb_true_iff, IH. split.
    + intros [H0 H] [|n]; cbn; [exact H0 | apply H].
    + intros H. split; [exact (H O) | intros n; exact (H (S n))].
Qed.

Lemma filter_none {A} (p : A -> bool) l : (forall k, In k l -> p k = false) -> filter p l = [].
Proof.
  induction l as [|a l IH]; cbn; auto. intros H. rewrite (H a (or_introl eq_refl)). apply IH. auto.
Qed.

Lemma onerun_of_inv o s : Inv o s -> onerun_b s = true.
Proof.
  intros HI. apply onerun_b_spec. unfold one_holder, holders.
  destruct (lock s) eqn:L.
  - right. destruct (inv_held _ _ HI L) as [k [H1 H2]].
    assert (Hk : In k (filter (fun k => negb (rel k)) (tasks s))).
    { apply filter_In. split; auto. now rewrite H2. }
    pose proof (nodup_map_filter (fun k => negb (rel k)) _ (inv_nodup _ _ HI)) as Hn.
    destruct (filter (fun k => negb (rel k)) (tasks s)) as [|k1 [|k2 r]] eqn:F.
    + destruct Hk.
    + eauto.
    + exfalso.
      assert (I1 : In k1 (tasks s) /\ rel k1 = false).
      { assert (X : In k1 (filter (fun k => negb (rel k)) (tasks s))) by (rewrite F; cbn; auto).
        apply filter_In in X as [X1 X2]. split; auto. now apply negb_true_iff. }
      assert (I2 : In k2 (tasks s) /\ rel k2 = false).
      { assert (X : In k2 (filter (fun k => negb (rel k)) (tasks s))) by (rewrite F; cbn; auto).
        apply filter_In in X as [X1 X2]. split; auto. now apply negb_true_iff. }
      destruct I1 as [I1 R1], I2 as [I2 R2].
      pose proof (inv_one _ _ HI k1 k2 I1 I2 R1 R2) as ->.
      cbn in Hn. inversion Hn as [|x y Hnot _]; subst. apply Hnot. cbn; auto.
  - left. split; auto. apply filter_none. intros k Hk.
    now rewrite (inv_free _ _ HI L k Hk).
Qed.

Lemma good_of_inv s : Inv ReleaseFirst s -> NS s -> good_b s = true.
Proof.
  intros HI HN. unfold good_b. rewrite (onerun_of_inv _ _ HI), andb_true_r.
  unfold nostuck_b. destruct (want s) as [w|] eqn:W; auto. exact (HN w W).
Qed.

Lemma all_states_of_run cap tr : forall s s',
  Inv ReleaseFirst s -> NS s -> steps ReleaseFirst cap s tr = Some s' -> all_states s tr = true.
Proof.
  induction tr as [|e tr IH]; cbn [all_states steps]; intros s s' HI HN H.
  - now rewrite good_of_inv.
  - rewrite good_of_inv; auto. cbn.
    destruct (step ReleaseFirst cap s e) as [s1|] eqn:E; [|discriminate].
    assert (s1 = apply s e).
    { unfold step in E. destruct (enabled ReleaseFirst cap s e); congruence. }
    subst s1. eapply IH; [| |eassumption]; [eapply inv_step | eapply ns_step]; eauto.
Qed.

(* ------------------------------------------------------------------ *)
(* the predicted trace of a script is a run of the transition system *)

Lemma steps_app o cap a : forall s b,
  steps o cap s (a ++ b) = match steps o cap s a with Some s' => steps o cap s' b | None => None end.
Proof.
  induction a as [|e a IH]; cbn; intros s b; auto.
  destruct (step o cap s e); auto.
Qed.

Lemma keep_enabled_run o cap l : forall s l' s',
  keep_enabled o cap s l = (l', s') -> steps o cap s l' = Some s'.
Proof.
  induction l as [|e l IH]; cbn; intros s l' s' H.
  - injection H as <- <-. reflexivity.
  - destruct (step o cap s e) as [s1|] eqn:E.
    + destruct (keep_enabled o cap s1 l) as [r s2] eqn:K. injection H as <- <-.
      cbn. rewrite E. eapply IH; eauto.
    + injection H as <- <-. reflexivity.
Qed.

Lemma exec_all_run o cap cs : forall s, exists s', steps o cap s (exec_all o cap s cs) = Some s'.
Proof.
  induction cs as [|c cs IH]; cbn; intros s; [eauto|].
  destruct (keep_enabled o cap s (exec o cap s c)) as [l s1] eqn:K.
  apply keep_enabled_run in K. rewrite steps_app, K. apply IH.
Qed.

Lemma model_trace_run o i :
  exists s', steps o DONE_CAP (init (fst i)) (model_trace o i) = Some s'.
Proof.
  unfold model_trace.
  destruct (keep_enabled o DONE_CAP (init (fst i)) (startup (init (fst i)))) as [l0 s1] eqn:K.
  apply keep_enabled_run in K. rewrite steps_app, K. apply exec_all_run.
Qed.

Lemma model_monitor i : monitor i (model i) = true.
Proof.
  unfold monitor, model. destruct (model_trace_run code_order i) as [s' H].
  eapply all_states_of_run; eauto using inv_init, ns_init.
Qed.

Lemma model_agrees i : agree i (model i) = true.
Proof.
  unfold agree, model. cbn. apply list_eqb_refl, ev_eqb_refl.
Qed.

(* what the monitor says about an observed trace *)
Lemma monitor_spec e0 cs tr :
  monitor (e0, cs) (Ok tr) = true <-> forall n, Good (run_evs (init e0) (firstn n tr)).
Proof.
  unfold monitor. cbn [fst]. rewrite all_states_spec.
  split; intros H n; apply good_b_spec, H.
Qed.

(* ------------------------------------------------------------------ *)
(* progress *)

Definition internal (e : ev) : bool :=
  match e with ESetRelays _ | EShutdown | ESched _ _ => false | _ => true end.

Lemma task_is_in s k p : NoDup (map tid (tasks s)) -> In k (tasks s) -> p k = true ->
  task_is s (tid k) p = true.
Proof. intros Hn Hk Hp. unfold task_is. now rewrite (find_task_in _ _ Hn Hk). Qed.

Lemma progress_enabled cap s w :
  1 <= cap -> Inv ReleaseFirst s -> NS s -> want s = Some w ->
  exists e, internal e = true /\ enabled ReleaseFirst cap s e = true.
Proof.
  intros Hcap HI HN W. specialize (HN w W).
  destruct (got s) eqn:G.
  { exists (ETry (try_result s)). cbn. now rewrite G, tres_eqb_refl. }
  destruct (0 <? doneq s) eqn:Q.
  { exists ERecv. cbn. now rewrite G, Q. }
  unfold pending_trigger in HN. rewrite G, Q in HN. cbn in HN.
  apply existsb_exists in HN as [k [Hk Hs]]. apply negb_true_iff in Hs.
  pose proof (inv_nodup _ _ HI) as Hn.
  destruct (ph k) eqn:P.
  - exists (EWork (tid k)). split; auto. cbn. apply task_is_in; auto. unfold is_ph. now rewrite P.
  - exists (EStore (tid k)). split; auto. cbn. apply task_is_in; auto. unfold is_ph. now rewrite P.
  - destruct (rel k) eqn:R.
    + exists (ESend (tid k)). split; auto. cbn.
      rewrite task_is_in; auto; [cbn; lia|]. unfold is_ph. now rewrite P, Hs, R.
    + exists (ERelease (tid k)). split; auto. cbn. apply task_is_in; auto.
      unfold is_ph. now rewrite P, R.
Qed.

Definition tw (k : task) : N :=
  match ph k with
  | Spawned => 7
  | Worked => 6
  | Stored => 1 + (if rel k then 0 else 1) + (if snt k then 0 else 3)
  end.
Fixpoint sumw (l : list task) : N := match l with [] => 0 | k :: l' => tw k + sumw l' end.
Definition mu (s : st) : N := sumw (tasks s) + 2 * doneq s + (if got s then 1 else 0).

Lemma upd_notin t f l : ~ In t (map tid l) -> upd t f l = l.
Proof.
  unfold upd. induction l as [|a l IH]; cbn; auto. intros H.
  destruct (tid a =? t) eqn:E; [apply N.eqb_eq in E; tauto|]. f_equal. apply IH. tauto.
Qed.

Lemma del_notin t l : ~ In t (map tid l) -> del t l = l.
Proof.
  unfold del. induction l as [|a l IH]; cbn; auto. intros H.
  destruct (tid a =? t) eqn:E; [apply N.eqb_eq in E; tauto|]. cbn. f_equal. apply IH. tauto.
Qed.

Lemma sumw_upd t f l k :
  NoDup (map tid l) -> find_task t l = Some k ->
  sumw (upd t f l) + tw k = sumw l + tw (f k).
Proof.
  unfold find_task. induction l as [|a l IH]; cbn; [discriminate|]. intros Hn Hf.
  inversion Hn as [|x y Hnot Hn']; subst.
  destruct (tid a =? t) eqn:E.
  - injection Hf as <-. apply N.eqb_eq in E. subst t.
    fold (upd (tid a) f l). rewrite upd_notin; auto. lia.
  - fold (upd t f l). specialize (IH Hn' Hf). lia.
Qed.

Lemma sumw_del t l k :
  NoDup (map tid l) -> find_task t l = Some k -> sumw (del t l) + tw k = sumw l.
Proof.
  unfold find_task. induction l as [|a l IH]; cbn; [discriminate|]. intros Hn Hf.
  inversion Hn as [|x y Hnot Hn']; subst.
  destruct (tid a =? t) eqn:E; cbn.
  - injection Hf as <-. apply N.eqb_eq in E. subst t.
    fold (del (tid a) l). rewrite del_notin; auto. lia.
  - fold (del t l). specialize (IH Hn' Hf). lia.
Qed.

Lemma tw_pos k : 1 <= tw k.
Proof. unfold tw. destruct (ph k), (rel k), (snt k); lia. Qed.

(* every step of the actor's done handling and of the run tasks, except the start of a
   new run from try_run, decreases mu *)
Lemma variant o cap s e s' :
  Inv o s -> step o cap s e = Some s' -> internal e = true ->
  (forall w t, e <> ETry (TStart w t)) -> mu s' < mu s.
Proof.
  intros HI. unfold step. destruct (enabled o cap s e) eqn:En; [|discriminate].
  intros H; injection H as <-. intros Hint Hne.
  pose proof (inv_nodup _ _ HI) as Hn.
  destruct e as [b| |w r| |r|t|t|t|t|t]; try discriminate; cbn [apply]; unfold mu; cbn.
  - cbn in En. destruct (got s); [discriminate|]. cbn in En. lia.
  - cbn in En. apply andb_prop in En as [G _]. rewrite G.
    destruct r as [w t|w|w| |]; cbn; try lia. exfalso. eapply Hne; eauto.
  - cbn [enabled] in En. apply task_is_some in En as [k [Hf Hp]]. apply is_ph_eq in Hp.
    pose proof (sumw_upd t (set_ph Worked) _ k Hn Hf) as X.
    unfold tw in X at 1 2. cbn in X. rewrite Hp in X. lia.
  - cbn [enabled] in En. apply task_is_some in En as [k [Hf Hp]]. apply is_ph_eq in Hp.
    pose proof (sumw_upd t (set_ph Stored) _ k Hn Hf) as X.
    unfold tw in X at 1 2. cbn in X. rewrite Hp in X. destruct (rel k), (snt k); lia.
  - cbn [enabled] in En. apply task_is_some in En as [k [Hf Hp]].
    apply andb_prop in Hp as [Hp _]. apply andb_prop in Hp as [Hp Hr].
    apply is_ph_eq in Hp. apply negb_true_iff in Hr.
    pose proof (sumw_upd t set_rel _ k Hn Hf) as X.
    unfold tw in X at 1 2. cbn in X. rewrite Hp, Hr in X. lia.
  - cbn [enabled] in En. apply andb_prop in En as [En _]. apply task_is_some in En as [k [Hf Hp]].
    apply andb_prop in Hp as [Hp _]. apply andb_prop in Hp as [Hp Hs].
    apply is_ph_eq in Hp. apply negb_true_iff in Hs.
    pose proof (sumw_upd t set_snt _ k Hn Hf) as X.
    unfold tw in X at 1 2. cbn in X. rewrite Hp, Hs in X. lia.
  - cbn [enabled] in En. apply task_is_some in En as [k [Hf Hp]].
    pose proof (sumw_del t _ k Hn Hf) as X. pose proof (tw_pos k). lia.
Qed.

(* the one step that does not: try_run takes the pending request and starts its run *)
Lemma try_start_consumes o cap s w t s' :
  step o cap s (ETry (TStart w t)) = Some s' ->
  want s = Some w /\ want s' = None /\ In (mkTask t Spawned false false) (tasks s').
Proof.
  unfold step. destruct (enabled o cap s (ETry (TStart w t))) eqn:En; [|discriminate].
  intros H; injection H as <-. cbn [enabled] in En. apply andb_prop in En as [_ En].
  apply tres_eqb_eq in En. symmetry in En. apply try_start in En as [_ [_ W]].
  repeat split; auto. cbn. apply in_app_iff. cbn. auto.
Qed.

Lemma pending_request_has_enabled_step cap e0 tr s w :
  1 <= cap -> steps ReleaseFirst cap (init e0) tr = Some s -> want s = Some w ->
  exists e, internal e = true /\ enabled ReleaseFirst cap s e = true.
Proof.
  intros Hc H W. apply (progress_enabled cap s w Hc); auto.
  - eapply inv_steps; [apply inv_init | eassumption].
  - eapply ns_steps; [apply inv_init | apply ns_init | eassumption].
Qed.

Lemma internal_steps_decrease_measure o cap e0 tr s e s' :
  steps o cap (init e0) tr = Some s -> step o cap s e = Some s' -> internal e = true ->
  (forall w t, e <> ETry (TStart w t)) -> mu s' < mu s.
Proof.
  intros H. apply variant. eapply inv_steps; [apply inv_init | eassumption].
Qed.

(* ------------------------------------------------------------------ *)
(* witnesses *)

(* The order of the pinned code (guard dropped after the done signal): a request made
   while a run is in flight gets stuck — nothing is left that would make the actor call
   try_run, no task is alive, the lock is free. *)
Definition stuck_trace : list ev :=
  [ESched Periodic (SStart 1); ESched RelayMapChange SBusy; EWork 1; EStore 1; ESend 1;
   ERecv; ETry TBusy; ERelease 1; EEnd 1].

Definition stuck_state : st := mkSt (Some RelayMapChange) false [] 0 false false false 2.

Lemma send_first_refuted :
  exists tr s w, steps SendFirst 8 (init false) tr = Some s /\
    want s = Some w /\ pending_trigger s = false /\ tasks s = [] /\ lock s = false /\
    (forall e, internal e = true -> enabled SendFirst 8 s e = false).
Proof.
  exists stuck_trace, stuck_state, RelayMapChange. vm_compute. repeat split; try reflexivity.
  intros e. destruct e as [b| |w r| |r|t|t|t|t|t]; try reflexivity; discriminate.
Qed.

(* non-vacuity: with the guard released first, a state with a pending request is reachable,
   and the same schedule lets try_run start the requested run *)
Example pending_reachable :
  exists s, steps ReleaseFirst 8 (init false)
              [ESched Periodic (SStart 1); ESched RelayMapChange SBusy; EWork 1; EStore 1;
               ERelease 1; ESend 1; ERecv] = Some s /\ want s = Some RelayMapChange.
Proof. eexists. vm_compute. split; reflexivity. Qed.

Example fixed_schedule_runs :
  exists s, steps ReleaseFirst 8 (init false)
              [ESched Periodic (SStart 1); ESched RelayMapChange SBusy; EWork 1; EStore 1;
               ERelease 1; ESend 1; ERecv; ETry (TStart RelayMapChange 2); EEnd 1] = Some s /\
            want s = None /\ lock s = true.
Proof. eexists. vm_compute. repeat split; reflexivity. Qed.

(* the harness script of the witness, as the model predicts it for both orders *)
Example witness_script_send_first :
  model_trace SendFirst (false, [CIns; CWork; CSend 0; CTry; CEnd 0]) =
  [ESched Periodic (SStart 1); ESetRelays false; ESched RelayMapChange SBusy; EWork 1; EStore 1;
   ESend 1; ERecv; ETry TBusy; ERelease 1; EEnd 1].
Proof. vm_compute. reflexivity. Qed.

Example witness_script_release_first :
  model_trace ReleaseFirst (false, [CIns; CWork; CSend 0; CTry; CEnd 0]) =
  [ESched Periodic (SStart 1); ESetRelays false; ESched RelayMapChange SBusy; EWork 1; EStore 1;
   ERelease 1; ESend 1; ERecv; ETry (TStart RelayMapChange 2); EEnd 1].
Proof. vm_compute. reflexivity. Qed.

Example monitor_rejects_stuck :
  monitor (false, [CIns; CWork; CSend 0; CTry; CEnd 0])
          (Ok (model_trace SendFirst (false, [CIns; CWork; CSend 0; CTry; CEnd 0]))) = false.
Proof. vm_compute. reflexivity. Qed.
