(* C18 — proofs about the mapped-address model. *)
From V Require Import Lib.Base Gen.Consts Model.C18.
From Coq Require Import ZifyBool.
Import C18.
Open Scope N_scope.

(* ------------------------------------------------------------------ basics *)
Lemma bytes_eqb_iff a b : bytes_eqb a b = true <-> a = b.
Proof. split; [apply bytes_eqb_eq | intros ->; apply bytes_eqb_refl]. Qed.

Lemma bytes_eqb_neq a b : bytes_eqb a b = false <-> a <> b.
Proof.
  split.
  - intros H E. subst. now rewrite bytes_eqb_refl in H.
  - intros H. destruct (bytes_eqb a b) eqn:E; [|reflexivity]. apply bytes_eqb_eq in E. contradiction.
Qed.

Lemma kind_eqb_iff a b : kind_eqb a b = true <-> a = b.
Proof. split; [|intros ->; destruct b; reflexivity]. destruct a, b; cbv; congruence. Qed.

Lemma sockaddr_eqb_refl a : sockaddr_eqb a a = true.
Proof. destruct a; cbn; rewrite ?N.eqb_refl, ?bytes_eqb_refl; reflexivity. Qed.

Lemma mapped_eqb_refl a : mapped_eqb a a = true.
Proof. destruct a; cbn; auto using bytes_eqb_refl, sockaddr_eqb_refl. Qed.

Lemma opt_N_eqb_refl (x : option N) : opt_eqb N.eqb x x = true.
Proof. destruct x; cbn; auto using N.eqb_refl. Qed.

Lemma taddr_eqb_refl a : taddr_eqb a a = true.
Proof. destruct a; cbn; auto using N.eqb_refl, sockaddr_eqb_refl. Qed.

Lemma opt_taddr_eqb_refl (x : option taddr) : opt_eqb taddr_eqb x x = true.
Proof. destruct x; cbn; auto using taddr_eqb_refl. Qed.

(* ------------------------------------------------------------------ association lists *)
Lemma find_k_ins_same k a l : find_k k (ins_k k a l) = Some a.
Proof. unfold ins_k. cbn. now rewrite N.eqb_refl. Qed.

Lemma find_k_filter k k' l : k' <> k ->
  find_k k' (filter (fun p => negb (N.eqb (fst p) k)) l) = find_k k' l.
Proof.
  intros Hn. induction l as [|[k0 a0] l IH]; cbn; [reflexivity|].
  destruct (N.eqb k0 k) eqn:E; cbn.
  - apply N.eqb_eq in E. subst k0. destruct (N.eqb k k') eqn:E2; [apply N.eqb_eq in E2; congruence|]. exact IH.
  - destruct (N.eqb k0 k'); [reflexivity|exact IH].
Qed.

Lemma find_k_ins_other k k' a l : k' <> k -> find_k k' (ins_k k a l) = find_k k' l.
Proof.
  intros Hn. unfold ins_k. cbn.
  destruct (N.eqb k k') eqn:E; [apply N.eqb_eq in E; congruence|]. now apply find_k_filter.
Qed.

Lemma find_a_ins_same k a l : find_a a (ins_a a k l) = Some k.
Proof. unfold ins_a. cbn. now rewrite bytes_eqb_refl. Qed.

Lemma find_a_filter a a' l : a' <> a ->
  find_a a' (filter (fun p => negb (bytes_eqb (fst p) a)) l) = find_a a' l.
Proof.
  intros Hn. induction l as [|[a0 k0] l IH]; cbn; [reflexivity|].
  destruct (bytes_eqb a0 a) eqn:E; cbn.
  - apply bytes_eqb_eq in E. subst a0.
    destruct (bytes_eqb a a') eqn:E2; [apply bytes_eqb_eq in E2; congruence|]. exact IH.
  - destruct (bytes_eqb a0 a'); [reflexivity|exact IH].
Qed.

Lemma find_a_ins_other k a a' l : a' <> a -> find_a a' (ins_a a k l) = find_a a' l.
Proof.
  intros Hn. unfold ins_a. cbn.
  destruct (bytes_eqb a a') eqn:E; [apply bytes_eqb_eq in E; congruence|]. now apply find_a_filter.
Qed.

Lemma In_find_k k a l : In (k, a) l -> find_k k l <> None.
Proof.
  induction l as [|[k0 a0] l IH]; cbn; [tauto|].
  intros [E|H].
  - inversion E; subst. now rewrite N.eqb_refl.
  - destruct (N.eqb k0 k); [discriminate|auto].
Qed.

Lemma In_find_a k a l : In (a, k) l -> find_a a l <> None.
Proof.
  induction l as [|[a0 k0] l IH]; cbn; [tauto|].
  intros [E|H].
  - inversion E; subst. now rewrite bytes_eqb_refl.
  - destruct (bytes_eqb a0 a); [discriminate|auto].
Qed.

Lemma In_ins_k key a l k' a' : find_k key l = None ->
  (In (k', a') (ins_k key a l) <-> (k', a') = (key, a) \/ In (k', a') l).
Proof.
  intros Hf. unfold ins_k. cbn. rewrite filter_In. cbn.
  split.
  - intros [E|[H _]]; [left; now symmetry|right; exact H].
  - intros [E|H]; [left; now symmetry|right]. split; [exact H|].
    destruct (N.eqb k' key) eqn:E; [|reflexivity].
    apply N.eqb_eq in E. subst. apply In_find_k in H. contradiction.
Qed.

Lemma In_ins_a key a l k' a' : find_a a l = None ->
  (In (a', k') (ins_a a key l) <-> (a', k') = (a, key) \/ In (a', k') l).
Proof.
  intros Hf. unfold ins_a. cbn. rewrite filter_In. cbn.
  split.
  - intros [E|[H _]]; [left; now symmetry|right; exact H].
  - intros [E|H]; [left; now symmetry|right]. split; [exact H|].
    destruct (bytes_eqb a' a) eqn:E; [|reflexivity].
    apply bytes_eqb_eq in E. subst. apply In_find_a in H. contradiction.
Qed.

Lemma first_fresh_spec lk cs a : first_fresh lk cs = Some a -> In a cs /\ find_a a lk = None.
Proof.
  induction cs as [|c r IH]; cbn; [discriminate|].
  destruct (find_a c lk) eqn:E.
  - intros H. destruct (IH H). auto.
  - intros H. inversion H; subst. auto.
Qed.

Lemma first_fresh_some lk cs :
  (exists c, In c cs /\ find_a c lk = None) -> exists a, first_fresh lk cs = Some a.
Proof.
  induction cs as [|c r IH]; intros [x [Hin Hx]]; [destruct Hin|].
  cbn. destruct (find_a c lk) eqn:E; [|eauto].
  destruct Hin as [->|Hin]; [congruence|]. apply IH. eauto.
Qed.

(* ------------------------------------------------------------------ classification *)
Lemma in_subnet_prefix sub o :
  in_subnet sub o = true -> firstn 8 o = ADDR_PREFIXL :: ADDR_GLOBAL_ID ++ sub.
Proof.
  unfold in_subnet. intros H.
  apply andb_prop in H as [H H3]. apply andb_prop in H as [H1 H2].
  apply bytes_eqb_eq in H2, H3. apply N.eqb_eq in H1.
  unfold slice in *.
  destruct o as [|b0 o]; [cbn in H2; discriminate|].
  cbn in H1. subst b0.
  cbn in H2, H3.
  do 5 (destruct o as [|? o]; [cbn in H2; discriminate|]).
  cbn in H2. injection H2 as -> -> -> -> ->.
  cbn in H3. subst sub.
  destruct o as [|c0 [|c1 o]]; reflexivity.
Qed.

Lemma prefix_in_subnet sub o : length sub = 2%nat ->
  firstn 8 o = ADDR_PREFIXL :: ADDR_GLOBAL_ID ++ sub -> in_subnet sub o = true.
Proof.
  intros Hl H.
  destruct sub as [|s0 [|s1 [|]]]; try discriminate.
  do 8 (destruct o as [|? o]; [cbn in H; discriminate|]).
  cbn in H. injection H as -> -> -> -> -> -> -> ->.
  unfold in_subnet, slice. cbn. rewrite !N.eqb_refl. reflexivity.
Qed.

Definition mk_mapped (k : kind) (o : bytes) : mapped :=
  match k with KMixed => MMixed o | KRelay => MRelay o | KCustom => MCustom o | KScript => MIp (SV6 o 0 0 0) end.

Lemma subnets_disjoint o :
  (in_subnet ENDPOINT_ID_SUBNET o = true -> in_subnet RELAY_MAPPED_SUBNET o = false /\ in_subnet CUSTOM_MAPPED_SUBNET o = false) /\
  (in_subnet RELAY_MAPPED_SUBNET o = true -> in_subnet ENDPOINT_ID_SUBNET o = false /\ in_subnet CUSTOM_MAPPED_SUBNET o = false) /\
  (in_subnet CUSTOM_MAPPED_SUBNET o = true -> in_subnet ENDPOINT_ID_SUBNET o = false /\ in_subnet RELAY_MAPPED_SUBNET o = false).
Proof.
  assert (D : forall s1 s2, s1 <> s2 -> in_subnet s1 o = true -> in_subnet s2 o = false).
  { intros s1 s2 Hn H1. destruct (in_subnet s2 o) eqn:H2; [|reflexivity].
    unfold in_subnet in H1, H2.
    apply andb_prop in H1 as [_ H1]. apply andb_prop in H2 as [_ H2].
    apply bytes_eqb_eq in H1, H2. congruence. }
  split; [|split]; intros H; split; (eapply D; [|exact H]; discriminate).
Qed.

Lemma classify_typed k o p f s : k <> KScript -> typed k o = true ->
  classify (SV6 o p f s) = mk_mapped k o.
Proof.
  intros Hk Ht. destruct (subnets_disjoint o) as [HE [HR HC]].
  unfold classify. destruct k; cbn [typed subnet] in Ht; cbn [mk_mapped].
  - now rewrite Ht.
  - destruct (HR Ht) as [-> _]. now rewrite Ht.
  - destruct (HC Ht) as [-> ->]. now rewrite Ht.
  - congruence.
Qed.

Lemma typed_gen k r : typed k (gen k r) = true.
Proof. destruct k; reflexivity. Qed.

(* classify (gen_X r) = X, for every r and every port / flow / scope *)
Lemma classify_generated k r p f s : k <> KScript ->
  classify (SV6 (gen k r) p f s) = mk_mapped k (gen k r).
Proof. intros Hk. apply classify_typed; [exact Hk|apply typed_gen]. Qed.

Definition prefix_of (k : kind) : bytes := ADDR_PREFIXL :: ADDR_GLOBAL_ID ++ subnet k.

(* classified as Mixed / Relay / Custom only inside the reserved prefix *)
Lemma classify_sound sa m : classify sa = m ->
  match m with
  | MIp sa' => sa' = sa
  | _ => exists k o p f s, kind_of_mapped m = Some k /\ sa = SV6 o p f s /\ mapped_octets m = o
                          /\ firstn 8 o = prefix_of k
  end.
Proof.
  intros <-. destruct sa as [ip p|o p f s]; cbn [classify]; [reflexivity|].
  destruct (in_subnet ENDPOINT_ID_SUBNET o) eqn:E1.
  { exists KMixed, o, p, f, s. repeat split. now apply in_subnet_prefix. }
  destruct (in_subnet RELAY_MAPPED_SUBNET o) eqn:E2.
  { exists KRelay, o, p, f, s. repeat split. now apply in_subnet_prefix. }
  destruct (in_subnet CUSTOM_MAPPED_SUBNET o) eqn:E3.
  { exists KCustom, o, p, f, s. repeat split. now apply in_subnet_prefix. }
  reflexivity.
Qed.

(* conversely: inside a reserved /64 it IS classified as that kind *)
Lemma classify_complete k o p f s : k <> KScript ->
  firstn 8 o = prefix_of k -> classify (SV6 o p f s) = mk_mapped k o.
Proof.
  intros Hk H. apply classify_typed; [exact Hk|].
  destruct k; try congruence; cbn [typed]; apply prefix_in_subnet; auto.
Qed.

Lemma v4_never_mapped ip p : classify (SV4 ip p) = MIp (SV4 ip p).
Proof. reflexivity. Qed.

(* ------------------------------------------------------------------ the invariant *)
Record inv (kd : kind) (m : amap) : Prop := {
  inv_find : forall k a, find_k k (addrs m) = Some a <-> find_a a (lookup m) = Some k;
  inv_in : forall k a, In (k, a) (addrs m) <-> In (a, k) (lookup m);
  inv_typed : forall k a, find_k k (addrs m) = Some a -> typed kd a = true
}.

Definition Inv (s : state) : Prop := forall kd, inv kd (sel kd s).

Lemma inv_empty kd : inv kd empty_map.
Proof. split; cbn; intros; try tauto; try discriminate; split; discriminate. Qed.

Lemma Inv_init : Inv init.
Proof. intros []; apply inv_empty. Qed.

Lemma typed_in_gens kd a cands : In a (map (gen kd) cands) -> typed kd a = true.
Proof. rewrite in_map_iff. intros [r [<- _]]. apply typed_gen. Qed.

(* what a get does *)
Lemma get_cases kd m key cands :
  (exists a, find_k key (addrs m) = Some a /\ get kd m key cands = (m, Some a)) \/
  (find_k key (addrs m) = None /\
   ((exists a, first_fresh (lookup m) (map (gen kd) cands) = Some a /\
               get kd m key cands = (mkMap (ins_k key a (addrs m)) (ins_a a key (lookup m)), Some a)) \/
    (first_fresh (lookup m) (map (gen kd) cands) = None /\ get kd m key cands = (m, None)))).
Proof.
  unfold get. destruct (find_k key (addrs m)) as [a|] eqn:E; [left; eauto|right; split; [reflexivity|]].
  destruct (first_fresh (lookup m) (map (gen kd) cands)) as [a|] eqn:F; [left; eauto|right; auto].
Qed.

Lemma get_inv kd m key cands m' r : inv kd m -> get kd m key cands = (m', r) -> inv kd m'.
Proof.
  intros [Hf Hi Ht] Hg.
  destruct (get_cases kd m key cands) as [[a [_ E]]|[Hn [[a [F E]]|[_ E]]]];
    rewrite E in Hg; inversion Hg; subst; try (split; assumption).
  apply first_fresh_spec in F as [Hin Hfr].
  split; cbn [addrs lookup].
  - intros k a'. destruct (N.eq_dec k key) as [->|Hk].
    + rewrite find_k_ins_same. split.
      * intros E'. inversion E'; subst. apply find_a_ins_same.
      * intros E'. destruct (list_eq_dec N.eq_dec a' a) as [->|Ha]; [reflexivity|].
        rewrite find_a_ins_other in E' by exact Ha. apply Hf in E'. congruence.
    + rewrite find_k_ins_other by exact Hk. split.
      * intros E'. assert (Ha : a' <> a).
        { intros ->. apply Hf in E'. congruence. }
        rewrite find_a_ins_other by exact Ha. now apply Hf.
      * intros E'. destruct (list_eq_dec N.eq_dec a' a) as [->|Ha].
        { rewrite find_a_ins_same in E'. congruence. }
        rewrite find_a_ins_other in E' by exact Ha. now apply Hf.
  - intros k a'. rewrite In_ins_k by exact Hn. rewrite In_ins_a by exact Hfr. rewrite Hi.
    split; (intros [E'|H]; [left; congruence|right; exact H]).
  - intros k a'. destruct (N.eq_dec k key) as [->|Hk].
    + rewrite find_k_ins_same. intros E'. inversion E'; subst. eapply typed_in_gens; eauto.
    + rewrite find_k_ins_other by exact Hk. apply Ht.
Qed.

Lemma sel_upd_same kd s m : sel kd (upd kd s m) = m.
Proof. destruct kd; reflexivity. Qed.

Lemma sel_upd_other kd kd' s m : kd' <> kd -> sel kd' (upd kd s m) = sel kd' s.
Proof. destruct kd, kd'; try reflexivity; congruence. Qed.

Lemma kind_eq_dec (a b : kind) : {a = b} + {a <> b}.
Proof. decide equality. Qed.

Lemma step_Inv s o : Inv s -> Inv (fst (step s o)).
Proof.
  intros H. destruct o as [kd key cands|kd a|sa|sa]; cbn [step]; try exact H.
  destruct (get kd (sel kd s) key cands) as [m' [a|]] eqn:E; cbn [fst]; [|exact H].
  intros kd'. destruct (kind_eq_dec kd' kd) as [->|Hn].
  - rewrite sel_upd_same. eapply get_inv; eauto.
  - rewrite sel_upd_other by exact Hn. apply H.
Qed.

Lemma run_cons s o r :
  run s (o :: r) = (fst (run (fst (step s o)) r), snd (step s o) :: snd (run (fst (step s o)) r)).
Proof.
  cbn [run]. destruct (step s o) as [s1 x]. cbn [fst snd]. destruct (run s1 r) as [s2 xs]. reflexivity.
Qed.

Lemma run_Inv ops : forall s, Inv s -> Inv (fst (run s ops)).
Proof.
  induction ops as [|o r IH]; intros s H; [exact H|].
  rewrite run_cons. cbn [fst]. apply IH. now apply step_Inv.
Qed.

Lemma run_app a b s :
  run s (a ++ b) = (fst (run (fst (run s a)) b), snd (run s a) ++ snd (run (fst (run s a)) b)).
Proof.
  revert s. induction a as [|o r IH]; intros s.
  - cbn [app run fst snd]. now destruct (run s b).
  - cbn [app]. rewrite !run_cons. cbn [fst snd]. rewrite IH. reflexivity.
Qed.

(* ------------------------------------------------------------------ stability *)
Definition mapped_to (s : state) (kd : kind) (key : N) (a : bytes) : Prop :=
  find_k key (addrs (sel kd s)) = Some a.

Lemma step_mono s o kd key a : mapped_to s kd key a -> mapped_to (fst (step s o)) kd key a.
Proof.
  unfold mapped_to. intros H.
  destruct o as [kd0 key0 cands|kd0 a0|sa|sa]; cbn [step fst]; try exact H.
  destruct (get_cases kd0 (sel kd0 s) key0 cands) as [[a0 [_ E]]|[Hn [[a0 [F E]]|[_ E]]]];
    rewrite E; cbn [fst]; try exact H.
  - destruct (kind_eq_dec kd kd0) as [->|Hk].
    + now rewrite sel_upd_same.
    + now rewrite sel_upd_other.
  - destruct (kind_eq_dec kd kd0) as [->|Hk].
    + rewrite sel_upd_same. cbn [addrs]. rewrite find_k_ins_other; [exact H|]. intros ->. congruence.
    + now rewrite sel_upd_other.
Qed.

Lemma run_mono ops : forall s kd key a, mapped_to s kd key a -> mapped_to (fst (run s ops)) kd key a.
Proof.
  induction ops as [|o r IH]; intros s kd key a H; [exact H|].
  rewrite run_cons. cbn [fst]. apply IH. now apply step_mono.
Qed.

(* a get that answers with an address has that address in the map afterwards *)
Lemma get_result s kd key cands s' x :
  step s (OpGet kd key cands) = (s', RAddr x) ->
  exists a, x = private_socket_addr a /\ mapped_to s' kd key a.
Proof.
  cbn [step]. unfold mapped_to.
  destruct (get_cases kd (sel kd s) key cands) as [[a [Hf E]]|[Hn [[a [F E]]|[_ E]]]]; rewrite E.
  - intros H. inversion H; subst. exists a. split; [reflexivity|]. now rewrite sel_upd_same.
  - intros H. inversion H; subst. exists a. split; [reflexivity|].
    rewrite sel_upd_same. cbn [addrs]. apply find_k_ins_same.
  - discriminate.
Qed.

Lemma get_of_mapped s kd key a cands : mapped_to s kd key a ->
  step s (OpGet kd key cands) = (upd kd s (sel kd s), RAddr (private_socket_addr a)).
Proof. unfold mapped_to. intros H. cbn [step]. unfold get. now rewrite H. Qed.

Lemma get_stable s kd key c1 s1 x ops c2 :
  step s (OpGet kd key c1) = (s1, RAddr x) ->
  snd (step (fst (run s1 ops)) (OpGet kd key c2)) = RAddr x.
Proof.
  intros H. apply get_result in H as [a [-> Hm]].
  apply (run_mono ops) in Hm. now rewrite (get_of_mapped _ _ _ _ c2 Hm).
Qed.

Lemma psa_inj a b : private_socket_addr a = private_socket_addr b -> a = b.
Proof. unfold private_socket_addr. congruence. Qed.

Lemma get_injective s kd k1 c1 s1 x ops k2 c2 :
  Inv s ->
  step s (OpGet kd k1 c1) = (s1, RAddr x) ->
  snd (step (fst (run s1 ops)) (OpGet kd k2 c2)) = RAddr x ->
  k1 = k2.
Proof.
  intros HI H1 H2.
  assert (HI1 : Inv s1). { replace s1 with (fst (step s (OpGet kd k1 c1))) by now rewrite H1. now apply step_Inv. }
  apply get_result in H1 as [a [-> Hm1]].
  set (sN := fst (run s1 ops)) in *.
  assert (HIN : Inv sN) by now apply run_Inv.
  apply (run_mono ops) in Hm1. fold sN in Hm1.
  destruct (step sN (OpGet kd k2 c2)) as [s2 y] eqn:E. cbn [snd] in H2. subst y.
  assert (HI2 : Inv s2). { replace s2 with (fst (step sN (OpGet kd k2 c2))) by now rewrite E. now apply step_Inv. }
  assert (Hm1' : mapped_to s2 kd k1 a).
  { replace s2 with (fst (step sN (OpGet kd k2 c2))) by now rewrite E. now apply step_mono. }
  apply get_result in E as [b [Eb Hm2]]. apply psa_inj in Eb. subst b.
  unfold mapped_to in *. apply (inv_find _ _ (HI2 kd)) in Hm1', Hm2. congruence.
Qed.

(* translating back yields exactly the key *)
Lemma lookup_get s kd key c s1 a ops :
  Inv s ->
  step s (OpGet kd key c) = (s1, RAddr (private_socket_addr a)) ->
  snd (step (fst (run s1 ops)) (OpLookup kd a)) = RKey (Some key).
Proof.
  intros HI H1.
  assert (HI1 : Inv s1). { replace s1 with (fst (step s (OpGet kd key c))) by now rewrite H1. now apply step_Inv. }
  apply get_result in H1 as [a' [Ea Hm]]. apply psa_inj in Ea. subst a'.
  apply (run_mono ops) in Hm.
  assert (HIN : Inv (fst (run s1 ops))) by now apply run_Inv.
  cbn [step snd]. unfold mapped_to in Hm.
  rewrite (inv_typed _ _ (HIN kd) _ _ Hm). unfold lookup_addr.
  apply (inv_find _ _ (HIN kd)) in Hm. now rewrite Hm.
Qed.

(* ... and a lookup only ever answers with a key that get maps to that address *)
Lemma lookup_sound s kd a k c :
  Inv s -> snd (step s (OpLookup kd a)) = RKey (Some k) ->
  snd (step s (OpGet kd k c)) = RAddr (private_socket_addr a).
Proof.
  intros HI. cbn [step snd]. destruct (typed kd a); [|discriminate].
  intros H. inversion H as [H']. unfold lookup_addr in H'.
  apply (inv_find _ _ (HI kd)) in H'. unfold get. now rewrite H'.
Qed.

(* synthetic relay / custom addresses translate to exactly their key *)
Lemma transport_get s kd key c s1 a ops p f sc :
  Inv s -> (kd = KRelay \/ kd = KCustom) ->
  step s (OpGet kd key c) = (s1, RAddr (private_socket_addr a)) ->
  to_transport_addr (fst (run s1 ops)) (SV6 a p f sc) =
    Some (match kd with KRelay => TRelay key | _ => TCustom key end).
Proof.
  intros HI Hk H1.
  pose proof (lookup_get s kd key c s1 a ops HI H1) as HL.
  assert (HI1 : Inv s1). { replace s1 with (fst (step s (OpGet kd key c))) by now rewrite H1. now apply step_Inv. }
  apply get_result in H1 as [a' [Ea Hm]]. apply psa_inj in Ea. subst a'.
  apply (run_mono ops) in Hm.
  assert (HIN : Inv (fst (run s1 ops))) by now apply run_Inv.
  pose proof (inv_typed _ _ (HIN kd) _ _ Hm) as Ht.
  cbn [step snd] in HL. rewrite Ht in HL. inversion HL as [HL'].
  unfold to_transport_addr.
  destruct Hk as [-> | ->].
  - rewrite (classify_typed KRelay) by (auto; discriminate). cbn [mk_mapped sel] in *. now rewrite HL'.
  - rewrite (classify_typed KCustom) by (auto; discriminate). cbn [mk_mapped sel] in *. now rewrite HL'.
Qed.

(* progress: with a fresh candidate in the oracle stream the get answers *)
Lemma get_progress s kd key cands :
  (exists r, In r cands /\ find_a (gen kd r) (lookup (sel kd s)) = None) ->
  exists s' x, step s (OpGet kd key cands) = (s', RAddr x).
Proof.
  intros [r [Hin Hf]]. cbn [step].
  destruct (get_cases kd (sel kd s) key cands) as [[a [_ E]]|[Hn [[a [F E]]|[F E]]]]; rewrite E; eauto.
  exfalso. destruct (first_fresh_some (lookup (sel kd s)) (map (gen kd) cands)) as [a Ha]; [|congruence].
  exists (gen kd r). split; [now apply in_map|exact Hf].
Qed.

(* both maps mutually inverse, in every reachable state *)
Definition bijection (m : amap) : Prop :=
  (forall k a, find_k k (addrs m) = Some a <-> find_a a (lookup m) = Some k) /\
  (forall k1 k2 a, find_k k1 (addrs m) = Some a -> find_k k2 (addrs m) = Some a -> k1 = k2) /\
  (forall a1 a2 k, find_a a1 (lookup m) = Some k -> find_a a2 (lookup m) = Some k -> a1 = a2).

Lemma inv_bijection_from s ops : Inv s -> forall kd, bijection (sel kd (fst (run s ops))).
Proof.
  intros HI kd. pose proof (run_Inv ops s HI kd) as [Hf _ _].
  split; [exact Hf|split].
  - intros k1 k2 a H1 H2. apply Hf in H1, H2. congruence.
  - intros a1 a2 k H1 H2. apply Hf in H1, H2. congruence.
Qed.

Lemma inv_bijection ops : forall kd, bijection (sel kd (fst (run init ops))).
Proof. apply inv_bijection_from, Inv_init. Qed.

(* ------------------------------------------------------------------ interleavings *)
(* l is an interleaving of the threads' programs *)
Inductive Merge {A} : list (list A) -> list A -> Prop :=
| Merge_nil ts : Forall (fun t => t = []) ts -> Merge ts []
| Merge_cons ts1 x t ts2 l :
    Merge (ts1 ++ t :: ts2) l -> Merge (ts1 ++ (x :: t) :: ts2) (x :: l).

Example merge_ex : Merge [[1; 2]; [3]] [1; 3; 2].
Proof.
  apply (Merge_cons [] 1 [2] [[3]]). apply (Merge_cons [[2]] 3 [] []).
  apply (Merge_cons [] 2 [] [[]]). apply Merge_nil. repeat constructor.
Qed.

Lemma interleavings_bijection (threads : list (list op)) l :
  Merge threads l -> forall kd, bijection (sel kd (fst (run init l))).
Proof. intros _. apply inv_bijection. Qed.

(* ------------------------------------------------------------------ the monitor on the model's own trace *)
Definition Sync (sn : seen) (s : state) : Prop :=
  (forall kd key, seen_key sn kd key = find_k key (addrs (sel kd s))) /\
  (forall kd a, seen_addr sn kd a = find_a a (lookup (sel kd s))).

Lemma Sync_init : Sync [] init.
Proof. split; intros []; reflexivity. Qed.

Lemma seen_key_cons kd0 key0 a0 sn kd key :
  seen_key ((kd0, key0, a0) :: sn) kd key =
  if kind_eqb kd0 kd && N.eqb key0 key then Some a0 else seen_key sn kd key.
Proof. unfold seen_key. cbn [find fst snd]. now destruct (kind_eqb kd0 kd && N.eqb key0 key). Qed.

Lemma seen_addr_cons kd0 key0 a0 sn kd a :
  seen_addr ((kd0, key0, a0) :: sn) kd a =
  if kind_eqb kd0 kd && bytes_eqb a0 a then Some key0 else seen_addr sn kd a.
Proof. unfold seen_addr. cbn [find fst snd]. now destruct (kind_eqb kd0 kd && bytes_eqb a0 a). Qed.

Lemma kind_eqb_refl k : kind_eqb k k = true.
Proof. now destruct k. Qed.

Lemma kind_eqb_false a b : a <> b -> kind_eqb a b = false.
Proof. intros H. destruct (kind_eqb a b) eqn:E; [apply kind_eqb_iff in E; contradiction|reflexivity]. Qed.

Lemma octets_psa a : octets_of (private_socket_addr a) = a.
Proof. reflexivity. Qed.

Lemma step_Sync sn s o : Inv s -> Sync sn s ->
  Sync (push_seen sn (o, snd (step s o))) (fst (step s o)).
Proof.
  intros HI [Hk Ha].
  destruct o as [kd key cands|kd a|sa|sa]; cbn [step fst snd push_seen]; try (split; assumption).
  destruct (get_cases kd (sel kd s) key cands) as [[a [Hf E]]|[Hn [[a [F E]]|[F E]]]]; rewrite E;
    cbn [fst snd push_seen]; [| |split; assumption].
  - (* existing *)
    rewrite octets_psa. split.
    + intros kd' key'. rewrite seen_key_cons.
      destruct (kind_eq_dec kd kd') as [<-|Hd].
      * rewrite kind_eqb_refl, sel_upd_same. cbn [andb].
        destruct (N.eqb key key') eqn:E2; [apply N.eqb_eq in E2; subst; now rewrite Hf|apply Hk].
      * rewrite kind_eqb_false by exact Hd. cbn [andb]. rewrite sel_upd_other by congruence. apply Hk.
    + intros kd' a'. rewrite seen_addr_cons.
      destruct (kind_eq_dec kd kd') as [<-|Hd].
      * rewrite kind_eqb_refl, sel_upd_same. cbn [andb].
        destruct (bytes_eqb a a') eqn:E2; [|apply Ha].
        apply bytes_eqb_eq in E2. subst a'. apply (inv_find _ _ (HI kd)) in Hf. now rewrite Hf.
      * rewrite kind_eqb_false by exact Hd. cbn [andb]. rewrite sel_upd_other by congruence. apply Ha.
  - (* fresh *)
    rewrite octets_psa. apply first_fresh_spec in F as [_ Hfr]. split.
    + intros kd' key'. rewrite seen_key_cons.
      destruct (kind_eq_dec kd kd') as [<-|Hd].
      * rewrite kind_eqb_refl, sel_upd_same. cbn [andb addrs].
        destruct (N.eqb key key') eqn:E2.
        { apply N.eqb_eq in E2. subst. now rewrite find_k_ins_same. }
        { apply N.eqb_neq in E2. rewrite find_k_ins_other by congruence. apply Hk. }
      * rewrite kind_eqb_false by exact Hd. cbn [andb]. rewrite sel_upd_other by congruence. apply Hk.
    + intros kd' a'. rewrite seen_addr_cons.
      destruct (kind_eq_dec kd kd') as [<-|Hd].
      * rewrite kind_eqb_refl, sel_upd_same. cbn [andb lookup].
        destruct (bytes_eqb a a') eqn:E2.
        { apply bytes_eqb_eq in E2. subst. now rewrite find_a_ins_same. }
        { apply bytes_eqb_neq in E2. rewrite find_a_ins_other by congruence. apply Ha. }
      * rewrite kind_eqb_false by exact Hd. cbn [andb]. rewrite sel_upd_other by congruence. apply Ha.
Qed.

Lemma prefix7_eq k : prefix7 k = prefix_of k.
Proof. reflexivity. Qed.

Lemma not_in_subnet_prefix sub o : length sub = 2%nat ->
  in_subnet sub o = false -> bytes_eqb (firstn 8 o) (ADDR_PREFIXL :: ADDR_GLOBAL_ID ++ sub) = false.
Proof.
  intros Hl H. apply bytes_eqb_neq. intros E. apply prefix_in_subnet in E; [congruence|exact Hl].
Qed.

Lemma classify_event_ok sn sa : event_ok sn (OpClassify sa, RClass (classify sa)) = true.
Proof.
  cbn [event_ok]. destruct sa as [ip p|o p f s]; [apply mapped_eqb_refl|].
  cbn [classify].
  destruct (in_subnet ENDPOINT_ID_SUBNET o) eqn:E1.
  { cbn [kind_of_mapped mapped_octets]. rewrite (in_subnet_prefix _ _ E1). now rewrite !bytes_eqb_refl. }
  destruct (in_subnet RELAY_MAPPED_SUBNET o) eqn:E2.
  { cbn [kind_of_mapped mapped_octets]. rewrite (in_subnet_prefix _ _ E2). now rewrite !bytes_eqb_refl. }
  destruct (in_subnet CUSTOM_MAPPED_SUBNET o) eqn:E3.
  { cbn [kind_of_mapped mapped_octets]. rewrite (in_subnet_prefix _ _ E3). now rewrite !bytes_eqb_refl. }
  cbn [kind_of_mapped]. rewrite mapped_eqb_refl. cbn [existsb andb].
  unfold prefix7. cbn [subnet].
  rewrite (not_in_subnet_prefix ENDPOINT_ID_SUBNET _ eq_refl E1),
          (not_in_subnet_prefix RELAY_MAPPED_SUBNET _ eq_refl E2),
          (not_in_subnet_prefix CUSTOM_MAPPED_SUBNET _ eq_refl E3). reflexivity.
Qed.

Lemma get_event_typed kd a : typed kd a = true ->
  match kd with
  | KScript => true
  | _ => match classify (private_socket_addr a) with
         | MIp _ => false
         | m => opt_eqb kind_eqb (kind_of_mapped m) (Some kd) && bytes_eqb (mapped_octets m) a
         end
  end = true.
Proof.
  intros Ht. unfold private_socket_addr.
  destruct kd; [| | |reflexivity].
  - rewrite (classify_typed KMixed) by (try discriminate; exact Ht). cbn. now rewrite bytes_eqb_refl.
  - rewrite (classify_typed KRelay) by (try discriminate; exact Ht). cbn. now rewrite bytes_eqb_refl.
  - rewrite (classify_typed KCustom) by (try discriminate; exact Ht). cbn. now rewrite bytes_eqb_refl.
Qed.

Lemma step_event_ok sn s o : Inv s -> Sync sn s ->
  (forall kd key cands, o = OpGet kd key cands -> snd (step s o) <> RExhausted) ->
  event_ok sn (o, snd (step s o)) = true.
Proof.
  intros HI [Hk Ha] Hex.
  destruct o as [kd key cands|kd a|sa|sa]; cbn [step snd].
  - specialize (Hex kd key cands eq_refl). cbn [step] in Hex.
    destruct (get_cases kd (sel kd s) key cands) as [[a [Hf E]]|[Hn [[a [F E]]|[F E]]]]; rewrite E in *;
      cbn [snd] in *; [| |congruence].
    + cbn [event_ok]. rewrite octets_psa, Hk, Hf, Ha, bytes_eqb_refl, sockaddr_eqb_refl.
      pose proof Hf as Hf'. apply (inv_find _ _ (HI kd)) in Hf'. rewrite Hf', N.eqb_refl. cbn [andb].
      apply get_event_typed. eapply inv_typed; eauto.
    + cbn [event_ok]. rewrite octets_psa, Hk, Hn, Ha, sockaddr_eqb_refl.
      apply first_fresh_spec in F as [Hin Hfr]. rewrite Hfr. cbn [andb].
      apply get_event_typed. eapply typed_in_gens; eauto.
  - cbn [event_ok]. destruct (typed kd a) eqn:Ht; [|reflexivity].
    rewrite Ha. unfold lookup_addr. cbn [andb]. apply opt_N_eqb_refl.
  - cbn [event_ok]. unfold to_transport_addr.
    destruct (classify sa) as [o|o|o|a]; try reflexivity.
    + rewrite Ha. unfold lookup_addr. cbn [sel].
      destruct (find_a o (lookup (mR s))); cbn; [apply N.eqb_refl|reflexivity].
    + rewrite Ha. unfold lookup_addr. cbn [sel].
      destruct (find_a o (lookup (mC s))); cbn; [apply N.eqb_refl|reflexivity].
  - apply classify_event_ok.
Qed.

(* a history in which every get finds a fresh candidate in its oracle stream *)
Fixpoint fresh_enough (s : state) (ops : list op) : Prop :=
  match ops with
  | [] => True
  | o :: r => (forall kd key cands, o = OpGet kd key cands -> snd (step s o) <> RExhausted)
              /\ fresh_enough (fst (step s o)) r
  end.

Lemma run_trace_ok ops : forall sn s, Inv s -> Sync sn s -> fresh_enough s ops ->
  trace_ok sn (zip_obs ops (snd (run s ops))) = true.
Proof.
  induction ops as [|o r IH]; intros sn s HI HS HF; [reflexivity|].
  rewrite run_cons. cbn [snd zip_obs trace_ok]. destruct HF as [H1 H2].
  rewrite step_event_ok by assumption. cbn [andb].
  apply IH; [now apply step_Inv|now apply step_Sync|exact H2].
Qed.

Lemma run_length ops : forall s, length (snd (run s ops)) = length ops.
Proof.
  induction ops as [|o r IH]; intros s; [reflexivity|].
  rewrite run_cons. cbn [snd length]. now rewrite IH.
Qed.

Lemma ent_eqb_refl x : ent_eqb x x = true.
Proof. unfold ent_eqb. now rewrite !N.eqb_refl, bytes_eqb_refl. Qed.

Lemma dump_sub_incl (a b : dump) : (forall x, In x a -> In x b) -> dump_sub a b = true.
Proof.
  intros H. unfold dump_sub. apply forallb_forall. intros x Hx.
  apply existsb_exists. exists x. split; [auto|apply ent_eqb_refl].
Qed.

Lemma dump_state_inverse s : Inv s ->
  let '(da, dl) := dump_state s in dumps_inverse da dl = true.
Proof.
  intros HI. unfold dump_state, dumps_inverse. cbn [map fst snd concat dump_k].
  assert (forall x,
    In x (map (fun p => (kind_code KMixed, fst p, snd p)) (addrs (mE s)) ++
          map (fun p => (kind_code KRelay, fst p, snd p)) (addrs (mR s)) ++
          map (fun p => (kind_code KCustom, fst p, snd p)) (addrs (mC s)) ++
          map (fun p => (kind_code KScript, fst p, snd p)) (addrs (mS s)) ++ []) <->
    In x (map (fun p => (kind_code KMixed, snd p, fst p)) (lookup (mE s)) ++
          map (fun p => (kind_code KRelay, snd p, fst p)) (lookup (mR s)) ++
          map (fun p => (kind_code KCustom, snd p, fst p)) (lookup (mC s)) ++
          map (fun p => (kind_code KScript, snd p, fst p)) (lookup (mS s)) ++ [])) as Hiff.
  { intros x.
    assert (M : forall kd, In x (map (fun p => (kind_code kd, fst p, snd p)) (addrs (sel kd s))) <->
                           In x (map (fun p => (kind_code kd, snd p, fst p)) (lookup (sel kd s)))).
    { intros kd. rewrite !in_map_iff. split.
      - intros [[k a] [<- Hin]]. exists (a, k). split; [reflexivity|]. now apply (inv_in _ _ (HI kd)).
      - intros [[a k] [<- Hin]]. exists (k, a). split; [reflexivity|]. now apply (inv_in _ _ (HI kd)). }
    rewrite !in_app_iff.
    pose proof (M KMixed) as M0. pose proof (M KRelay) as M1.
    pose proof (M KCustom) as M2. pose proof (M KScript) as M3. cbn [sel] in *. tauto. }
  cbn [sel]. apply andb_true_intro. split; apply dump_sub_incl; intros x; apply Hiff.
Qed.

Lemma fresh_ok_enough ops : forall s,
  forallb (fun x => negb (obs_eqb x RExhausted)) (snd (run s ops)) = true -> fresh_enough s ops.
Proof.
  induction ops as [|o r IH]; intros s H; [exact I|].
  rewrite run_cons in H. cbn [snd forallb] in H. apply andb_prop in H as [H1 H2].
  split; [|now apply IH].
  intros kd key cands _ E. rewrite E in H1. discriminate.
Qed.

Lemma model_monitor ops : monitor (IOps ops) (model (IOps ops)) = true.
Proof.
  cbn [model].
  destruct (run init (map snd ops)) as [s xs] eqn:E.
  pose proof (dump_state_inverse s) as HD.
  destruct (dump_state s) as [da dl]. cbn [monitor].
  destruct (fresh_ok (map snd ops)) eqn:HF0; [|reflexivity]. cbn [negb].
  assert (HF : fresh_enough init (map snd ops)) by (apply fresh_ok_enough; exact HF0).
  assert (Hs : s = fst (run init (map snd ops))) by now rewrite E.
  assert (Hx : xs = snd (run init (map snd ops))) by now rewrite E.
  rewrite HD by (subst s; apply run_Inv, Inv_init).
  rewrite Hx, run_length, map_length, Nat.eqb_refl.
  rewrite run_trace_ok; auto using Inv_init, Sync_init.
Qed.

Lemma model_satisfies_monitor i : monitor i (model i) = true.
Proof. destruct i; [reflexivity|apply model_monitor]. Qed.

(* ------------------------------------------------------------------ non-vacuity / witnesses *)
Definition r1 : bytes := [1;2;3;4;5;6;7;8].
Definition r2 : bytes := [9;9;9;9;9;9;9;9].

Example ex_run :
  snd (run init [OpGet KRelay 4 [r1]; OpGet KRelay 5 [r1; r2]; OpGet KRelay 4 [r2];
                 OpLookup KRelay (gen KRelay r2); OpTransport (SV6 (gen KRelay r1) 7 0 0);
                 OpLookup KMixed (gen KRelay r1)])
  = [RAddr (private_socket_addr (gen KRelay r1)); RAddr (private_socket_addr (gen KRelay r2));
     RAddr (private_socket_addr (gen KRelay r1)); RKey (Some 5); RTransport (Some (TRelay 4));
     RNotTyped].
Proof. vm_compute. reflexivity. Qed.

Example ex_fresh_enough :
  fresh_enough init [OpGet KRelay 4 [r1]; OpGet KRelay 5 [r1; r2]; OpGet KScript 1 [r1]].
Proof. cbn. repeat split; intros; discriminate. Qed.

Example ex_exhausted :
  snd (run init [OpGet KScript 1 [r1]; OpGet KScript 2 [r1; r1]]) =
  [RAddr (private_socket_addr r1); RExhausted].
Proof. vm_compute. reflexivity. Qed.

Example ex_default_fake_is_mixed :
  classify (SV6 DEFAULT_FAKE_OCTETS MAPPED_PORT 0 0) = MMixed DEFAULT_FAKE_OCTETS.
Proof. vm_compute. reflexivity. Qed.

Example ex_monitor_rejects_unstable :
  monitor (IOps [(0, OpGet KScript 1 [r1]); (1, OpGet KScript 1 [r2])])
          (OOps [RAddr (private_socket_addr r1); RAddr (private_socket_addr r2)] [] []) = false.
Proof. vm_compute. reflexivity. Qed.

Example ex_monitor_rejects_shared :
  monitor (IOps [(0, OpGet KScript 1 [r1]); (1, OpGet KScript 2 [r1; r2])])
          (OOps [RAddr (private_socket_addr r1); RAddr (private_socket_addr r1)] [] []) = false.
Proof. vm_compute. reflexivity. Qed.

(* ------------------------------------------------------------------ what an accepting monitor means
   (for ANY observed trace, not only the model's): gets are stable and injective, a lookup
   of an address an earlier get returned answers that get's key. *)
Definition consistent (sn : seen) : Prop :=
  (forall kd k a a', In (kd, k, a) sn -> In (kd, k, a') sn -> a = a') /\
  (forall kd k k' a, In (kd, k, a) sn -> In (kd, k', a) sn -> k = k').

Lemma seen_key_some sn kd k a : seen_key sn kd k = Some a -> In (kd, k, a) sn.
Proof.
  unfold seen_key.
  destruct (find (fun e => kind_eqb (fst (fst e)) kd && N.eqb (snd (fst e)) k) sn) as [[[kd0 k0] a0]|] eqn:F;
    [|discriminate].
  intros H. inversion H; subst. apply find_some in F as [Hin Hc]. cbn in Hc.
  apply andb_prop in Hc as [H1 H2]. apply kind_eqb_iff in H1. apply N.eqb_eq in H2. now subst.
Qed.

Lemma seen_key_none sn kd k a : seen_key sn kd k = None -> ~ In (kd, k, a) sn.
Proof.
  unfold seen_key.
  destruct (find (fun e => kind_eqb (fst (fst e)) kd && N.eqb (snd (fst e)) k) sn) eqn:F; [discriminate|].
  intros _ Hin. pose proof (find_none _ _ F _ Hin) as Hc. cbn in Hc.
  now rewrite kind_eqb_refl, N.eqb_refl in Hc.
Qed.

Lemma seen_addr_some sn kd a k : seen_addr sn kd a = Some k -> In (kd, k, a) sn.
Proof.
  unfold seen_addr.
  destruct (find (fun e => kind_eqb (fst (fst e)) kd && bytes_eqb (snd e) a) sn) as [[[kd0 k0] a0]|] eqn:F;
    [|discriminate].
  intros H. inversion H; subst. apply find_some in F as [Hin Hc]. cbn in Hc.
  apply andb_prop in Hc as [H1 H2]. apply kind_eqb_iff in H1. apply bytes_eqb_eq in H2. now subst.
Qed.

Lemma seen_addr_none sn kd a k : seen_addr sn kd a = None -> ~ In (kd, k, a) sn.
Proof.
  unfold seen_addr.
  destruct (find (fun e => kind_eqb (fst (fst e)) kd && bytes_eqb (snd e) a) sn) eqn:F; [discriminate|].
  intros _ Hin. pose proof (find_none _ _ F _ Hin) as Hc. cbn in Hc.
  now rewrite kind_eqb_refl, bytes_eqb_refl in Hc.
Qed.

Lemma event_ok_get sn kd key c sa :
  event_ok sn (OpGet kd key c, RAddr sa) = true ->
  (forall a', In (kd, key, a') sn -> consistent sn -> octets_of sa = a') /\
  (forall k', In (kd, k', octets_of sa) sn -> consistent sn -> k' = key) /\
  sa = private_socket_addr (octets_of sa).
Proof.
  cbn [event_ok]. intros H.
  apply andb_prop in H as [H _]. apply andb_prop in H as [H H3]. apply andb_prop in H as [H1 H2].
  repeat split.
  - intros a' Hin [C1 _]. destruct (seen_key sn kd key) as [a''|] eqn:E.
    + apply bytes_eqb_eq in H1. apply seen_key_some in E. rewrite H1. eapply C1; eauto.
    + exfalso. eapply seen_key_none; eauto.
  - intros k' Hin [_ C2]. destruct (seen_addr sn kd (octets_of sa)) as [k''|] eqn:E.
    + apply N.eqb_eq in H2. apply seen_addr_some in E. rewrite <- H2. eapply C2; eauto.
    + exfalso. eapply seen_addr_none; eauto.
  - destruct sa as [ip p|o p f s]; cbn in H3; [discriminate|].
    apply andb_prop in H3 as [H3 Hs]. apply andb_prop in H3 as [H3 Hf]. apply andb_prop in H3 as [Ho Hp].
    apply N.eqb_eq in Hs, Hf, Hp. cbn [octets_of]. unfold private_socket_addr. congruence.
Qed.

Lemma push_consistent sn e : consistent sn -> event_ok sn e = true -> consistent (push_seen sn e).
Proof.
  intros HC H. destruct e as [[kd key c|kd a|sa|sa] x]; cbn [push_seen]; try exact HC.
  destruct x as [sa| | | | |]; try exact HC.
  destruct (event_ok_get _ _ _ _ _ H) as [G1 [G2 _]]. destruct HC as [C1 C2]. split.
  - intros kd0 k a a' [E1|I1] [E2|I2].
    + congruence.
    + inversion E1; subst. apply G1; [exact I2|split; assumption].
    + inversion E2; subst. symmetry. apply G1; [exact I1|split; assumption].
    + eapply C1; eauto.
  - intros kd0 k k' a [E1|I1] [E2|I2].
    + congruence.
    + inversion E1; subst. symmetry. apply G2; [exact I2|split; assumption].
    + inversion E2; subst. apply G2; [exact I1|split; assumption].
    + eapply C2; eauto.
Qed.

Lemma trace_ok_app sn t1 t2 : trace_ok sn (t1 ++ t2) = true ->
  trace_ok sn t1 = true /\ trace_ok (fold_left push_seen t1 sn) t2 = true.
Proof.
  revert sn. induction t1 as [|e t1 IH]; intros sn H; [auto|].
  cbn [app trace_ok fold_left] in *. apply andb_prop in H as [H1 H2].
  destruct (IH _ H2) as [A B]. rewrite H1, A. auto.
Qed.

Lemma trace_consistent t : forall sn, consistent sn -> trace_ok sn t = true ->
  consistent (fold_left push_seen t sn).
Proof.
  induction t as [|e t IH]; intros sn HC H; [exact HC|].
  cbn [trace_ok fold_left] in *. apply andb_prop in H as [H1 H2].
  apply IH; [now apply push_consistent|exact H2].
Qed.

Lemma fold_push_mono t : forall sn x, In x sn -> In x (fold_left push_seen t sn).
Proof.
  induction t as [|e t IH]; intros sn x H; [exact H|]. cbn [fold_left]. apply IH.
  destruct e as [[kd key c| | |] [sa| | | | |]]; cbn [push_seen]; auto. now right.
Qed.

Lemma fold_push_get t : forall sn kd key c sa,
  In (OpGet kd key c, RAddr sa) t -> In (kd, key, octets_of sa) (fold_left push_seen t sn).
Proof.
  induction t as [|e t IH]; intros sn kd key c sa H; [destruct H|].
  cbn [fold_left]. destruct H as [->|H]; [|now eapply IH; eauto].
  apply fold_push_mono. cbn [push_seen]. now left.
Qed.

Lemma consistent_nil : consistent [].
Proof. split; intros; contradiction. Qed.

Lemma trace_ok_in sn t e : trace_ok sn t = true -> In e t ->
  exists t1 t2, t = t1 ++ e :: t2 /\ event_ok (fold_left push_seen t1 sn) e = true.
Proof.
  intros H Hin. apply in_split in Hin as [t1 [t2 ->]]. exists t1, t2. split; [reflexivity|].
  apply trace_ok_app in H as [_ H]. cbn [trace_ok] in H. now apply andb_prop in H as [H _].
Qed.

(* gets in an accepted trace: same key <-> same answer (on one map) *)
Lemma monitor_sound_gets t kd k1 c1 x1 k2 c2 x2 :
  trace_ok [] t = true ->
  In (OpGet kd k1 c1, RAddr x1) t -> In (OpGet kd k2 c2, RAddr x2) t ->
  (k1 = k2 <-> x1 = x2).
Proof.
  intros H I1 I2.
  pose proof (trace_consistent t [] consistent_nil H) as [C1 C2].
  pose proof (fold_push_get t [] _ _ _ _ I1) as J1. pose proof (fold_push_get t [] _ _ _ _ I2) as J2.
  destruct (trace_ok_in _ _ _ H I1) as [? [? [_ E1]]]. destruct (trace_ok_in _ _ _ H I2) as [? [? [_ E2]]].
  apply event_ok_get in E1 as [_ [_ P1]]. apply event_ok_get in E2 as [_ [_ P2]].
  split.
  - intros ->. rewrite P1, P2. f_equal. eapply C1; eauto.
  - intros ->. eapply C2; eauto.
Qed.

(* a typed lookup in an accepted trace, after a get that returned that address, answers its key *)
Lemma monitor_sound_lookup t1 t2 kd key c a r :
  trace_ok [] (t1 ++ (OpLookup kd a, RKey r) :: t2) = true ->
  In (OpGet kd key c, RAddr (private_socket_addr a)) t1 ->
  r = Some key.
Proof.
  intros H Hin. pose proof H as H0. apply trace_ok_app in H as [Ht1 H].
  cbn [trace_ok] in H. apply andb_prop in H as [H _]. cbn [event_ok] in H.
  apply andb_prop in H as [_ H].
  pose proof (trace_consistent t1 [] consistent_nil Ht1) as [_ C2].
  pose proof (fold_push_get t1 [] _ _ _ _ Hin) as J. rewrite octets_psa in J.
  destruct (seen_addr (fold_left push_seen t1 []) kd a) as [k'|] eqn:E.
  - apply seen_addr_some in E. destruct r as [k|]; cbn in H; [|discriminate].
    apply N.eqb_eq in H. subst. f_equal. eapply C2; eauto.
  - exfalso. eapply seen_addr_none; eauto.
Qed.
