(* C29 — proofs about the AddressLookupStream model. *)
From V Require Import Lib.Base Model.C29.
From Coq Require Import ZifyBool Permutation.
Import C29.
Open Scope N_scope.

(* ------------------------------------------------------------------ *)
(* Specification vocabulary                                            *)

Definition wrap (x : inner) : oev :=
  match x with IOk s q => OItem s q | IErr s q => OErr s q end.

Fixpoint errs_of (l : list inner) : list (N * N) :=
  match l with
  | IErr s q :: r => (s, q) :: errs_of r
  | _ :: r => errs_of r
  | [] => []
  end.

(* the single terminal element: NoResults(all errors) iff no item was produced *)
Definition terminal (l : list inner) : list oev :=
  if has_ok l then [] else [ONoResults (errs_of l)].

(* the first n polls of a stream that yields `l` and then `None` for ever *)
Fixpoint then_end (n : nat) (l : list oev) : list oev :=
  match n with
  | O => []
  | S n' => match l with
            | [] => OEnd :: then_end n' []
            | x :: r => x :: then_end n' r
            end
  end.

Lemma then_end_nil n : then_end n [] = repeat OEnd n.
Proof. induction n; cbn; congruence. Qed.

Lemma then_end_app l n : then_end (length l + n) l = l ++ repeat OEnd n.
Proof. induction l; cbn; [apply then_end_nil|]. now rewrite IHl. Qed.

Lemma then_end_firstn n l : then_end n l = firstn n (l ++ repeat OEnd n).
Proof.
  revert l; induction n as [|n IH]; intros l; [reflexivity|].
  destruct l as [|x r]; cbn [then_end app firstn].
  - rewrite then_end_nil. cbn. f_equal. clear. induction n; cbn; congruence.
  - rewrite IH. f_equal. cbn [repeat].
    (* firstn n (r ++ repeat n) = firstn n (r ++ OEnd :: repeat n) *)
    clear. revert r. induction n as [|n IH]; intros r; [reflexivity|].
    destruct r as [|y r]; cbn [app firstn repeat].
    + f_equal. clear. induction n; cbn; congruence.
    + f_equal. specialize (IH r). cbn [repeat] in *.
      (* both sides: firstn n of r ++ at least n OEnd *)
      assert (H : forall m k (r : list oev), (n <= m)%nat -> (n <= k)%nat ->
                firstn n (r ++ repeat OEnd m) = firstn n (r ++ repeat OEnd k)).
      { clear. induction n as [|n IH]; intros m k r Hm Hk; [reflexivity|].
        destruct r as [|y r]; cbn [app].
        - destruct m, k; try lia. cbn. f_equal. apply (IH m k []); lia.
        - cbn. f_equal. apply IH; lia. }
      apply (H (S n) (S (S n)) r); lia.
Qed.

(* ------------------------------------------------------------------ *)
(* poll_next                                                           *)

Lemma polls_closed n s : closed s = true -> polls n s = repeat OEnd n.
Proof.
  revert s; induction n as [|n IH]; intros s H; [reflexivity|].
  cbn [polls]. unfold poll_next. rewrite H. cbn. now rewrite IH.
Qed.

Lemma has_ok_cons_ok s q l : has_ok (IOk s q :: l) = true.
Proof. reflexivity. Qed.
Lemma has_ok_cons_err s q l : has_ok (IErr s q :: l) = has_ok l.
Proof. reflexivity. Qed.

(* general form: any accumulated errors / did_emit flag *)
Lemma polls_open : forall l errs de n,
  polls n (mkSt (Some l) errs de false) =
  then_end n (map wrap l ++
              (if de || has_ok l then [] else [ONoResults (errs ++ errs_of l)])).
Proof.
  induction l as [|x r IH]; intros errs de n.
  - destruct n as [|n]; [reflexivity|].
    cbn [polls]. unfold poll_next. cbn [closed streams did_emit errors].
    cbn [map app has_ok existsb errs_of]. rewrite orb_false_r, app_nil_r.
    destruct de; cbn [negb orb].
    + cbn [then_end]. rewrite polls_closed by reflexivity. now rewrite then_end_nil.
    + cbn [then_end]. rewrite polls_closed by reflexivity. now rewrite then_end_nil.
  - destruct n as [|n]; [reflexivity|].
    cbn [polls]. unfold poll_next. cbn [closed streams did_emit errors].
    destruct x as [s q|s q]; cbn [map wrap app then_end]; rewrite IH; f_equal.
    + rewrite has_ok_cons_ok, orb_true_r. reflexivity.
    + rewrite has_ok_cons_err. cbn [errs_of]. now rewrite <- app_assoc.
Qed.

Lemma polls_new l n : polls n (new l) = then_end n (map wrap l ++ terminal l).
Proof. unfold new, terminal. rewrite polls_open. reflexivity. Qed.

Lemma polls_empty n : polls n empty = then_end n [ONoService].
Proof.
  destruct n as [|n]; [reflexivity|].
  cbn [polls]. unfold poll_next, empty. cbn [closed streams then_end].
  rewrite polls_closed by reflexivity. now rewrite then_end_nil.
Qed.

(* what the stream yields over its whole life *)
Definition stream_out (ss : list svc) (l : list inner) : list oev :=
  match ss with
  | [] => [ONoService]
  | _ => map wrap l ++ terminal l
  end.

Lemma polls_resolve ss l n : polls n (resolve ss l) = then_end n (stream_out ss l).
Proof. destruct ss; [apply polls_empty | apply polls_new]. Qed.

(* ------------------------------------------------------------------ *)
(* Interleavings                                                       *)

Inductive Interleave {A} : list (list A) -> list A -> Prop :=
| il_nil ls : Forall (fun l => l = []) ls -> Interleave ls []
| il_cons l1 x xs l2 r :
    Interleave (l1 ++ xs :: l2) r -> Interleave (l1 ++ (x :: xs) :: l2) (x :: r).

Lemma concat_all_nil {A} (ls : list (list A)) : Forall (fun l => l = []) ls -> concat ls = [].
Proof. induction 1; cbn; [reflexivity|]. subst. assumption. Qed.

(* an interleaving yields every element of every list exactly once *)
Lemma interleave_perm {A} (ls : list (list A)) l : Interleave ls l -> Permutation (concat ls) l.
Proof.
  induction 1 as [ls H | l1 x xs l2 r _ IH].
  - now rewrite concat_all_nil.
  - rewrite concat_app in *. cbn [concat] in *.
    rewrite <- app_comm_cons. etransitivity; [symmetry; apply Permutation_middle|].
    now constructor.
Qed.

(* ... and keeps the order within each list: for a predicate that singles out the
   elements of the list at position k, filtering gives back that list. *)
Lemma interleave_filter {A} (f : nat -> A -> bool) (ls : list (list A)) l :
  Interleave ls l ->
  (forall k x, In x (nth k ls []) -> forall j, f j x = Nat.eqb j k) ->
  forall k, filter (f k) l = nth k ls [].
Proof.
  induction 1 as [ls H | l1 x xs l2 r _ IH]; intros Tag k.
  - cbn. symmetry.
    destruct (Nat.ltb_spec k (length ls)) as [Hk|Hk].
    + rewrite Forall_forall in H. apply H. now apply nth_In.
    + now apply nth_overflow.
  - assert (Hx : forall j, f j x = Nat.eqb j (length l1)).
    { apply (Tag (length l1) x). rewrite app_nth2, Nat.sub_diag by lia. now left. }
    assert (IH' : forall k, filter (f k) r = nth k (l1 ++ xs :: l2) []).
    { apply IH. intros k' y Hy j. apply (Tag k' y).
      destruct (Nat.ltb_spec k' (length l1)) as [Hk|Hk].
      - rewrite app_nth1 in * by lia. exact Hy.
      - rewrite app_nth2 in * by lia. destruct (k' - length l1)%nat; [now right | exact Hy]. }
    cbn [filter]. rewrite Hx, IH'.
    destruct (Nat.eqb_spec k (length l1)) as [->|Hne].
    + rewrite !app_nth2, Nat.sub_diag by lia. reflexivity.
    + destruct (Nat.ltb_spec k (length l1)) as [Hk|Hk].
      * now rewrite !app_nth1 by lia.
      * rewrite !app_nth2 by lia. destruct (k - length l1)%nat eqn:E; [lia | reflexivity].
Qed.

(* ------------------------------------------------------------------ *)
(* The executable merge only produces interleavings                    *)

Fixpoint inner_items (s q : N) (items : list (N * kind)) : list inner :=
  match items with
  | [] => []
  | (_, k) :: r => mk_inner s q k :: inner_items s (q + 1) r
  end.

Definition cur_items (c : cur) : list inner := inner_items (c_idx c) (c_pos c) (c_rest c).

(* the per-service streams handed to the merge (declining services contribute none) *)
Definition streams_of (ss : list svc) : list (list inner) := map cur_items (cursors 0 ss).

Lemma pop_split s cs t x cs' :
  pop s cs = Some (t, x, cs') ->
  exists c1 c c' c2 xs,
    cs = c1 ++ c :: c2 /\ cs' = c1 ++ c' :: c2 /\
    cur_items c = x :: xs /\ cur_items c' = xs /\
    c_idx c = s /\ c_idx c' = s /\
    c_end c' = c_end c /\ Forall (fun d => c_idx d <> s) c1.
Proof.
  revert t x cs'; induction cs as [|c r IH]; intros t x cs' H; [discriminate|].
  cbn [pop] in H. destruct (N.eqb_spec (c_idx c) s) as [E|E].
  - destruct (c_rest c) as [|[d k] items] eqn:R; [discriminate|]. inversion H; subst; clear H.
    exists [], c, (mkCur (c_idx c) (c_pos c + 1) (c_time c + d) items (c_end c)), r,
      (inner_items (c_idx c) (c_pos c + 1) items).
    repeat split; try reflexivity; auto.
    unfold cur_items. rewrite R. reflexivity.
  - destruct (pop s r) as [[[t' x'] r']|] eqn:P; [|discriminate]. inversion H; subst; clear H.
    destruct (IH _ _ _ eq_refl) as (c1 & c0 & c' & c2 & xs & -> & -> & H1 & H2 & H3 & H4 & H5 & H6).
    exists (c :: c1), c0, c', c2, xs. repeat split; auto.
Qed.

Lemma all_done_items cs : all_done cs = true -> Forall (fun l => l = []) (map cur_items cs).
Proof.
  induction cs as [|c r IH]; cbn; intros H; [constructor|].
  apply andb_prop in H as [H1 H2]. constructor; [|auto].
  unfold cur_items. destruct (c_rest c); [reflexivity | discriminate].
Qed.

Lemma merge_interleave : forall sched cs tl cs',
  merge cs sched = Some (tl, cs') -> all_done cs' = true ->
  Interleave (map cur_items cs) (map snd tl).
Proof.
  induction sched as [|s r IH]; intros cs tl cs' H D; cbn [merge] in H.
  - inversion H; subst. cbn. constructor. now apply all_done_items.
  - destruct (pop s cs) as [[[t x] cs1]|] eqn:P; [|discriminate].
    destruct (merge cs1 r) as [[l cs2]|] eqn:M; [|discriminate]. inversion H; subst; clear H.
    destruct (pop_split _ _ _ _ _ P) as (c1 & c & c' & c2 & xs & -> & -> & H1 & H2 & _).
    specialize (IH _ _ _ M D). rewrite map_app in *. cbn [map] in *.
    rewrite H1. rewrite H2 in IH. now constructor.
Qed.

(* ------------------------------------------------------------------ *)
(* The model's output satisfies the monitor                            *)

Lemma map_snd_stamp ts tend evs : map snd (stamp ts tend evs) = evs.
Proof. revert ts; induction evs as [|e r IH]; intros ts; [reflexivity|].
  cbn [stamp]. destruct ts; cbn; now rewrite IH. Qed.

Lemma is_inner_wrap x : is_inner (wrap x) = true.
Proof. now destruct x. Qed.

Lemma span_inner_wrap l tail :
  match tail with [] => True | e :: _ => is_inner e = false end ->
  span_inner (map wrap l ++ tail) = (map wrap l, tail).
Proof.
  intros Ht. induction l as [|x r IH]; cbn [map app].
  - destruct tail as [|e t]; [reflexivity|]. cbn [span_inner]. now rewrite Ht.
  - cbn [span_inner]. rewrite is_inner_wrap, IH. reflexivity.
Qed.

Lemma body_has_ok_wrap l : body_has_ok (map wrap l) = has_ok l.
Proof. unfold body_has_ok, has_ok. induction l as [|[s q|s q] r IH]; cbn in *; auto. Qed.

Lemma body_errs_wrap l : body_errs (map wrap l) = errs_of l.
Proof. induction l as [|[s q|s q] r IH]; cbn in *; congruence. Qed.

Lemma all_end_repeat n : all_end (repeat OEnd n) = true.
Proof. induction n; cbn; auto. Qed.

Lemma pairNN_eqb_refl x : pairNN_eqb x x = true.
Proof. unfold pairNN_eqb. now rewrite !N.eqb_refl. Qed.

Lemma oev_eqb_refl e : oev_eqb e e = true.
Proof.
  destruct e; cbn; rewrite ?N.eqb_refl; auto.
  apply list_eqb_refl, pairNN_eqb_refl.
Qed.

Lemma oev_eqb_eq a b : oev_eqb a b = true -> a = b.
Proof.
  destruct a, b; cbn; try discriminate; auto.
  - intros H; apply andb_prop in H as [H1 H2]. apply N.eqb_eq in H1, H2. congruence.
  - intros H; apply andb_prop in H as [H1 H2]. apply N.eqb_eq in H1, H2. congruence.
  - intros H. f_equal. revert H. apply list_eqb_eq. intros [a b] [c d]. unfold pairNN_eqb; cbn.
    intros H; apply andb_prop in H as [H1 H2]. apply N.eqb_eq in H1, H2. congruence.
Qed.

(* the service index carried by an inner element *)
Definition svc_of (x : inner) : N := match x with IOk s _ | IErr s _ => s end.

Lemma of_svc_wrap s x : of_svc s (wrap x) = N.eqb (svc_of x) s.
Proof. now destruct x. Qed.

Lemma filter_wrap s l : filter (of_svc s) (map wrap l) = map wrap (filter (fun x => N.eqb (svc_of x) s) l).
Proof. induction l as [|x r IH]; [reflexivity|]. cbn [map filter]. rewrite of_svc_wrap.
  destruct (N.eqb (svc_of x) s); cbn [map]; now rewrite IH. Qed.

Lemma expect_svc_inner s q items : expect_svc s q items = map wrap (inner_items s q items).
Proof. revert q; induction items as [|[d k] r IH]; intros q; [reflexivity|].
  cbn [expect_svc inner_items map]. destruct k; cbn [mk_inner wrap]; now rewrite IH. Qed.

Lemma inner_items_svc s q items x : In x (inner_items s q items) -> svc_of x = s.
Proof. revert q; induction items as [|[d k] r IH]; intros q; cbn; [tauto|].
  intros [<-|H]; [now destruct k | eauto]. Qed.

(* cursors built from the services: indices start at i, are increasing, below i + len *)
Lemma cursors_idx i ss c : In c (cursors i ss) -> i <= c_idx c < i + len ss.
Proof.
  revert i; induction ss as [|[[items e]|] r IH]; intros i; cbn [cursors In]; [tauto| |].
  - intros [<-|H]; cbn [c_idx]; unfold len in *; cbn [length]; [lia|]. apply IH in H. lia.
  - intros H. apply IH in H. unfold len in *; cbn [length]. lia.
Qed.

(* filtering an interleaving of the cursors' streams by a service index *)
Definition pick (s : N) (cs : list cur) : list inner :=
  match find (fun c => N.eqb (c_idx c) s) cs with
  | Some c => cur_items c
  | None => []
  end.

Lemma pop_pick s cs t x cs' :
  pop s cs = Some (t, x, cs') ->
  svc_of x = s /\ pick s cs = x :: pick s cs' /\ (forall s', s' <> s -> pick s' cs' = pick s' cs).
Proof.
  revert t x cs'; induction cs as [|c r IH]; intros t x cs' H; [discriminate|].
  cbn [pop] in H. unfold pick. cbn [find].
  destruct (N.eqb_spec (c_idx c) s) as [E|E].
  - destruct (c_rest c) as [|[d k] items] eqn:R; [discriminate|]. inversion H; subst; clear H.
    cbn [find c_idx]. rewrite N.eqb_refl. unfold cur_items. rewrite R. cbn [c_idx c_pos c_rest inner_items].
    split; [now destruct k|]. split; [reflexivity|].
    intros s' Hs'. destruct (N.eqb_spec (c_idx c) s'); [congruence | reflexivity].
  - destruct (pop s r) as [[[t' x'] r']|] eqn:P; [|discriminate]. inversion H; subst; clear H.
    destruct (IH _ _ _ eq_refl) as (H1 & H2 & H3). cbn [find].
    destruct (N.eqb_spec (c_idx c) s); [congruence|].
    split; [assumption|]. split; [exact H2|].
    intros s' Hs'. destruct (N.eqb (c_idx c) s'); [reflexivity | now apply H3].
Qed.

Lemma all_done_pick cs s : all_done cs = true -> pick s cs = [].
Proof.
  unfold pick. induction cs as [|c r IH]; cbn [find all_done forallb]; intros H; [reflexivity|].
  apply andb_prop in H as [H1 H2]. destruct (N.eqb (c_idx c) s); [|now apply IH].
  unfold cur_items. destruct (c_rest c); [reflexivity | discriminate].
Qed.

Lemma merge_filter : forall sched cs tl cs' s,
  merge cs sched = Some (tl, cs') -> all_done cs' = true ->
  filter (fun x => N.eqb (svc_of x) s) (map snd tl) = pick s cs.
Proof.
  induction sched as [|a r IH]; intros cs tl cs' s H D; cbn [merge] in H.
  - inversion H; subst. cbn. symmetry. now apply all_done_pick.
  - destruct (pop a cs) as [[[t x] cs1]|] eqn:P; [|discriminate].
    destruct (merge cs1 r) as [[l cs2]|] eqn:M; [|discriminate]. inversion H; subst; clear H.
    destruct (pop_pick _ _ _ _ _ P) as (H1 & H2 & H3).
    cbn [map snd filter]. rewrite (IH _ _ _ s M D), H1.
    destruct (N.eqb_spec a s) as [->|Hne]; [now rewrite H2 | now rewrite H3 by congruence].
Qed.

Lemma merge_range : forall sched cs tl cs' x,
  merge cs sched = Some (tl, cs') -> In x (map snd tl) ->
  exists c, In c cs /\ c_idx c = svc_of x.
Proof.
  induction sched as [|a r IH]; intros cs tl cs' x H Hin; cbn [merge] in H.
  - inversion H; subst. contradiction.
  - destruct (pop a cs) as [[[t y] cs1]|] eqn:P; [|discriminate].
    destruct (merge cs1 r) as [[l cs2]|] eqn:M; [|discriminate]. inversion H; subst; clear H.
    destruct (pop_split _ _ _ _ _ P) as (c1 & c & c' & c2 & xs & -> & -> & H1 & H2 & H3 & H4 & _).
    destruct (pop_pick _ _ _ _ _ P) as (Hy & _).
    cbn [map snd] in Hin. destruct Hin as [<-|Hin].
    + exists c. split; [apply in_elt | congruence].
    + destruct (IH _ _ _ _ M Hin) as (c0 & Hc0 & E). apply in_app_or in Hc0 as [Hc0|[<-|Hc0]].
      * exists c0. split; [apply in_or_app; now left | assumption].
      * exists c. split; [apply in_elt | congruence].
      * exists c0. split; [apply in_or_app; right; now right | assumption].
Qed.

Lemma pick_cursors_lt i ss s : s < i -> pick s (cursors i ss) = [].
Proof.
  intros Hs. unfold pick. destruct (find _ _) as [c|] eqn:F; [|reflexivity].
  apply find_some in F as [Hin E]. apply cursors_idx in Hin. apply N.eqb_eq in E. lia.
Qed.

Lemma svcs_ok_merge body : forall ss i,
  (forall s, filter (of_svc s) body = map wrap (pick s (cursors i ss)) \/ s < i) ->
  (forall s, i <= s -> filter (of_svc s) body = map wrap (pick s (cursors i ss))) ->
  svcs_ok i ss body = true.
Proof.
  induction ss as [|[[items e]|] r IH]; intros i _ H; [reflexivity| |].
  - cbn [svcs_ok]. apply andb_true_intro. split.
    + rewrite (H i) by lia. unfold pick. cbn [cursors find c_idx]. rewrite N.eqb_refl.
      unfold cur_items. cbn [c_idx c_pos c_rest]. rewrite expect_svc_inner.
      apply list_eqb_refl, oev_eqb_refl.
    + apply IH; [| intros s Hs; rewrite (H s) by lia; f_equal; unfold pick; cbn [cursors find c_idx];
                   destruct (N.eqb_spec i s); [lia | reflexivity] ].
      intros s. destruct (N.ltb_spec s (i + 1)); [now right|]. left.
      rewrite (H s) by lia. f_equal. unfold pick. cbn [cursors find c_idx].
      destruct (N.eqb_spec i s); [lia | reflexivity].
  - cbn [svcs_ok]. apply andb_true_intro. split.
    + assert (E : filter (of_svc i) body = []).
      { rewrite (H i) by lia. cbn [cursors]. now rewrite pick_cursors_lt by lia. }
      apply negb_true_iff. clear -E. induction body as [|b t IHb]; [reflexivity|].
      cbn [filter existsb] in *. destruct (of_svc i b); [discriminate | auto].
    + apply IH; [| intros s Hs; now rewrite (H s) by lia].
      intros s. destruct (N.ltb_spec s (i + 1)); [now right|]. left. now rewrite (H s) by lia.
Qed.

Lemma in_range_wrap n x : in_range n (wrap x) = (svc_of x <? n).
Proof. now destruct x. Qed.

Lemma model_monitor : forall i, valid i = true -> monitor i (model i) = true.
Proof.
  intros [[ss sched] extra]. unfold valid, model.
  destruct (merge (cursors 0 ss) sched) as [[tl cs]|] eqn:M; [|discriminate].
  destruct (all_done cs) eqn:D; cbn [negb]; [|discriminate]. intros _.
  cbn [monitor]. rewrite map_snd_stamp, polls_resolve.
  destruct ss as [|s0 ss'].
  - cbn [stream_out npolls]. cbn [Nat.add then_end]. rewrite then_end_nil. apply all_end_repeat.
  - set (ss := s0 :: ss') in *. set (l := map snd tl).
    assert (Hout : then_end (npolls ss l extra) (stream_out ss l) =
                   map wrap l ++ terminal l ++ OEnd :: repeat OEnd (N.to_nat extra)).
    { unfold ss at 1 2. cbn [npolls stream_out]. unfold terminal.
      destruct (has_ok l).
      - rewrite app_nil_r. cbn [app].
        replace (length l + 1 + N.to_nat extra)%nat with (length (map wrap l) + S (N.to_nat extra))%nat
          by (rewrite map_length; lia).
        rewrite then_end_app. reflexivity.
      - replace (length l + 2 + N.to_nat extra)%nat
          with (length (map wrap l ++ [ONoResults (errs_of l)]) + S (N.to_nat extra))%nat
          by (rewrite app_length, map_length; cbn; lia).
        rewrite then_end_app, <- app_assoc. reflexivity. }
    rewrite Hout. unfold ss at 1.
    rewrite span_inner_wrap by (unfold terminal; destruct (has_ok l); reflexivity).
    apply andb_true_intro. split; [apply andb_true_intro; split|].
    + apply forallb_forall. intros e He. apply in_map_iff in He as (x & <- & Hx).
      rewrite in_range_wrap. destruct (merge_range _ _ _ _ _ M Hx) as (c & Hc & E).
      apply cursors_idx in Hc. apply N.ltb_lt. unfold ss in *. lia.
    + apply svcs_ok_merge; [intros s; left | intros s _];
        rewrite filter_wrap; f_equal; exact (merge_filter _ _ _ _ s M D).
    + unfold terminal. rewrite body_has_ok_wrap, body_errs_wrap.
      destruct (has_ok l); cbn [app negb andb].
      * apply all_end_repeat.
      * rewrite (list_eqb_refl _ pairNN_eqb_refl). apply all_end_repeat.
Qed.

(* ------------------------------------------------------------------ *)
(* Main theorem                                                        *)

Lemma stream_spec : forall (ss : list svc) (l : list inner) (n : nat),
  Interleave (streams_of ss) l ->
  polls n (resolve ss l) =
    then_end n (match ss with
                | [] => [ONoService]
                | _ => map wrap l ++ (if has_ok l then [] else [ONoResults (errs_of l)])
                end)
  /\ Permutation (concat (streams_of ss)) l.
Proof.
  intros ss l n H. split; [apply polls_resolve | now apply interleave_perm].
Qed.

Lemma model_in_spec : forall ss sched extra out,
  model (ss, sched, extra) = Ok out ->
  exists l, Interleave (streams_of ss) l /\
            map snd out = polls (npolls ss l extra) (resolve ss l).
Proof.
  intros ss sched extra out. unfold model.
  destruct (merge (cursors 0 ss) sched) as [[tl cs]|] eqn:M; [|discriminate].
  destruct (all_done cs) eqn:D; cbn [negb]; [|discriminate]. intros H; inversion H; subst.
  exists (map snd tl). split; [exact (merge_interleave _ _ _ _ M D) | apply map_snd_stamp].
Qed.

(* poll after the end: None, and the stream stays ended *)
Lemma after_end : forall s, closed s = true -> poll_next s = (OEnd, s).
Proof. intros s H. unfold poll_next. now rewrite H. Qed.

(* once a poll returned None or a failure, the stream is closed *)
Lemma terminal_closes : forall s e s',
  poll_next s = (e, s') -> is_inner e = false -> closed s' = true.
Proof.
  intros s e s'. unfold poll_next. destruct (closed s) eqn:C.
  - intros H; inversion H; subst; auto.
  - destruct (streams s) as [[|[a q|a q] r]|]; [destruct (negb (did_emit s))| | |];
      intros H; inversion H; subst; cbn; auto; discriminate.
Qed.

Lemma nth_map_cur k cs c : nth_error cs k = Some c -> nth k (map cur_items cs) [] = cur_items c.
Proof. revert k; induction cs as [|d r IH]; intros [|k] H; try discriminate; cbn in *.
  - now inversion H.
  - now apply IH. Qed.

(* per-service order: the elements of service k appear in l in that service's order *)
Lemma per_service_order : forall ss l,
  Interleave (streams_of ss) l ->
  forall s, filter (fun x => N.eqb (svc_of x) s) l = pick s (cursors 0 ss).
Proof.
  intros ss l H s.
  (* via the generic lemma, with positions in the cursor list as tags *)
  set (cs := cursors 0 ss) in *.
  assert (Hidx : forall k c, nth_error cs k = Some c -> forall k' c', nth_error cs k' = Some c' ->
                 c_idx c = c_idx c' -> k = k').
  { unfold cs. clear. generalize 0 as i. induction ss as [|[[items e]|] r IH]; intros i k c Hk k' c' Hk' E.
    - destruct k; discriminate.
    - cbn [cursors] in *. destruct k, k'; cbn [nth_error] in *.
      + reflexivity.
      + inversion Hk; subst. apply nth_error_In, cursors_idx in Hk'. cbn in E. lia.
      + inversion Hk'; subst. apply nth_error_In, cursors_idx in Hk. cbn in E. lia.
      + f_equal. eapply IH; eauto.
    - cbn [cursors] in *. eapply IH; eauto. }
  set (f := fun (k : nat) (x : inner) =>
              match nth_error cs k with Some c => N.eqb (svc_of x) (c_idx c) | None => false end).
  destruct (find (fun c => N.eqb (c_idx c) s) cs) as [c|] eqn:F.
  - (* position of c *)
    assert (Hc : exists k, nth_error cs k = Some c /\
                 forall k' c', (k' < k)%nat -> nth_error cs k' = Some c' -> c_idx c' <> s).
    { clear -F. induction cs as [|d r IH]; [discriminate|]. cbn [find] in F.
      destruct (N.eqb_spec (c_idx d) s).
      - inversion F; subst. exists 0%nat. split; [reflexivity|]. intros; lia.
      - destruct (IH F) as (k & Hk & Hlt). exists (S k). split; [exact Hk|].
        intros [|k'] c' Hl Hn; cbn in Hn; [inversion Hn; subst; assumption|]. eapply Hlt; eauto; lia. }
    destruct Hc as (k & Hk & _).
    apply find_some in F as [_ Es]. apply N.eqb_eq in Es.
    assert (Hp : pick s cs = cur_items c).
    { unfold pick. destruct (find (fun c0 => N.eqb (c_idx c0) s) cs) eqn:F'; [|].
      - apply find_some in F' as [Hin E']. apply N.eqb_eq in E'.
        apply In_nth_error in Hin as (k' & Hk').
        assert (k = k') by (eapply Hidx; eauto; congruence). subst. congruence.
      - apply nth_error_In in Hk. eapply find_none in F'; eauto. apply N.eqb_neq in F'. congruence. }
    rewrite Hp.
    assert (G := interleave_filter f (map cur_items cs) l H).
    assert (Hnth : nth k (map cur_items cs) [] = cur_items c) by (now apply nth_map_cur).
    rewrite <- Hnth, <- G.
    + apply filter_ext. intros x. unfold f. rewrite Hk. now rewrite Es.
    + intros k0 x Hx j. unfold f.
      destruct (nth_error cs k0) as [c0|] eqn:K0.
      * assert (Hx' : In x (cur_items c0)) by (now rewrite (nth_map_cur _ _ _ K0) in Hx).
        apply inner_items_svc in Hx'.
        destruct (nth_error cs j) as [cj|] eqn:Kj.
        -- destruct (N.eqb_spec (svc_of x) (c_idx cj)) as [E|E].
           ++ symmetry. apply Nat.eqb_eq. eapply Hidx; eauto. congruence.
           ++ symmetry. apply Nat.eqb_neq. intros ->. congruence.
        -- symmetry. apply Nat.eqb_neq. intros ->. congruence.
      * apply nth_error_None in K0. rewrite nth_overflow in Hx by (now rewrite map_length). contradiction.
  - (* no cursor for s: nothing of service s in l *)
    unfold pick. fold cs. rewrite F.
    assert (P := interleave_perm _ _ H).
    destruct (filter _ l) as [|x t] eqn:E; [reflexivity|]. exfalso.
    assert (Hin : In x (filter (fun x0 => N.eqb (svc_of x0) s) l)) by (rewrite E; now left).
    apply filter_In in Hin as [Hin Hs]. apply N.eqb_eq in Hs.
    apply (Permutation_in _ (Permutation_sym P)) in Hin. apply in_concat in Hin as (li & Hli & Hx).
    apply in_map_iff in Hli as (c & <- & Hc). apply inner_items_svc in Hx.
    eapply find_none in F; eauto. apply N.eqb_neq in F. congruence.
Qed.

(* ------------------------------------------------------------------ *)
(* What a passing monitor says about an observed output                *)

Definition svc_events (s : N) (v : svc) : list oev :=
  match v with None => [] | Some (items, _) => expect_svc s 0 items end.

Definition out_spec (ss : list svc) (evs : list oev) : Prop :=
  match ss with
  | [] => exists n, evs = ONoService :: OEnd :: repeat OEnd n
  | _ => exists body n,
      evs = body ++ (if body_has_ok body then [] else [ONoResults (body_errs body)])
                 ++ OEnd :: repeat OEnd n /\
      Forall (fun e => is_inner e = true /\ in_range (len ss) e = true) body /\
      forall k, (k < length ss)%nat ->
        filter (of_svc (N.of_nat k)) body = svc_events (N.of_nat k) (nth k ss None)
  end.

Lemma all_end_repeat_inv r : all_end r = true -> r = repeat OEnd (length r).
Proof. induction r as [|e r IH]; [reflexivity|]. cbn. destruct e; try discriminate. intros H. f_equal. auto. Qed.

Lemma span_inner_spec evs body tail :
  span_inner evs = (body, tail) -> evs = body ++ tail /\ Forall (fun e => is_inner e = true) body.
Proof.
  revert body tail; induction evs as [|e r IH]; intros body tail H; cbn [span_inner] in H.
  - inversion H; subst. split; [reflexivity | constructor].
  - destruct (is_inner e) eqn:E.
    + destruct (span_inner r) as [a b]. inversion H; subst. destruct (IH _ _ eq_refl) as [-> F].
      split; [reflexivity | now constructor].
    + inversion H; subst. split; [reflexivity | constructor].
Qed.

Lemma svcs_ok_spec body : forall ss i, svcs_ok i ss body = true ->
  forall k, (k < length ss)%nat ->
    filter (of_svc (i + N.of_nat k)) body = svc_events (i + N.of_nat k) (nth k ss None).
Proof.
  induction ss as [|v r IH]; intros i H k Hk; [cbn in Hk; lia|].
  cbn [svcs_ok] in H. destruct v as [[items e]|]; apply andb_prop in H as [H1 H2].
  - destruct k as [|k].
    + cbn [nth svc_events]. replace (i + N.of_nat 0) with i by lia.
      revert H1. apply list_eqb_eq. apply oev_eqb_eq.
    + cbn [nth]. replace (i + N.of_nat (S k)) with (i + 1 + N.of_nat k) by lia.
      apply IH; [assumption | cbn in Hk; lia].
  - destruct k as [|k].
    + cbn [nth svc_events]. replace (i + N.of_nat 0) with i by lia.
      apply negb_true_iff in H1. clear -H1. induction body as [|b t IHb]; [reflexivity|].
      cbn [existsb filter] in *. apply orb_false_iff in H1 as [-> H]. auto.
    + cbn [nth]. replace (i + N.of_nat (S k)) with (i + 1 + N.of_nat k) by lia.
      apply IH; [assumption | cbn in Hk; lia].
Qed.

Lemma monitor_sound : forall ss sched extra tevs,
  monitor (ss, sched, extra) (Ok tevs) = true -> out_spec ss (map snd tevs).
Proof.
  intros ss sched extra tevs. cbn [monitor]. set (evs := map snd tevs). clearbody evs.
  destruct ss as [|v ss'].
  - cbn [out_spec]. destruct evs as [|[] [|[] r]]; try discriminate.
    intros H. exists (length r). do 2 f_equal. now apply all_end_repeat_inv.
  - set (ss := v :: ss'). destruct (span_inner evs) as [body tail] eqn:S.
    destruct (span_inner_spec _ _ _ S) as [-> Fi].
    intros H. apply andb_prop in H as [H H3]. apply andb_prop in H as [H1 H2].
    unfold out_spec, ss at 1. exists body.
    assert (Hb : Forall (fun e => is_inner e = true /\ in_range (len ss) e = true) body).
    { rewrite Forall_forall in *. rewrite forallb_forall in H1. auto. }
    assert (Hs : forall k, (k < length ss)%nat ->
                 filter (of_svc (N.of_nat k)) body = svc_events (N.of_nat k) (nth k ss None)).
    { intros k Hk. exact (svcs_ok_spec body ss 0 H2 k Hk). }
    destruct tail as [|[] r]; try discriminate.
    + destruct r as [|[] r]; try discriminate.
      apply andb_prop in H3 as [H3 H5]. apply andb_prop in H3 as [H3 H4].
      apply negb_true_iff in H3. rewrite H3.
      assert (errs = body_errs body).
      { revert H4. apply list_eqb_eq. intros [a b] [c d]. unfold pairNN_eqb; cbn.
        intros E; apply andb_prop in E as [E1 E2]. apply N.eqb_eq in E1, E2. congruence. }
      subst errs. exists (length r). split; [|split; assumption].
      cbn [app]. do 3 f_equal. now apply all_end_repeat_inv.
    + apply andb_prop in H3 as [H3 H4]. rewrite H3.
      exists (length r). split; [|split; assumption].
      cbn [app]. do 2 f_equal. now apply all_end_repeat_inv.
Qed.

(* ------------------------------------------------------------------ *)
(* Non-vacuity / witnesses                                             *)

Example ex_services : list svc :=
  [Some ([(0, KErr); (5, KOk)], 1); None; Some ([(2, KErr)], 0)].

Example ex_valid : valid (ex_services, [0; 2; 0], 2) = true.
Proof. vm_compute. reflexivity. Qed.

Example ex_model :
  model (ex_services, [0; 2; 0], 1) =
  Ok [(0, OErr 0 0); (2, OErr 2 0); (5, OItem 0 1); (6, OEnd); (6, OEnd)].
Proof. vm_compute. reflexivity. Qed.

Example ex_no_results :
  model ([Some ([(3, KErr)], 0); Some ([(1, KErr)], 9)], [1; 0], 0) =
  Ok [(1, OErr 1 0); (3, OErr 0 0); (10, ONoResults [(1, 0); (0, 0)]); (10, OEnd)].
Proof. vm_compute. reflexivity. Qed.

Example ex_interleave : Interleave (streams_of ex_services) [IErr 0 0; IErr 2 0; IOk 0 1].
Proof.
  unfold streams_of, ex_services. cbn.
  apply (il_cons [] (IErr 0 0) [IOk 0 1] [[IErr 2 0]]). cbn.
  apply (il_cons [[IOk 0 1]] (IErr 2 0) [] []). cbn.
  apply (il_cons [] (IOk 0 1) [] [[]]). cbn.
  constructor. repeat constructor.
Qed.

(* the monitor rejects: a dropped element, a missing terminal, a second terminal,
   an element after the end, NoResults although an item was yielded *)
Example mon_rejects :
  let i := (ex_services, [0; 2; 0], 0) in
  monitor i (Ok [(0, OErr 0 0); (5, OItem 0 1); (6, OEnd)]) = false /\
  monitor ([Some ([(0, KErr)], 0)], [0], 0) (Ok [(0, OErr 0 0); (0, OEnd)]) = false /\
  monitor ([Some ([(0, KErr)], 0)], [0], 0)
          (Ok [(0, OErr 0 0); (0, ONoResults [(0, 0)]); (0, ONoResults [(0, 0)]); (0, OEnd)]) = false /\
  monitor i (Ok [(0, OErr 0 0); (2, OErr 2 0); (5, OItem 0 1); (6, OEnd); (6, OItem 0 1)]) = false /\
  monitor i (Ok [(0, OErr 0 0); (2, OErr 2 0); (5, OItem 0 1); (6, ONoResults [(0, 0); (2, 0)]); (6, OEnd)]) = false /\
  monitor ([], [], 0) (Ok [(0, ONoResults []); (0, OEnd)]) = false.
Proof. vm_compute. repeat split. Qed.
