(* C15 — lemmas. *)
From V Require Import Lib.Base Gen.Consts Model.C15.
Import C15.
Open Scope N_scope.

Lemma pick_min_nil ds : pick_min ds = None -> ds = [].
Proof.
  destruct ds as [|d r]; [reflexivity|]. cbn.
  destruct (pick_min r) as [[e r']|]; [destruct (dend e <? dend d)|]; discriminate.
Qed.

Ltac break_if := match goal with |- context[if ?c then _ else _] => destruct c end.

Lemma on_stream_not_stuck p s t s' : on_stream p s t <> Stuck s'.
Proof. unfold on_stream. destruct (rest s) as [|[t0 [a|c]] r0]; discriminate. Qed.
Lemma on_dial_not_stuck s t d r s' : on_dial s t d r <> Stuck s'.
Proof. unfold on_dial. destruct (dres d); discriminate. Qed.

Lemma select_stuck sc s s' : select sc s = Stuck s' ->
  dials s = [] /\ fin s = true /\ timer s = None.
Proof.
  unfold select. cbv zeta.
  destruct (pick_min (dials s)) as [[d r]|] eqn:PM.
  - destruct (fin s), (timer s); cbn [le_opt andb]; repeat break_if; intros H; exfalso;
      try (now apply on_dial_not_stuck in H); try (now apply on_stream_not_stuck in H);
      try discriminate.
  - apply pick_min_nil in PM.
    destruct (fin s), (timer s); cbn [le_opt andb]; repeat break_if; intros H; try (exfalso;
      try (now apply on_dial_not_stuck in H); try (now apply on_stream_not_stuck in H);
      discriminate). auto.
Qed.

Lemma pop_family_some q w : q <> [] -> exists x, pop_family q w = Some x.
Proof.
  destruct q as [|a q]; [congruence|]. intros _. unfold pop_family.
  destruct (find_fam w (a :: q)) as [[b r]|]; eauto.
Qed.

(* after the loop top: the timer is set or the queue is empty *)
Lemma top_post s : timer (top s) <> None \/ queue (top s) = [].
Proof.
  unfold top. destruct (timer s) eqn:T.
  - left. rewrite T. discriminate.
  - destruct (queue s) as [|a q] eqn:Q.
    + cbn. right. exact Q.
    + destruct (pop_family_some (a :: q) (want6 s)) as [[[b r] w] P]; [discriminate|].
      rewrite P. cbn. left. discriminate.
Qed.

Lemma no_deadlock sc s s' : step sc s <> Stuck s'.
Proof.
  unfold step. destruct (exhausted s) eqn:E; [discriminate|].
  intros H. apply select_stuck in H as (D & F & T).
  unfold top in *. destruct (timer s) eqn:Ts; [congruence|].
  destruct (queue s) as [|a q] eqn:Q.
  - cbn in *. unfold exhausted in E. rewrite Q, D, F in E. discriminate.
  - destruct (pop_family_some (a :: q) (want6 s)) as [[[b r] w] P]; [discriminate|].
    rewrite P in *. cbn in *. discriminate.
Qed.
