(* C15 — lemmas. *)
From Coq Require Import Permutation.
From V Require Import Lib.Base Gen.Consts Model.C15.
Import C15.
Open Scope N_scope.

(* ------------------------------------------------------------ small facts *)
Lemma pick_min_nil ds : pick_min ds = None -> ds = [].
Proof.
  destruct ds as [|d r]; [reflexivity|]. cbn.
  destruct (pick_min r) as [[e r']|]; [destruct (dend e <? dend d)|]; discriminate.
Qed.

Lemma pick_min_spec ds : forall d r, pick_min ds = Some (d, r) ->
  Permutation ds (d :: r) /\ (forall e, In e r -> dend d <= dend e).
Proof.
  induction ds as [|x ds IH]; intros d r H; [discriminate|]. cbn in H.
  destruct (pick_min ds) as [[e r']|] eqn:PM.
  - destruct (IH e r' eq_refl) as [P M].
    destruct (dend e <? dend x) eqn:L; inversion H; subst; clear H.
    + split.
      * eapply perm_trans; [apply perm_skip, P|]. apply perm_swap.
      * intros y [<-|Hy]; [apply N.ltb_lt in L; lia|]. auto.
    + split; [reflexivity|]. apply N.ltb_ge in L.
      intros y Hy. apply (Permutation_in _ P) in Hy. destruct Hy as [<-|Hy]; [assumption|].
      specialize (M _ Hy). lia.
  - apply pick_min_nil in PM. subst. inversion H; subst. split; [reflexivity|]. intros e [].
Qed.

Lemma find_fam_spec w q : forall a r, find_fam w q = Some (a, r) ->
  Permutation q (a :: r) /\ v6 a = w.
Proof.
  induction q as [|x q IH]; intros a r H; [discriminate|]. cbn in H.
  destruct (Bool.eqb (v6 x) w) eqn:E.
  - inversion H; subst. split; [reflexivity|]. now apply eqb_prop.
  - destruct (find_fam w q) as [[b r']|]; [|discriminate]. inversion H; subst.
    destruct (IH a r' eq_refl) as [P F]. split; [|assumption].
    eapply perm_trans; [apply perm_skip, P|]. apply perm_swap.
Qed.

Lemma find_fam_none w q : find_fam w q = None -> forall b, In b q -> v6 b <> w.
Proof.
  induction q as [|x q IH]; intros H b Hb; [destruct Hb|]. cbn in H.
  destruct (Bool.eqb (v6 x) w) eqn:E; [discriminate|].
  destruct (find_fam w q) as [[c r']|]; [discriminate|].
  destruct Hb as [<-|Hb]; [|now apply IH].
  intros F. rewrite F, eqb_reflx in E. discriminate.
Qed.

Lemma pop_family_spec q w a r w' : pop_family q w = Some (a, r, w') ->
  Permutation q (a :: r) /\ w' = negb (v6 a) /\
  ((exists b, In b q /\ v6 b = w) -> v6 a = w).
Proof.
  unfold pop_family. destruct q as [|a0 q0]; [discriminate|].
  destruct (find_fam w (a0 :: q0)) as [[b r']|] eqn:F; intros H; inversion H; subst; clear H.
  - destruct (find_fam_spec _ _ _ _ F) as [P V]. auto.
  - split; [reflexivity|]. split; [reflexivity|].
    intros (b & Hb & Vb). exfalso. exact (find_fam_none _ _ F b Hb Vb).
Qed.

Lemma pop_family_some q w : q <> [] -> exists x, pop_family q w = Some x.
Proof.
  destruct q as [|a q]; [congruence|]. intros _. unfold pop_family.
  destruct (find_fam w (a :: q)) as [[b r]|]; eauto.
Qed.

Lemma dial_res_indep a s : snd (dial_end a s) = snd (dial_end a 0).
Proof. unfold dial_end. destruct (oc a) as [l|l|]; try destruct (l <=? DT); reflexivity. Qed.

Lemma dial_end_ge a s : s <= fst (dial_end a s).
Proof. unfold dial_end. destruct (oc a) as [l|l|]; try destruct (l <=? DT); cbn; lia. Qed.

Lemma dres_succ a t : dres (mkDial a t) = None <-> succ a = true.
Proof.
  unfold dres, succ. cbn. rewrite (dial_res_indep a t).
  destruct (snd (dial_end a 0)); split; congruence.
Qed.

Lemma addr_eqb_refl a : addr_eqb a a = true.
Proof.
  unfold addr_eqb. rewrite eqb_reflx, N.eqb_refl. cbn.
  destruct (oc a); cbn; auto using N.eqb_refl.
Qed.

(* ------------------------------------------------------------ the select, by cases *)
Ltac break_if := match goal with |- context[if ?c then _ else _] => destruct c end.

Lemma on_stream_not_stuck p s t s' : on_stream p s t <> Stuck s'.
Proof. unfold on_stream. destruct (rest s) as [|[t0 [a|c]] r0]; discriminate. Qed.
Lemma on_dial_not_stuck s t d r s' : on_dial s t d r <> Stuck s'.
Proof. unfold on_dial. destruct (dres d); discriminate. Qed.

Lemma select_stuck sc s s' : select sc s = Stuck s' ->
  dials s = [] /\ fin s = true /\ timer s = None.
Proof.
  unfold select. cbv zeta.
  destruct (pick_min (dials s)) as [[d r]|] eqn:PM.
  - destruct (fin s), (timer s); cbn [le_opt andb]; repeat break_if; intros H; exfalso;
      try (now apply on_dial_not_stuck in H); try (now apply on_stream_not_stuck in H);
      try discriminate.
  - apply pick_min_nil in PM.
    destruct (fin s), (timer s); cbn [le_opt andb]; repeat break_if; intros H; try (exfalso;
      try (now apply on_dial_not_stuck in H); try (now apply on_stream_not_stuck in H);
      discriminate). auto.
Qed.

Definition stime (sc : scenario) (s : st) : N :=
  match rest s with (t, _) :: _ => t | [] => tend sc end.

(* Which arm fires, with what the choice says about the times of the other arms. *)
Inductive sel_case (sc : scenario) (s : st) : stepres -> Prop :=
| SelDial d r t :
    pick_min (dials s) = Some (d, r) -> t = N.max (now s) (dend d) ->
    (fin s = false -> t <= N.max (now s) (stime sc s)) ->
    sel_case sc s (on_dial s t d r)
| SelStream t :
    fin s = false -> t = N.max (now s) (stime sc s) ->
    (forall d r, pick_min (dials s) = Some (d, r) -> t < N.max (now s) (dend d)) ->
    (forall dl, timer s = Some dl -> t <= N.max (now s) dl) ->
    sel_case sc s (on_stream (pref sc) s t)
| SelTimer dl t :
    timer s = Some dl -> t = N.max (now s) dl ->
    (forall d r, pick_min (dials s) = Some (d, r) -> t < N.max (now s) (dend d)) ->
    (fin s = false -> t < N.max (now s) (stime sc s)) ->
    sel_case sc s (on_timer s t)
| SelStuck : dials s = [] -> fin s = true -> timer s = None -> sel_case sc s (Stuck s).

Lemma select_cases sc s : sel_case sc s (select sc s).
Proof.
  unfold select. cbv zeta. fold (stime sc s).
  destruct (pick_min (dials s)) as [[d r]|] eqn:PM;
  destruct (fin s) eqn:F; destruct (timer s) as [dl|] eqn:T; cbn [le_opt andb];
  repeat match goal with |- context[?a <=? ?b] => destruct (N.leb_spec a b) end; cbn [andb];
  try (eapply SelDial; eauto; intros; try congruence; lia);
  try (eapply SelStream; eauto; intros; try congruence;
       repeat match goal with H : Some _ = Some _ |- _ => inversion H; subst; clear H end; lia);
  try (eapply SelTimer; eauto; intros; try congruence;
       repeat match goal with H : Some _ = Some _ |- _ => inversion H; subst; clear H end; lia).
  apply pick_min_nil in PM. now apply SelStuck.
Qed.

(* ------------------------------------------------------------ no deadlock *)
Lemma top_post s : timer (top s) <> None \/ queue (top s) = [].
Proof.
  unfold top. destruct (timer s) eqn:T.
  - left. rewrite T. discriminate.
  - destruct (queue s) as [|a q] eqn:Q.
    + cbn. right. exact Q.
    + destruct (pop_family_some (a :: q) (want6 s)) as [[[b r] w] P]; [discriminate|].
      rewrite P. cbn. left. discriminate.
Qed.

Lemma no_deadlock sc s s' : step sc s <> Stuck s'.
Proof.
  unfold step. destruct (exhausted s) eqn:E; [discriminate|].
  intros H0. apply select_stuck in H0 as (D & F & T).
  unfold top in *. destruct (timer s) eqn:Ts; [congruence|].
  destruct (queue s) as [|a q] eqn:Q.
  - cbn in *. unfold exhausted in E. rewrite Q, D, F in E. discriminate.
  - destruct (pop_family_some (a :: q) (want6 s)) as [[[b r] w] P]; [discriminate|].
    rewrite P in *. cbn in *. destruct (dials s); discriminate.
Qed.

(* ------------------------------------------------------------ the invariant *)
Definition addrs_of (s : stream) : list addr := map snd (stream_addrs s).

Lemma stream_addrs_app x y : stream_addrs (x ++ y) = stream_addrs x ++ stream_addrs y.
Proof.
  induction x as [|[t [a|c]] x IH]; cbn; [reflexivity| |assumption]. now rewrite IH.
Qed.
Lemma addrs_of_app x y : addrs_of (x ++ y) = addrs_of x ++ addrs_of y.
Proof. unfold addrs_of. now rewrite stream_addrs_app, map_app. Qed.

Record Inv (sc : scenario) (s : st) : Prop := mkInv {
  I_split : exists pre, items sc = pre ++ rest s /\
                        Permutation (addrs_of pre) (map snd (log s) ++ queue s);
  I_fin : fin s = true -> rest s = [] /\ tend sc <= now s;
  I_dlog : forall d, In d (dials s) -> In (dstart d, daddr d) (log s);
  I_log : forall t a, In (t, a) (log s) ->
            In (mkDial a t) (dials s) \/ (succ a = false /\ dend_at t a <= now s);
  I_fut : forall d, In d (dials s) -> now s <= dend d
}.

Lemma inv_init sc : Inv sc (init sc).
Proof.
  constructor; cbn.
  - exists []. split; [reflexivity|]. constructor.
  - discriminate.
  - intros d [].
  - intros t a [].
  - intros d [].
Qed.

Lemma inv_top sc s : Inv sc s -> Inv sc (top s).
Proof.
  intros [(pre & Hs & Hp) Hf Hd Hl Hfu]. unfold top.
  destruct (timer s); [now constructor; eauto|].
  destruct (pop_family (queue s) (want6 s)) as [[[a q] w]|] eqn:P; [|now constructor; eauto].
  apply pop_family_spec in P as (Pq & _ & _).
  constructor; cbn.
  - exists pre. split; [assumption|].
    eapply perm_trans; [exact Hp|].
    eapply perm_trans; [apply Permutation_app_head, Pq|].
    symmetry. apply Permutation_middle.
  - assumption.
  - intros d Hd'. apply in_app_or in Hd' as [Hd'|[<-|[]]]; [right; auto|left; reflexivity].
  - intros t b [E|Hb].
    + inversion E; subst. left. apply in_or_app. right. left. reflexivity.
    + destruct (Hl _ _ Hb) as [H|H]; [left; apply in_or_app; auto|right; assumption].
  - intros d Hd'. apply in_app_or in Hd' as [Hd'|[<-|[]]]; [auto|].
    unfold dend. cbn. apply dial_end_ge.
Qed.

(* time never goes back *)
Lemma select_next_mono sc s s' : select sc s = Next s' -> now s <= now s'.
Proof.
  destruct (select_cases sc s) as [d r t PM -> _|t F -> _ _|dl t T -> _ _|_ _ _]; intros H.
  - unfold on_dial in H. destruct (dres d); inversion H; subst; cbn; lia.
  - unfold on_stream in H. destruct (rest s) as [|[t0 [a|c]] r0]; inversion H; subst; cbn; lia.
  - inversion H; subst; cbn; lia.
  - discriminate.
Qed.

Lemma inv_select_next sc s s' : Inv sc s -> select sc s = Next s' -> Inv sc s'.
Proof.
  intros I H. pose proof I as [(pre & Hs & Hp) Hf Hd Hl Hfu].
  destruct (select_cases sc s) as [d r t PM Et Hts|t F Et Hd1 Ht1|dl t T Et Hd1 Hs1|]; [| | |discriminate].
  - (* an attempt fails *)
    unfold on_dial in H. destruct (dres d) as [c|] eqn:R; [|discriminate]. inversion H; subst s'; clear H.
    destruct (pick_min_spec _ _ _ PM) as [Pm Mn].
    assert (Hdd : In d (dials s)) by (apply (Permutation_in _ (Permutation_sym Pm)); left; reflexivity).
    assert (Et' : t = dend d) by (specialize (Hfu _ Hdd); lia).
    constructor; cbn.
    + eauto.
    + intros Fi. destruct (Hf Fi). split; [assumption|lia].
    + intros e He. apply Hd. apply (Permutation_in _ (Permutation_sym Pm)). right. assumption.
    + intros t0 a Ha. destruct (Hl _ _ Ha) as [Hi|[S L]].
      * apply (Permutation_in _ Pm) in Hi. destruct Hi as [Hi|Hi]; [subst d|left; assumption].
        right. split.
        -- destruct (succ a) eqn:Sa; [|reflexivity]. apply (proj2 (dres_succ a t0)) in Sa. congruence.
        -- rewrite Et'. unfold dend, dend_at. cbn. lia.
      * right. split; [assumption|lia].
    + intros e He. rewrite Et'. auto.
  - (* a stream item / the end of the stream *)
    assert (Hnow : forall e, In e (dials s) -> t <= dend e).
    { intros e He. destruct (pick_min (dials s)) as [[d r]|] eqn:PM.
      - destruct (pick_min_spec _ _ _ PM) as [Pm Mn]. specialize (Hd1 _ _ eq_refl).
        assert (In d (dials s)) by (apply (Permutation_in _ (Permutation_sym Pm)); left; reflexivity).
        pose proof (Hfu _ H0). apply (Permutation_in _ Pm) in He. destruct He as [<-|He]; [lia|].
        specialize (Mn _ He). lia.
      - apply pick_min_nil in PM. rewrite PM in He. destruct He. }
    unfold on_stream in H. unfold stime in Et.
    destruct (rest s) as [|[t0 [a|c]] r0] eqn:Rs; inversion H; subst s'; clear H.
    + constructor; cbn; eauto.
      * intros _. split; [reflexivity|lia].
      * intros t0 a Ha. destruct (Hl _ _ Ha) as [Hi|[S L]]; [left; assumption|right; split; [assumption|lia]].
    + constructor; cbn; eauto.
      * exists (pre ++ [(t0, IAddr a)]). split.
        -- rewrite <- app_assoc. cbn. rewrite Hs. reflexivity.
        -- rewrite addrs_of_app. cbn. rewrite app_assoc. apply Permutation_app_tail. assumption.
      * intros Fi. congruence.
      * intros t1 b Ha. destruct (Hl _ _ Ha) as [Hi|[S L]]; [left; assumption|right; split; [assumption|lia]].
    + constructor; cbn; eauto.
      * exists (pre ++ [(t0, IErr c)]). split.
        -- rewrite <- app_assoc. cbn. rewrite Hs. reflexivity.
        -- rewrite addrs_of_app. cbn. rewrite app_nil_r. assumption.
      * intros Fi. congruence.
      * intros t1 b Ha. destruct (Hl _ _ Ha) as [Hi|[S L]]; [left; assumption|right; split; [assumption|lia]].
  - (* the timer fires *)
    assert (Hnow : forall e, In e (dials s) -> t <= dend e).
    { intros e He. destruct (pick_min (dials s)) as [[d r]|] eqn:PM.
      - destruct (pick_min_spec _ _ _ PM) as [Pm Mn]. specialize (Hd1 _ _ eq_refl).
        assert (In d (dials s)) by (apply (Permutation_in _ (Permutation_sym Pm)); left; reflexivity).
        pose proof (Hfu _ H0). apply (Permutation_in _ Pm) in He. destruct He as [<-|He]; [lia|].
        specialize (Mn _ He). lia.
      - apply pick_min_nil in PM. rewrite PM in He. destruct He. }
    inversion H; subst s'; clear H. constructor; cbn; eauto.
    + intros Fi. destruct (Hf Fi). split; [assumption|lia].
    + intros t1 b Ha. destruct (Hl _ _ Ha) as [Hi|[S L]]; [left; assumption|right; split; [assumption|lia]].
Qed.

Lemma inv_step_next sc s s' : Inv sc s -> step sc s = Next s' -> Inv sc s'.
Proof.
  unfold step. destruct (exhausted s); [discriminate|]. intros I H.
  eapply inv_select_next; [apply inv_top; eassumption|eassumption].
Qed.

(* A run ends in a terminal step from a state satisfying the invariant. *)
Lemma run_end sc : forall f s r s', Inv sc s -> run f sc s = Some (r, s') ->
  exists s0, Inv sc s0 /\ step sc s0 = Done r s'.
Proof.
  induction f as [|f IH]; intros s r s' I H; [discriminate|]. cbn in H.
  destruct (step sc s) as [r0 s0|s0|s0] eqn:S.
  - inversion H; subst. eauto.
  - eapply IH; [|eassumption]. eapply inv_step_next; eassumption.
  - exfalso. exact (no_deadlock _ _ _ S).
Qed.

(* ------------------------------------------------------------ termination *)
Definition b2n (b : bool) : nat := if b then 1%nat else 0%nat.
Definition is_some {A} (o : option A) : bool := match o with Some _ => true | None => false end.
Definition is_nil {A} (l : list A) : bool := match l with [] => true | _ => false end.

(* Potential: every loop iteration that continues decreases it. *)
Definition phi (s : st) : nat :=
  (3 * length (rest s) + b2n (negb (fin s)) + 2 * length (queue s) + length (dials s)
   + b2n (is_some (timer s)) + b2n (negb (started s) && is_nil (queue s)))%nat.

Lemma phi_top s : (phi (top s) <= phi s)%nat.
Proof.
  unfold top. destruct (timer s) eqn:T; [lia|].
  destruct (pop_family (queue s) (want6 s)) as [[[a q] w]|] eqn:P; [|lia].
  apply pop_family_spec in P as (Pq & _ & _). apply Permutation_length in Pq.
  unfold phi. cbn. rewrite T, Pq, app_length. cbn.
  destruct (queue s); [discriminate|]. cbn. rewrite andb_false_r. cbn. lia.
Qed.

Lemma phi_select sc s s' : (timer s <> None \/ queue s = []) ->
  select sc s = Next s' -> (phi s' < phi s)%nat.
Proof.
  intros TP H.
  destruct (select_cases sc s) as [d r t PM Et Hts|t F Et Hd1 Ht1|dl t T Et Hd1 Hs1|]; [| | |discriminate].
  - unfold on_dial in H. destruct (dres d); [|discriminate]. inversion H; subst s'; clear H.
    destruct (pick_min_spec _ _ _ PM) as [Pm _]. apply Permutation_length in Pm.
    unfold phi. cbn. rewrite Pm. cbn.
    destruct r; cbn; destruct (timer s); cbn; lia.
  - unfold on_stream in H.
    destruct (rest s) as [|[t0 [a|c]] r0] eqn:Rs; inversion H; subst s'; clear H; unfold phi; cbn; rewrite ?Rs, ?F; cbn.
    + destruct (started s); cbn; destruct (timer s); cbn; lia.
    + rewrite app_length. cbn.
      assert (E : is_nil (queue s ++ [a]) = false) by (destruct (queue s); reflexivity).
      rewrite E, andb_false_r. cbn.
      destruct (started s) eqn:St; cbn.
      * destruct (timer s); cbn; lia.
      * destruct (Bool.eqb (pref sc) (v6 a)); cbn.
        -- destruct (timer s); cbn; lia.
        -- destruct (timer s) eqn:T; cbn; [lia|].
           destruct TP as [TP|TP]; [congruence|]. rewrite TP. cbn. lia.
    + lia.
  - inversion H; subst s'; clear H. unfold phi. cbn. rewrite T. cbn. lia.
Qed.

Lemma phi_step sc s s' : step sc s = Next s' -> (phi s' < phi s)%nat.
Proof.
  unfold step. destruct (exhausted s); [discriminate|]. intros H.
  apply phi_select in H; [|apply top_post]. pose proof (phi_top s). lia.
Qed.

Lemma run_terminates sc : forall f s, (phi s < f)%nat -> exists x, run f sc s = Some x.
Proof.
  induction f as [|f IH]; intros s L; [lia|]. cbn.
  destruct (step sc s) as [r0 s0|s0|s0] eqn:S; eauto.
  apply IH. apply phi_step in S. lia.
Qed.

Lemma fuel_suffices sc : exists r s, run (fuel_of sc) sc (init sc) = Some (r, s).
Proof.
  destruct (run_terminates sc (fuel_of sc) (init sc)) as [[r s] H]; [|eauto].
  unfold phi, fuel_of, init. cbn. lia.
Qed.

Lemma run_sc_end sc r s' : run_sc sc = (r, s') ->
  exists s0, Inv sc s0 /\ step sc s0 = Done r s'.
Proof.
  unfold run_sc. destruct (fuel_suffices sc) as (r0 & s0 & H). rewrite H.
  intros E; inversion E; subst. eapply run_end; [apply inv_init|eassumption].
Qed.

(* ------------------------------------------------------------ the terminal step *)
Lemma step_done sc s r s' : Inv sc s -> step sc s = Done r s' ->
  (exhausted s = true /\ s' = s /\ exists c, r = Err c) \/
  (exists d rs, Inv sc (top s) /\ pick_min (dials (top s)) = Some (d, rs) /\ dres d = None /\
     r = Ok (daddr d) /\ now s' = dend d /\ log s' = log (top s) /\ In d (dials (top s))).
Proof.
  intros I. unfold step. destruct (exhausted s) eqn:E.
  - intros H; inversion H; subst. left. eauto.
  - intros H. right. apply inv_top in I.
    destruct (select_cases sc (top s)) as [d r0 t PM Et Hts|t F Et Hd1 Ht1|dl t T Et Hd1 Hs1|]; [| | |discriminate].
    + unfold on_dial in H. destruct (dres d) eqn:R; [discriminate|]. inversion H; subst; clear H.
      destruct (pick_min_spec _ _ _ PM) as [Pm _].
      assert (Hdd : In d (dials (top s))) by (apply (Permutation_in _ (Permutation_sym Pm)); left; reflexivity).
      pose proof (I_fut _ _ I _ Hdd).
      exists d, r0. cbn. split; [assumption|]. split; [assumption|]. split; [assumption|].
      split; [reflexivity|]. split; [lia|]. split; [reflexivity|assumption].
    + unfold on_stream in H. destruct (rest (top s)) as [|[t0 [a|c]] r0]; discriminate.
    + discriminate.
Qed.

(* ------------------------------------------------------------ core theorems *)
(* Failure: every resolved address was attempted (exactly once). *)
Lemma all_attempted_or_won sc c s :
  run_sc sc = (Err c, s) -> Permutation (addrs_of (items sc)) (map snd (log s)).
Proof.
  intros H. apply run_sc_end in H as (s0 & I & S).
  apply step_done in S as [(E & -> & _)|(d & rs & _ & _ & _ & R & _)]; [|discriminate|assumption].
  destruct I as [(pre & Hs & Hp) Hf _ _ _].
  unfold exhausted in E. apply andb_prop in E as [E E3]. apply andb_prop in E as [E1 E2].
  destruct (Hf E1) as [Rn _]. rewrite Rn, app_nil_r in Hs. subst pre.
  destruct (queue s0); [|discriminate]. now rewrite app_nil_r in Hp.
Qed.

(* Failure: resolution had finished and every attempt had failed by then. *)
Lemma fails_only_when_exhausted sc c s :
  run_sc sc = (Err c, s) ->
  fin s = true /\ rest s = [] /\ tend sc <= now s /\ queue s = [] /\ dials s = [] /\
  forall t a, In (t, a) (log s) -> succ a = false /\ dend_at t a <= now s.
Proof.
  intros H. apply run_sc_end in H as (s0 & I & S).
  apply step_done in S as [(E & -> & _)|(d & rs & _ & _ & _ & R & _)]; [|discriminate|assumption].
  destruct I as [_ Hf _ Hl _].
  unfold exhausted in E. apply andb_prop in E as [E E3]. apply andb_prop in E as [E1 E2].
  destruct (Hf E1) as [Rn Tn].
  destruct (queue s0); [|discriminate]. destruct (dials s0) eqn:D; [|discriminate].
  repeat split; auto.
  - destruct (Hl _ _ H) as [[]|[? ?]]. assumption.
  - destruct (Hl _ _ H) as [[]|[? ?]]. assumption.
Qed.

(* Success: the returned address is a logged attempt that connected at the time of return,
   and no logged attempt connects earlier. *)
Lemma returns_first_success sc a s :
  run_sc sc = (Ok a, s) ->
  exists t, In (t, a) (log s) /\ succ a = true /\ dend_at t a = now s /\
    forall t' a', In (t', a') (log s) -> succ a' = true -> now s <= dend_at t' a'.
Proof.
  intros H. apply run_sc_end in H as (s0 & I & S).
  apply step_done in S as [(_ & _ & c & E)|(d & rs & I1 & PM & R & E & Nw & Lg & Hd)]; [discriminate| |assumption].
  inversion E; subst a; clear E. rewrite Lg, Nw.
  destruct (pick_min_spec _ _ _ PM) as [Pm Mn].
  exists (dstart d). split; [apply (I_dlog _ _ I1 _ Hd)|]. split.
  - destruct d as [a t]. cbn. apply (proj1 (dres_succ a t)). assumption.
  - split; [reflexivity|]. intros t' a' Hin Sa.
    destruct (I_log _ _ I1 _ _ Hin) as [Hi|[Sf _]]; [|congruence].
    apply (Permutation_in _ Pm) in Hi. destruct Hi as [->|Hi]; [unfold dend, dend_at; cbn; lia|].
    specialize (Mn _ Hi). unfold dend in Mn at 2. cbn in Mn. unfold dend_at. assumption.
Qed.

Lemma run_sc_not_panic sc s : run_sc sc <> (Panic, s).
Proof.
  intros H. apply run_sc_end in H as (s0 & I & S).
  apply step_done in S as [(_ & _ & c & E)|(d & rs & _ & _ & _ & E & _)]; [discriminate|discriminate|assumption].
Qed.

(* ------------------------------------------------------------ sorted streams *)
Fixpoint sorted (s : stream) : Prop :=
  match s with
  | [] => True
  | x :: r => (forall y, In y r -> fst x <= fst y) /\ sorted r
  end.

Lemma sorted_app_r x y : sorted (x ++ y) -> sorted y.
Proof. induction x as [|a x IH]; cbn; [auto|]. intros [_ H]. auto. Qed.

Definition countf (f : bool) (l : list addr) : nat :=
  length (filter (fun a => Bool.eqb (v6 a) f) l).

Lemma countf_app f x y : countf f (x ++ y) = (countf f x + countf f y)%nat.
Proof. unfold countf. now rewrite filter_app, app_length. Qed.

Lemma countf_perm f l l' : Permutation l l' -> countf f l = countf f l'.
Proof.
  unfold countf. induction 1; cbn; auto.
  - destruct (Bool.eqb (v6 x) f); cbn; congruence.
  - destruct (Bool.eqb (v6 x) f), (Bool.eqb (v6 y) f); cbn; congruence.
  - congruence.
Qed.

Lemma countf_pos f l : (0 < countf f l)%nat -> exists b, In b l /\ v6 b = f.
Proof.
  unfold countf. induction l as [|a l IH]; cbn; [lia|].
  destruct (Bool.eqb (v6 a) f) eqn:E.
  - intros _. exists a. split; [left; reflexivity|now apply eqb_prop].
  - intros H. destruct (IH H) as (b & Hb & Vb). exists b. auto.
Qed.

Lemma cnt_fam_countf f l : cnt_fam f l = countf f (map snd l).
Proof.
  unfold cnt_fam, countf. induction l as [|x l IH]; cbn; [reflexivity|].
  destruct (Bool.eqb (v6 (snd x)) f); cbn; congruence.
Qed.

Lemma cnt_before_le f t l : (cnt_before f t l <= cnt_fam f l)%nat.
Proof.
  unfold cnt_before, cnt_fam. induction l as [|x l IH]; cbn; [lia|].
  destruct (Bool.eqb (v6 (snd x)) f); cbn; [destruct (fst x <? t); cbn; lia|lia].
Qed.

Lemma cnt_before_app f t x y : cnt_before f t (x ++ y) = (cnt_before f t x + cnt_before f t y)%nat.
Proof. unfold cnt_before. now rewrite filter_app, app_length. Qed.

Lemma stream_addrs_in x r : In x (stream_addrs r) -> exists it, In (fst x, it) r.
Proof.
  induction r as [|[t [a|c]] r IH]; cbn; [intros []| |].
  - intros [<-|H]; [exists (IAddr a); left; reflexivity|]. destruct (IH H) as [it Hi]. eauto.
  - intros H. destruct (IH H) as [it Hi]. eauto.
Qed.

Lemma cnt_before_future f t r : (forall x, In x r -> t <= fst x) -> cnt_before f t (stream_addrs r) = 0%nat.
Proof.
  intros H. unfold cnt_before.
  assert (E : forall l, (forall x, In x l -> t <= fst x) ->
            filter (fun x : N * addr => Bool.eqb (v6 (snd x)) f && (fst x <? t)) l = []).
  { induction l as [|x l IH]; cbn; [reflexivity|]. intros Hl.
    assert (fst x <? t = false) by (apply N.ltb_ge; apply Hl; left; reflexivity).
    rewrite H0, andb_false_r. apply IH. intros y Hy. apply Hl. right. assumption. }
  rewrite E; [reflexivity|]. intros x Hx. destruct (stream_addrs_in _ _ Hx) as [it Hi].
  apply (H _ Hi).
Qed.

(* An address family counted as untried has an address in the queue. *)
Lemma untried_queue sc s f : Inv sc s -> (forall x, In x (rest s) -> now s <= fst x) ->
  untried (stream_addrs (items sc)) (log s) (now s) f = true ->
  exists b, In b (queue s) /\ v6 b = f.
Proof.
  intros [(pre & Hs & Hp) _ _ _ _] Hr U. unfold untried in U. apply Nat.ltb_lt in U.
  rewrite Hs, stream_addrs_app, cnt_before_app, (cnt_before_future _ _ _ Hr) in U.
  pose proof (cnt_before_le f (now s) (stream_addrs pre)) as L.
  rewrite cnt_fam_countf in L. fold (addrs_of pre) in L.
  rewrite (countf_perm f _ _ Hp), countf_app in L. rewrite cnt_fam_countf in U.
  apply countf_pos. lia.
Qed.

(* the invariant under a sorted stream *)
Record InvS (sc : scenario) (s : st) : Prop := mkInvS {
  S_fut : forall x, In x (rest s) -> now s <= fst x;
  S_sorted : sorted (rest s);
  S_want : match log s with y :: _ => want6 s = negb (v6 (snd y)) | [] => want6 s = pref sc end;
  S_alt : alt_ok (stream_addrs (items sc)) (log s) = true
}.

Lemma invS_init sc : sorted (items sc) -> InvS sc (init sc).
Proof.
  intros H. constructor; cbn; auto.
  intros x Hx. lia.
Qed.

Lemma alt_ok_cons2 ads x y l : alt_ok ads (x :: y :: l) =
  (if untried ads (y :: l) (fst x) true && untried ads (y :: l) (fst x) false
   then negb (Bool.eqb (v6 (snd x)) (v6 (snd y))) else true) && alt_ok ads (y :: l).
Proof. reflexivity. Qed.

Lemma invS_top sc s : Inv sc s -> InvS sc s -> InvS sc (top s).
Proof.
  intros I [Hf Hso Hw Ha]. unfold top.
  destruct (timer s); [now constructor|].
  destruct (pop_family (queue s) (want6 s)) as [[[a q] w]|] eqn:P; [|now constructor].
  apply pop_family_spec in P as (Pq & -> & Pw).
  constructor; try (cbn; auto; fail).
  cbn [log]. destruct (log s) as [|y l] eqn:L; [reflexivity|].
  rewrite alt_ok_cons2, Ha, andb_true_r. cbn [fst snd].
  destruct (untried _ _ _ true) eqn:U1; [|reflexivity].
  destruct (untried _ _ _ false) eqn:U2; [|reflexivity]. cbn.
  rewrite <- L in U1, U2.
  assert (Hb : exists b, In b (queue s) /\ v6 b = want6 s).
  { destruct (want6 s); eapply untried_queue; eauto. }
  specialize (Pw Hb). rewrite Pw, Hw. destruct (v6 (snd y)); reflexivity.
Qed.

Lemma invS_select_next sc s s' : Inv sc s -> InvS sc s -> select sc s = Next s' -> InvS sc s'.
Proof.
  intros I [Hf Hso Hw Ha] H. pose proof (I_fin _ _ I) as Hfin.
  assert (Hst : fin s = false -> forall x, In x (rest s) -> N.max (now s) (stime sc s) <= fst x).
  { intros _ x Hx. unfold stime. destruct (rest s) as [|[t0 it] r0]; [destruct Hx|].
    cbn in Hso. destruct Hso as [Hh _]. pose proof (Hf _ (or_introl eq_refl)). cbn in H0.
    destruct Hx as [<-|Hx]; [cbn; lia|]. specialize (Hh _ Hx). cbn in Hh. lia. }
  assert (Hfr : fin s = true -> forall x, In x (rest s) -> False).
  { intros Fi x Hx. destruct (Hfin Fi) as [E _]. rewrite E in Hx. destruct Hx. }
  destruct (select_cases sc s) as [d r t PM Et Hts|t F Et Hd1 Ht1|dl t T Et Hd1 Hs1|]; [| | |discriminate].
  - unfold on_dial in H. destruct (dres d); [|discriminate]. inversion H; subst s'; clear H.
    constructor; cbn; auto.
    intros x Hx. destruct (fin s) eqn:Fi; [exfalso; eauto|].
    specialize (Hst eq_refl _ Hx). specialize (Hts eq_refl). lia.
  - unfold on_stream in H. unfold stime in *.
    destruct (rest s) as [|[t0 [a|c]] r0] eqn:Rs; inversion H; subst s'; clear H.
    + constructor; cbn; auto. intros x [].
    + cbn in Hso. destruct Hso as [Hh Hso]. constructor; cbn; auto.
      intros x Hx. specialize (Hh _ Hx). pose proof (Hf _ (or_introl eq_refl)). cbn in *. lia.
    + cbn in Hso. destruct Hso as [Hh Hso]. constructor; cbn; auto.
      intros x Hx. specialize (Hh _ Hx). pose proof (Hf _ (or_introl eq_refl)). cbn in *. lia.
  - inversion H; subst s'; clear H. constructor; cbn; auto.
    intros x Hx. destruct (fin s) eqn:Fi; [exfalso; eauto|].
    specialize (Hst eq_refl _ Hx). specialize (Hs1 eq_refl). lia.
Qed.

Definition InvB (sc : scenario) (s : st) : Prop := Inv sc s /\ InvS sc s.

Lemma invB_step_next sc s s' : InvB sc s -> step sc s = Next s' -> InvB sc s'.
Proof.
  intros [I J]. unfold step. destruct (exhausted s); [discriminate|]. intros H. split.
  - eapply inv_select_next; [apply inv_top; eassumption|eassumption].
  - eapply invS_select_next; [apply inv_top; eassumption|apply invS_top; eassumption|eassumption].
Qed.

Lemma runB_end sc : forall f s r s', InvB sc s -> run f sc s = Some (r, s') ->
  exists s0, InvB sc s0 /\ step sc s0 = Done r s'.
Proof.
  induction f as [|f IH]; intros s r s' I H; [discriminate|]. cbn in H.
  destruct (step sc s) as [r0 s0|s0|s0] eqn:S.
  - inversion H; subst. eauto.
  - eapply IH; [|eassumption]. eapply invB_step_next; eassumption.
  - exfalso. exact (no_deadlock _ _ _ S).
Qed.

Lemma step_done_log sc s r s' : step sc s = Done r s' -> log s' = log (top s) \/ s' = s.
Proof.
  unfold step. destruct (exhausted s); [intros H; inversion H; auto|].
  intros H. left.
  destruct (select_cases sc (top s)) as [d r0 t PM Et Hts|t F Et Hd1 Ht1|dl t T Et Hd1 Hs1|]; [| | |discriminate].
  - unfold on_dial in H. destruct (dres d); inversion H; subst; reflexivity.
  - unfold on_stream in H. destruct (rest (top s)) as [|[t0 [a|c]] r0]; discriminate.
  - discriminate.
Qed.

(* While both families have an address that resolved before the attempt and is still
   untried, consecutive attempts are of different families (whole log). *)
Lemma alternates_while_both sc r s : sorted (items sc) ->
  run_sc sc = (r, s) -> alt_ok (stream_addrs (items sc)) (log s) = true.
Proof.
  intros So H. unfold run_sc in H. destruct (fuel_suffices sc) as (r0 & s0 & E). rewrite E in H.
  inversion H; subst; clear H.
  apply runB_end in E as (s1 & [I J] & S); [|split; [apply inv_init|apply invS_init; assumption]].
  apply step_done_log in S as [->| ->].
  - apply (S_alt _ _ (invS_top _ _ I J)).
  - apply (S_alt _ _ J).
Qed.

(* ------------------------------------------------------------ the first attempt *)
Section First.
Variable sc : scenario.
Variable t0 : N.
Variable a0 : addr.
Variable tl : list (N * addr).
Hypothesis Hso : sorted (items sc).
Hypothesis Hads : stream_addrs (items sc) = (t0, a0) :: tl.
Variable t1 : N.
Variable a1 : addr.
Hypothesis Hin1 : In (t1, a1) (stream_addrs (items sc)).
Hypothesis Hpref1 : v6 a1 = pref sc.
Hypothesis Hwithin : t1 <= t0 + RD.

Definition FInv (s : st) : Prop :=
  (started s = false ->
     log s = [] /\ dials s = [] /\
     (((forall b, In b (queue s) -> v6 b <> pref sc) /\
       (queue s = [] -> timer s = None) /\ (queue s <> [] -> timer s = Some (t0 + RD)))
      \/ ((exists b, In b (queue s) /\ v6 b = pref sc) /\ timer s = None))) /\
  (started s = true -> exists l x, log s = l ++ [x] /\ v6 (snd x) = pref sc).

Lemma FInv_init : FInv (init sc).
Proof.
  split; cbn; [|discriminate]. intros _. split; [reflexivity|]. split; [reflexivity|].
  left. split; [intros b []|]. split; [reflexivity|congruence].
Qed.

Lemma FInv_top s : InvS sc s -> FInv s -> FInv (top s).
Proof.
  intros J F. unfold top.
  destruct (timer s) eqn:T; [assumption|].
  destruct (pop_family (queue s) (want6 s)) as [[[a q] w]|] eqn:P; [|assumption].
  destruct F as [F1 F2].
  apply pop_family_spec in P as (Pq & -> & Pw).
  split; cbn; [discriminate|]. intros _.
  destruct (started s) eqn:St.
  - destruct (F2 eq_refl) as (l & x & -> & V). exists ((now s, a) :: l), x. split; [reflexivity|assumption].
  - destruct (F1 eq_refl) as (L & D & [(Hq & Hq0 & Hq1)|((b & Hb & Vb) & _)]).
    + exfalso. assert (queue s <> []) by (intros E; rewrite E in Pq; apply Permutation_nil in Pq; discriminate).
      rewrite (Hq1 H) in T. discriminate.
    + exists [], (now s, a). rewrite L. split; [reflexivity|]. cbn.
      pose proof (S_want _ _ J) as W. rewrite L in W. rewrite <- W. apply Pw. exists b. rewrite W. auto.
Qed.

(* while nothing has been started and no preferred address is queued, the witness is still
   in the stream *)
Lemma witness_in_rest s : Inv sc s -> log s = [] ->
  (forall b, In b (queue s) -> v6 b <> pref sc) -> exists it, In (t1, it) (rest s).
Proof.
  intros [(pre & Hs & Hp) _ _ _ _] L Hq. rewrite L in Hp. cbn in Hp.
  pose proof Hin1 as H. rewrite Hs, stream_addrs_app in H. apply in_app_or in H as [H|H].
  - exfalso. assert (In a1 (addrs_of pre)) by (unfold addrs_of; change a1 with (snd (t1, a1)); now apply in_map).
    apply (Permutation_in _ Hp) in H0. exact (Hq _ H0 Hpref1).
  - apply stream_addrs_in in H. exact H.
Qed.

Lemma FInv_select_next s s' : Inv sc s -> InvS sc s -> FInv s ->
  (started s = false -> timer s <> None \/ queue s = []) ->
  select sc s = Next s' -> FInv s'.
Proof.
  intros I J [F1 F2] TP H.
  destruct (started s) eqn:St.
  - (* already started: log and flag are unchanged *)
    assert (started s' = true /\ log s' = log s) as [S' L'].
    { destruct (select_cases sc s) as [d r t PM Et Hts|t F Et Hd1 Ht1|dl t T Et Hd1 Hs1|]; [| | |discriminate].
      - unfold on_dial in H. destruct (dres d); inversion H; subst; cbn; auto.
      - unfold on_stream in H. destruct (rest s) as [|[t2 [a|c]] r0]; inversion H; subst; cbn; auto.
      - inversion H; subst; cbn; auto. }
    split; [congruence|]. intros _. rewrite L'. auto.
  - destruct (F1 eq_refl) as (L & D & Dis).
    destruct Dis as [(Hq & Hq0 & Hq1)|((b & Hb & Vb) & Tn)].
    2:{ exfalso. destruct (TP eq_refl) as [X|X]; [congruence|]. rewrite X in Hb. destruct Hb. }
    destruct (witness_in_rest s I L Hq) as [it Hit].
    assert (Fi : fin s = false).
    { destruct (fin s) eqn:Fi; [|reflexivity]. destruct (I_fin _ _ I Fi) as [E _]. rewrite E in Hit. destruct Hit. }
    assert (Hst : stime sc s <= t1).
    { unfold stime. pose proof (S_sorted _ _ J) as So. destruct (rest s) as [|[t2 it2] r0]; [destruct Hit|].
      cbn in So. destruct So as [Hh _]. destruct Hit as [E|Hit]; [inversion E; lia|].
      specialize (Hh _ Hit). cbn in Hh. assumption. }
    destruct (select_cases sc s) as [d r t PM Et Hts|t F Et Hd1 Ht1|dl t T Et Hd1 Hs1|]; [| | |discriminate].
    + rewrite D in PM. discriminate.
    + unfold on_stream in H. unfold stime in Et.
      destruct (rest s) as [|[t2 [a|c]] r0] eqn:Rs; [destruct Hit| |]; inversion H; subst s'; clear H.
      * (* an address arrives *)
        split; cbn; rewrite St; [|discriminate]. intros _.
        split; [assumption|]. split; [assumption|].
        destruct (Bool.eqb (pref sc) (v6 a)) eqn:E.
        -- right. split; [|reflexivity]. exists a. split; [apply in_or_app; right; left; reflexivity|].
           symmetry. now apply eqb_prop.
        -- left. split.
           { intros b Hb. apply in_app_or in Hb as [Hb|[<-|[]]]; [auto|].
             intros V. rewrite V, eqb_reflx in E. discriminate. }
           split; [intros X; destruct (queue s); discriminate|]. intros _.
           destruct (timer s) eqn:T.
           ++ destruct (queue s) eqn:Q; [specialize (Hq0 eq_refl); discriminate|].
              apply Hq1. discriminate.
           ++ (* this is the first address of the stream *)
              assert (Q : queue s = []).
              { destruct (queue s) eqn:Q; [reflexivity|]. exfalso.
                assert (X : a2 :: l <> []) by discriminate. specialize (Hq1 X). discriminate. }
              destruct I as [(pre & Hs & Hp) _ _ _ _]. rewrite L, Q in Hp. cbn in Hp.
              apply Permutation_sym, Permutation_nil in Hp. unfold addrs_of in Hp.
              apply map_eq_nil in Hp.
              pose proof Hads as HA. rewrite Hs, stream_addrs_app, Hp, Rs in HA. cbn in HA.
              inversion HA; subst.
              assert (Hn : now s <= t0) by (apply (S_fut _ _ J (t0, IAddr a0)); rewrite Rs; left; reflexivity).
              f_equal. lia.
      * (* a resolver error *)
        split; cbn; rewrite St; [|discriminate]. intros _.
        split; [assumption|]. split; [assumption|]. left. auto.
    + (* the resolution-delay timer cannot fire before the witness is delivered *)
      exfalso. specialize (Hs1 Fi).
      assert (dl = t0 + RD).
      { destruct (queue s) eqn:Q; [rewrite (Hq0 eq_refl) in T; discriminate|].
        rewrite Hq1 in T; [|discriminate]. congruence. }
      lia.
Qed.

Lemma FInv_step_next s s' : InvB sc s -> FInv s -> step sc s = Next s' -> FInv s'.
Proof.
  intros [I J] F. unfold step. destruct (exhausted s); [discriminate|]. intros H.
  eapply FInv_select_next; [apply inv_top; eassumption|apply invS_top; eassumption|apply FInv_top; assumption| |eassumption].
  intros _. apply top_post.
Qed.

Lemma runF_end : forall f s r s', InvB sc s -> FInv s -> run f sc s = Some (r, s') ->
  exists s0, InvB sc s0 /\ FInv s0 /\ step sc s0 = Done r s'.
Proof.
  induction f as [|f IH]; intros s r s' I F H; [discriminate|]. cbn in H.
  destruct (step sc s) as [r0 s0|s0|s0] eqn:S.
  - inversion H; subst. eauto.
  - eapply IH; [| |eassumption]; [eapply invB_step_next|eapply FInv_step_next]; eassumption.
  - exfalso. exact (no_deadlock _ _ _ S).
Qed.

Lemma first_attempt_preferred_sec r s l x :
  run_sc sc = (r, s) -> log s = l ++ [x] -> v6 (snd x) = pref sc.
Proof.
  intros H HL. unfold run_sc in H. destruct (fuel_suffices sc) as (r0 & s0 & E). rewrite E in H.
  inversion H; subst; clear H.
  apply runF_end in E as (s1 & [I J] & F & S);
    [|split; [apply inv_init|apply invS_init; assumption]|apply FInv_init].
  assert (exists u, FInv u /\ log s = log u) as (u & [G1 G2] & L).
  { apply step_done_log in S as [L| ->]; [|eauto]. exists (top s1). split; [|assumption].
    apply FInv_top; assumption. }
  rewrite L in HL. destruct (started u) eqn:St.
  - destruct (G2 eq_refl) as (l' & x' & L' & V). rewrite L' in HL.
    apply app_inj_tail in HL as [_ <-]. assumption.
  - destruct (G1 eq_refl) as (L0 & _). rewrite L0 in HL. destruct l; discriminate.
Qed.
End First.

(* ------------------------------------------------------------ the stream of resolve_host_all is sorted *)
Lemma sorted_const_app t l r :
  (forall x, In x l -> fst x = t) -> (forall y, In y r -> t <= fst y) -> sorted r -> sorted (l ++ r).
Proof.
  induction l as [|x l IH]; cbn; intros Hl Hr Sr; [assumption|]. split.
  - intros y Hy. rewrite (Hl x (or_introl eq_refl)). apply in_app_or in Hy as [Hy|Hy].
    + rewrite (Hl y (or_intror Hy)). lia.
    + auto.
  - apply IH; auto.
Qed.

Lemma items_of_time l x : In x (items_of l) -> fst x = lt l.
Proof.
  unfold items_of. destruct (lr l); [|intros []]. intros H. apply in_map_iff in H as (a & <- & _). reflexivity.
Qed.

Lemma resolve_sorted l4 l6 : sorted (fst (resolve l4 l6)).
Proof.
  unfold resolve. cbv zeta. cbn [fst].
  set (a := eff l4). set (b := eff l6). set (te := N.max (lt a) (lt b)).
  set (tail := match lr a, lr b with
               | None, None => [(te, IErr 11)]
               | _, _ => match (if lt a <=? lt b then items_of a ++ items_of b else items_of b ++ items_of a) with
                         | [] => [(te, IErr 10)] | _ :: _ => [] end
               end).
  assert (Ht : forall y, In y tail -> fst y = te).
  { subst tail. intros y. destruct (lr a), (lr b);
      try (destruct (if lt a <=? lt b then _ else _)); cbn; intros [<-|[]] || intros []; reflexivity. }
  assert (St : sorted tail).
  { subst tail. destruct (lr a), (lr b); try (destruct (if lt a <=? lt b then _ else _)); cbn; auto;
      split; auto; intros y []. }
  fold tail.
  destruct (N.leb_spec (lt a) (lt b)).
  - rewrite <- app_assoc. apply (sorted_const_app (lt a)); [apply items_of_time| |].
    + intros y Hy. apply in_app_or in Hy as [Hy|Hy]; [rewrite (items_of_time _ _ Hy); lia|rewrite (Ht _ Hy); lia].
    + apply (sorted_const_app (lt b)); [apply items_of_time| |assumption].
      intros y Hy. rewrite (Ht _ Hy). lia.
  - rewrite <- app_assoc. apply (sorted_const_app (lt b)); [apply items_of_time| |].
    + intros y Hy. apply in_app_or in Hy as [Hy|Hy]; [rewrite (items_of_time _ _ Hy); lia|rewrite (Ht _ Hy); lia].
    + apply (sorted_const_app (lt a)); [apply items_of_time| |assumption].
      intros y Hy. rewrite (Ht _ Hy). lia.
Qed.

Lemma sc_of_sorted i : sorted (items (sc_of i)).
Proof.
  unfold sc_of. pose proof (resolve_sorted (look4 i) (look6 i)) as H.
  destruct (resolve (look4 i) (look6 i)) as [s te]. exact H.
Qed.

(* ------------------------------------------------------------ the monitor on the model's output *)
Lemma result_ok_model sc r s : run_sc sc = (r, s) ->
  result_ok (stream_addrs (items sc)) (rev (log s)) (tend sc) r (now s) = true.
Proof.
  intros H. destruct r as [a|c|].
  - apply returns_first_success in H as (t & Hin & Sa & De & Mn). cbn.
    apply andb_true_intro. split.
    + apply existsb_exists. exists (t, a). split; [now apply -> in_rev|]. cbn.
      rewrite addr_eqb_refl, Sa, De, N.eqb_refl. reflexivity.
    + apply forallb_forall. intros [t' a'] Hx. apply in_rev in Hx. cbn.
      destruct (succ a') eqn:S'; [|reflexivity]. cbn. apply N.leb_le. eauto.
  - pose proof (all_attempted_or_won _ _ _ H) as P.
    apply fails_only_when_exhausted in H as (_ & _ & Te & _ & _ & Hl). cbn.
    repeat (apply andb_true_intro; split).
    + apply forallb_forall. intros x Hx. apply existsb_exists.
      assert (In (snd x) (map snd (log s))).
      { apply (Permutation_in _ P). unfold addrs_of. now apply in_map. }
      apply in_map_iff in H as (y & E & Hy). exists y. split; [now apply -> in_rev|].
      rewrite E. apply addr_eqb_refl.
    + apply Nat.eqb_eq. rewrite rev_length. apply Permutation_length in P.
      unfold addrs_of in P. rewrite !map_length in P. auto.
    + apply forallb_forall. intros [t' a'] Hx. apply in_rev in Hx. cbn.
      destruct (Hl _ _ Hx) as [Sf L]. rewrite Sf. cbn. now apply N.leb_le.
    + now apply N.leb_le.
  - exfalso. exact (run_sc_not_panic _ _ H).
Qed.

Lemma first_ok_model sc r s : sorted (items sc) -> run_sc sc = (r, s) ->
  first_ok (pref sc) (stream_addrs (items sc)) (rev (log s)) = true.
Proof.
  intros So H. unfold first_ok.
  destruct (stream_addrs (items sc)) as [|[t0 a0] tl] eqn:A; [reflexivity|].
  destruct (existsb _ _) eqn:E; [|reflexivity].
  apply existsb_exists in E as ([t1 a1] & Hin & C). cbn in C. apply andb_prop in C as [C1 C2].
  apply eqb_prop in C1. apply N.leb_le in C2.
  destruct (rev (log s)) as [|[t a] l] eqn:R; [reflexivity|].
  assert (L : log s = rev l ++ [(t, a)]).
  { rewrite <- (rev_involutive (log s)), R. reflexivity. }
  rewrite <- A in Hin.
  pose proof (first_attempt_preferred_sec sc t0 a0 tl So A t1 a1 Hin C1 C2 r s _ _ H L) as V.
  cbn in V. rewrite V. apply eqb_reflx.
Qed.

Lemma monitor_sc sc r s : sorted (items sc) -> run_sc sc = (r, s) ->
  result_ok (stream_addrs (items sc)) (rev (log s)) (tend sc) r (now s)
  && first_ok (pref sc) (stream_addrs (items sc)) (rev (log s))
  && alt_ok (stream_addrs (items sc)) (rev (rev (log s))) = true.
Proof.
  intros So H. rewrite (result_ok_model _ _ _ H), (first_ok_model _ _ _ So H), rev_involutive.
  rewrite (alternates_while_both _ _ _ So H). reflexivity.
Qed.

Lemma model_monitor i : monitor i (model i) = true.
Proof.
  unfold monitor, model, out_of. destruct (run_sc (sc_of i)) as [r s] eqn:H. cbn [fst snd].
  apply monitor_sc; [apply sc_of_sorted|assumption].
Qed.

(* ------------------------------------------------------------ readable forms *)
Lemma alt_ok_spec ads rl : alt_ok ads rl = true ->
  forall l1 x y l2, rl = l1 ++ x :: y :: l2 ->
    untried ads (y :: l2) (fst x) true = true -> untried ads (y :: l2) (fst x) false = true ->
    v6 (snd x) <> v6 (snd y).
Proof.
  induction rl as [|z rl IH]; intros H l1 x y l2 E U1 U2; [destruct l1; discriminate|].
  destruct l1 as [|w l1]; cbn in E; inversion E; subst; clear E.
  - rewrite alt_ok_cons2, U1, U2 in H. cbn in H. apply andb_prop in H as [H _].
    intros V. rewrite V, eqb_reflx in H. discriminate.
  - apply (IH) with (l1 := l1) (l2 := l2); auto.
    destruct (l1 ++ x :: y :: l2) eqn:X; [destruct l1; discriminate|].
    rewrite alt_ok_cons2 in H. apply andb_prop in H as [_ H]. exact H.
Qed.

Lemma alternates_while_both_prop sc r s : sorted (items sc) -> run_sc sc = (r, s) ->
  forall l1 x y l2, log s = l1 ++ x :: y :: l2 ->
    untried (stream_addrs (items sc)) (y :: l2) (fst x) true = true ->
    untried (stream_addrs (items sc)) (y :: l2) (fst x) false = true ->
    v6 (snd x) <> v6 (snd y).
Proof. intros So H. apply alt_ok_spec. eapply alternates_while_both; eassumption. Qed.

Lemma outcome_eqb_eq x y : outcome_eqb x y = true -> x = y.
Proof.
  destruct x, y; cbn; try discriminate; intros H; try apply N.eqb_eq in H; congruence.
Qed.
Lemma addr_eqb_eq a b : addr_eqb a b = true -> a = b.
Proof.
  unfold addr_eqb. intros H. apply andb_prop in H as [H H3]. apply andb_prop in H as [H1 H2].
  apply eqb_prop in H1. apply N.eqb_eq in H2. apply outcome_eqb_eq in H3.
  destruct a, b; cbn in *; congruence.
Qed.

(* What the result part of the monitor says about an observed output. *)
Definition result_spec (ads lg : list (N * addr)) (te : N) (r : res addr) (e : N) : Prop :=
  match r with
  | Ok a => (exists t, In (t, a) lg /\ succ a = true /\ dend_at t a = e) /\
            (forall t' a', In (t', a') lg -> succ a' = true -> e <= dend_at t' a')
  | Err _ => (forall x, In x ads -> exists t, In (t, snd x) lg) /\ length lg = length ads /\
             (forall t a, In (t, a) lg -> succ a = false /\ dend_at t a <= e) /\ te <= e
  | Panic => False
  end.

Lemma result_ok_spec ads lg te r e : result_ok ads lg te r e = true <-> result_spec ads lg te r e.
Proof.
  destruct r as [a|c|]; cbn; [| |split; [discriminate|intros []]].
  - rewrite andb_true_iff, existsb_exists, forallb_forall. split.
    + intros [([t b] & Hin & C) F]. cbn in C.
      apply andb_prop in C as [C C3]. apply andb_prop in C as [C1 C2].
      apply addr_eqb_eq in C1. subst b. apply N.eqb_eq in C3. split; [eauto|].
      intros t' a' Hi S'. specialize (F _ Hi). cbn in F. rewrite S' in F. cbn in F. now apply N.leb_le.
    + intros [(t & Hin & S & D) F]. split.
      * exists (t, a). split; [assumption|]. cbn. rewrite addr_eqb_refl, S, D, N.eqb_refl. reflexivity.
      * intros [t' a'] Hi. cbn. destruct (succ a') eqn:S'; [|reflexivity]. cbn. apply N.leb_le. eauto.
  - rewrite !andb_true_iff, !forallb_forall, Nat.eqb_eq, N.leb_le. split.
    + intros [[[A L] F] T]. repeat split; auto.
      * intros x Hx. specialize (A _ Hx). apply existsb_exists in A as ([t b] & Hi & C). cbn in C.
        apply addr_eqb_eq in C. rewrite C. eauto.
      * specialize (F _ H). cbn in F. apply andb_prop in F as [F _]. now destruct (succ a).
      * specialize (F _ H). cbn in F. apply andb_prop in F as [_ F]. now apply N.leb_le.
    + intros (A & L & F & T). repeat split; auto.
      * intros x Hx. destruct (A _ Hx) as [t Hi]. apply existsb_exists. exists (t, snd x).
        split; [assumption|]. apply addr_eqb_refl.
      * intros [t a] Hi. destruct (F _ _ Hi) as [S D]. cbn. rewrite S. cbn. now apply N.leb_le.
Qed.

Lemma monitor_result_spec i lg r e : monitor i (lg, r, e) = true ->
  result_spec (stream_addrs (items (sc_of i))) lg (tend (sc_of i)) r e.
Proof.
  unfold monitor. intros H. apply andb_prop in H as [H _]. apply andb_prop in H as [H _].
  now apply result_ok_spec.
Qed.

(* ------------------------------------------------------------ witnesses, non-vacuity *)
(* The flag flip of the unfixed pop_family (`*next_is_v6 = !*next_is_v6`) repeats a family
   after a fall-back although the other family is queued. *)
Definition pop_family_old (q : list addr) (w : bool) : option (addr * list addr * bool) :=
  match q with
  | [] => None
  | a0 :: q0 =>
      match find_fam w q with
      | Some (a, r) => Some (a, r, negb w)
      | None => Some (a0, q0, negb w)
      end
  end.

Example pop_family_old_repeats_family :
  let a := mkAddr true 101 OHang in let b := mkAddr true 102 OHang in let c := mkAddr false 1 OHang in
  pop_family_old [a; b] false = Some (a, [b], true) /\
  pop_family_old [b; c] true = Some (b, [c], false) /\
  pop_family [a; b] false = Some (a, [b], false) /\
  pop_family [b; c] false = Some (c, [b], true).
Proof. repeat split. Qed.

(* the corpus witness `0 100:h 0:h,h` on the fixed model: v6, v4, v6 *)
Example witness_alternates :
  model (mkIn false (lk 100 (Some [mkAddr false 1 OHang]))
                    (lk 0 (Some [mkAddr true 101 OHang; mkAddr true 102 OHang])))
  = ([(RD, mkAddr true 101 OHang); (RD + CAD, mkAddr false 1 OHang);
      (RD + 2 * CAD, mkAddr true 102 OHang)], Err 3, RD + 2 * CAD + DT).
Proof. vm_compute. reflexivity. Qed.

(* the bound 3 * #items + 3 is attained; the smaller bound 2 * #items + 3 of the first
   design is not enough *)
Definition sc_slow : scenario := mkSc false [(0, IAddr (mkAddr true 101 OHang))] (10000 * MS).

Example fuel_tight : run (3 * 1 + 2) sc_slow (init sc_slow) = None /\
                     exists s, run (3 * 1 + 3) sc_slow (init sc_slow) = Some (Err 3, s).
Proof. split; [vm_compute; reflexivity|]. eexists. vm_compute. reflexivity. Qed.

Lemma fuel_2n_plus_3_refuted :
  exists sc, run (2 * length (items sc) + 3) sc (init sc) = None.
Proof. exists sc_slow. vm_compute. reflexivity. Qed.

(* the hypotheses of first_attempt_preferred are satisfiable, at the boundary t1 = t0 + RD *)
Example first_pref_nonvacuous :
  let sc := mkSc true [(0, IAddr (mkAddr false 1 OHang)); (RD, IAddr (mkAddr true 101 (ok 1)))] RD in
  sorted (items sc) /\ fst (run_sc sc) = Ok (mkAddr true 101 (ok 1)) /\
  rev (log (snd (run_sc sc))) = [(RD, mkAddr true 101 (ok 1))].
Proof. split; [cbn; repeat split; intros y Hy; repeat (destruct Hy as [<-|Hy]; [cbn; lia|]); destruct Hy|]. split; vm_compute; reflexivity. Qed.
