(* C20 — proofs about the bind_addr_with_opts model. *)
From V Require Import Lib.Base Model.C20.
From Coq Require Import ZifyBool Permutation.
Import C20.
Open Scope N_scope.

(* ---- bookkeeping ---- *)
Definition hasdef (f : fam) (cs : list cfg) : bool := existsb (user_default f) cs.

Lemma hasdef_app f cs c : hasdef f (cs ++ [c]) = hasdef f cs || user_default f c.
Proof. unfold hasdef. rewrite existsb_app. cbn [existsb]. now rewrite orb_false_r. Qed.

Lemma ndef_cons f r rs :
  ndef f (r :: rs) = (Nat.b2n (is_default_route r && fam_eqb (rfam r) f) + ndef f rs)%nat.
Proof.
  unfold ndef. cbn [filter].
  destruct (is_default_route r && fam_eqb (rfam r) f); reflexivity.
Qed.

Lemma run_seq_snd cs : forall rs k, snd (run_seq cs rs k) = snd (run_seq cs rs 0).
Proof.
  intros rs; revert cs. induction rs as [|r rs IH]; intros cs k; cbn [run_seq]; [reflexivity|].
  destruct (builder_add cs r) as [cs'|e|]; [|reflexivity|reflexivity].
  now rewrite IH, (IH cs' (0 + 1)).
Qed.

Lemma accepts_cons cs r rs :
  accepts_from cs (r :: rs) =
  match builder_add cs r with Ok cs' => accepts_from cs' rs | _ => false end.
Proof.
  unfold accepts_from. cbn [run_seq].
  destruct (builder_add cs r) as [cs'|e|] eqn:E.
  - now rewrite run_seq_snd.
  - unfold builder_add in E.
    destruct (is_default_route r && existsb (user_default (rfam r)) cs);
      [inversion E; reflexivity|].
    destruct (negb (prefix_ok r)); inversion E; reflexivity.
  - reflexivity.
Qed.

(* ---- the acceptance condition relative to an arbitrary builder state ---- *)
Definition fam_ok (f : fam) (cs : list cfg) (rs : list req) : bool :=
  (Nat.b2n (hasdef f cs) + ndef f rs <=? 1)%nat.
Definition gspec (cs : list cfg) (rs : list req) : bool :=
  forallb prefix_ok rs && fam_ok V4 cs rs && fam_ok V6 cs rs.

Lemma accepts_gspec : forall rs cs, accepts_from cs rs = gspec cs rs.
Proof.
  induction rs as [|r rs IH]; intros cs.
  - unfold accepts_from, gspec, fam_ok, ndef. cbn.
    destruct (hasdef V4 cs), (hasdef V6 cs); reflexivity.
  - rewrite accepts_cons. unfold builder_add.
    fold (hasdef (rfam r) cs).
    unfold gspec, fam_ok. rewrite !ndef_cons. cbn [forallb].
    destruct (is_default_route r && hasdef (rfam r) cs) eqn:E1.
    { apply andb_prop in E1 as [Ed Eh]. rewrite Ed.
      destruct (rfam r); rewrite Eh; cbn [fam_eqb andb Nat.b2n];
        destruct (prefix_ok r), (forallb prefix_ok rs), (hasdef V4 cs), (hasdef V6 cs);
        cbn; try reflexivity; try lia;
        destruct (ndef V4 rs), (ndef V6 rs); reflexivity. }
    destruct (prefix_ok r) eqn:E2; cbn [negb andb]; [|reflexivity].
    rewrite IH. unfold gspec, fam_ok. rewrite !hasdef_app.
    unfold user_default. cbn [cdefault cfam cuser]. rewrite !andb_true_r.
    destruct (rfam r), (is_default_route r), (hasdef V4 cs), (hasdef V6 cs);
      cbn [fam_eqb andb orb Nat.b2n Nat.add] in *; try discriminate; reflexivity.
Qed.

Lemma gspec_init clear rs : gspec (init clear) rs = spec rs.
Proof.
  unfold gspec, spec, fam_ok.
  assert (H : forall f, hasdef f (init clear) = false) by (intros []; destruct clear; reflexivity).
  rewrite !H. cbn [Nat.b2n Nat.add].
  destruct (forallb prefix_ok rs), (ndef V4 rs <=? 1)%nat, (ndef V6 rs <=? 1)%nat; reflexivity.
Qed.

Lemma accepts_from_init clear rs : accepts_from (init clear) rs = spec rs.
Proof. now rewrite accepts_gspec, gspec_init. Qed.

Lemma accepts_spec_bool rs : accepts rs = spec rs.
Proof. apply accepts_from_init. Qed.

(* ---- readable form of the acceptance condition ---- *)
Definition is_default (r : req) : Prop := is_default_route r = true.
Definition valid_prefix (r : req) : Prop := rprefix r <= max_prefix (rfam r).

Lemma spec_iff rs :
  spec rs = true <->
  (ndef V4 rs <= 1)%nat /\ (ndef V6 rs <= 1)%nat /\ Forall valid_prefix rs.
Proof.
  unfold spec. rewrite !andb_true_iff, !Nat.leb_le, forallb_forall, Forall_forall.
  unfold valid_prefix, prefix_ok.
  split.
  - intros [[A B] C]. repeat split; auto. intros r Hr. apply N.leb_le. auto.
  - intros (A & B & C). repeat split; auto. intros r Hr. apply N.leb_le. auto.
Qed.

Lemma accept_spec rs :
  accepts rs = true <->
  (ndef V4 rs <= 1)%nat /\ (ndef V6 rs <= 1)%nat /\ Forall valid_prefix rs.
Proof. rewrite accepts_spec_bool. apply spec_iff. Qed.

(* the same after clear_ip_transports *)
Lemma accept_spec_clear rs clear :
  accepts_from (init clear) rs = true <->
  (ndef V4 rs <= 1)%nat /\ (ndef V6 rs <= 1)%nat /\ Forall valid_prefix rs.
Proof. rewrite accepts_from_init. apply spec_iff. Qed.

(* ndef counts the default-route requests of a family *)
Lemma ndef_count f rs :
  ndef f rs = length (filter (fun r => is_default_route r && fam_eqb (rfam r) f) rs).
Proof. reflexivity. Qed.

(* ---- order independence ---- *)
Lemma ndef_perm f l l' : Permutation l l' -> ndef f l = ndef f l'.
Proof.
  induction 1 as [|x l l' _ IH|x y l|l l' l'' _ IH1 _ IH2].
  - reflexivity.
  - now rewrite !ndef_cons, IH.
  - rewrite !ndef_cons. lia.
  - congruence.
Qed.

Lemma forallb_perm {A} (p : A -> bool) l l' : Permutation l l' -> forallb p l = forallb p l'.
Proof.
  induction 1 as [|x l l' _ IH|x y l|l l' l'' _ IH1 _ IH2]; cbn [forallb].
  - reflexivity.
  - now rewrite IH.
  - destruct (p x), (p y); reflexivity.
  - congruence.
Qed.

Lemma spec_perm l l' : Permutation l l' -> spec l = spec l'.
Proof.
  intros H. unfold spec.
  now rewrite (ndef_perm V4 _ _ H), (ndef_perm V6 _ _ H), (forallb_perm _ _ _ H).
Qed.

Lemma accept_perm l l' : Permutation l l' -> accepts l = accepts l'.
Proof. intros H. rewrite !accepts_spec_bool. now apply spec_perm. Qed.

Lemma accept_perm_clear clear l l' :
  Permutation l l' -> accepts_from (init clear) l = accepts_from (init clear) l'.
Proof. intros H. rewrite !accepts_from_init. now apply spec_perm. Qed.

(* ---- monitor ---- *)
Lemma monitor_list_model clear : forall ss,
  monitor_list ss (map (fun s => run_seq (init clear) s 0) ss) = true.
Proof.
  induction ss as [|s ss IH]; cbn [map monitor_list]; [reflexivity|].
  rewrite IH, andb_true_r.
  fold (accepts_from (init clear) s). rewrite accepts_from_init.
  apply Bool.eqb_reflx.
Qed.

Lemma model_monitor : forall i, monitor i (model i) = true.
Proof.
  intros [[clear pre] d]. unfold monitor, model.
  apply monitor_list_model.
Qed.

(* what the monitor says about an observed output: one result per sequence of the case,
   and each sequence was accepted (error code 0) exactly when it satisfies the condition *)
Definition observed_ok (s : list req) (r : N * N) : Prop :=
  snd r = 0 <-> ((ndef V4 s <= 1)%nat /\ (ndef V6 s <= 1)%nat /\ Forall valid_prefix s).

Lemma monitor_list_spec : forall ss o,
  monitor_list ss o = true <-> Forall2 observed_ok ss o.
Proof.
  induction ss as [|s ss IH]; intros [|r o]; cbn [monitor_list].
  - split; [constructor|reflexivity].
  - split; [discriminate|inversion 1].
  - split; [discriminate|inversion 1].
  - rewrite andb_true_iff, IH, Bool.eqb_true_iff.
    unfold observed_ok at 1.
    split.
    + intros [E F]. constructor; [|exact F]. unfold observed_ok.
      rewrite <- spec_iff, <- E, N.eqb_eq. tauto.
    + inversion 1 as [|? ? ? ? Hh Ht]; subst. split; [|exact Ht].
      unfold observed_ok in Hh. rewrite <- spec_iff in Hh.
      destruct (N.eqb_spec (snd r) 0) as [E|E], (spec s); try reflexivity.
      * symmetry. now apply Hh.
      * exfalso. apply E. now apply Hh.
Qed.

Lemma monitor_spec i o : monitor i o = true <-> Forall2 observed_ok (seqs i) o.
Proof. apply monitor_list_spec. Qed.

(* ---- the code before the fix (duplicate-default test without `opts.is_default_route() &&`)
   violates both theorems: witnesses ---- *)
Definition builder_add_old (cs : list cfg) (r : req) : res (list cfg) :=
  if existsb (user_default (rfam r)) cs then Err E_DUP
  else if negb (prefix_ok r) then Err E_PREFIX
  else Ok (cs ++ [mkCfg (rfam r) (rprefix r) (is_default_route r) true]).
Fixpoint accepts_old (cs : list cfg) (rs : list req) : bool :=
  match rs with
  | [] => true
  | r :: rs' => match builder_add_old cs r with Ok cs' => accepts_old cs' rs' | _ => false end
  end.

Example old_code_order_dependent :
  let a := mkReq V4 0 None in let b := mkReq V4 24 None in
  accepts_old (init false) [a; b] = false /\ accepts_old (init false) [b; a] = true /\
  spec [a; b] = true.
Proof. vm_compute. auto. Qed.

(* ---- non-vacuity / witnesses ---- *)
Example ex_accept_default_then_other :
  accepts [mkReq V4 0 None; mkReq V4 24 None; mkReq V6 64 (Some true); mkReq V6 0 (Some false)] = true.
Proof. reflexivity. Qed.
Example ex_reject_two_defaults : run_seq (init false) [mkReq V4 24 None; mkReq V4 0 None; mkReq V4 8 (Some true)] 0 = (2, E_DUP).
Proof. reflexivity. Qed.
Example ex_reject_prefix : run_seq (init false) [mkReq V6 128 None; mkReq V6 129 None] 0 = (1, E_PREFIX).
Proof. reflexivity. Qed.
Example ex_perm : Permutation [mkReq V4 0 None; mkReq V4 24 None] [mkReq V4 24 None; mkReq V4 0 None].
Proof. apply perm_swap. Qed.
Example ex_exts_size : length (exts 2) = 343%nat /\ length kinds = 18%nat.
Proof. vm_compute. auto. Qed.
