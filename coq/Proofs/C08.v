(* C08 — proofs: (A) the admission-window script model, (B) revocation over the C06
   registry transition system. *)
From V Require Import Lib.Base Model.C06 Proofs.C06 Model.C08.
From Coq Require Import ZifyBool FinFun.
Open Scope N_scope.

Module A.
Import C08.

Record Inv8 (s : state) : Prop := {
  i_nodup : NoDup (map num s);
  i_lt : forall c, In c s -> num c < len s;
  i_ph : forall c, In c s -> phase c <= 2;
  i_rev : forall c, In c s -> revoked c = true -> phase c = 2
}.

Definition step_known (s : state) (o : op) : bool :=
  match o with
  | ODisc id oc =>
      (match oc with Some k => k <? len s | None => true end) &&
      existsb (fun c => matches c id oc && (phase c =? 0)) s
  | ODisc2 id o1 o2 =>
      (inrange s o1 && inrange s o2) &&
      existsb (fun c => matches2 c id o1 o2 && (phase c =? 0)) s
  | _ => false
  end.

Lemma len_app_one {A} (l : list A) x : len (l ++ [x]) = len l + 1.
Proof. unfold len. rewrite app_length. cbn. lia. Qed.

Lemma NoDup_app_one {A} (l : list A) x : NoDup l -> ~ In x l -> NoDup (l ++ [x]).
Proof.
  induction l as [|a l IH]; cbn; intros Hnd Hn; [constructor; [tauto|constructor]|].
  inversion Hnd as [|? ? Ha Hl]. subst. constructor.
  - intros Hin. apply in_app_or in Hin as [Hin|[<-|[]]]; [contradiction|apply Hn; now left].
  - apply IH; [assumption|]. intros Hx. apply Hn. now right.
Qed.

Lemma Inv8_nil : Inv8 [].
Proof. constructor; cbn; try constructor; intros; contradiction. Qed.

Lemma Inv8_app s id ph : Inv8 s -> ph <= 2 -> Inv8 (s ++ [mkC (len s) id ph false false]).
Proof.
  intros [I1 I2 I3 I4] Hph. constructor.
  - rewrite map_app. cbn. apply NoDup_app_one.
    + exact I1.
    + intros Hin. apply in_map_iff in Hin as (c & Hc & Hin). apply I2 in Hin. lia.
  - intros c Hin. rewrite len_app_one. apply in_app_or in Hin as [Hin|[<-|[]]]; [apply I2 in Hin; lia|cbn; lia].
  - intros c Hin. apply in_app_or in Hin as [Hin|[<-|[]]]; [now apply I3|exact Hph].
  - intros c Hin. apply in_app_or in Hin as [Hin|[<-|[]]]; [now apply I4|cbn; discriminate].
Qed.

Lemma Inv8_map s (f : conn -> conn) :
  Inv8 s -> (forall c, num (f c) = num c) ->
  (forall c, In c s -> phase (f c) <= 2) ->
  (forall c, In c s -> revoked (f c) = true -> phase (f c) = 2) ->
  Inv8 (map f s).
Proof.
  intros [I1 I2 I3 I4] Hn Hp Hr.
  assert (Hm : map num (map f s) = map num s) by (rewrite map_map; apply map_ext; exact Hn).
  assert (Hl : len (map f s) = len s) by (unfold len; now rewrite map_length).
  constructor.
  - now rewrite Hm.
  - intros c Hin. apply in_map_iff in Hin as (c0 & <- & Hin). rewrite Hn, Hl. now apply I2.
  - intros c Hin. apply in_map_iff in Hin as (c0 & <- & Hin). now apply Hp.
  - intros c Hin. apply in_map_iff in Hin as (c0 & <- & Hin). now apply Hr.
Qed.

Lemma exec_inv s o : Inv8 s -> step_known s o = false -> Inv8 (fst (exec s o)).
Proof.
  intros I Hk. pose proof I as [I1 I2 I3 I4]. destruct o as [id|k|id|id oc|k|k|id o1 o2]; cbn [exec].
  - apply Inv8_app; [assumption|lia].
  - destruct (existsb _ s); cbn [fst]; [|assumption].
    apply Inv8_map; [assumption| | |].
    + intros c. now destruct (_ && _).
    + intros c Hin. destruct (_ && _); cbn; [lia|now apply I3].
    + intros c Hin. destruct ((num c =? k) && (phase c =? 0)) eqn:E; cbn.
      * intros Hr. apply (I4 c Hin) in Hr. apply andb_prop in E as [_ E]. apply N.eqb_eq in E. lia.
      * now apply I4.
  - apply Inv8_app; [assumption|lia].
  - cbn [step_known] in Hk. destruct (match oc with Some k => k <? len s | None => true end); cbn [fst]; [|assumption].
    cbn [andb] in Hk.
    apply Inv8_map; [assumption| | |].
    + intros c. now destruct (matches c id oc).
    + intros c Hin. destruct (matches c id oc); cbn; [|now apply I3].
      destruct (phase c =? 1); [lia|now apply I3].
    + intros c Hin. destruct (matches c id oc) eqn:Em; cbn; [|now apply I4].
      intros _. destruct (phase c =? 1) eqn:E1; [reflexivity|].
      assert (H0 : (phase c =? 0) = false).
      { destruct (phase c =? 0) eqn:E0; [|reflexivity].
        assert (existsb (fun c => matches c id oc && (phase c =? 0)) s = true).
        { apply existsb_exists. exists c. split; [assumption|]. now rewrite Em, E0. }
        congruence. }
      apply N.eqb_neq in E1, H0. pose proof (I3 c Hin). lia.
  - assumption.
  - destruct (find _ s) as [t|]; cbn [fst]; [|assumption].
    apply Inv8_map; [assumption| | |].
    + intros c. now destruct (_ && _).
    + intros c Hin. destruct (_ && _); cbn; now apply I3.
    + intros c Hin. destruct (_ && _); cbn; now apply I4.
  - cbn [step_known] in Hk. destruct (inrange s o1 && inrange s o2); cbn [fst]; [|assumption].
    cbn [andb] in Hk.
    apply Inv8_map; [assumption| | |].
    + intros c. now destruct (matches2 c id o1 o2).
    + intros c Hin. destruct (matches2 c id o1 o2); cbn; [|now apply I3].
      destruct (phase c =? 1); [lia|now apply I3].
    + intros c Hin. destruct (matches2 c id o1 o2) eqn:Em; cbn; [|now apply I4].
      intros _. destruct (phase c =? 1) eqn:E1; [reflexivity|].
      assert (H0 : (phase c =? 0) = false).
      { destruct (phase c =? 0) eqn:E0; [|reflexivity].
        assert (existsb (fun c => matches2 c id o1 o2 && (phase c =? 0)) s = true).
        { apply existsb_exists. exists c. split; [assumption|]. now rewrite Em, E0. }
        congruence. }
      apply N.eqb_neq in E1, H0. pose proof (I3 c Hin). lia.
Qed.

Lemma num_unique s c c' : Inv8 s -> In c s -> In c' s -> num c = num c' -> c = c'.
Proof.
  intros [I1 _ _ _]. revert I1. induction s as [|x s IH]; cbn; [contradiction|].
  intros Hnd. inversion Hnd as [|? ? Hn Hd]. subst.
  intros [->|Hc] [->|Hc'] E; auto.
  - exfalso. apply Hn. rewrite E. now apply in_map.
  - exfalso. apply Hn. rewrite <- E. now apply in_map.
Qed.

Lemma probe_ok_model s k : Inv8 s ->
  probe_ok s k (if existsb (fun c => (num c =? k) && (phase c =? 1)) s then 1 else 0) = true.
Proof.
  intros I. unfold probe_ok. apply forallb_forall. intros c Hin.
  destruct (num c =? k) eqn:Ek; [|reflexivity]. apply N.eqb_eq in Ek.
  destruct (revoked c) eqn:Er.
  - apply (i_rev s I c Hin) in Er.
    destruct (existsb _ s) eqn:Ex; [|reflexivity].
    apply existsb_exists in Ex as (c' & Hin' & E). apply andb_prop in E as [E1 E2].
    apply N.eqb_eq in E1, E2. assert (c = c') by (eapply num_unique; eauto; congruence). subst c'. lia.
  - destruct (phase c =? 1) eqn:E1; [|reflexivity].
    assert (Ex : existsb (fun c => (num c =? k) && (phase c =? 1)) s = true).
    { apply existsb_exists. exists c. split; [assumption|]. apply N.eqb_eq in Ek. now rewrite Ek, E1. }
    now rewrite Ex.
Qed.

Lemma exec_ret_probe s k : snd (exec s (OProbe k)) =
  if existsb (fun c => (num c =? k) && (phase c =? 1)) s then 1 else 0.
Proof. reflexivity. Qed.

Lemma disc_ok_nil s id oc : disc_ok s id oc [] = true.
Proof. unfold disc_ok. apply forallb_forall. intros c _. now destruct (_ && _). Qed.

Lemma disc_ok2_nil s id o1 o2 : disc_ok2 s id o1 o2 [] = true.
Proof. unfold disc_ok2. apply forallb_forall. intros c _. now destruct (_ && _). Qed.

Lemma monitor_from_model l : forall s, Inv8 s -> known_from s l = false ->
  monitor_from s l (map (fun p => (snd p, @nil N)) (go s l)) = true.
Proof.
  induction l as [|o l IH]; intros s I Hk; [reflexivity|].
  cbn [known_from] in Hk. apply orb_false_iff in Hk as [Hk1 Hk2].
  assert (Hs : step_known s o = false) by (destruct o; exact Hk1 || reflexivity).
  cbn [go]. destruct (exec s o) as [s' ret] eqn:E. cbn [map snd fst monitor_from].
  assert (Es : fst (exec s o) = s') by now rewrite E.
  rewrite Es in *. rewrite IH; [|rewrite <- Es; now apply exec_inv|assumption].
  rewrite andb_true_r. destruct o; try reflexivity.
  - apply disc_ok_nil.
  - assert (ret = snd (exec s (OProbe k))) by now rewrite E. subst ret.
    rewrite exec_ret_probe. now apply probe_ok_model.
  - apply disc_ok2_nil.
Qed.

Lemma model_monitor i : known i = 0 -> monitor i (model i) = true.
Proof.
  unfold known, monitor, model. destruct (known_from [] i) eqn:E; [discriminate|]. intros _.
  apply monitor_from_model; [apply Inv8_nil|assumption].
Qed.

(* the known class is inhabited and the monitor fails there: admitted, revoked while the
   accept is parked (disconnect returns false), then registered and served *)
Definition witness : input := [OAdmit 0; ODisc 0 (Some 0); ORelease 0; OProbe 0].
Lemma known_witness : known witness = 1 /\ monitor witness (model witness) = false /\
                      model witness = Ok [(1, []); (1, []); (1, []); (1, [])].
Proof. repeat split. Qed.

(* A disconnect request stops every registered connection it names WHETHER OR NOT traffic is
   piled up for it (busy): the model's actor loop is the biased select — the token is looked at
   before the queues. *)
Lemma busy_revoked_stops s id o c :
  In c s -> matches c id o = true -> phase c = 1 ->
  match o with Some k => k <? len s | None => true end = true ->
  In (mkC (num c) (cid c) 2 true false) (fst (exec s (ODisc id o))) /\
  snd (exec s (ODisc id o)) = 2.
Proof.
  intros Hin Hm Hp Hg. cbn [exec]. rewrite Hg. cbn [fst snd]. split.
  - apply in_map_iff. exists c. split; [|assumption]. rewrite Hm, Hp. reflexivity.
  - replace (existsb _ s) with true; [reflexivity|]. symmetry. apply existsb_exists.
    exists c. split; [assumption|]. now rewrite Hm, Hp.
Qed.

(* non-vacuity: a busy registered connection, revoked by endpoint id *)
Example busy_example :
  model [OConnect 0; OFlood 0; ODisc 0 None; OProbe 0] = Ok [(1, []); (1, []); (2, []); (0, [])] /\
  tag [OConnect 0; OFlood 0; ODisc 0 None; OProbe 0] = 4.
Proof. split; reflexivity. Qed.

(* readable form of the monitor on one probe *)
Lemma probe_ok_spec s k r :
  probe_ok s k r = true <->
  forall c, In c s -> num c = k ->
    (revoked c = true -> r = 0) /\ (revoked c = false -> phase c = 1 -> r = 1).
Proof.
  unfold probe_ok. rewrite forallb_forall. split.
  - intros H c Hin Hk. specialize (H c Hin). apply N.eqb_eq in Hk. rewrite Hk in H.
    destruct (revoked c); [split; [intros _; now apply N.eqb_eq|discriminate]|].
    split; [discriminate|]. intros _ Hp. apply N.eqb_eq in Hp. rewrite Hp in H. now apply N.eqb_eq.
  - intros H c Hin. destruct (num c =? k) eqn:Ek; [|reflexivity]. apply N.eqb_eq in Ek.
    destruct (H c Hin Ek) as [h1 h2]. destruct (revoked c); [apply N.eqb_eq; auto|].
    destruct (phase c =? 1) eqn:Ep; [|reflexivity]. apply N.eqb_eq in Ep. apply N.eqb_eq; auto.
Qed.

(* readable form of the monitor on one disconnect request *)
Lemma disc_ok_spec s id o still :
  disc_ok s id o still = true <->
  forall c, In c s -> matches c id o = true -> phase c = 1 -> ~ In (num c) still.
Proof.
  unfold disc_ok. rewrite forallb_forall. split.
  - intros H c Hin Hm Hp Hs. specialize (H c Hin). apply N.eqb_eq in Hp. rewrite Hm, Hp in H.
    cbn [andb] in H. apply negb_true_iff in H.
    assert (existsb (N.eqb (num c)) still = true); [|congruence].
    apply existsb_exists. exists (num c). split; [assumption|apply N.eqb_refl].
  - intros H c Hin. destruct (matches c id o && (phase c =? 1)) eqn:E; [|reflexivity].
    apply andb_prop in E as [Em Ep]. apply N.eqb_eq in Ep. apply negb_true_iff.
    destruct (existsb _ still) eqn:Ex; [|reflexivity]. exfalso.
    apply existsb_exists in Ex as (x & Hx & Exx). apply N.eqb_eq in Exx. subst x.
    exact (H c Hin Em Ep Hx).
Qed.

(* two requests back to back: every registered connection that EITHER names is stopped —
   in particular a displaced duplicate named only by the second (by endpoint id) after the
   first cancelled the active connection — and each reports what it found in the registry *)
Lemma back_to_back_stops s id o1 o2 c :
  In c s -> matches2 c id o1 o2 = true -> phase c = 1 ->
  inrange s o1 = true -> inrange s o2 = true ->
  In (mkC (num c) (cid c) 2 true false) (fst (exec s (ODisc2 id o1 o2))) /\
  snd (exec s (ODisc2 id o1 o2)) = 10 + 2 * found s id o1 + found s id o2.
Proof.
  intros Hin Hm Hp H1 H2. cbn [exec]. rewrite H1, H2. cbn [andb fst snd]. split; [|reflexivity].
  apply in_map_iff. exists c. split; [|assumption]. rewrite Hm, Hp. reflexivity.
Qed.

Lemma disc_ok2_spec s id o1 o2 still :
  disc_ok2 s id o1 o2 still = true <->
  forall c, In c s -> matches2 c id o1 o2 = true -> phase c = 1 -> ~ In (num c) still.
Proof.
  unfold disc_ok2. rewrite forallb_forall. split.
  - intros H c Hin Hm Hp Hs. specialize (H c Hin). apply N.eqb_eq in Hp. rewrite Hm, Hp in H.
    cbn [andb] in H. apply negb_true_iff in H.
    assert (existsb (N.eqb (num c)) still = true); [|congruence].
    apply existsb_exists. exists (num c). split; [assumption|apply N.eqb_refl].
  - intros H c Hin. destruct (matches2 c id o1 o2 && (phase c =? 1)) eqn:E; [|reflexivity].
    apply andb_prop in E as [Em Ep]. apply N.eqb_eq in Ep. apply negb_true_iff.
    destruct (existsb _ still) eqn:Ex; [|reflexivity]. exfalso.
    apply existsb_exists in Ex as (x & Hx & Exx). apply N.eqb_eq in Exx. subst x.
    exact (H c Hin Em Ep Hx).
Qed.

Example back_to_back_example :
  model [OConnect 0; OConnect 0; ODisc2 0 (Some 1) None; OProbe 0] =
    Ok [(1, []); (1, []); (13, []); (0, [])] /\
  tag [OConnect 0; OConnect 0; ODisc2 0 (Some 1) None; OProbe 0] = 5.
Proof. split; reflexivity. Qed.
End A.

(* ------------------------------------------------------------------------ *)
Module B.
Import C06.

Lemma cancel_cancelled s b c :
  cancelled (conns (cancel s b) c) = cancelled (conns s c) || (c =? b).
Proof.
  unfold cancel. cbn. unfold fupd. destruct (c =? b) eqn:E.
  - apply N.eqb_eq in E. subst. cbn. now rewrite orb_true_r.
  - now rewrite orb_false_r.
Qed.

Lemma fold_cancel_cancelled l : forall s c,
  cancelled (conns (fold_left cancel l s) c) = cancelled (conns s c) || existsb (N.eqb c) l.
Proof.
  induction l as [|b l IH]; intros s c; cbn; [now rewrite orb_false_r|].
  rewrite IH, cancel_cancelled. now rewrite orb_assoc.
Qed.

Lemma existsb_eqb_in c l : In c l -> existsb (N.eqb c) l = true.
Proof. intros H. apply existsb_exists. exists c. split; [assumption|apply N.eqb_refl]. Qed.

(* A disconnect request cancels every REGISTERED connection it names, and reports it. *)
Lemma disconnect_cancels_registered s id o s' c :
  step true s (Disconnect id o) = Some s' ->
  In c (reg s id) -> (o = None \/ o = Some c) ->
  cancelled (conns s' c) = true /\ disc_ret s id o = true.
Proof.
  intros H Hin Ho. cbn [step] in H. unfold disc_ret.
  destruct Ho as [->| ->].
  - injection H as <-. rewrite fold_cancel_cancelled, (existsb_eqb_in c _ Hin), orb_true_r.
    split; [reflexivity|]. now destruct (reg s id).
  - assert (Hex := existsb_eqb_in c _ Hin). rewrite Hex in H. injection H as <-.
    rewrite cancel_cancelled, N.eqb_refl, orb_true_r. split; [reflexivity|].
    destruct (reg s id); [contradiction|exact Hex].
Qed.

(* ... and touches nothing else: the registry, sent_to, pending notices and every other
   connection are unchanged; a touched connection only has its token cancelled. *)
Lemma disconnect_only_cancels s id o s' :
  step true s (Disconnect id o) = Some s' ->
  (forall i, reg s' i = reg s i) /\ sent s' = sent s /\ pending s' = pending s /\ nconns s' = nconns s /\
  forall c, conns s' c = conns s c \/
            (In c (reg s id) /\ (o = None \/ o = Some c) /\ conns s' c = with_cancelled (conns s c) true).
Proof.
  intros H. cbn [step] in H. destruct o as [x|].
  - destruct (existsb (N.eqb x) (reg s id)) eqn:E; injection H as <-.
    + repeat split; auto. intros c. cbn. unfold fupd. destruct (c =? x) eqn:Ec; [|now left].
      apply N.eqb_eq in Ec. subst. right. split; [|auto].
      apply existsb_exists in E as (y & Hy & Ey). apply N.eqb_eq in Ey. now subst.
    + repeat split; auto.
  - injection H as <-.
    assert (G : forall l t, (forall i, reg (fold_left cancel l t) i = reg t i) /\
              sent (fold_left cancel l t) = sent t /\ pending (fold_left cancel l t) = pending t /\
              nconns (fold_left cancel l t) = nconns t /\
              forall c, conns (fold_left cancel l t) c = conns t c \/
                        (In c l /\ conns (fold_left cancel l t) c = with_cancelled (conns t c) true)).
    { induction l as [|b l IHl]; intros t; cbn [fold_left].
      - repeat split; auto.
      - destruct (IHl (cancel t b)) as (h1 & h2 & h3 & h4 & h5). repeat split; auto.
        intros c. destruct (h5 c) as [Hc|[Hin Hc]]; rewrite Hc; cbn; unfold fupd.
        + destruct (c =? b) eqn:Ec; [|now left]. apply N.eqb_eq in Ec. subst. right. split; [now left|reflexivity].
        + right. split; [now right|]. destruct (c =? b) eqn:Ec; [|reflexivity].
          apply N.eqb_eq in Ec. subst. reflexivity. }
    destruct (G (reg s id) s) as (h1 & h2 & h3 & h4 & h5). repeat split; auto.
    intros c. destruct (h5 c) as [Hc|[Hin Hc]]; [now left|right; auto].
Qed.

Lemma enqueue_m_cancelled s a f c : cancelled (conns (enqueue_m s a f) c) = cancelled (conns s c).
Proof.
  unfold enqueue_m. destruct (is_done _); [reflexivity|]. destruct (_ <? _); [|reflexivity].
  cbn. unfold fupd. destruct (c =? a) eqn:E; [|reflexivity]. apply N.eqb_eq in E. now subst.
Qed.

(* Once cancelled, always cancelled: no step of the system resets a connection's token. *)
Lemma cancelled_is_permanent s e s' c :
  c < nconns s -> step true s e = Some s' ->
  cancelled (conns s c) = true -> cancelled (conns s' c) = true.
Proof.
  intros Hc H Hcan.
  destruct e as [id v|x|x|x|x|k|a d tg|x pkt|id o|id|x]; cbn [step] in H.
  - injection H as <-. cbn. rewrite fupd_other by lia. assumption.
  - destruct (_ && _); [|discriminate]. injection H as <-. cbn.
    assert (G : cancelled (conns (match reg s (eid (conns s x)) with
                | [] => set_reg s (eid (conns s x)) [x]
                | a :: rest => set_reg (enqueue_m s a (status_frame (ver (conns s a)) 1)) (eid (conns s x)) (x :: a :: rest)
                end) c) = true).
    { destruct (reg s (eid (conns s x))); cbn; [assumption|now rewrite enqueue_m_cancelled]. }
    unfold fupd. destruct (c =? x) eqn:E; [|exact G]. apply N.eqb_eq in E. subst. cbn. exact G.
  - destruct (_ <? _); [|discriminate]. injection H as <-. cbn. unfold fupd.
    destruct (c =? x) eqn:E; [|assumption]. apply N.eqb_eq in E. now subst.
  - destruct (is_running _); [|discriminate]. injection H as <-. cbn. unfold fupd.
    destruct (c =? x) eqn:E; [|assumption]. apply N.eqb_eq in E. now subst.
  - destruct (_ && _); [|discriminate]. injection H as <-.
    set (id := eid (conns s x)) in *.
    assert (G : cancelled (conns (match reg s id with
                | [] => s
                | a :: rest => if a =? x then match rest with
                      | p :: _ => enqueue_m (set_reg s id rest) p (status_frame (ver (conns s p)) 0)
                      | [] => set_pending (set_sent (set_reg s id []) id []) (pending s ++ map (fun p => (id, p)) (sent s id))
                      end else set_reg s id (a :: filter (fun y => negb (y =? x)) rest)
                end) c) = true).
    { destruct (reg s id) as [|a rest]; [assumption|]. destruct (a =? x); [|assumption].
      destruct rest; [assumption|]. now rewrite enqueue_m_cancelled. }
    cbn. unfold fupd. destruct (c =? x) eqn:E; [|exact G]. apply N.eqb_eq in E. subst. cbn. exact G.
  - destruct (nth_error _ _) as [[gone peer]|]; [|discriminate].
    destruct (reg (set_pending s _) peer); injection H as <-; [assumption|].
    now rewrite enqueue_m_cancelled.
  - destruct (is_running _); [|discriminate].
    destruct (reg s d) as [|b rest]; [injection H as <-; assumption|].
    destruct (is_done _); [injection H as <-; now rewrite cancel_cancelled, Hcan|].
    destruct (_ <? _); injection H as <-; [|assumption].
    cbn. unfold fupd. destruct (c =? b) eqn:E; [|assumption]. apply N.eqb_eq in E. now subst.
  - destruct (is_running _); [|discriminate].
    destruct pkt; [destruct (pq _)|destruct (mq _)]; try discriminate; injection H as <-; cbn; unfold fupd;
      (destruct (c =? x) eqn:E; [|assumption]); apply N.eqb_eq in E; now subst.
  - destruct o as [y|].
    + destruct (existsb _ _); injection H as <-; [|assumption]. now rewrite cancel_cancelled, Hcan.
    + injection H as <-. now rewrite fold_cancel_cancelled, Hcan.
  - injection H as <-. cbn. now destruct (existsb _ _).
  - destruct (taken _); [|discriminate]. injection H as <-. now rewrite cancel_cancelled, Hcan.
Qed.

Lemma nconns_mono s e s' : step true s e = Some s' -> nconns s <= nconns s'.
Proof.
  intros H. destruct e; try (pose proof (step_same_reg s _ s' H) as (h & _); cbn in h; lia).
  - cbn in H. injection H as <-. cbn. lia.
  - cbn [step] in H. destruct (_ && _); [|discriminate].
    pose proof (insert_entry s c (eid (conns s c))) as G. cbv zeta in G. destruct G as (h & _).
    injection H as <-. cbn. cbn in h. lia.
  - cbn [step] in H. destruct (_ && _); [|discriminate]. injection H as <-. cbn.
    destruct (reg s (eid (conns s c))) as [|a rest]; [lia|]. destruct (a =? c); [|cbn; lia].
    destruct rest; [cbn; lia|].
    destruct (same_reg_enqueue_m (set_reg s (eid (conns s c)) (n :: rest)) n (status_frame (ver (conns s n)) 0)) as (h & _).
    rewrite h. cbn. lia.
  - cbn [step] in H. injection H as <-. cbn. lia.
Qed.

Lemma run_cancelled tr : forall s s' c,
  c < nconns s -> run true s tr = Some s' -> cancelled (conns s c) = true -> cancelled (conns s' c) = true.
Proof.
  induction tr as [|e tr IH]; cbn; intros s s' c Hc H Hcan; [injection H as <-; assumption|].
  destruct (step true s e) as [s1|] eqn:E; [|discriminate].
  apply (IH s1 s' c); [pose proof (nconns_mono _ _ _ E); lia|assumption|].
  eapply cancelled_is_permanent; eassumption.
Qed.

(* revoked_stops: in every interleaving, a disconnect request that names a connection which
   is registered at that moment (by its connection id, or by its endpoint id) returns true
   and leaves that connection cancelled for the rest of the run, whatever happens next. *)
Lemma revoked_stops cap tr1 tr2 s1 s2 id o c :
  run true (init cap) tr1 = Some s1 ->
  In c (reg s1 id) -> (o = None \/ o = Some c) ->
  run true s1 (Disconnect id o :: tr2) = Some s2 ->
  disc_ret s1 id o = true /\ cancelled (conns s2 c) = true.
Proof.
  intros H1 Hin Ho H2. cbn [run] in H2.
  destruct (step true s1 (Disconnect id o)) as [s'|] eqn:E; [|discriminate].
  destruct (disconnect_cancels_registered _ _ _ _ _ E Hin Ho) as [h1 h2]. split; [assumption|].
  assert (Hc : c < nconns s1).
  { pose proof (run_Inv _ _ _ H1) as I. destruct (registered_are_live _ _ _ H1 id c Hin) as [[hi _] _].
    destruct (N.lt_ge_cases c (nconns s1)) as [?|Hge]; [assumption|].
    destruct (inv_fresh s1 I c Hge). congruence. }
  apply (run_cancelled tr2 s' s2 c); [pose proof (nconns_mono _ _ _ E); lia|assumption|assumption].
Qed.

(* what "cancelled" means for service: the actor's select is biased and polls the token
   first (client.rs:382-390), so in the scheduler of the correspondence scripts ([settle])
   a cancelled running connection leaves its loop before any queued frame is written. *)
Lemma doev_exit_other s c c' : c' <> c -> conns (doev s (Exit c)) c' = conns s c'.
Proof.
  intros Hne. unfold doev. cbn [step]. destruct (is_running _); [|reflexivity].
  cbn. now rewrite fupd_other.
Qed.

Lemma doev_exit_same s c :
  cstate (conns s c) = Running -> cstate (conns (doev s (Exit c)) c) = Exited.
Proof. intros H. unfold doev. cbn [step]. rewrite H. cbn. now rewrite fupd_same. Qed.

Lemma settle_exits_fold l : forall s c,
  NoDup l -> In c l -> cstate (conns s c) = Running -> cancelled (conns s c) = true ->
  cstate (conns (fold_left (fun s c => let x := conns s c in
      if is_running (cstate x) && (cancelled x || closed x) then doev s (Exit c) else s) l s) c) = Exited.
Proof.
  induction l as [|b l IH]; intros s c Hnd Hin Hr Hc; [contradiction|].
  inversion Hnd as [|? ? Hnb Hnd']. subst. cbn [fold_left].
  destruct Hin as [->|Hin].
  - cbv zeta. rewrite Hr, Hc. cbn [is_running andb orb].
    assert (G : forall l' t, ~ In c l' -> cstate (conns t c) = Exited ->
      cstate (conns (fold_left (fun s c => let x := conns s c in
        if is_running (cstate x) && (cancelled x || closed x) then doev s (Exit c) else s) l' t) c) = Exited).
    { induction l' as [|d l' IHl']; intros t Hn Ht; [assumption|]. cbn [fold_left]. apply IHl'.
      - intros Hx. apply Hn. now right.
      - cbv zeta. destruct (_ && _); [|assumption]. rewrite doev_exit_other; [assumption|].
        intros ->. apply Hn. now left. }
    apply G; [assumption|now apply doev_exit_same].
  - assert (Hne : c <> b) by (intros ->; contradiction).
    apply IH; try assumption; cbv zeta; (destruct (_ && _); [rewrite doev_exit_other by assumption|]); assumption.
Qed.

Lemma cancelled_exits_first s c :
  c < nconns s -> cstate (conns s c) = Running -> cancelled (conns s c) = true ->
  cstate (conns (settle_exits s) c) = Exited.
Proof.
  intros Hc Hr Hcan. unfold settle_exits. apply settle_exits_fold; try assumption.
  - unfold crange. apply Injective_map_NoDup; [intros x y; apply Nat2N.inj|apply seq_NoDup].
  - unfold crange. apply in_map_iff. exists (N.to_nat c). split; [apply N2Nat.id|]. apply in_seq. lia.
Qed.

(* ... with whatever is queued for it: after a full scheduler round ([settle]: exits of
   cancelled / closed connections first, then every running actor drains its queues) a running
   connection whose token is cancelled has left its loop, nothing queued for it has been written
   to its client, and both queues are as they were. *)
Lemma cancelled_exits_before_queues s c :
  c < nconns s -> cstate (conns s c) = Running -> cancelled (conns s c) = true ->
  cstate (conns (settle s) c) = Exited /\ got (conns (settle s) c) = got (conns s c) /\
  pq (conns (settle s) c) = pq (conns s c) /\ mq (conns (settle s) c) = mq (conns s c).
Proof.
  intros Hc Hr Hcan. destruct (settle_spec s) as [_ H]. rewrite H.
  apply N.ltb_lt in Hc. rewrite Hc. unfold settle_conn, drain_conn, exit_conn.
  rewrite Hr, Hcan. cbn. repeat split.
Qed.

(* non-vacuity: a full packet queue at the moment of the request *)
Example busy_cancelled_example :
  exists s, run true (init 2)
    [Spawn 0 2; Insert 0; Spawn 1 2; Insert 1; Send 1 0 7; Send 1 0 8; Disconnect 0 None] = Some s /\
    pq (conns s 0) = [FData 1 7; FData 1 8] /\ cancelled (conns s 0) = true /\
    cstate (conns (settle s) 0) = Exited /\ got (conns (settle s) 0) = [] /\
    cstate (conns (settle s) 1) = Running.
Proof. eexists. split; [vm_compute; reflexivity|]. vm_compute. repeat split. Qed.

(* The finding: a request that arrives before the connection is registered finds nothing,
   changes nothing and returns false; the connection registers afterwards, is the active one,
   runs, and is not cancelled. *)
Definition early_revocation : list event :=
  [Spawn 0 2; Insert 0;            (* some other endpoint's connection, to show it is unaffected *)
   Disconnect 1 (Some 1);          (* connection 1 of endpoint 1 is admitted but not yet registered *)
   Spawn 1 2; Insert 1].
Lemma early_revocation_missed :
  exists s, run true (init 3) early_revocation = Some s /\
            disc_ret (init 3) 1 (Some 1) = false /\
            reg s 1 = [1] /\ cstate (conns s 1) = Running /\ cancelled (conns s 1) = false.
Proof. eexists. split; [vm_compute; reflexivity|]. repeat split. Qed.

Lemma disconnect_misses_unregistered s id c :
  ~ In c (reg s id) ->
  step true s (Disconnect id (Some c)) = Some s /\ disc_ret s id (Some c) = false.
Proof.
  intros Hn. cbn [step]. unfold disc_ret.
  assert (E : existsb (N.eqb c) (reg s id) = false).
  { destruct (existsb _ _) eqn:E; [|reflexivity]. apply existsb_exists in E as (y & Hy & Ey).
    apply N.eqb_eq in Ey. subst. contradiction. }
  rewrite E. split; [reflexivity|]. now destruct (reg s id).
Qed.
End B.
