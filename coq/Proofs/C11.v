(* C11 — proofs about the version negotiation model.  All lemmas about the version table are
   generic in the table (side conditions [table_ok] closed by computation), so a new version in
   the source only changes [versions] and re-runs the same proofs. *)
From V Require Import Lib.Base Model.C11.
From Coq Require Import ZifyBool.
Import C11.
Open Scope N_scope.

(* ------------------------------------------------------------------ max *)
Lemma fold_max_ge l : forall x, x <= fold_left N.max l x.
Proof. induction l as [|a l IH]; intros x; cbn [fold_left]; [lia|]. specialize (IH (N.max x a)). lia. Qed.

Lemma fold_max_in l : forall x, fold_left N.max l x = x \/ In (fold_left N.max l x) l.
Proof.
  induction l as [|a l IH]; intros x; cbn [fold_left]; [now left|].
  destruct (IH (N.max x a)) as [H|H].
  - rewrite H. destruct (N.max_spec x a) as [[_ ->]|[_ ->]]; [right; now left|now left].
  - right. now right.
Qed.

Lemma fold_max_ub l : forall x w, In w l -> w <= fold_left N.max l x.
Proof.
  induction l as [|a l IH]; intros x w; cbn [fold_left In]; [tauto|].
  intros [->|H]; [|now apply IH].
  pose proof (fold_max_ge l (N.max x w)). lia.
Qed.

Lemma max_list_spec l v :
  max_list l = Some v <-> In v l /\ forall w, In w l -> w <= v.
Proof.
  destruct l as [|x r]; cbn [max_list].
  - split; [discriminate|]. intros [[] _].
  - split.
    + intros [= <-]. split.
      * destruct (fold_max_in r x) as [->|H]; [now left|now right].
      * intros w [<-|H]; [apply fold_max_ge|now apply fold_max_ub].
    + intros [Hin Hub]. f_equal. apply N.le_antisymm.
      * destruct (fold_max_in r x) as [->|H]; apply Hub; [now left|now right].
      * destruct Hin as [<-|H]; [apply fold_max_ge|now apply fold_max_ub].
Qed.

Lemma max_list_none l : max_list l = None <-> l = [].
Proof. destruct l; cbn; split; congruence. Qed.

(* ------------------------------------------------------------------ filter_map *)
Lemma in_filter_map {A B} (f : A -> option B) l b :
  In b (filter_map f l) <-> exists a, In a l /\ f a = Some b.
Proof.
  induction l as [|a l IH]; cbn [filter_map In].
  - split; [tauto|]. intros (a & [] & _).
  - destruct (f a) as [b'|] eqn:E; cbn [In]; rewrite IH; split.
    + intros [<-|(a' & H1 & H2)]; [exists a; auto|exists a'; auto].
    + intros (a' & [<-|H1] & H2); [left; congruence|right; eauto].
    + intros (a' & H1 & H2). exists a'; auto.
    + intros (a' & [<-|H1] & H2); [congruence|eauto].
Qed.

(* ------------------------------------------------------------------ the version table *)
Definition lookup_str (t : list (N * bytes)) (v : N) : option bytes :=
  option_map snd (find (fun p => fst p =? v) t).
Definition lookup_ver (t : list (N * bytes)) (s : bytes) : option N :=
  option_map fst (find (fun p => bytes_eqb (snd p) s) t).

(* no rank and no identifier occurs twice; identifiers are header text without surrounding space *)
Fixpoint table_ok (t : list (N * bytes)) : bool :=
  match t with
  | [] => true
  | (v, s) :: r =>
      negb (existsb (fun p => fst p =? v) r) && negb (existsb (fun p => bytes_eqb (snd p) s) r) &&
      to_str_ok s && table_ok r
  end.

Lemma versions_ok : table_ok versions = true.
Proof. vm_compute. reflexivity. Qed.

Lemma bytes_eqb_true_iff a b : bytes_eqb a b = true <-> a = b.
Proof. split; [apply bytes_eqb_eq|intros ->; apply bytes_eqb_refl]. Qed.

Lemma lookup_ver_in t s v : lookup_ver t s = Some v -> In (v, s) t.
Proof.
  unfold lookup_ver. destruct (find _ t) as [[v' s']|] eqn:E; [|discriminate].
  cbn. intros [= <-]. apply find_some in E as [Hin Heq]. cbn in Heq.
  apply bytes_eqb_eq in Heq. now subst.
Qed.

Lemma in_lookup_ver t s v : table_ok t = true -> In (v, s) t -> lookup_ver t s = Some v.
Proof.
  induction t as [|[v' s'] r IH]; cbn [table_ok In]; [tauto|].
  intros Hok Hin. repeat (apply andb_prop in Hok as [Hok ?]).
  unfold lookup_ver. cbn [find snd].
  destruct Hin as [[= -> ->]|Hin].
  - now rewrite bytes_eqb_refl.
  - destruct (bytes_eqb s' s) eqn:E.
    + apply bytes_eqb_eq in E. subst s'. exfalso.
      apply negb_true_iff in H1. assert (existsb (fun p => bytes_eqb (snd p) s) r = true); [|congruence].
      apply existsb_exists. exists (v, s). split; [exact Hin|apply bytes_eqb_refl].
    + now apply IH.
Qed.

Lemma lookup_str_in t s v : lookup_str t v = Some s -> In (v, s) t.
Proof.
  unfold lookup_str. destruct (find _ t) as [[v' s']|] eqn:E; [|discriminate].
  cbn. intros [= <-]. apply find_some in E as [Hin Heq]. cbn in Heq.
  apply N.eqb_eq in Heq. now subst.
Qed.

Lemma in_lookup_str t s v : table_ok t = true -> In (v, s) t -> lookup_str t v = Some s.
Proof.
  induction t as [|[v' s'] r IH]; cbn [table_ok In]; [tauto|].
  intros Hok Hin. repeat (apply andb_prop in Hok as [Hok ?]).
  unfold lookup_str. cbn [find fst].
  destruct Hin as [[= -> ->]|Hin].
  - now rewrite N.eqb_refl.
  - destruct (N.eqb_spec v' v) as [->|].
    + exfalso. apply negb_true_iff in Hok.
      assert (existsb (fun p => fst p =? v) r = true); [|congruence].
      apply existsb_exists. exists (v, s). split; [exact Hin|apply N.eqb_refl].
    + now apply IH.
Qed.

Lemma table_text t v s : table_ok t = true -> In (v, s) t -> to_str_ok s = true.
Proof.
  induction t as [|[v' s'] r IH]; cbn [table_ok In]; [tauto|].
  intros Hok Hin. repeat (apply andb_prop in Hok as [Hok ?]).
  destruct Hin as [[= -> ->]|Hin]; auto.
Qed.

(* match_from_str and to_str are inverse on the table *)
Lemma match_from_str_spec s v : match_from_str s = Some v <-> In (v, s) versions.
Proof. split; [apply lookup_ver_in|apply in_lookup_ver, versions_ok]. Qed.

Lemma version_str_spec s v : version_str v = Some s <-> In (v, s) versions.
Proof. split; [apply lookup_str_in|apply in_lookup_str, versions_ok]. Qed.

Lemma match_from_str_version_str s v : match_from_str s = Some v <-> version_str v = Some s.
Proof. now rewrite match_from_str_spec, version_str_spec. Qed.

(* ------------------------------------------------------------------ the server's choice *)
Lemma offered_spec h v :
  In v (offered h) <-> exists tok, In tok (split_comma h) /\ match_from_str (trim tok) = Some v.
Proof.
  unfold offered. rewrite in_filter_map. split.
  - intros (a & Ha & Hm). apply in_map_iff in Ha as (tok & <- & Hin). eauto.
  - intros (tok & Hin & Hm). exists (trim tok). split; [now apply in_map|exact Hm].
Qed.

Lemma pick_spec h v :
  server_pick h = Ok v <->
  to_str_ok h = true /\ In v (offered h) /\ forall w, In w (offered h) -> w <= v.
Proof.
  unfold server_pick. destruct (to_str_ok h); cbn [negb].
  - destruct (max_list (offered h)) as [m|] eqn:E.
    + apply max_list_spec in E as [Hin Hub]. split.
      * intros [= <-]. auto.
      * intros (_ & Hin' & Hub'). f_equal. apply N.le_antisymm; auto.
    + apply max_list_none in E. rewrite E. split; [discriminate|]. intros (_ & [] & _).
  - split; [discriminate|]. intros (H & _); discriminate.
Qed.

Lemma pick_none_iff h :
  server_pick h = Err E_UNSUPPORTED <-> to_str_ok h = true /\ offered h = [].
Proof.
  unfold server_pick. destruct (to_str_ok h); cbn [negb].
  - destruct (max_list (offered h)) as [m|] eqn:E.
    + split; [discriminate|]. intros [_ H]. rewrite H in E. discriminate.
    + apply max_list_none in E. split; auto.
  - split; [discriminate|]. intros [H _]; discriminate.
Qed.

Lemma pick_total h : server_pick h <> Panic.
Proof. unfold server_pick. destruct (negb _); [discriminate|]. destruct (max_list _); discriminate. Qed.

(* the relay upgrades iff the (text) header offers a supported version *)
Lemma upgrade_iff h :
  to_str_ok h = true ->
  ((exists v, server [h] = Ok v) <-> exists tok v, In tok (split_comma h) /\ match_from_str (trim tok) = Some v).
Proof.
  intros Ht. cbn [server]. split.
  - intros (v & H). apply pick_spec in H as (_ & Hin & _). apply offered_spec in Hin as (tok & ? & ?). eauto.
  - intros (tok & v & Hin & Hm).
    assert (Ho : In v (offered h)) by (apply offered_spec; eauto).
    unfold server_pick. rewrite Ht. cbn [negb].
    destruct (max_list (offered h)) as [m|] eqn:E; [eauto|].
    apply max_list_none in E. rewrite E in Ho. destruct Ho.
Qed.

(* ------------------------------------------------------------------ the client *)
Lemma client_spec st a v :
  client st a = Ok v <-> st = 101 /\ exists s, a = Some s /\ In (v, s) versions.
Proof.
  unfold client. destruct (N.eqb_spec st 101) as [->|Hne]; cbn [negb].
  - destruct a as [s|].
    + destruct (to_str_ok s) eqn:Ht; cbn [negb].
      * destruct (match_from_str s) as [w|] eqn:E.
        -- split.
           ++ intros [= <-]. split; [reflexivity|]. exists s. split; [reflexivity|now apply match_from_str_spec].
           ++ intros (_ & s' & [= <-] & Hin). apply match_from_str_spec in Hin. congruence.
        -- split; [discriminate|]. intros (_ & s' & [= <-] & Hin). apply match_from_str_spec in Hin. congruence.
      * split; [discriminate|]. intros (_ & s' & [= <-] & Hin).
        pose proof (table_text _ _ _ versions_ok Hin). congruence.
    + split; [discriminate|]. intros (_ & s & H & _). discriminate.
  - split; [discriminate|]. intros [H _]. congruence.
Qed.

(* both ends speak the version the server picked *)
Lemma negotiation_agrees lines v :
  server lines = Ok v ->
  exists s, server_answer lines = Ok s /\ client 101 (Some s) = Ok v.
Proof.
  intros H. unfold server_answer. rewrite H.
  assert (Hin : exists s, In (v, s) versions).
  { destruct lines as [|h r]; [discriminate|]. cbn [server] in H.
    apply pick_spec in H as (_ & Hin & _). apply offered_spec in Hin as (tok & _ & Hm).
    apply match_from_str_spec in Hm. eauto. }
  destruct Hin as (s & Hin). rewrite (proj2 (version_str_spec s v) Hin).
  exists s. split; [reflexivity|]. apply client_spec. split; [reflexivity|]. eauto.
Qed.

Lemma server_answer_total lines : server_answer lines <> Panic.
Proof.
  unfold server_answer. destruct (server lines) as [v|e|] eqn:E; try discriminate.
  - destruct (negotiation_agrees lines v E) as (s & H & _). unfold server_answer in H. rewrite E in H.
    rewrite H. discriminate.
  - destruct lines as [|h r]; [discriminate|]. cbn [server] in E. now apply pick_total in E.
Qed.

(* ------------------------------------------------------------------ the model's own output satisfies the monitor *)
Lemma model_monitor i : monitor i (model i) = true.
Proof.
  destruct i as [lines|s|st a|].
  - cbn [model monitor].
    destruct lines as [|h [|h2 r]].
    + reflexivity.
    + destruct (to_str_ok h) eqn:Ht; cbn [negb]; [|reflexivity].
      destruct (server [h]) as [v|e|] eqn:E.
      * destruct (negotiation_agrees [h] v E) as (s & Hs & Hc). rewrite Hs.
        pose proof (proj1 (client_spec _ _ _) Hc) as (_ & s' & [= <-] & Hin).
        rewrite (proj2 (match_from_str_spec s v) Hin).
        cbn [server] in E. apply pick_spec in E as (_ & Ho & Hub).
        rewrite Hc. cbn [res_eqb]. rewrite N.eqb_refl, andb_true_r.
        apply andb_true_intro; split.
        -- apply existsb_exists. exists v. split; [exact Ho|apply N.eqb_refl].
        -- apply forallb_forall. intros w Hw. specialize (Hub w Hw). lia.
      * unfold server_answer. rewrite E. cbn [server] in E.
        unfold server_pick in E. rewrite Ht in E. cbn [negb] in E.
        destruct (max_list (offered h)) eqn:Em; [discriminate|].
        apply max_list_none in Em. now rewrite Em.
      * cbn [server] in E. now apply pick_total in E.
    + pose proof (server_answer_total (h :: h2 :: r)). destruct (server_answer (h :: h2 :: r)); cbn; congruence.
  - cbn [model monitor]. destruct (match_from_str s) as [v|] eqn:E.
    + apply match_from_str_version_str in E. rewrite E. cbn. apply bytes_eqb_refl.
    + apply negb_true_iff. destruct (existsb _ versions) eqn:Ex; [|reflexivity].
      apply existsb_exists in Ex as ([v s'] & Hin & Heq). cbn in Heq. apply bytes_eqb_eq in Heq. subst s'.
      apply match_from_str_spec in Hin. congruence.
  - cbn [model monitor]. destruct (client st a) as [v|e|] eqn:E; try reflexivity.
    + apply client_spec in E as (-> & s & -> & Hin). cbn [N.eqb andb].
      rewrite (proj2 (match_from_str_spec s v) Hin). reflexivity.
    + unfold client in E. destruct (negb _); [discriminate|]. destruct a as [s|]; [|discriminate].
      destruct (negb _); [discriminate|]. destruct (match_from_str s); discriminate.
  - cbn [model monitor]. apply list_eqb_refl. intros [v s]. unfold pair_eqb. cbn. now rewrite N.eqb_refl, bytes_eqb_refl.
Qed.

(* ------------------------------------------------------------------ the monitor in readable form (server, one text header line) *)
Lemma monitor_server_spec h r :
  to_str_ok h = true ->
  (monitor (IServer [h]) (OServer r) = true <->
   (exists a v, r = Ok a /\ In (v, a) versions /\ In v (offered h) /\
                (forall w, In w (offered h) -> w <= v) /\ client 101 (Some a) = Ok v)
   \/ ((exists e, r = Err e) /\ offered h = [])).
Proof.
  intros Ht. cbn [monitor]. rewrite Ht. cbn [negb]. destruct r as [a|e|].
  - split.
    + destruct (match_from_str a) as [v|] eqn:E; [|discriminate]. intros H.
      apply andb_prop in H as [H Hc]. apply andb_prop in H as [Hex Hall].
      left. exists a, v. split; [reflexivity|]. split; [now apply match_from_str_spec|].
      apply existsb_exists in Hex as (x & Hx & Heq). apply N.eqb_eq in Heq. subst x.
      split; [exact Hx|]. split.
      * intros w Hw. rewrite forallb_forall in Hall. specialize (Hall w Hw). lia.
      * destruct (client 101 (Some a)) as [x| |]; cbn in Hc; try discriminate. apply N.eqb_eq in Hc. now subst.
    + intros [(a' & v & [= <-] & Hin & Ho & Hub & Hc)|[(e & He) _]]; [|discriminate].
      rewrite (proj2 (match_from_str_spec a v) Hin), Hc. cbn [res_eqb]. rewrite N.eqb_refl, andb_true_r.
      apply andb_true_intro; split.
      * apply existsb_exists. exists v. split; [exact Ho|apply N.eqb_refl].
      * apply forallb_forall. intros w Hw. specialize (Hub w Hw). lia.
  - split.
    + intros H. right. split; [eauto|]. destruct (offered h); [reflexivity|discriminate].
    + intros [(a & v & H & _)|[_ ->]]; [discriminate|reflexivity].
  - split; [discriminate|]. intros [(a & v & H & _)|[(e & H) _]]; discriminate.
Qed.

(* ------------------------------------------------------------------ non-vacuity and witnesses *)
Example negotiation_examples :
  server_answer [str_bytes "iroh-relay-v2,iroh-relay-v1"] = Ok (str_bytes "iroh-relay-v2") /\
  server_answer [str_bytes "baz, iroh-relay-v1, iroh-relay-v2, boo"] = Ok (str_bytes "iroh-relay-v2") /\
  server_answer [str_bytes " iroh-relay-v1	"] = Ok (str_bytes "iroh-relay-v1") /\
  server_answer [str_bytes "iroh-relay-v1,iroh-relay-v1"] = Ok (str_bytes "iroh-relay-v1") /\
  server_answer [str_bytes "IROH-RELAY-V2"] = Err E_UNSUPPORTED /\
  server_answer [str_bytes "iroh-relay-v1 iroh-relay-v2"] = Err E_UNSUPPORTED /\
  server_answer [str_bytes ""] = Err E_UNSUPPORTED /\
  server_answer [] = Err E_MISSING /\
  server_answer [[105; 233]] = Err E_NOT_ASCII /\
  (* only the first header line is looked at *)
  server_answer [str_bytes "iroh-relay-v1"; str_bytes "iroh-relay-v2"] = Ok (str_bytes "iroh-relay-v1") /\
  server_answer [str_bytes "foo"; str_bytes "iroh-relay-v2"] = Err E_UNSUPPORTED /\
  client 101 (Some (str_bytes "iroh-relay-v2")) = Ok 2 /\
  client 101 (Some (str_bytes " iroh-relay-v2")) = Err E_BAD_VERSION /\
  client 101 (Some (str_bytes "iroh-relay-v2, iroh-relay-v1")) = Err E_BAD_VERSION /\
  client 101 None = Err E_BAD_VERSION /\
  client 200 (Some (str_bytes "iroh-relay-v2")) = Err E_STATUS.
Proof. vm_compute. repeat split. Qed.
