(* C33 — proofs: invariants of the CAS loop over arbitrary traces. *)
From V Require Import Lib.Base Lib.MachineInt Model.C33.
From Coq Require Import ZifyBool Sorted.
Import C33.
Open Scope N_scope.

Definition desc (l : list N) : Prop := StronglySorted (fun a b => b < a) l.
Definition rvals (s : st) : list N := map snd (rets s).

Record inv (c0 : N) (s : st) : Prop := {
  i_last  : forall t m l, loc s t = Loaded m l -> l <= cell s;
  i_won   : forall t v, loc s t = Won v -> In v (wins s);
  i_le    : forall v, In v (wins s) -> c0 < v /\ v <= cell s;
  i_c0    : c0 <= cell s;
  i_desc  : desc (wins s);
  i_hd    : cell s = hd c0 (wins s);
  i_ret   : forall v, In v (rvals s) -> In v (wins s);
  i_nodup : NoDup (rvals s);
  i_fresh : forall t v, loc s t = Won v -> ~ In v (rvals s);
  i_uniq  : forall t t' v, loc s t = Won v -> loc s t' = Won v -> t = t';
  i_dead  : 0 < panics s -> U64_MAX <= cell s
}.

Lemma inv_init c0 : inv c0 (init c0).
Proof.
  constructor; cbn; try discriminate; try tauto; try lia.
  - constructor.
  - constructor.
Qed.

Lemma upd_same f t x : upd f t x t = x.
Proof. unfold upd. now rewrite Nat.eqb_refl. Qed.
Lemma upd_other f t x t' : t' <> t -> upd f t x t' = f t'.
Proof. unfold upd. intros H. apply Nat.eqb_neq in H. now rewrite H. Qed.

Ltac upd_cases t t' :=
  destruct (Nat.eq_dec t' t) as [->|?]; [rewrite upd_same in *|rewrite upd_other in * by assumption].

(* steps that only change one thread's local state to a non-Won state holding a value <= cell *)
Lemma inv_set_loc c0 s t x :
  inv c0 s ->
  (forall m l, x = Loaded m l -> l <= cell s) ->
  (forall v, x <> Won v) ->
  inv c0 (set_loc s t x).
Proof.
  intros I Hl Hw. destruct I. constructor; cbn; auto.
  - intros t' m l. upd_cases t t'; eauto.
  - intros t' v. upd_cases t t'; [intros E; now apply Hw in E|eauto].
  - intros t' v. upd_cases t t'; [intros E; now apply Hw in E|eauto].
  - intros t1 t2 v. upd_cases t t1; [intros E; now apply Hw in E|].
    upd_cases t t2; [intros _ E; now apply Hw in E|eauto].
Qed.

Lemma inv_dead c0 s t m :
  inv c0 s -> loc s t = Loaded m U64_MAX ->
  inv c0 (mk (cell s) (upd (loc s) t Dead) (wins s) (rets s) (panics s + 1)).
Proof.
  intros I Hl. pose proof (i_last _ _ I _ _ _ Hl) as Hle.
  destruct (inv_set_loc c0 s t Dead I ltac:(discriminate) ltac:(discriminate)).
  constructor; cbn in *; auto.
Qed.

Lemma step_inv c0 s e : inv c0 s -> inv c0 (step s e).
Proof.
  intros I. destruct e as [t a]. unfold step.
  destruct a as [mc| | | |]; destruct (loc s t) as [|m|m last|v|] eqn:Hloc; try exact I.
  - apply inv_set_loc; [exact I|discriminate|discriminate].
  - apply inv_set_loc; [exact I|discriminate|discriminate].
  - apply inv_set_loc; [exact I| |discriminate]. intros ? ? [= _ <-]. lia.
  - (* Cas *)
    destruct (N.eqb_spec last U64_MAX) as [->|Hmax]; [now apply (inv_dead c0 s t m)|].
    destruct (N.eqb_spec (cell s) last) as [Hc|Hc].
    + (* success *)
      set (next := N.max m (last + 1)).
      assert (Hn : cell s < next) by (unfold next; lia).
      destruct I. constructor; cbn.
      * intros t' m' l. upd_cases t t'; [discriminate|]. intros E. apply i_last0 in E. lia.
      * intros t' v. upd_cases t t'; [intros [= <-]; now left|]. intros E. right. eauto.
      * intros v [<-|Hv]; [lia|]. apply i_le0 in Hv. lia.
      * lia.
      * constructor; [exact i_desc0|]. apply Forall_forall. intros v Hv. apply i_le0 in Hv. lia.
      * reflexivity.
      * intros v Hv. right. auto.
      * exact i_nodup0.
      * intros t' v. upd_cases t t'.
        -- intros [= <-] Hin. apply i_ret0 in Hin. apply i_le0 in Hin. lia.
        -- eauto.
      * intros t1 t2 v. upd_cases t t1; upd_cases t t2; auto.
        -- intros [= <-] E. apply i_won0 in E. apply i_le0 in E. lia.
        -- intros E [= <-]. apply i_won0 in E. apply i_le0 in E. lia.
        -- eauto.
      * intros Hp. apply i_dead0 in Hp. lia.
    + apply inv_set_loc; [exact I| |discriminate]. intros ? ? [= _ <-]. lia.
  - (* CasSpur *)
    destruct (N.eqb_spec last U64_MAX) as [->|Hmax]; [now apply (inv_dead c0 s t m)|].
    apply inv_set_loc; [exact I| |discriminate]. intros ? ? [= _ <-]. lia.
  - (* Ret *)
    destruct I. constructor; cbn; unfold rvals in *; cbn.
    + intros t' m l. upd_cases t t'; [discriminate|eauto].
    + intros t' w. upd_cases t t'; [discriminate|eauto].
    + exact i_le0.
    + exact i_c1.
    + exact i_desc0.
    + exact i_hd0.
    + intros w [<-|Hw]; eauto.
    + constructor; [eapply i_fresh0; eauto|exact i_nodup0].
    + intros t' w. upd_cases t t'; [discriminate|]. intros E [<-|Hin].
      * assert (t' = t) by (eapply i_uniq0; eauto). contradiction.
      * eapply i_fresh0; eauto.
    + intros t1 t2 w. upd_cases t t1; [discriminate|]. upd_cases t t2; [discriminate|eauto].
    + exact i_dead0.
Qed.

Lemma run_inv c0 tr : forall s, inv c0 s -> inv c0 (run s tr).
Proof.
  induction tr as [|e tr IH]; intros s I; [exact I|].
  change (run s (e :: tr)) with (run (step s e) tr). apply IH. now apply step_inv.
Qed.

Lemma reach_inv c0 tr : inv c0 (run (init c0) tr).
Proof. apply run_inv, inv_init. Qed.

(* ---------- the cell never decreases; it changes only by a successful CAS, which strictly increases it ---------- *)
Lemma step_cell s e :
  cell s <= cell (step s e) /\
  (wins (step s e) = wins s /\ cell (step s e) = cell s \/
   wins (step s e) = cell (step s e) :: wins s /\ cell s < cell (step s e)).
Proof.
  destruct e as [t a]. unfold step.
  destruct a as [mc| | | |]; destruct (loc s t) as [|m|m last|v|]; cbn; try (split; [lia|left; split; reflexivity]).
  - destruct (last =? U64_MAX); cbn; [split; [lia|left; split; reflexivity]|].
    destruct (N.eqb_spec (cell s) last); cbn; [|split; [lia|left; split; reflexivity]].
    split; [lia|right; split; [reflexivity|lia]].
  - destruct (last =? U64_MAX); cbn; split; try lia; left; split; reflexivity.
Qed.

Lemma run_cell_mono tr : forall s, cell s <= cell (run s tr).
Proof.
  induction tr as [|e tr IH]; intros s; [cbn; lia|].
  change (run s (e :: tr)) with (run (step s e) tr).
  pose proof (step_cell s e) as [H _]. specialize (IH (step s e)). lia.
Qed.

Lemma cell_strictly_increasing c0 tr :
  let s := run (init c0) tr in
  desc (wins s) /\ cell s = hd c0 (wins s) /\ (forall v, In v (wins s) -> c0 < v <= cell s).
Proof.
  cbn. pose proof (reach_inv c0 tr) as I. destruct I. repeat split; auto; apply i_le0; auto.
Qed.

(* ---------- returned values ---------- *)
Lemma returns_are_cell_values c0 tr v :
  In v (rvals (run (init c0) tr)) -> In v (wins (run (init c0) tr)).
Proof. apply (i_ret _ _ (reach_inv c0 tr)). Qed.

Lemma returns_distinct c0 tr : NoDup (rvals (run (init c0) tr)).
Proof. apply (i_nodup _ _ (reach_inv c0 tr)). Qed.

Lemma returns_above_start c0 tr v : In v (rvals (run (init c0) tr)) -> c0 < v.
Proof.
  intros H. apply returns_are_cell_values in H. now apply (i_le _ _ (reach_inv c0 tr)) in H.
Qed.

(* ---------- real-time order: a call that begins after a point P returns more
   than everything returned before P ---------- *)
(* rets only grows by consing *)
Lemma step_rets s e : exists new, rets (step s e) = new ++ rets s /\
  (new = [] \/ exists t v, new = [(t, v)] /\ e = (t, Ret) /\ loc s t = Won v).
Proof.
  destruct e as [t a]. unfold step.
  destruct a as [mc| | | |]; destruct (loc s t) as [|m|m last|v|] eqn:E; cbn; try (exists []; split; [reflexivity|now left]).
  - destruct (last =? U64_MAX); cbn; [exists []; split; [reflexivity|now left]|].
    destruct (cell s =? last); cbn; exists []; (split; [reflexivity|now left]).
  - destruct (last =? U64_MAX); cbn; exists []; (split; [reflexivity|now left]).
  - exists [(t, v)]. split; [reflexivity|]. right. eauto.
Qed.

(* F = a bound on the cell at the point P; thread t is outside a call at P *)
Definition after (F : N) (t : nat) (s : st) (old : list (nat * N)) : Prop :=
  F <= cell s /\
  (forall v, loc s t = Won v -> F < v) /\
  (forall m l, loc s t = Loaded m l -> F <= l) /\
  exists new, rets s = new ++ old /\ forall v, In (t, v) new -> F < v.

Lemma after_step F t s old e : after F t s old -> after F t (step s e) old.
Proof.
  intros (Hc & Hw & Hl & new & Hr & Hn).
  pose proof (step_cell s e) as [Hmono _].
  destruct (step_rets s e) as (nw & Hrs & Hcase).
  assert (Hloc : (forall v, loc (step s e) t = Won v -> F < v) /\
                 (forall m l, loc (step s e) t = Loaded m l -> F <= l)).
  { destruct e as [t' a]. unfold step.
    destruct a as [mc| | | |]; destruct (loc s t') as [|m|m last|v|] eqn:E; cbn; try (split; assumption).
    all: try (destruct (last =? U64_MAX); cbn).
    all: try (destruct (N.eqb_spec (cell s) last); cbn).
    all: split; [intros v0 | intros m0 l0]; upd_cases t' t; try discriminate; eauto.
    all: try (intros [= _ <-]; exact Hc).
    all: intros [= <-]; specialize (Hl _ _ E); lia. }
  destruct Hloc as [Hw' Hl'].
  split; [lia|]. split; [exact Hw'|]. split; [exact Hl'|].
  exists (nw ++ new). split; [rewrite Hrs, Hr; now rewrite app_assoc|].
  intros v Hin. apply in_app_or in Hin as [Hin|Hin]; [|auto].
  destruct Hcase as [->|(t' & w & -> & -> & Hwon)]; [destruct Hin|].
  destruct Hin as [[= -> ->]|[]]. auto.
Qed.

Lemma after_run F t old tr : forall s, after F t s old -> after F t (run s tr) old.
Proof.
  induction tr as [|e tr IH]; intros s H; [exact H|].
  change (run s (e :: tr)) with (run (step s e) tr). apply IH. now apply after_step.
Qed.

Lemma realtime_order c0 tr1 tr2 t :
  let s1 := run (init c0) tr1 in
  let s2 := run s1 tr2 in
  (loc s1 t = Idle \/ loc s1 t = Dead) ->
  exists new, rets s2 = new ++ rets s1 /\
    forall w, In (t, w) new -> forall v, In v (rvals s1) -> v < w.
Proof.
  cbn. intros Hidle.
  pose proof (reach_inv c0 tr1) as I. set (s1 := run (init c0) tr1) in *.
  assert (A : after (cell s1) t s1 (rets s1)).
  { split; [lia|]. split; [|split].
    - intros v E. destruct Hidle as [H|H]; rewrite H in E; discriminate.
    - intros m l E. destruct Hidle as [H|H]; rewrite H in E; discriminate.
    - exists []. split; [reflexivity|]. intros v []. }
  apply (after_run _ _ _ tr2) in A. destruct A as (_ & _ & _ & new & Hr & Hn).
  exists new. split; [exact Hr|]. intros w Hw v Hv.
  specialize (Hn w Hw). apply (i_ret _ _ I) in Hv. apply (i_le _ _ I) in Hv. lia.
Qed.

(* ---------- overflow: no call panics as long as the cell stays below u64::MAX ---------- *)
Lemma no_panic_below_max c0 tr :
  cell (run (init c0) tr) < U64_MAX -> panics (run (init c0) tr) = 0.
Proof.
  intros H. pose proof (i_dead _ _ (reach_inv c0 tr)) as D.
  destruct (N.eq_dec (panics (run (init c0) tr)) 0) as [E|E]; [exact E|].
  assert (0 < panics (run (init c0) tr)) as P by lia. apply D in P. lia.
Qed.

(* values stay u64 when the clock readings are *)
Definition clocks_u64 (tr : list (nat * action)) : Prop :=
  forall t m, In (t, ReadClock m) tr -> m <= U64_MAX.

(* ---------- the scripted-schedule model satisfies the monitor ---------- *)
Definition vals (l : list (res N)) : list N :=
  flat_map (fun r => match r with Ok v => [v] | _ => [] end) l.

Definition mon_from (p : N) (l : list (res N)) : bool :=
  strictly_inc (Some p) (vals l) &&
  (forallb (fun r => negb (is_panic r)) l || (U64_MAX <=? p) ||
   existsb (fun r => match r with Ok v => U64_MAX <=? v | _ => false end) l).

Definition lasts_ok (s : st) : Prop := forall t m l, loc s t = Loaded m l -> l <= cell s.

Lemma lasts_ok_set s t x :
  lasts_ok s -> (forall m l, x = Loaded m l -> l <= cell s) -> lasts_ok (set_loc s t x).
Proof.
  intros H Hx t' m l. cbn. upd_cases t t'; eauto.
Qed.

Lemma mon_from_ok p v rest :
  p < v -> mon_from v rest = true -> mon_from p (Ok v :: rest) = true.
Proof.
  unfold mon_from. intros Hlt H. apply andb_prop in H as [H1 H2].
  cbn [vals flat_map app strictly_inc forallb existsb is_panic negb].
  change (flat_map _ rest) with (vals rest). rewrite H1.
  replace (p <? v) with true by lia. cbn [andb].
  apply orb_prop in H2 as [H2|H2]; [apply orb_prop in H2 as [H2|H2]|].
  - rewrite H2. reflexivity.
  - replace (U64_MAX <=? v) with true by lia. rewrite !orb_true_r. reflexivity.
  - rewrite H2. rewrite !orb_true_r. reflexivity.
Qed.

Lemma mon_from_panic p rest :
  U64_MAX <= p -> mon_from p rest = true -> mon_from p (Panic :: rest) = true.
Proof.
  unfold mon_from. intros Hp H. apply andb_prop in H as [H1 H2].
  cbn [vals flat_map app]. change (flat_map _ rest) with (vals rest). rewrite H1.
  replace (U64_MAX <=? p) with true by lia. rewrite orb_true_r. reflexivity.
Qed.

Lemma run2 s a b : run s [a; b] = step (step s a) b.
Proof. reflexivity. Qed.

Lemma step_rc s t m : busy (loc s t) = false -> step s (t, ReadClock m) = set_loc s t (Clock m).
Proof. unfold step. destruct (loc s t); try discriminate; reflexivity. Qed.

Lemma step_ld s t m : loc s t = Clock m -> step s (t, Load) = set_loc s t (Loaded m (cell s)).
Proof. unfold step. intros ->. reflexivity. Qed.

Lemma step_cas s t m last : loc s t = Loaded m last ->
  step s (t, Cas) =
  if last =? U64_MAX then mk (cell s) (upd (loc s) t Dead) (wins s) (rets s) (panics s + 1)
  else if cell s =? last
       then mk (N.max m (last + 1)) (upd (loc s) t (Won (N.max m (last + 1)))) (N.max m (last + 1) :: wins s) (rets s) (panics s)
       else set_loc s t (Loaded m (cell s)).
Proof. unfold step. intros ->. reflexivity. Qed.

Lemma step_cas_skip s t : (forall m l, loc s t <> Loaded m l) -> step s (t, Cas) = s.
Proof. unfold step. intros H. destruct (loc s t) as [|m|m l|v|]; try reflexivity. now specialize (H m l). Qed.

Lemma step_ret s t v : loc s t = Won v ->
  step s (t, Ret) = mk (cell s) (upd (loc s) t Idle) (wins s) ((t, v) :: rets s) (panics s).
Proof. unfold step. intros ->. reflexivity. Qed.

Lemma exec_monitor ops : forall s, lasts_ok s -> mon_from (cell s) (exec s ops) = true.
Proof.
  induction ops as [|o ops IH]; intros s L.
  { unfold mon_from. cbn. reflexivity. }
  destruct o as [t m|t]; cbn [exec].
  - destruct (busy (loc s t)) eqn:Hb; [auto|].
    rewrite run2, (step_rc s t m Hb).
    set (s1 := set_loc s t (Clock m)).
    assert (E1 : loc s1 t = Clock m) by (cbn; apply upd_same).
    rewrite (step_ld s1 t m E1).
    change (cell s) with (cell (set_loc s1 t (Loaded m (cell s1)))). apply IH.
    apply lasts_ok_set; [apply lasts_ok_set; [exact L|discriminate]|]. intros ? ? [= _ <-]. cbn. lia.
  - destruct (loc s t) as [|m|m last|v|] eqn:Hl; auto.
    pose proof (L _ _ _ Hl) as Hle.
    rewrite run2, (step_cas s t m last Hl).
    destruct (N.eqb_spec last U64_MAX) as [->|Hmax].
    { (* panic at once *)
      set (s1 := mk _ _ _ _ _). assert (E1 : loc s1 t = Dead) by (cbn; apply upd_same).
      rewrite (step_cas_skip s1 t) by (intros ? ?; rewrite E1; discriminate). rewrite E1.
      apply mon_from_panic; [lia|]. change (cell s) with (cell s1). apply IH.
      intros t' m' l'. cbn. upd_cases t t'; [discriminate|]. apply L. }
    destruct (N.eqb_spec (cell s) last) as [Hc|Hc].
    { (* success at once *)
      set (next := N.max m (last + 1)). set (s1 := mk _ _ _ _ _).
      assert (E1 : loc s1 t = Won next) by (cbn; apply upd_same).
      rewrite (step_cas_skip s1 t) by (intros ? ?; rewrite E1; discriminate). rewrite E1.
      apply mon_from_ok; [unfold next; lia|].
      rewrite (step_ret s1 t next E1). set (s2 := mk _ _ _ _ _).
      change next with (cell s2). apply IH.
      intros t' m' l'. cbn. upd_cases t t'; [discriminate|]. rewrite upd_other by assumption.
      intros E. apply L in E. unfold next. lia. }
    (* failure, retried with last = cell *)
    set (s1 := set_loc s t (Loaded m (cell s))).
    assert (E1 : loc s1 t = Loaded m (cell s)) by (cbn; apply upd_same).
    rewrite (step_cas s1 t m (cell s) E1). change (cell s1) with (cell s).
    destruct (N.eqb_spec (cell s) U64_MAX) as [Hcm|Hcm].
    { set (s2 := mk _ _ _ _ _). assert (E2 : loc s2 t = Dead) by (cbn; apply upd_same).
      rewrite E2. apply mon_from_panic; [lia|]. change (cell s) with (cell s2). apply IH.
      intros t' m' l'. cbn. upd_cases t t'; [discriminate|]. rewrite upd_other by assumption. apply L. }
    rewrite N.eqb_refl.
    set (next := N.max m (cell s + 1)). set (s2 := mk _ _ _ _ _).
    assert (E2 : loc s2 t = Won next) by (cbn; apply upd_same). rewrite E2.
    apply mon_from_ok; [unfold next; lia|].
    rewrite (step_ret s2 t next E2). set (s3 := mk _ _ _ _ _).
    change next with (cell s3). apply IH.
    intros t' m' l'. cbn. upd_cases t t'; [discriminate|]. rewrite !upd_other by assumption.
    intros E. apply L in E. unfold next. lia.
Qed.

Lemma model_monitor c0 ops : monitor (Sched c0 ops) (OSched (model (Sched c0 ops))) = true.
Proof.
  cbn [monitor model]. apply (exec_monitor ops (init c0)). intros t m l; discriminate.
Qed.

(* ---------- witnesses / non-vacuity ---------- *)
(* two threads load the same value; the loser of the CAS retries and gets last + 1 *)
Example race_example :
  model (Sched 5 [B 0 3; B 1 9; F 1; F 0]) = [Ok 9; Ok 10].
Proof. vm_compute. reflexivity. Qed.
(* clock going backwards *)
Example backwards_example :
  model (Sched 100 [B 0 200; F 0; B 0 150; F 0; B 0 150; F 0]) = [Ok 200; Ok 201; Ok 202].
Proof. vm_compute. reflexivity. Qed.
(* at u64::MAX the next call panics (debug build) *)
Example overflow_example :
  model (Sched (U64_MAX - 1) [B 0 1; F 0; B 0 1; F 0]) = [Ok U64_MAX; Panic].
Proof. vm_compute. reflexivity. Qed.
(* a trace with a spurious CAS failure *)
Example spurious_example :
  rets (run (init 7) [(0%nat, ReadClock 3); (0%nat, Load); (0%nat, CasSpur); (0%nat, Cas); (0%nat, Ret)]) = [(0%nat, 8)].
Proof. vm_compute. reflexivity. Qed.
