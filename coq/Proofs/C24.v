(* C24 — proofs about the path-selection model. *)
From V Require Import Lib.Base Lib.MachineInt Gen.Consts Model.C24.
From Coq Require Import ZifyBool.
Import C24.
Open Scope Z_scope.

(* ---------- the order on sort keys ---------- *)

Lemma tier_rank_inj a b : tier_rank a = tier_rank b -> a = b.
Proof. destruct a, b; cbn; intros; congruence || lia. Qed.

Lemma key_ltb_irrefl k : key_ltb k k = false.
Proof. unfold key_ltb. lia. Qed.

Lemma key_ltb_trans a b c : key_ltb a b = true -> key_ltb b c = true -> key_ltb a c = true.
Proof. unfold key_ltb. lia. Qed.

(* "not less" is transitive (the order is total) *)
Lemma key_geb_trans a b c : key_ltb a b = false -> key_ltb b c = false -> key_ltb a c = false.
Proof. unfold key_ltb. lia. Qed.

Lemma key_total a b : key_ltb a b = false -> key_ltb b a = false -> a = b.
Proof.
  destruct a as [ta x], b as [tb y]. unfold key_ltb. cbn [fst snd]. intros H1 H2.
  assert (tier_rank ta = tier_rank tb) by lia. assert (x = y) by lia.
  f_equal; auto using tier_rank_inj.
Qed.

Lemma key_eqb_eq a b : key_eqb a b = true <-> a = b.
Proof.
  destruct a as [ta x], b as [tb y]. unfold key_eqb, tier_eqb. cbn [fst snd]. split.
  - intros H. assert (tier_rank ta = tier_rank tb) by lia. assert (x = y) by lia.
    f_equal; auto using tier_rank_inj.
  - intros H. inversion H. subst. lia.
Qed.

Lemma addr_eqb_refl a : addr_eqb a a = true.
Proof. unfold addr_eqb. now rewrite !N.eqb_refl. Qed.

Lemma addr_eqb_eq a b : addr_eqb a b = true -> a = b.
Proof.
  destruct a, b. unfold addr_eqb. cbn. intros H. apply andb_prop in H as [H1 H2].
  apply N.eqb_eq in H1, H2. now subst.
Qed.

(* ---------- minimum key of the instances selected by f ---------- *)

Definition attained (f : addr -> bool) (l : list path) (k : key) : Prop :=
  exists a r, In (a, Some r) l /\ f a = true /\ sort_key a r = k.
Definition lower_bound (f : addr -> bool) (l : list path) (k : key) : Prop :=
  forall a r, In (a, Some r) l -> f a = true -> key_ltb (sort_key a r) k = false.
Definition is_min (f : addr -> bool) (l : list path) (k : key) : Prop :=
  attained f l k /\ lower_bound f l k.
Definition none_of (f : addr -> bool) (l : list path) : Prop :=
  forall a r, In (a, Some r) l -> f a = false.

Lemma is_min_unique f l k k' : is_min f l k -> is_min f l k' -> k = k'.
Proof.
  intros [(a & r & Ha & Hf & Hk) Hl] [(a' & r' & Ha' & Hf' & Hk') Hl'].
  apply key_total.
  - rewrite <- Hk. now apply Hl'.
  - rewrite <- Hk'. now apply Hl.
Qed.

Lemma is_min_not_none f l k : is_min f l k -> none_of f l -> False.
Proof. intros [(a & r & Ha & Hf & _) _] Hn. specialize (Hn a r Ha). congruence. Qed.

Lemma keys_of_in f l k : In k (keys_of f l) <-> attained f l k.
Proof.
  unfold attained. induction l as [|[a [r|]] t IH]; cbn [keys_of].
  - split; [intros []|intros (a & r & [] & _)].
  - destruct (f a) eqn:Hf; cbn [In]; rewrite ?IH; split.
    + intros [H|(a' & r' & H1 & H2 & H3)]; [exists a, r; cbn; auto|exists a', r'; cbn; auto].
    + intros (a' & r' & [H|H] & H2 & H3).
      * inversion H; subst. now left.
      * right. now exists a', r'.
    + intros (a' & r' & H1 & H2 & H3). exists a', r'. cbn; auto.
    + intros (a' & r' & [H|H] & H2 & H3).
      * inversion H; subst. congruence.
      * now exists a', r'.
  - rewrite IH. split; intros (a' & r' & H1 & H2 & H3); exists a', r'.
    + cbn; auto.
    + destruct H1 as [H|H]; [inversion H|auto].
Qed.

Lemma fold_min_spec t : forall k,
  let m := fold_left key_min2 t k in
  In m (k :: t) /\ forall x, In x (k :: t) -> key_ltb x m = false.
Proof.
  induction t as [|x t IH]; intros k; cbn [fold_left].
  - split; [now left|]. intros y [<-|[]]. apply key_ltb_irrefl.
  - destruct (IH (key_min2 k x)) as [Hin Hlb]. split.
    + destruct Hin as [H|H]; [|right; now right].
      rewrite <- H. unfold key_min2 at 1. destruct (key_ltb x k); cbn; auto.
    + intros y Hy.
      assert (Hk : key_ltb (key_min2 k x) (fold_left key_min2 t (key_min2 k x)) = false)
        by (apply Hlb; now left).
      destruct Hy as [<-|[<-|Hy]].
      * eapply key_geb_trans; [|exact Hk]. unfold key_min2.
        destruct (key_ltb x k) eqn:E; [|apply key_ltb_irrefl].
        revert E. unfold key_ltb. lia.
      * eapply key_geb_trans; [|exact Hk]. unfold key_min2.
        destruct (key_ltb x k) eqn:E; [apply key_ltb_irrefl|exact E].
      * apply Hlb. now right.
Qed.

Lemma key_min_spec f l :
  match key_min (keys_of f l) with
  | None => none_of f l
  | Some k => is_min f l k
  end.
Proof.
  destruct (keys_of f l) as [|k t] eqn:E; cbn [key_min].
  - intros a r Ha. destruct (f a) eqn:Hf; [|reflexivity].
    assert (In (sort_key a r) (keys_of f l)) by (apply keys_of_in; now exists a, r).
    rewrite E in H. destruct H.
  - destruct (fold_min_spec t k) as [Hin Hlb]. split.
    + apply keys_of_in. now rewrite E.
    + intros a r Ha Hf. apply Hlb. rewrite <- E. apply keys_of_in. now exists a, r.
Qed.

Lemma key_min_some f l k : is_min f l k -> key_min (keys_of f l) = Some k.
Proof.
  intros H. pose proof (key_min_spec f l) as S. destruct (key_min (keys_of f l)) as [k'|].
  - f_equal. eapply is_min_unique; eauto.
  - exfalso. eapply is_min_not_none; eauto.
Qed.

Lemma key_min_none f l : none_of f l -> key_min (keys_of f l) = None.
Proof.
  intros H. pose proof (key_min_spec f l) as S. destruct (key_min (keys_of f l)) as [k'|]; [|reflexivity].
  exfalso. eapply is_min_not_none; eauto.
Qed.

(* ---------- the loop invariant ---------- *)

Definition all : addr -> bool := fun _ => true.
Definition is_cur (cur : option addr) : addr -> bool := fun a => opt_eqb addr_eqb (Some a) cur.

Definition Inv (cur : option addr) (st : state) (l : list path) : Prop :=
  match fst st with
  | None => none_of all l
  | Some (a, k) => (exists r, In (a, Some r) l /\ sort_key a r = k) /\ lower_bound all l k
  end /\
  match snd st with
  | None => none_of (is_cur cur) l
  | Some k => is_min (is_cur cur) l k
  end.

Lemma lower_bound_app f l p k :
  lower_bound f l k ->
  (forall a r, p = (a, Some r) -> f a = true -> key_ltb (sort_key a r) k = false) ->
  lower_bound f (l ++ [p]) k.
Proof.
  intros H1 H2 a r Ha Hf. apply in_app_or in Ha as [Ha|[Ha|[]]]; [now apply H1|now apply (H2 a r)].
Qed.

Lemma none_of_app f l p :
  none_of f l -> (forall a r, p = (a, Some r) -> f a = false) -> none_of f (l ++ [p]).
Proof.
  intros H1 H2 a r Ha. apply in_app_or in Ha as [Ha|[Ha|[]]]; [now apply (H1 a r)|now apply (H2 a r)].
Qed.

Lemma Inv_step cur st l p : Inv cur st l -> Inv cur (step cur st p) (l ++ [p]).
Proof.
  intros [Hb Hc]. destruct p as [a [r|]]; unfold step; cbn [fst snd].
  2:{ split.
      - destruct (fst st) as [[ba bk]|].
        + destruct Hb as [(r & Hr & Hk) Hl]. split.
          * exists r. split; [apply in_or_app; now left|exact Hk].
          * apply lower_bound_app; [exact Hl|]. intros ? ? E; inversion E.
        + apply none_of_app; [exact Hb|]. intros ? ? E; inversion E.
      - destruct (snd st) as [ck|].
        + destruct Hc as [(a' & r' & H1 & H2 & H3) Hl]. split.
          * exists a', r'. split; [apply in_or_app; now left|auto].
          * apply lower_bound_app; [exact Hl|]. intros ? ? E; inversion E.
        + apply none_of_app; [exact Hc|]. intros ? ? E; inversion E. }
  split.
  - (* best *)
    destruct (fst st) as [[ba bk]|]; cbn [is_none_or snd].
    + destruct Hb as [(r0 & Hr & Hk) Hl].
      destruct (key_ltb (sort_key a r) bk) eqn:E; cbn [fst snd].
      * split; [exists r; split; [apply in_or_app; right; now left|reflexivity]|].
        intros a' r' Ha' _. apply in_app_or in Ha' as [Ha'|[Ha'|[]]].
        -- specialize (Hl a' r' Ha' eq_refl). revert Hl E. unfold key_ltb. lia.
        -- inversion Ha'; subst. apply key_ltb_irrefl.
      * split; [exists r0; split; [apply in_or_app; now left|exact Hk]|].
        apply lower_bound_app; [exact Hl|]. intros a' r' Ep _. inversion Ep; subst. exact E.
    + cbn [fst snd]. split; [exists r; split; [apply in_or_app; right; now left|reflexivity]|].
      intros a' r' Ha' _. apply in_app_or in Ha' as [Ha'|[Ha'|[]]].
      * specialize (Hb a' r' Ha'). discriminate.
      * inversion Ha'; subst. apply key_ltb_irrefl.
  - (* current key *)
    fold (is_cur cur a). destruct (is_cur cur a) eqn:Ec; cbn [andb].
    + destruct (snd st) as [ck|]; cbn [is_none_or].
      * destruct Hc as [(a0 & r0 & H1 & H2 & H3) Hl].
        destruct (key_ltb (sort_key a r) ck) eqn:E.
        -- split; [exists a, r; split; [apply in_or_app; right; now left|auto]|].
           intros a' r' Ha' Hf'. apply in_app_or in Ha' as [Ha'|[Ha'|[]]].
           ++ specialize (Hl a' r' Ha' Hf'). revert Hl E. unfold key_ltb. lia.
           ++ inversion Ha'; subst. apply key_ltb_irrefl.
        -- split; [exists a0, r0; split; [apply in_or_app; now left|auto]|].
           apply lower_bound_app; [exact Hl|]. intros a' r' Ep _. inversion Ep; subst. exact E.
      * split; [exists a, r; split; [apply in_or_app; right; now left|auto]|].
        intros a' r' Ha' Hf'. apply in_app_or in Ha' as [Ha'|[Ha'|[]]].
        -- specialize (Hc a' r' Ha'). congruence.
        -- inversion Ha'; subst. apply key_ltb_irrefl.
    + destruct (snd st) as [ck|].
      * destruct Hc as [(a0 & r0 & H1 & H2 & H3) Hl].
        split; [exists a0, r0; split; [apply in_or_app; now left|auto]|].
        apply lower_bound_app; [exact Hl|]. intros a' r' Ep Hf. inversion Ep; subst. congruence.
      * apply none_of_app; [exact Hc|]. intros a' r' Ep. inversion Ep; subst. exact Ec.
Qed.

Lemma Inv_fold cur l : forall pre st, Inv cur st pre -> Inv cur (fold_left (step cur) l st) (pre ++ l).
Proof.
  induction l as [|p l IH]; intros pre st H; cbn [fold_left].
  - now rewrite app_nil_r.
  - replace (pre ++ p :: l) with ((pre ++ [p]) ++ l) by (rewrite <- app_assoc; reflexivity).
    apply IH. now apply Inv_step.
Qed.

Lemma Inv_run i : Inv (current i) (run i) (paths i).
Proof.
  unfold run. apply (Inv_fold (current i) (paths i) [] (None, None)).
  split; cbn; intros a r [].
Qed.

(* ---------- consequences ---------- *)

Lemma min_pos : 0 < RTT_SWITCHING_MIN.
Proof. reflexivity. Qed.
Lemma min_small : RTT_SWITCHING_MIN <= 1000000000000.
Proof. unfold RTT_SWITCHING_MIN, C24_RTT_SWITCHING_MIN. lia. Qed.
Lemma adv_range : 0 <= IPV6_RTT_ADVANTAGE <= 1000000000000.
Proof. unfold IPV6_RTT_ADVANTAGE, C24_IPV6_RTT_ADVANTAGE. lia. Qed.

Lemma valid_in i a r : valid i = true -> In (a, Some r) (paths i) -> (r <= DURATION_MAX_NANOS)%N.
Proof.
  unfold valid. rewrite forallb_forall. intros H Ha. specialize (H _ Ha). cbn in H. lia.
Qed.

Lemma as_i128_small r : (r <= DURATION_MAX_NANOS)%N -> u128_as_i128 r = Z.of_N r.
Proof.
  intros H. unfold u128_as_i128, DURATION_MAX_NANOS in *.
  rewrite Z.mod_small by lia. unfold I128_MAX.
  destruct (Z.of_N r <=? _) eqn:E; lia.
Qed.

(* for real Durations the saturating add never saturates *)
Lemma sort_key_valid a r : (r <= DURATION_MAX_NANOS)%N ->
  sort_key a r = (tier_of a, Z.of_N r + snd (bias_for a)) /\
  - 1000000000000 <= snd (sort_key a r) <= 18446744073709551615999999999.
Proof.
  intros H. unfold sort_key, tier_of. rewrite as_i128_small by exact H. cbn [fst snd].
  pose proof adv_range as Ha.
  assert (Hb : - 1000000000000 <= snd (bias_for a) <= 0).
  { unfold bias_for. destruct (N.eqb (kind a) 0), (N.eqb (kind a) 1), (N.eqb (kind a) 2); cbn [snd]; lia. }
  unfold DURATION_MAX_NANOS in H.
  unfold i128_sat_add, I128_MIN, I128_MAX. split; [f_equal|]; lia.
Qed.

Lemma sort_key_tier a r : fst (sort_key a r) = tier_of a.
Proof. reflexivity. Qed.

(* the decision, unfolded under validity: the add never overflows *)
Lemma decide_valid i :
  valid i = true ->
  model i =
  match fst (run i) with
  | None => Ok None
  | Some (ba, kb) =>
      match snd (run i) with
      | None => Ok (Some ba)
      | Some kc =>
          if negb (tier_eqb (fst kc) (fst kb)) then Ok (Some ba)
          else if snd kb + RTT_SWITCHING_MIN <=? snd kc then Ok (Some ba) else Ok None
      end
  end.
Proof.
  intros Hv. unfold model, decide. pose proof (Inv_run i) as [Hb _].
  destruct (fst (run i)) as [[ba [bt bb]]|]; [|reflexivity].
  destruct (snd (run i)) as [[ct cb]|]; [|reflexivity]. cbn [fst snd].
  destruct (negb (tier_eqb ct bt)); [reflexivity|].
  destruct Hb as [(r & Hr & Hk) _].
  pose proof (sort_key_valid ba r (valid_in _ _ _ Hv Hr)) as [_ Hrange]. rewrite Hk in Hrange. cbn [snd] in Hrange.
  pose proof min_pos. pose proof min_small.
  unfold i128_checked_add, i128_in, I128_MIN, I128_MAX.
  destruct ((_ <=? bb + RTT_SWITCHING_MIN) && _) eqn:E; [reflexivity|lia].
Qed.

Lemma best_is_min i ba kb : fst (run i) = Some (ba, kb) ->
  is_min all (paths i) kb /\ is_min (fun x => addr_eqb x ba) (paths i) kb.
Proof.
  intros E. pose proof (Inv_run i) as [Hb _]. rewrite E in Hb. destruct Hb as [(r & Hr & Hk) Hl].
  split; split.
  - now exists ba, r.
  - exact Hl.
  - exists ba, r. split; [exact Hr|]. split; [apply addr_eqb_refl|exact Hk].
  - intros a' r' Ha' _. now apply Hl.
Qed.

Lemma cur_key_spec i :
  match current i with
  | None => snd (run i) = None
  | Some c => match snd (run i) with
              | None => none_of (fun x => addr_eqb x c) (paths i)
              | Some k => is_min (fun x => addr_eqb x c) (paths i) k
              end
  end.
Proof.
  pose proof (Inv_run i) as [_ Hc]. destruct (current i) as [c|] eqn:Ec.
  - exact Hc.
  - destruct (snd (run i)) as [k|]; [|reflexivity].
    destruct Hc as [(a & r & _ & Hf & _) _]. discriminate.
Qed.

(* T3 *)
Lemma no_panic i : valid i = true -> exists sel, model i = Ok sel.
Proof.
  intros Hv. rewrite (decide_valid i Hv).
  destruct (fst (run i)) as [[ba kb]|]; [|eauto].
  destruct (snd (run i)) as [kc|]; [|eauto].
  destruct (negb _); [eauto|]. destruct (_ <=? _); eauto.
Qed.

(* T1 *)
Lemma selects_member_with_stats i a :
  model i = Ok (Some a) -> exists r, In (a, Some r) (paths i).
Proof.
  unfold model, decide. pose proof (Inv_run i) as [Hb _].
  destruct (fst (run i)) as [[ba [bt bb]]|]; [|discriminate].
  destruct Hb as [(r & Hr & _) _].
  assert (forall o, o = Ok (Some ba) \/ o = Ok None \/ o = Panic -> o = Ok (Some a) -> exists r, In (a, Some r) (paths i)).
  { intros o [ -> | [ -> | -> ] ] E; inversion E; subst; eauto. }
  apply H. destruct (snd (run i)) as [[ct cb]|]; [|auto].
  destruct (negb _); [auto|]. destruct (i128_checked_add _ _); [|auto]. destruct (_ <=? _); auto.
Qed.

(* T2 *)
Lemma none_when_no_stats i :
  (forall a r, ~ In (a, Some r) (paths i)) ->
  model i = Ok None /\ next_selected (current i) None = current i.
Proof.
  intros H. split; [|reflexivity]. unfold model, decide. pose proof (Inv_run i) as [Hb _].
  destruct (fst (run i)) as [[ba bk]|]; [|reflexivity].
  destruct Hb as [(r & Hr & _) _]. now apply H in Hr.
Qed.

Lemma is_min_tier_primary l k p r :
  is_min all l k -> In (p, Some r) l -> tier_of p = Primary -> fst k = Primary.
Proof.
  intros [_ Hl] Hp Ht. specialize (Hl p r Hp eq_refl). unfold key_ltb in Hl.
  rewrite sort_key_tier, Ht in Hl. cbn [tier_rank] in Hl.
  destruct (fst k); [reflexivity|cbn [tier_rank] in Hl; lia].
Qed.

(* T4: whenever a primary path with readable stats exists, the path selected after this
   round (select_path keeps the current one on an empty selection) is a live primary path. *)
Lemma primary_beats_backup i p r :
  valid i = true -> In (p, Some r) (paths i) -> tier_of p = Primary ->
  exists sel a, model i = Ok sel /\ next_selected (current i) sel = Some a /\
    tier_of a = Primary /\ exists ra, In (a, Some ra) (paths i).
Proof.
  intros Hv Hp Ht. rewrite (decide_valid i Hv).
  pose proof (Inv_run i) as [Hb Hc]. pose proof (cur_key_spec i) as Hcs.
  destruct (fst (run i)) as [[ba kb]|] eqn:Eb.
  2:{ specialize (Hb p r Hp). discriminate. }
  destruct (best_is_min i ba kb Eb) as [Hmin _].
  pose proof (is_min_tier_primary _ _ _ _ Hmin Hp Ht) as Hkb.
  destruct Hb as [(rb & Hrb & Hkeq) _].
  assert (Hba : tier_of ba = Primary) by (rewrite <- sort_key_tier with (r := rb), Hkeq; exact Hkb).
  assert (Good : exists a, next_selected (current i) (Some ba) = Some a /\ tier_of a = Primary /\
                 exists ra, In (a, Some ra) (paths i)) by (exists ba; cbn; eauto).
  destruct (snd (run i)) as [kc|] eqn:Ec; [|exists (Some ba); destruct Good as (a & ?); eauto].
  destruct (negb (tier_eqb (fst kc) (fst kb))) eqn:Et; [exists (Some ba); destruct Good as (a & ?); eauto|].
  destruct (_ <=? _); [exists (Some ba); destruct Good as (a & ?); eauto|].
  (* kept: the current path is live and in the best (primary) tier *)
  destruct (current i) as [c|] eqn:Ecur; [|discriminate].
  destruct Hcs as [(a0 & r0 & H1 & H2 & H3) _].
  apply addr_eqb_eq in H2. subst a0.
  exists None, c. split; [reflexivity|]. split; [reflexivity|]. split; [|eauto].
  rewrite <- sort_key_tier with (r := r0), H3.
  apply tier_rank_inj. unfold tier_eqb in Et. rewrite Hkb in Et. cbn [tier_rank] in *. lia.
Qed.

(* T5: a selection different in key from the current path's best instance is either a move to a
   strictly better tier, or a same-tier move that gains at least RTT_SWITCHING_MIN. *)
Lemma same_tier_hysteresis i a c ka kc :
  valid i = true ->
  model i = Ok (Some a) -> current i = Some c ->
  is_min (fun x => addr_eqb x a) (paths i) ka ->
  is_min (fun x => addr_eqb x c) (paths i) kc ->
  (fst ka = fst kc /\ snd ka + RTT_SWITCHING_MIN <= snd kc) \/
  (fst ka = Primary /\ fst kc = Backup).
Proof.
  intros Hv Hm Hcur Hka Hkc. rewrite (decide_valid i Hv) in Hm.
  pose proof (cur_key_spec i) as Hcs. rewrite Hcur in Hcs.
  destruct (fst (run i)) as [[ba kb]|] eqn:Eb; [|discriminate].
  destruct (best_is_min i ba kb Eb) as [Hall Hba].
  destruct (snd (run i)) as [kc'|] eqn:Ec.
  2:{ exfalso. exact (is_min_not_none _ _ _ Hkc Hcs). }
  assert (kc' = kc) by (eapply is_min_unique; eauto). subst kc'.
  assert (Hlow : key_ltb kc kb = false).
  { destruct Hkc as [(a0 & r0 & H1 & _ & H3) _]. rewrite <- H3. now apply Hall. }
  assert (Hsel : a = ba).
  { destruct (negb _); [inversion Hm; auto|]. destruct (_ <=? _); inversion Hm; auto. }
  subst ba. assert (ka = kb) by (eapply is_min_unique; eauto). subst kb.
  destruct (negb (tier_eqb (fst kc) (fst ka))) eqn:Et.
  - right. unfold tier_eqb in Et. unfold key_ltb in Hlow.
    destruct (fst ka), (fst kc); cbn [tier_rank] in *; auto; lia.
  - left. destruct (snd ka + RTT_SWITCHING_MIN <=? snd kc) eqn:E; [|discriminate].
    split; [|lia]. apply tier_rank_inj. unfold tier_eqb in Et. lia.
Qed.

(* T7: the current path is kept when no live path is in a better tier and none in its tier
   is RTT_SWITCHING_MIN better. *)
Lemma stable_within_hysteresis i c kc :
  valid i = true -> current i = Some c ->
  is_min (fun x => addr_eqb x c) (paths i) kc ->
  (forall a r, In (a, Some r) (paths i) ->
     tier_rank (fst kc) <= tier_rank (tier_of a) /\
     (tier_of a = fst kc -> snd kc < snd (sort_key a r) + RTT_SWITCHING_MIN)) ->
  model i = Ok None.
Proof.
  intros Hv Hcur Hkc Hall. rewrite (decide_valid i Hv).
  pose proof (cur_key_spec i) as Hcs. rewrite Hcur in Hcs.
  pose proof (Inv_run i) as [Hb _].
  destruct (fst (run i)) as [[ba kb]|] eqn:Eb; [|reflexivity].
  destruct (snd (run i)) as [kc'|] eqn:Ec.
  2:{ exfalso. exact (is_min_not_none _ _ _ Hkc Hcs). }
  assert (kc' = kc) by (eapply is_min_unique; eauto). subst kc'.
  destruct Hb as [(rb & Hrb & Hk) Hl].
  destruct (Hall ba rb Hrb) as [H1 H2]. rewrite Hk in H2.
  assert (Hlow : key_ltb kc kb = false).
  { destruct Hkc as [(a0 & r0 & G1 & _ & G3) _]. rewrite <- G3. now apply Hl. }
  assert (Ht : tier_of ba = fst kb) by (rewrite <- Hk; reflexivity).
  rewrite Ht in H1, H2.
  assert (Heq : fst kb = fst kc).
  { apply tier_rank_inj. unfold key_ltb in Hlow. lia. }
  specialize (H2 Heq). unfold tier_eqb. rewrite Heq.
  replace (negb (tier_rank (fst kc) =? tier_rank (fst kc))) with false by lia.
  destruct (snd kb + RTT_SWITCHING_MIN <=? snd kc) eqn:E; [lia|reflexivity].
Qed.

Lemma stable_when_current_best i c kc :
  valid i = true -> current i = Some c ->
  is_min (fun x => addr_eqb x c) (paths i) kc ->
  lower_bound all (paths i) kc ->
  model i = Ok None.
Proof.
  intros Hv Hcur Hkc Hl. eapply stable_within_hysteresis; eauto.
  intros a r Ha. specialize (Hl a r Ha eq_refl). unfold key_ltb in Hl. rewrite sort_key_tier in Hl.
  pose proof min_pos. split; [lia|]. intros Ht. rewrite Ht in Hl. lia.
Qed.

(* T6: the IPv6 credit *)
Lemma ipv6_credit a r : (r <= DURATION_MAX_NANOS)%N ->
  sort_key a r =
  if N.eqb (kind a) 1 then (Primary, Z.of_N r - IPV6_RTT_ADVANTAGE)
  else if N.eqb (kind a) 2 then (Backup, Z.of_N r)
  else (Primary, Z.of_N r).
Proof.
  intros H. destruct (sort_key_valid a r H) as [-> _]. unfold tier_of, bias_for.
  destruct (N.eqb (kind a) 0) eqn:E0, (N.eqb (kind a) 1) eqn:E1, (N.eqb (kind a) 2) eqn:E2;
    cbn [fst snd]; try (f_equal; lia).
Qed.

Lemma ipv6_vs_ipv4 a4 a6 r4 r6 :
  kind a4 = 0%N -> kind a6 = 1%N -> (r4 <= DURATION_MAX_NANOS)%N -> (r6 <= DURATION_MAX_NANOS)%N ->
  model (mkIn None [(a4, Some r4); (a6, Some r6)]) =
  Ok (Some (if Z.of_N r6 - IPV6_RTT_ADVANTAGE <? Z.of_N r4 then a6 else a4)).
Proof.
  intros K4 K6 H4 H6. unfold model, run. cbn [fold_left paths current step fst snd is_none_or opt_eqb andb].
  rewrite (ipv6_credit a4 r4 H4), (ipv6_credit a6 r6 H6), K4, K6. cbn [N.eqb Pos.eqb].
  change (0 =? 1)%N with false. change (0 =? 2)%N with false. change (1 =? 1)%N with true. cbv iota.
  unfold key_ltb. cbn [fst snd tier_rank].
  replace ((0 <? 0) || (0 =? 0) && (Z.of_N r6 - IPV6_RTT_ADVANTAGE <? Z.of_N r4))
    with (Z.of_N r6 - IPV6_RTT_ADVANTAGE <? Z.of_N r4) by lia.
  destruct (Z.of_N r6 - IPV6_RTT_ADVANTAGE <? Z.of_N r4); reflexivity.
Qed.

(* ---------- the monitor ---------- *)

Lemma model_monitor i : monitor i (model i) = true.
Proof.
  unfold monitor. destruct (valid i) eqn:Hv; [cbn [negb]|reflexivity].
  change (keys_of (fun _ => true) (paths i)) with (keys_of all (paths i)).
  rewrite (decide_valid i Hv).
  pose proof (Inv_run i) as [Hb _]. pose proof (cur_key_spec i) as Hcs.
  destruct (fst (run i)) as [[ba kb]|] eqn:Eb.
  2:{ rewrite (key_min_none all (paths i) Hb). reflexivity. }
  destruct (best_is_min i ba kb Eb) as [Hall Hba].
  rewrite (key_min_some _ _ _ Hall).
  assert (Sel : forall ck,
    match ck with None => True | Some kc => negb (tier_eqb (fst kc) (fst kb)) || (snd kb + RTT_SWITCHING_MIN <=? snd kc) = true end ->
    match key_min (keys_of (fun x => addr_eqb x ba) (paths i)) with
    | None => false
    | Some ka => key_eqb ka kb &&
        match ck with None => true
        | Some kc => negb (tier_eqb (fst kc) (fst ka)) || (snd ka + RTT_SWITCHING_MIN <=? snd kc) end
    end = true).
  { intros ck H. rewrite (key_min_some _ _ _ Hba).
    replace (key_eqb kb kb) with true by (symmetry; now apply key_eqb_eq).
    destruct ck; [exact H|reflexivity]. }
  destruct (current i) as [c|] eqn:Ecur.
  - destruct (snd (run i)) as [kc|] eqn:Ec.
    + rewrite (key_min_some _ _ _ Hcs).
      destruct (negb (tier_eqb (fst kc) (fst kb))) eqn:Et.
      * apply (Sel (Some kc)). rewrite Et. reflexivity.
      * destruct (snd kb + RTT_SWITCHING_MIN <=? snd kc) eqn:E.
        -- apply (Sel (Some kc)). rewrite Et, E. reflexivity.
        -- unfold tier_eqb in *. lia.
    + rewrite (key_min_none _ _ Hcs). apply (Sel None). exact I.
  - rewrite Hcs. apply (Sel None). exact I.
Qed.

(* Prop-level reading of the monitor *)
Definition select_spec (i : input) (o : output) : Prop :=
  exists sel, o = Ok sel /\
  match sel with
  | Some a =>
      exists ka, is_min (fun x => addr_eqb x a) (paths i) ka /\ is_min all (paths i) ka /\
        forall c kc, current i = Some c -> is_min (fun x => addr_eqb x c) (paths i) kc ->
          fst kc <> fst ka \/ snd ka + RTT_SWITCHING_MIN <= snd kc
  | None =>
      none_of all (paths i) \/
      exists c kc kb, current i = Some c /\ is_min (fun x => addr_eqb x c) (paths i) kc /\
        is_min all (paths i) kb /\ fst kc = fst kb /\ snd kc < snd kb + RTT_SWITCHING_MIN
  end.

Lemma tier_eqb_eq a b : tier_eqb a b = true <-> a = b.
Proof. unfold tier_eqb. split; [intros H; apply tier_rank_inj; lia|intros ->; lia]. Qed.

Lemma monitor_spec i o : valid i = true -> (monitor i o = true <-> select_spec i o).
Proof.
  intros Hv. unfold monitor, select_spec. rewrite Hv. cbn [negb].
  change (keys_of (fun _ => true) (paths i)) with (keys_of all (paths i)).
  pose proof (key_min_spec all (paths i)) as Sall.
  destruct o as [sel| |]; [|split; [discriminate|intros (s & E & _); discriminate]..].
  destruct (key_min (keys_of all (paths i))) as [kb|] eqn:Eall.
  2:{ destruct sel as [a|]; split; try discriminate.
      - intros (s & E & H). inversion E; subst s. destruct H as (ka & _ & H & _).
        exfalso. eapply is_min_not_none; eauto.
      - intros _. exists None. split; [reflexivity|]. now left.
      - reflexivity. }
  destruct sel as [a|].
  - pose proof (key_min_spec (fun x => addr_eqb x a) (paths i)) as Sa.
    destruct (key_min (keys_of (fun x => addr_eqb x a) (paths i))) as [ka|] eqn:Ea.
    2:{ split; [discriminate|]. intros (s & E & H). inversion E; subst s.
        destruct H as (ka & H & _). exfalso. eapply is_min_not_none; eauto. }
    split.
    + intros H. apply andb_prop in H as [H1 H2]. apply key_eqb_eq in H1. subst kb.
      exists (Some a). split; [reflexivity|]. exists ka. split; [exact Sa|]. split; [exact Sall|].
      intros c kc Ecur Hkc. rewrite Ecur in H2. rewrite (key_min_some _ _ _ Hkc) in H2.
      apply orb_prop in H2 as [H2|H2].
      * left. intros Heq. rewrite Heq in H2. unfold tier_eqb in H2. lia.
      * right. lia.
    + intros (s & E & H). inversion E; subst s. destruct H as (ka' & H1 & H2 & H3).
      assert (ka' = ka) by (exact (is_min_unique _ _ _ _ H1 Sa)). subst ka'.
      assert (ka = kb) by (exact (is_min_unique _ _ _ _ H2 Sall)). subst kb.
      replace (key_eqb ka ka) with true by (symmetry; now apply key_eqb_eq). cbn [andb].
      destruct (current i) as [c|] eqn:Ecur; [|reflexivity].
      pose proof (key_min_spec (fun x => addr_eqb x c) (paths i)) as Sc.
      destruct (key_min (keys_of (fun x => addr_eqb x c) (paths i))) as [kc|]; [|reflexivity].
      destruct (H3 c kc eq_refl Sc) as [H|H].
      * destruct (tier_eqb (fst kc) (fst ka)) eqn:Et; [apply tier_eqb_eq in Et; contradiction|reflexivity].
      * apply orb_true_intro. right. lia.
  - split.
    + intros H. exists None. split; [reflexivity|]. right.
      destruct (current i) as [c|] eqn:Ecur; [|discriminate].
      pose proof (key_min_spec (fun x => addr_eqb x c) (paths i)) as Sc.
      destruct (key_min (keys_of (fun x => addr_eqb x c) (paths i))) as [kc|]; [|discriminate].
      apply andb_prop in H as [H1 H2]. apply tier_eqb_eq in H1.
      exists c, kc, kb. repeat split; auto; try apply Sc; try apply Sall. lia.
    + intros (s & E & H). inversion E; subst s. destruct H as [H|(c & kc & kb' & Ecur & Hkc & Hkb & Ht & Hlt)].
      * exfalso. eapply is_min_not_none; eauto.
      * assert (kb' = kb) by (exact (is_min_unique _ _ _ _ Hkb Sall)). subst kb'.
        rewrite Ecur, (key_min_some _ _ _ Hkc). apply andb_true_intro. split; [now apply tier_eqb_eq|lia].
Qed.

(* ---------- non-vacuity and witnesses ---------- *)
Definition v4a := mkAddr 0 1. Definition v4b := mkAddr 0 2.
Definition v6a := mkAddr 1 1. Definition rla := mkAddr 2 1.

(* 5 ms better: switch; 5 ms - 1 ns better: keep *)
Example ex_switch : model (mkIn (Some v4a) [(v4a, Some 20000000%N); (v4b, Some 15000000%N)]) = Ok (Some v4b).
Proof. vm_compute. reflexivity. Qed.
Example ex_keep : model (mkIn (Some v4a) [(v4a, Some 20000000%N); (v4b, Some 15000001%N)]) = Ok None.
Proof. vm_compute. reflexivity. Qed.
(* relay current, slow primary appears: immediate switch *)
Example ex_tier : model (mkIn (Some rla) [(rla, Some 1000000%N); (v4a, Some 1000000000%N)]) = Ok (Some v4a).
Proof. vm_compute. reflexivity. Qed.
(* duplicates: the lowest instance of the current address counts *)
Example ex_dup : model (mkIn (Some v4a) [(v4a, Some 30000000%N); (v4b, Some 15000000%N); (v4a, Some 19000000%N)]) = Ok None.
Proof. vm_compute. reflexivity. Qed.
Example ex_v6 : model (mkIn None [(v4a, Some 10000000%N); (v6a, Some 12999999%N)]) = Ok (Some v6a).
Proof. vm_compute. reflexivity. Qed.
Example ex_max : model (mkIn (Some v4a) [(v4a, Some DURATION_MAX_NANOS); (v4b, Some DURATION_MAX_NANOS)]) = Ok None.
Proof. vm_compute. reflexivity. Qed.
Example ex_valid : valid (mkIn (Some v4a) [(v4a, Some DURATION_MAX_NANOS); (v4b, None)]) = true.
Proof. vm_compute. reflexivity. Qed.
