(* C38 — proofs. *)
From V Require Import Lib.Base Model.C38.
Import C38.
Open Scope N_scope.

(* ---- the race in the code before the fix ---- *)
Definition wp1 := mkPkt 0 1 0 1 [1].
Definition wp2 := mkPkt 0 2 0 2 [2].
Definition witness : input :=
  ([TPublish wp1; TResolve 0 0; TPublish wp2; TResolve 0 0],
   [0; 0; 1; 1; 2; 2; 1]%nat).

Lemma unfixed_refuted : exists i, monitor i (model_fx false i) = false.
Proof. exists witness. vm_compute. reflexivity. Qed.
