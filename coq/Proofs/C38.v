(* C38 — proofs: the order on packets, the invariant of the interleaving system,
   the monitor on every run, the witness of the race before the fix. *)
From V Require Import Lib.Base Model.C38.
Import C38.
Open Scope N_scope.

(* ---------- order ---------- *)
Lemma ble_refl a : ble a a = true.
Proof. induction a as [|x a IH]; cbn; [reflexivity|]. rewrite N.ltb_irrefl, N.eqb_refl. exact IH. Qed.

Lemma ble_trans a : forall b c, ble a b = true -> ble b c = true -> ble a c = true.
Proof.
  induction a as [|x a IH]; intros [|y b] [|z c]; cbn; try congruence.
  destruct (N.ltb_spec x y), (N.ltb_spec y z), (N.ltb_spec x z); try congruence; try lia.
  - destruct (N.eqb_spec y z); try congruence. lia.
  - destruct (N.eqb_spec x y); try congruence. lia.
  - destruct (N.eqb_spec x y), (N.eqb_spec y z), (N.eqb_spec x z); try congruence; try lia. apply IH.
Qed.

Lemma ble_total a : forall b, ble a b = false -> ble b a = true.
Proof.
  induction a as [|x a IH]; intros [|y b]; cbn; try congruence.
  destruct (N.ltb_spec x y), (N.ltb_spec y x); try congruence; try lia.
  destruct (N.eqb_spec x y), (N.eqb_spec y x); try congruence; try lia. apply IH.
Qed.

Lemma ge_refl a : ge a a = true.
Proof. unfold ge, more_recent. rewrite N.eqb_refl, ble_refl. reflexivity. Qed.

Lemma ge_trans a b c : ge a b = true -> ge b c = true -> ge a c = true.
Proof.
  unfold ge, more_recent.
  destruct (N.eqb_spec (pts b) (pts a)), (N.eqb_spec (pts c) (pts b)), (N.eqb_spec (pts c) (pts a));
    try lia; rewrite ?negb_involutive, ?negb_true_iff, ?N.ltb_ge; intros; try lia.
  eapply ble_trans; eassumption.
Qed.

Lemma ge_total a b : ge a b = false -> ge b a = true.
Proof.
  unfold ge, more_recent. rewrite (N.eqb_sym (pts a) (pts b)).
  destruct (N.eqb_spec (pts b) (pts a)); rewrite ?negb_involutive, ?negb_false_iff, ?negb_true_iff, ?N.ltb_lt, ?N.ltb_ge.
  - apply ble_total.
  - lia.
Qed.

(* a newer timestamp is not older *)
Lemma ts_lt_ge a b : pts b < pts a -> ge a b = true.
Proof.
  intros H. unfold ge, more_recent. destruct (N.eqb_spec (pts b) (pts a)); [lia|].
  rewrite negb_true_iff, N.ltb_ge. lia.
Qed.

(* ---------- small facts ---------- *)
Lemma pubs_in tasks : forall i p, nth_error tasks i = Some (TPublish p) -> In p (pubs tasks).
Proof.
  induction tasks as [|t r IH]; intros [|i] p H; cbn in H; try discriminate.
  - injection H as ->. cbn. now left.
  - specialize (IH _ _ H). destruct t; cbn; auto.
Qed.

Lemma triple_eqb_refl x : triple_eqb x x = true.
Proof. destruct x as [[a b] c]. cbn. now rewrite !N.eqb_refl. Qed.

Lemma opt_N_eqb_refl (x : option N) : opt_eqb N.eqb x x = true.
Proof. destruct x; cbn; [apply N.eqb_refl|reflexivity]. Qed.

Lemma fresh_R_intro ps k nm a need :
  (forall p, In p need -> pkey p = k ->
     exists q, In q ps /\ pkey q = k /\ ge q p = true /\ ans q nm = a) ->
  fresh_R ps k nm a need = true.
Proof.
  intros H. unfold fresh_R. apply forallb_forall. intros p Hp.
  destruct (N.eqb_spec (pkey p) k) as [E|E]; [|reflexivity]. cbn [negb orb].
  destruct (H p Hp E) as (q & Hq & Hk & Hg & Ha).
  apply existsb_exists. exists q. split; [exact Hq|].
  rewrite Hk, N.eqb_refl, Hg, Ha, opt_N_eqb_refl. reflexivity.
Qed.

Lemma fresh_G_intro ps k r need :
  (forall p, In p need -> pkey p = k ->
     exists q, In q ps /\ pkey q = k /\ ge q p = true /\ Some (triple q) = r) ->
  fresh_G ps k r need = true.
Proof.
  intros H. unfold fresh_G. apply forallb_forall. intros p Hp.
  destruct (N.eqb_spec (pkey p) k) as [E|E]; [|reflexivity]. cbn [negb orb].
  destruct (H p Hp E) as (q & Hq & Hk & Hg & Ha).
  apply existsb_exists. exists q. split; [exact Hq|].
  rewrite Hk, N.eqb_refl, Hg, <- Ha. cbn [opt_eqb andb]. apply triple_eqb_refl.
Qed.

(* ---------- the invariant ---------- *)
Record Inv (tasks : list task) (s : st) (m : mst) : Prop := {
  (* stored packets were published, under their own key *)
  i_store : forall k e, store s k = Some e -> pkey e = k /\ In e (pubs tasks);
  (* an acknowledged publish is in the store, or something not older is *)
  i_acked : forall p, In p (acked m) -> exists e, store s (pkey p) = Some e /\ ge e p = true;
  (* a cached zone is not older than any acknowledged publish for its key *)
  i_cache : forall k c, cache s k = Some c ->
      pkey c = k /\ In c (pubs tasks) /\
      forall p, In p (acked m) -> pkey p = k -> ge c p = true;
  (* a lookup holding a packet read from the store *)
  i_got : forall i k nm seen g, nth_error tasks i = Some (TResolve k nm) -> pcs s i = RGot seen g ->
      pkey g = k /\ In g (pubs tasks) /\ seen <= inval s /\
      (exists N, needs m i = Some N /\ forall p, In p N -> pkey p = k -> ge g p = true) /\
      (seen = inval s -> forall p, In p (acked m) -> pkey p = k -> ge g p = true);
  i_checked : forall i k nm seen, nth_error tasks i = Some (TResolve k nm) -> pcs s i = RChecked seen ->
      seen <= inval s /\ exists N, needs m i = Some N;
  i_needs : forall i N, needs m i = Some N -> incl N (acked m);
  (* a publish between its upsert and its cache invalidation *)
  i_pending : forall i p, nth_error tasks i = Some (TPublish p) -> pcs s i = PUpserted ->
      exists e, store s (pkey p) = Some e /\ ge e p = true }.

Lemma inv_init tasks : Inv tasks init minit.
Proof. constructor; cbn; intros; try discriminate; try contradiction. Qed.

Definition need_of (m : mst) (i : nat) : list pkt :=
  match needs m i with Some n => n | None => acked m end.
Definition m1_of (m : mst) (i : nat) : mst :=
  mkMst (acked m) (updn (needs m) i (Some (need_of m i))).

Lemma need_incl tasks s m i : Inv tasks s m -> incl (need_of m i) (acked m).
Proof.
  intros I. unfold need_of. destruct (needs m i) eqn:E; [eapply i_needs; eauto|apply incl_refl].
Qed.

Lemma m1_needs_same m i N : needs m i = Some N -> forall j, needs (m1_of m i) j = needs m j.
Proof.
  intros H j. unfold m1_of, need_of, updn. cbn. destruct (Nat.eqb_spec j i); [subst; now rewrite H|reflexivity].
Qed.

(* Only the program counter of task i changes, and its new value is not one the
   invariant speaks about (or the clause is re-established by hand). *)
Ltac upd_cases :=
  repeat match goal with
  | H : context [Nat.eqb ?j ?i] |- _ => destruct (Nat.eqb_spec j i); [subst|]
  | |- context [Nat.eqb ?j ?i] => destruct (Nat.eqb_spec j i); [subst|]
  end.

(* setting the pc of i to Finished / RChecked / RGot with needs := m1 *)
Lemma inv_m1_pc tasks s m i newpc :
  Inv tasks s m ->
  (forall k nm seen g, nth_error tasks i = Some (TResolve k nm) -> newpc = RGot seen g ->
      pkey g = k /\ In g (pubs tasks) /\ seen <= inval s /\
      (forall p, In p (need_of m i) -> pkey p = k -> ge g p = true) /\
      (seen = inval s -> forall p, In p (acked m) -> pkey p = k -> ge g p = true)) ->
  (forall k nm seen, nth_error tasks i = Some (TResolve k nm) -> newpc = RChecked seen -> seen <= inval s) ->
  (forall p, nth_error tasks i = Some (TPublish p) -> newpc = PUpserted -> False) ->
  Inv tasks (set_pc s i newpc) (m1_of m i).
Proof.
  intros I Hg Hc Hp. constructor; cbn [set_pc store cache inval pcs m1_of acked needs].
  - apply (i_store _ _ _ I).
  - apply (i_acked _ _ _ I).
  - apply (i_cache _ _ _ I).
  - intros j k nm seen g Ht Hpc. unfold updn in *. destruct (Nat.eqb_spec j i) as [->|Ne].
    + destruct (Hg _ _ _ _ Ht Hpc) as (A & B & C & D & E). repeat split; auto.
      exists (need_of m i). split; auto.
    + apply (i_got _ _ _ I _ _ _ _ _ Ht Hpc).
  - intros j k nm seen Ht Hpc. unfold updn in *. destruct (Nat.eqb_spec j i) as [->|Ne].
    + split; [eapply Hc; eauto|eauto].
    + apply (i_checked _ _ _ I _ _ _ _ Ht Hpc).
  - intros j N. unfold updn. destruct (Nat.eqb_spec j i) as [->|Ne].
    + intros [= <-]. eapply need_incl; eauto.
    + apply (i_needs _ _ _ I).
  - intros j p Ht Hpc. unfold updn in *. destruct (Nat.eqb_spec j i) as [->|Ne].
    + exfalso. eapply Hp; eauto.
    + apply (i_pending _ _ _ I _ _ Ht Hpc).
Qed.

(* one step of the fixed code keeps the invariant and passes the monitor *)
Lemma step_inv tasks s m i s' o :
  Inv tasks s m -> step true tasks s i = (s', o) ->
  exists m', mon_step tasks m i o = Some m' /\ Inv tasks s' m'.
Proof.
  intros I. unfold step.
  destruct (nth_error tasks i) as [t|] eqn:Ht.
  2:{ intros [= <- <-]. exists m. split; [reflexivity|exact I]. }
  assert (Hskip : (s, OSkip) = (s', o) -> exists m', mon_step tasks m i o = Some m' /\ Inv tasks s' m').
  { intros [= <- <-]. exists m. split; [reflexivity|exact I]. }
  fold (need_of m i).
  destruct t as [k nm|p|k]; destruct (pcs s i) as [|seen|seen g| |] eqn:Hpc; try exact Hskip.
  - (* resolve, cache check *)
    unfold cache_resolve. destruct (cache s k) as [z|] eqn:Hc.
    + destruct (ans z nm) as [v|] eqn:Ha.
      * intros [= <- <-]. unfold mon_step. rewrite Ht. fold (need_of m i). fold (m1_of m i).
        destruct (i_cache _ _ _ I _ _ Hc) as (Zk & Zin & Zge).
        rewrite fresh_R_intro.
        -- eexists; split; [reflexivity|]. apply inv_m1_pc; auto; intros; discriminate.
        -- intros p Hp Hk. exists z. repeat split; auto. apply Zge; auto. eapply need_incl; eauto.
      * intros [= <- <-]. unfold mon_step. rewrite Ht. fold (need_of m i). fold (m1_of m i).
        eexists; split; [reflexivity|]. apply inv_m1_pc; auto; try (intros; discriminate).
        intros ? ? ? _ [= <-]. lia.
    + intros [= <- <-]. unfold mon_step. rewrite Ht. fold (need_of m i). fold (m1_of m i).
      eexists; split; [reflexivity|]. apply inv_m1_pc; auto; try (intros; discriminate).
      intros ? ? ? _ [= <-]. lia.
  - (* resolve, store read *)
    destruct (i_checked _ _ _ I _ _ _ _ Ht Hpc) as (Hle & N & HN).
    destruct (store s k) as [g|] eqn:Hs.
    + intros [= <- <-]. unfold mon_step. rewrite Ht. fold (need_of m i). fold (m1_of m i).
      eexists; split; [reflexivity|]. apply inv_m1_pc; auto; try (intros; discriminate).
      intros k' nm' seen' g' Ht' [= <- <-]. rewrite Ht in Ht'. injection Ht' as <- <-.
      destruct (i_store _ _ _ I _ _ Hs) as (Gk & Gin).
      assert (A : forall p, In p (acked m) -> pkey p = k -> ge g p = true).
      { intros p Hp Hk. destruct (i_acked _ _ _ I _ Hp) as (e & He & Hge). rewrite Hk, Hs in He.
        injection He as <-. exact Hge. }
      repeat split; auto. intros p Hp. apply A. eapply need_incl; eauto.
    + intros [= <- <-]. unfold mon_step. rewrite Ht. fold (need_of m i). fold (m1_of m i).
      rewrite fresh_R_intro.
      * eexists; split; [reflexivity|]. apply inv_m1_pc; auto; intros; discriminate.
      * intros p Hp Hk. exfalso. apply (need_incl _ _ _ i I) in Hp.
        destruct (i_acked _ _ _ I _ Hp) as (e & He & _). rewrite Hk, Hs in He. discriminate.
  - (* resolve, cache fill / answer *)
    destruct (i_got _ _ _ I _ _ _ _ _ Ht Hpc) as (Gk & Gin & Hle & (N & HN & HNge) & Hcur).
    assert (Hneed : need_of m i = N) by (unfold need_of; now rewrite HN).
    cbn [andb]. destruct (N.eqb_spec seen (inval s)) as [E|E]; cbn [negb].
    + (* no invalidation since the check: fill *)
      intros [= <- <-]. unfold mon_step. rewrite Ht. fold (need_of m i). fold (m1_of m i).
      set (c' := cache_insert (cache s) g).
      assert (Hc' : exists z, c' (pkey g) = Some z /\ pkey z = k /\ In z (pubs tasks) /\
                 forall p, In p (acked m) -> pkey p = k -> ge z p = true).
      { unfold c', cache_insert. destruct (cache s (pkey g)) as [old|] eqn:Ho.
        - destruct (N.ltb_spec (pts g) (pts old)).
          + exists old. rewrite Ho. destruct (i_cache _ _ _ I _ _ Ho) as (A & B & C).
            rewrite Gk in A. rewrite Gk in C. auto.
          + exists g. unfold upd. rewrite N.eqb_refl. auto.
        - exists g. unfold upd. rewrite N.eqb_refl. auto. }
      destruct Hc' as (z & Hz & Zk & Zin & Zge).
      rewrite fresh_R_intro.
      * eexists; split; [reflexivity|].
        constructor; cbn [store cache inval pcs m1_of acked needs].
        -- apply (i_store _ _ _ I).
        -- apply (i_acked _ _ _ I).
        -- intros k' c Hc. destruct (N.eqb_spec k' (pkey g)) as [->|Ne].
           ++ rewrite Hz in Hc. injection Hc as <-. rewrite Gk. auto.
           ++ apply (i_cache _ _ _ I).
              unfold c', cache_insert in Hc. destruct (cache s (pkey g)) as [old|];
                [destruct (pts g <? pts old)|]; auto; unfold upd in Hc;
                destruct (N.eqb_spec k' (pkey g)); try contradiction; auto.
        -- intros j k' nm' seen' g' Ht' Hpc'. unfold updn in *. destruct (Nat.eqb_spec j i) as [->|Ne]; [discriminate|].
           apply (i_got _ _ _ I _ _ _ _ _ Ht' Hpc').
        -- intros j k' nm' seen' Ht' Hpc'. unfold updn in *. destruct (Nat.eqb_spec j i) as [->|Ne]; [discriminate|].
           apply (i_checked _ _ _ I _ _ _ _ Ht' Hpc').
        -- intros j N'. unfold updn. destruct (Nat.eqb_spec j i) as [->|Ne].
           ++ intros [= <-]. eapply need_incl; eauto.
           ++ apply (i_needs _ _ _ I).
        -- intros j p Ht' Hpc'. unfold updn in *. destruct (Nat.eqb_spec j i) as [->|Ne]; [discriminate|].
           apply (i_pending _ _ _ I _ _ Ht' Hpc').
      * intros p Hp Hk. exists z. repeat split; auto.
        -- apply Zge; auto. eapply need_incl; eauto.
        -- unfold cache_resolve. fold c'. now rewrite Hz.
    + (* invalidated since the check: answer from the packet, no fill *)
      intros [= <- <-]. unfold mon_step. rewrite Ht. fold (need_of m i). fold (m1_of m i).
      rewrite fresh_R_intro.
      * eexists; split; [reflexivity|]. apply inv_m1_pc; auto; intros; discriminate.
      * intros p Hp Hk. exists g. rewrite Hneed in Hp. repeat split; auto.
  - (* publish, upsert *)
    set (replace := match store s (pkey p) with Some e => negb (more_recent e p) | None => true end).
    destruct replace eqn:Hr.
    + intros [= <- <-]. unfold mon_step. rewrite Ht. fold (need_of m i). fold (m1_of m i).
      eexists; split; [reflexivity|].
      assert (Hnew : forall e, store s (pkey p) = Some e -> ge p e = true).
      { intros e He. unfold replace in Hr. rewrite He in Hr. exact Hr. }
      assert (Hmono : forall q, (exists e, store s (pkey q) = Some e /\ ge e q = true) ->
                 exists e, upd (store s) (pkey p) (Some p) (pkey q) = Some e /\ ge e q = true).
      { intros q (e & He & Hge). unfold upd. destruct (N.eqb_spec (pkey q) (pkey p)) as [Eq|Ne].
        - exists p. split; auto. rewrite Eq in He. eapply ge_trans; [apply Hnew; eauto|exact Hge].
        - eauto. }
      constructor; cbn [store cache inval pcs m1_of acked needs].
      * intros k e. unfold upd. destruct (N.eqb_spec k (pkey p)) as [->|Ne].
        -- intros [= <-]. split; auto. eapply pubs_in; eauto.
        -- apply (i_store _ _ _ I).
      * intros q Hq. apply Hmono. apply (i_acked _ _ _ I _ Hq).
      * apply (i_cache _ _ _ I).
      * intros j k' nm' seen' g' Ht' Hpc'. unfold updn in *. destruct (Nat.eqb_spec j i) as [->|Ne]; [discriminate|].
        apply (i_got _ _ _ I _ _ _ _ _ Ht' Hpc').
      * intros j k' nm' seen' Ht' Hpc'. unfold updn in *. destruct (Nat.eqb_spec j i) as [->|Ne]; [discriminate|].
        apply (i_checked _ _ _ I _ _ _ _ Ht' Hpc').
      * intros j N'. unfold updn. destruct (Nat.eqb_spec j i) as [->|Ne].
        -- intros [= <-]. eapply need_incl; eauto.
        -- apply (i_needs _ _ _ I).
      * intros j q Ht' Hpc'. unfold updn in *. destruct (Nat.eqb_spec j i) as [->|Ne].
        -- rewrite Ht in Ht'. injection Ht' as <-. exists p. unfold upd. rewrite N.eqb_refl.
           split; auto. apply ge_refl.
        -- apply Hmono. apply (i_pending _ _ _ I _ _ Ht' Hpc').
    + intros [= <- <-]. unfold mon_step. rewrite Ht. fold (need_of m i). fold (m1_of m i).
      eexists; split; [reflexivity|]. apply inv_m1_pc; auto; intros; discriminate.
  - (* publish, cache invalidation and acknowledgement *)
    intros [= <- <-]. unfold mon_step. rewrite Ht. fold (need_of m i). fold (m1_of m i).
    eexists; split; [reflexivity|].
    constructor; cbn [store cache inval pcs m1_of acked needs].
    + apply (i_store _ _ _ I).
    + intros q [<-|Hq]; [apply (i_pending _ _ _ I _ _ Ht Hpc)|apply (i_acked _ _ _ I _ Hq)].
    + intros k c. unfold upd. destruct (N.eqb_spec k (pkey p)) as [->|Ne]; [discriminate|].
      intros Hc. destruct (i_cache _ _ _ I _ _ Hc) as (A & B & C). repeat split; auto.
      intros q [<-|Hq] Hk; [congruence|auto].
    + intros j k' nm' seen' g' Ht' Hpc'. unfold updn in *. destruct (Nat.eqb_spec j i) as [->|Ne]; [discriminate|].
      destruct (i_got _ _ _ I _ _ _ _ _ Ht' Hpc') as (A & B & C & D & E).
      repeat split; auto; try lia.
    + intros j k' nm' seen' Ht' Hpc'. unfold updn in *. destruct (Nat.eqb_spec j i) as [->|Ne]; [discriminate|].
      destruct (i_checked _ _ _ I _ _ _ _ Ht' Hpc') as (A & B). split; [lia|auto].
    + intros j N'. unfold updn. destruct (Nat.eqb_spec j i) as [->|Ne].
      * intros [= <-]. apply incl_tl. eapply need_incl; eauto.
      * intros H. apply incl_tl. eapply (i_needs _ _ _ I); eauto.
    + intros j q Ht' Hpc'. unfold updn in *. destruct (Nat.eqb_spec j i) as [->|Ne]; [discriminate|].
      apply (i_pending _ _ _ I _ _ Ht' Hpc').
  - (* get_signed_packet *)
    intros [= <- <-]. unfold mon_step. rewrite Ht. fold (need_of m i). fold (m1_of m i).
    rewrite fresh_G_intro.
    + eexists; split; [reflexivity|]. apply inv_m1_pc; auto; intros; discriminate.
    + intros p Hp Hk. apply (need_incl _ _ _ i I) in Hp.
      destruct (i_acked _ _ _ I _ Hp) as (e & He & Hge). rewrite Hk in He.
      destruct (i_store _ _ _ I _ _ He) as (A & B).
      exists e. rewrite He. repeat split; auto.
Qed.

(* ---------- the lock layer: bookkeeping events leave the state alone ---------- *)
Lemma inv_m1 tasks s m i : Inv tasks s m -> Inv tasks s (m1_of m i).
Proof.
  intros I. constructor; cbn [m1_of acked needs].
  - apply (i_store _ _ _ I).
  - apply (i_acked _ _ _ I).
  - apply (i_cache _ _ _ I).
  - intros j k nm seen g Ht Hpc.
    destruct (i_got _ _ _ I _ _ _ _ _ Ht Hpc) as (A & B & C & (N & HN & HNge) & E).
    repeat split; auto. exists N. split; auto.
    unfold updn. destruct (Nat.eqb_spec j i) as [->|Ne]; auto.
    unfold need_of. now rewrite HN.
  - intros j k nm seen Ht Hpc.
    destruct (i_checked _ _ _ I _ _ _ _ Ht Hpc) as (A & N & HN). split; auto.
    unfold updn. destruct (Nat.eqb_spec j i) as [->|Ne]; eauto.
  - intros j N. unfold updn. destruct (Nat.eqb_spec j i) as [->|Ne].
    + intros [= <-]. eapply need_incl; eauto.
    + apply (i_needs _ _ _ I).
  - apply (i_pending _ _ _ I).
Qed.

(* an event that is not a completion (parked inside the lock scope, blocked) *)
Lemma book_inv tasks s m i o :
  Inv tasks s m -> (o = OBlocked \/ exists pt, o = OPark pt) ->
  exists m', mon_step tasks m i o = Some m' /\ Inv tasks s m'.
Proof.
  intros I Ho. unfold mon_step. fold (need_of m i). fold (m1_of m i).
  destruct (nth_error tasks i) as [t|].
  - exists (m1_of m i). split; [|apply inv_m1; exact I].
    destruct Ho as [->|(pt & ->)]; destruct t; reflexivity.
  - exists m. split; [|exact I]. destruct Ho as [->|(pt & ->)]; reflexivity.
Qed.

(* the monitor as a fold that returns its final state *)
Fixpoint mon_events (tasks : list task) (m : mst) (l : list event) : option mst :=
  match l with
  | [] => Some m
  | (i, o) :: r => match mon_step tasks m i o with
                   | Some m' => mon_events tasks m' r
                   | None => None
                   end
  end.

Lemma mon_events_app tasks : forall l1 m l2,
  mon_events tasks m (l1 ++ l2) =
  match mon_events tasks m l1 with Some m' => mon_events tasks m' l2 | None => None end.
Proof.
  induction l1 as [|[i o] r IH]; intros m l2; cbn; [reflexivity|].
  destruct (mon_step tasks m i o); auto.
Qed.

Lemma mon_run_events tasks : forall l m,
  mon_run tasks m l = match mon_events tasks m l with Some _ => true | None => false end.
Proof.
  induction l as [|[i o] r IH]; intros m; cbn; [reflexivity|].
  destruct (mon_step tasks m i o); auto.
Qed.

Lemma wake_inv tasks : forall ws s m s' evs,
  Inv tasks s m -> wake true tasks s ws = (s', evs) ->
  exists m', mon_events tasks m evs = Some m' /\ Inv tasks s' m'.
Proof.
  induction ws as [|w r IH]; intros s m s' evs I; cbn [wake].
  - intros [= <- <-]. exists m. split; [reflexivity|exact I].
  - destruct (step true tasks s w) as [s1 o] eqn:E1.
    destruct (wake true tasks s1 r) as [s2 evs2] eqn:E2. intros [= <- <-].
    destruct (step_inv _ _ _ _ _ _ I E1) as (m1 & H1 & I1).
    destruct (IH _ _ _ _ I1 E2) as (m2 & H2 & I2).
    exists m2. split; [|exact I2]. cbn [mon_events]. now rewrite H1.
Qed.

(* one schedule entry of the locked system keeps the invariant and passes the monitor *)
Lemma xstep_inv tasks x m e x' evs :
  Inv tasks (base x) m -> xstep true tasks x e = (x', evs) ->
  exists m', mon_events tasks m evs = Some m' /\ Inv tasks (base x') m'.
Proof.
  intros I. destruct e as [i hold]. unfold xstep.
  destruct (negb (live tasks (base x) i)).
  { intros [= <- <-]. exists m. split; [reflexivity|exact I]. }
  destruct (existsb (Nat.eqb i) (waiters x)).
  { intros [= <- <-]. destruct (book_inv tasks _ _ i OBlocked I (or_introl eq_refl)) as (m' & H & I').
    exists m'. split; [|exact I']. cbn [mon_events]. now rewrite H. }
  assert (Hplain : forall h ws, (let '(s1, o) := step true tasks (base x) i in (mkX s1 h ws, [(i, o)])) = (x', evs) ->
            exists m', mon_events tasks m evs = Some m' /\ Inv tasks (base x') m').
  { intros h ws. destruct (step true tasks (base x) i) as [s1 o] eqn:E1. intros [= <- <-].
    destruct (step_inv _ _ _ _ _ _ I E1) as (m1 & H1 & I1).
    exists m1. split; [|exact I1]. cbn [mon_events]. now rewrite H1. }
  destruct (holder x) as [j|].
  - destruct (Nat.eqb i j).
    + destruct (step true tasks (base x) i) as [s1 o] eqn:E1.
      destruct (wake true tasks s1 (waiters x)) as [s2 evs2] eqn:E2. intros [= <- <-].
      destruct (step_inv _ _ _ _ _ _ I E1) as (m1 & H1 & I1).
      destruct (wake_inv _ _ _ _ _ _ I1 E2) as (m2 & H2 & I2).
      exists m2. split; [|exact I2]. cbn [mon_events]. now rewrite H1.
    + destruct (needs_lock tasks (base x) i).
      * intros [= <- <-]. destruct (book_inv tasks _ _ i OBlocked I (or_introl eq_refl)) as (m' & H & I').
        exists m'. split; [|exact I']. cbn [mon_events]. now rewrite H.
      * apply Hplain.
  - destruct (if hold then hold_point tasks (base x) i else None) as [pt|].
    + intros [= <- <-].
      destruct (book_inv tasks _ _ i (OPark pt) I (or_intror (ex_intro _ pt eq_refl))) as (m' & H & I').
      exists m'. split; [|exact I']. cbn [mon_events]. now rewrite H.
    + apply Hplain.
Qed.

Lemma xrun_monitor tasks : forall sched x m,
  Inv tasks (base x) m -> exists m', mon_events tasks m (xrun true tasks x sched) = Some m'.
Proof.
  induction sched as [|e r IH]; intros x m I; cbn [xrun]; [eexists; reflexivity|].
  destruct (xstep true tasks x e) as [x' evs] eqn:E.
  destruct (xstep_inv _ _ _ _ _ _ I E) as (m1 & H1 & I1).
  destruct (IH _ _ I1) as (m2 & H2). exists m2. now rewrite mon_events_app, H1.
Qed.

(* For every task list and every schedule (with every choice of parking inside the lock scopes)
   the run of the (fixed) model passes the monitor. *)
Lemma fixed_monitor : forall i, monitor i (model_fx true i) = true.
Proof.
  intros [tasks sched]. unfold monitor, model_fx. rewrite mon_run_events.
  destruct (xrun_monitor tasks (full_sched tasks sched) xinit minit (inv_init tasks)) as (m' & ->).
  reflexivity.
Qed.

(* the step of a task that needs the cache lock is disabled while another task is parked inside
   its lock scope: nothing happens to store and cache, the task is queued *)
Lemma locked_step_disabled fx tasks x i hold j :
  holder x = Some j -> i <> j -> live tasks (base x) i = true ->
  existsb (Nat.eqb i) (waiters x) = false -> needs_lock tasks (base x) i = true ->
  xstep fx tasks x (i, hold) = (mkX (base x) (Some j) (waiters x ++ [i]), [(i, OBlocked)]).
Proof.
  intros Hh Ne Hl Hw Hn. unfold xstep. rewrite Hl, Hw, Hh, Hn. cbn [negb].
  destruct (Nat.eqb_spec i j); [contradiction|reflexivity].
Qed.

(* ---------- what the monitor says, in words ----------
   A run is the list of (task index, observation) events.  If it contains the
   acknowledgement of publish p as an update, and later the answer of a lookup
   for p's key whose first event comes after that acknowledgement, then the
   answer is that of a published packet for the key that is not older than p. *)
(* p is waited for by lookup i: either i has not started and p is acknowledged,
   or i started when p was already acknowledged *)
Definition covers (m : mst) (i : nat) (p : pkt) : Prop :=
  In p (need_of m i).

Lemma mon_step_shape tasks m j o m' :
  mon_step tasks m j o = Some m' ->
  m' = m \/ (o <> OSkip /\ (m' = m1_of m j \/ exists p, m' = mkMst (p :: acked m) (needs (m1_of m j)))).
Proof.
  unfold mon_step. fold (need_of m j). fold (m1_of m j).
  destruct (nth_error tasks j) as [t|].
  2:{ destruct o; intros [= <-]; now left. }
  destruct o; try (intros [= <-]; now left); intros H; right; (split; [discriminate|]);
    destruct t; try (injection H as <-; now left);
    try (match type of H with (if ?c then _ else _) = _ => destruct c end;
         [injection H as <-; now left|discriminate]).
  destruct u; injection H as <-; [right; eauto|now left].
Qed.

Lemma mon_step_covers tasks m j o m' i p :
  mon_step tasks m j o = Some m' -> covers m i p -> covers m' i p.
Proof.
  intros H C. unfold covers in *.
  assert (C1 : In p (need_of (m1_of m j) i)).
  { unfold need_of, m1_of, updn in *. cbn [needs acked].
    destruct (Nat.eqb_spec i j) as [->|]; auto. }
  destruct (mon_step_shape _ _ _ _ _ H) as [->|(_ & [->|(q & ->)])]; auto.
  unfold need_of in *. cbn [needs acked] in *. destruct (needs (m1_of m j) i); auto. now right.
Qed.

Lemma mon_step_needs tasks m j o m' i :
  mon_step tasks m j o = Some m' -> i <> j -> needs m' i = needs m i.
Proof.
  intros H Ne.
  assert (Q : needs (m1_of m j) i = needs m i).
  { unfold m1_of, updn. cbn [needs]. destruct (Nat.eqb_spec i j); [contradiction|reflexivity]. }
  destruct (mon_step_shape _ _ _ _ _ H) as [->|(_ & [->|(q & ->)])]; auto.
Qed.

Lemma mon_step_acked tasks m j o m' :
  mon_step tasks m j o = Some m' -> incl (acked m) (acked m').
Proof.
  intros H. destruct (mon_step_shape _ _ _ _ _ H) as [->|(_ & [->|(q & ->)])];
    cbn [acked m1_of]; try apply incl_refl. apply incl_tl, incl_refl.
Qed.

Lemma mon_run_app tasks : forall l1 m l2,
  mon_run tasks m (l1 ++ l2) = true ->
  exists m1, mon_run tasks m1 l2 = true /\
    (forall i p, covers m i p -> covers m1 i p) /\
    (forall i, (forall o, In (i, o) l1 -> o = OSkip) -> needs m1 i = needs m i) /\
    (incl (acked m) (acked m1)).
Proof.
  induction l1 as [|[j o] r IH]; intros m l2 H.
  - exists m. repeat split; auto. apply incl_refl.
  - cbn in H. destruct (mon_step tasks m j o) as [m'|] eqn:E; [|discriminate].
    destruct (IH _ _ H) as (m1 & R & C & Nn & A). exists m1. split; [exact R|]. split; [|split].
    + intros i p Hc. apply C. eapply mon_step_covers; eauto.
    + intros i Hi. rewrite Nn by (intros o' Ho'; apply Hi; now right).
      destruct (Nat.eq_dec i j) as [->|Ne].
      * rewrite (Hi o (or_introl eq_refl)) in E. cbn in E. now injection E as <-.
      * eapply mon_step_needs; eauto.
    + eapply incl_tran; [eapply mon_step_acked; eauto|exact A].
Qed.

Lemma monitor_sound tasks sched os :
  monitor (tasks, sched) os = true ->
  forall l1 l2 l3 j p i k nm a,
    os = l1 ++ (j, ODoneP true) :: l2 ++ (i, ODoneR a) :: l3 ->
    nth_error tasks j = Some (TPublish p) ->
    nth_error tasks i = Some (TResolve k nm) ->
    pkey p = k ->
    (forall o, In (i, o) l1 -> o = OSkip) ->
    exists q, In q (pubs tasks) /\ pkey q = k /\ ge q p = true /\ ans q nm = a.
Proof.
  unfold monitor. intros H l1 l2 l3 j p i k nm a E Hj Hi Hk Hfirst.
  rewrite E in H. clear E.
  destruct (mon_run_app _ _ _ _ H) as (m1 & H1 & _ & N1 & _).
  specialize (N1 i Hfirst). cbn [minit needs] in N1.
  cbn [mon_run] in H1. unfold mon_step in H1. rewrite Hj in H1.
  fold (need_of m1 j) in H1. fold (m1_of m1 j) in H1.
  set (m2 := mkMst (p :: acked m1) (needs (m1_of m1 j))) in H1.
  assert (C2 : covers m2 i p).
  { unfold covers, need_of, m2, m1_of, updn. cbn [needs acked].
    destruct (Nat.eqb_spec i j) as [->|Ne]; [congruence|]. rewrite N1. now left. }
  destruct (mon_run_app _ _ _ _ H1) as (m3 & H3 & C3 & _ & _).
  specialize (C3 _ _ C2). cbn [mon_run] in H3. unfold mon_step in H3. rewrite Hi in H3.
  fold (need_of m3 i) in H3.
  destruct (fresh_R (pubs tasks) k nm a (need_of m3 i)) eqn:F; [|discriminate].
  unfold fresh_R in F. rewrite forallb_forall in F. specialize (F p C3).
  rewrite Hk, N.eqb_refl in F. cbn [negb orb] in F.
  apply existsb_exists in F as (q & Hq & F).
  apply andb_prop in F as [F Fa]. apply andb_prop in F as [Fk Fg].
  exists q. repeat split; auto.
  - now apply N.eqb_eq.
  - destruct (ans q nm), a; cbn in Fa; try discriminate; auto. apply N.eqb_eq in Fa. congruence.
Qed.

(* the statement of the property for the code as it is (every task list, every schedule,
   every choice of parking lookups inside their lock scopes) *)
Lemma no_stale_after_ack tasks sched :
  forall l1 l2 l3 j p i k nm a,
    model (tasks, sched) = l1 ++ (j, ODoneP true) :: l2 ++ (i, ODoneR a) :: l3 ->
    nth_error tasks j = Some (TPublish p) ->
    nth_error tasks i = Some (TResolve k nm) ->
    pkey p = k ->
    (forall o, In (i, o) l1 -> o = OSkip) ->
    exists q, In q (pubs tasks) /\ pkey q = k /\ ge q p = true /\ ans q nm = a.
Proof. apply (monitor_sound tasks sched). apply (fixed_monitor (tasks, sched)). Qed.

Definition ev (i : nat) (o : obs) : event := (i, o).

(* ---- the race in the code before the fix ---- *)
Definition wp1 := mkPkt 0 1 0 1 [1].
Definition wp2 := mkPkt 0 2 0 2 [2].
Definition witness : input :=
  ([TPublish wp1; TResolve 0 0; TPublish wp2; TResolve 0 0],
   map (fun i => (i, false)) [0; 0; 1; 1; 2; 2; 1]%nat).

Lemma unfixed_refuted : exists i, monitor i (model_fx false i) = false.
Proof. exists witness. vm_compute. reflexivity. Qed.

(* the same schedule on the fixed code: the late fill is suppressed, the later lookup sees p2 *)
Example witness_fixed :
  firstn 19 (model_fx true witness) =
  [ev 0 (OPark 3); ev 0 (ODoneP true); ev 1 (OPark 1); ev 1 (OPark 2); ev 2 (OPark 3); ev 2 (ODoneP true);
   ev 1 (ODoneR (Some 1));
   ev 0 (OSkip); ev 0 (OSkip); ev 0 (OSkip); ev 1 (OSkip); ev 1 (OSkip); ev 1 (OSkip); ev 2 (OSkip); ev 2 (OSkip); ev 2 (OSkip);
   ev 3 (OPark 1); ev 3 (OPark 2); ev 3 (ODoneR (Some 2))].
Proof. vm_compute. reflexivity. Qed.

(* ---- a lookup parked inside its cache lock scope holds up the invalidation of a publish ---- *)
Definition lock_witness : input :=
  ([TPublish wp1; TResolve 0 0; TResolve 0 0; TPublish wp2; TResolve 0 0],
   [(0, false); (0, false); (1, false); (1, false); (1, false);   (* p1 published, looked up, cached *)
    (2, true);                                                      (* lookup 2 parks at in_cache_check *)
    (3, false); (3, false);                                         (* p2: upsert, then the invalidation must wait *)
    (2, false);                                                     (* lookup 2 leaves the scope: cache hit p1 (it started
                                                                       before the acknowledgement); the publish completes *)
    (4, false); (4, false); (4, false)]%nat).                                               (* a lookup after the acknowledgement sees p2 *)

Example lock_witness_run :
  firstn 13 (model lock_witness) =
  [ev 0 (OPark 3); ev 0 (ODoneP true); ev 1 (OPark 1); ev 1 (OPark 2); ev 1 (ODoneR (Some 1));
   ev 2 (OPark 4); ev 3 (OPark 3); ev 3 (OBlocked); ev 2 (ODoneR (Some 1)); ev 3 (ODoneP true);
   ev 4 (OPark 1); ev 4 (OPark 2); ev 4 (ODoneR (Some 2))].
Proof. vm_compute. reflexivity. Qed.

(* what an implementation that skips the invalidation when the lock is busy (try_lock) shows on that
   schedule: the publish is acknowledged although its step is disabled (disagreement), and the later
   lookup is answered from the stale zone (monitor failure) *)
Definition lock_witness_trylock_obs : output :=
  [ev 0 (OPark 3); ev 0 (ODoneP true); ev 1 (OPark 1); ev 1 (OPark 2); ev 1 (ODoneR (Some 1));
   ev 2 (OPark 4); ev 3 (OPark 3); ev 3 (ODoneP true); ev 2 (ODoneR (Some 1)); ev 4 (ODoneR (Some 1))].

Example lock_witness_trylock_rejected :
  agree lock_witness lock_witness_trylock_obs = false /\
  monitor lock_witness lock_witness_trylock_obs = false.
Proof. vm_compute. split; reflexivity. Qed.

Example lock_witness_tag : tag lock_witness = 6.
Proof. vm_compute. reflexivity. Qed.
