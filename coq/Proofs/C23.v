(* C23 — lemmas about the model of prune_non_relay_paths. *)
From Coq Require Import Permutation Sorted Lia ZifyBool.
From V Require Import Lib.Base Lib.Sorting Gen.Consts Model.C23.
Import C23.
Open Scope N_scope.

(* ---------------- generic helpers ---------------- *)
Lemma mem_In x l : mem x l = true <-> In x l.
Proof.
  unfold mem. rewrite existsb_exists. split.
  - intros [y [Hy E]]. apply N.eqb_eq in E. now subst.
  - intros H. exists x. split; [exact H|apply N.eqb_refl].
Qed.

Lemma mem_false x l : mem x l = false <-> ~ In x l.
Proof. rewrite <- mem_In. destruct (mem x l); split; congruence. Qed.

Lemma nodupb_NoDup l : nodupb l = true <-> NoDup l.
Proof.
  induction l as [|x r IH]; cbn [nodupb].
  - split; [constructor|reflexivity].
  - rewrite andb_true_iff, negb_true_iff, mem_false, IH. split.
    + intros [H1 H2]. now constructor.
    + intros H. inversion H; subst. now split.
Qed.

Lemma len_nil {A} : len (@nil A) = 0.
Proof. reflexivity. Qed.
Lemma len_cons {A} (x : A) l : len (x :: l) = len l + 1.
Proof. unfold len. cbn [length]. lia. Qed.
Lemma len_app {A} (u v : list A) : len (u ++ v) = len u + len v.
Proof. unfold len. rewrite app_length. lia. Qed.

Lemma NoDup_map_inj {A B} (f : A -> B) l a b :
  NoDup (map f l) -> In a l -> In b l -> f a = f b -> a = b.
Proof.
  induction l as [|x r IH]; cbn; [contradiction|].
  intros H Ha Hb E. inversion H as [|? ? Hn Hr]; subst.
  destruct Ha as [->|Ha], Hb as [->|Hb]; auto.
  - exfalso. apply Hn. rewrite E. now apply in_map.
  - exfalso. apply Hn. rewrite <- E. now apply in_map.
Qed.

Lemma filter_length_le' {A} (f : A -> bool) l : (length (filter f l) <= length l)%nat.
Proof. induction l as [|x r IH]; cbn; [lia|]. destruct (f x); cbn; lia. Qed.

Lemma filter_length_all {A} (f : A -> bool) l :
  length (filter f l) = length l -> forallb f l = true.
Proof.
  induction l as [|x r IH]; cbn; [reflexivity|].
  pose proof (filter_length_le' f r). destruct (f x); cbn; intros E; [apply IH; lia|lia].
Qed.

Lemma filter_all {A} (f : A -> bool) l : forallb f l = true -> filter f l = l.
Proof.
  induction l as [|x r IH]; cbn; [reflexivity|].
  intros H. apply andb_prop in H as [H1 H2]. rewrite H1. now rewrite IH.
Qed.

Lemma filter_perm_length {A} (f : A -> bool) l l' :
  Permutation l l' -> length (filter f l) = length (filter f l').
Proof.
  induction 1; cbn; try lia.
  - destruct (f x); cbn; lia.
  - destruct (f x), (f y); cbn; lia.
Qed.

Lemma filter_map_length {A B} (h : A -> B) (g : B -> bool) l :
  length (filter (fun a => g (h a)) l) = length (filter g (map h l)).
Proof. induction l as [|x r IH]; cbn; [reflexivity|]. destruct (g (h x)); cbn; lia. Qed.

(* removing the keys of the first n entries of a list with distinct keys leaves the rest *)
Lemma filter_firstn_NoDup {A} (f : A -> N) n l :
  NoDup (map f l) ->
  filter (fun p => negb (mem (f p) (firstn n (map f l)))) l = skipn n l.
Proof.
  revert n. induction l as [|x r IH]; intros n H.
  - now destruct n.
  - destruct n as [|n]; cbn [map firstn skipn].
    + cbn [filter mem existsb negb]. f_equal. apply filter_all. now apply forallb_forall.
    + inversion H as [|? ? Hn Hr]; subst.
      cbn [filter]. replace (mem (f x) (f x :: firstn n (map f r))) with true
        by (symmetry; apply mem_In; now left).
      cbn [negb]. rewrite <- (IH n Hr). apply filter_ext_in. intros q Hq.
      f_equal. unfold mem. cbn [existsb].
      replace (f q =? f x) with false; [reflexivity|].
      symmetry. apply N.eqb_neq. intros E. apply Hn. rewrite <- E. now apply in_map.
Qed.

(* with distinct keys, filtering u ++ v by "key not in v" yields u *)
Lemma filter_not_in_tail {A} (f : A -> N) (u v : list A) :
  NoDup (map f (u ++ v)) ->
  filter (fun e => negb (mem (f e) (map f v))) (u ++ v) = u.
Proof.
  intros H. rewrite filter_app.
  replace (filter (fun e => negb (mem (f e) (map f v))) v) with (@nil A).
  - rewrite app_nil_r. apply filter_all, forallb_forall. intros e He.
    apply negb_true_iff, mem_false. intros Hin.
    rewrite map_app in H. revert H He Hin. generalize (map f v) as w. intros w H He Hin.
    induction u as [|y u IH]; [contradiction|].
    cbn in H. inversion H as [|? ? Hn Hr]; subst. destruct He as [->|He].
    + apply Hn. apply in_or_app. now right.
    + now apply IH.
  - symmetry. clear H. assert (forall w, incl (map f v) w ->
      filter (fun e => negb (mem (f e) w)) v = []) as G.
    { induction v as [|y v IH]; intros w Hw; [reflexivity|]. cbn [filter].
      replace (mem (f y) w) with true by (symmetry; apply mem_In, Hw; now left).
      cbn [negb]. apply IH. intros z Hz. apply Hw. now right. }
    apply G, incl_refl.
Qed.

(* ---------------- the order used by the sort ---------------- *)
Lemma newer_first_total a b : newer_first a b = true \/ newer_first b a = true.
Proof. unfold newer_first. lia. Qed.
Lemma newer_first_trans a b c :
  newer_first a b = true -> newer_first b c = true -> newer_first a c = true.
Proof. unfold newer_first. lia. Qed.

(* ---------------- membership in the auxiliary lists ---------------- *)
Lemma in_primary p l : In p (primary l) <-> In p l /\ relay p = false.
Proof. unfold primary. rewrite filter_In, negb_true_iff. reflexivity. Qed.

Lemma in_failed_of x l :
  In x (failed_of l) <-> exists p, In p l /\ is_unusable p = true /\ pid p = x.
Proof.
  unfold failed_of. rewrite in_flat_map. split.
  - intros [p [Hp Hx]]. exists p. unfold is_unusable. destruct (st p); cbn in Hx; try contradiction.
    destruct Hx as [<-|[]]. auto.
  - intros [p [Hp [Hu <-]]]. exists p. split; [exact Hp|]. unfold is_unusable in Hu.
    destruct (st p); try discriminate. now left.
Qed.

Lemma in_inactive_of e l :
  In e (inactive_of l) <-> exists p, In p l /\ st p = Inactive (snd e) /\ pid p = fst e.
Proof.
  unfold inactive_of. rewrite in_flat_map. split.
  - intros [p [Hp Hx]]. exists p. destruct (st p); cbn in Hx; try contradiction.
    destruct Hx as [<-|[]]. cbn. auto.
  - intros [p [Hp [Hs Hi]]]. exists p. split; [exact Hp|]. rewrite Hs. left.
    destruct e; cbn in *. now subst.
Qed.

Lemma failed_of_length l : length (failed_of (primary l)) = length (filter failed_nr l).
Proof.
  induction l as [|p r IH]; [reflexivity|].
  unfold primary, failed_nr, is_unusable in *. cbn [filter].
  destruct (relay p); cbn [negb andb].
  - exact IH.
  - cbn [failed_of flat_map]. fold (failed_of (filter (fun p => negb (relay p)) r)).
    rewrite app_length. destruct (st p); cbn [length]; rewrite IH; lia.
Qed.

Lemma inactive_of_map l :
  inactive_of (primary l) = map (fun p => (pid p, closed_at p)) (filter inactive_nr l).
Proof.
  induction l as [|p r IH]; [reflexivity|].
  unfold primary, inactive_nr, is_inactive, closed_at in *. cbn [filter].
  destruct (relay p); cbn [negb andb].
  - exact IH.
  - cbn [inactive_of flat_map]. fold (inactive_of (filter (fun p => negb (relay p)) r)).
    rewrite IH. destruct (st p) eqn:E; cbn [app map andb filter]; rewrite ?E; reflexivity.
Qed.

Lemma all_failed_primary l : all_failed l = true -> primary l = l.
Proof.
  intros H. apply filter_all. unfold all_failed in H. rewrite forallb_forall in *.
  intros p Hp. specialize (H p Hp). unfold failed_nr in H. now apply andb_prop in H as [H _].
Qed.

Lemma all_failed_failed_of l : all_failed l = true -> failed_of l = map pid l.
Proof.
  unfold all_failed. induction l as [|p r IH]; cbn [forallb]; [reflexivity|].
  intros H. apply andb_prop in H as [H1 H2]. cbn [failed_of flat_map map].
  fold (failed_of r). rewrite (IH H2). unfold failed_nr, is_unusable in H1.
  apply andb_prop in H1 as [_ H1]. destruct (st p); try discriminate. reflexivity.
Qed.

Lemma all_failed_inactive_of l : all_failed l = true -> inactive_of l = [].
Proof.
  unfold all_failed. induction l as [|p r IH]; cbn [forallb]; [reflexivity|].
  intros H. apply andb_prop in H as [H1 H2]. cbn [inactive_of flat_map].
  fold (inactive_of r). rewrite (IH H2). unfold failed_nr, is_unusable in H1.
  apply andb_prop in H1 as [_ H1]. destruct (st p); try discriminate. reflexivity.
Qed.

(* not every path failed -> `failed` is shorter than the map -> no truncation *)
Lemma not_all_failed_len l :
  all_failed l = false -> (len (failed_of (primary l)) =? len l) = false.
Proof.
  intros H. apply N.eqb_neq. intros E. unfold len in E.
  apply Nnat.Nat2N.inj in E. rewrite failed_of_length in E.
  apply filter_length_all in E. unfold all_failed in H. congruence.
Qed.

Lemma all_failed_len l :
  all_failed l = true -> (len (failed_of (primary l)) =? len l) = true.
Proof.
  intros H. apply N.eqb_eq. rewrite (all_failed_primary l H), (all_failed_failed_of l H).
  unfold len. now rewrite map_length.
Qed.

Section Prune.
Variables maxp maxi : N.

Notation prune' := (prune_with maxp maxi).
Notation must' := (must_prune_with maxp maxi).

(* the sorted closed paths and the cut position *)
Definition sorted_of (l : list path) : list (N * N) := sort newer_first (inactive_of (primary l)).
Definition cut_of (l : list path) : nat := N.to_nat (len (sorted_of l) - maxi).
Definition old_of (l : list path) : list (N * N) := skipn (cut_of l) (sorted_of l).

Lemma must_unfold l :
  must' l =
  (if len (failed_of (primary l)) =? len l
   then firstn (N.to_nat (len l - maxp)) (failed_of (primary l)) else failed_of (primary l))
  ++ map fst (old_of l).
Proof. reflexivity. Qed.

Lemma prune_unfold l :
  triggered_with maxp l = true ->
  prune' l = filter (fun p => negb (mem (pid p) (must' l))) l.
Proof.
  unfold triggered_with, prune_with. intros T.
  assert (len (primary l) <= len l).
  { unfold len, primary. pose proof (filter_length_le' (fun p => negb (relay p)) l). lia. }
  destruct (len l <? maxp) eqn:E1; [lia|].
  destruct (len (primary l) <? maxp) eqn:E2; [lia|]. reflexivity.
Qed.

(* T4: below MAX non-relay paths pruning changes nothing *)
Lemma prune_noop l : triggered_with maxp l = false -> prune' l = l.
Proof.
  unfold triggered_with, prune_with. intros T.
  destruct (len l <? maxp); [reflexivity|].
  destruct (len (primary l) <? maxp) eqn:E2; [reflexivity|lia].
Qed.

Lemma prune_incl l p : In p (prune' l) -> In p l.
Proof.
  unfold prune_with. destruct (len l <? maxp); [auto|].
  destruct (len (primary l) <? maxp); [auto|]. rewrite filter_In. tauto.
Qed.

Lemma prune_NoDup l : NoDup (map pid l) -> NoDup (map pid (prune' l)).
Proof.
  unfold prune_with. destruct (len l <? maxp); [auto|].
  destruct (len (primary l) <? maxp); [auto|].
  generalize (fun p => negb (mem (pid p) (must' l))) as f. intros f.
  induction l as [|x r IH]; cbn; [auto|]. intros H. inversion H as [|? ? Hn Hr]; subst.
  destruct (f x); cbn; [constructor|]; auto.
  intros Hin. apply Hn. apply in_map_iff in Hin as [q [E Hq]]. apply filter_In in Hq as [Hq _].
  rewrite <- E. now apply in_map.
Qed.

Lemma in_old_of e l :
  In e (old_of l) -> exists p, In p l /\ relay p = false /\ st p = Inactive (snd e) /\ pid p = fst e.
Proof.
  intros H. apply In_skipn_incl' in H. apply sort_in in H.
  apply in_inactive_of in H as [p [Hp [Hs Hi]]]. apply in_primary in Hp as [Hp Hr].
  exists p. auto.
Qed.

(* everything in must_prune is a non-relay path that failed or was closed *)
Lemma must_sub x l :
  In x (must' l) ->
  exists p, In p l /\ pid p = x /\ relay p = false /\ (is_unusable p = true \/ is_inactive p = true).
Proof.
  rewrite must_unfold. intros H. apply in_app_or in H as [H|H].
  - assert (In x (failed_of (primary l))) as H'.
    { destruct (len (failed_of (primary l)) =? len l); [now apply In_firstn_incl in H|exact H]. }
    apply in_failed_of in H' as [p [Hp [Hu Hx]]]. apply in_primary in Hp as [Hp Hr].
    exists p. auto.
  - apply in_map_iff in H as [e [He Hin]]. apply in_old_of in Hin as [p [Hp [Hr [Hs Hi]]]].
    exists p. repeat split; auto; [congruence|]. right. unfold is_inactive. now rewrite Hs.
Qed.

(* T1: open / unknown / relay paths survive *)
Lemma prune_keeps_protected l p :
  NoDup (map pid l) -> In p l -> protected p = true -> In p (prune' l).
Proof.
  intros ND Hp Pr. destruct (triggered_with maxp l) eqn:T.
  - rewrite (prune_unfold l T). apply filter_In. split; [exact Hp|].
    apply negb_true_iff, mem_false. intros Hin.
    apply must_sub in Hin as [q [Hq [E [Hr Hs]]]].
    assert (q = p) as -> by (eapply NoDup_map_inj; eauto).
    unfold protected, is_unusable, is_inactive in *. rewrite Hr in Pr. cbn in Pr.
    destruct (st p); destruct Hs; discriminate.
  - now rewrite (prune_noop l T).
Qed.

(* T2: unless all failed, no failed non-relay path survives *)
Lemma prune_removes_failed l p :
  triggered_with maxp l = true -> all_failed l = false ->
  In p (prune' l) -> failed_nr p = true -> False.
Proof.
  intros T AF Hin F. rewrite (prune_unfold l T) in Hin. apply filter_In in Hin as [Hp Hm].
  apply negb_true_iff, mem_false in Hm. apply Hm. rewrite must_unfold.
  rewrite (not_all_failed_len l AF). apply in_or_app. left.
  unfold failed_nr in F. apply andb_prop in F as [Fr Fu]. apply negb_true_iff in Fr.
  apply in_failed_of. exists p. repeat split; auto. now apply in_primary.
Qed.

(* T3: all failed -> exactly MAX are kept (the last MAX in iteration order) *)
Lemma prune_all_failed_skipn l :
  NoDup (map pid l) -> triggered_with maxp l = true -> all_failed l = true ->
  prune' l = skipn (N.to_nat (len l - maxp)) l.
Proof.
  intros ND T AF. rewrite (prune_unfold l T), must_unfold, (all_failed_len l AF).
  unfold old_of, sorted_of. rewrite (all_failed_primary l AF), (all_failed_inactive_of l AF).
  cbn [sort]. rewrite skipn_nil. cbn [map]. rewrite app_nil_r.
  rewrite (all_failed_failed_of l AF). now apply filter_firstn_NoDup.
Qed.

Lemma prune_all_failed_len l :
  NoDup (map pid l) -> triggered_with maxp l = true -> all_failed l = true ->
  len (prune' l) = maxp.
Proof.
  intros ND T AF. rewrite (prune_all_failed_skipn l ND T AF).
  unfold triggered_with in T. rewrite (all_failed_primary l AF) in T.
  unfold len in *. rewrite skipn_length. lia.
Qed.

(* ---- closed (inactive) paths ---- *)
Lemma sorted_of_perm l :
  Permutation (sorted_of l) (map (fun p => (pid p, closed_at p)) (filter inactive_nr l)).
Proof. unfold sorted_of. rewrite <- inactive_of_map. apply sort_perm. Qed.

Lemma sorted_of_len l : len (sorted_of l) = n_inactive l.
Proof.
  unfold len, n_inactive. f_equal.
  rewrite (Permutation_length (sorted_of_perm l)). unfold len. now rewrite map_length.
Qed.

Lemma sorted_of_NoDup l : NoDup (map pid l) -> NoDup (map fst (sorted_of l)).
Proof.
  intros ND. eapply Permutation_NoDup.
  - apply Permutation_sym, Permutation_map, sorted_of_perm.
  - rewrite map_map. cbn [fst].
    clear -ND. induction l as [|x r IH]; cbn; [constructor|].
    inversion ND as [|? ? Hn Hr]; subst. destruct (inactive_nr x); cbn; auto.
    constructor; auto. intros Hin. apply Hn. apply in_map_iff in Hin as [q [E Hq]].
    apply filter_In in Hq as [Hq _]. rewrite <- E. now apply in_map.
Qed.

(* for a closed non-relay path, membership in must_prune is membership in old_inactive *)
Lemma must_inactive l p :
  NoDup (map pid l) -> In p l -> inactive_nr p = true ->
  mem (pid p) (must' l) = mem (pid p) (map fst (old_of l)).
Proof.
  intros ND Hp Hi. rewrite must_unfold. unfold mem. rewrite existsb_app.
  match goal with |- ?a || _ = _ => replace a with false; [reflexivity|] end.
  symmetry. apply (proj2 (mem_false _ _)). intros Hin.
  assert (In (pid p) (failed_of (primary l))) as H'.
  { destruct (len (failed_of (primary l)) =? len l); [now apply In_firstn_incl in Hin|exact Hin]. }
  apply in_failed_of in H' as [q [Hq [Hu E]]]. apply in_primary in Hq as [Hq _].
  assert (q = p) as -> by (eapply NoDup_map_inj; eauto).
  unfold inactive_nr, is_inactive, is_unusable in *. destruct (st p); try discriminate.
  now rewrite andb_false_r in Hi.
Qed.

(* T5 (what the code does): len - MAX_INACTIVE closed paths survive (saturating) *)
Lemma prune_inactive_count l :
  NoDup (map pid l) -> triggered_with maxp l = true ->
  len (filter inactive_nr (prune' l)) = n_inactive l - maxi.
Proof.
  intros ND T. rewrite (prune_unfold l T).
  (* swap the two filters *)
  assert (forall (f g : path -> bool) (l : list path), filter f (filter g l) = filter g (filter f l)) as SW.
  { intros f g l0. induction l0 as [|x r IH]; cbn; [reflexivity|].
    destruct (g x) eqn:G, (f x) eqn:F; cbn; rewrite ?G, ?F, IH; reflexivity. }
  rewrite SW.
  rewrite (filter_ext_in (fun p => negb (mem (pid p) (must' l)))
             (fun p => negb (mem (fst (pid p, closed_at p)) (map fst (old_of l))))).
  2:{ intros p Hp. apply filter_In in Hp as [Hp Hi]. cbn [fst]. f_equal. now apply must_inactive. }
  assert (length (filter (fun p => negb (mem (fst (pid p, closed_at p)) (map fst (old_of l))))
                    (filter inactive_nr l)) = cut_of l) as L.
  { rewrite (filter_map_length (fun p => (pid p, closed_at p))
               (fun e => negb (mem (fst e) (map fst (old_of l))))).
    rewrite <- (filter_perm_length _ _ _ (sorted_of_perm l)).
    pose proof (sorted_of_NoDup l ND) as NDs.
    unfold old_of. set (u := firstn (cut_of l) (sorted_of l)). set (v := skipn (cut_of l) (sorted_of l)).
    assert (sorted_of l = u ++ v) as E by (symmetry; apply firstn_skipn).
    rewrite E in NDs. rewrite E. rewrite (filter_not_in_tail fst u v NDs).
    unfold u. rewrite firstn_length. unfold cut_of. unfold len. lia. }
  unfold len at 1. rewrite L. unfold cut_of. rewrite sorted_of_len. lia.
Qed.

(* the surviving closed paths are the most recently closed ones *)
Lemma prune_inactive_newest l a b :
  NoDup (map pid l) -> triggered_with maxp l = true ->
  In a l -> In b l -> inactive_nr a = true -> inactive_nr b = true ->
  In a (prune' l) -> ~ In b (prune' l) -> closed_at b <= closed_at a.
Proof.
  intros ND T Ha Hb Ia Ib Ka Kb. rewrite (prune_unfold l T) in Ka, Kb.
  apply filter_In in Ka as [_ Ka]. apply negb_true_iff in Ka.
  rewrite (must_inactive l a ND Ha Ia) in Ka. apply mem_false in Ka.
  assert (mem (pid b) (must' l) = true) as Mb.
  { destruct (mem (pid b) (must' l)) eqn:E; [reflexivity|]. exfalso. apply Kb.
    apply filter_In. split; [exact Hb|]. now rewrite E. }
  rewrite (must_inactive l b ND Hb Ib) in Mb. apply mem_In in Mb.
  apply in_map_iff in Mb as [e [Ee He]].
  (* e is b's entry *)
  assert (snd e = closed_at b) as Eb.
  { apply in_old_of in He as [q [Hq [_ [Hs Hi]]]].
    assert (q = b) as -> by (eapply NoDup_map_inj; eauto; congruence).
    unfold closed_at. now rewrite Hs. }
  (* a's entry is in the kept prefix *)
  assert (In (pid a, closed_at a) (sorted_of l)) as Sa.
  { eapply Permutation_in; [apply Permutation_sym, sorted_of_perm|].
    apply in_map_iff. exists a. split; [reflexivity|]. now apply filter_In. }
  rewrite <- (firstn_skipn (cut_of l) (sorted_of l)) in Sa. apply in_app_or in Sa as [Sa|Sa].
  - assert (le newer_first (pid a, closed_at a) e) as R.
    { eapply sorted_firstn_skipn; [|exact Sa|exact He].
      apply sort_sorted; [exact newer_first_total|exact newer_first_trans]. }
    unfold le, newer_first in R. cbn [snd] in R. lia.
  - exfalso. apply Ka. apply in_map_iff. exists (pid a, closed_at a). split; [reflexivity|exact Sa].
Qed.

(* ---- the set is emptied only in class 2 ---- *)
Lemma fi_no_inactive_all_failed l :
  forallb (fun p => failed_nr p || inactive_nr p) l = true -> n_inactive l = 0 -> all_failed l = true.
Proof.
  unfold n_inactive, all_failed. induction l as [|x r IH]; cbn [forallb filter]; [reflexivity|].
  intros H N0. apply andb_prop in H as [H1 H2].
  destruct (inactive_nr x) eqn:I.
  - rewrite len_cons in N0. lia.
  - rewrite orb_false_r in H1. rewrite H1. cbn [andb]. now apply IH.
Qed.

Lemma prune_nonempty l :
  1 <= maxp -> NoDup (map pid l) -> l <> [] -> emptied_with maxp maxi l = false -> prune' l <> [].
Proof.
  intros M1 ND NE EM.
  destruct (triggered_with maxp l) eqn:T; [|now rewrite (prune_noop l T)].
  destruct (forallb (fun p => failed_nr p || inactive_nr p) l) eqn:FI.
  2:{ (* a protected path survives *)
      assert (exists p, In p l /\ protected p = true) as [p [Hp Pp]].
      { clear -FI. induction l as [|x r IH]; cbn in FI; [discriminate|].
        apply andb_false_iff in FI as [F|F].
        - exists x. split; [now left|]. unfold failed_nr, inactive_nr, is_unusable, is_inactive, protected in *.
          destruct (relay x), (st x); cbn in *; congruence.
        - destruct (IH F) as [p [Hp Pp]]. exists p. split; [now right|exact Pp]. }
      intros E. pose proof (prune_keeps_protected l p ND Hp Pp) as K. rewrite E in K. contradiction. }
  destruct (all_failed l) eqn:AF.
  - intros E. pose proof (prune_all_failed_len l ND T AF) as L. rewrite E in L. cbn in L. lia.
  - unfold emptied_with in EM. rewrite T, FI in EM. cbn [andb] in EM.
    assert (n_inactive l <> 0) as N0.
    { intros N0. rewrite (fi_no_inactive_all_failed l FI N0) in AF. discriminate. }
    intros E. pose proof (prune_inactive_count l ND T) as C. rewrite E in C. cbn in C. lia.
Qed.

End Prune.

(* ---------------- the property as a Prop, and the monitor ---------------- *)
Definition prune_spec (maxp maxi : N) (l : list path) (ids : list N) : Prop :=
  (* the survivors are paths of the input, each once *)
  (forall x, In x ids -> In x (map pid l)) /\ NoDup ids /\
  (* open / unknown / relay paths are never removed *)
  (forall p, In p l -> protected p = true -> In (pid p) ids) /\
  (triggered_with maxp l = true ->
     (all_failed l = true -> len ids = maxp) /\
     (all_failed l = false -> forall p, In p l -> failed_nr p = true -> ~ In (pid p) ids) /\
     len (filter (fun p => mem (pid p) ids) (filter inactive_nr l)) = N.min (n_inactive l) maxi /\
     (forall a b, In a l -> In b l -> inactive_nr a = true -> inactive_nr b = true ->
        In (pid a) ids -> ~ In (pid b) ids -> closed_at b <= closed_at a)) /\
  (triggered_with maxp l = false -> forall p, In p l -> In (pid p) ids) /\
  (l <> [] -> ids <> []).

Lemma implb_true_iff' a b : implb a b = true <-> (a = true -> b = true).
Proof. destruct a, b; cbn; split; auto; intros H; try discriminate; symmetry; now apply H. Qed.

Lemma newest_forallb l ids :
  forallb (fun a => forallb (fun b =>
     implb (mem (pid a) ids && negb (mem (pid b) ids)) (closed_at b <=? closed_at a))
     (filter inactive_nr l)) (filter inactive_nr l) = true <->
  (forall a b, In a l -> In b l -> inactive_nr a = true -> inactive_nr b = true ->
     In (pid a) ids -> ~ In (pid b) ids -> closed_at b <= closed_at a).
Proof.
  rewrite forallb_forall. split.
  - intros H a b Ha Hb Ia Ib Ka Kb.
    assert (In a (filter inactive_nr l)) as Fa by (apply filter_In; auto).
    assert (In b (filter inactive_nr l)) as Fb by (apply filter_In; auto).
    specialize (H a Fa). rewrite forallb_forall in H. specialize (H b Fb).
    assert (mem (pid a) ids && negb (mem (pid b) ids) = true) as P.
    { apply andb_true_iff. split; [now apply mem_In|]. now apply negb_true_iff, mem_false. }
    rewrite P in H. cbn [implb] in H. lia.
  - intros H a Fa. apply forallb_forall. intros b Fb.
    apply filter_In in Fa as [Ha Ia]. apply filter_In in Fb as [Hb Ib].
    apply implb_true_iff'. intros K. apply andb_true_iff in K as [Ka Kb].
    apply mem_In in Ka. apply negb_true_iff, mem_false in Kb.
    specialize (H a b Ha Hb Ia Ib Ka Kb). lia.
Qed.

Lemma monitor_spec maxp maxi l ids :
  NoDup (map pid l) ->
  (monitor_with maxp maxi l (Ok ids) = true <-> prune_spec maxp maxi l ids).
Proof.
  intros ND. unfold monitor_with, prune_spec.
  rewrite (proj2 (nodupb_NoDup _) ND). cbn [negb].
  rewrite !andb_true_iff, !forallb_forall, nodupb_NoDup.
  assert ((forall x, In x l -> implb (protected x) (mem (pid x) ids) = true) <->
          (forall p, In p l -> protected p = true -> In (pid p) ids)) as E1.
  { split; intros H p Hp.
    - intros Pp. apply mem_In. specialize (H p Hp). rewrite Pp in H. exact H.
    - apply implb_true_iff'. intros Pp. apply mem_In. auto. }
  assert ((forall x, In x ids -> mem x (map pid l) = true) <-> (forall x, In x ids -> In x (map pid l))) as E0.
  { split; intros H x Hx; apply mem_In; auto. }
  assert (match l with [] => true | _ :: _ => match ids with [] => false | _ :: _ => true end end = true
          <-> (l <> [] -> ids <> [])) as E7.
  { destruct l, ids; split; try congruence; intros H; try reflexivity.
    exfalso. apply H; congruence. }
  rewrite E0, E1, E7. clear E0 E1 E7.
  destruct (triggered_with maxp l) eqn:T.
  - rewrite !andb_true_iff, newest_forallb, N.eqb_eq.
    destruct (all_failed l) eqn:AF.
    + rewrite N.eqb_eq. split.
      * intros [[[[H0 H0'] H1] [[H2 H4] H5]] H7]. repeat split; auto; try discriminate.
      * intros [H0 [H0' [H1 [H [_ H7]]]]]. destruct (H eq_refl) as [H2 [_ [H4 H5]]].
        repeat split; auto.
    + rewrite forallb_forall. split.
      * intros [[[[H0 H0'] H1] [[H2 H4] H5]] H7]. repeat split; auto; try discriminate.
        intros _ p Hp Fp. specialize (H2 p Hp). rewrite Fp in H2. cbn in H2.
        now apply negb_true_iff, mem_false in H2.
      * intros [H0 [H0' [H1 [H [_ H7]]]]]. destruct (H eq_refl) as [_ [H3 [H4 H5]]].
        repeat split; auto. intros p Hp. apply implb_true_iff'. intros Fp.
        apply negb_true_iff, mem_false. now apply H3.
  - rewrite forallb_forall. split.
    + intros [[[[H0 H0'] H1] H6] H7]. repeat split; auto; try discriminate.
      intros _ p Hp. apply mem_In. now apply H6.
    + intros [H0 [H0' [H1 [_ [H6 H7]]]]]. repeat split; auto.
      intros p Hp. apply mem_In. now apply H6.
Qed.

(* ---------------- the model's output ---------------- *)
Section ModelOut.
Variables maxp maxi : N.
Notation prune' := (prune_with maxp maxi).
Definition out_ids (l : list path) : list N := sort_ids (map pid (prune' l)).

Lemma out_ids_in x l : In x (out_ids l) <-> In x (map pid (prune' l)).
Proof. unfold out_ids, sort_ids. apply sort_in. Qed.

Lemma out_ids_kept l p :
  NoDup (map pid l) -> In p l -> (In (pid p) (out_ids l) <-> In p (prune' l)).
Proof.
  intros ND Hp. rewrite out_ids_in. split.
  - intros H. apply in_map_iff in H as [q [E Hq]].
    assert (q = p) as <-; [|exact Hq].
    eapply NoDup_map_inj; eauto. now apply prune_incl in Hq.
  - apply in_map.
Qed.

Lemma out_ids_len l : len (out_ids l) = len (prune' l).
Proof. unfold out_ids, sort_ids, len. now rewrite sort_length, map_length. Qed.

Lemma out_ids_NoDup l : NoDup (map pid l) -> NoDup (out_ids l).
Proof.
  intros ND. unfold out_ids, sort_ids. eapply Permutation_NoDup.
  - apply Permutation_sym, sort_perm.
  - now apply prune_NoDup.
Qed.

Lemma filter_swap {A} (f g : A -> bool) l : filter f (filter g l) = filter g (filter f l).
Proof.
  induction l as [|x r IH]; cbn; [reflexivity|].
  destruct (g x) eqn:G, (f x) eqn:F; cbn; rewrite ?G, ?F, IH; reflexivity.
Qed.

Lemma out_ids_inactive l :
  NoDup (map pid l) -> triggered_with maxp l = true ->
  filter (fun p => mem (pid p) (out_ids l)) (filter inactive_nr l) = filter inactive_nr (prune' l).
Proof.
  intros ND T. rewrite (prune_unfold maxp maxi l T). rewrite filter_swap.
  f_equal. apply filter_ext_in. intros p Hp.
  pose proof (out_ids_kept l p ND Hp) as K. rewrite (prune_unfold maxp maxi l T), filter_In in K.
  rewrite <- mem_In in K.
  destruct (mem (pid p) (out_ids l)), (negb (mem (pid p) (must_prune_with maxp maxi l)));
    try reflexivity.
  - destruct K as [K _]. destruct (K eq_refl). discriminate.
  - destruct K as [_ K]. assert (false = true) by (apply K; auto). discriminate.
Qed.

(* What the code guarantees for every path set with distinct addresses. *)
Definition actual_spec (l : list path) (ids : list N) : Prop :=
  (forall x, In x ids -> In x (map pid l)) /\ NoDup ids /\
  (forall p, In p l -> protected p = true -> In (pid p) ids) /\
  (triggered_with maxp l = true ->
     (all_failed l = true -> len ids = maxp) /\
     (all_failed l = false -> forall p, In p l -> failed_nr p = true -> ~ In (pid p) ids) /\
     len (filter (fun p => mem (pid p) ids) (filter inactive_nr l)) = n_inactive l - maxi /\
     (forall a b, In a l -> In b l -> inactive_nr a = true -> inactive_nr b = true ->
        In (pid a) ids -> ~ In (pid b) ids -> closed_at b <= closed_at a)) /\
  (triggered_with maxp l = false -> forall p, In p l -> In (pid p) ids) /\
  (1 <= maxp -> emptied_with maxp maxi l = false -> l <> [] -> ids <> []).

Lemma model_actual l : NoDup (map pid l) -> actual_spec l (out_ids l).
Proof.
  intros ND. unfold actual_spec. repeat split.
  - intros x Hx. apply out_ids_in in Hx. apply in_map_iff in Hx as [q [E Hq]].
    apply prune_incl in Hq. rewrite <- E. now apply in_map.
  - now apply out_ids_NoDup.
  - intros p Hp Pp. apply out_ids_kept; auto. now apply prune_keeps_protected.
  - intros AF. rewrite out_ids_len. now apply prune_all_failed_len.
  - intros AF p Hp Fp Hin. apply out_ids_kept in Hin; auto.
    eapply prune_removes_failed; eauto.
  - rewrite out_ids_inactive by assumption. now apply prune_inactive_count.
  - intros a b Ha Hb Ia Ib Ka Kb. eapply (prune_inactive_newest maxp maxi l a b); eauto.
    + now apply out_ids_kept.
    + intros K. apply Kb. now apply out_ids_kept.
  - intros T p Hp. apply out_ids_kept; auto. now rewrite (prune_noop maxp maxi l T).
  - intros M1 EM NE E. apply (prune_nonempty maxp maxi l M1 ND NE EM).
    pose proof (out_ids_len l) as L. rewrite E in L. unfold len in L.
    destruct (prune' l); [reflexivity|cbn in L; lia].
Qed.

Lemma known_zero l :
  NoDup (map pid l) -> known_with maxp maxi l = 0 ->
  triggered_with maxp l = false \/ n_inactive l = 0 \/ n_inactive l = 2 * maxi.
Proof.
  intros ND. unfold known_with. rewrite (proj2 (nodupb_NoDup _) ND). cbn [andb].
  destruct (triggered_with maxp l); [|auto]. cbn [andb].
  destruct (n_inactive l =? 0) eqn:E0; [right; left; lia|].
  destruct (n_inactive l =? 2 * maxi) eqn:E2; [right; right; lia|].
  cbn. destruct (emptied_with maxp maxi l); discriminate.
Qed.

Lemma model_monitor_with l :
  1 <= maxp -> known_with maxp maxi l = 0 ->
  monitor_with maxp maxi l (Ok (out_ids l)) = true.
Proof.
  intros M1 K. destruct (nodupb (map pid l)) eqn:NDb.
  2:{ unfold monitor_with. now rewrite NDb. }
  apply nodupb_NoDup in NDb. apply (monitor_spec maxp maxi l _ NDb).
  destruct (model_actual l NDb) as [H0 [H0' [H1 [HT [H6 H7]]]]].
  pose proof (known_zero l NDb K) as KZ.
  unfold prune_spec. repeat split; auto.
  - intros AF. now apply HT.
  - intros AF. now apply HT.
  - destruct (HT H) as [_ [_ [H4 _]]]. rewrite H4. rewrite H in KZ.
    destruct KZ as [KZ|[KZ|KZ]]; [discriminate|lia|lia].
  - now apply HT.
  - apply H7; auto. unfold emptied_with.
    destruct (triggered_with maxp l); [|reflexivity].
    destruct KZ as [KZ|[KZ|KZ]]; [discriminate| |].
    + rewrite KZ. cbn. now rewrite andb_false_r.
    + destruct (forallb (fun p => failed_nr p || inactive_nr p) l); [|reflexivity]. cbn [andb]. lia.
Qed.

(* the set is emptied exactly in class 2 *)
Lemma all_failed_no_inactive l : all_failed l = true -> n_inactive l = 0.
Proof.
  unfold all_failed, n_inactive. induction l as [|x r IH]; cbn [forallb filter]; [reflexivity|].
  intros H. apply andb_prop in H as [H1 H2].
  unfold failed_nr, inactive_nr, is_unusable, is_inactive in *.
  destruct (relay x), (st x); cbn in *; try discriminate; now apply IH.
Qed.

Lemma prune_emptied l :
  NoDup (map pid l) -> emptied_with maxp maxi l = true -> prune' l = [].
Proof.
  intros ND EM. unfold emptied_with in EM.
  apply andb_prop in EM as [EM E4]. apply andb_prop in EM as [EM E3].
  apply andb_prop in EM as [T FI].
  assert (all_failed l = false) as AF.
  { destruct (all_failed l) eqn:AF; [|reflexivity]. apply all_failed_no_inactive in AF. lia. }
  destruct (prune' l) as [|p r] eqn:E; [reflexivity|]. exfalso.
  assert (In p (prune' l)) as Hp by (rewrite E; now left).
  pose proof (prune_incl _ _ _ _ Hp) as Hl.
  rewrite forallb_forall in FI. specialize (FI p Hl). apply orb_prop in FI as [F|I].
  - eapply prune_removes_failed; eauto.
  - pose proof (prune_inactive_count maxp maxi l ND T) as C.
    assert (In p (filter inactive_nr (prune' l))) as Hf by (apply filter_In; auto).
    destruct (filter inactive_nr (prune' l)); [contradiction|]. rewrite len_cons in C. lia.
Qed.
End ModelOut.

(* ---------------- instantiation at the constants of the source ---------------- *)
Lemma MAXP_pos : 1 <= MAXP.
Proof. vm_compute. discriminate. Qed.

Lemma model_out l : model l = Ok (out_ids MAXP MAXI l).
Proof. reflexivity. Qed.

Lemma model_monitor l : known l = 0 -> monitor l (model l) = true.
Proof. intros K. rewrite model_out. apply model_monitor_with; [exact MAXP_pos|exact K]. Qed.

Definition emptied := emptied_with MAXP MAXI.

Lemma protected_iff p :
  protected p = true <-> (relay p = true \/ st p = Open \/ st p = Unknown).
Proof.
  unfold protected. destruct (relay p), (st p); cbn; split; auto;
    intros H; try discriminate; destruct H as [H|[H|H]]; discriminate.
Qed.

Lemma t_keeps_protected l p :
  NoDup (map pid l) -> In p l -> (relay p = true \/ st p = Open \/ st p = Unknown) -> In p (prune l).
Proof. intros ND Hp H. apply prune_keeps_protected; auto. now apply protected_iff. Qed.

Lemma t_only_removes l p : In p (prune l) -> In p l.
Proof. apply prune_incl. Qed.

Lemma t_removes_failed l p :
  triggered l = true -> all_failed l = false -> In p (prune l) -> relay p = false -> st p <> Unusable.
Proof.
  intros T AF Hp R S. apply (prune_removes_failed MAXP MAXI l p T AF Hp).
  unfold failed_nr, is_unusable. now rewrite R, S.
Qed.

Lemma all_failed_iff l :
  all_failed l = true <-> (forall p, In p l -> relay p = false /\ st p = Unusable).
Proof.
  unfold all_failed. rewrite forallb_forall. split; intros H p Hp; specialize (H p Hp).
  - unfold failed_nr, is_unusable in H. destruct (relay p), (st p); cbn in H; try discriminate. auto.
  - destruct H as [R S]. unfold failed_nr, is_unusable. now rewrite R, S.
Qed.

Lemma t_all_failed l :
  NoDup (map pid l) -> (forall p, In p l -> relay p = false /\ st p = Unusable) -> MAXP <= len l ->
  len (prune l) = MAXP.
Proof.
  intros ND AF L. apply all_failed_iff in AF. apply prune_all_failed_len; auto.
  unfold triggered_with. rewrite (all_failed_primary l AF). lia.
Qed.

Lemma t_noop l : len (primary l) < MAXP -> prune l = l.
Proof. intros H. apply prune_noop. unfold triggered_with. lia. Qed.

Definition newest_kept (l : list path) : Prop :=
  forall a b, In a l -> In b l -> inactive_nr a = true -> inactive_nr b = true ->
    In a (prune l) -> ~ In b (prune l) -> closed_at b <= closed_at a.

Lemma t_inactive_actual l :
  NoDup (map pid l) -> triggered l = true ->
  len (filter inactive_nr (prune l)) = n_inactive l - MAXI /\ newest_kept l.
Proof.
  intros ND T. split; [now apply prune_inactive_count|].
  intros a b. now apply prune_inactive_newest.
Qed.

Lemma t_inactive_newest_10 l :
  NoDup (map pid l) -> triggered l = true -> known l = 0 ->
  len (filter inactive_nr (prune l)) = N.min (n_inactive l) MAXI /\ newest_kept l.
Proof.
  intros ND T K. destruct (t_inactive_actual l ND T) as [C N]. split; [|exact N].
  rewrite C. destruct (known_zero MAXP MAXI l ND K) as [H|[H|H]].
  - unfold triggered in T. congruence.
  - lia.
  - lia.
Qed.

Lemma emptied_known l : NoDup (map pid l) -> (emptied l = true <-> known l = 2).
Proof.
  intros ND. unfold known, known_with, emptied. rewrite (proj2 (nodupb_NoDup _) ND). cbn [andb].
  destruct (emptied_with MAXP MAXI l) eqn:E.
  - unfold emptied_with in E. apply andb_prop in E as [E E4]. apply andb_prop in E as [E E3].
    apply andb_prop in E as [T FI]. rewrite T. cbn [andb].
    assert (1 <= MAXI) by (vm_compute; discriminate).
    replace (n_inactive l =? 0) with false by lia.
    replace (n_inactive l =? 2 * MAXI) with false by lia. cbn. tauto.
  - split; [discriminate|].
    destruct (triggered_with MAXP l && negb (n_inactive l =? 0) && negb (n_inactive l =? 2 * MAXI));
      discriminate.
Qed.

Lemma t_empties_iff l :
  NoDup (map pid l) -> (prune l = [] <-> l = [] \/ emptied l = true).
Proof.
  intros ND. split.
  - intros E. destruct l as [|x r]; [now left|]. right.
    destruct (emptied (x :: r)) eqn:EM; [reflexivity|]. exfalso.
    apply (prune_nonempty MAXP MAXI (x :: r) MAXP_pos ND); [discriminate|exact EM|exact E].
  - intros [->|EM]; [reflexivity|]. now apply prune_emptied.
Qed.

Lemma t_never_empties l :
  NoDup (map pid l) -> known l <> 2 -> l <> [] -> prune l <> [].
Proof.
  intros ND K NE E. apply (t_empties_iff l ND) in E as [E|E]; [contradiction|].
  apply K. now apply emptied_known.
Qed.

Lemma t_monitor_spec l ids :
  NoDup (map pid l) -> (monitor l (Ok ids) = true <-> prune_spec MAXP MAXI l ids).
Proof. apply monitor_spec. Qed.

(* the sort used for `sort_by_key(Reverse(t))`: a stable, sorted permutation *)
Lemma t_sort_spec (l : list (N * N)) :
  Permutation (sort newer_first l) l /\
  StronglySorted (fun a b => snd b <= snd a) (sort newer_first l) /\
  (forall t, filter (fun e => snd e =? t) (sort newer_first l) = filter (fun e => snd e =? t) l).
Proof.
  split; [apply sort_perm|]. split.
  - pose proof (sort_sorted newer_first newer_first_total newer_first_trans l) as S.
    induction S as [|x r Sr IH Hx]; constructor; auto.
    rewrite Forall_forall in *. intros y Hy. specialize (Hx y Hy).
    unfold le, newer_first in Hx. lia.
  - intros t. apply sort_stable. intros x y Hx Hy. unfold newer_first. lia.
Qed.

(* ---------------- witnesses ---------------- *)
Definition mk_range (n : nat) (base : N) (f : N -> status) : list path :=
  map (fun i => mkPath (base + N.of_nat i) false (f (N.of_nat i))) (seq 0 n).

(* class 2: (MAX - MAX_INACTIVE) failed + MAX_INACTIVE closed paths: pruned to empty *)
Definition witness_empty : list path :=
  mk_range (N.to_nat (MAXP - MAXI)) 0 (fun _ => Unusable) ++
  mk_range (N.to_nat MAXI) 100 (fun i => Inactive (1000 * i)).

(* class 1: the unit test test_prune_mixed_must_and_can_prune: 15 unknown, 5 failed, 15 closed *)
Definition witness_mixed : list path :=
  mk_range 15 0 (fun _ => Unknown) ++ mk_range 5 15 (fun _ => Unusable) ++
  mk_range 15 20 (fun i => Inactive (1000 * i)).

Example witness_empty_known : known witness_empty = 2.
Proof. vm_compute. reflexivity. Qed.
Example witness_empty_out : prune witness_empty = [].
Proof. vm_compute. reflexivity. Qed.
Example witness_mixed_known : known witness_mixed = 1.
Proof. vm_compute. reflexivity. Qed.
(* 5 of 15 closed paths survive instead of 10 (20 paths in total, as the unit test expects) *)
Example witness_mixed_out :
  len (prune witness_mixed) = 20 /\ len (filter inactive_nr (prune witness_mixed)) = 5.
Proof. vm_compute. auto. Qed.

Lemma t_known_1_violates : exists l, known l = 1 /\ monitor l (model l) = false.
Proof. exists witness_mixed. vm_compute. auto. Qed.
Lemma t_known_2_violates : exists l, known l = 2 /\ monitor l (model l) = false.
Proof. exists witness_empty. vm_compute. auto. Qed.

Lemma t_newest_10_refuted :
  exists l, NoDup (map pid l) /\ triggered l = true /\
    len (filter inactive_nr (prune l)) <> N.min (n_inactive l) MAXI.
Proof.
  exists witness_mixed. split; [apply nodupb_NoDup; vm_compute; reflexivity|].
  split; vm_compute; [reflexivity|discriminate].
Qed.

Lemma t_never_empties_refuted : exists l, NoDup (map pid l) /\ l <> [] /\ prune l = [].
Proof.
  exists witness_empty. split; [apply nodupb_NoDup; vm_compute; reflexivity|].
  split; [vm_compute; discriminate|vm_compute; reflexivity].
Qed.

(* non-vacuity: the hypotheses of the positive theorems are satisfiable *)
Definition ex_twenty : list path :=    (* test_prune_keeps_most_recent_inactive: 15 unknown + 20 closed *)
  mk_range 15 0 (fun _ => Unknown) ++ mk_range 20 15 (fun i => Inactive (1000 * i)).
Example ex_twenty_ok :
  known ex_twenty = 0 /\ triggered ex_twenty = true /\ nodupb (map pid ex_twenty) = true /\
  map pid (filter inactive_nr (prune ex_twenty)) = [25;26;27;28;29;30;31;32;33;34].
Proof. vm_compute. auto. Qed.
Definition ex_all_failed : list path := mk_range 40 0 (fun _ => Unusable).
Example ex_all_failed_ok :
  all_failed ex_all_failed = true /\ known ex_all_failed = 0 /\ len (prune ex_all_failed) = 30.
Proof. vm_compute. auto. Qed.
