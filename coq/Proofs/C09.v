(* C09 — proofs about the Bucket / RateLimited model. *)
From V Require Import Lib.Base Lib.MachineInt Model.C09.
From Coq Require Import ZifyBool Lia.
Import C09.
Local Open Scope Z_scope.

(* ---------- arithmetic helpers ---------- *)

Lemma ms_bounds d : ms d * NS_PER_MS <= d < ms d * NS_PER_MS + NS_PER_MS.
Proof.
  unfold ms, NS_PER_MS.
  pose proof (Z.div_mod d 1000000 ltac:(lia)).
  pose proof (Z.mod_pos_bound d 1000000 ltac:(lia)). lia.
Qed.

Lemma ms_nonneg d : 0 <= d -> 0 <= ms d.
Proof. intros; unfold ms, NS_PER_MS. apply Z.div_pos; lia. Qed.

Lemma ms_mono a b : a <= b -> ms a <= ms b.
Proof. intros; unfold ms, NS_PER_MS. apply Z.div_le_mono; lia. Qed.

Lemma as_u32_small z : 0 <= z < TWO32 -> as_u32 z = z.
Proof. intros; unfold as_u32. apply Z.mod_small; lia. Qed.

Lemma as_u32_range z : 0 <= as_u32 z < TWO32.
Proof. unfold as_u32, TWO32. apply Z.mod_pos_bound; lia. Qed.

Lemma as_u32_le z : 0 <= z -> as_u32 z <= z.
Proof. intros; unfold as_u32, TWO32. apply Z.mod_le; lia. Qed.

Lemma i64_sat_id z : I64_MIN <= z <= I64_MAX -> i64_sat z = z.
Proof. unfold i64_sat; lia. Qed.

Lemma i64_sat_le z : I64_MIN <= z -> i64_sat z <= z.
Proof. unfold i64_sat, I64_MIN, I64_MAX in *; lia. Qed.

Lemma i64_sat_ge z : z <= I64_MAX -> z <= i64_sat z.
Proof. unfold i64_sat, I64_MIN, I64_MAX in *; lia. Qed.

Lemma i64_sat_range z : I64_MIN <= i64_sat z <= I64_MAX.
Proof. unfold i64_sat, I64_MIN, I64_MAX; lia. Qed.

Lemma i64_sat_min z : I64_MIN <= z -> i64_sat z = Z.min I64_MAX z.
Proof. unfold i64_sat, I64_MIN, I64_MAX in *; lia. Qed.

(* ---------- structural well-formedness: enough for "no panic" ---------- *)

Definition wfp (b : bucket) : Prop :=
  0 < refill b /\ 1 <= ms (period b) <= U32MAX /\ 0 <= period b.

Lemma wfp_period_lt b : wfp b -> period b < TWO32 * NS_PER_MS.
Proof.
  intros (_ & H & _). pose proof (ms_bounds (period b)). unfold U32MAX, TWO32, NS_PER_MS in *. lia.
Qed.

Lemma wfp_pm b : wfp b -> as_u32 (ms (period b)) = ms (period b).
Proof. intros (_ & H & _). apply as_u32_small. unfold U32MAX, TWO32 in *; lia. Qed.

(* u32 count times a valid period never overflows a Duration *)
Lemma dur_mul_ok b k : wfp b -> 0 <= k < TWO32 -> (DUR_MAX <? period b * k) = false.
Proof.
  intros W Hk. pose proof (wfp_period_lt b W) as Hp. destruct W as (_ & _ & H0).
  apply Z.ltb_ge. unfold DUR_MAX, TWO64, TWO32, NS_PER_MS in *.
  assert (period b * k <= 4294967296000000 * 4294967296) by nia. lia.
Qed.

Definition periods_of (b : bucket) (now : Z) : Z :=
  as_u32 (ms (Z.max 0 (now - last_fill b))) / as_u32 (ms (period b)).

Lemma periods_range b now : wfp b -> 0 <= periods_of b now < TWO32.
Proof.
  intros W. unfold periods_of. rewrite (wfp_pm b W). destruct W as (_ & H & _).
  pose proof (as_u32_range (ms (Z.max 0 (now - last_fill b)))) as R.
  split.
  - apply Z.div_pos; lia.
  - apply Z.div_lt_upper_bound; [lia|]. nia.
Qed.

(* update_state as an equation (it cannot panic on a well-formed bucket) *)
Definition upd (b : bucket) (now : Z) : bucket :=
  let k := periods_of b now in
  if k =? 0 then b else
  mkB (Z.min (i64_sat (fill b + i64_sat (k * refill b))) (bmax b)) (bmax b)
      (last_fill b + period b * k) (period b) (refill b).

Lemma update_state_eq b now : wfp b -> update_state b now = Ok (upd b now).
Proof.
  intros W. unfold update_state, upd. fold (periods_of b now).
  rewrite (wfp_pm b W).
  pose proof W as (_ & H & _).
  destruct (ms (period b) =? 0) eqn:E; [lia|].
  destruct (periods_of b now =? 0) eqn:E2; [reflexivity|].
  rewrite (dur_mul_ok b _ W (periods_range b now W)). reflexivity.
Qed.

Lemma upd_wfp b now : wfp b -> wfp (upd b now).
Proof. intros W. unfold upd. destruct (periods_of b now =? 0); [exact W|]. exact W. Qed.

Lemma upd_fields b now :
  period (upd b now) = period b /\ refill (upd b now) = refill b /\ bmax (upd b now) = bmax b.
Proof. unfold upd. destruct (periods_of b now =? 0); cbn; auto. Qed.

(* consume as an equation *)
Definition needed (f rf : Z) : Z :=
  let pn := i64_sat (Z.quot (i64_sat (- f)) rf + 1) in
  if (0 <=? pn) && (pn <=? U32MAX) then pn else U32MAX.

Definition cons_bucket (b : bucket) (now n : Z) : bucket :=
  let b1 := upd b now in
  mkB (i64_sat (fill b1 - Z.min n I64_MAX)) (bmax b1) (last_fill b1) (period b1) (refill b1).

Definition cons_result (b : bucket) (now n : Z) : option Z :=
  let b2 := cons_bucket b now n in
  if 0 <? fill b2 then None
  else Some (last_fill b2 + needed (fill b2) (refill b2) * period b2).

Lemma needed_range f rf : 0 <= needed f rf <= U32MAX.
Proof.
  unfold needed.
  destruct ((0 <=? _) && (_ <=? U32MAX)) eqn:E; unfold U32MAX in *; lia.
Qed.

Lemma consume_eq b now n :
  wfp b -> consume b now n = Ok (cons_bucket b now n, cons_result b now n).
Proof.
  intros W. unfold consume. rewrite (update_state_eq b now W).
  unfold cons_result, cons_bucket. cbn [fill bmax last_fill period refill].
  destruct (0 <? i64_sat (fill (upd b now) - Z.min n I64_MAX)) eqn:E; [reflexivity|].
  pose proof (upd_wfp b now W) as W1. pose proof W1 as (Hr & _ & _).
  destruct (refill (upd b now) =? 0) eqn:E0; [lia|].
  fold (needed (i64_sat (fill (upd b now) - Z.min n I64_MAX)) (refill (upd b now))).
  pose proof (needed_range (i64_sat (fill (upd b now) - Z.min n I64_MAX)) (refill (upd b now))) as NR.
  rewrite Z.mul_comm.
  rewrite (dur_mul_ok (upd b now) _ W1) by (unfold U32MAX, TWO32 in *; lia).
  rewrite Z.mul_comm. reflexivity.
Qed.

Lemma cons_bucket_wfp b now n : wfp b -> wfp (cons_bucket b now n).
Proof. intros W. pose proof (upd_wfp b now W) as W1. exact W1. Qed.

(* Bucket::new *)
Lemma new_ok_wfp now mx bps per b :
  0 <= per -> new now mx bps per = Ok b ->
  wfp b /\ fill b = mx /\ bmax b = mx /\ last_fill b = now /\ period b = per /\ 0 < mx.
Proof.
  intros Hper. unfold new.
  destruct ((0 <? mx) && (0 <? bps) && (0 <? as_u32 (ms per)) && (ms per <=? U32MAX) &&
            (0 <? Z.quot (i64_sat (bps * as_i64 (ms per))) 1000)) eqn:E; [|discriminate].
  intros [= <-]. cbn [fill bmax last_fill period refill].
  apply andb_prop in E as [E E5]. apply andb_prop in E as [E E4].
  apply andb_prop in E as [E E3]. apply andb_prop in E as [E1 E2].
  apply Z.ltb_lt in E1, E2, E3, E5. apply Z.leb_le in E4.
  assert (Hms : 0 <= ms per) by (apply ms_nonneg; exact Hper).
  assert (Hsm : as_u32 (ms per) = ms per) by (apply as_u32_small; unfold U32MAX, TWO32 in *; lia).
  rewrite Hsm in E3.
  unfold wfp. cbn [fill bmax last_fill period refill].
  repeat split; try reflexivity; try assumption; lia.
Qed.

Lemma new_not_panic now mx bps per : new now mx bps per <> Panic.
Proof. unfold new. destruct (_ && _); discriminate. Qed.

Definition PER100 : Z := 100 * NS_PER_MS.

Lemma from_config_cases now c :
  (exists e, from_config now c = Err e) \/
  from_config now c = Ok None \/
  (exists b, from_config now c = Ok (Some b) /\ wfp b /\ fill b = bmax b /\ 0 < bmax b /\
             last_fill b = now /\ period b = PER100).
Proof.
  unfold from_config. destruct c as [[bps burst]|]; [|right; left; reflexivity].
  destruct (new now _ bps (100 * NS_PER_MS)) as [b|e|] eqn:E.
  - right; right. exists b. split; [reflexivity|].
    assert (H100 : 0 <= 100 * NS_PER_MS) by (unfold NS_PER_MS; lia).
    destruct (new_ok_wfp _ _ _ _ _ H100 E) as (W & F & M & L & P & Hm).
    repeat split; try apply W; try lia. exact P.
  - left; eauto.
  - exfalso. eapply new_not_panic; eauto.
Qed.

(* ---------- no panic ---------- *)

Lemma run_bucket_ok es : forall b now, wfp b -> exists l, run_bucket b now es = Ok l.
Proof.
  induction es as [|e es IH]; intros b now W; cbn [run_bucket]; [eauto|].
  destruct e as [dt|n|a c|c].
  - destruct (IH b (now + dt) W) as (l & ->). eauto.
  - rewrite (consume_eq b now n W).
    destruct (IH (cons_bucket b now n) now (cons_bucket_wfp b now n W)) as (l & ->). eauto.
  - destruct (IH b now W) as (l & ->). eauto.
  - destruct (IH b now W) as (l & ->). eauto.
Qed.

Definition wfr (s : rl) : Prop := match bkt s with Some b => wfp b | None => True end.

Lemma poll_ok s now avail cap :
  wfr s -> exists s' r, poll s now avail cap = Ok (s', r) /\ wfr s'.
Proof.
  intros W. unfold poll.
  assert (exists s1, match pend s with
    | None => Ok s
    | Some c => match from_config now c with
                | Ok b => Ok (mkR b None None (limited s))
                | Err _ => Ok (mkR (bkt s) (refilled s) None (limited s))
                | Panic => Panic end end = Ok s1 /\ wfr s1) as (s1 & -> & W1).
  { destruct (pend s) as [c|]; [|eauto].
    destruct (from_config_cases now c) as [(e & ->)|[->|(b & -> & Wb & _)]].
    - eexists; split; [reflexivity|]. exact W.
    - eexists; split; [reflexivity|]. exact I.
    - eexists; split; [reflexivity|]. exact Wb. }
  unfold wfr in W1. destruct (bkt s1) as [b|] eqn:Eb.
  - destruct (match refilled s1 with Some d => negb (fired d now) | None => false end).
    + eexists _, _; split; [reflexivity|]. unfold wfr; now rewrite Eb.
    + destruct (avail =? 0).
      * eexists _, _; split; [reflexivity|]. exact W1.
      * rewrite (consume_eq b now _ W1).
        destruct (cons_result b now (Z.min avail cap));
          (eexists _, _; split; [reflexivity|]; apply cons_bucket_wfp; exact W1).
  - eexists _, _; split; [reflexivity|]. unfold wfr; now rewrite Eb.
Qed.

Lemma run_reader_ok es : forall s now, wfr s -> exists r, run_reader s now es = Ok r.
Proof.
  induction es as [|e es IH]; intros s now W; cbn [run_reader]; [eauto|].
  destruct e as [dt|n|a c|c].
  - destruct (IH s (now + dt) W) as ([l k] & ->). eauto.
  - destruct (IH s now W) as ([l k] & ->). eauto.
  - destruct (poll_ok s now a c W) as (s' & r & -> & W').
    destruct (IH s' now W') as ([l k] & ->). eauto.
  - destruct (IH (mkR (bkt s) (refilled s) (Some c) (limited s)) now W) as ([l k] & ->). eauto.
Qed.

(* No configuration, byte count, idle time or reconfiguration makes the limiter panic.
   (Duration is non-negative by type.) *)
Lemma no_panic setup es :
  (match setup with SBucket _ _ per => 0 <= per | _ => True end) ->
  model (setup, es) <> Panic.
Proof.
  intros H. unfold model. destruct setup as [mx bps per|c].
  - destruct (new 0 mx bps per) as [b|e|] eqn:E; [|discriminate|exfalso; eapply new_not_panic; eauto].
    destruct (new_ok_wfp _ _ _ _ _ H E) as (W & _).
    destruct (run_bucket_ok es b 0 W) as (l & ->). discriminate.
  - destruct (from_config_cases 0 c) as [(e & ->)|[->|(b & -> & Wb & _)]]; [discriminate| |].
    + destruct (run_reader_ok es (mkR None None None 0) 0 I) as (r & ->). discriminate.
    + destruct (run_reader_ok es (mkR (Some b) None None 0) 0 Wb) as (r & ->). discriminate.
Qed.

(* ---------- the refill clock: last_fill = t0 + K periods, never ahead of the
   millisecond-floored period grid ---------- *)

Definition pmns (b : bucket) : Z := ms (period b) * NS_PER_MS.

Definition tinv (b : bucket) (t0 K now : Z) : Prop :=
  wfp b /\ 0 <= K /\ last_fill b = t0 + K * period b /\ t0 + K * pmns b <= now.

Lemma pmns_bounds b : wfp b -> NS_PER_MS <= pmns b <= period b /\ period b < pmns b + NS_PER_MS.
Proof.
  intros (_ & H & _). unfold pmns. pose proof (ms_bounds (period b)). unfold NS_PER_MS in *. lia.
Qed.

Lemma tinv_mono b t0 K now now' : tinv b t0 K now -> now <= now' -> tinv b t0 K now'.
Proof. intros (W & HK & HL & HN) Hle. repeat split; try apply W; lia. Qed.

(* credited periods never run ahead of real time *)
Lemma periods_time b now :
  wfp b -> 0 < periods_of b now ->
  periods_of b now * pmns b <= now - last_fill b.
Proof.
  intros W Hk. unfold periods_of in *. rewrite (wfp_pm b W) in *.
  pose proof W as (_ & Hpm & _).
  set (el := ms (Z.max 0 (now - last_fill b))) in *.
  assert (Hel0 : 0 <= el) by (apply ms_nonneg; lia).
  pose proof (as_u32_le el Hel0) as Hle.
  pose proof (as_u32_range el) as Hr.
  assert (Hdiv : ms (period b) * (as_u32 el / ms (period b)) <= as_u32 el)
    by (apply Z.mul_div_le; lia).
  assert (Hpos : 0 < el).
  { destruct (Z.eq_dec el 0) as [E|]; [|lia]. rewrite E in Hk. unfold as_u32 in Hk.
    rewrite Z.mod_0_l in Hk by (unfold TWO32; lia). rewrite Z.div_0_l in Hk; lia. }
  pose proof (ms_bounds (Z.max 0 (now - last_fill b))) as Hb. fold el in Hb.
  assert (0 < now - last_fill b).
  { destruct (Z.max_spec 0 (now - last_fill b)) as [[? Hm]|[? Hm]]; [lia|].
    rewrite Hm in Hb. unfold NS_PER_MS in Hb. lia. }
  rewrite Z.max_r in Hb by lia.
  unfold pmns, NS_PER_MS in *. nia.
Qed.

Lemma upd_last_fill b now :
  last_fill (upd b now) = last_fill b + period b * periods_of b now.
Proof.
  unfold upd. destruct (periods_of b now =? 0) eqn:E; cbn [last_fill]; [|reflexivity].
  apply Z.eqb_eq in E. rewrite E. lia.
Qed.

Lemma upd_tinv b t0 K now :
  tinv b t0 K now -> tinv (upd b now) t0 (K + periods_of b now) now.
Proof.
  intros (W & HK & HL & HN).
  pose proof (periods_range b now W) as Hk.
  pose proof (upd_fields b now) as (Ep & Er & Em).
  pose proof (pmns_bounds b W) as Hp.
  split; [apply upd_wfp; exact W|]. split; [lia|]. split.
  - rewrite upd_last_fill, Ep, HL. ring.
  - unfold pmns in *. rewrite Ep.
    destruct (Z.eq_dec (periods_of b now) 0) as [E|E].
    + rewrite E. rewrite Z.add_0_r. exact HN.
    + pose proof (periods_time b now W ltac:(lia)) as Ht. unfold pmns in Ht.
      assert (K * (ms (period b) * NS_PER_MS) <= K * period b) by (apply Z.mul_le_mono_nonneg_l; lia).
      lia.
Qed.

Lemma cons_bucket_tinv b t0 K now n :
  tinv b t0 K now -> tinv (cons_bucket b now n) t0 (K + periods_of b now) now.
Proof. intros T. apply upd_tinv in T. exact T. Qed.

Lemma cons_result_some b now n d :
  cons_result b now n = Some d ->
  fill (cons_bucket b now n) <= 0 /\
  d = last_fill (cons_bucket b now n) +
      needed (fill (cons_bucket b now n)) (refill (cons_bucket b now n)) * period (cons_bucket b now n).
Proof.
  unfold cons_result. cbv zeta.
  destruct (0 <? fill (cons_bucket b now n)) eqn:E; [discriminate|].
  intros [= <-]. split; [lia|reflexivity].
Qed.

Lemma cons_result_none b now n :
  cons_result b now n = None -> 0 < fill (cons_bucket b now n).
Proof.
  unfold cons_result. cbv zeta.
  destruct (0 <? fill (cons_bucket b now n)) eqn:E; [lia|discriminate].
Qed.

(* no stall: every deadline is finite and explicitly bounded *)
Lemma deadline_bound b t0 K now n d :
  tinv b t0 K now -> cons_result b now n = Some d ->
  d <= t0 + 2 * (now - t0) + U32MAX * period b.
Proof.
  intros T. pose proof (cons_bucket_tinv b t0 K now n T) as (W & HK & HL & HN).
  intros Hc. apply cons_result_some in Hc as [_ ->].
  pose proof (needed_range (fill (cons_bucket b now n)) (refill (cons_bucket b now n))) as NR.
  pose proof (pmns_bounds _ W) as Hp.
  assert (Ep : period (cons_bucket b now n) = period b) by (apply upd_fields).
  rewrite HL. rewrite Ep in *.
  set (K1 := K + periods_of b now) in *. set (P := period b) in *.
  set (pn := needed _ _) in *.
  assert (pmns (cons_bucket b now n) = ms P * NS_PER_MS) by (unfold pmns; rewrite Ep; reflexivity).
  rewrite H in *.
  assert (K1 * P <= K1 * (2 * (ms P * NS_PER_MS))) by (apply Z.mul_le_mono_nonneg_l; lia).
  assert (pn * P <= U32MAX * P) by (apply Z.mul_le_mono_nonneg_r; destruct W as (_ & _ & ?); lia).
  lia.
Qed.

(* the deadline is the refill instant (on the bucket's own grid) at which the
   bucket becomes positive again, or earlier when the period count is clamped
   to u32::MAX: reading resumes no later than the bucket has refilled enough *)
Lemma deadline_is_first_positive b now n d :
  wfp b -> cons_result b now n = Some d ->
  let b' := cons_bucket b now n in
  let j := (- fill b') / refill b' + 1 in
  fill b' <= 0 /\
  0 < fill b' + j * refill b' /\ fill b' + (j - 1) * refill b' <= 0 /\
  d <= last_fill b' + j * period b' /\
  (I64_MIN < fill b' -> j <= U32MAX -> d = last_fill b' + j * period b').
Proof.
  intros W Hc. cbv zeta. apply cons_result_some in Hc as [Hf ->].
  pose proof (cons_bucket_wfp b now n W) as (Hr & _ & HP).
  set (b' := cons_bucket b now n) in *.
  assert (Hrange : I64_MIN <= fill b' <= I64_MAX) by (apply i64_sat_range).
  pose proof (Z.div_mod (- fill b') (refill b') ltac:(lia)) as DM.
  pose proof (Z.mod_pos_bound (- fill b') (refill b') Hr) as MB.
  split; [exact Hf|]. split; [nia|]. split; [nia|].
  assert (Hq : forall m, 0 <= m -> Z.quot m (refill b') = m / refill b')
    by (intros; apply Z.quot_div_nonneg; lia).
  unfold needed.
  set (missing := i64_sat (- fill b')).
  assert (Hm : 0 <= missing <= - fill b').
  { unfold missing, i64_sat, I64_MIN, I64_MAX in *. lia. }
  rewrite Hq by lia.
  assert (Hdle : missing / refill b' <= - fill b' / refill b') by (apply Z.div_le_mono; lia).
  assert (Hd0 : 0 <= missing / refill b') by (apply Z.div_pos; lia).
  set (pn := i64_sat (missing / refill b' + 1)).
  assert (Hpn : 0 <= pn <= missing / refill b' + 1).
  { unfold pn, i64_sat, I64_MIN, I64_MAX in *. lia. }
  split.
  - destruct ((0 <=? pn) && (pn <=? U32MAX)) eqn:Ec.
    + apply Z.add_le_mono_l. apply Z.mul_le_mono_nonneg_r; lia.
    + apply Z.add_le_mono_l. apply Z.mul_le_mono_nonneg_r; lia.
  - intros Hmin Hj.
    assert (missing = - fill b') by (unfold missing, i64_sat, I64_MIN, I64_MAX in *; lia).
    assert (pn = missing / refill b' + 1).
    { unfold pn. apply i64_sat_id. unfold I64_MIN, I64_MAX, U32MAX in *. rewrite H in *. lia. }
    rewrite H in *.
    destruct ((0 <=? pn) && (pn <=? U32MAX)) eqn:Ec; [rewrite H0; reflexivity|].
    rewrite H0 in Ec. lia.
Qed.

(* ---------- bucket mode: monitor holds on the model ---------- *)

Lemma mon_bucket_model es : forall b K now l,
  tinv b 0 K now -> forallb wf_ev es = true ->
  run_bucket b now es = Ok l -> mon_bucket (period b) now es l = true.
Proof.
  induction es as [|e es IH]; intros b K now l T Hwf; cbn [run_bucket].
  - intros [= <-]. reflexivity.
  - cbn [forallb] in Hwf. apply andb_prop in Hwf as [He Hes].
    destruct e as [dt|n|a c|c].
    + destruct (run_bucket b (now + dt) es) as [l'|e'|] eqn:R; try discriminate.
      intros [= <-]. cbn [mon_bucket].
      cbn [wf_ev] in He. apply (IH b K (now + dt) l'); auto.
      eapply tinv_mono; [exact T|lia].
    + pose proof T as (W & _). rewrite (consume_eq b now n W).
      destruct (run_bucket (cons_bucket b now n) now es) as [l'|e'|] eqn:R; try discriminate.
      intros [= <-]. cbn [mon_bucket].
      assert (Ep : period (cons_bucket b now n) = period b) by (apply upd_fields).
      pose proof (IH _ _ now l' (cons_bucket_tinv b 0 K now n T) Hes R) as IHr. rewrite Ep in IHr.
      destruct (cons_result b now n) as [d|] eqn:Ec; [|exact IHr].
      pose proof (deadline_bound b 0 K now n d T Ec). rewrite IHr.
      rewrite andb_true_r. lia.
    + destruct (run_bucket b now es) as [l'|e'|] eqn:R; try discriminate.
      intros [= <-]. cbn [mon_bucket]. eapply IH; eauto.
    + destruct (run_bucket b now es) as [l'|e'|] eqn:R; try discriminate.
      intros [= <-]. cbn [mon_bucket]. eapply IH; eauto.
Qed.

(* ---------- the fill invariant and the rate bound ---------- *)

(* K periods credited so far, C bytes consumed so far *)
Definition finv (b : bucket) (K C : Z) : Prop :=
  0 < bmax b <= I64_MAX /\ - I64_MAX < fill b <= bmax b /\
  fill b <= bmax b + K * refill b - C.

(* the bucket is positive now, or will be positive after pn whole periods that
   have elapsed by time tau *)
Definition ready (b : bucket) (tau : Z) : Prop :=
  0 < fill b \/
  exists pn, 0 < pn /\ last_fill b + pn * period b <= tau /\ 0 < fill b + pn * refill b.

Lemma ready_mono b t t' : ready b t -> t <= t' -> ready b t'.
Proof. intros [H|(pn & H1 & H2 & H3)] Hle; [left; exact H|right; exists pn; repeat split; lia]. Qed.

Lemma upd_fill b now :
  fill (upd b now) =
  if periods_of b now =? 0 then fill b
  else Z.min (i64_sat (fill b + i64_sat (periods_of b now * refill b))) (bmax b).
Proof. unfold upd. destruct (periods_of b now =? 0); reflexivity. Qed.

Lemma upd_finv b t0 K C now :
  tinv b t0 K now -> finv b K C -> finv (upd b now) (K + periods_of b now) C.
Proof.
  intros (W & HK & _) (Hm & Hf & H3).
  pose proof (periods_range b now W) as Hk. pose proof W as (Hr & _).
  pose proof (upd_fields b now) as (Ep & Er & Em).
  unfold finv. rewrite Em, Er, upd_fill.
  destruct (periods_of b now =? 0) eqn:E.
  - apply Z.eqb_eq in E. rewrite E. rewrite Z.add_0_r. auto.
  - set (k := periods_of b now) in *.
    assert (Hkr : 0 <= k * refill b) by nia.
    pose proof (i64_sat_le (k * refill b) ltac:(unfold I64_MIN; lia)) as Hp1.
    pose proof (i64_sat_range (k * refill b)) as Hp2.
    assert (Hp0 : 0 <= i64_sat (k * refill b)) by (unfold i64_sat, I64_MIN, I64_MAX in *; lia).
    set (prod := i64_sat (k * refill b)) in *.
    assert (Hs : i64_sat (fill b + prod) <= fill b + prod)
      by (apply i64_sat_le; unfold I64_MIN, I64_MAX in *; lia).
    assert (Hs2 : - I64_MAX < i64_sat (fill b + prod))
      by (unfold i64_sat, I64_MIN, I64_MAX in *; lia).
    split; [exact Hm|]. split; [lia|]. nia.
Qed.

Lemma HORIZON_eq : HORIZON = U32MAX * NS_PER_MS.
Proof. reflexivity. Qed.

(* within the horizon the credited period count is exact: every whole period
   that has elapsed since last_fill is credited *)
Lemma periods_exact b t0 K now pn :
  tinv b t0 K now -> now - t0 < HORIZON ->
  0 < pn -> last_fill b + pn * period b <= now -> pn <= periods_of b now.
Proof.
  intros (W & HK & HL & HN) Hh Hpn Hle.
  pose proof W as (_ & Hpm & HP). pose proof (pmns_bounds b W) as Hb. unfold pmns in Hb.
  unfold periods_of. rewrite (wfp_pm b W).
  assert (HLt0 : t0 <= last_fill b) by nia.
  assert (Hpos : 0 <= now - last_fill b) by nia.
  rewrite Z.max_r by lia.
  set (el := ms (now - last_fill b)).
  assert (Hel : 0 <= el < TWO32).
  { split; [apply ms_nonneg; lia|].
    assert (el <= ms (HORIZON - 1)) by (apply ms_mono; lia).
    assert (ms (HORIZON - 1) < TWO32) by (vm_compute; reflexivity). lia. }
  rewrite (as_u32_small el Hel).
  apply Z.div_le_lower_bound; [lia|].
  assert (pn * (ms (period b) * NS_PER_MS) <= pn * period b) by (apply Z.mul_le_mono_nonneg_l; lia).
  assert (ms (pn * ms (period b) * NS_PER_MS) <= el) by (apply ms_mono; lia).
  assert (ms (pn * ms (period b) * NS_PER_MS) = pn * ms (period b))
    by (unfold ms, NS_PER_MS; apply Z.div_mul; lia).
  lia.
Qed.

Lemma upd_positive b t0 K C now :
  tinv b t0 K now -> finv b K C -> ready b now -> now - t0 < HORIZON ->
  0 < fill (upd b now).
Proof.
  intros T (Hm & Hf & H3) R Hh. pose proof T as (W & HK & _). pose proof W as (Hr & _).
  pose proof (periods_range b now W) as Hk.
  rewrite upd_fill.
  assert (Hgen : forall pn, 0 <= pn -> pn <= periods_of b now -> 0 < fill b + pn * refill b ->
            0 < (if periods_of b now =? 0 then fill b
                 else Z.min (i64_sat (fill b + i64_sat (periods_of b now * refill b))) (bmax b))).
  { intros pn Hpn Hle Hpos.
    destruct (periods_of b now =? 0) eqn:E.
    - apply Z.eqb_eq in E. assert (pn = 0) by lia. subst pn. lia.
    - set (k := periods_of b now) in *.
      assert (pn * refill b <= k * refill b) by (apply Z.mul_le_mono_nonneg_r; lia).
      assert (0 < i64_sat (fill b + i64_sat (k * refill b))).
      { unfold i64_sat, I64_MIN, I64_MAX in *. lia. }
      lia. }
  destruct R as [Hpos|(pn & Hpn & Hle & Hpos)].
  - apply (Hgen 0); lia.
  - apply (Hgen pn); [lia| |exact Hpos]. eapply periods_exact; eauto.
Qed.

Lemma needed_eq f rf :
  - I64_MAX < f <= 0 -> 0 < rf -> needed f rf = Z.min ((- f) / rf + 1) U32MAX.
Proof.
  intros Hf Hr. unfold needed.
  rewrite (i64_sat_id (- f)) by (unfold I64_MIN, I64_MAX in *; lia).
  rewrite Z.quot_div_nonneg by lia.
  assert (0 <= (- f) / rf <= - f).
  { split; [apply Z.div_pos; lia|]. apply Z.div_le_upper_bound; nia. }
  rewrite i64_sat_id by (unfold I64_MIN, I64_MAX in *; lia).
  destruct ((0 <=? - f / rf + 1) && (- f / rf + 1 <=? U32MAX)) eqn:E; lia.
Qed.

(* One permitted read of n bytes. *)
Lemma cons_step b t0 K C now n :
  tinv b t0 K now -> finv b K C -> ready b now -> now - t0 < HORIZON ->
  0 <= n <= I64_MAX ->
  C < bmax b + ((now - t0) / pmns b) * refill b /\
  finv (cons_bucket b now n) (K + periods_of b now) (C + n) /\
  match cons_result b now n with
  | None => ready (cons_bucket b now n) now
  | Some d => ready (cons_bucket b now n) d \/ HORIZON <= d - t0
  end.
Proof.
  intros T F R Hh Hn.
  pose proof (upd_positive b t0 K C now T F R Hh) as Hpos.
  pose proof (upd_finv b t0 K C now T F) as (Hm1 & Hf1 & H31).
  pose proof (upd_tinv b t0 K now T) as (W1 & HK1 & HL1 & HN1).
  pose proof (upd_fields b now) as (Ep & Er & Em).
  pose proof T as (W & HK & _). pose proof W as (Hr & _).
  pose proof (pmns_bounds b W) as Hb.
  set (K1 := K + periods_of b now) in *.
  assert (Hpm1 : pmns (upd b now) = pmns b) by (unfold pmns; rewrite Ep; reflexivity).
  rewrite Hpm1 in HN1. rewrite Em, Er in *.
  (* budget *)
  assert (HK1le : K1 <= (now - t0) / pmns b).
  { apply Z.div_le_lower_bound; [lia|]. lia. }
  assert (K1 * refill b <= (now - t0) / pmns b * refill b) by (apply Z.mul_le_mono_nonneg_r; lia).
  split; [lia|].
  (* new fill *)
  assert (Hfill : fill (cons_bucket b now n) = fill (upd b now) - n).
  { unfold cons_bucket. cbn [fill]. rewrite Z.min_l by lia.
    apply i64_sat_id. unfold I64_MIN, I64_MAX in *. lia. }
  assert (Eb : bmax (cons_bucket b now n) = bmax b) by (unfold cons_bucket; cbn [bmax]; exact Em).
  assert (Erf : refill (cons_bucket b now n) = refill b) by (unfold cons_bucket; cbn [refill]; exact Er).
  assert (Epp : period (cons_bucket b now n) = period b) by (unfold cons_bucket; cbn [period]; exact Ep).
  assert (ELL : last_fill (cons_bucket b now n) = last_fill (upd b now)) by reflexivity.
  split.
  { unfold finv. rewrite Eb, Erf, Hfill. unfold I64_MAX in *. repeat split; lia. }
  destruct (cons_result b now n) as [d|] eqn:Ec.
  - apply cons_result_some in Ec as [Hle ->].
    rewrite Erf, Epp, ELL, Hfill in *.
    rewrite needed_eq by (unfold I64_MAX in *; lia).
    set (f := fill (upd b now) - n) in *.
    pose proof (Z.div_mod (- f) (refill b) ltac:(lia)) as DM.
    pose proof (Z.mod_pos_bound (- f) (refill b) Hr) as MB.
    assert (Hj0 : 0 <= (- f) / refill b) by (apply Z.div_pos; lia).
    destruct (Z.le_gt_cases ((- f) / refill b + 1) U32MAX) as [Hj|Hj].
    + rewrite Z.min_l by lia. left. right.
      exists ((- f) / refill b + 1). rewrite Epp, Erf, ELL, Hfill. fold f.
      repeat split; [lia|lia|nia].
    + rewrite Z.min_r by lia. right.
      rewrite HL1, Ep. rewrite HORIZON_eq.
      assert (U32MAX * NS_PER_MS <= U32MAX * period b)
        by (apply Z.mul_le_mono_nonneg_l; unfold U32MAX; lia).
      assert (0 <= K1 * period b) by (destruct W as (_ & _ & ?); nia).
      lia.
  - apply cons_result_none in Ec. left. exact Ec.
Qed.

(* ---------- reader mode: simulation between model state and monitor state ---------- *)

Definition lim_match (lim : option (Z * Z * Z * Z)) (c now : Z) (s : rl) : Prop :=
  match lim, bkt s with
  | None, None => True
  | Some (t0, mx, rf, pns), Some b =>
      bmax b = mx /\ refill b = rf /\ pmns b = pns /\ wfp b /\
      (now - t0 < HORIZON ->
       exists K, tinv b t0 K now /\ finv b K c /\
         match refilled s with
         | None => ready b now
         | Some d => ready b d \/ HORIZON <= d - t0
         end)
  | _, _ => False
  end.

Definition pend_wf (s : rl) : Prop :=
  match pend s with Some cf => wf_cfg cf = true | None => True end.

Lemma lim_match_wfr lim c now s : lim_match lim c now s -> wfr s.
Proof.
  unfold lim_match, wfr. destruct lim as [[[[t0 mx] rf] pns]|]; destruct (bkt s); try tauto.
Qed.

Lemma lim_match_advance lim c now dt s :
  lim_match lim c now s -> 0 <= dt -> lim_match lim c (now + dt) s.
Proof.
  unfold lim_match. destruct lim as [[[[t0 mx] rf] pns]|]; destruct (bkt s) as [b|]; auto.
  intros (H1 & H2 & H3 & W & H) Hdt. repeat split; auto; try apply W.
  intros Hh. destruct (H ltac:(lia)) as (K & T & F & R). exists K.
  split; [eapply tinv_mono; eauto; lia|]. split; [exact F|].
  destruct (refilled s); [exact R|]. eapply ready_mono; eauto. lia.
Qed.

Definition apply_pend (s : rl) (now : Z) : rl :=
  match pend s with
  | None => s
  | Some c =>
      match from_config now c with
      | Ok b => mkR b None None (limited s)
      | _ => mkR (bkt s) (refilled s) None (limited s)
      end
  end.

Definition poll_core (s1 : rl) (now avail cap : Z) : res (rl * option Z) :=
  let inner := if avail =? 0 then None else Some (Z.min avail cap) in
  match bkt s1 with
  | None => Ok (s1, inner)
  | Some b =>
      let wait := match refilled s1 with
                  | Some d => negb (fired d now)
                  | None => false
                  end in
      if wait then Ok (s1, None) else
      match inner with
      | None => Ok (mkR (Some b) None None (limited s1), None)
      | Some n =>
          match consume b now n with
          | Panic => Panic
          | Err e => Err e
          | Ok (b', None) => Ok (mkR (Some b') None None (limited s1), Some n)
          | Ok (b', Some d) => Ok (mkR (Some b') (Some d) None (limited s1 + 1), Some n)
          end
      end
  end.

Lemma poll_split s now avail cap :
  poll s now avail cap = poll_core (apply_pend s now) now avail cap.
Proof.
  unfold poll, apply_pend. destruct (pend s) as [c|]; [|reflexivity].
  destruct (from_config_cases now c) as [(e & ->)|[->|(b & -> & _)]]; reflexivity.
Qed.

Definition mon_pend (lim : option (Z * Z * Z * Z)) (c : Z) (pd : option (option cfg)) (now : Z) :=
  match pd with
  | None => (lim, c)
  | Some cf => match lim_of now cf with
               | Ok l => (l, 0)
               | _ => (lim, c)
               end
  end.

Lemma new_max_bound now mx bps per b : new now mx bps per = Ok b -> bmax b = mx.
Proof. unfold new. destruct (_ && _); [|discriminate]. intros [= <-]. reflexivity. Qed.

Lemma from_config_max now c b :
  wf_cfg c = true -> from_config now c = Ok (Some b) -> bmax b <= I64_MAX.
Proof.
  unfold from_config, wf_cfg. destruct c as [[bps burst]|]; [|discriminate].
  intros Hw. destruct (new now _ bps (100 * NS_PER_MS)) as [b'|e|] eqn:E; try discriminate.
  intros [= <-]. apply new_max_bound in E. rewrite E.
  destruct burst as [m|]; unfold U32MAX, I64_MAX in *.
  - lia.
  - assert (bps / 10 <= bps) by (apply Z.div_le_upper_bound; lia). lia.
Qed.

Lemma fresh_match now c b :
  wf_cfg c = true -> from_config now c = Ok (Some b) ->
  forall lim', lim_of now c = Ok lim' ->
  lim_match lim' 0 now (mkR (Some b) None None 0) /\
  forall k, lim_match lim' 0 now (mkR (Some b) None None k).
Proof.
  intros Hw Hc lim'. unfold lim_of. rewrite Hc. intros [= <-].
  pose proof (from_config_max now c b Hw Hc) as Hmax.
  destruct (from_config_cases now c) as [(e & He)|[He|(b0 & He & W & Hfill & Hpos & HL & HP)]];
    rewrite He in Hc; try discriminate.
  injection Hc as ->.
  assert (M : forall k, lim_match (Some (now, bmax b, refill b, ms (period b) * NS_PER_MS)) 0 now
                          (mkR (Some b) None None k)).
  { intros k. unfold lim_match. cbn [bkt refilled].
    repeat split; try reflexivity; try apply W.
    intros _. exists 0. split; [|split].
    - repeat split; try apply W; lia.
    - unfold finv. rewrite Hfill. unfold I64_MAX in *. repeat split; lia.
    - left. lia. }
  split; [apply M|exact M].
Qed.

Lemma apply_pend_match lim c now s :
  lim_match lim c now s -> pend_wf s ->
  lim_match (fst (mon_pend lim c (pend s) now)) (snd (mon_pend lim c (pend s) now)) now (apply_pend s now)
  /\ pend (apply_pend s now) = None.
Proof.
  intros M PW. unfold apply_pend, mon_pend, pend_wf in *.
  destruct (pend s) as [cf|] eqn:Ep; [|rewrite Ep; split; [exact M|reflexivity]].
  unfold lim_of.
  destruct (from_config_cases now cf) as [(e & He)|[He|(b & He & _)]]; rewrite He; cbn [fst snd].
  - split; [|reflexivity]. unfold lim_match in *. cbn [bkt refilled]. exact M.
  - split; [|reflexivity]. unfold lim_match. cbn [bkt]. exact I.
  - split; [|reflexivity].
    destruct (fresh_match now cf b PW He _ ltac:(unfold lim_of; rewrite He; reflexivity)) as [_ H].
    apply H.
Qed.

Lemma fired_le d now : fired d now = true -> d <= now.
Proof.
  unfold fired, NS_PER_MS. intros H. apply Z.leb_le in H.
  destruct (Z.le_gt_cases d now) as [|Hgt]; [assumption|exfalso].
  assert ((now + 1 * 1000000) / 1000000 <= (d + 999999) / 1000000) by (apply Z.div_le_mono; lia).
  rewrite Z.div_add in H0 by lia. lia.
Qed.

Lemma budget_ok_intro t0 mx rf pns c now :
  (now - t0 < HORIZON -> c < mx + (now - t0) / pns * rf) ->
  budget_ok (t0, mx, rf, pns) c now = true.
Proof.
  intros H. unfold budget_ok. destruct (HORIZON <=? now - t0) eqn:E; [reflexivity|].
  cbn [orb]. apply Z.ltb_lt. apply H. lia.
Qed.

Lemma poll_core_match lim c now s avail cap :
  lim_match lim c now s -> pend s = None ->
  0 <= avail -> 0 <= cap <= I64_MAX ->
  exists s' r, poll_core s now avail cap = Ok (s', r) /\ pend s' = None /\
    match r with
    | Some n => 0 <= n /\
        (match lim with Some l => budget_ok l c now = true | None => True end) /\
        lim_match lim (c + n) now s'
    | None => lim_match lim c now s'
    end.
Proof.
  intros M Hp Ha Hc. unfold poll_core.
  set (inner := if avail =? 0 then None else Some (Z.min avail cap)).
  assert (Hin : match inner with Some n => 0 <= n <= I64_MAX | None => True end).
  { unfold inner. destruct (avail =? 0); [exact I|]. lia. }
  unfold lim_match in M.
  destruct lim as [[[[t0 mx] rf] pns]|]; destruct (bkt s) as [b|] eqn:Eb; try contradiction.
  2:{ exists s, inner. split; [reflexivity|]. split; [exact Hp|].
      destruct inner as [n|]; unfold lim_match; rewrite Eb; [|exact I].
      split; [lia|]. split; exact I. }
  destruct M as (Hmx & Hrf & Hpns & W & H).
  destruct (match refilled s with Some d => negb (fired d now) | None => false end) eqn:Ew.
  { exists s, None. split; [reflexivity|]. split; [exact Hp|].
    unfold lim_match. rewrite Eb. repeat split; auto; apply W. }
  (* not waiting: the bucket is ready now (within the horizon) *)
  assert (Hready : now - t0 < HORIZON -> exists K, tinv b t0 K now /\ finv b K c /\ ready b now).
  { intros Hh. destruct (H Hh) as (K & T & F & R). exists K. split; [exact T|]. split; [exact F|].
    destruct (refilled s) as [d|]; [|exact R].
    apply negb_false_iff in Ew. apply fired_le in Ew.
    destruct R as [R|R]; [eapply ready_mono; eauto|lia]. }
  destruct inner as [n|].
  2:{ eexists _, None. split; [reflexivity|]. split; [reflexivity|].
      unfold lim_match. cbn [bkt refilled]. repeat split; auto; apply W. }
  rewrite (consume_eq b now n W).
  pose proof (upd_fields b now) as (Ep & Er & Em).
  assert (Eb' : bmax (cons_bucket b now n) = bmax b) by (unfold cons_bucket; cbn [bmax]; exact Em).
  assert (Erf : refill (cons_bucket b now n) = refill b) by (unfold cons_bucket; cbn [refill]; exact Er).
  assert (Epm : pmns (cons_bucket b now n) = pmns b)
    by (unfold pmns, cons_bucket; cbn [period]; rewrite Ep; reflexivity).
  pose proof (cons_bucket_wfp b now n W) as W'.
  assert (Hbud : budget_ok (t0, mx, rf, pns) c now = true).
  { apply budget_ok_intro. intros Hh. destruct (Hready Hh) as (K & T & F & R).
    destruct (cons_step b t0 K c now n T F R Hh Hin) as (Hb & _). subst. exact Hb. }
  destruct (cons_result b now n) as [d|] eqn:Ec.
  - eexists _, (Some n). split; [reflexivity|]. split; [reflexivity|].
    split; [lia|]. split; [exact Hbud|].
    unfold lim_match. cbn [bkt refilled]. rewrite Eb', Erf, Epm.
    repeat split; auto; try apply W'.
    intros Hh. destruct (Hready Hh) as (K & T & F & R).
    destruct (cons_step b t0 K c now n T F R Hh Hin) as (_ & F' & R'). rewrite Ec in R'.
    exists (K + periods_of b now). split; [apply cons_bucket_tinv; exact T|]. split; [exact F'|exact R'].
  - eexists _, (Some n). split; [reflexivity|]. split; [reflexivity|].
    split; [lia|]. split; [exact Hbud|].
    unfold lim_match. cbn [bkt refilled]. rewrite Eb', Erf, Epm.
    repeat split; auto; try apply W'.
    intros Hh. destruct (Hready Hh) as (K & T & F & R).
    destruct (cons_step b t0 K c now n T F R Hh Hin) as (_ & F' & R'). rewrite Ec in R'.
    exists (K + periods_of b now). split; [apply cons_bucket_tinv; exact T|]. split; [exact F'|exact R'].
Qed.

Lemma mon_reader_poll lim c pd now a cap es o os :
  mon_reader lim c pd now (Poll a cap :: es) (o :: os) =
  let lc := mon_pend lim c pd now in
  match o with
  | OPoll (Some n) =>
      (match fst lc with Some l => budget_ok l (snd lc) now | None => true end)
      && mon_reader (fst lc) (snd lc + n) None now es os
  | _ => mon_reader (fst lc) (snd lc) None now es os
  end.
Proof.
  cbn [mon_reader]. unfold mon_pend.
  destruct pd as [cf|]; [destruct (lim_of now cf) as [l|e|]|]; reflexivity.
Qed.

Lemma mon_reader_model es : forall s lim c now os k,
  lim_match lim c now s -> pend_wf s -> forallb wf_ev es = true ->
  run_reader s now es = Ok (os, k) ->
  mon_reader lim c (pend s) now es os = true.
Proof.
  induction es as [|e es IH]; intros s lim c now os k M PW Hwf; cbn [run_reader].
  - intros [= <- _]. reflexivity.
  - cbn [forallb] in Hwf. apply andb_prop in Hwf as [He Hes].
    destruct e as [dt|n|a cap|cf].
    + destruct (run_reader s (now + dt) es) as [[l k']|e'|] eqn:R; try discriminate.
      intros [= <- _]. cbn [mon_reader]. cbn [wf_ev] in He.
      eapply IH; eauto. apply lim_match_advance; [exact M|lia].
    + destruct (run_reader s now es) as [[l k']|e'|] eqn:R; try discriminate.
      intros [= <- _]. cbn [mon_reader]. eapply IH; eauto.
    + rewrite poll_split.
      destruct (apply_pend_match lim c now s M PW) as [M1 P1].
      cbn [wf_ev] in He.
      destruct (poll_core_match _ _ now _ a cap M1 P1 ltac:(lia) ltac:(lia))
        as (s' & r & -> & P' & Hr).
      destruct (run_reader s' now es) as [[l k']|e'|] eqn:R; try discriminate.
      intros [= <- _]. rewrite mon_reader_poll. cbv zeta.
      assert (PW' : pend_wf s') by (unfold pend_wf; rewrite P'; exact I).
      destruct r as [n|].
      * destruct Hr as (_ & Hb & M').
        pose proof (IH s' _ _ now l k' M' PW' Hes R) as IHr. rewrite P' in IHr. rewrite IHr.
        rewrite andb_true_r.
        destruct (fst (mon_pend lim c (pend s) now)); [exact Hb|reflexivity].
      * pose proof (IH s' _ _ now l k' Hr PW' Hes R) as IHr. rewrite P' in IHr. exact IHr.
    + destruct (run_reader (mkR (bkt s) (refilled s) (Some cf) (limited s)) now es)
        as [[l k']|e'|] eqn:R; try discriminate.
      intros [= <- _]. cbn [mon_reader].
      apply (IH (mkR (bkt s) (refilled s) (Some cf) (limited s)) lim c now l k'); auto.
Qed.


(* ---------- reader mode: the resume clause holds on the model ---------- *)

Lemma fired_mono d d' now : d <= d' -> fired d' now = true -> fired d now = true.
Proof.
  unfold fired, NS_PER_MS. intros Hle H. apply Z.leb_le in H. apply Z.leb_le.
  assert ((d + 999999) / 1000000 <= (d' + 999999) / 1000000) by (apply Z.div_le_mono; lia). lia.
Qed.

(* model state vs. the monitor's bucket in effect: same bucket, and a pending refill sleep
   means the bucket is empty and the sleep ends no later than its first positive refill *)
Definition res_match (sb : option bucket) (s : rl) : Prop :=
  bkt s = sb /\ wfr s /\
  forall d, refilled s = Some d ->
    exists b, sb = Some b /\ fill b <= 0 /\ d <= first_positive b.

Lemma res_match_idle sb s : bkt s = sb -> wfr s -> refilled s = None -> res_match sb s.
Proof. intros H1 H2 H3. split; [exact H1|]. split; [exact H2|]. intros d Hd. congruence. Qed.

Definition mon_sb (sb : option bucket) (pd : option (option cfg)) (now : Z) : option bucket :=
  match pd with
  | None => sb
  | Some cf => match from_config now cf with Ok b => b | _ => sb end
  end.

Lemma apply_pend_res sb s now :
  res_match sb s -> res_match (mon_sb sb (pend s) now) (apply_pend s now) /\ pend (apply_pend s now) = None.
Proof.
  intros (Hb & W & Hd). unfold apply_pend, mon_sb.
  destruct (pend s) as [cf|] eqn:Ep; [|split; [repeat split; auto|exact Ep]].
  destruct (from_config_cases now cf) as [(e & He)|[He|(b & He & Wb & _)]]; rewrite He.
  - split; [|reflexivity]. split; [exact Hb|]. split; [exact W|exact Hd].
  - split; [|reflexivity]. split; [reflexivity|]. split; [exact I|]. intros d Hd'. discriminate Hd'.
  - split; [|reflexivity]. split; [reflexivity|]. split; [exact Wb|]. intros d Hd'. discriminate Hd'.
Qed.

Lemma mon_resume_poll sb pd now a cap es o os :
  mon_resume sb pd now (Poll a cap :: es) (o :: os) =
  let sb1 := mon_sb sb pd now in
  match o with
  | OPoll None => pending_ok sb1 a now && mon_resume sb1 None now es os
  | OPoll (Some n) =>
      match sb1 with
      | None => mon_resume None None now es os
      | Some b => match consume b now n with
                  | Ok (b', _) => mon_resume (Some b') None now es os
                  | _ => true
                  end
      end
  | _ => mon_resume sb1 None now es os
  end.
Proof. reflexivity. Qed.

Lemma poll_core_res sb s now avail cap :
  res_match sb s -> pend s = None ->
  exists s' r, poll_core s now avail cap = Ok (s', r) /\ pend s' = None /\
    match r with
    | None => pending_ok sb avail now = true /\ res_match sb s'
    | Some n =>
        match sb with
        | None => res_match None s'
        | Some b => exists b', consume b now n = Ok (b', refilled s') /\ res_match (Some b') s'
        end
    end.
Proof.
  intros (Hb & W & Hd) Hp. unfold poll_core, pending_ok.
  destruct (bkt s) as [b|] eqn:Eb; subst sb.
  2:{ assert (M : res_match None s).
      { split; [exact Eb|]. split; [exact W|]. intros d Hr. destruct (Hd d Hr) as (b0 & Hb0 & _). discriminate Hb0. }
      exists s. destruct (avail =? 0) eqn:Ea.
      - exists None. split; [reflexivity|]. split; [exact Hp|]. split; [reflexivity|exact M].
      - exists (Some (Z.min avail cap)). split; [reflexivity|]. split; [exact Hp|exact M]. }
  assert (M : res_match (Some b) s) by (split; [exact Eb|]; split; [exact W|exact Hd]).
  unfold wfr in W. rewrite Eb in W.
  destruct (match refilled s with Some d => negb (fired d now) | None => false end) eqn:Ew.
  { exists s, None. split; [reflexivity|]. split; [exact Hp|]. split; [|exact M].
    destruct (refilled s) as [d|] eqn:Er; [|discriminate].
    destruct (Hd d eq_refl) as (b0 & Hb0 & Hf & Hle). injection Hb0 as <-.
    apply orb_true_iff. right. apply andb_true_iff. split; [lia|].
    apply negb_true_iff in Ew. apply negb_true_iff.
    destruct (fired (first_positive b) now) eqn:E; [|reflexivity].
    rewrite (fired_mono d _ now Hle E) in Ew. discriminate. }
  destruct (avail =? 0) eqn:Ea.
  { eexists _, None. split; [reflexivity|]. split; [reflexivity|]. split; [reflexivity|].
    apply res_match_idle; [reflexivity|exact W|reflexivity]. }
  rewrite (consume_eq b now _ W).
  pose proof (cons_bucket_wfp b now (Z.min avail cap) W) as W'.
  destruct (cons_result b now (Z.min avail cap)) as [d|] eqn:Ec.
  - eexists _, (Some _). split; [reflexivity|]. split; [reflexivity|].
    eexists. split; [cbn [refilled]; rewrite (consume_eq b now _ W), Ec; reflexivity|].
    split; [reflexivity|]. split; [exact W'|].
    intros d' Hd'. cbn [refilled] in Hd'. injection Hd' as <-. eexists. split; [reflexivity|].
    destruct (deadline_is_first_positive b now _ d W Ec) as (h1 & _ & _ & h4 & _).
    split; [exact h1|exact h4].
  - eexists _, (Some _). split; [reflexivity|]. split; [reflexivity|].
    eexists. split; [cbn [refilled]; rewrite (consume_eq b now _ W), Ec; reflexivity|].
    apply res_match_idle; [reflexivity|exact W'|reflexivity].
Qed.

Lemma mon_resume_model es : forall s sb now os k,
  res_match sb s -> run_reader s now es = Ok (os, k) ->
  mon_resume sb (pend s) now es os = true.
Proof.
  induction es as [|e es IH]; intros s sb now os k M; cbn [run_reader].
  - intros [= <- _]. reflexivity.
  - destruct e as [dt|n|a cap|cf].
    + destruct (run_reader s (now + dt) es) as [[l k']|e'|] eqn:R; try discriminate.
      intros [= <- _]. cbn [mon_resume]. eapply IH; eauto.
    + destruct (run_reader s now es) as [[l k']|e'|] eqn:R; try discriminate.
      intros [= <- _]. cbn [mon_resume]. eapply IH; eauto.
    + rewrite poll_split.
      destruct (apply_pend_res sb s now M) as [M1 P1].
      destruct (poll_core_res _ _ now a cap M1 P1) as (s' & r & -> & P' & Hr).
      destruct (run_reader s' now es) as [[l k']|e'|] eqn:R; try discriminate.
      intros [= <- _]. rewrite mon_resume_poll. cbv zeta.
      destruct r as [n|].
      * destruct (mon_sb sb (pend s) now) as [b|].
        -- destruct Hr as (b' & -> & M'). rewrite <- P'. eapply IH; eauto.
        -- rewrite <- P'. eapply IH; eauto.
      * destruct Hr as [Hpo M']. rewrite Hpo. cbn [andb]. rewrite <- P'. eapply IH; eauto.
    + destruct (run_reader (mkR (bkt s) (refilled s) (Some cf) (limited s)) now es)
        as [[l k']|e'|] eqn:R; try discriminate.
      intros [= <- _]. cbn [mon_resume].
      apply (IH (mkR (bkt s) (refilled s) (Some cf) (limited s)) sb now l k'); auto.
Qed.

(* the clause on one poll observed Pending, in words *)
Lemma pending_ok_spec sb avail now :
  pending_ok sb avail now = true <->
  avail = 0 \/ exists b, sb = Some b /\ fill b <= 0 /\ fired (first_positive b) now = false.
Proof.
  unfold pending_ok. rewrite orb_true_iff. split.
  - intros [H|H]; [left; lia|right]. destruct sb as [b|]; [|discriminate].
    apply andb_prop in H as [h1 h2]. exists b. split; [reflexivity|]. split; [lia|].
    now apply negb_true_iff.
  - intros [H|(b & -> & h1 & h2)]; [left; lia|right]. apply andb_true_iff. split; [lia|].
    now apply negb_true_iff.
Qed.

(* ---------- the model satisfies the monitor for every input ---------- *)

Lemma model_monitor i : monitor i (model i) = true.
Proof.
  unfold monitor. destruct (negb (wf_input i)) eqn:Hw; [reflexivity|].
  apply negb_false_iff in Hw. unfold wf_input in Hw. apply andb_prop in Hw as [Hs He].
  destruct i as [st es]. cbn [fst snd] in *.
  destruct st as [mx bps per|cf]; cbn [model].
  - cbn [wf_setup] in Hs.
    assert (Hper : 0 <= per) by lia.
    destruct (new 0 mx bps per) as [b|e|] eqn:E; [|reflexivity|exfalso; eapply new_not_panic; eauto].
    destruct (new_ok_wfp _ _ _ _ _ Hper E) as (W & _ & _ & HL & HP & _).
    destruct (run_bucket_ok es b 0 W) as (l & R). rewrite R.
    rewrite <- HP. apply (mon_bucket_model es b 0 0 l); auto.
    repeat split; try apply W; lia.
  - cbn [wf_setup] in Hs.
    destruct (from_config_cases 0 cf) as [(e & Hc)|[Hc|(b & Hc & Wb & _)]]; rewrite Hc.
    + reflexivity.
    + destruct (run_reader_ok es (mkR None None None 0) 0 I) as ([l k] & R). rewrite R.
      unfold lim_of. rewrite Hc. apply andb_true_iff. split.
      * apply (mon_reader_model es (mkR None None None 0) None 0 0 l k); auto; exact I.
      * apply (mon_resume_model es (mkR None None None 0) None 0 l k); [|exact R].
        apply res_match_idle; [reflexivity|exact I|reflexivity].
    + destruct (run_reader_ok es (mkR (Some b) None None 0) 0 Wb) as ([l k] & R). rewrite R.
      destruct (lim_of 0 cf) as [lim'|e|] eqn:EL;
        try (unfold lim_of in EL; rewrite Hc in EL; discriminate).
      destruct (fresh_match 0 cf b Hs Hc lim' EL) as [M _]. apply andb_true_iff. split.
      * apply (mon_reader_model es (mkR (Some b) None None 0) lim' 0 0 l k); auto. exact I.
      * apply (mon_resume_model es (mkR (Some b) None None 0) (Some b) 0 l k); [|exact R].
        apply res_match_idle; [reflexivity|exact Wb|reflexivity].
Qed.

(* ---------- the rate bound in readable form (single limit, no live change) ---------- *)

Fixpoint bytes_read (os : list obs) : Z :=
  match os with
  | [] => 0
  | OPoll (Some n) :: os' => n + bytes_read os'
  | _ :: os' => bytes_read os'
  end.

Fixpoint max_read (os : list obs) : Z :=
  match os with
  | [] => 0
  | OPoll (Some n) :: os' => Z.max n (max_read os')
  | _ :: os' => max_read os'
  end.

Fixpoint elapsed (es : list ev) : Z :=
  match es with
  | [] => 0
  | Advance dt :: es' => dt + elapsed es'
  | _ :: es' => elapsed es'
  end.

Definition no_reconfig (es : list ev) : bool :=
  forallb (fun e => match e with Reconfig _ => false | _ => true end) es.

Definition shape (e : ev) (o : obs) : Prop :=
  match e with
  | Poll _ _ => exists r, o = OPoll r
  | _ => o = ONone
  end.

Lemma run_reader_shape es : forall s now os k,
  run_reader s now es = Ok (os, k) -> Forall2 shape es os.
Proof.
  induction es as [|e es IH]; intros s now os k; cbn [run_reader].
  - intros [= <- _]. constructor.
  - destruct e as [dt|n|a cap|cf].
    + destruct (run_reader s (now + dt) es) as [[l k']|e'|] eqn:R; try discriminate.
      intros [= <- _]. constructor; [reflexivity|eauto].
    + destruct (run_reader s now es) as [[l k']|e'|] eqn:R; try discriminate.
      intros [= <- _]. constructor; [reflexivity|eauto].
    + destruct (poll s now a cap) as [[s' r]|e'|]; try discriminate.
      destruct (run_reader s' now es) as [[l k']|e'|] eqn:R; try discriminate.
      intros [= <- _]. constructor; [eexists; reflexivity|eauto].
    + destruct (run_reader _ now es) as [[l k']|e'|] eqn:R; try discriminate.
      intros [= <- _]. constructor; [reflexivity|eauto].
Qed.

Lemma elapsed_nonneg es : forallb wf_ev es = true -> 0 <= elapsed es.
Proof.
  induction es as [|e es IH]; cbn [forallb elapsed]; [lia|].
  intros H. apply andb_prop in H as [He Hes]. specialize (IH Hes).
  destruct e; cbn [wf_ev] in He; lia.
Qed.

Lemma max_read_nonneg os : 0 <= max_read os.
Proof. induction os as [|o os IH]; cbn [max_read]; [lia|]. destruct o as [|d|[n|]]; lia. Qed.

Lemma mon_reader_bound es : forall os t0 mx rf pns c now,
  Forall2 shape es os -> forallb wf_ev es = true -> no_reconfig es = true ->
  0 < pns -> 0 < rf ->
  mon_reader (Some (t0, mx, rf, pns)) c None now es os = true ->
  now + elapsed es - t0 < HORIZON ->
  c + bytes_read os <=
  Z.max c (mx + ((now + elapsed es - t0) / pns) * rf - 1 + max_read os).
Proof.
  induction es as [|e es IH]; intros os t0 mx rf pns c now Hs Hwf Hnr Hp Hr Hm Hh;
    inversion Hs as [|e' o es' os' Hsh Hs']; subst; cbn [bytes_read max_read elapsed] in *.
  - lia.
  - cbn [forallb no_reconfig] in Hwf, Hnr. apply andb_prop in Hwf as [He Hes].
    apply andb_prop in Hnr as [Hn1 Hnr].
    destruct e as [dt|n|a cap|cf]; cbn [shape] in Hsh; try discriminate.
    + subst o. cbn [mon_reader bytes_read max_read] in *.
      replace (now + (dt + elapsed es) - t0) with ((now + dt) + elapsed es - t0) in * by ring.
      apply IH; auto.
    + subst o. cbn [mon_reader bytes_read max_read] in *. apply IH; auto.
    + destruct Hsh as [r ->]. rewrite mon_reader_poll in Hm. cbn [mon_pend fst snd] in Hm.
      pose proof (elapsed_nonneg es Hes) as Hel. pose proof (max_read_nonneg os') as Hmr.
      destruct r as [n|]; cbn [bytes_read max_read].
      * apply andb_prop in Hm as [Hb Hm].
        specialize (IH os' t0 mx rf pns (c + n) now Hs' Hes Hnr Hp Hr Hm Hh).
        unfold budget_ok in Hb. apply orb_prop in Hb as [Hb|Hb]; [lia|].
        apply Z.ltb_lt in Hb.
        assert ((now - t0) / pns <= (now + elapsed es - t0) / pns) by (apply Z.div_le_mono; lia).
        assert ((now - t0) / pns * rf <= (now + elapsed es - t0) / pns * rf)
          by (apply Z.mul_le_mono_nonneg_r; lia).
        lia.
      * specialize (IH os' t0 mx rf pns c now Hs' Hes Hnr Hp Hr Hm Hh). lia.
Qed.

(* A reader limited by a ClientRateLimit, whatever the arrival pattern and the
   polling times: after any history shorter than the horizon, the bytes read
   are below burst + refill * (whole periods elapsed) + the largest single read. *)
Lemma rate_bound cf b es os k :
  wf_cfg cf = true -> from_config 0 cf = Ok (Some b) ->
  forallb wf_ev es = true -> no_reconfig es = true ->
  model (SReader cf, es) = Ok (os, k) ->
  elapsed es < HORIZON ->
  bytes_read os < bmax b + (elapsed es / PER100) * refill b + max_read os.
Proof.
  intros Hw Hc Hes Hnr Hmod Hh.
  pose proof (model_monitor (SReader cf, es)) as Hmon.
  unfold monitor, wf_input in Hmon. cbn [fst snd wf_setup] in Hmon. rewrite Hw, Hes in Hmon.
  cbn [andb negb] in Hmon. rewrite Hmod in Hmon. unfold lim_of in Hmon. rewrite Hc in Hmon.
  unfold model in Hmod. rewrite Hc in Hmod.
  pose proof (run_reader_shape es _ _ _ _ Hmod) as Hs.
  destruct (from_config_cases 0 cf) as [(e & He)|[He|(b0 & He & W & Hfill & Hpos & HL & HP)]];
    rewrite He in Hc; try discriminate. injection Hc as ->.
  pose proof W as (Hr & _).
  assert (Hpns : ms (period b) * NS_PER_MS = PER100) by (rewrite HP; vm_compute; reflexivity).
  rewrite Hpns in Hmon. apply andb_prop in Hmon as [Hmon _].
  pose proof (mon_reader_bound es os 0 (bmax b) (refill b) PER100 0 0 Hs Hes Hnr
                ltac:(vm_compute; reflexivity) Hr Hmon ltac:(lia)) as Hb.
  replace (0 + elapsed es - 0) with (elapsed es) in Hb by ring.
  pose proof (elapsed_nonneg es Hes) as Hel. pose proof (max_read_nonneg os) as Hmr.
  assert (0 <= elapsed es / PER100) by (apply Z.div_pos; [lia|vm_compute; reflexivity]).
  assert (0 <= elapsed es / PER100 * refill b) by nia.
  lia.
Qed.

(* a throttled reader reads again at the first poll after the timer of its deadline fired *)
Lemma resumes s b d now avail cap :
  bkt s = Some b -> wfp b -> pend s = None -> refilled s = Some d ->
  fired d now = true -> 0 < avail -> 
  exists s', poll s now avail cap = Ok (s', Some (Z.min avail cap)).
Proof.
  intros Hb W Hp Hr Hf Ha. unfold poll. rewrite Hp, Hb, Hr, Hf. cbn [negb].
  destruct (avail =? 0) eqn:E; [lia|].
  rewrite (consume_eq b now _ W). destruct (cons_result b now (Z.min avail cap)); eauto.
Qed.

(* ---------- witnesses and non-vacuity ---------- *)

(* The three inputs that panicked before the fix are now handled. *)
Example fixed_mul_overflow :
  model (SBucket I64_MAX I64_MAX 100000000, [Advance 200000000000; Consume 1])
  = Ok ([ONone; OCons None], 0).
Proof. vm_compute. reflexivity. Qed.

Example fixed_add_overflow :
  model (SBucket 1 10 100000000, [Consume 18446744073709551615; Consume 18446744073709551615])
  = Ok ([OCons (Some 429496729500000000); OCons (Some 429496729500000000)], 0).
Proof. vm_compute. reflexivity. Qed.

Example fixed_period_truncation :
  model (SBucket 1000 1000 4294967297000000, [Consume 1]) = Err 1%N.
Proof. vm_compute. reflexivity. Qed.

(* the largest accepted period *)
Example max_period_accepted :
  model (SBucket 1000 1000 4294967295999999, [Consume 1]) = Ok ([OCons None], 0).
Proof. vm_compute. reflexivity. Qed.

(* throttling happens and ends: burst 100, 1000 B/s *)
Example throttle_example :
  model (SReader (Some (1000, Some 100)),
         [Poll 5000 64; Poll 5000 64; Poll 5000 64; Advance 99000000; Poll 5000 64;
          Advance 1000000; Poll 5000 64])
  = Ok ([OPoll (Some 64); OPoll (Some 64); OPoll None; ONone; OPoll None; ONone; OPoll (Some 64)], 1).
Proof. vm_compute. reflexivity. Qed.
