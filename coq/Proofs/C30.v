(* C30 — proofs: the invariant of the add/publish/clear transition system. *)
From V Require Import Lib.Base Model.C30.
From Coq Require Import Arith.
Import C30.
Open Scope N_scope.

(* ---------- lists ---------- *)
Lemma upd_length {A} n (a : A) l : length (upd n a l) = length l.
Proof. revert n; induction l as [|b l IH]; intros [|n]; cbn; auto. Qed.

Lemma nth_error_upd_eq {A} n (a : A) l : (n < length l)%nat -> nth_error (upd n a l) n = Some a.
Proof.
  revert n; induction l as [|b l IH]; intros [|n] H; cbn in *; try lia; auto.
  apply IH; lia.
Qed.

Lemma nth_error_upd_neq {A} n m (a : A) l : n <> m -> nth_error (upd n a l) m = nth_error l m.
Proof.
  revert n m; induction l as [|b l IH]; intros [|n] [|m] H; cbn; auto; try congruence.
Qed.

Lemma nth_error_lt {A} (l : list A) n a : nth_error l n = Some a -> (n < length l)%nat.
Proof. intros H. apply nth_error_Some. congruence. Qed.

Lemma nodup_snoc (l : list N) x : NoDup l -> ~ In x l -> NoDup (l ++ [x]).
Proof.
  induction l as [|a l IH]; cbn; intros Hn Hx.
  - constructor; [intros []|constructor].
  - inversion Hn; subst. constructor.
    + rewrite in_app_iff. cbn. intros [H|[H|[]]]; [contradiction|subst; tauto].
    + apply IH; tauto.
Qed.

Lemma existsb_eqb_false x l : existsb (N.eqb x) l = false <-> ~ In x l.
Proof.
  split.
  - intros H Hin. assert (existsb (N.eqb x) l = true); [|congruence].
    apply existsb_exists. exists x. split; [assumption|apply N.eqb_refl].
  - intros H. destruct (existsb (N.eqb x) l) eqn:E; [|reflexivity].
    apply existsb_exists in E as (y & Hy & Hxy). apply N.eqb_eq in Hxy. subst. contradiction.
Qed.

Lemma nodupb_NoDup l : nodupb l = true -> NoDup l.
Proof.
  induction l as [|a l IH]; cbn; intros H; [constructor|].
  apply andb_prop in H as [H1 H2]. constructor; [|auto].
  apply negb_true_iff in H1. now apply existsb_eqb_false.
Qed.

(* ---------- equality tests ---------- *)
Lemma addr_eqb_refl a : addr_eqb a a = true.
Proof. destruct a as [b n]. unfold addr_eqb. cbn. now rewrite Bool.eqb_reflx, N.eqb_refl. Qed.
Lemma addr_eqb_eq a b : addr_eqb a b = true -> a = b.
Proof.
  destruct a as [x n], b as [y m]. unfold addr_eqb. cbn. intros H.
  apply andb_prop in H as [H1 H2]. apply Bool.eqb_prop in H1. apply N.eqb_eq in H2. now subst.
Qed.
Lemma data_eqb_refl d : data_eqb d d = true.
Proof. destruct d as [u l]. unfold data_eqb. cbn. rewrite N.eqb_refl. cbn. apply list_eqb_refl, addr_eqb_refl. Qed.
Lemma data_eqb_eq a b : data_eqb a b = true -> a = b.
Proof.
  destruct a as [u l], b as [v k]. unfold data_eqb. cbn. intros H.
  apply andb_prop in H as [H1 H2]. apply N.eqb_eq in H1.
  apply (list_eqb_eq addr_eqb addr_eqb_eq) in H2. now subst.
Qed.
Lemma opt_data_eqb_iff a b : opt_eqb data_eqb a b = true <-> a = b.
Proof.
  destruct a, b; cbn; split; intros H; try discriminate; try reflexivity.
  - f_equal. now apply data_eqb_eq.
  - inversion H. apply data_eqb_refl.
Qed.

(* ---------- last_recv ---------- *)
Lemma last_recv_cons_eq x d l : last_recv x ((x, d) :: l) = Some d.
Proof. cbn. now rewrite N.eqb_refl. Qed.
Lemma last_recv_cons_neq x y d l : y <> x -> last_recv x ((y, d) :: l) = last_recv x l.
Proof. intros H. cbn. destruct (N.eqb y x) eqn:E; [apply N.eqb_eq in E; contradiction|reflexivity]. Qed.
Lemma last_recv_log_to_neq x y od l : y <> x -> last_recv x (log_to y od l) = last_recv x l.
Proof. intros H. destruct od; cbn [log_to]; [now apply last_recv_cons_neq|reflexivity]. Qed.

(* ---------- programs ---------- *)
Lemma add_ids_in prog t x : nth_error prog t = Some (Add x) -> In x (add_ids prog).
Proof.
  revert t; induction prog as [|o prog IH]; intros [|t] H; cbn in *; try discriminate.
  - inversion H; subst. cbn. auto.
  - destruct o; cbn; eauto.
Qed.

Lemma add_unique prog t u x :
  NoDup (add_ids prog) -> nth_error prog t = Some (Add x) -> nth_error prog u = Some (Add x) -> t = u.
Proof.
  revert t u; induction prog as [|o prog IH]; intros [|t] [|u] Hn Ht Hu; cbn in *; try discriminate; auto.
  - inversion Ht; subst. cbn in Hn. inversion Hn; subst. apply add_ids_in in Hu. contradiction.
  - inversion Hu; subst. cbn in Hn. inversion Hn; subst. apply add_ids_in in Ht. contradiction.
  - f_equal. apply IH; auto. destruct o; cbn in Hn; auto. now inversion Hn.
Qed.

(* ---------- the invariant ---------- *)
Definition typed (o : option op) (p : pc) : bool :=
  match o, p with
  | Some _, Idle | Some _, Done => true
  | Some (Publish _), (PFiltered _ | PLockedL _ | PLocked _ _ | PStored | PUnlockedS) => true
  | Some (Add _), (ARead | APushed) => true
  | _, _ => false
  end.

Definition is_locked (p : pc) : bool := match p with PLocked _ _ => true | _ => false end.

Definition pcat (s : st) (t : nat) (p : pc) : Prop := nth_error (pcs s) t = Some p.

Definition consistent (s : st) : Prop :=
  forall x, In x (svcs s) -> last_recv x (evlog s) = last s.

Definition excl (l : list pc) : Prop :=
  forall t u pt pu, t <> u -> nth_error l t = Some pt -> nth_error l u = Some pu ->
    holdsLw pt = true -> holdsLw pu = false /\ holdsLr pu = false.

Section Inv.
Variable f : N.
Variable prog : list op.
Hypothesis WF : NoDup (add_ids prog).

Record Inv (s : st) : Prop := mkInv {
  I_len : length (pcs s) = length prog;
  I_typed : forall t p, pcat s t p -> typed (nth_error prog t) p = true;
  I_nodup : NoDup (svcs s);
  I_excl : excl (pcs s);
  (* a service whose add has not started was never given anything *)
  I_idle : forall t x, nth_error prog t = Some (Add x) -> pcat s t Idle ->
             ~ In x (svcs s) /\ last_recv x (evlog s) = None;
  (* between its read and its push, an add's service holds exactly last_data *)
  I_aread : forall t x, nth_error prog t = Some (Add x) -> pcat s t ARead ->
             ~ In x (svcs s) /\ last_recv x (evlog s) = last s;
  (* no publish is inside its loop: every registered service holds last_data *)
  I_cons : (forall t p, pcat s t p -> is_locked p = false) -> consistent s;
  (* a publish inside its loop: served services hold its data, the others last_data *)
  I_locked : forall t fd todo, pcat s t (PLocked fd todo) ->
             NoDup todo /\ incl todo (svcs s) /\
             forall x, In x (svcs s) ->
               last_recv x (evlog s) = if existsb (N.eqb x) todo then last s else Some fd
}.

Lemma nobody_spec h s : nobody h s = true -> forall t p, pcat s t p -> h p = false.
Proof.
  unfold nobody, pcat. intros H t p Hp. rewrite forallb_forall in H.
  apply nth_error_In in Hp. apply H in Hp. now apply negb_true_iff in Hp.
Qed.

Lemma nobody_intro h s : (forall t p, pcat s t p -> h p = false) -> nobody h s = true.
Proof.
  unfold nobody, pcat. intros H. apply forallb_forall. intros p Hp.
  apply In_nth_error in Hp as [t Ht]. apply negb_true_iff. eauto.
Qed.

Lemma excl_upd l t p p' :
  excl l -> nth_error l t = Some p ->
  (holdsLw p' = true -> holdsLw p = true \/
     forall u pu, u <> t -> nth_error l u = Some pu -> holdsLw pu = false /\ holdsLr pu = false) ->
  (holdsLr p' = true -> holdsLr p = true \/
     forall u pu, u <> t -> nth_error l u = Some pu -> holdsLw pu = false) ->
  excl (upd t p' l).
Proof.
  intros Hex Hp Ha Hb t0 u pt pu Hne Ht0 Hu Hw.
  pose proof (nth_error_lt _ _ _ Hp) as Hlt.
  destruct (Nat.eq_dec t0 t) as [->|N0].
  - rewrite nth_error_upd_eq in Ht0 by assumption. inversion Ht0; subst pt.
    rewrite nth_error_upd_neq in Hu by auto.
    destruct (Ha Hw) as [Hpw|Hall]; [eapply (Hex t u); eauto|eapply Hall; eauto].
  - rewrite nth_error_upd_neq in Ht0 by auto.
    destruct (Nat.eq_dec u t) as [->|N1].
    + rewrite nth_error_upd_eq in Hu by assumption. inversion Hu; subst pu.
      destruct (Hex t0 t pt p Hne Ht0 Hp Hw) as [E1 E2].
      split.
      * destruct (holdsLw p') eqn:E; [|reflexivity].
        destruct (Ha eq_refl) as [Hpw|Hall]; [congruence|].
        destruct (Hall t0 pt N0 Ht0). congruence.
      * destruct (holdsLr p') eqn:E; [|reflexivity].
        destruct (Hb eq_refl) as [Hpr|Hall]; [congruence|].
        pose proof (Hall t0 pt N0 Ht0). congruence.
    + rewrite nth_error_upd_neq in Hu by auto. eapply (Hex t0 u); eauto.
Qed.

(* a step that changes only the program counter of t *)
Lemma inv_set_pc s t p p' :
  Inv s -> pcat s t p ->
  typed (nth_error prog t) p' = true ->
  (holdsLw p' = true -> holdsLw p = true \/
     forall u pu, u <> t -> pcat s u pu -> holdsLw pu = false /\ holdsLr pu = false) ->
  (holdsLr p' = true -> holdsLr p = true \/
     forall u pu, u <> t -> pcat s u pu -> holdsLw pu = false) ->
  p' <> Idle -> p' <> ARead -> is_locked p = false ->
  (forall fd todo, p' = PLocked fd todo ->
     NoDup todo /\ incl todo (svcs s) /\
     forall x, In x (svcs s) ->
       last_recv x (evlog s) = if existsb (N.eqb x) todo then last s else Some fd) ->
  Inv (set_pc s t p').
Proof.
  intros HI Hp Hty Ha Hb HnI HnA HnL HL.
  pose proof (nth_error_lt _ _ _ Hp) as Hlt.
  destruct HI as [Il It In_ Ie Ii Ia Ic Ik].
  constructor; unfold pcat in *; cbn [set_pc pcs svcs last evlog] in *.
  - now rewrite upd_length.
  - intros t0 p0 H0. destruct (Nat.eq_dec t0 t) as [->|N0].
    + rewrite nth_error_upd_eq in H0 by assumption. now inversion H0; subst.
    + rewrite nth_error_upd_neq in H0 by auto. eauto.
  - assumption.
  - eapply excl_upd; eauto.
  - intros t0 x Hop H0. destruct (Nat.eq_dec t0 t) as [->|N0].
    + rewrite nth_error_upd_eq in H0 by assumption. inversion H0; congruence.
    + rewrite nth_error_upd_neq in H0 by auto. eauto.
  - intros t0 x Hop H0. destruct (Nat.eq_dec t0 t) as [->|N0].
    + rewrite nth_error_upd_eq in H0 by assumption. inversion H0; congruence.
    + rewrite nth_error_upd_neq in H0 by auto. eauto.
  - intros Hno. apply Ic. intros t0 p0 H0. destruct (Nat.eq_dec t0 t) as [->|N0].
    + congruence.
    + apply (Hno t0). now rewrite nth_error_upd_neq by auto.
  - intros t0 fd todo H0. destruct (Nat.eq_dec t0 t) as [->|N0].
    + rewrite nth_error_upd_eq in H0 by assumption. inversion H0; subst. now apply HL.
    + rewrite nth_error_upd_neq in H0 by auto. eauto.
Qed.

Ltac upd_at H t0 t Hlt :=
  destruct (Nat.eq_dec t0 t) as [->|?];
  [ rewrite nth_error_upd_eq in H by exact Hlt; inversion H; subst
  | rewrite nth_error_upd_neq in H by auto ].

Theorem step_inv s t s' : Inv s -> step f prog s t = Some s' -> Inv s'.
Proof.
  intros HI Hs. unfold step in Hs.
  destruct (nth_error prog t) as [o|] eqn:Hop; [|discriminate].
  destruct (nth_error (pcs s) t) as [p|] eqn:Hp; [|destruct o; discriminate].
  pose proof (nth_error_lt _ _ _ Hp) as Hlt.
  assert (Hother : holdsLw p = true -> forall u pu, u <> t -> pcat s u pu ->
                     holdsLw pu = false /\ holdsLr pu = false).
  { intros Hw u pu Hne Hu. eapply (I_excl _ HI t u); eauto. }
  destruct o as [d|x|]; destruct p as [|fd|fd|fd todo| | | | |]; try discriminate.
  - (* publish: filter *)
    inversion Hs; subst s'. eapply inv_set_pc; eauto; try (rewrite Hop; reflexivity);
      cbn; try discriminate; try reflexivity.
  - (* publish: last_data.write() *)
    destruct (nobody holdsLw s && nobody holdsLr s) eqn:En; [|discriminate].
    apply andb_prop in En as [En1 En2].
    inversion Hs; subst s'. eapply inv_set_pc; eauto; try (rewrite Hop; reflexivity);
      cbn; try discriminate; try reflexivity.
    intros _. right. intros u pu _ Hu. split; [eapply nobody_spec in En1|eapply nobody_spec in En2]; eauto.
  - (* publish: services.read() *)
    inversion Hs; subst s'. eapply inv_set_pc; eauto; try (rewrite Hop; reflexivity);
      cbn; try discriminate; try reflexivity; auto.
    intros fd0 todo0 E. inversion E; subst. split; [apply (I_nodup _ HI)|]. split; [apply incl_refl|].
    intros y Hy.
    assert (Hm : existsb (N.eqb y) (svcs s) = true).
    { apply existsb_exists. exists y. split; [assumption|apply N.eqb_refl]. }
    rewrite Hm. apply (I_cons _ HI); [|assumption].
    intros u pu Hu. destruct (Nat.eq_dec u t) as [->|Hne].
    + unfold pcat in Hu. rewrite Hp in Hu. now inversion Hu.
    + destruct (Hother eq_refl u pu Hne Hu) as [E1 _]. destruct pu; cbn in *; congruence.
  - (* publish: loop body / store *)
    destruct todo as [|x todo].
    + (* last_data.replace *)
      inversion Hs; subst s'. clear Hs.
      destruct (I_locked _ HI t fd [] Hp) as (_ & _ & Hall).
      destruct HI as [Il It In_ Ie Ii Ia Ic Ik].
      constructor; unfold pcat, consistent in *; cbn [pcs svcs last evlog] in *.
      * now rewrite upd_length.
      * intros t0 p0 H0. upd_at H0 t0 t Hlt; [rewrite Hop; reflexivity|eauto].
      * assumption.
      * eapply excl_upd; eauto; cbn; auto; discriminate.
      * intros t0 y Hy H0. upd_at H0 t0 t Hlt. eauto.
      * intros t0 y Hy H0. upd_at H0 t0 t Hlt.
        destruct (Hother eq_refl t0 ARead ltac:(auto) H0) as [_ E]. discriminate.
      * intros _ y Hy. rewrite (Hall y Hy). reflexivity.
      * intros t0 fd0 todo0 H0. upd_at H0 t0 t Hlt.
        destruct (Hother eq_refl t0 _ ltac:(auto) H0) as [E _]. discriminate.
    + (* service.publish(&data) *)
      inversion Hs; subst s'. clear Hs.
      destruct (I_locked _ HI t fd (x :: todo) Hp) as (Hnd & Hincl & Hall).
      assert (Hx : In x (svcs s)) by (apply Hincl; cbn; auto).
      destruct HI as [Il It In_ Ie Ii Ia Ic Ik].
      constructor; unfold pcat, consistent in *; cbn [pcs svcs last evlog] in *.
      * now rewrite upd_length.
      * intros t0 p0 H0. upd_at H0 t0 t Hlt; [rewrite Hop; reflexivity|eauto].
      * assumption.
      * eapply excl_upd; eauto; cbn; auto; discriminate.
      * intros t0 y Hy H0. upd_at H0 t0 t Hlt.
        destruct (Ii t0 y Hy H0) as [E1 E2]. split; [assumption|].
        rewrite last_recv_cons_neq; [assumption|]. intros ->. contradiction.
      * intros t0 y Hy H0. upd_at H0 t0 t Hlt.
        destruct (Ia t0 y Hy H0) as [E1 E2]. split; [assumption|].
        rewrite last_recv_cons_neq; [assumption|]. intros ->. contradiction.
      * intros Hno. specialize (Hno t (PLocked fd todo)).
        rewrite nth_error_upd_eq in Hno by assumption. specialize (Hno eq_refl). discriminate.
      * intros t0 fd0 todo0 H0. upd_at H0 t0 t Hlt.
        -- inversion Hnd; subst. split; [assumption|]. split.
           { intros z Hz. apply Hincl. cbn; auto. }
           intros y Hy. destruct (N.eq_dec y x) as [->|Hne].
           ++ rewrite last_recv_cons_eq.
              assert (E : existsb (N.eqb x) todo0 = false) by now apply existsb_eqb_false.
              now rewrite E.
           ++ rewrite last_recv_cons_neq by auto. rewrite (Hall y Hy). cbn [existsb].
              destruct (N.eqb y x) eqn:E; [apply N.eqb_eq in E; contradiction|reflexivity].
        -- destruct (Hother eq_refl t0 _ ltac:(auto) H0) as [E _]. discriminate.
  - (* publish: drop services guard *)
    inversion Hs; subst s'. eapply inv_set_pc; eauto; try (rewrite Hop; reflexivity);
      cbn; try discriminate; try reflexivity; auto.
  - (* publish: drop last_data guard *)
    inversion Hs; subst s'. eapply inv_set_pc; eauto; try (rewrite Hop; reflexivity);
      cbn; try discriminate; try reflexivity; auto.
  - (* add: last_data.read() + publish to the new service *)
    destruct (nobody holdsLw s) eqn:En; [|discriminate].
    inversion Hs; subst s'. clear Hs.
    pose proof (nobody_spec _ _ En) as Hnw.
    destruct (I_idle _ HI t x Hop Hp) as [Hxs Hxl].
    destruct HI as [Il It In_ Ie Ii Ia Ic Ik].
    constructor; unfold pcat, consistent in *; cbn [pcs svcs last evlog] in *.
    + now rewrite upd_length.
    + intros t0 p0 H0. upd_at H0 t0 t Hlt; [rewrite Hop; reflexivity|eauto].
    + assumption.
    + eapply excl_upd; [exact Ie|exact Hp|cbn; discriminate|].
      cbn. intros _. right. intros u pu _ Hu. eauto.
    + intros t0 y Hy H0. upd_at H0 t0 t Hlt.
      destruct (Ii t0 y Hy H0) as [E1 E2]. split; [assumption|].
      rewrite last_recv_log_to_neq; [assumption|]. intros ->.
      pose proof (add_unique _ _ _ _ WF Hy Hop). contradiction.
    + intros t0 y Hy H0. upd_at H0 t0 t Hlt.
      * rewrite Hop in Hy. inversion Hy; subst y. split; [assumption|].
        destruct (last s) as [d|]; cbn [log_to]; [apply last_recv_cons_eq|assumption].
      * destruct (Ia t0 y Hy H0) as [E1 E2]. split; [assumption|].
        rewrite last_recv_log_to_neq; [assumption|]. intros ->.
        pose proof (add_unique _ _ _ _ WF Hy Hop). contradiction.
    + intros Hno y Hy. rewrite last_recv_log_to_neq by (intros ->; contradiction).
      apply Ic; [|assumption]. intros t0 p0 H0. destruct (Nat.eq_dec t0 t) as [->|Hne].
      * rewrite Hp in H0. now inversion H0.
      * apply (Hno t0). now rewrite nth_error_upd_neq by auto.
    + intros t0 fd0 todo0 H0. upd_at H0 t0 t Hlt.
      apply Hnw in H0. discriminate.
  - (* add: services.write().push(service) *)
    destruct (nobody holdsSr s) eqn:En; [|discriminate].
    inversion Hs; subst s'. clear Hs.
    pose proof (nobody_spec _ _ En) as Hns.
    destruct (I_aread _ HI t x Hop Hp) as [Hxs Hxl].
    destruct HI as [Il It In_ Ie Ii Ia Ic Ik].
    constructor; unfold pcat, consistent in *; cbn [pcs svcs last evlog] in *.
    + now rewrite upd_length.
    + intros t0 p0 H0. upd_at H0 t0 t Hlt; [rewrite Hop; reflexivity|eauto].
    + now apply nodup_snoc.
    + eapply excl_upd; eauto; cbn; auto; discriminate.
    + intros t0 y Hy H0. upd_at H0 t0 t Hlt.
      destruct (Ii t0 y Hy H0) as [E1 E2]. split; [|assumption].
      rewrite in_app_iff. cbn. intros [H|[H|[]]]; [contradiction|]. subst y.
      pose proof (add_unique _ _ _ _ WF Hy Hop). contradiction.
    + intros t0 y Hy H0. upd_at H0 t0 t Hlt.
      destruct (Ia t0 y Hy H0) as [E1 E2]. split; [|assumption].
      rewrite in_app_iff. cbn. intros [H|[H|[]]]; [contradiction|]. subst y.
      pose proof (add_unique _ _ _ _ WF Hy Hop). contradiction.
    + intros Hno y Hy. apply in_app_iff in Hy. cbn in Hy. destruct Hy as [Hy|[<-|[]]]; [|assumption].
      apply Ic; [|assumption]. intros t0 p0 H0. destruct (Nat.eq_dec t0 t) as [->|Hne].
      * rewrite Hp in H0. now inversion H0.
      * apply (Hno t0). now rewrite nth_error_upd_neq by auto.
    + intros t0 fd0 todo0 H0. upd_at H0 t0 t Hlt.
      apply Hns in H0. discriminate.
  - (* add: drop last_data guard *)
    inversion Hs; subst s'. eapply inv_set_pc; eauto; try (rewrite Hop; reflexivity);
      cbn; try discriminate; try reflexivity; auto.
  - (* clear *)
    destruct (nobody holdsSr s) eqn:En; [|discriminate].
    inversion Hs; subst s'. clear Hs.
    pose proof (nobody_spec _ _ En) as Hns.
    destruct HI as [Il It In_ Ie Ii Ia Ic Ik].
    constructor; unfold pcat, consistent in *; cbn [pcs svcs last evlog] in *.
    + now rewrite upd_length.
    + intros t0 p0 H0. upd_at H0 t0 t Hlt; [rewrite Hop; reflexivity|eauto].
    + constructor.
    + eapply excl_upd; eauto; cbn; discriminate.
    + intros t0 y Hy H0. upd_at H0 t0 t Hlt.
      destruct (Ii t0 y Hy H0) as [E1 E2]. split; [intros []|assumption].
    + intros t0 y Hy H0. upd_at H0 t0 t Hlt.
      destruct (Ia t0 y Hy H0) as [E1 E2]. split; [intros []|assumption].
    + intros _ y [].
    + intros t0 fd0 todo0 H0. upd_at H0 t0 t Hlt.
      apply Hns in H0. discriminate.
Qed.

Lemma init_pc t p : nth_error (pcs (init prog)) t = Some p -> p = Idle /\ (t < length prog)%nat.
Proof.
  cbn. intros H. pose proof (nth_error_lt _ _ _ H) as Hlt. rewrite map_length in Hlt.
  split; [|assumption].
  rewrite nth_error_map in H. destruct (nth_error prog t); cbn in H; congruence.
Qed.

Lemma init_inv : Inv (init prog).
Proof.
  constructor; unfold pcat.
  - cbn. apply map_length.
  - intros t p H. apply init_pc in H as [-> Hlt].
    destruct (nth_error prog t) as [o|] eqn:E; [destruct o; reflexivity|]. apply nth_error_None in E. lia.
  - constructor.
  - intros t u pt pu _ Ht _ Hw. apply init_pc in Ht as [-> _]. discriminate.
  - intros t x _ _. split; [intros []|reflexivity].
  - intros t x _ H. apply init_pc in H as [E _]. discriminate.
  - intros _ x [].
  - intros t fd todo H. apply init_pc in H as [E _]. discriminate.
Qed.

Theorem run_inv sched : forall s s', Inv s -> run (step f prog) s sched = Some s' -> Inv s'.
Proof.
  induction sched as [|t r IH]; intros s s' HI H; cbn in H.
  - now inversion H; subst.
  - destruct (step f prog s t) eqn:E; [|discriminate]. eapply IH; [|eassumption]. eapply step_inv; eauto.
Qed.

Lemma reachable_inv sched s : run (step f prog) (init prog) sched = Some s -> Inv s.
Proof. apply run_inv, init_inv. Qed.

(* Whenever no publish is inside its critical section, every registered service
   was most recently given exactly last_data. *)
Lemma inv_latest s : Inv s -> nobody holdsLw s = true -> consistent s.
Proof.
  intros HI Hn. apply (I_cons _ HI). intros t p Hp.
  pose proof (nobody_spec _ _ Hn t p Hp). destruct p; cbn in *; congruence.
Qed.

Lemma quiescent_nobody h s : (h Done = false) -> quiescent s = true -> nobody h s = true.
Proof.
  intros Hd Hq. unfold quiescent in Hq. rewrite forallb_forall in Hq.
  apply nobody_intro. intros t p Hp. apply nth_error_In in Hp. apply Hq in Hp.
  destruct p; cbn in Hp; try discriminate. assumption.
Qed.

(* deadlock freedom: in every reachable state that is not quiescent some call can take a step *)
Lemma find_not_done l : forallb is_done l = false -> exists t p, nth_error l t = Some p /\ p <> Done.
Proof.
  induction l as [|a l IH]; cbn; [discriminate|].
  destruct (is_done a) eqn:E; cbn.
  - intros H. destruct (IH H) as (t & p & Ht & Hp). exists (S t), p. auto.
  - intros _. exists O, a. split; [reflexivity|]. intros ->. discriminate.
Qed.

Lemma find_holder (h : pc -> bool) l : forallb (fun p => negb (h p)) l = false ->
  exists t p, nth_error l t = Some p /\ h p = true.
Proof.
  induction l as [|a l IH]; cbn; [discriminate|].
  destruct (h a) eqn:E; cbn.
  - intros _. exists O, a. auto.
  - intros H. destruct (IH H) as (t & p & Ht & Hp). exists (S t), p. auto.
Qed.

Theorem inv_progress s : Inv s -> quiescent s = false -> exists t s', step f prog s t = Some s'.
Proof.
  intros HI Hq.
  (* 1. somebody holds last_data for writing: that publish can always go on *)
  destruct (nobody holdsLw s) eqn:Ew.
  2:{ apply find_holder in Ew as (t & p & Hp & Hh). exists t.
      pose proof (I_typed _ HI t p Hp) as Hty. unfold step. rewrite Hp.
      destruct (nth_error prog t) as [[d|x|]|]; destruct p as [|fd|fd|fd [|y todo]| | | | |];
        cbn in Hh, Hty; try discriminate; eauto. }
  pose proof (nobody_spec _ _ Ew) as Hnw.
  assert (Ens : nobody holdsSr s = true).
  { apply nobody_intro. intros t p Hp. apply Hnw in Hp. destruct p; cbn in *; congruence. }
  (* 2. somebody holds it for reading: that add can always go on *)
  destruct (nobody holdsLr s) eqn:Er.
  2:{ apply find_holder in Er as (t & p & Hp & Hh). exists t.
      pose proof (I_typed _ HI t p Hp) as Hty. unfold step. rewrite Hp.
      destruct (nth_error prog t) as [[d|x|]|]; destruct p; cbn in Hh, Hty; try discriminate;
        rewrite ?Ens; eauto. }
  (* 3. nobody holds it: any unfinished call can take its next step *)
  unfold quiescent in Hq. apply find_not_done in Hq as (t & p & Hp & Hnd). exists t.
  pose proof (I_typed _ HI t p Hp) as Hty. pose proof (Hnw t p Hp) as Hw.
  pose proof (nobody_spec _ _ Er t p Hp) as Hr.
  unfold step. rewrite Hp.
  destruct (nth_error prog t) as [[d|x|]|]; destruct p; cbn in Hw, Hr, Hty; try discriminate;
    try congruence; rewrite ?Ew, ?Er, ?Ens; cbn; eauto.
Qed.

End Inv.

(* ---------- from observed events back to atomic steps ---------- *)
Lemma run_app stepf s l1 l2 s1 s2 :
  run stepf s l1 = Some s1 -> run stepf s1 l2 = Some s2 -> run stepf s (l1 ++ l2) = Some s2.
Proof.
  revert s; induction l1 as [|t r IH]; intros s H1 H2; cbn in *.
  - now inversion H1; subst.
  - destruct (stepf s t); [eauto|discriminate].
Qed.

Lemma adv_run stepf fuel : forall s t s' b, adv stepf fuel s t = (s', b) ->
  exists sched, run stepf s sched = Some s'.
Proof.
  induction fuel as [|k IH]; intros s t s' b H; cbn in H.
  - inversion H; subst. now exists [].
  - destruct (stepf s t) as [s1|] eqn:E.
    + destruct (stops (pc_of s1 t)).
      * inversion H; subst. exists [t]. cbn. now rewrite E.
      * apply IH in H as [sched Hs]. exists (t :: sched). cbn. now rewrite E.
    + inversion H; subst. now exists [].
Qed.

Lemma run_ev_run stepf evs : forall s s', run_ev stepf s evs = Some s' ->
  exists sched, run stepf s sched = Some s'.
Proof.
  induction evs as [|e r IH]; intros s s' H; cbn [run_ev] in H.
  - inversion H; subst. now exists [].
  - destruct e as [t|t].
    + destruct (adv stepf 4 s t) as [s1 b] eqn:E. destruct b; [|discriminate].
      apply adv_run in E as [l1 H1]. apply IH in H as [l2 H2]. exists (l1 ++ l2). eapply run_app; eauto.
    + destruct (is_done (pc_of s t)); [discriminate|].
      destruct (adv stepf 4 s t) as [s1 b] eqn:E. destruct b; [discriminate|].
      apply adv_run in E as [l1 H1]. apply IH in H as [l2 H2]. exists (l1 ++ l2). eapply run_app; eauto.
Qed.

(* ---------- the end-state theorems ---------- *)
Theorem lock_free_latest f prog sched s :
  wf prog = true ->
  run (step f prog) (init prog) sched = Some s ->
  nobody holdsLw s = true ->
  forall x, In x (svcs s) -> last_recv x (evlog s) = last s.
Proof.
  intros Hwf Hr Hn. apply nodupb_NoDup in Hwf.
  eapply inv_latest; [eapply reachable_inv; eauto|assumption].
Qed.

Theorem all_services_latest f prog sched s :
  wf prog = true ->
  run (step f prog) (init prog) sched = Some s ->
  quiescent s = true ->
  forall x, In x (svcs s) -> last_recv x (evlog s) = last s.
Proof.
  intros Hwf Hr Hq. eapply lock_free_latest; eauto. now apply quiescent_nobody.
Qed.

Theorem critical_sections_exclusive f prog sched s t u pt pu :
  wf prog = true ->
  run (step f prog) (init prog) sched = Some s ->
  t <> u -> nth_error (pcs s) t = Some pt -> nth_error (pcs s) u = Some pu ->
  holdsLw pt = true -> holdsLw pu = false /\ holdsLr pu = false.
Proof.
  intros Hwf Hr. apply nodupb_NoDup in Hwf.
  pose proof (reachable_inv f prog Hwf sched s Hr) as HI. apply (I_excl _ _ HI).
Qed.

Theorem no_deadlock f prog sched s :
  wf prog = true ->
  run (step f prog) (init prog) sched = Some s ->
  quiescent s = false ->
  exists t s', step f prog s t = Some s'.
Proof.
  intros Hwf Hr. apply nodupb_NoDup in Hwf.
  eapply inv_progress; eauto. eapply reachable_inv; eauto.
Qed.

Lemma all_latest_spec svs lst log :
  all_latest svs lst log = true <-> forall x, In x svs -> last_recv x log = lst.
Proof.
  unfold all_latest. rewrite forallb_forall. split; intros H x Hx; apply opt_data_eqb_iff; auto.
Qed.

(* the monitor is exactly the property on the observed end state *)
Theorem monitor_spec f prog evs log svs lst :
  wf prog = true ->
  (monitor (f, prog, evs) (Some (log, svs, lst)) = true <->
   forall x, In x svs -> last_recv x (rev log) = lst).
Proof. intros Hwf. unfold monitor. rewrite Hwf. cbn [negb]. apply all_latest_spec. Qed.

Theorem model_monitor : forall i, monitor i (model i) = true.
Proof.
  intros [[f prog] evs]. unfold monitor, model, model_with.
  destruct (wf prog) eqn:Hwf; [cbn [negb]|reflexivity].
  destruct (run_ev (step f prog) (init prog) evs) as [s|] eqn:Hr; [|reflexivity].
  destruct (quiescent s) eqn:Hq; [|reflexivity].
  unfold observe. rewrite rev_involutive. apply all_latest_spec.
  apply run_ev_run in Hr as [sched Hs]. eapply all_services_latest; eauto.
Qed.

(* ---------- the pinned code violates the property (witness schedules) ---------- *)
Definition d10 : data := (10, [(true, 1); (false, 1)]).
Definition d11 : data := (11, [(true, 2); (false, 2)]).
Definition d12 : data := (12, [(true, 3)]).

(* add(2) reads d10; publish(d11) runs completely; add pushes: service 2 is left with d10 *)
Theorem old_add_race :
  exists prog sched s, wf prog = true /\
    run (Old.step 0 prog) (init prog) sched = Some s /\ quiescent s = true /\
    all_latest (svcs s) (last s) (evlog s) = false.
Proof.
  exists [Add 1; Publish d10; Publish d11; Add 2],
         [0; 0; 1; 1; 1; 1; 1; 3; 2; 2; 2; 2; 2; 3]%nat.
  eexists. split; [reflexivity|]. split; [vm_compute; reflexivity|]. split; reflexivity.
Qed.

(* two publishes both hold the services read lock: service 1 ends with d12, last_data with d11 *)
Theorem old_publish_race :
  exists prog sched s, wf prog = true /\
    run (Old.step 0 prog) (init prog) sched = Some s /\ quiescent s = true /\
    all_latest (svcs s) (last s) (evlog s) = false.
Proof.
  exists [Add 1; Publish d11; Publish d12],
         [0; 0; 1; 1; 2; 2; 1; 2; 2; 2; 1; 1]%nat.
  eexists. split; [reflexivity|]. split; [vm_compute; reflexivity|]. split; reflexivity.
Qed.

(* the same two schedules are not schedules of the repaired code: the racing step is not enabled *)
Example new_add_race_blocked :
  run (step 0 [Add 1; Publish d10; Publish d11; Add 2])
      (init [Add 1; Publish d10; Publish d11; Add 2])
      [0; 0; 0; 1; 1; 1; 1; 1; 1; 1; 3; 2; 2]%nat = None.
Proof. vm_compute. reflexivity. Qed.

(* non-vacuity: a reachable quiescent state with two services, a publish having been
   overlapped by an add that had to wait *)
Example reachable_nontrivial :
  exists s, run (step 2 [Add 1; Publish d10; Publish d11; Add 2])
                (init [Add 1; Publish d10; Publish d11; Add 2])
                [0; 0; 0; 1; 1; 1; 1; 1; 1; 1; 3; 3; 3; 2; 2; 2; 2; 2; 2; 2; 2]%nat = Some s /\
            quiescent s = true /\ svcs s = [1; 2] /\ last s = Some (11, [(true, 2)]).
Proof. eexists. split; [vm_compute; reflexivity|]. repeat split. Qed.
