(* C10 — proofs about the relay frame codec model. *)
From V Require Import Lib.Base Lib.MachineInt Lib.Varint Model.C16 Model.C10.
From V Require Gen.Consts.
From Coq Require Import ZifyBool.
Import C10.
Open Scope N_scope.

(* ------------------------------------------------------------------ side conditions on constants *)
Lemma MAXP_pos : 0 < MAXP.
Proof. unfold MAXP, V.Gen.Consts.MAX_PACKET_SIZE. lia. Qed.

(* ------------------------------------------------------------------ lists *)
Lemma len_app {A} (a b : list A) : len (a ++ b) = len a + len b.
Proof. unfold len. rewrite app_length. lia. Qed.

Lemma len_cons {A} (x : A) (l : list A) : len (x :: l) = 1 + len l.
Proof. unfold len. cbn [length]. lia. Qed.

Lemma len_nil {A} : len (@nil A) = 0.
Proof. reflexivity. Qed.

Lemma firstn_len_app {A} (k r : list A) n : len k = n -> firstn (N.to_nat n) (k ++ r) = k.
Proof.
  intros <-. unfold len. rewrite Nat2N.id, firstn_app, Nat.sub_diag, firstn_all. cbn [firstn].
  apply app_nil_r.
Qed.

Lemma skipn_len_app {A} (k r : list A) n : len k = n -> skipn (N.to_nat n) (k ++ r) = r.
Proof.
  intros <-. unfold len. rewrite Nat2N.id, skipn_app, Nat.sub_diag, skipn_all. reflexivity.
Qed.

Lemma firstn_len_all {A} (k : list A) n : len k = n -> firstn (N.to_nat n) k = k.
Proof. intros <-. unfold len. rewrite Nat2N.id. apply firstn_all. Qed.

Lemma bytes_ok_app a b : bytes_ok (a ++ b) = bytes_ok a && bytes_ok b.
Proof. unfold bytes_ok, Varint.bytes_ok. apply forallb_app. Qed.

Lemma be_len n x : len (Varint.be_bytes n x) = N.of_nat n.
Proof. unfold len. now rewrite Varint.be_bytes_length. Qed.

(* ------------------------------------------------------------------ bind *)
Lemma bind_ok {A B} (x : res A) (f : A -> res B) a : x = Ok a -> bind x f = f a.
Proof. intros ->. reflexivity. Qed.

Lemma bind_no_panic {A B} (x : res A) (f : A -> res B) :
  x <> Panic -> (forall a, x = Ok a -> f a <> Panic) -> bind x f <> Panic.
Proof. destruct x as [a|e|]; cbn; intros H1 H2; [now apply H2|discriminate|congruence]. Qed.

(* ------------------------------------------------------------------ slices never panic under their guards *)
Lemma slice_to_ok b n : n <= len b -> slice_to b n = Ok (firstn (N.to_nat n) b).
Proof. intros H. unfold slice_to. destruct (N.leb_spec n (len b)); [reflexivity|lia]. Qed.

Lemma slice_from_ok b n : n <= len b -> slice_from b n = Ok (skipn (N.to_nat n) b).
Proof. intros H. unfold slice_from. destruct (N.leb_spec n (len b)); [reflexivity|lia]. Qed.

(* ------------------------------------------------------------------ frame type *)
Lemma ft_write_to_ok t : ft_write_to t = Ok [ft_code t].
Proof. destruct t; reflexivity. Qed.

Lemma ft_encoded_len_ok t : ft_encoded_len t = Ok 1.
Proof. destruct t; reflexivity. Qed.

Lemma ft_from_bytes_code t rest : ft_from_bytes (ft_code t :: rest) = Ok (t, rest).
Proof. destruct t; reflexivity. Qed.

Lemma ft_from_bytes_no_panic b : bytes_ok b = true -> ft_from_bytes b <> Panic.
Proof.
  intros H. unfold ft_from_bytes.
  pose proof (Varint.decode_no_panic b H) as Hd.
  destruct (Varint.decode b) as [[tag rest]|e|]; [|discriminate|congruence].
  destruct (tag <=? U32_MAX); [|discriminate].
  destruct (ft_from_repr tag); discriminate.
Qed.

(* the frame type consumes 1, 2, 4 or 8 bytes: whatever follows is what the decoders call `content` *)
Lemma ft_from_bytes_shape b t rest :
  ft_from_bytes b = Ok (t, rest) ->
  exists p, b = p ++ rest /\ (length p = 1 \/ length p = 2 \/ length p = 4 \/ length p = 8)%nat.
Proof.
  unfold ft_from_bytes. destruct (Varint.decode b) as [[tag r]|e|] eqn:E; try discriminate.
  destruct (tag <=? U32_MAX); [|discriminate].
  destruct (ft_from_repr tag); [|discriminate].
  intros [= _ <-]. now apply Varint.decode_shape in E.
Qed.

(* ------------------------------------------------------------------ encoders: shape and exact length *)
Lemma r2c_encoded_len_ok m : r2c_encoded_len m = Ok (1 + r2c_payload_len m).
Proof. unfold r2c_encoded_len. now rewrite ft_encoded_len_ok. Qed.

Lemma r2c_to_bytes_ok m : r2c_to_bytes m = Ok (ft_code (r2c_typ m) :: r2c_payload m).
Proof.
  unfold r2c_to_bytes. rewrite r2c_encoded_len_ok. cbn [bind].
  unfold r2c_write_to. now rewrite ft_write_to_ok.
Qed.

Lemma c2r_encoded_len_ok m : c2r_encoded_len m = Ok (1 + c2r_payload_len m).
Proof. unfold c2r_encoded_len. now rewrite ft_encoded_len_ok. Qed.

Lemma c2r_to_bytes_ok m : c2r_to_bytes m = Ok (ft_code (c2r_typ m) :: c2r_payload m).
Proof.
  unfold c2r_to_bytes. rewrite c2r_encoded_len_ok. cbn [bind].
  unfold c2r_write_to. now rewrite ft_write_to_ok.
Qed.

Lemma dg_len d : len (dg_write_to d) = dg_encoded_len d.
Proof.
  unfold dg_write_to, dg_encoded_len. rewrite !len_app.
  destruct (C16.seg d); [rewrite be_len|]; cbn [len length]; unfold len; cbn; lia.
Qed.

Lemma typed_key_len ip k : typed_key ip k = true -> len k = 32 /\ bytes_ok k = true /\ ip k = true.
Proof. unfold typed_key, KEY_LEN. intros H. repeat (apply andb_prop in H as [H ?]). repeat split; auto. lia. Qed.

Lemma typed_data8_len d : typed_data8 d = true -> len d = 8 /\ bytes_ok d = true.
Proof. unfold typed_data8. intros H. apply andb_prop in H as [H ?]. split; auto. lia. Qed.

Lemma r2c_payload_len_ok ip m : typed_r2c ip m = true -> len (r2c_payload m) = r2c_payload_len m.
Proof.
  destruct m as [k d|k|s|a b|d|d|p]; cbn [typed_r2c r2c_payload r2c_payload_len]; intros H.
  - apply andb_prop in H as [Hk _]. apply typed_key_len in Hk as (Hk & _). rewrite len_app, dg_len. lia.
  - now apply typed_key_len in H as (Hk & _).
  - reflexivity.
  - rewrite len_app, !be_len. reflexivity.
  - now apply typed_data8_len in H.
  - now apply typed_data8_len in H.
  - reflexivity.
Qed.

Lemma c2r_payload_len_ok ip m : typed_c2r ip m = true -> len (c2r_payload m) = c2r_payload_len m.
Proof.
  destruct m as [d|d|k d]; cbn [typed_c2r c2r_payload c2r_payload_len]; intros H.
  - now apply typed_data8_len in H.
  - now apply typed_data8_len in H.
  - apply andb_prop in H as [Hk _]. apply typed_key_len in Hk as (Hk & _). rewrite len_app, dg_len. lia.
Qed.

(* encoded_len is exact *)
Lemma r2c_encoded_len_exact ip m :
  typed_r2c ip m = true ->
  exists b l, r2c_to_bytes m = Ok b /\ r2c_encoded_len m = Ok l /\ len b = l.
Proof.
  intros H. eexists _, _. split; [apply r2c_to_bytes_ok|]. split; [apply r2c_encoded_len_ok|].
  rewrite len_cons. now rewrite (r2c_payload_len_ok ip).
Qed.

Lemma c2r_encoded_len_exact ip m :
  typed_c2r ip m = true ->
  exists b l, c2r_to_bytes m = Ok b /\ c2r_encoded_len m = Ok l /\ len b = l.
Proof.
  intros H. eexists _, _. split; [apply c2r_to_bytes_ok|]. split; [apply c2r_encoded_len_ok|].
  rewrite len_cons. now rewrite (c2r_payload_len_ok ip).
Qed.

(* the encoding of a typed message consists of bytes *)
Lemma typed_dg_bytes d : typed_dg d = true -> bytes_ok (dg_write_to d) = true.
Proof.
  unfold typed_dg, dg_write_to. intros H. apply andb_prop in H as [H Hc]. apply andb_prop in H as [He Hs].
  rewrite !bytes_ok_app, Hc, andb_true_r.
  apply andb_true_intro; split.
  - cbn. rewrite andb_true_r. lia.
  - destruct (C16.seg d); [apply Varint.be_bytes_ok|reflexivity].
Qed.

Lemma r2c_payload_bytes ip m : typed_r2c ip m = true -> bytes_ok (r2c_payload m) = true.
Proof.
  destruct m as [k d|k|s|a b|d|d|p]; cbn [typed_r2c r2c_payload]; intros H.
  - apply andb_prop in H as [Hk Hd]. apply typed_key_len in Hk as (_ & Hk & _).
    rewrite bytes_ok_app, Hk. now apply typed_dg_bytes.
  - now apply typed_key_len in H as (_ & Hk & _).
  - destruct s; try reflexivity. cbn. rewrite andb_true_r. exact H.
  - rewrite bytes_ok_app. unfold bytes_ok. now rewrite !Varint.be_bytes_ok.
  - now apply typed_data8_len in H.
  - now apply typed_data8_len in H.
  - now apply andb_prop in H as [H _].
Qed.

Lemma c2r_payload_bytes ip m : typed_c2r ip m = true -> bytes_ok (c2r_payload m) = true.
Proof.
  destruct m as [d|d|k d]; cbn [typed_c2r c2r_payload]; intros H.
  - now apply typed_data8_len in H.
  - now apply typed_data8_len in H.
  - apply andb_prop in H as [Hk Hd]. apply typed_key_len in Hk as (_ & Hk & _).
    rewrite bytes_ok_app, Hk. now apply typed_dg_bytes.
Qed.

(* ------------------------------------------------------------------ sub-codec round trips *)
Lemma be2_roundtrip s c : s <= U16_MAX -> get_u16 (Varint.be_bytes 2 s ++ c) = Ok (s, c).
Proof.
  unfold U16_MAX. intros H. cbn [Varint.be_bytes app get_u16]. f_equal. f_equal.
  change (256 ^ N.of_nat 1) with 256. change (256 ^ N.of_nat 0) with 1.
  rewrite N.div_1_r. rewrite (N.mod_small (s / 256)) by (apply N.div_lt_upper_bound; lia).
  pose proof (N.div_mod s 256 ltac:(lia)). lia.
Qed.

Lemma dg_roundtrip d :
  typed_dg d = true ->
  dg_from_bytes (dg_write_to d) (match C16.seg d with Some _ => true | None => false end) = Ok d.
Proof.
  destruct d as [e sg c]. unfold typed_dg, dg_write_to, dg_from_bytes. cbn [C16.ecn C16.seg C16.contents].
  intros H. apply andb_prop in H as [H _]. apply andb_prop in H as [He Hs].
  assert (Hem : e mod 4 = e) by (apply N.mod_small; lia).
  destruct sg as [s|].
  - assert (Hg : negb (3 <=? len ([e] ++ Varint.be_bytes 2 s ++ c)) = false).
    { rewrite !len_app, be_len, len_cons, len_nil. apply negb_false_iff, N.leb_le. lia. }
    rewrite Hg. cbn [app get_u8 bind]. rewrite be2_roundtrip by lia. cbn [bind]. rewrite Hem.
    destruct (N.eqb_spec s 0); [lia|reflexivity].
  - assert (Hg : negb (1 <=? len ([e] ++ [] ++ c)) = false).
    { rewrite !len_app, len_cons, len_nil. apply negb_false_iff, N.leb_le. lia. }
    rewrite Hg. cbn [app get_u8 bind]. now rewrite Hem.
Qed.

Lemma key_from_slice_ok ip k : len k = 32 -> ip k = true -> key_from_slice ip k = Ok k.
Proof. intros Hl Hp. unfold key_from_slice, KEY_LEN. rewrite Hl, Hp. reflexivity. Qed.

Lemma datagrams_frame_roundtrip ip k d :
  typed_key ip k = true -> typed_dg d = true ->
  datagrams_frame ip (k ++ dg_write_to d) (match C16.seg d with Some _ => true | None => false end)
  = Ok (k, d).
Proof.
  intros Hk Hd. apply typed_key_len in Hk as (Hl & _ & Hp).
  unfold datagrams_frame, KEY_LEN. rewrite len_app, Hl.
  destruct (N.leb_spec 32 (32 + len (dg_write_to d))) as [_|Hx]; [|lia]. cbn [negb].
  rewrite slice_to_ok by (rewrite len_app; lia). rewrite firstn_len_app by exact Hl. cbn [bind].
  rewrite key_from_slice_ok by assumption. cbn [bind].
  rewrite slice_from_ok by (rewrite len_app; lia). rewrite skipn_len_app by exact Hl. cbn [bind].
  rewrite dg_roundtrip by exact Hd. reflexivity.
Qed.

Lemma ping_data_roundtrip d : typed_data8 d = true -> ping_data d = Ok d.
Proof.
  intros H. apply typed_data8_len in H as (Hl & _). unfold ping_data. rewrite Hl. cbn [N.eqb negb].
  change (negb (8 =? 8)) with false. cbv iota.
  rewrite slice_to_ok by lia. now rewrite firstn_len_all.
Qed.

Lemma status_roundtrip s : status_from_bytes (status_write_to s) = Ok (norm_status s).
Proof.
  destruct s; reflexivity.
Qed.

Lemma millis_u32_lt ns : millis_u32 ns < 4294967296.
Proof. unfold millis_u32, u32_trunc. apply N.mod_lt. discriminate. Qed.

Lemma restarting_roundtrip ip v a b :
  r2c_from_bytes ip v (ft_code Restarting :: r2c_payload (RRestarting a b)) =
  if 8 <=? MAXP then Ok (norm_r2c (RRestarting a b)) else Err E_TOO_LARGE.
Proof.
  unfold r2c_from_bytes. rewrite ft_from_bytes_code. cbn [bind r2c_payload].
  set (x := millis_u32 a). set (y := millis_u32 b).
  rewrite len_app, !be_len. change (N.of_nat 4 + N.of_nat 4) with 8.
  destruct (8 <=? MAXP); [|reflexivity]. cbn [negb].
  change (negb (8 =? 4 + 4)) with false. cbv iota.
  rewrite slice_to_ok by (rewrite len_app, !be_len; lia).
  rewrite firstn_len_app by apply be_len. cbn [bind]. rewrite be_len.
  change (negb (N.of_nat 4 =? 4)) with false. cbv iota.
  rewrite slice_from_ok by (rewrite len_app, !be_len; lia).
  rewrite skipn_len_app by apply be_len. cbn [bind]. rewrite be_len.
  change (negb (N.of_nat 4 =? 4)) with false. cbv iota.
  rewrite !Varint.be_val_be_bytes by (change (256 ^ N.of_nat 4) with 4294967296; apply millis_u32_lt).
  reflexivity.
Qed.

(* ------------------------------------------------------------------ decode (encode m): complete characterisation *)
Lemma r2c_decode_encode ip v m :
  typed_r2c ip m = true ->
  r2c_from_bytes ip v (ft_code (r2c_typ m) :: r2c_payload m) =
  if r2c_payload_len m <=? MAXP then
    if version_ok v m then Ok (norm_r2c m) else Err E_VERSION
  else Err E_TOO_LARGE.
Proof.
  intros Ht. pose proof (r2c_payload_len_ok ip m Ht) as Hlen.
  destruct m as [k d|k|s|a b|d|d|p].
  - (* Datagrams *)
    cbn [typed_r2c] in Ht. apply andb_prop in Ht as [Hk Hd].
    unfold r2c_from_bytes. rewrite ft_from_bytes_code. cbn [bind]. rewrite Hlen.
    destruct (r2c_payload_len (RDatagrams k d) <=? MAXP); [|reflexivity]. cbn [negb version_ok norm_r2c].
    pose proof (datagrams_frame_roundtrip ip k d Hk Hd) as Hf.
    cbn [r2c_typ r2c_payload]. destruct (C16.seg d); cbn [r2c_typ]; cbv iota;
      match goal with |- context [ft_eqb ?a ?b] => change (ft_eqb a b) with true || change (ft_eqb a b) with false end;
      rewrite Hf; reflexivity.
  - (* EndpointGone *)
    cbn [typed_r2c] in Ht. apply typed_key_len in Ht as (Hl & _ & Hp).
    unfold r2c_from_bytes. rewrite ft_from_bytes_code. cbn [bind]. rewrite Hlen.
    destruct (r2c_payload_len (REndpointGone k) <=? MAXP); [|reflexivity].
    cbn [negb version_ok norm_r2c r2c_typ r2c_payload r2c_payload_len]. unfold KEY_LEN.
    change (negb (32 =? 32)) with false. cbv iota.
    rewrite key_from_slice_ok by assumption. reflexivity.
  - (* Status *)
    unfold r2c_from_bytes. rewrite ft_from_bytes_code. cbn [bind]. rewrite Hlen.
    destruct (r2c_payload_len (RStatus s) <=? MAXP); [|reflexivity].
    cbn [negb version_ok norm_r2c r2c_typ r2c_payload].
    destruct (PV_V2 <=? v); [|reflexivity]. cbn [negb]. rewrite status_roundtrip. reflexivity.
  - (* Restarting *)
    cbn [r2c_typ]. rewrite restarting_roundtrip. reflexivity.
  - (* Ping *)
    cbn [typed_r2c] in Ht.
    unfold r2c_from_bytes. rewrite ft_from_bytes_code. cbn [bind]. rewrite Hlen.
    destruct (r2c_payload_len (RPing d) <=? MAXP); [|reflexivity].
    cbn [negb version_ok norm_r2c r2c_typ r2c_payload].
    rewrite ping_data_roundtrip by exact Ht. reflexivity.
  - (* Pong *)
    cbn [typed_r2c] in Ht.
    unfold r2c_from_bytes. rewrite ft_from_bytes_code. cbn [bind]. rewrite Hlen.
    destruct (r2c_payload_len (RPong d) <=? MAXP); [|reflexivity].
    cbn [negb version_ok norm_r2c r2c_typ r2c_payload].
    rewrite ping_data_roundtrip by exact Ht. reflexivity.
  - (* Health *)
    cbn [typed_r2c] in Ht. apply andb_prop in Ht as [_ Hu].
    unfold r2c_from_bytes. rewrite ft_from_bytes_code. cbn [bind]. rewrite Hlen.
    destruct (r2c_payload_len (RHealth p) <=? MAXP); [|reflexivity].
    cbn [negb version_ok norm_r2c r2c_typ r2c_payload].
    destruct (v =? PV_V1); [|reflexivity]. cbn [negb]. now rewrite Hu.
Qed.

Lemma c2r_decode_encode ip m :
  typed_c2r ip m = true ->
  c2r_from_bytes ip (ft_code (c2r_typ m) :: c2r_payload m) =
  if c2r_payload_len m <=? MAXP then Ok m else Err E_TOO_LARGE.
Proof.
  intros Ht. pose proof (c2r_payload_len_ok ip m Ht) as Hlen.
  destruct m as [d|d|k d].
  - cbn [typed_c2r] in Ht.
    unfold c2r_from_bytes. rewrite ft_from_bytes_code. cbn [bind]. rewrite Hlen.
    destruct (c2r_payload_len (CPing d) <=? MAXP); [|reflexivity].
    cbn [negb c2r_typ c2r_payload].
    rewrite ping_data_roundtrip by exact Ht. reflexivity.
  - cbn [typed_c2r] in Ht.
    unfold c2r_from_bytes. rewrite ft_from_bytes_code. cbn [bind]. rewrite Hlen.
    destruct (c2r_payload_len (CPong d) <=? MAXP); [|reflexivity].
    cbn [negb c2r_typ c2r_payload].
    rewrite ping_data_roundtrip by exact Ht. reflexivity.
  - cbn [typed_c2r] in Ht. apply andb_prop in Ht as [Hk Hd].
    unfold c2r_from_bytes. rewrite ft_from_bytes_code. cbn [bind]. rewrite Hlen.
    destruct (c2r_payload_len (CDatagrams k d) <=? MAXP); [|reflexivity]. cbn [negb].
    pose proof (datagrams_frame_roundtrip ip k d Hk Hd) as Hf.
    cbn [c2r_typ c2r_payload]. destruct (C16.seg d); cbn [c2r_typ]; cbv iota;
      match goal with |- context [ft_eqb ?a ?b] => change (ft_eqb a b) with true || change (ft_eqb a b) with false end;
      rewrite Hf; reflexivity.
Qed.

(* ------------------------------------------------------------------ wf messages are fixed points of norm *)
Lemma whole_ms_norm a : whole_ms a = true -> millis_u32 a * NS_PER_MS = a.
Proof.
  unfold whole_ms, millis_u32, u32_trunc, U32_MAX, NS_PER_MS. intros H.
  apply andb_prop in H as [Hm Hd].
  rewrite N.mod_small by lia.
  pose proof (N.div_mod a 1000000 ltac:(lia)). lia.
Qed.

Lemma wf_norm ip v m : wf_r2c ip v m = true -> norm_r2c m = m.
Proof.
  unfold wf_r2c. intros H. apply andb_prop in H as [_ H].
  destruct m as [k d|k|s|a b|d|d|p]; try reflexivity.
  - destruct s as [| | |n]; try reflexivity. cbn [norm_r2c norm_status].
    destruct n as [|[[?|?|]|[?|?|]|]]; try reflexivity; lia.
  - apply andb_prop in H as [Ha Hb]. cbn [norm_r2c]. now rewrite !whole_ms_norm.
Qed.

(* ------------------------------------------------------------------ the property theorems (Proofs side) *)

(* Round trip, relay -> client *)
Lemma r2c_roundtrip ip v m :
  wf_r2c ip v m = true ->
  exists b, r2c_to_bytes m = Ok b /\ r2c_from_bytes ip v b = Ok m.
Proof.
  intros Hwf. pose proof (wf_norm ip v m Hwf) as Hn.
  unfold wf_r2c in Hwf. apply andb_prop in Hwf as [Hwf _]. apply andb_prop in Hwf as [Hwf Hsz].
  apply andb_prop in Hwf as [Ht Hv].
  eexists. split; [apply r2c_to_bytes_ok|].
  rewrite (r2c_decode_encode ip v m Ht), Hsz, Hv, Hn. reflexivity.
Qed.

(* Round trip, client -> relay *)
Lemma c2r_roundtrip ip m :
  wf_c2r ip m = true ->
  exists b, c2r_to_bytes m = Ok b /\ c2r_from_bytes ip b = Ok m.
Proof.
  unfold wf_c2r. intros Hwf. apply andb_prop in Hwf as [Ht Hsz].
  eexists. split; [apply c2r_to_bytes_ok|].
  rewrite (c2r_decode_encode ip m Ht), Hsz. reflexivity.
Qed.

(* Version gate on encodings: a typed frame of the other version is rejected *)
Lemma version_gate_encoded ip v m :
  typed_r2c ip m = true -> r2c_payload_len m <= MAXP -> version_ok v m = false ->
  exists b, r2c_to_bytes m = Ok b /\ r2c_from_bytes ip v b = Err E_VERSION.
Proof.
  intros Ht Hsz Hv. eexists. split; [apply r2c_to_bytes_ok|].
  rewrite (r2c_decode_encode ip v m Ht), Hv.
  destruct (N.leb_spec (r2c_payload_len m) MAXP); [reflexivity|lia].
Qed.

(* Version gate on arbitrary bytes: Health only comes out under V1, Status only from V2 on *)
Ltac bind_inv H a :=
  match type of H with
  | bind ?x _ = Ok _ => destruct x as [a| |] eqn:?; cbn [bind] in H; try discriminate H
  end.

Lemma version_gate_decoded ip v b m :
  r2c_from_bytes ip v b = Ok m ->
  match m with RHealth _ => v = PV_V1 | RStatus _ => PV_V2 <= v | _ => True end.
Proof.
  unfold r2c_from_bytes. intros H. bind_inv H p. destruct p as [ft content].
  destruct (negb (len content <=? MAXP)); [discriminate|].
  destruct ft; try discriminate H.
  - bind_inv H q. destruct q. now inversion H.
  - bind_inv H q. destruct q. now inversion H.
  - destruct (negb (len content =? KEY_LEN)); [discriminate|]. bind_inv H q. now inversion H.
  - bind_inv H q. now inversion H.
  - bind_inv H q. now inversion H.
  - destruct (N.eqb_spec v PV_V1) as [->|]; cbn [negb] in H; [|discriminate].
    destruct (utf8_valid content); inversion H. reflexivity.
  - destruct (negb (len content =? 4 + 4)); [discriminate|]. bind_inv H x.
    destruct (negb (len x =? 4)); [discriminate|]. bind_inv H y.
    destruct (negb (len y =? 4)); [discriminate|]. now inversion H.
  - destruct (N.leb_spec PV_V2 v); cbn [negb] in H; [|discriminate].
    bind_inv H q. now inversion H.
Qed.

(* ------------------------------------------------------------------ totality *)
Lemma dg_from_bytes_no_panic b is_batch : dg_from_bytes b is_batch <> Panic.
Proof.
  unfold dg_from_bytes. destruct is_batch.
  - destruct (N.leb_spec 3 (len b)) as [H|H]; cbn [negb]; [|discriminate].
    destruct b as [|x [|y [|z r]]]; cbn [len length] in H; try (unfold len in H; cbn in H; lia).
    cbn. discriminate.
  - destruct (N.leb_spec 1 (len b)) as [H|H]; cbn [negb]; [|discriminate].
    destruct b as [|x r]; [unfold len in H; cbn in H; lia|]. cbn. discriminate.
Qed.

Lemma key_from_slice_no_panic ip s : key_from_slice ip s <> Panic.
Proof. unfold key_from_slice. destruct (_ && _); discriminate. Qed.

Lemma datagrams_frame_no_panic ip content is_batch : datagrams_frame ip content is_batch <> Panic.
Proof.
  unfold datagrams_frame. destruct (N.leb_spec KEY_LEN (len content)) as [H|H]; cbn [negb]; [|discriminate].
  rewrite slice_to_ok by exact H. cbn [bind].
  apply bind_no_panic; [apply key_from_slice_no_panic|]. intros key _.
  rewrite slice_from_ok by exact H. cbn [bind].
  apply bind_no_panic; [apply dg_from_bytes_no_panic|]. discriminate.
Qed.

Lemma ping_data_no_panic content : ping_data content <> Panic.
Proof.
  unfold ping_data. destruct (N.eqb_spec (len content) 8) as [H|H]; cbn [negb]; [|discriminate].
  rewrite slice_to_ok by lia. discriminate.
Qed.

Lemma status_from_bytes_no_panic b : status_from_bytes b <> Panic.
Proof. unfold status_from_bytes. destruct b; cbn; discriminate. Qed.

Lemma r2c_from_bytes_total ip v b : bytes_ok b = true -> r2c_from_bytes ip v b <> Panic.
Proof.
  intros Hb. unfold r2c_from_bytes.
  apply bind_no_panic; [now apply ft_from_bytes_no_panic|]. intros [ft content] _.
  destruct (negb (len content <=? MAXP)); [discriminate|].
  destruct ft; try discriminate.
  - apply bind_no_panic; [apply datagrams_frame_no_panic|]. intros [? ?] _. discriminate.
  - apply bind_no_panic; [apply datagrams_frame_no_panic|]. intros [? ?] _. discriminate.
  - destruct (negb (len content =? KEY_LEN)); [discriminate|].
    apply bind_no_panic; [apply key_from_slice_no_panic|]. discriminate.
  - apply bind_no_panic; [apply ping_data_no_panic|]. discriminate.
  - apply bind_no_panic; [apply ping_data_no_panic|]. discriminate.
  - destruct (negb (v =? PV_V1)); [discriminate|]. destruct (utf8_valid content); discriminate.
  - destruct (N.eqb_spec (len content) (4 + 4)) as [H|H]; cbn [negb]; [|discriminate].
    rewrite slice_to_ok by lia. cbn [bind].
    destruct (negb (len (firstn (N.to_nat 4) content) =? 4)); [discriminate|].
    rewrite slice_from_ok by lia. cbn [bind].
    destruct (negb (len (skipn (N.to_nat 4) content) =? 4)); discriminate.
  - destruct (negb (PV_V2 <=? v)); [discriminate|].
    apply bind_no_panic; [apply status_from_bytes_no_panic|]. discriminate.
Qed.

Lemma c2r_from_bytes_total ip b : bytes_ok b = true -> c2r_from_bytes ip b <> Panic.
Proof.
  intros Hb. unfold c2r_from_bytes.
  apply bind_no_panic; [now apply ft_from_bytes_no_panic|]. intros [ft content] _.
  destruct (negb (len content <=? MAXP)); [discriminate|].
  destruct ft; try discriminate.
  - apply bind_no_panic; [apply datagrams_frame_no_panic|]. intros [? ?] _. discriminate.
  - apply bind_no_panic; [apply datagrams_frame_no_panic|]. intros [? ?] _. discriminate.
  - apply bind_no_panic; [apply ping_data_no_panic|]. discriminate.
  - apply bind_no_panic; [apply ping_data_no_panic|]. discriminate.
Qed.

(* ------------------------------------------------------------------ sender's sink accepts => receiver's decoder accepts *)
Lemma c2r_sink_inv m b :
  c2r_sink m = Ok b -> 1 + c2r_payload_len m <= MAXP /\ b = ft_code (c2r_typ m) :: c2r_payload m.
Proof.
  unfold c2r_sink. rewrite c2r_encoded_len_ok. cbn [bind].
  destruct (N.leb_spec (1 + c2r_payload_len m) MAXP) as [H|H]; cbn [negb]; [|discriminate].
  destruct (match m with CDatagrams _ d => is_empty (C16.contents d) | _ => false end); [discriminate|].
  rewrite c2r_to_bytes_ok. intros [= <-]. auto.
Qed.

Lemma r2c_sink_inv m b :
  r2c_sink m = Ok b -> 1 + r2c_payload_len m <= MAXP /\ b = ft_code (r2c_typ m) :: r2c_payload m.
Proof.
  unfold r2c_sink. rewrite r2c_encoded_len_ok. cbn [bind].
  destruct (N.leb_spec (1 + r2c_payload_len m) MAXP) as [H|H]; cbn [negb]; [|discriminate].
  destruct (match m with RDatagrams _ d => is_empty (C16.contents d) | _ => false end); [discriminate|].
  rewrite r2c_to_bytes_ok. intros [= <-]. auto.
Qed.

(* client sink -> server decoder *)
Lemma client_sink_server_decoder ip m b :
  typed_c2r ip m = true -> c2r_sink m = Ok b -> c2r_from_bytes ip b = Ok m.
Proof.
  intros Ht Hs. apply c2r_sink_inv in Hs as [Hsz ->].
  rewrite (c2r_decode_encode ip m Ht).
  destruct (N.leb_spec (c2r_payload_len m) MAXP); [reflexivity|lia].
Qed.

(* server sink -> client decoder (of the negotiated version) *)
Lemma server_sink_client_decoder ip v m b :
  typed_r2c ip m = true -> version_ok v m = true -> r2c_sink m = Ok b ->
  r2c_from_bytes ip v b = Ok (norm_r2c m).
Proof.
  intros Ht Hv Hs. apply r2c_sink_inv in Hs as [Hsz ->].
  rewrite (r2c_decode_encode ip v m Ht), Hv.
  destruct (N.leb_spec (r2c_payload_len m) MAXP); [reflexivity|lia].
Qed.

(* The decoders accept one byte more than the sinks send (frame_len excludes the type byte,
   encoded_len includes it): C10 does not demand the converse, C05 is about its consequences. *)
Lemma decoder_accepts_more_than_sink :
  exists ip m, typed_c2r ip m = true /\ c2r_sink m = Err S_TOO_LARGE /\
    exists b, c2r_to_bytes m = Ok b /\ c2r_from_bytes ip b = Ok m.
Proof.
  set (k := repeat 0 32). set (c := repeat 0 (N.to_nat (MAXP - 33))).
  exists (fun _ => true), (CDatagrams k (C16.mkDg 0 None c)).
  assert (Hc : len c = MAXP - 33) by (unfold c, len; rewrite repeat_length; lia).
  assert (Hbc : bytes_ok c = true).
  { unfold c. generalize (N.to_nat (MAXP - 33)). induction n; cbn; auto. }
  assert (Ht : typed_c2r (fun _ => true) (CDatagrams k (C16.mkDg 0 None c)) = true).
  { cbn [typed_c2r]. apply andb_true_intro; split; [reflexivity|].
    unfold typed_dg. cbn [C16.ecn C16.seg C16.contents]. now rewrite Hbc. }
  assert (Hp : c2r_payload_len (CDatagrams k (C16.mkDg 0 None c)) = MAXP).
  { cbn [c2r_payload_len]. unfold dg_encoded_len. cbn [C16.seg C16.contents]. rewrite Hc.
    pose proof MAXP_pos. unfold MAXP, V.Gen.Consts.MAX_PACKET_SIZE in *. lia. }
  split; [exact Ht|]. split.
  - unfold c2r_sink. rewrite c2r_encoded_len_ok, Hp. cbn [bind].
    destruct (N.leb_spec (1 + MAXP) MAXP); [lia|reflexivity].
  - eexists. split; [apply c2r_to_bytes_ok|].
    rewrite (c2r_decode_encode _ _ Ht), Hp, N.leb_refl. reflexivity.
Qed.

(* ------------------------------------------------------------------ observation (digest) lemmas *)
Lemma digest_len_digest b : digest_len (digest b) = len b.
Proof.
  unfold digest, digest_len.
  destruct (N.leb_spec (len b) 64) as [H|H].
  - destruct (N.leb_spec (len b) 64); [reflexivity|lia].
  - assert (Hf : length (firstn 64 b) = 64%nat) by (apply firstn_length_le; unfold len in H; lia).
    rewrite len_app. unfold len at 1 2. rewrite Hf. cbn [length].
    destruct (N.leb_spec (N.of_nat 64 + N.of_nat 2) 64); [lia|].
    rewrite app_nth2 by lia. rewrite Hf. reflexivity.
Qed.

Lemma dg_eqb_refl d : C16.dg_eqb d d = true.
Proof. unfold C16.dg_eqb. rewrite N.eqb_refl, bytes_eqb_refl. destruct (C16.seg d); cbn; [now rewrite N.eqb_refl|reflexivity]. Qed.

Lemma status_eqb_refl s : status_eqb s s = true.
Proof. destruct s; cbn; auto. apply N.eqb_refl. Qed.

Lemma r2c_eqb_refl m : r2c_eqb m m = true.
Proof.
  destruct m; cbn [r2c_eqb]; rewrite ?bytes_eqb_refl, ?dg_eqb_refl, ?status_eqb_refl, ?N.eqb_refl; reflexivity.
Qed.

Lemma c2r_eqb_refl m : c2r_eqb m m = true.
Proof. destruct m; cbn [c2r_eqb]; rewrite ?bytes_eqb_refl, ?dg_eqb_refl; reflexivity. Qed.

(* ------------------------------------------------------------------ the model's own output satisfies the monitor *)
Lemma enc_monitor_model {M} (wf sendable : bool) (m nm : M) (obs : M -> M) (meqb : M -> M -> bool)
    (pl : N) (enc : bytes) (sink : res bytes) (dec : res M) :
  (forall x, meqb x x = true) ->
  len enc = 1 + pl ->
  (sink = Ok enc /\ 1 + pl <= MAXP) \/ (exists e, sink = Err e) ->
  (dec = if pl <=? MAXP then (if sendable then Ok nm else Err E_VERSION) else Err E_TOO_LARGE) ->
  (wf = true -> sendable = true /\ pl <= MAXP /\ nm = m) ->
  enc_monitor wf sendable (obs m) meqb (Ok (1 + pl)) (Ok (digest enc)) (rmap digest sink) (rmap obs dec) = true.
Proof.
  intros Hrefl Hlen Hsink Hdec Hwf. unfold enc_monitor.
  assert (Hnp : is_panic (rmap obs dec) = false).
  { rewrite Hdec. destruct (pl <=? MAXP); [destruct sendable|]; reflexivity. }
  assert (Hsp : is_panic (rmap digest sink) = false).
  { destruct Hsink as [[-> _]|[e ->]]; reflexivity. }
  rewrite Hnp, Hsp. cbn [is_panic negb andb].
  rewrite digest_len_digest, Hlen, N.eqb_refl. cbn [andb].
  assert (H3 : match rmap digest sink with Ok s => res_eqb bytes_eqb (Ok s) (Ok (digest enc)) | _ => true end = true).
  { destruct Hsink as [[-> _]|[e ->]]; cbn; [apply bytes_eqb_refl|reflexivity]. }
  rewrite H3. cbn [andb].
  assert (H4 : (if wf then res_eqb meqb (rmap obs dec) (Ok (obs m)) else true) = true).
  { destruct wf; [|reflexivity]. destruct (Hwf eq_refl) as (Hs & Hp & ->).
    rewrite Hdec, Hs. destruct (N.leb_spec pl MAXP); [|lia]. cbn. apply Hrefl. }
  rewrite H4. cbn [andb].
  destruct Hsink as [[-> Hsz]|[e ->]]; cbn [rmap is_ok andb]; [|reflexivity].
  destruct sendable; [|reflexivity].
  rewrite Hdec. destruct (N.leb_spec pl MAXP); [reflexivity|lia].
Qed.

Lemma r2c_sink_cases m :
  (r2c_sink m = Ok (ft_code (r2c_typ m) :: r2c_payload m) /\ 1 + r2c_payload_len m <= MAXP) \/
  (exists e, r2c_sink m = Err e).
Proof.
  unfold r2c_sink. rewrite r2c_encoded_len_ok. cbn [bind].
  destruct (N.leb_spec (1 + r2c_payload_len m) MAXP) as [H|H]; cbn [negb]; [|right; eauto].
  destruct (match m with RDatagrams _ d => is_empty (C16.contents d) | _ => false end); [right; eauto|].
  left. now rewrite r2c_to_bytes_ok.
Qed.

Lemma c2r_sink_cases m :
  (c2r_sink m = Ok (ft_code (c2r_typ m) :: c2r_payload m) /\ 1 + c2r_payload_len m <= MAXP) \/
  (exists e, c2r_sink m = Err e).
Proof.
  unfold c2r_sink. rewrite c2r_encoded_len_ok. cbn [bind].
  destruct (N.leb_spec (1 + c2r_payload_len m) MAXP) as [H|H]; cbn [negb]; [|right; eauto].
  destruct (match m with CDatagrams _ d => is_empty (C16.contents d) | _ => false end); [right; eauto|].
  left. now rewrite c2r_to_bytes_ok.
Qed.

Lemma model_monitor i : monitor i (model i) = true.
Proof.
  destruct i as [v m|m|v valid b|valid b|].
  - (* IEncR *)
    cbn [model monitor]. set (ip := is_point_of (r2c_keys m)).
    destruct (typed_r2c ip m) eqn:Ht; [|reflexivity]. cbn [negb].
    rewrite r2c_to_bytes_ok, r2c_encoded_len_ok. cbn [rmap bind].
    rewrite (r2c_decode_encode ip v m Ht).
    apply andb_true_intro; split.
    + apply (enc_monitor_model _ _ m (norm_r2c m) obs_r2c r2c_eqb (r2c_payload_len m)).
      * apply r2c_eqb_refl.
      * rewrite len_cons. now rewrite (r2c_payload_len_ok ip).
      * apply r2c_sink_cases.
      * reflexivity.
      * intros Hwf. pose proof (wf_norm ip v m Hwf) as Hn. unfold wf_r2c in Hwf.
        apply andb_prop in Hwf as [Hwf _]. apply andb_prop in Hwf as [Hwf Hsz].
        apply andb_prop in Hwf as [_ Hv]. repeat split; auto. lia.
    + destruct (version_ok v m); cbn [negb andb]; [reflexivity|].
      destruct (r2c_payload_len m <=? MAXP); reflexivity.
  - (* IEncC *)
    cbn [model monitor]. set (ip := is_point_of (c2r_keys m)).
    destruct (typed_c2r ip m) eqn:Ht; [|reflexivity]. cbn [negb].
    rewrite c2r_to_bytes_ok, c2r_encoded_len_ok. cbn [rmap bind].
    rewrite (c2r_decode_encode ip m Ht).
    apply (enc_monitor_model _ true m m obs_c2r c2r_eqb (c2r_payload_len m)).
    + apply c2r_eqb_refl.
    + rewrite len_cons. now rewrite (c2r_payload_len_ok ip).
    + apply c2r_sink_cases.
    + reflexivity.
    + unfold wf_c2r. intros Hwf. apply andb_prop in Hwf as [_ Hsz]. repeat split; auto. lia.
  - (* IDecR *)
    cbn [model monitor]. apply andb_true_intro; split.
    + destruct (bytes_ok b) eqn:Hb; [|reflexivity].
      pose proof (r2c_from_bytes_total (is_point_of valid) v b Hb).
      destruct (r2c_from_bytes (is_point_of valid) v b); cbn; congruence.
    + destruct (r2c_from_bytes (is_point_of valid) v b) as [m| |] eqn:E; cbn [rmap]; try reflexivity.
      pose proof (version_gate_decoded _ _ _ _ E) as Hg.
      destruct m; cbn [obs_r2c]; try reflexivity; [lia|subst v; apply N.eqb_refl].
  - (* IDecC *)
    cbn [model monitor].
    destruct (bytes_ok b) eqn:Hb; [|reflexivity].
    pose proof (c2r_from_bytes_total (is_point_of valid) b Hb).
    destruct (c2r_from_bytes (is_point_of valid) b); cbn; congruence.
  - cbn [model monitor]. apply list_eqb_refl, N.eqb_refl.
Qed.

(* ------------------------------------------------------------------ the monitor in readable form (decoder cases) *)
Lemma monitor_dec_r_spec v valid b r :
  monitor (IDecR v valid b) (ODecR r) = true <->
  (bytes_ok b = true -> r <> Panic) /\
  (forall p, r = Ok (RHealth p) -> v = PV_V1) /\
  (forall s, r = Ok (RStatus s) -> PV_V2 <= v).
Proof.
  cbn [monitor]. rewrite andb_true_iff. split.
  - intros [H1 H2]. repeat split.
    + intros Hb. rewrite Hb in H1. destruct r; cbn in H1; congruence.
    + intros p ->. lia.
    + intros s ->. lia.
  - intros (H1 & H2 & H3). split.
    + destruct (bytes_ok b); [|reflexivity]. specialize (H1 eq_refl). destruct r; cbn; congruence.
    + destruct r as [m| |]; try reflexivity. destruct m; try reflexivity.
      * specialize (H3 _ eq_refl). lia.
      * rewrite (H2 _ eq_refl). apply N.eqb_refl.
Qed.

Lemma monitor_dec_c_spec valid b r :
  monitor (IDecC valid b) (ODecC r) = true <-> (bytes_ok b = true -> r <> Panic).
Proof.
  cbn [monitor]. split.
  - intros H Hb. rewrite Hb in H. destruct r; cbn in H; congruence.
  - intros H. destruct (bytes_ok b); [|reflexivity]. specialize (H eq_refl). destruct r; cbn; congruence.
Qed.

(* ------------------------------------------------------------------ the monitor in readable form (encoder cases) *)
Lemma opt_N_eqb_eq (a b : option N) : opt_eqb N.eqb a b = true -> a = b.
Proof. destruct a, b; cbn; try discriminate; try reflexivity. intros H. apply N.eqb_eq in H. now subst. Qed.

Lemma dg_eqb_eq a b : C16.dg_eqb a b = true -> a = b.
Proof.
  destruct a, b. unfold C16.dg_eqb. cbn [C16.ecn C16.seg C16.contents]. intros H.
  apply andb_prop in H as [H H3]. apply andb_prop in H as [H1 H2].
  apply N.eqb_eq in H1. apply opt_N_eqb_eq in H2. apply bytes_eqb_eq in H3. congruence.
Qed.

Lemma status_eqb_eq a b : status_eqb a b = true -> a = b.
Proof. destruct a, b; cbn; try discriminate; try reflexivity. intros H. apply N.eqb_eq in H. now subst. Qed.

Lemma r2c_eqb_eq a b : r2c_eqb a b = true -> a = b.
Proof.
  destruct a, b; cbn [r2c_eqb]; try discriminate; intros H;
    repeat match goal with
           | H : _ && _ = true |- _ => apply andb_prop in H as [? ?]
           | H : bytes_eqb _ _ = true |- _ => apply bytes_eqb_eq in H
           | H : C16.dg_eqb _ _ = true |- _ => apply dg_eqb_eq in H
           | H : status_eqb _ _ = true |- _ => apply status_eqb_eq in H
           | H : (_ =? _) = true |- _ => apply N.eqb_eq in H
           end; congruence.
Qed.

Lemma c2r_eqb_eq a b : c2r_eqb a b = true -> a = b.
Proof.
  destruct a, b; cbn [c2r_eqb]; try discriminate; intros H;
    repeat match goal with
           | H : _ && _ = true |- _ => apply andb_prop in H as [? ?]
           | H : bytes_eqb _ _ = true |- _ => apply bytes_eqb_eq in H
           | H : C16.dg_eqb _ _ = true |- _ => apply dg_eqb_eq in H
           end; congruence.
Qed.

Lemma res_eqb_iff {A} (eqb : A -> A -> bool) :
  (forall a, eqb a a = true) -> (forall a b, eqb a b = true -> a = b) ->
  forall x y, res_eqb eqb x y = true <-> x = y.
Proof.
  intros Hr He x y. split.
  - destruct x, y; cbn; try discriminate; intros H; try reflexivity.
    + f_equal. now apply He.
    + apply N.eqb_eq in H. now subst.
  - intros ->. destruct y; cbn; auto. apply N.eqb_refl.
Qed.

Lemma not_panic_iff {A} (x : res A) : negb (is_panic x) = true <-> x <> Panic.
Proof. destruct x; cbn; split; congruence. Qed.

Lemma is_ok_iff {A} (x : res A) : is_ok x = true <-> exists a, x = Ok a.
Proof. destruct x; cbn; split; try discriminate; eauto; intros [a H]; discriminate. Qed.

(* The five clauses of [enc_monitor], as propositions.  [elen] is what encoded_len returned,
   [enc] the digest of what to_bytes wrote, [sink] the digest of what start_send handed to the
   websocket (or its SendError), [dec] the observation of what the peer's decoder made of [enc]'s
   bytes; [digest_len e] is the length of the byte string whose digest is e (digest_len_digest). *)
Definition enc_spec {M} (wf sendable : bool) (expect : M)
    (elen : res N) (enc sink : res bytes) (dec : res M) : Prop :=
  (elen <> Panic /\ enc <> Panic /\ sink <> Panic /\ dec <> Panic) /\
  (exists l e, elen = Ok l /\ enc = Ok e /\ l = digest_len e) /\
  (forall s, sink = Ok s -> enc = Ok s) /\
  (wf = true -> dec = Ok expect) /\
  (sendable = true -> forall s, sink = Ok s -> exists m', dec = Ok m').

Lemma enc_monitor_spec {M} (meqb : M -> M -> bool) :
  (forall a, meqb a a = true) -> (forall a b, meqb a b = true -> a = b) ->
  forall wf sendable expect elen enc sink dec,
  enc_monitor wf sendable expect meqb elen enc sink dec = true <->
  enc_spec wf sendable expect elen enc sink dec.
Proof.
  intros Hr He wf sendable expect elen enc sink dec. unfold enc_monitor, enc_spec.
  rewrite !andb_true_iff, !not_panic_iff.
  assert (H2 : match elen, enc with Ok l, Ok e => l =? digest_len e | _, _ => false end = true <->
               exists l e, elen = Ok l /\ enc = Ok e /\ l = digest_len e).
  { destruct elen as [l|x1|], enc as [e|x2|]; split; try discriminate;
      try (intros (l0 & e0 & H1 & H2 & _); discriminate).
    - intros H. apply N.eqb_eq in H. eauto.
    - intros (l0 & e0 & [= <-] & [= <-] & ->). apply N.eqb_refl. }
  assert (H3 : match sink with Ok s => res_eqb bytes_eqb (Ok s) enc | _ => true end = true <->
               forall s, sink = Ok s -> enc = Ok s).
  { destruct sink as [s| |]; [|split; [intros _ s0; discriminate|reflexivity]..].
    rewrite (res_eqb_iff bytes_eqb bytes_eqb_refl bytes_eqb_eq). split.
    - intros H s0 [= <-]. now symmetry.
    - intros H. symmetry. now apply H. }
  assert (H4 : (if wf then res_eqb meqb dec (Ok expect) else true) = true <-> (wf = true -> dec = Ok expect)).
  { destruct wf; [|split; [discriminate|reflexivity]]. rewrite (res_eqb_iff meqb Hr He). tauto. }
  assert (H5 : (if is_ok sink && sendable then is_ok dec else true) = true <->
               (sendable = true -> forall s, sink = Ok s -> exists m', dec = Ok m')).
  { destruct sendable; rewrite ?andb_true_r, ?andb_false_r; [|split; [discriminate|reflexivity]].
    destruct (is_ok sink) eqn:E.
    - rewrite is_ok_iff. apply is_ok_iff in E as [s E]. split; [intros H _ s0 _; exact H|eauto].
    - split; [|reflexivity]. intros _ _ s Hs. rewrite Hs in E. discriminate. }
  rewrite H2, H3, H4, H5. tauto.
Qed.

Lemma monitor_enc_r_spec v m elen enc sink dec :
  typed_r2c (is_point_of (r2c_keys m)) m = true ->
  (monitor (IEncR v m) (OEncR elen enc sink dec) = true <->
   enc_spec (wf_r2c (is_point_of (r2c_keys m)) v m) (version_ok v m) (obs_r2c m) elen enc sink dec /\
   (version_ok v m = false -> r2c_payload_len m <= MAXP -> dec = Err E_VERSION)).
Proof.
  intros Ht. cbn [monitor]. rewrite Ht. cbn [negb].
  rewrite andb_true_iff, (enc_monitor_spec r2c_eqb r2c_eqb_refl r2c_eqb_eq).
  assert (H : (if negb (version_ok v m) && (r2c_payload_len m <=? MAXP)
               then res_eqb r2c_eqb dec (Err E_VERSION) else true) = true <->
              (version_ok v m = false -> r2c_payload_len m <= MAXP -> dec = Err E_VERSION)).
  { destruct (version_ok v m); cbn [negb andb]; [split; [discriminate|reflexivity]|].
    destruct (N.leb_spec (r2c_payload_len m) MAXP) as [Hl|Hl].
    - rewrite (res_eqb_iff r2c_eqb r2c_eqb_refl r2c_eqb_eq). tauto.
    - split; [intros _ _ Hx; lia|reflexivity]. }
  rewrite H. tauto.
Qed.

Lemma monitor_enc_c_spec m elen enc sink dec :
  typed_c2r (is_point_of (c2r_keys m)) m = true ->
  (monitor (IEncC m) (OEncC elen enc sink dec) = true <->
   (elen <> Panic /\ enc <> Panic /\ sink <> Panic /\ dec <> Panic) /\
   (exists l e, elen = Ok l /\ enc = Ok e /\ l = digest_len e) /\
   (forall s, sink = Ok s -> enc = Ok s) /\
   (wf_c2r (is_point_of (c2r_keys m)) m = true -> dec = Ok (obs_c2r m)) /\
   (forall s, sink = Ok s -> exists m', dec = Ok m')).
Proof.
  intros Ht. cbn [monitor]. rewrite Ht. cbn [negb].
  rewrite (enc_monitor_spec c2r_eqb c2r_eqb_refl c2r_eqb_eq). unfold enc_spec.
  split; intros (H1 & H2 & H3 & H4 & H5); repeat split; try tauto; auto.
Qed.

(* outside the quantifier (terms that are not values of the Rust message types) the monitor
   accepts every observation of the right shape *)
Lemma monitor_enc_untyped_r v m elen enc sink dec :
  typed_r2c (is_point_of (r2c_keys m)) m = false -> monitor (IEncR v m) (OEncR elen enc sink dec) = true.
Proof. intros Ht. cbn [monitor]. now rewrite Ht. Qed.
Lemma monitor_enc_untyped_c m elen enc sink dec :
  typed_c2r (is_point_of (c2r_keys m)) m = false -> monitor (IEncC m) (OEncC elen enc sink dec) = true.
Proof. intros Ht. cbn [monitor]. now rewrite Ht. Qed.

(* ------------------------------------------------------------------ non-vacuity and witnesses *)
Definition kA : bytes := hex "197f6b23e16c8532c6abc838facd5ea789be0c76b2920334039bfa8b3d368d61".
Definition ipA : bytes -> bool := is_point_of [kA].

(* the snapshot frames of relay.rs tests *)
Example snapshot_batch :
  r2c_to_bytes (RDatagrams kA (C16.mkDg 3 (Some 6) (str_bytes "Hello World!"))) =
  Ok (hex "07197f6b23e16c8532c6abc838facd5ea789be0c76b2920334039bfa8b3d368d6103000648656c6c6f20576f726c6421").
Proof. vm_compute. reflexivity. Qed.

Example snapshot_restarting :
  r2c_to_bytes (RRestarting 10000000 20000000) = Ok (hex "0c0000000a00000014").
Proof. vm_compute. reflexivity. Qed.

Example wf_examples :
  wf_r2c ipA 2 (RDatagrams kA (C16.mkDg 3 (Some 6) (str_bytes "Hello World!"))) = true /\
  wf_r2c ipA 1 (RHealth (hex "e282ac")) = true /\
  wf_r2c ipA 2 (RStatus (Unknown 3)) = true /\
  wf_r2c ipA 2 (RRestarting 4294967295000000 0) = true /\
  wf_r2c ipA 2 (RRestarting 4294967296000000 0) = false /\
  wf_r2c ipA 2 (RStatus (Unknown 2)) = false /\
  wf_c2r ipA (CDatagrams kA (C16.mkDg 0 None [])) = true.
Proof. vm_compute. repeat split. Qed.

(* non-minimal frame type varints are accepted (decoding is not injective) *)
Example nonminimal_type_accepted :
  r2c_from_bytes ipA 2 (hex "40090102030405060708") = Ok (RPing (hex "0102030405060708")) /\
  r2c_from_bytes ipA 2 (hex "090102030405060708") = Ok (RPing (hex "0102030405060708")).
Proof. vm_compute. split; reflexivity. Qed.

Example version_gate_examples :
  r2c_from_bytes ipA 2 (hex "0b6f6b") = Err E_VERSION /\
  r2c_from_bytes ipA 1 (hex "0b6f6b") = Ok (RHealth (hex "6f6b")) /\
  r2c_from_bytes ipA 1 (hex "0d01") = Err E_VERSION /\
  r2c_from_bytes ipA 2 (hex "0d01") = Ok (RStatus SameEndpointIdConnected).
Proof. vm_compute. repeat split. Qed.
