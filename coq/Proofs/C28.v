(* C28 — proofs about the preferred-relay model. *)
From V Require Import Lib.Base Gen.Consts Model.C27 Proofs.C27 Model.C28.
From Coq Require Import ZifyBool.
Import C27. Import C28.
Open Scope N_scope.

(* The code before the fix violates the stickiness clause: the previous relay 0 is measured at
   30 (https) and 90 (ipv6); relay 1 at 25 > 30/3*2 = 20 is nevertheless preferred, because the
   threshold was computed from the last probe kind iterated (90/3*2 = 60). *)
Definition witness : input :=
  [mkCall 1000000000 [(0, 0, 30); (0, 1, 100)] None None;
   mkCall 1000000000 [(0, 0, 30); (2, 0, 90); (0, 1, 25)] None None].

Lemma orig_refuted : exists i, monitor i (model_orig i) = false.
Proof. exists witness. vm_compute. reflexivity. Qed.

(* ---------- well-formed tables ---------- *)

Definition hist_wf (h : hist) : Prop := Forall (fun e => C27.wf (snd e)) h.

Lemma lat_default_wf : wf C27.lat_default.
Proof. repeat split. Qed.

Lemma lat_of_meas_wf m : wf (lat_of_meas m).
Proof.
  unfold lat_of_meas. assert (G : forall l, wf l ->
    wf (fold_left (fun l x => let '(k, u, d) := x in if k <=? 2 then C27.update_relay l u d k else l) m l)).
  { induction m as [|[[k u] d] m IH]; intros l Hl; cbn [fold_left]; [exact Hl|].
    apply IH. destruct (k <=? 2); auto using update_relay_wf. }
  apply G, lat_default_wf.
Qed.

Lemma hist_prune_wf h now : hist_wf h -> hist_wf (hist_prune h now).
Proof.
  unfold hist_wf, hist_prune. rewrite !Forall_forall. intros H e He.
  apply filter_In in He as [He _]. auto.
Qed.

Lemma hist_insert_wf h : forall t l, hist_wf h -> wf l -> hist_wf (hist_insert h t l).
Proof.
  induction h as [|[t' l'] h IH]; intros t l Hh Hl; cbn [hist_insert].
  - constructor; [exact Hl|constructor].
  - inversion Hh; subst. destruct (t <? t'); [constructor; auto|].
    destruct (t =? t'); constructor; auto. apply IH; auto.
Qed.

(* ---------- get over merges ---------- *)

Lemma get_is_list_min l u : C27.get l u = C27.list_min (lat_values l u).
Proof. reflexivity. Qed.

Lemma get_merge a b u : wf a -> wf b ->
  C27.get (C27.merge a b) u = C27.opt_min (C27.get a u) (C27.get b u).
Proof.
  intros Ha Hb. rewrite !get_spec.
  pose proof (merge_min a b 0 u Ha Hb) as H0. pose proof (merge_min a b 1 u Ha Hb) as H1.
  pose proof (merge_min a b 2 u Ha Hb) as H2.
  change (tbl 0 ?x) with (C27.https x) in H0. change (tbl 1 ?x) with (C27.ipv4 x) in H1.
  change (tbl 2 ?x) with (C27.ipv6 x) in H2. rewrite H0, H1, H2.
  destruct (C27.lookup (C27.https a) u), (C27.lookup (C27.ipv4 a) u), (C27.lookup (C27.ipv6 a) u),
    (C27.lookup (C27.https b) u), (C27.lookup (C27.ipv4 b) u), (C27.lookup (C27.ipv6 b) u);
    cbn; f_equal; lia.
Qed.

Lemma list_min_app l1 l2 :
  C27.list_min (l1 ++ l2) = C27.opt_min (C27.list_min l1) (C27.list_min l2).
Proof.
  induction l2 as [|y l2 IH] using rev_ind.
  - rewrite app_nil_r. cbn. now rewrite opt_min_none_r.
  - rewrite app_assoc, !list_min_snoc, IH. apply opt_min_assoc.
Qed.

Lemma fold_merge_wf h : forall a, hist_wf h -> wf a ->
  wf (fold_left (fun acc e => C27.merge acc (snd e)) h a).
Proof.
  induction h as [|e h IH]; intros a Hh Ha; cbn [fold_left]; [exact Ha|].
  inversion Hh; subst. apply IH; auto using merge_wf.
Qed.

Lemma get_fold_merge h u : forall a, hist_wf h -> wf a ->
  C27.get (fold_left (fun acc e => C27.merge acc (snd e)) h a) u =
  C27.opt_min (C27.get a u) (C27.list_min (concat (map (fun e => lat_values (snd e) u) h))).
Proof.
  induction h as [|e h IH]; intros a Hh Ha; cbn [fold_left map concat].
  - cbn. now rewrite opt_min_none_r.
  - inversion Hh; subst. rewrite IH by auto using merge_wf.
    rewrite get_merge by auto. rewrite list_min_app, <- get_is_list_min. apply opt_min_assoc.
Qed.

Lemma get_best_recent h now cur u : hist_wf h -> wf cur ->
  C27.get (best_recent h now cur) u = best_of h now cur u.
Proof.
  intros Hh Hc. unfold best_recent, best_of.
  rewrite get_merge; [|apply fold_merge_wf; [now apply hist_prune_wf|apply lat_default_wf]|exact Hc].
  rewrite get_fold_merge by (try apply hist_prune_wf; auto using lat_default_wf).
  rewrite list_min_app, <- get_is_list_min. reflexivity.
Qed.

(* ---------- measured relays ---------- *)

Lemma mem_in u l : mem u l = true <-> In u l.
Proof.
  unfold mem. rewrite existsb_exists. split.
  - intros (x & Hx & E). apply N.eqb_eq in E. now subst.
  - intros H. exists u. split; [exact H|apply N.eqb_refl].
Qed.

Lemma in_table_lookup t u : sortedb t = true -> (In u (map fst t) <-> C27.lookup t u <> None).
Proof.
  intros Hs. split.
  - intros H. apply in_map_iff in H as ([u' d] & E & Hin). cbn in E. subst u'.
    rewrite (in_lookup t u d Hs Hin). discriminate.
  - intros H. destruct (C27.lookup t u) as [d|] eqn:E; [|congruence].
    apply lookup_in in E. apply in_map_iff. exists (u, d). split; [reflexivity|exact E].
Qed.

Lemma measured_get cur u : wf cur -> (In u (measured cur) <-> C27.get cur u <> None).
Proof.
  intros (H4 & H6 & Hh). unfold measured, iter_lat. rewrite !map_app, !in_app_iff.
  rewrite (in_table_lookup _ u Hh), (in_table_lookup _ u H4), (in_table_lookup _ u H6).
  rewrite get_spec.
  destruct (C27.lookup (C27.https cur) u), (C27.lookup (C27.ipv4 cur) u), (C27.lookup (C27.ipv6 cur) u);
    cbn; split; intros H; try discriminate; try tauto; try (left; discriminate);
    try (right; left; discriminate); try (right; right; discriminate).
Qed.

(* ---------- the selection loop (fixed code: orig = false) ---------- *)

Section Loop.
Variables (prev_relay : option N) (br : C27.latencies).

Definition LInv (oc0 : N) (done : list (N * N)) (a : acc) : Prop :=
  let '(ba, oc, p) := a in
  oc = oc0 /\
  match p with
  | None => done = []
  | Some x => In x (map fst done) /\ C27.get br x = Some ba /\
              forall u, In u (map fst done) -> exists b, C27.get br u = Some b /\ ba <= b
  end.

Lemma loop_inv oc0 items : forall done a,
  LInv oc0 done a ->
  (forall ud, In ud items -> C27.get br (fst ud) <> None) ->
  LInv oc0 (done ++ items) (fold_left (loop_step false prev_relay br) items a).
Proof.
  induction items as [|ud items IH]; intros done a Ha Hs; cbn [fold_left].
  - now rewrite app_nil_r.
  - replace (done ++ ud :: items) with ((done ++ [ud]) ++ items) by (rewrite <- app_assoc; reflexivity).
    apply IH; [|intros x Hx; apply Hs; now right].
    destruct a as [[ba oc] p]. destruct Ha as [Hoc Hp]. unfold loop_step. cbn [andb].
    destruct (C27.get br (fst ud)) as [b|] eqn:Eg; [|exfalso; apply (Hs ud); [now left|exact Eg]].
    destruct (is_none p || (b <? ba)) eqn:Ec; cbn [LInv]; (split; [exact Hoc|]).
    + rewrite map_app, in_app_iff. cbn [map In]. split; [right; now left|]. split; [exact Eg|].
      intros u Hu. rewrite ?map_app, in_app_iff in Hu. cbn [map In] in Hu.
      destruct Hu as [Hu|[<-|[]]]; [|exists b; split; [exact Eg|lia]].
      destruct p as [x|]; [|subst done; destruct Hu].
      cbn [is_none orb] in Ec. destruct Hp as (_ & _ & Hall).
      destruct (Hall u Hu) as (b' & Hb' & Hle). exists b'. split; [exact Hb'|lia].
    + destruct p as [x|]; [|discriminate]. cbn [is_none orb] in Ec.
      destruct Hp as (Hin & Hg & Hall). rewrite map_app. split; [apply in_or_app; now left|].
      split; [exact Hg|]. intros u Hu. rewrite in_app_iff in Hu. cbn [map In] in Hu.
      destruct Hu as [Hu|[<-|[]]]; [now apply Hall|]. exists b. split; [exact Eg|lia].
Qed.
End Loop.

(* ---------- one call satisfies the per-call conclusion ---------- *)

Definition prev_relay_of (st : state) : option N :=
  match last st with Some l => pref l | None => None end.

Lemma step_prev st now r :
  prev (fst (step_gen false st now r)) = hist_insert (hist_prune (prev st) now) now (lat r).
Proof.
  unfold step_gen. destruct (fold_left _ _ _) as [[ba oc] p]. reflexivity.
Qed.

Lemma step_last st now r :
  last (fst (step_gen false st now r)) = Some (snd (step_gen false st now r)).
Proof.
  unfold step_gen. destruct (fold_left _ _ _) as [[ba oc] p]. reflexivity.
Qed.

Lemma step_call_ok st now r :
  hist_wf (prev st) -> wf (lat r) -> pref r = None ->
  call_ok (prev st) now (lat r) (prev_relay_of st) (pref (snd (step_gen false st now r))) = true.
Proof.
  intros Hh Hc Hp. unfold step_gen. fold (prev_relay_of st). rewrite Hp.
  set (pr := prev_relay_of st). set (cur := lat r). set (h := prev st).
  set (br := best_recent h now cur).
  set (oc0 := old_init false pr cur).
  pose proof (loop_inv pr br oc0 (iter_lat cur) [] (0, oc0, None)) as L.
  cbn [app] in L.
  assert (Hsome : forall ud, In ud (iter_lat cur) -> C27.get br (fst ud) <> None).
  { intros ud Hud. unfold br. rewrite get_best_recent by auto. unfold best_of.
    rewrite list_min_app, <- get_is_list_min.
    assert (C27.get cur (fst ud) <> None).
    { apply measured_get; [exact Hc|]. unfold measured. now apply in_map. }
    destruct (C27.get cur (fst ud)); [|congruence]. destruct (C27.list_min _); cbn; discriminate. }
  specialize (L (conj eq_refl eq_refl) Hsome).
  destruct (fold_left (loop_step false pr br) (iter_lat cur) (0, oc0, None)) as [[ba oc] p] eqn:EF.
  cbn [snd pref]. destruct L as [Hoc Hp'].
  assert (Hbest : forall u, C27.get br u = best_of h now cur u)
    by (intros u; unfold br; now apply get_best_recent).
  destruct p as [x|].
  2:{ (* nothing measured *)
      assert (Hm : measured cur = []) by (unfold measured; now rewrite Hp').
      assert (Hc0 : negb (is_none pr) && negb (opt_eqb N.eqb None pr) && negb (oc =? 0) && (oc / 3 * 2 <? ba) = false).
      { destruct pr as [q|] eqn:Epr; [|reflexivity]. subst oc. unfold oc0, old_init.
        destruct (C27.get cur q) eqn:Eq; [|reflexivity].
        assert (In q (measured cur)) by (apply measured_get; [exact Hc|congruence]).
        rewrite Hm in H. destruct H. }
      rewrite Hc0. unfold call_ok. rewrite Hm. reflexivity. }
  destruct Hp' as (Hin & Hg & Hall).
  fold (measured cur) in Hin, Hall.
  destruct (negb (is_none pr) && negb (opt_eqb N.eqb (Some x) pr) && negb (oc =? 0) && (oc / 3 * 2 <? ba)) eqn:R.
  - (* reverted to the previous relay *)
    destruct pr as [q|] eqn:Epr; [|discriminate]. cbn [is_none negb andb opt_eqb] in R.
    unfold call_ok.
    assert (Hq : In q (measured cur)).
    { apply measured_get; [exact Hc|]. subst oc. unfold oc0, old_init in R.
      destruct (C27.get cur q); [discriminate|]. cbn in R. lia. }
    apply mem_in in Hq. rewrite Hq. cbn [andb opt_eqb]. rewrite N.eqb_refl. cbn [orb negb andb]. reflexivity.
  - (* the loop's choice stands *)
    unfold call_ok. rewrite (proj2 (mem_in x (measured cur)) Hin). cbn [andb].
    assert (C2 : forallb (fun u => opt_le (best_of h now cur x) (best_of h now cur u)) (measured cur) = true).
    { apply forallb_forall. intros u Hu. rewrite <- !Hbest, Hg.
      destruct (Hall u Hu) as (b & -> & Hle). cbn. lia. }
    rewrite C2, orb_true_r. cbn [andb].
    destruct pr as [q|] eqn:Epr; [|reflexivity].
    destruct (mem q (measured cur) && negb (x =? q)) eqn:Em; [|reflexivity].
    apply andb_prop in Em as [Em Ex]. apply mem_in in Em.
    pose proof Em as Hgq. apply measured_get in Hgq; [|exact Hc].
    rewrite <- get_is_list_min. destruct (C27.get cur q) as [lowest|] eqn:Eq; [|congruence].
    rewrite <- Hbest, Hg. cbn [opt_le].
    cbn [is_none negb andb opt_eqb] in R. replace (x =? q) with false in R by lia. cbn [negb andb] in R.
    subst oc. unfold oc0, old_init in R. rewrite Eq in R.
    destruct (lowest =? 0) eqn:Ez; cbn [negb andb] in R; [|lia].
    (* previous relay measured at 0: its best is 0, so the chosen one's best is 0 as well *)
    destruct (Hall q Em) as (bq & Hbq & Hle).
    rewrite Hbest in Hbq. unfold best_of in Hbq. rewrite list_min_app, <- get_is_list_min, Eq in Hbq.
    assert (bq <= lowest).
    { destruct (C27.list_min (concat _)) in Hbq; cbn in Hbq; inversion Hbq; lia. }
    assert (lowest = 0) by lia. subst lowest. change (0 / 3 * 2) with 0. lia.
Qed.

(* ---------- whole histories ---------- *)

Lemma run_monitor cs : forall st now,
  hist_wf (prev st) ->
  monitor_from (prev st) now (prev_relay_of st) cs (run_gen false st now cs) = true.
Proof.
  induction cs as [|c cs IH]; intros st now Hh; cbn [run_gen monitor_from]; [reflexivity|].
  set (r := mkR (lat_of_meas (meas c)) None (in4 c) (in6 c)).
  pose proof (step_call_ok st (now + dt c) r Hh (lat_of_meas_wf _) eq_refl) as Hok.
  pose proof (step_prev st (now + dt c) r) as Hprev.
  pose proof (step_last st (now + dt c) r) as Hlast.
  destruct (step_gen false st (now + dt c) r) as [st' r'] eqn:ES. cbn [fst snd] in *.
  cbn [monitor_from o_pref]. cbn [lat r] in Hok. rewrite Hok. cbn [andb].
  cbn [lat r] in Hprev. rewrite <- Hprev.
  replace (pref r') with (prev_relay_of st') by (unfold prev_relay_of; now rewrite Hlast).
  apply IH. rewrite Hprev. apply hist_insert_wf; [now apply hist_prune_wf|apply lat_of_meas_wf].
Qed.

Lemma fixed_model_monitor i : monitor i (run_gen false st_default 0 i) = true.
Proof. unfold monitor. apply (run_monitor i st_default 0). constructor. Qed.

(* ---------- the per-call conclusion, readable ---------- *)

Definition call_spec (h : hist) (now : N) (cur : C27.latencies) (prev_relay p : option N) : Prop :=
  match p with
  | None => measured cur = []
  | Some x =>
      In x (measured cur) /\
      (Some x = prev_relay \/
       forall u, In u (measured cur) ->
         exists bx bu, best_of h now cur x = Some bx /\ best_of h now cur u = Some bu /\ bx <= bu) /\
      (forall q, prev_relay = Some q -> In q (measured cur) -> x <> q ->
         exists bx lowest, best_of h now cur x = Some bx /\
           C27.list_min (lat_values cur q) = Some lowest /\ bx <= lowest / 3 * 2)
  end.

Lemma opt_le_true a b : opt_le a b = true -> exists x y, a = Some x /\ b = Some y /\ x <= y.
Proof. destruct a as [x|], b as [y|]; cbn; try discriminate. intros H. exists x, y. repeat split. lia. Qed.

Lemma call_ok_sound h now cur pr p : call_ok h now cur pr p = true -> call_spec h now cur pr p.
Proof.
  unfold call_ok, call_spec. destruct p as [x|].
  2:{ destruct (measured cur); [reflexivity|discriminate]. }
  intros H. apply andb_prop in H as [H H3]. apply andb_prop in H as [H1 H2].
  split; [now apply mem_in|]. split.
  - apply orb_prop in H2 as [H2|H2].
    + left. destruct pr as [q|]; cbn in H2; [|discriminate]. f_equal. lia.
    + right. intros u Hu. rewrite forallb_forall in H2. apply opt_le_true. now apply H2.
  - intros q -> Hq Hne. apply mem_in in Hq. rewrite Hq in H3.
    replace (x =? q) with false in H3 by lia. cbn [negb andb] in H3.
    destruct (C27.list_min (lat_values cur q)) as [lowest|]; [|discriminate].
    apply opt_le_true in H3 as (bx & y & E1 & E2 & Hle). inversion E2; subst y.
    exists bx, lowest. auto.
Qed.

Lemma step_spec st now r :
  hist_wf (prev st) -> wf (lat r) -> pref r = None ->
  call_spec (prev st) now (lat r) (prev_relay_of st) (pref (snd (step_gen false st now r))).
Proof. intros. now apply call_ok_sound, step_call_ok. Qed.

(* the history invariant is kept by every call, so step_spec applies along any history *)
Lemma step_hist_wf st now r :
  hist_wf (prev st) -> wf (lat r) -> hist_wf (prev (fst (step_gen false st now r))).
Proof. intros. rewrite step_prev. apply hist_insert_wf; [now apply hist_prune_wf|auto]. Qed.

(* best_of is the minimum over the fresh stored reports and the current one *)
Lemma best_of_spec h now cur u m :
  best_of h now cur u = Some m <->
  let vals := concat (map (fun e => lat_values (snd e) u) (hist_prune h now)) ++ lat_values cur u in
  In m vals /\ forall y, In y vals -> m <= y.
Proof. unfold best_of. apply list_min_spec. Qed.

(* non-vacuity: the fixed model on the witness sticks with relay 0; threshold boundary *)
Example fixed_on_witness :
  map o_pref (run_gen false st_default 0 witness) = [Some 0; Some 0].
Proof. vm_compute. reflexivity. Qed.
Example boundary_switch :
  map o_pref (run_gen false st_default 0
    [mkCall 1 [(1, 0, 32); (1, 1, 100)] None None; mkCall 1 [(1, 0, 32); (1, 1, 20)] None None]) = [Some 0; Some 1].
Proof. vm_compute. reflexivity. Qed.
Example boundary_stick :
  map o_pref (run_gen false st_default 0
    [mkCall 1 [(1, 0, 32); (1, 1, 100)] None None; mkCall 1 [(1, 0, 32); (1, 1, 21)] None None]) = [Some 0; Some 0].
Proof. vm_compute. reflexivity. Qed.

(* the three clauses of call_spec, separately *)
Lemma preferred_is_measured_or_none st now r :
  hist_wf (prev st) -> wf (lat r) -> pref r = None ->
  match pref (snd (step_gen false st now r)) with
  | None => measured (lat r) = []
  | Some x => In x (measured (lat r))
  end.
Proof.
  intros H1 H2 H3. pose proof (step_spec st now r H1 H2 H3) as S. unfold call_spec in S.
  destruct (pref (snd (step_gen false st now r))); [apply S|exact S].
Qed.

Lemma preferred_minimises_recent_best st now r x :
  hist_wf (prev st) -> wf (lat r) -> pref r = None ->
  pref (snd (step_gen false st now r)) = Some x ->
  Some x = prev_relay_of st \/
  forall u, In u (measured (lat r)) ->
    exists bx bu, best_of (prev st) now (lat r) x = Some bx /\
                  best_of (prev st) now (lat r) u = Some bu /\ bx <= bu.
Proof.
  intros H1 H2 H3 E. pose proof (step_spec st now r H1 H2 H3) as S. rewrite E in S. apply S.
Qed.

Lemma sticky st now r x q :
  hist_wf (prev st) -> wf (lat r) -> pref r = None ->
  prev_relay_of st = Some q -> In q (measured (lat r)) ->
  pref (snd (step_gen false st now r)) = Some x -> x <> q ->
  exists bx lowest, best_of (prev st) now (lat r) x = Some bx /\
    C27.list_min (lat_values (lat r) q) = Some lowest /\ bx <= lowest / 3 * 2.
Proof.
  intros H1 H2 H3 Hq Hin E Hne. pose proof (step_spec st now r H1 H2 H3) as S. rewrite E in S.
  destruct S as (_ & _ & S). now apply S.
Qed.

(* ---------- the stored history as a time-keyed map ---------- *)

Fixpoint hist_sorted (h : hist) : Prop :=
  match h with
  | [] => True
  | (t, _) :: r => (forall e, In e r -> t < fst e) /\ hist_sorted r
  end.

Lemma hist_prune_in h now e : In e (hist_prune h now) <-> In e h /\ now - fst e <= MAX_AGE.
Proof.
  unfold hist_prune. rewrite filter_In. unfold fresh. split; intros [H1 H2]; split; auto; lia.
Qed.

Lemma hist_prune_sorted h now : hist_sorted h -> hist_sorted (hist_prune h now).
Proof.
  induction h as [|[t l] h IH]; [auto|]. intros [Hlt Hs]. unfold hist_prune. cbn [filter].
  fold (hist_prune h now). destruct (fresh now (t, l)); [|auto].
  split; [|auto]. intros e He. apply hist_prune_in in He as [He _]. auto.
Qed.

(* BTreeMap::insert: the entry at t is the new one; every other entry is unchanged *)
Lemma hist_insert_in h : forall t l e, hist_sorted h ->
  (In e (hist_insert h t l) <-> e = (t, l) \/ (In e h /\ fst e <> t)).
Proof.
  induction h as [|[t' l'] h IH]; intros t l e Hs; cbn [hist_insert].
  - cbn. split; [intros [H|[]]; auto|intros [H|[[] _]]; auto].
  - destruct Hs as [Hlt Hs]. destruct (t <? t') eqn:E1.
    + cbn [In]. split.
      * intros [H|[H|H]]; [left; auto|right; subst e; cbn; split; [auto|lia]|].
        right. split; [auto|]. specialize (Hlt e H). lia.
      * intros [H|[H _]]; [left; auto|right; exact H].
    + destruct (t =? t') eqn:E2.
      * assert (t = t') by lia. subst t'. cbn [In]. split.
        -- intros [H|H]; [left; auto|]. right. split; [auto|]. specialize (Hlt e H). lia.
        -- intros [H|[[H|H] Hne]]; [left; auto| |right; exact H]. subst e. cbn in Hne. congruence.
      * cbn [In]. rewrite IH by exact Hs. split.
        -- intros [H|[H|[H Hne]]]; [right; subst e; cbn; split; [auto|lia]|left; exact H|right; auto].
        -- intros [H|[[H|H] Hne]]; [right; left; exact H|left; exact H|right; right; auto].
Qed.

Lemma hist_insert_sorted h : forall t l, hist_sorted h -> hist_sorted (hist_insert h t l).
Proof.
  induction h as [|[t' l'] h IH]; intros t l Hs; cbn [hist_insert].
  - cbn. split; [intros e []|exact I].
  - pose proof Hs as Hs0. destruct Hs as [Hlt Hs]. destruct (t <? t') eqn:E1.
    + split; [|exact Hs0]. intros e [<-|He]; [cbn; lia|]. specialize (Hlt e He). lia.
    + destruct (t =? t') eqn:E2.
      * assert (t = t') by lia. subst t'. split; [exact Hlt|exact Hs].
      * split; [|apply IH; exact Hs]. intros e He. apply hist_insert_in in He; [|exact Hs].
        destruct He as [->|[He _]]; [cbn; lia|auto].
Qed.

(* After a call at time `now`: the stored history is sorted by time, holds the current tables at
   `now`, and otherwise exactly the previously stored entries that are not older than MAX_AGE
   and were not stored at the same instant. *)
Lemma step_history st now r e :
  hist_sorted (prev st) ->
  hist_sorted (prev (fst (step_gen false st now r))) /\
  (In e (prev (fst (step_gen false st now r))) <->
   e = (now, lat r) \/ (In e (prev st) /\ now - fst e <= MAX_AGE /\ fst e <> now)).
Proof.
  intros Hs. rewrite step_prev. split.
  - apply hist_insert_sorted, hist_prune_sorted, Hs.
  - rewrite hist_insert_in by (apply hist_prune_sorted, Hs). rewrite hist_prune_in. tauto.
Qed.
