(* C34 — proofs about add_jitter and the stagger result. *)
From V Require Import Lib.Base Lib.MachineInt Gen.Consts Model.C34.
From Coq Require Import ZifyBool.
Import C34.
Open Scope N_scope.

(* ---------- add_jitter ---------- *)
Lemma jitter_zero r : add_jitter 0 r = Ok 0.
Proof. reflexivity. Qed.

Lemma jitter_total d r : add_jitter d r <> Panic.
Proof.
  unfold add_jitter. destruct (d =? 0); [discriminate|].
  destruct (max_jitter d =? 0); discriminate.
Qed.

Lemma jitter_ok d r : exists t, add_jitter d r = Ok t.
Proof.
  unfold add_jitter. destruct (d =? 0); [eauto|].
  destruct (max_jitter d =? 0); eauto.
Qed.

Lemma max_jitter_facts d :
  100 * max_jitter d <= N.min (d * 40) U64_MAX /\ N.min (d * 40) U64_MAX < 100 * max_jitter d + 100.
Proof.
  unfold max_jitter, u64_sat_mul, MAX_JITTER_PERCENT, C34_MAX_JITTER_PERCENT.
  change (20 * 2) with 40.
  pose proof (N.div_mod (N.min (d * 40) U64_MAX) 100 ltac:(lia)) as E.
  pose proof (N.mod_lt (N.min (d * 40) U64_MAX) 100 ltac:(lia)) as L.
  set (m := N.min (d * 40) U64_MAX) in *. clearbody m.
  generalize dependent (m / 100). generalize dependent (m mod 100). intros. lia.
Qed.

Lemma half_facts q : 2 * (q / 2) <= q /\ q < 2 * (q / 2) + 2.
Proof.
  pose proof (N.div_mod q 2 ltac:(lia)) as E. pose proof (N.mod_lt q 2 ltac:(lia)) as L.
  generalize dependent (q / 2). generalize dependent (q mod 2). intros. lia.
Qed.

(* +/- 20 %, for every u64 delay and every random value, saturation included *)
Lemma jitter_bounds d r t :
  d <= U64_MAX -> add_jitter d r = Ok t ->
  4 * d <= 5 * t /\ 5 * t <= 6 * d /\ t <= U64_MAX.
Proof.
  intros Hd. unfold add_jitter.
  destruct (N.eqb_spec d 0) as [->|Hnz]; [intros [= <-]; unfold U64_MAX; lia|].
  destruct (N.eqb_spec (max_jitter d) 0) as [Hz|Hq]; [intros [= <-]; lia|].
  intros [= <-]. unfold u64_sat_add, u64_sat_sub.
  pose proof (max_jitter_facts d) as [F1 F2].
  pose proof (half_facts (max_jitter d)) as [G1 G2].
  pose proof (N.mod_lt r (max_jitter d) Hq) as L.
  generalize dependent (r mod max_jitter d). generalize dependent (max_jitter d / 2).
  generalize dependent (max_jitter d). intros. unfold U64_MAX in *. lia.
Qed.

Lemma jitter_within_pct d r t :
  d <= U64_MAX -> add_jitter d r = Ok t -> within_pct d t = true.
Proof.
  intros Hd H. destruct (jitter_bounds d r t Hd H) as (A & B & _).
  unfold within_pct, MAX_JITTER_PERCENT, C34_MAX_JITTER_PERCENT. lia.
Qed.

(* delays too small to jitter are used as they are (the class that panicked before the fix) *)
Lemma jitter_small d r : 1 <= d <= 2 -> add_jitter d r = Ok d.
Proof.
  intros H. assert (d = 1 \/ d = 2) as [-> | ->] by lia; reflexivity.
Qed.

Lemma max_jitter_zero_iff d : d <= U64_MAX -> (max_jitter d = 0 <-> d <= 2).
Proof.
  intros Hd. pose proof (max_jitter_facts d) as [F1 F2]. unfold U64_MAX in *. lia.
Qed.

Lemma aj_s d r : d <> 0 -> max_jitter d = 0 -> add_jitter d r = Ok d.
Proof.
  intros Hd Hz. unfold add_jitter. destruct (N.eqb_spec d 0); [contradiction|].
  rewrite Hz. reflexivity.
Qed.

Lemma aj_j d r : d <> 0 -> max_jitter d <> 0 ->
  add_jitter d r = Ok (N.min (d - max_jitter d / 2 + r mod max_jitter d) U64_MAX).
Proof.
  intros Hd Hz. unfold add_jitter. destruct (N.eqb_spec d 0); [contradiction|].
  destruct (N.eqb_spec (max_jitter d) 0); [contradiction|]. reflexivity.
Qed.

(* admissible = "some random value produces it" *)
Lemma admissible_iff d t :
  d <= U64_MAX -> (admissible d (Ok t) = true <-> exists r, add_jitter d r = Ok t).
Proof.
  intros Hd. unfold admissible. split.
  - intros H. apply andb_prop in H as [H _]. apply andb_prop in H as [_ H].
    exists (t - u64_sat_sub d (max_jitter d / 2)).
    destruct (add_jitter d (t - u64_sat_sub d (max_jitter d / 2))) as [x| |]; unfold res_eqb in H; try discriminate.
    apply N.eqb_eq in H. now subst.
  - intros [r H].
    destruct (N.eq_dec d 0) as [->|Hnz].
    { rewrite jitter_zero in H. injection H as <-. reflexivity. }
    destruct (N.eq_dec (max_jitter d) 0) as [Hz|Hq].
    { rewrite (aj_s d r Hnz Hz) in H. injection H as <-.
      rewrite (aj_s d _ Hnz Hz). unfold res_eqb, u64_sat_sub. rewrite Hz.
      replace (0 / 2) with 0 by reflexivity. rewrite N.eqb_refl. lia. }
    rewrite (aj_j d r Hnz Hq) in H. injection H as <-.
    pose proof (max_jitter_facts d) as [F1 F2]. pose proof (half_facts (max_jitter d)) as [G1 G2].
    pose proof (N.mod_lt r (max_jitter d) Hq) as L.
    set (q := max_jitter d) in *. unfold u64_sat_sub. set (b := d - q / 2).
    set (t := N.min (b + r mod q) U64_MAX).
    assert (Hr : t - b < q /\ b <= t).
    { subst t b. generalize dependent (r mod q). generalize dependent (q / 2). intros.
      unfold U64_MAX in *. lia. }
    destruct Hr as [Hr Hb].
    rewrite (aj_j d (t - b) Hnz Hq). fold q. fold b. rewrite (N.mod_small _ _ Hr).
    replace (N.min (b + (t - b)) U64_MAX) with t by (subst t; lia).
    unfold res_eqb. rewrite N.eqb_refl. lia.
Qed.

(* ---------- the stagger result ---------- *)
Definition is_err (o : outcome) : Prop := exists e, o = Err e.

Lemma first_ok_wins outs v :
  stagger_result outs = SOk v <->
  exists pre post, outs = pre ++ Ok v :: post /\ Forall is_err pre.
Proof.
  split.
  - revert v. induction outs as [|o outs IH]; intros v H; cbn in H; [discriminate|].
    destruct o as [w|e|].
    + injection H as <-. exists [], outs. split; [reflexivity|constructor].
    + destruct (stagger_result outs) as [w|es|] eqn:E; try discriminate.
      injection H as <-. destruct (IH w eq_refl) as (pre & post & -> & Hp).
      exists (Err e :: pre), post. split; [reflexivity|]. constructor; [now exists e|exact Hp].
    + discriminate.
  - intros (pre & post & -> & Hp). induction Hp as [|o pre [e ->] Hp IH]; cbn; [reflexivity|].
    now rewrite IH.
Qed.

Lemma all_errors_collected outs es :
  stagger_result outs = SErr es <-> outs = map Err es.
Proof.
  split.
  - revert es. induction outs as [|o outs IH]; intros es H; cbn in H.
    + injection H as <-. reflexivity.
    + destruct o as [w|e|]; try discriminate.
      destruct (stagger_result outs) as [w|es'|] eqn:E; try discriminate.
      injection H as <-. cbn. f_equal. now apply IH.
  - intros ->. induction es as [|e es IH]; cbn; [reflexivity|]. now rewrite IH.
Qed.

(* never SPending/panic-free: with scripted (non-panicking) attempts the result is Ok or Err *)
Lemma stagger_result_decided outs :
  Forall (fun o => o <> Panic) outs ->
  (exists v, stagger_result outs = SOk v) \/ (exists es, stagger_result outs = SErr es).
Proof.
  induction 1 as [|o outs Ho _ IH]; cbn; [right; eauto|].
  destruct o as [w|e|]; [left; eauto| |contradiction].
  destruct IH as [[v ->]|[es ->]]; [left|right]; eauto.
Qed.

(* ---------- sorting helpers ---------- *)
Lemma insert_length {A} (k : A -> N) x l : length (insert_by k x l) = Datatypes.S (length l).
Proof. induction l as [|y l IH]; cbn; [reflexivity|]. destruct (k x <=? k y); cbn; now rewrite ?IH. Qed.

Lemma sort_length {A} (k : A -> N) l : length (sort_by k l) = length l.
Proof. induction l as [|y l IH]; cbn; [reflexivity|]. unfold sort_by in IH. now rewrite insert_length, IH. Qed.

Lemma insert_in {A} (k : A -> N) x y l : In y (insert_by k x l) <-> y = x \/ In y l.
Proof.
  induction l as [|z l IH]; cbn; [intuition|].
  destruct (k x <=? k z); cbn; rewrite ?IH; intuition.
Qed.

Lemma sort_in {A} (k : A -> N) y l : In y (sort_by k l) <-> In y l.
Proof.
  induction l as [|z l IH]; cbn; [tauto|]. unfold sort_by in IH. rewrite insert_in, IH. intuition.
Qed.

Lemma sorted_cons a l : sorted l = true -> (forall x, In x l -> a <= x) -> sorted (a :: l) = true.
Proof.
  destruct l as [|b l]; [reflexivity|]. intros Hs Hall.
  change (sorted (a :: b :: l)) with ((a <=? b) && sorted (b :: l)). rewrite Hs.
  specialize (Hall b (or_introl eq_refl)). lia.
Qed.

Lemma sorted_inv a l : sorted (a :: l) = true -> sorted l = true /\ (forall x, In x l -> a <= x).
Proof.
  revert a. induction l as [|b l IH]; intros a H; [split; [reflexivity|intros x []]|].
  change (sorted (a :: b :: l)) with ((a <=? b) && sorted (b :: l)) in H.
  apply andb_prop in H as [Hab Hs]. split; [exact Hs|].
  destruct (IH b Hs) as [_ Hall]. intros x [<-|Hx]; [lia|]. specialize (Hall x Hx). lia.
Qed.

Lemma sorted_filter p l : sorted l = true -> sorted (filter p l) = true.
Proof.
  induction l as [|a l IH]; intros H; [reflexivity|].
  destruct (sorted_inv a l H) as [Hs Hall]. cbn [filter].
  destruct (p a); [|auto]. apply sorted_cons; [auto|].
  intros x Hx. apply filter_In in Hx as [Hx _]. auto.
Qed.

Lemma insert_sorted x l : sorted l = true -> sorted (insert_by (fun y => y) x l) = true.
Proof.
  induction l as [|a l IH]; intros H; [reflexivity|]. cbn [insert_by].
  destruct (N.leb_spec x a) as [Hxa|Hxa].
  - change (sorted (x :: a :: l)) with ((x <=? a) && sorted (a :: l)). rewrite H. lia.
  - destruct (sorted_inv a l H) as [Hs Hall]. apply sorted_cons; [auto|].
    intros y Hy. apply insert_in in Hy as [->|Hy]; [lia|auto].
Qed.

Lemma sort_sorted l : sorted (sort_by (fun y => y) l) = true.
Proof. induction l as [|a l IH]; [reflexivity|]. cbn. now apply insert_sorted. Qed.

Lemma filter_len_le {A} (p : A -> bool) l : (length (filter p l) <= length l)%nat.
Proof. induction l as [|a l IH]; cbn; [lia|]. destruct (p a); cbn; lia. Qed.

(* ---------- start times of the timed model ---------- *)
Lemma jitters_spec ds rs :
  exists starts, jitters ds rs = Ok starts /\ length starts = length ds /\
    forall s, In s starts -> exists d r, In d ds /\ add_jitter d r = Ok s.
Proof.
  revert rs. induction ds as [|d ds IH]; intros rs; cbn [jitters].
  - exists []. repeat split. intros s [].
  - destruct (jitter_ok d (hd 0 rs)) as [t Ht]. rewrite Ht.
    destruct (IH (tl rs)) as (l & -> & Hl & Hin).
    exists (t :: l). split; [reflexivity|]. split; [cbn; now rewrite Hl|].
    intros s [<-|Hs].
    + exists d, (hd 0 rs). split; [now left|exact Ht].
    + destruct (Hin s Hs) as (d' & r & Hd & Hr). exists d', r. split; [now right|exact Hr].
Qed.

Lemma model_calls_ok timeout H delays script rs :
  forallb (fun d => d <=? U64_MAX) delays = true ->
  exists calls sr, model_S timeout H delays script rs = Ok (calls, sr) /\
                   calls_ok (all_delays delays) calls = true.
Proof.
  intros Hwf. unfold model_S.
  destruct (jitters_spec (0 :: delays) rs) as (starts & Hj & Hlen & Hin). rewrite Hj.
  eexists _, _. split; [reflexivity|].
  assert (H0 : exists st, starts = 0 :: st).
  { cbn [jitters] in Hj. rewrite jitter_zero in Hj.
    destruct (jitters delays (tl rs)) as [l| |]; try discriminate. injection Hj as <-. eauto. }
  destruct H0 as [st ->].
  set (D := decision_time H _).
  unfold calls_ok. rewrite sorted_filter by apply sort_sorted.
  assert (Hhd : sort_by (fun y => y) (0 :: st) = 0 :: sort_by (fun y => y) st).
  { unfold sort_by. cbn [fold_right]. destruct (fold_right _ _ _) as [|b l]; [reflexivity|]. cbn [insert_by].
    destruct (N.leb_spec 0 b); [reflexivity|lia]. }
  rewrite Hhd. cbn [filter]. replace (0 <=? D) with true by lia. cbn [andb].
  rewrite N.eqb_refl. rewrite andb_true_r.
  apply andb_true_intro. split.
  - apply Nat.leb_le. cbn [length all_delays] in *.
    pose proof (filter_len_le (fun s => s <=? D) (sort_by (fun y => y) st)) as Hf.
    rewrite sort_length in Hf. lia.
  - assert (Hall : forall t, In t (0 :: st) -> existsb (fun d => within_pct d t) (all_delays delays) = true).
    { intros t Ht. destruct (Hin t Ht) as (d & r & Hd & Hr). apply existsb_exists. exists d.
      split; [exact Hd|]. apply (jitter_within_pct d r t); [|exact Hr].
      destruct Hd as [<-|Hd]; [unfold U64_MAX; lia|].
      rewrite forallb_forall in Hwf. specialize (Hwf d Hd). lia. }
    cbn [forallb]. rewrite (Hall 0 (or_introl eq_refl)). cbn [andb].
    apply forallb_forall. intros t Ht. apply filter_In in Ht as [Ht _].
    apply sort_in in Ht. apply Hall. now right.
Qed.

(* J inputs: every result of the model satisfies the monitor *)
Lemma model_monitor_J d k rs : monitor (J d k) (model (J d k) rs) = true.
Proof.
  unfold monitor. cbn [wf]. destruct (N.leb_spec d U64_MAX) as [Hd|Hd]; [|reflexivity]. cbn [negb model].
  apply forallb_forall. intros x Hx. apply in_map_iff in Hx as (r & <- & _).
  destruct (jitter_ok d r) as [t Ht]. rewrite Ht. now apply (jitter_within_pct d r).
Qed.

(* non-vacuity / witnesses *)
Example jitter_300 : add_jitter 300 77 = Ok 317.
Proof. vm_compute. reflexivity. Qed.
Example jitter_saturates : add_jitter U64_MAX 184467440737095515 = Ok U64_MAX.
Proof. vm_compute. reflexivity. Qed.
Example jitter_one : add_jitter 1 12345 = Ok 1.
Proof. vm_compute. reflexivity. Qed.
Example model_example :
  model (S 4 100 1000 [50; 2] [(100, Err 2); (10, Ok [7]); (10, Ok [8])]) [0; 5; 9]
  = OS (Ok ([0; 2], SOk [7])).
Proof. vm_compute. reflexivity. Qed.

(* ---------- the result half of the monitor, on the model's own run ---------- *)
Lemma completions_length timeout ss : forall script, length (completions timeout ss script) = length ss.
Proof. induction ss as [|s ss IH]; intros script; cbn; [reflexivity|]. now rewrite IH. Qed.

Lemma completions_ge timeout ss : forall script e,
  In e (completions timeout ss script) -> exists s, In s ss /\ s <= fst e.
Proof.
  induction ss as [|s ss IH]; intros script e H; cbn in H; [destruct H|].
  destruct H as [<-|H].
  - exists s. split; [now left|cbn; lia].
  - destruct (IH _ _ H) as (s' & Hs & Hle). exists s'. split; [now right|exact Hle].
Qed.

Lemma filter_nil {A} (p : A -> bool) l : (forall x, In x l -> p x = false) -> filter p l = [].
Proof.
  induction l as [|a l IH]; intros H; [reflexivity|]. cbn. rewrite (H a (or_introl eq_refl)).
  apply IH. intros x Hx. apply H. now right.
Qed.

Lemma completions_split timeout D ss : forall script,
  sorted ss = true ->
  exists rest, completions timeout ss script =
               completions timeout (filter (fun s => s <=? D) ss) script ++ rest /\
               forall e, In e rest -> D < fst e.
Proof.
  induction ss as [|s ss IH]; intros script Hs.
  - exists []. split; [reflexivity|]. intros e [].
  - destruct (sorted_inv s ss Hs) as [Hs' Hall]. cbn [filter].
    destruct (N.leb_spec s D) as [Hle|Hgt].
    + destruct (IH (tl script) Hs') as (rest & E & Hr). exists rest. split; [|exact Hr].
      cbn [completions]. rewrite E. reflexivity.
    + rewrite filter_nil.
      2:{ intros x Hx. specialize (Hall x Hx). lia. }
      exists (completions timeout (s :: ss) script). split; [reflexivity|].
      intros e He. apply completions_ge in He as (s' & [<-|Hin] & Hle); [lia|].
      specialize (Hall s' Hin). lia.
Qed.

(* first_ok_time *)
Lemma fot_some cs T : first_ok_time cs = Some T ->
  (exists v, In (T, Ok v) cs) /\ (forall c v, In (c, Ok v) cs -> T <= c).
Proof.
  revert T. induction cs as [|[c o] cs IH]; intros T H; cbn in H; [discriminate|].
  destruct o as [v|e|].
  - destruct (first_ok_time cs) as [c'|] eqn:E.
    + injection H as <-. destruct (IH c' eq_refl) as ((v' & Hin) & Hmin).
      split.
      * destruct (N.le_ge_cases c c').
        -- exists v. left. f_equal. lia.
        -- exists v'. right. replace (N.min c c') with c' by lia. exact Hin.
      * intros c0 v0 [[= <- <-]|Hin0]; [lia|]. specialize (Hmin _ _ Hin0). lia.
    + injection H as <-. split; [exists v; now left|].
      intros c0 v0 [[= <- <-]|Hin0]; [lia|].
      exfalso. clear IH. revert E Hin0. clear. induction cs as [|[c1 o1] cs IH]; cbn; [tauto|].
      destruct o1; try (destruct (first_ok_time cs); discriminate);
        intros E [Heq|Hin]; try congruence; auto.
  - destruct (IH T H) as ((v' & Hin) & Hmin). split; [exists v'; now right|].
    intros c0 v0 [Heq|Hin0]; [congruence|eauto].
  - destruct (IH T H) as ((v' & Hin) & Hmin). split; [exists v'; now right|].
    intros c0 v0 [Heq|Hin0]; [congruence|eauto].
Qed.

Lemma fot_none cs : first_ok_time cs = None -> forall c v, ~ In (c, Ok v) cs.
Proof.
  induction cs as [|[c1 o1] cs IH]; cbn; [tauto|].
  destruct o1; try (destruct (first_ok_time cs); discriminate);
    intros E c v [Heq|Hin]; try congruence; eapply IH; eauto.
Qed.

Lemma fot_intro cs T v :
  In (T, Ok v) cs -> (forall c v', In (c, Ok v') cs -> T <= c) -> first_ok_time cs = Some T.
Proof.
  intros Hin Hmin. destruct (first_ok_time cs) as [T'|] eqn:E.
  - destruct (fot_some cs T' E) as ((v' & Hin') & Hmin').
    specialize (Hmin _ _ Hin'). specialize (Hmin' _ _ Hin). f_equal. lia.
  - exfalso. eapply fot_none; eauto.
Qed.

Lemma fot_none_intro cs : (forall c v, ~ In (c, Ok v) cs) -> first_ok_time cs = None.
Proof.
  intros H. destruct (first_ok_time cs) as [T|] eqn:E; [|reflexivity].
  destruct (fot_some cs T E) as ((v & Hin) & _). exfalso. eapply H; eauto.
Qed.

(* sorting by a key *)
Lemma insert_by_sorted {A} (k : A -> N) x l :
  sorted (map k l) = true -> sorted (map k (insert_by k x l)) = true.
Proof.
  induction l as [|a l IH]; intros H; [reflexivity|]. cbn [insert_by].
  destruct (N.leb_spec (k x) (k a)) as [Hxa|Hxa].
  - cbn [map]. change (sorted (k x :: k a :: map k l)) with ((k x <=? k a) && sorted (k a :: map k l)).
    cbn [map] in H. rewrite H. lia.
  - cbn [map] in *. destruct (sorted_inv _ _ H) as [Hs Hall]. apply sorted_cons; [auto|].
    intros y Hy. apply in_map_iff in Hy as (z & <- & Hz). apply insert_in in Hz as [->|Hz]; [lia|].
    apply Hall. now apply in_map.
Qed.

Lemma sort_by_sorted {A} (k : A -> N) l : sorted (map k (sort_by k l)) = true.
Proof. induction l as [|a l IH]; [reflexivity|]. cbn. now apply insert_by_sorted. Qed.

Lemma sorted_map_filter {A} (k : A -> N) p l :
  sorted (map k l) = true -> sorted (map k (filter p l)) = true.
Proof.
  induction l as [|a l IH]; intros H; [reflexivity|]. cbn [map] in H.
  destruct (sorted_inv _ _ H) as [Hs Hall]. cbn [filter].
  destruct (p a); [|auto]. cbn [map]. apply sorted_cons; [auto|].
  intros y Hy. apply in_map_iff in Hy as (z & <- & Hz). apply filter_In in Hz as [Hz _].
  apply Hall. now apply in_map.
Qed.

Lemma filter_insert_length {A} (k : A -> N) p x l :
  length (filter p (insert_by k x l)) = length (filter p (x :: l)).
Proof.
  induction l as [|a l IH]; [reflexivity|]. cbn [insert_by].
  destruct (k x <=? k a); [reflexivity|]. cbn [filter] in *.
  destruct (p a); destruct (p x); cbn [length] in *; rewrite IH; reflexivity.
Qed.

Lemma filter_sort_length {A} (k : A -> N) p l :
  length (filter p (sort_by k l)) = length (filter p l).
Proof.
  induction l as [|a l IH]; [reflexivity|]. cbn [sort_by fold_right].
  rewrite filter_insert_length. cbn [filter]. unfold sort_by in IH. destruct (p a); cbn [length]; now rewrite IH.
Qed.

Lemma filter_all {A} (p : A -> bool) l : length (filter p l) = length l -> filter p l = l.
Proof.
  induction l as [|a l IH]; [reflexivity|]. cbn. destruct (p a); cbn; intros H.
  - f_equal. apply IH. lia.
  - pose proof (filter_len_le p l). lia.
Qed.

(* the stagger result of a list sorted by completion time *)
Definition no_panic (l : list entry) : Prop := forall e, In e l -> snd e <> Panic.

Lemma stagger_sorted_ok l v :
  sorted (map fst l) = true -> stagger_result (map snd l) = SOk v ->
  exists c, In (c, Ok v) l /\ forall c' v', In (c', Ok v') l -> c <= c'.
Proof.
  induction l as [|[c o] l IH]; intros Hs H; cbn in H; [discriminate|].
  cbn [map fst] in Hs. destruct (sorted_inv _ _ Hs) as [Hs' Hall].
  destruct o as [w|e|]; [| |discriminate].
  - injection H as <-. exists c. split; [now left|].
    intros c' v' [[= <- _]|Hin]; [lia|]. apply Hall. change c' with (fst (c', Ok v')). now apply in_map.
  - destruct (stagger_result (map snd l)) as [w|es|] eqn:E; try discriminate. injection H as <-.
    destruct (IH Hs' eq_refl) as (c0 & Hin & Hmin). exists c0. split; [now right|].
    intros c' v' [Heq|Hin']; [congruence|eauto].
Qed.

Lemma stagger_all_err l :
  no_panic l -> (forall c v, ~ In (c, Ok v) l) ->
  stagger_result (map snd l) = SErr (map (fun e => err_code (snd e)) l).
Proof.
  induction l as [|[c o] l IH]; intros Hp Hn; [reflexivity|]. cbn [map snd stagger_result].
  destruct o as [w|e|].
  - exfalso. apply (Hn c w). now left.
  - rewrite IH; [reflexivity| |].
    + intros x Hx. apply Hp. now right.
    + intros c' v' Hin. apply (Hn c' v'). now right.
  - exfalso. apply (Hp (c, Panic)); [now left|reflexivity].
Qed.

Lemma stagger_has_ok l c v :
  no_panic l -> In (c, Ok v) l -> exists w, stagger_result (map snd l) = SOk w.
Proof.
  intros Hp Hin.
  destruct (stagger_result_decided (map snd l)) as [[w E]|[es E]].
  - apply Forall_forall. intros o Ho. apply in_map_iff in Ho as (e & <- & He). now apply Hp.
  - eauto.
  - exfalso. apply all_errors_collected in E.
    assert (In (Ok v) (map snd l)) by (change (Ok v) with (snd (c, Ok v)); now apply in_map).
    rewrite E in H. apply in_map_iff in H as (x & Hx & _). discriminate.
Qed.

Lemma completions_no_panic timeout ss : forall script,
  forallb (fun e => negb (is_panic (snd e))) script = true ->
  no_panic (completions timeout ss script).
Proof.
  induction ss as [|s ss IH]; intros script Hw e He; cbn in He; [destruct He|].
  destruct He as [<-|He].
  - cbn [snd]. unfold eff. destruct (fst (hd default_entry script) <=? timeout); [|discriminate].
    destruct script as [|[d0 o0] script]; cbn; [discriminate|].
    cbn in Hw. apply andb_prop in Hw as [Hw _]. intros E. subst o0. discriminate Hw.
  - eapply IH; [|exact He]. destruct script; [reflexivity|]. cbn in Hw. now apply andb_prop in Hw as [_ Hw].
Qed.

Lemma combine_map_self {A B C} (g : A -> B) (f : A * B -> C) l :
  map f (combine l (map g l)) = map (fun x => f (x, g x)) l.
Proof. induction l as [|a l IH]; cbn; [reflexivity|]. now rewrite IH. Qed.

Lemma app_length_nil {A} (l r : list A) : length (l ++ r) = length l -> r = [].
Proof. rewrite app_length. destruct r; cbn; [reflexivity|lia]. Qed.

Lemma model_result_ok timeout H script ss :
  sorted ss = true ->
  forallb (fun e => negb (is_panic (snd e))) script = true ->
  let cs := completions timeout ss script in
  let D := decision_time H cs in
  result_ok timeout H (length ss) script (filter (fun s => s <=? D) ss) (timed_result H cs) = true.
Proof.
  intros Hs Hw cs D.
  destruct (completions_split timeout D ss script Hs) as (rest & Ecs & Hrest). fold cs in Ecs.
  set (calls := filter (fun s => s <=? D) ss) in *.
  unfold result_ok. set (called := completions timeout calls script) in *.
  set (vis := filter (fun c => fst c <=? H) called).
  assert (Hnp : no_panic cs) by (apply completions_no_panic; exact Hw).
  assert (Hlen : length cs = length ss) by apply completions_length.
  assert (Hlc : length called = length calls) by apply completions_length.
  assert (Hcalled : forall e, In e called -> In e cs) by (intros e He; rewrite Ecs; apply in_or_app; now left).
  assert (Hcs : forall e, In e cs -> fst e <= D -> In e called).
  { intros e He Hle. rewrite Ecs in He. apply in_app_or in He as [He|He]; [exact He|].
    specialize (Hrest e He). lia. }
  assert (Hvis : forall e, In e vis <-> In e called /\ fst e <= H).
  { intros e. unfold vis. rewrite filter_In. split; intros [A B]; split; auto; lia. }
  set (sc := sort_by fst cs).
  set (visF := filter (fun c => fst c <=? H) sc).
  assert (HvisF : forall e, In e visF <-> In e cs /\ fst e <= H).
  { intros e. unfold visF. rewrite filter_In. unfold sc. rewrite sort_in. split; intros [A B]; split; auto; lia. }
  assert (HnpF : no_panic visF) by (intros e He; apply Hnp; now apply HvisF in He).
  assert (HsF : sorted (map fst visF) = true) by (apply sorted_map_filter, sort_by_sorted).
  assert (HlenF : length visF = length (filter (fun c => fst c <=? H) cs)) by apply filter_sort_length.
  assert (Hcalls_le : forall s, In s calls -> s <= D).
  { intros s Hin. apply filter_In in Hin as [_ Hin]. lia. }
  (* is there a success visible before the horizon? *)
  assert (Hcase : (exists T v, first_ok_time cs = Some T /\ T <= H /\ D = T /\ In (T, Ok v) cs /\
                              forall c v', In (c, Ok v') cs -> T <= c) \/
                  (D = H /\ forall c v, In (c, Ok v) cs -> H < c)).
  { unfold D, decision_time. destruct (first_ok_time cs) as [T|] eqn:E.
    - destruct (fot_some cs T E) as ((v & Hin) & Hmin). destruct (N.le_gt_cases T H).
      + left. exists T, v. repeat split; auto. lia.
      + right. split; [lia|]. intros c v' Hc. specialize (Hmin _ _ Hc). lia.
    - right. split; [reflexivity|]. intros c v Hc. exfalso. eapply fot_none; eauto. }
  destruct Hcase as [(T & v & E & HTH & HDT & HinT & Hmin)|[HDH Hno]].
  - (* a visible success: the earliest one decides *)
    assert (Ev : first_ok_time vis = Some T).
    { apply (fot_intro vis T v).
      - apply Hvis. split; [apply Hcs; [exact HinT|cbn; lia]|cbn; lia].
      - intros c v' Hc. apply Hvis in Hc as [Hc _]. apply Hcalled in Hc. eauto. }
    rewrite Ev.
    assert (Hall : forallb (fun s => s <=? T) calls = true).
    { apply forallb_forall. intros s Hin. specialize (Hcalls_le s Hin). lia. }
    rewrite Hall. cbn [andb].
    destruct (stagger_has_ok visF T v HnpF ltac:(apply HvisF; split; [exact HinT|cbn; lia])) as [w Ew].
    destruct (stagger_sorted_ok visF w HsF Ew) as (c & Hc & Hcmin).
    assert (c = T).
    { assert (In (T, Ok v) visF) by (apply HvisF; split; [exact HinT|cbn; lia]).
      specialize (Hcmin _ _ H0). apply HvisF in Hc as [Hc _]. specialize (Hmin _ _ Hc). lia. }
    subst c. unfold timed_result. fold sc. fold visF. rewrite Ew.
    apply existsb_exists. exists (T, Ok w). split.
    + apply Hvis. apply HvisF in Hc as [Hc _]. split; [apply Hcs; [exact Hc|cbn; lia]|cbn; lia].
    + cbn [fst snd]. rewrite N.eqb_refl. cbn [andb res_eqb]. apply list_eqb_refl, N.eqb_refl.
  - (* no success before the horizon *)
    assert (Ev : first_ok_time vis = None).
    { apply fot_none_intro. intros c v Hc. apply Hvis in Hc as [Hc Hle]. apply Hcalled in Hc.
      specialize (Hno _ _ Hc). cbn in Hle. lia. }
    rewrite Ev.
    assert (EF : stagger_result (map snd visF) = SErr (map (fun e => err_code (snd e)) visF)).
    { apply stagger_all_err; [exact HnpF|]. intros c v Hc. apply HvisF in Hc as [Hc Hle].
      specialize (Hno _ _ Hc). cbn in Hle. lia. }
    unfold timed_result. fold sc. fold visF. rewrite EF.
    destruct ((length calls =? length ss)%nat && (length vis =? length ss)%nat) eqn:Eall.
    + apply andb_prop in Eall as [E1 E2]. apply Nat.eqb_eq in E1. apply Nat.eqb_eq in E2.
      assert (Hrest0 : rest = []).
      { apply (app_length_nil called rest). rewrite <- Ecs. lia. }
      assert (Ecc : called = cs) by (rewrite Ecs, Hrest0; now rewrite app_nil_r).
      assert (Hfull : length visF = length cs).
      { rewrite HlenF. rewrite <- Ecc. fold vis. lia. }
      rewrite Hfull, Nat.eqb_refl.
      assert (EvF : visF = sc).
      { apply filter_all. fold visF. rewrite Hfull. unfold sc. now rewrite sort_length. }
      rewrite EvF.
      match goal with |- context [length (map ?f sc)] =>
        replace (length (map f sc)) with (length ss)
          by (rewrite map_length; unfold sc; rewrite sort_length; symmetry; exact Hlen) end.
      rewrite Nat.eqb_refl. cbn [andb].
      rewrite Ecc. fold sc.
      rewrite combine_map_self.
      apply list_eqb_refl, N.eqb_refl.
    + assert (Hne : (length visF =? length cs)%nat = false).
      { apply Nat.eqb_neq. intros Heq. rewrite HlenF in Heq.
        assert (Hfa : filter (fun c => fst c <=? H) cs = cs) by (now apply filter_all).
        assert (Hrest0 : rest = []).
        { destruct rest as [|e rest']; [reflexivity|]. exfalso.
          assert (In e cs) by (rewrite Ecs; apply in_or_app; right; now left).
          rewrite <- Hfa in H0. apply filter_In in H0 as [_ Hle]. cbn beta in Hle. specialize (Hrest e (or_introl eq_refl)). lia. }
        assert (Ecc : called = cs) by (rewrite Ecs, Hrest0; now rewrite app_nil_r).
        assert (length calls = length ss) by (rewrite <- Hlc, Ecc; exact Hlen).
        assert (length vis = length ss).
        { unfold vis. rewrite Ecc, Hfa. exact Hlen. }
        rewrite H0, H1, !Nat.eqb_refl in Eall. discriminate. }
      rewrite Hne. apply forallb_forall. intros s Hin. specialize (Hcalls_le s Hin). lia.
Qed.

Lemma model_monitor_S api timeout H delays script rs :
  monitor (S api timeout H delays script) (model (S api timeout H delays script) rs) = true.
Proof.
  unfold monitor. destruct (wf (S api timeout H delays script)) eqn:W; [|reflexivity]. cbn [negb].
  cbn [wf] in W. apply andb_prop in W as [W1 W2]. cbn [model].
  destruct (model_calls_ok timeout H delays script rs W1) as (calls & sr & E & Hc).
  rewrite E. rewrite Hc. cbn [andb].
  unfold model_S in E.
  destruct (jitters_spec (0 :: delays) rs) as (starts & Hj & Hlen & _). rewrite Hj in E.
  injection E as <- <-.
  replace (length (all_delays delays)) with (length (sort_by (fun x => x) starts))
    by (rewrite sort_length; exact Hlen).
  apply model_result_ok; [apply sort_sorted|exact W2].
Qed.

Lemma model_monitor i rs : monitor i (model i rs) = true.
Proof. destruct i; [apply model_monitor_J|apply model_monitor_S]. Qed.
