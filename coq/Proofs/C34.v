(* C34 — proofs about add_jitter and the stagger result. *)
From V Require Import Lib.Base Lib.MachineInt Gen.Consts Model.C34.
From Coq Require Import ZifyBool.
Import C34.
Open Scope N_scope.

(* ---------- add_jitter ---------- *)
Lemma jitter_zero r : add_jitter 0 r = Ok 0.
Proof. reflexivity. Qed.

Lemma jitter_total d r : add_jitter d r <> Panic.
Proof.
  unfold add_jitter. destruct (d =? 0); [discriminate|].
  destruct (max_jitter d =? 0); discriminate.
Qed.

Lemma jitter_ok d r : exists t, add_jitter d r = Ok t.
Proof.
  unfold add_jitter. destruct (d =? 0); [eauto|].
  destruct (max_jitter d =? 0); eauto.
Qed.

Lemma max_jitter_facts d :
  100 * max_jitter d <= N.min (d * 40) U64_MAX /\ N.min (d * 40) U64_MAX < 100 * max_jitter d + 100.
Proof.
  unfold max_jitter, u64_sat_mul, MAX_JITTER_PERCENT, C34_MAX_JITTER_PERCENT.
  change (20 * 2) with 40.
  pose proof (N.div_mod (N.min (d * 40) U64_MAX) 100 ltac:(lia)) as E.
  pose proof (N.mod_lt (N.min (d * 40) U64_MAX) 100 ltac:(lia)) as L.
  set (m := N.min (d * 40) U64_MAX) in *. clearbody m.
  generalize dependent (m / 100). generalize dependent (m mod 100). intros. lia.
Qed.

Lemma half_facts q : 2 * (q / 2) <= q /\ q < 2 * (q / 2) + 2.
Proof.
  pose proof (N.div_mod q 2 ltac:(lia)) as E. pose proof (N.mod_lt q 2 ltac:(lia)) as L.
  generalize dependent (q / 2). generalize dependent (q mod 2). intros. lia.
Qed.

(* +/- 20 %, for every u64 delay and every random value, saturation included *)
Lemma jitter_bounds d r t :
  d <= U64_MAX -> add_jitter d r = Ok t ->
  4 * d <= 5 * t /\ 5 * t <= 6 * d /\ t <= U64_MAX.
Proof.
  intros Hd. unfold add_jitter.
  destruct (N.eqb_spec d 0) as [->|Hnz]; [intros [= <-]; unfold U64_MAX; lia|].
  destruct (N.eqb_spec (max_jitter d) 0) as [Hz|Hq]; [intros [= <-]; lia|].
  intros [= <-]. unfold u64_sat_add, u64_sat_sub.
  pose proof (max_jitter_facts d) as [F1 F2].
  pose proof (half_facts (max_jitter d)) as [G1 G2].
  pose proof (N.mod_lt r (max_jitter d) Hq) as L.
  generalize dependent (r mod max_jitter d). generalize dependent (max_jitter d / 2).
  generalize dependent (max_jitter d). intros. unfold U64_MAX in *. lia.
Qed.

Lemma jitter_within_pct d r t :
  d <= U64_MAX -> add_jitter d r = Ok t -> within_pct d t = true.
Proof.
  intros Hd H. destruct (jitter_bounds d r t Hd H) as (A & B & _).
  unfold within_pct, MAX_JITTER_PERCENT, C34_MAX_JITTER_PERCENT. lia.
Qed.

(* delays too small to jitter are used as they are (the class that panicked before the fix) *)
Lemma jitter_small d r : 1 <= d <= 2 -> add_jitter d r = Ok d.
Proof.
  intros H. assert (d = 1 \/ d = 2) as [-> | ->] by lia; reflexivity.
Qed.

Lemma max_jitter_zero_iff d : d <= U64_MAX -> (max_jitter d = 0 <-> d <= 2).
Proof.
  intros Hd. pose proof (max_jitter_facts d) as [F1 F2]. unfold U64_MAX in *. lia.
Qed.

Lemma aj_s d r : d <> 0 -> max_jitter d = 0 -> add_jitter d r = Ok d.
Proof.
  intros Hd Hz. unfold add_jitter. destruct (N.eqb_spec d 0); [contradiction|].
  rewrite Hz. reflexivity.
Qed.

Lemma aj_j d r : d <> 0 -> max_jitter d <> 0 ->
  add_jitter d r = Ok (N.min (d - max_jitter d / 2 + r mod max_jitter d) U64_MAX).
Proof.
  intros Hd Hz. unfold add_jitter. destruct (N.eqb_spec d 0); [contradiction|].
  destruct (N.eqb_spec (max_jitter d) 0); [contradiction|]. reflexivity.
Qed.

(* admissible = "some random value produces it" *)
Lemma admissible_iff d t :
  d <= U64_MAX -> (admissible d (Ok t) = true <-> exists r, add_jitter d r = Ok t).
Proof.
  intros Hd. unfold admissible. split.
  - intros H. apply andb_prop in H as [H _]. apply andb_prop in H as [_ H].
    exists (t - u64_sat_sub d (max_jitter d / 2)).
    destruct (add_jitter d (t - u64_sat_sub d (max_jitter d / 2))) as [x| |]; unfold res_eqb in H; try discriminate.
    apply N.eqb_eq in H. now subst.
  - intros [r H].
    destruct (N.eq_dec d 0) as [->|Hnz].
    { rewrite jitter_zero in H. injection H as <-. reflexivity. }
    destruct (N.eq_dec (max_jitter d) 0) as [Hz|Hq].
    { rewrite (aj_s d r Hnz Hz) in H. injection H as <-.
      rewrite (aj_s d _ Hnz Hz). unfold res_eqb, u64_sat_sub. rewrite Hz.
      replace (0 / 2) with 0 by reflexivity. rewrite N.eqb_refl. lia. }
    rewrite (aj_j d r Hnz Hq) in H. injection H as <-.
    pose proof (max_jitter_facts d) as [F1 F2]. pose proof (half_facts (max_jitter d)) as [G1 G2].
    pose proof (N.mod_lt r (max_jitter d) Hq) as L.
    set (q := max_jitter d) in *. unfold u64_sat_sub. set (b := d - q / 2).
    set (t := N.min (b + r mod q) U64_MAX).
    assert (Hr : t - b < q /\ b <= t).
    { subst t b. generalize dependent (r mod q). generalize dependent (q / 2). intros.
      unfold U64_MAX in *. lia. }
    destruct Hr as [Hr Hb].
    rewrite (aj_j d (t - b) Hnz Hq). fold q. fold b. rewrite (N.mod_small _ _ Hr).
    replace (N.min (b + (t - b)) U64_MAX) with t by (subst t; lia).
    unfold res_eqb. rewrite N.eqb_refl. lia.
Qed.

(* ---------- the stagger result ---------- *)
Definition is_err (o : outcome) : Prop := exists e, o = Err e.

Lemma first_ok_wins outs v :
  stagger_result outs = SOk v <->
  exists pre post, outs = pre ++ Ok v :: post /\ Forall is_err pre.
Proof.
  split.
  - revert v. induction outs as [|o outs IH]; intros v H; cbn in H; [discriminate|].
    destruct o as [w|e|].
    + injection H as <-. exists [], outs. split; [reflexivity|constructor].
    + destruct (stagger_result outs) as [w|es|] eqn:E; try discriminate.
      injection H as <-. destruct (IH w eq_refl) as (pre & post & -> & Hp).
      exists (Err e :: pre), post. split; [reflexivity|]. constructor; [now exists e|exact Hp].
    + discriminate.
  - intros (pre & post & -> & Hp). induction Hp as [|o pre [e ->] Hp IH]; cbn; [reflexivity|].
    now rewrite IH.
Qed.

Lemma all_errors_collected outs es :
  stagger_result outs = SErr es <-> outs = map Err es.
Proof.
  split.
  - revert es. induction outs as [|o outs IH]; intros es H; cbn in H.
    + injection H as <-. reflexivity.
    + destruct o as [w|e|]; try discriminate.
      destruct (stagger_result outs) as [w|es'|] eqn:E; try discriminate.
      injection H as <-. cbn. f_equal. now apply IH.
  - intros ->. induction es as [|e es IH]; cbn; [reflexivity|]. now rewrite IH.
Qed.

(* never SPending/panic-free: with scripted (non-panicking) attempts the result is Ok or Err *)
Lemma stagger_result_decided outs :
  Forall (fun o => o <> Panic) outs ->
  (exists v, stagger_result outs = SOk v) \/ (exists es, stagger_result outs = SErr es).
Proof.
  induction 1 as [|o outs Ho _ IH]; cbn; [right; eauto|].
  destruct o as [w|e|]; [left; eauto| |contradiction].
  destruct IH as [[v ->]|[es ->]]; [left|right]; eauto.
Qed.

(* ---------- sorting helpers ---------- *)
Lemma insert_length {A} (k : A -> N) x l : length (insert_by k x l) = Datatypes.S (length l).
Proof. induction l as [|y l IH]; cbn; [reflexivity|]. destruct (k x <=? k y); cbn; now rewrite ?IH. Qed.

Lemma sort_length {A} (k : A -> N) l : length (sort_by k l) = length l.
Proof. induction l as [|y l IH]; cbn; [reflexivity|]. unfold sort_by in IH. now rewrite insert_length, IH. Qed.

Lemma insert_in {A} (k : A -> N) x y l : In y (insert_by k x l) <-> y = x \/ In y l.
Proof.
  induction l as [|z l IH]; cbn; [intuition|].
  destruct (k x <=? k z); cbn; rewrite ?IH; intuition.
Qed.

Lemma sort_in {A} (k : A -> N) y l : In y (sort_by k l) <-> In y l.
Proof.
  induction l as [|z l IH]; cbn; [tauto|]. unfold sort_by in IH. rewrite insert_in, IH. intuition.
Qed.

Lemma sorted_cons a l : sorted l = true -> (forall x, In x l -> a <= x) -> sorted (a :: l) = true.
Proof.
  destruct l as [|b l]; [reflexivity|]. intros Hs Hall.
  change (sorted (a :: b :: l)) with ((a <=? b) && sorted (b :: l)). rewrite Hs.
  specialize (Hall b (or_introl eq_refl)). lia.
Qed.

Lemma sorted_inv a l : sorted (a :: l) = true -> sorted l = true /\ (forall x, In x l -> a <= x).
Proof.
  revert a. induction l as [|b l IH]; intros a H; [split; [reflexivity|intros x []]|].
  change (sorted (a :: b :: l)) with ((a <=? b) && sorted (b :: l)) in H.
  apply andb_prop in H as [Hab Hs]. split; [exact Hs|].
  destruct (IH b Hs) as [_ Hall]. intros x [<-|Hx]; [lia|]. specialize (Hall x Hx). lia.
Qed.

Lemma sorted_filter p l : sorted l = true -> sorted (filter p l) = true.
Proof.
  induction l as [|a l IH]; intros H; [reflexivity|].
  destruct (sorted_inv a l H) as [Hs Hall]. cbn [filter].
  destruct (p a); [|auto]. apply sorted_cons; [auto|].
  intros x Hx. apply filter_In in Hx as [Hx _]. auto.
Qed.

Lemma insert_sorted x l : sorted l = true -> sorted (insert_by (fun y => y) x l) = true.
Proof.
  induction l as [|a l IH]; intros H; [reflexivity|]. cbn [insert_by].
  destruct (N.leb_spec x a) as [Hxa|Hxa].
  - change (sorted (x :: a :: l)) with ((x <=? a) && sorted (a :: l)). rewrite H. lia.
  - destruct (sorted_inv a l H) as [Hs Hall]. apply sorted_cons; [auto|].
    intros y Hy. apply insert_in in Hy as [->|Hy]; [lia|auto].
Qed.

Lemma sort_sorted l : sorted (sort_by (fun y => y) l) = true.
Proof. induction l as [|a l IH]; [reflexivity|]. cbn. now apply insert_sorted. Qed.

Lemma filter_len_le {A} (p : A -> bool) l : (length (filter p l) <= length l)%nat.
Proof. induction l as [|a l IH]; cbn; [lia|]. destruct (p a); cbn; lia. Qed.

(* ---------- start times of the timed model ---------- *)
Lemma jitters_spec ds rs :
  exists starts, jitters ds rs = Ok starts /\ length starts = length ds /\
    forall s, In s starts -> exists d r, In d ds /\ add_jitter d r = Ok s.
Proof.
  revert rs. induction ds as [|d ds IH]; intros rs; cbn [jitters].
  - exists []. repeat split. intros s [].
  - destruct (jitter_ok d (hd 0 rs)) as [t Ht]. rewrite Ht.
    destruct (IH (tl rs)) as (l & -> & Hl & Hin).
    exists (t :: l). split; [reflexivity|]. split; [cbn; now rewrite Hl|].
    intros s [<-|Hs].
    + exists d, (hd 0 rs). split; [now left|exact Ht].
    + destruct (Hin s Hs) as (d' & r & Hd & Hr). exists d', r. split; [now right|exact Hr].
Qed.

Lemma model_calls_ok timeout H delays script rs :
  forallb (fun d => d <=? U64_MAX) delays = true ->
  exists calls sr, model_S timeout H delays script rs = Ok (calls, sr) /\
                   calls_ok (all_delays delays) calls = true.
Proof.
  intros Hwf. unfold model_S.
  destruct (jitters_spec (0 :: delays) rs) as (starts & Hj & Hlen & Hin). rewrite Hj.
  eexists _, _. split; [reflexivity|].
  assert (H0 : exists st, starts = 0 :: st).
  { cbn [jitters] in Hj. rewrite jitter_zero in Hj.
    destruct (jitters delays (tl rs)) as [l| |]; try discriminate. injection Hj as <-. eauto. }
  destruct H0 as [st ->].
  set (D := decision_time H _).
  unfold calls_ok. rewrite sorted_filter by apply sort_sorted.
  assert (Hhd : sort_by (fun y => y) (0 :: st) = 0 :: sort_by (fun y => y) st).
  { unfold sort_by. cbn [fold_right]. destruct (fold_right _ _ _) as [|b l]; [reflexivity|]. cbn [insert_by].
    destruct (N.leb_spec 0 b); [reflexivity|lia]. }
  rewrite Hhd. cbn [filter]. replace (0 <=? D) with true by lia. cbn [andb].
  rewrite N.eqb_refl. rewrite andb_true_r.
  apply andb_true_intro. split.
  - apply Nat.leb_le. cbn [length all_delays] in *.
    pose proof (filter_len_le (fun s => s <=? D) (sort_by (fun y => y) st)) as Hf.
    rewrite sort_length in Hf. lia.
  - assert (Hall : forall t, In t (0 :: st) -> existsb (fun d => within_pct d t) (all_delays delays) = true).
    { intros t Ht. destruct (Hin t Ht) as (d & r & Hd & Hr). apply existsb_exists. exists d.
      split; [exact Hd|]. apply (jitter_within_pct d r t); [|exact Hr].
      destruct Hd as [<-|Hd]; [unfold U64_MAX; lia|].
      rewrite forallb_forall in Hwf. specialize (Hwf d Hd). lia. }
    cbn [forallb]. rewrite (Hall 0 (or_introl eq_refl)). cbn [andb].
    apply forallb_forall. intros t Ht. apply filter_In in Ht as [Ht _].
    apply sort_in in Ht. apply Hall. now right.
Qed.

(* J inputs: every result of the model satisfies the monitor *)
Lemma model_monitor_J d k rs : monitor (J d k) (model (J d k) rs) = true.
Proof.
  unfold monitor. cbn [wf]. destruct (N.leb_spec d U64_MAX) as [Hd|Hd]; [|reflexivity]. cbn [negb model].
  apply forallb_forall. intros x Hx. apply in_map_iff in Hx as (r & <- & _).
  destruct (jitter_ok d r) as [t Ht]. rewrite Ht. now apply (jitter_within_pct d r).
Qed.

(* non-vacuity / witnesses *)
Example jitter_300 : add_jitter 300 77 = Ok 317.
Proof. vm_compute. reflexivity. Qed.
Example jitter_saturates : add_jitter U64_MAX 184467440737095515 = Ok U64_MAX.
Proof. vm_compute. reflexivity. Qed.
Example jitter_one : add_jitter 1 12345 = Ok 1.
Proof. vm_compute. reflexivity. Qed.
Example model_example :
  model (S 4 100 1000 [50; 2] [(100, Err 2); (10, Ok [7]); (10, Ok [8])]) [0; 5; 9]
  = OS (Ok ([0; 2], SOk [7])).
Proof. vm_compute. reflexivity. Qed.
