(* C41 — proofs about the router shutdown transition system. *)
From V Require Import Lib.Base Model.C41.
From Coq Require Import ZifyBool.
Import C41.
Open Scope N_scope.

Definition ret_ok (c : cpc) : bool :=
  match c with CRet ok hd ec => ok && hd && ec | _ => true end.

Definition all_ret_ok (s : st) : bool := forallb ret_ok (callers s).

(* how far the run loop has got *)
Definition past_handlers (l : lpc) : bool :=
  match l with LHDone | LHCancelled | LEpClosed | LExited => true | _ => false end.
Definition past_close (l : lpc) : bool :=
  match l with LEpClosed | LExited => true | _ => false end.
Definition exited (l : lpc) : bool := match l with LExited => true | _ => false end.

(* Invariant of the fixed code *)
Definition inv (s : st) : Prop :=
  (done s = true -> loop s = LExited) /\
  (past_handlers (loop s) = true -> hdone_obs s = true) /\
  (past_close (loop s) = true -> ep_closed s = true) /\
  all_ret_ok s = true.

Lemma forallb_set_nth {A} (f : A -> bool) i x l :
  forallb f l = true -> f x = true -> forallb f (set_nth i x l) = true.
Proof.
  revert i; induction l as [|a r IH]; intros i H Hx; [now destruct i|].
  cbn in H. apply andb_prop in H as [Ha Hr].
  destruct i; cbn; rewrite ?Ha, ?Hx; cbn; auto.
Qed.

Lemma inv_init h n : inv (init h n).
Proof.
  unfold inv, init; cbn. repeat split; try discriminate.
  unfold all_ret_ok; cbn. induction n; cbn; auto.
Qed.

Lemma ret_now_ok s : inv s -> loop s = LExited -> ret_ok (ret_now s) = true.
Proof.
  intros (_ & H2 & H3 & _) E. unfold ret_now; cbn. rewrite E in *.
  rewrite H2, H3 by reflexivity. reflexivity.
Qed.

Lemma inv_set_caller s i c : inv s -> ret_ok c = true -> inv (set_caller s i c).
Proof.
  intros (H1 & H2 & H3 & H4) Hc. unfold inv, set_caller, hdone_obs in *; cbn in *.
  repeat split; auto. unfold all_ret_ok in *; cbn. now apply forallb_set_nth.
Qed.

Lemma step_inv s e s' : inv s -> step true s e = Some s' -> inv s'.
Proof.
  intros I H. destruct e; cbn [step] in H.
  - (* CCheck *)
    destruct (at_pc s i CNew); [|discriminate].
    destruct (cancelled s); inversion H; subst; apply inv_set_caller; auto.
  - (* CCancel *)
    destruct (at_pc s i CChecked); [|discriminate]. inversion H; subst.
    apply inv_set_caller; [|reflexivity].
    destruct I as (H1 & H2 & H3 & H4). unfold inv, hdone_obs in *; cbn in *. auto.
  - (* CTake *)
    destruct (at_pc s i CCancelled); [|discriminate].
    destruct (task_present s); inversion H; subst.
    + apply inv_set_caller; [|reflexivity].
      destruct I as (H1 & H2 & H3 & H4). unfold inv, hdone_obs in *; cbn in *. auto.
    + apply inv_set_caller; auto.
  - (* CAwait *)
    destruct (at_pc s i CAwaiting); [|discriminate].
    destruct (loop s) eqn:L; try discriminate. inversion H; subst.
    apply inv_set_caller; auto. now apply ret_now_ok.
  - (* CWaitDone *)
    destruct (at_pc s i CWaiting && done s) eqn:C; [|discriminate]. inversion H; subst.
    apply andb_prop in C as [_ D]. apply inv_set_caller; auto.
    apply ret_now_ok; auto. now apply I.
  - (* LBreak *)
    destruct (loop s) eqn:L; try discriminate.
    destruct (cancelled s || ep_closed s); [|discriminate]. inversion H; subst.
    destruct I as (H1 & H2 & H3 & H4). unfold inv, hdone_obs, all_ret_ok in *; cbn in *.
    rewrite L in *. repeat split; auto; try discriminate.
    intros D. specialize (H1 D). discriminate.
  - (* LHStart *)
    destruct (loop s) eqn:L; try discriminate. inversion H; subst.
    destruct I as (H1 & H2 & H3 & H4). unfold inv, hdone_obs, all_ret_ok in *; cbn in *.
    rewrite L in *. repeat split; auto; try discriminate.
    intros D. specialize (H1 D). discriminate.
  - (* LHFinish *)
    destruct (loop s) eqn:L; try discriminate.
    destruct (gate s || (nh s =? 0)); [|discriminate]. inversion H; subst.
    destruct I as (H1 & H2 & H3 & H4). unfold inv, hdone_obs, all_ret_ok in *; cbn in *.
    rewrite L in *. repeat split; auto; try discriminate.
    intros D. specialize (H1 D). discriminate.
  - (* LCancelH *)
    destruct (loop s) eqn:L; try discriminate. inversion H; subst.
    destruct I as (H1 & H2 & H3 & H4). unfold inv, hdone_obs, all_ret_ok in *; cbn in *.
    rewrite L in *. repeat split; auto; try discriminate.
    intros D. specialize (H1 D). discriminate.
  - (* LEpClose *)
    destruct (loop s) eqn:L; try discriminate. inversion H; subst.
    destruct I as (H1 & H2 & H3 & H4). unfold inv, hdone_obs, all_ret_ok in *; cbn in *.
    rewrite L in *. repeat split; auto; try discriminate.
    intros D. specialize (H1 D). discriminate.
  - (* LExit *)
    destruct (loop s) eqn:L; try discriminate. inversion H; subst.
    destruct I as (H1 & H2 & H3 & H4). unfold inv, hdone_obs, all_ret_ok in *; cbn in *.
    rewrite L in *. repeat split; auto.
  - (* XClose *)
    inversion H; subst.
    destruct I as (H1 & H2 & H3 & H4). unfold inv, hdone_obs, all_ret_ok in *; cbn in *. auto.
  - (* Gate *)
    inversion H; subst.
    destruct I as (H1 & H2 & H3 & H4). unfold inv, hdone_obs, all_ret_ok in *; cbn in *. auto.
Qed.

Lemma run_inv tr : forall s s', inv s -> run true s tr = Some s' -> inv s'.
Proof.
  induction tr as [|e r IH]; intros s s' I H; cbn in H.
  - now inversion H; subst.
  - destruct (step true s e) as [s1|] eqn:E; [|discriminate].
    eapply IH; [eapply step_inv; eauto | exact H].
Qed.

(* Main theorem: for any number of handlers and callers and EVERY interleaving of the
   callers' steps, the run loop's steps, an external endpoint close and the handlers'
   completion, every call that has returned returned Ok after all handlers' shutdown had
   completed and the endpoint had been closed. *)
Lemma return_implies_done : forall h n tr s,
  run true (init h n) tr = Some s ->
  forall i ok hd ec, nth_error (callers s) i = Some (CRet ok hd ec) ->
    ok = true /\ hd = true /\ ec = true.
Proof.
  intros h n tr s R i ok hd ec Hn.
  destruct (run_inv tr _ _ (inv_init h n) R) as (_ & _ & _ & A).
  unfold all_ret_ok in A. rewrite forallb_forall in A.
  specialize (A _ (nth_error_In _ _ Hn)). cbn in A.
  apply andb_prop in A as [A1 A3]. apply andb_prop in A1 as [A1 A2]. auto.
Qed.

(* ... and a call that waits does return once the run loop is through: the fixed code does
   not trade the defect for a hang (liveness of the individual steps). *)
Lemma waiting_caller_can_return : forall s i,
  loop s = LExited -> done s = true ->
  (at_pc s i CWaiting = true -> exists s', step true s (CWaitDone i) = Some s') /\
  (at_pc s i CAwaiting = true -> exists s', step true s (CAwait i) = Some s').
Proof.
  intros s i L D. split; intros A; cbn [step]; rewrite A, ?D, ?L; cbn; eauto.
Qed.

Lemma exit_sets_done : forall s s', step true s LExit = Some s' -> done s' = true /\ loop s' = LExited.
Proof. intros s s' H. cbn in H. destruct (loop s); try discriminate. inversion H; subst. cbn. auto. Qed.

(* The code before the fix violates the property: two witnesses. *)
Definition old_witness_cancelled : list ev :=
  [CCheck 0; CCancel 0; CTake 0; LBreak; LHStart; CCheck 1].
Definition old_witness_taken : list ev :=
  [CCheck 0; CCheck 1; CCancel 1; CTake 1; LBreak; LHStart; CCancel 0; CTake 0].

Lemma old_code_refuted :
  (exists s, run false (init 1 2) old_witness_cancelled = Some s /\
             nth_error (callers s) 1 = Some (CRet true false false)) /\
  (exists s, run false (init 1 2) old_witness_taken = Some s /\
             nth_error (callers s) 0 = Some (CRet true false false)).
Proof. split; eexists; split; vm_compute; reflexivity. Qed.

(* The same traces under the fixed semantics leave the late caller waiting. *)
Example fixed_witness :
  exists s, run true (init 1 2) old_witness_cancelled = Some s /\
            nth_error (callers s) 1 = Some CWaiting.
Proof. eexists; split; vm_compute; reflexivity. Qed.

(* Non-vacuity: a complete shutdown with two callers under the fixed semantics. *)
Example fixed_complete :
  exists s, run true (init 2 2)
      [CCheck 0; CCancel 0; CTake 0; LBreak; LHStart; CCheck 1; Gate; LHFinish; LCancelH;
       LEpClose; LExit; CAwait 0; CWaitDone 1] = Some s /\
    callers s = [CRet true true true; CRet true true true].
Proof. eexists; split; vm_compute; reflexivity. Qed.

(* ------------------------------------------------------------------ *)
(* The script interpreter only takes steps of the transition system     *)

Definition reach (h : N) (n : nat) (s : st) : Prop := exists tr, run true (init h n) tr = Some s.

Lemma run_app fx tr1 : forall s s1 tr2, run fx s tr1 = Some s1 -> run fx s (tr1 ++ tr2) = run fx s1 tr2.
Proof.
  induction tr1 as [|e r IH]; intros s s1 tr2 H; cbn in *.
  - now inversion H.
  - destruct (step fx s e); [eauto | discriminate].
Qed.

Lemma reach_try h n s e : reach h n s -> reach h n (try_ev true s e).
Proof.
  intros [tr R]. unfold try_ev. destruct (step true s e) as [s'|] eqn:E; [|now exists tr].
  exists (tr ++ [e]). rewrite (run_app _ _ _ _ _ R). cbn. now rewrite E.
Qed.

Lemma reach_fold h n evs : forall s, reach h n s -> reach h n (fold_left (try_ev true) evs s).
Proof. induction evs as [|e r IH]; intros s R; cbn; [assumption|]. apply IH. now apply reach_try. Qed.

Lemma reach_action h n s a : reach h n s -> reach h n (do_action true s a).
Proof. intros R. unfold do_action, eager. now apply reach_fold, reach_fold. Qed.

Lemma reach_ok h n s : reach h n s -> forallb status_ok (map status_of (callers s)) = true.
Proof.
  intros [tr R]. destruct (run_inv tr _ _ (inv_init h n) R) as (_ & _ & _ & A).
  unfold all_ret_ok in A. rewrite forallb_forall in *. intros x Hx.
  apply in_map_iff in Hx as (c & <- & Hc). specialize (A c Hc). now destruct c.
Qed.

Lemma interp_ok h n acts : forall s, reach h n s ->
  forallb (fun sn : snap => forallb status_ok (snd sn)) (interp true s acts) = true.
Proof.
  induction acts as [|a r IH]; intros s R; [reflexivity|].
  cbn [interp forallb]. assert (R' := reach_action h n s a R).
  rewrite IH by assumption. unfold snapshot; cbn [snd]. now rewrite (reach_ok h n).
Qed.

Lemma fixed_model_monitor : forall h acts,
  forallb (fun sn : snap => forallb status_ok (snd sn)) (interp true (init h ncallers) acts) = true.
Proof. intros h acts. apply (interp_ok h ncallers). now exists []. Qed.

Lemma model_monitor : forall i, monitor i (model i) = true.
Proof. intros [h acts]. unfold model, monitor, code_is_fixed. apply fixed_model_monitor. Qed.
