(* C19 — proofs about the dispatch model. *)
From Coq Require Import ZifyBool Sorted Permutation.
From V Require Import Lib.Base Lib.Sorting Gen.Consts Model.C18 Proofs.C18 Model.C19.
Import C19.
Open Scope N_scope.

(* ------------------------------------------------------------------ the sort *)
Lemma leb_desc_total a b : leb_desc a b = true \/ leb_desc b a = true.
Proof. unfold leb_desc. lia. Qed.

Lemma leb_desc_trans a b c : leb_desc a b = true -> leb_desc b c = true -> leb_desc a c = true.
Proof. unfold leb_desc. lia. Qed.

Lemma bind_sort_sorted l : StronglySorted (Sorting.le leb_desc) (bind_sort l).
Proof. apply sort_sorted; [exact leb_desc_total|exact leb_desc_trans]. Qed.

Definition pick (P : sock -> bool) (a : sock) (acc : option sock) : option sock :=
  match acc with
  | Some s => if P a && (plen s <=? plen a) then Some a else Some s
  | None => if P a then Some a else None
  end.

Lemma best_cons P a l : best P (a :: l) = pick P a (best P l).
Proof. reflexivity. Qed.

Lemma find_some_in {A} (P : A -> bool) l s : find P l = Some s -> In s l /\ P s = true.
Proof. apply find_some. Qed.

Lemma find_insert P a L : StronglySorted (Sorting.le leb_desc) L ->
  find P (insert leb_desc a L) = pick P a (find P L).
Proof.
  induction 1 as [|x r Hr IH Hx]; cbn [insert].
  - cbn. destruct (P a); reflexivity.
  - destruct (leb_desc a x) eqn:E.
    + cbn [find]. destruct (P a) eqn:Pa.
      * destruct (if P x then Some x else find P r) as [s|] eqn:F; cbn [pick]; rewrite ?Pa; [|reflexivity].
        assert (Hs : plen s <= plen x).
        { destruct (P x); [inversion F; subst; lia|].
          apply find_some_in in F as [Hin _]. rewrite Forall_forall in Hx.
          specialize (Hx s Hin). unfold Sorting.le, leb_desc in Hx. lia. }
        unfold leb_desc in E. cbn [andb].
        destruct (plen s <=? plen a) eqn:E2; [reflexivity|lia].
      * unfold pick. rewrite Pa. cbn [andb]. destruct (if P x then Some x else find P r); reflexivity.
    + cbn [find]. destruct (P x) eqn:Px.
      * cbn [pick]. unfold leb_desc in E.
        destruct (plen x <=? plen a) eqn:E2; [lia|]. now rewrite andb_false_r.
      * exact IH.
Qed.

Lemma find_sort P l : find P (bind_sort l) = best P l.
Proof.
  induction l as [|a l IH]; [reflexivity|].
  unfold bind_sort in *. cbn [sort]. rewrite find_insert by apply bind_sort_sorted.
  rewrite IH. reflexivity.
Qed.

(* what `best` picks: the longest prefix among the matching sockets; among equals the
   earliest in the list *)
Lemma best_some P l s : best P l = Some s ->
  exists l1 l2, l = l1 ++ s :: l2 /\ P s = true /\
    (forall x, In x l1 -> P x = true -> plen x < plen s) /\
    (forall x, In x l2 -> P x = true -> plen x <= plen s).
Proof.
  revert s. induction l as [|a l IH]; intros s H; [discriminate|].
  rewrite best_cons in H. destruct (best P l) as [s0|] eqn:B; cbn [pick] in H.
  - destruct (IH s0 eq_refl) as [l1 [l2 [El [Ps [H1 H2]]]]].
    destruct (P a && (plen s0 <=? plen a)) eqn:C; inversion H; subst s.
    + apply andb_prop in C as [Pa C]. exists [], l. repeat split; auto.
      * intros x [].
      * intros x Hx Px. rewrite El in Hx. apply in_app_or in Hx as [Hx|[<-|Hx]].
        { specialize (H1 x Hx Px). lia. } { lia. } { specialize (H2 x Hx Px). lia. }
    + exists (a :: l1), l2. rewrite El. repeat split; auto.
      intros x [<-|Hx] Px; [|auto]. rewrite Px in C. cbn [andb] in C. lia.
  - destruct (P a) eqn:Pa; inversion H; subst s.
    exists [], l. repeat split; auto; [intros x []|].
    intros x Hx Px. exfalso. clear IH H.
    induction l as [|b l IHl]; [destruct Hx|].
    rewrite best_cons in B. destruct (best P l) as [s1|] eqn:B1; cbn [pick] in B.
    + destruct (P b && (plen s1 <=? plen b)); discriminate.
    + destruct (P b) eqn:Pb; [discriminate|]. destruct Hx as [<-|Hx]; [congruence|]. now apply IHl.
Qed.

Lemma best_none P l : best P l = None <-> (forall x, In x l -> P x = false).
Proof.
  induction l as [|a l IH]; [split; [intros _ x []|reflexivity]|].
  rewrite best_cons. destruct (best P l) as [s|] eqn:B; cbn [pick].
  - split.
    + destruct (P a && (plen s <=? plen a)); discriminate.
    + intros H. exfalso. apply best_some in B as [l1 [l2 [El [Ps _]]]].
      rewrite (H s) in Ps; [discriminate|]. right. rewrite El. apply in_or_app. right. now left.
  - destruct (P a) eqn:Pa.
    + split; [discriminate|]. intros H. rewrite (H a (or_introl eq_refl)) in Pa. discriminate.
    + split; [|reflexivity]. intros _ x [<-|Hx]; [exact Pa|]. now apply IH.
Qed.

(* ------------------------------------------------------------------ bind *)
Lemma bind_loop_spec rs : forall h4 h6 a4 a6 r4 r6,
  bind_loop rs h4 h6 a4 a6 = Ok (r4, r6) ->
  r4 = a4 ++ filter (fun s => negb (v6 s)) (bound rs) /\ r6 = a6 ++ filter v6 (bound rs).
Proof.
  unfold bound.
  induction rs as [|r rs IH]; intros h4 h6 a4 a6 r4 r6 H; cbn [bind_loop] in H.
  - inversion H; subst. cbn. now rewrite !app_nil_r.
  - cbn [filter]. destruct (rbindable r) eqn:Eb.
    + cbn [map filter]. destruct (v6 (rsock r)) eqn:E6; cbn [negb] in *.
      * destruct (isdef (rsock r)).
        { destruct h6; [discriminate|]. apply IH in H as [-> ->]. now rewrite <- app_assoc. }
        { apply IH in H as [-> ->]. now rewrite <- app_assoc. }
      * destruct (isdef (rsock r)).
        { destruct h4; [discriminate|]. apply IH in H as [-> ->]. now rewrite <- app_assoc. }
        { apply IH in H as [-> ->]. now rewrite <- app_assoc. }
    + destruct (rrequired r); [discriminate|]. now apply IH in H.
Qed.

Lemma bind_loop_no_panic rs : forall h4 h6 a4 a6, bind_loop rs h4 h6 a4 a6 <> Panic.
Proof.
  induction rs as [|r rs IH]; intros h4 h6 a4 a6; cbn [bind_loop]; [discriminate|].
  destruct (rbindable r); [|destruct (rrequired r); [discriminate|apply IH]].
  destruct (negb (v6 (rsock r))); destruct (isdef (rsock r));
    try apply IH; [destruct h4|destruct h6]; try discriminate; apply IH.
Qed.

Lemma bind_ok rs t : bind rs = Ok t ->
  t4 t = bind_sort (filter (fun s => negb (v6 s)) (bound rs)) /\
  t6 t = bind_sort (filter v6 (bound rs)).
Proof.
  unfold bind. destruct (bind_loop rs false false [] []) as [[a4 a6]|e|] eqn:E; try discriminate.
  intros H. inversion H; subst. cbn [t4 t6]. apply bind_loop_spec in E as [-> ->]. auto.
Qed.

Lemma fam_list_bound rs t d : bind rs = Ok t -> fam_list t d = bind_sort (fam_bound rs d).
Proof. intros H. apply bind_ok in H as [H4 H6]. destruct d; cbn [fam_list fam_bound]; assumption. Qed.

(* the stored order does not matter beyond what `best` says *)
Lemma dispatch_spec rs t src d : bind rs = Ok t -> dispatch t src d = spec_choice rs src d.
Proof.
  intros H. unfold dispatch, spec_choice. rewrite (fam_list_bound rs t d H), !find_sort. reflexivity.
Qed.

(* every bound socket of a family list has that family *)
Lemma fam_bound_family rs d s : In s (fam_bound rs d) ->
  v6 s = match d with D4 _ => false | D6 _ _ => true end.
Proof.
  destruct d; cbn [fam_bound]; rewrite filter_In; intros [_ H]; [now apply negb_true_iff in H|exact H].
Qed.

(* at most one default route per family after a successful bind *)
Lemma bind_loop_defaults rs : forall h4 h6 a4 a6 r4 r6,
  bind_loop rs h4 h6 a4 a6 = Ok (r4, r6) ->
  (h4 = true <-> exists s, In s a4 /\ isdef s = true) ->
  (h6 = true <-> exists s, In s a6 /\ isdef s = true) ->
  (length (filter isdef a4) <= 1)%nat -> (length (filter isdef a6) <= 1)%nat ->
  (length (filter isdef r4) <= 1)%nat /\ (length (filter isdef r6) <= 1)%nat.
Proof.
  induction rs as [|r rs IH]; intros h4 h6 a4 a6 r4 r6 H I4 I6 L4 L6; cbn [bind_loop] in H.
  - inversion H; subst. auto.
  - assert (NoDef : forall l, (~ exists s, In s l /\ isdef s = true) -> filter isdef l = []).
    { intros l Hn. induction l as [|x l IHl]; [reflexivity|]. cbn [filter].
      destruct (isdef x) eqn:E; [exfalso; apply Hn; exists x; cbn; auto|].
      apply IHl. intros [s [Hs Hd]]. apply Hn. exists s. cbn. auto. }
    destruct (rbindable r); [|destruct (rrequired r); [discriminate|eapply IH; eauto]].
    destruct (negb (v6 (rsock r))) eqn:E6; destruct (isdef (rsock r)) eqn:Ed.
    + destruct h4 eqn:Eh; [discriminate|]. eapply IH; try exact H; auto.
      * split; [intros _; exists (rsock r); split; [apply in_or_app; right; now left|exact Ed]|auto].
      * rewrite filter_app, app_length. cbn [filter]. rewrite Ed. cbn [length].
        rewrite NoDef; [cbn; lia|]. intros Hex. apply I4 in Hex. discriminate.
    + eapply IH; try exact H; auto.
      * rewrite I4. split; intros [s [Hs Hd]]; exists s; (split; [|exact Hd]).
        { apply in_or_app. now left. }
        { apply in_app_or in Hs as [Hs|[<-|[]]]; [exact Hs|congruence]. }
      * rewrite filter_app, app_length. cbn [filter]. rewrite Ed. cbn [length]. lia.
    + destruct h6 eqn:Eh; [discriminate|]. eapply IH; try exact H; auto.
      * split; [intros _; exists (rsock r); split; [apply in_or_app; right; now left|exact Ed]|auto].
      * rewrite filter_app, app_length. cbn [filter]. rewrite Ed. cbn [length].
        rewrite NoDef; [cbn; lia|]. intros Hex. apply I6 in Hex. discriminate.
    + eapply IH; try exact H; auto.
      * rewrite I6. split; intros [s [Hs Hd]]; exists s; (split; [|exact Hd]).
        { apply in_or_app. now left. }
        { apply in_app_or in Hs as [Hs|[<-|[]]]; [exact Hs|congruence]. }
      * rewrite filter_app, app_length. cbn [filter]. rewrite Ed. cbn [length]. lia.
Qed.

Lemma default_unique rs t d : bind rs = Ok t ->
  (length (filter isdef (fam_bound rs d)) <= 1)%nat.
Proof.
  unfold bind. destruct (bind_loop rs false false [] []) as [[a4 a6]|e|] eqn:E; try discriminate.
  intros _. pose proof E as E'. apply bind_loop_spec in E' as [E4 E6]. cbn [app] in E4, E6.
  apply bind_loop_defaults in E; cbn; try lia.
  - destruct E as [L4 L6]. destruct d; cbn [fam_bound]; [now rewrite <- E4|now rewrite <- E6].
  - split; [discriminate|intros [s [[] _]]].
  - split; [discriminate|intros [s [[] _]]].
Qed.

(* ------------------------------------------------------------------ the rules *)
Definition family_of_dst (d : dst) : bool := match d with D4 _ => false | D6 _ _ => true end.
Definition family_of_ip (a : ip) : bool := match a with IP4 _ => false | IP6 _ => true end.
Definition ip_num (a : ip) : N := match a with IP4 n | IP6 n => n end.

(* without a source address: the bound socket with the longest prefix containing the
   destination (or on the link-local destination's scope); ties go to the earlier bind *)
Lemma dst_rule rs t d i : bind rs = Ok t ->
  dispatch t None d = SendOn i false ->
  exists s l1 l2, fam_bound rs d = l1 ++ s :: l2 /\ sid s = i /\
    valid_send None d s = true /\
    (forall x, In x l1 -> valid_send None d x = true -> plen x < plen s) /\
    (forall x, In x l2 -> valid_send None d x = true -> plen x <= plen s).
Proof.
  intros Hb. rewrite (dispatch_spec rs t None d Hb). unfold spec_choice.
  destruct (best (valid_send None d) (fam_bound rs d)) as [s|] eqn:B.
  - intros H. inversion H; subst. apply best_some in B as [l1 [l2 [El [Ps [H1 H2]]]]].
    exists s, l1, l2. auto.
  - destruct (best isdef (fam_bound rs d)) as [s|]; [|discriminate].
    destruct (valid_default None d s); discriminate.
Qed.

(* what "matches the destination" means *)
Lemma valid_send_dst d s : valid_send None d s = true <->
  match d with
  | D4 a => v6 s = false /\ contains s a = true
  | D6 a sc => v6 s = true /\ (contains s a = true \/ (link_local a = true /\ scope s = sc))
  end.
Proof.
  unfold valid_send. destruct d as [a|a sc].
  - rewrite andb_true_iff, negb_true_iff. tauto.
  - rewrite andb_true_iff, orb_true_iff, andb_true_iff, N.eqb_eq. tauto.
Qed.

(* with a source address: a socket bound to exactly that source or to the wildcard address,
   of the source's (= the destination's) family *)
Lemma src_rule rs t a d i : bind rs = Ok t ->
  dispatch t (Some a) d = SendOn i false ->
  exists s, In s (fam_bound rs d) /\ sid s = i /\
    v6 s = family_of_ip a /\ family_of_ip a = family_of_dst d /\
    (addr s = 0 \/ addr s = ip_num a).
Proof.
  intros Hb. rewrite (dispatch_spec rs t (Some a) d Hb). unfold spec_choice.
  destruct (best (valid_send (Some a) d) (fam_bound rs d)) as [s|] eqn:B.
  - intros H. inversion H; subst. apply best_some in B as [l1 [l2 [El [Ps _]]]].
    assert (Hin : In s (fam_bound rs d)). { rewrite El. apply in_or_app. right. now left. }
    pose proof (fam_bound_family rs d s Hin) as Hf.
    exists s. split; [exact Hin|split; [reflexivity|]].
    unfold valid_send in Ps. destruct a as [n|n]; cbn [family_of_ip ip_num].
    + apply andb_prop in Ps as [P1 P2]. apply negb_true_iff in P1.
      apply orb_prop in P2. rewrite !N.eqb_eq in P2.
      repeat split; auto. destruct d; cbn in *; congruence.
    + apply andb_prop in Ps as [P1 P2]. apply orb_prop in P2. rewrite !N.eqb_eq in P2.
      repeat split; auto. destruct d; cbn in *; congruence.
  - destruct (best isdef (fam_bound rs d)) as [s|]; [|discriminate].
    destruct (valid_default (Some a) d s); discriminate.
Qed.

(* conversely a matching socket is never passed over *)
Lemma match_not_passed_over rs t src d s : bind rs = Ok t ->
  In s (fam_bound rs d) -> valid_send src d s = true ->
  exists i, dispatch t src d = SendOn i false.
Proof.
  intros Hb Hin Hv. rewrite (dispatch_spec rs t src d Hb). unfold spec_choice.
  destruct (best (valid_send src d) (fam_bound rs d)) as [s0|] eqn:B; [eauto|].
  rewrite best_none in B. rewrite (B s Hin) in Hv. discriminate.
Qed.

(* no socket matches: the family's default-route socket, if its family is the one the
   datagram needs; else nothing *)
Lemma default_fallback rs t src d : bind rs = Ok t ->
  (forall s, In s (fam_bound rs d) -> valid_send src d s = false) ->
  dispatch t src d =
    match best isdef (fam_bound rs d) with
    | Some s => if valid_default src d s then SendOn (sid s) true else Blackhole
    | None => Blackhole
    end.
Proof.
  intros Hb Hn. rewrite (dispatch_spec rs t src d Hb). unfold spec_choice.
  apply (proj2 (best_none _ _)) in Hn. now rewrite Hn.
Qed.

Lemma default_is_default rs t src d i : bind rs = Ok t ->
  dispatch t src d = SendOn i true ->
  (forall s, In s (fam_bound rs d) -> valid_send src d s = false) /\
  exists s, In s (fam_bound rs d) /\ sid s = i /\ isdef s = true /\
    match src with Some a => family_of_ip a = family_of_dst d | None => True end.
Proof.
  intros Hb. rewrite (dispatch_spec rs t src d Hb). unfold spec_choice.
  destruct (best (valid_send src d) (fam_bound rs d)) as [s|] eqn:B; [discriminate|].
  destruct (best isdef (fam_bound rs d)) as [s|] eqn:B2; [|discriminate].
  destruct (valid_default src d s) eqn:V; [|discriminate].
  intros H. inversion H; subst. split; [now apply best_none|].
  apply best_some in B2 as [l1 [l2 [El [Ps _]]]].
  assert (Hin : In s (fam_bound rs d)). { rewrite El. apply in_or_app. right. now left. }
  pose proof (fam_bound_family rs d s Hin) as Hf.
  exists s. repeat split; auto.
  destruct src as [[n|n]|]; [| |exact I]; unfold valid_default in V; cbn [family_of_ip];
    apply andb_prop in V as [V _]; destruct d; cbn in *; try apply negb_true_iff in V; congruence.
Qed.

Lemma valid_default_same rs src d s1 s2 :
  In s1 (fam_bound rs d) -> In s2 (fam_bound rs d) -> isdef s1 = true -> isdef s2 = true ->
  valid_default src d s1 = valid_default src d s2.
Proof.
  intros H1 H2 D1 D2. apply fam_bound_family in H1, H2.
  unfold valid_default. rewrite H1, H2, D1, D2. reflexivity.
Qed.

Lemma blackhole_iff_none rs t src d : bind rs = Ok t ->
  (dispatch t src d = Blackhole <->
   (forall s, In s (fam_bound rs d) -> valid_send src d s = false) /\
   (forall s, In s (fam_bound rs d) -> isdef s = true -> valid_default src d s = false)).
Proof.
  intros Hb. rewrite (dispatch_spec rs t src d Hb). unfold spec_choice.
  destruct (best (valid_send src d) (fam_bound rs d)) as [s|] eqn:B.
  - split; [discriminate|]. intros [Hn _]. apply (proj2 (best_none _ _)) in Hn. congruence.
  - assert (B' := proj1 (best_none _ _) B). destruct (best isdef (fam_bound rs d)) as [s|] eqn:B2.
    + apply best_some in B2 as [l1 [l2 [El [Ps _]]]].
      assert (Hin : In s (fam_bound rs d)). { rewrite El. apply in_or_app. right. now left. }
      destruct (valid_default src d s) eqn:V.
      * split; [discriminate|]. intros [_ Hd]. rewrite (Hd s Hin Ps) in V. discriminate.
      * split; [|reflexivity]. intros _. split; [exact B'|].
        intros s' Hin' D'. rewrite (valid_default_same rs src d s' s Hin' Hin D' Ps). exact V.
    + split; [|reflexivity]. intros _. split; [exact B'|].
      intros s' Hin' D'. rewrite best_none in B2. rewrite (B2 s' Hin') in D'. discriminate.
Qed.

(* ------------------------------------------------------------------ Sender::poll_send *)
Lemma never_fatal_unless_closed closed st dest src :
  outer closed st dest src = HFatal <-> closed = true.
Proof.
  unfold outer. destruct closed; [tauto|]. split; [|discriminate].
  destruct (C18.classify dest) as [o|o|o|sa].
  - destruct (C18.lookup_addr (C18.mE st) o); discriminate.
  - destruct (C18.lookup_addr (C18.mR st) o); discriminate.
  - destruct (C18.lookup_addr (C18.mC st) o); discriminate.
  - discriminate.
Qed.

Lemma quic_result_fatal h inner : quic_result h inner = 1 <-> h = HFatal.
Proof. destruct h; cbn; split; try discriminate; try reflexivity; lia. Qed.

Lemma unknown_mapped_dropped st dest src :
  match C18.classify dest with
  | C18.MMixed o => C18.lookup_addr (C18.mE st) o = None
  | C18.MRelay o => C18.lookup_addr (C18.mR st) o = None
  | C18.MCustom o => C18.lookup_addr (C18.mC st) o = None
  | C18.MIp _ => False
  end -> outer false st dest src = HDropped.
Proof.
  unfold outer. destruct (C18.classify dest); intros H; [now rewrite H..|destruct H].
Qed.

(* a datagram QUIC sends to the synthetic address of a key goes to that key and nothing else *)
Lemma designated s kd key c s1 a ops p f sc src :
  C18.Inv s -> kd <> C18.KScript ->
  C18.step s (C18.OpGet kd key c) = (s1, C18.RAddr (C18.private_socket_addr a)) ->
  let st := fst (C18.run s1 ops) in
  match kd with
  | C18.KMixed => outer false st (C18.SV6 a p f sc) src = HRemote key
  | C18.KRelay => outer false st (C18.SV6 a p f sc) src = HPath (PRelay key)
  | _ => exists local, outer false st (C18.SV6 a p f sc) src = HPath (PCustom key local)
  end.
Proof.
  intros HI Hk H1 st.
  pose proof (lookup_get s kd key c s1 a ops HI H1) as HL.
  cbn [C18.step snd] in HL.
  destruct (C18.typed kd a) eqn:Ht; [|discriminate]. inversion HL as [HL'].
  fold st in HL'. unfold outer.
  rewrite (classify_typed kd a p f sc Hk Ht).
  destruct kd; cbn [mk_mapped C18.sel] in *; try congruence; rewrite HL'; eauto.
Qed.

(* ------------------------------------------------------------------ monitor *)
Lemma action_eqb_refl a : action_eqb a a = true.
Proof. destruct a as [i b|]; cbn; [rewrite N.eqb_refl; now destruct b|reflexivity]. Qed.

Lemma custom_dispatch_ok id : forall ss i l c,
  custom_dispatch i ss id = (l, c) ->
  Forall (fun j => i <= j /\ exists acc beh, nth_error ss (N.to_nat (j - i)) = Some (acc, beh)
                                   /\ existsb (N.eqb id) acc = true) l /\
  increasing l = true.
Proof.
  induction ss as [|[acc beh] r IH]; intros i l c H; cbn [custom_dispatch] in H.
  - inversion H; subst. split; [constructor|reflexivity].
  - assert (Shift : forall l', Forall (fun j => i + 1 <= j /\ exists acc0 beh0,
        nth_error r (N.to_nat (j - (i + 1))) = Some (acc0, beh0) /\ existsb (N.eqb id) acc0 = true) l' ->
      Forall (fun j => i <= j /\ exists acc0 beh0,
        nth_error ((acc, beh) :: r) (N.to_nat (j - i)) = Some (acc0, beh0) /\ existsb (N.eqb id) acc0 = true) l').
    { intros l' F. eapply Forall_impl; [|exact F]. cbn beta. intros j [Hj [a0 [b0 [Hn He]]]].
      split; [lia|]. exists a0, b0. split; [|exact He].
      replace (N.to_nat (j - i)) with (S (N.to_nat (j - (i + 1)))) by lia. exact Hn. }
    destruct (existsb (N.eqb id) acc) eqn:E.
    + destruct (N.eqb beh 2).
      * destruct (custom_dispatch (i + 1) r id) as [l' c'] eqn:D. inversion H; subst.
        destruct (IH _ _ _ D) as [F Inc]. split.
        { constructor; [|now apply Shift].
          split; [lia|]. exists acc, beh. rewrite N.sub_diag. cbn. auto. }
        { destruct l' as [|b l'']; [reflexivity|]. cbn [increasing]. cbn [increasing] in Inc.
          inversion F as [|? ? [Hb _] _]; subst.
          apply andb_true_intro. split; [lia|exact Inc]. }
      * inversion H; subst. split; [|reflexivity].
        constructor; [|constructor]. split; [lia|]. rewrite N.sub_diag. cbn. eauto.
    + destruct (IH _ _ _ H) as [F Inc]. split; [now apply Shift|exact Inc].
Qed.

Lemma send_ok_model rs t customs s : bind rs = Ok t ->
  send_ok rs customs s (do_send t customs s) = true.
Proof.
  intros Hb. destruct s as [src d|id|]; cbn [do_send send_ok].
  - rewrite (dispatch_spec rs t src d Hb). apply action_eqb_refl.
  - destruct (custom_dispatch 0 customs id) as [l c] eqn:D. cbn [send_ok].
    destruct (custom_dispatch_ok id customs 0 l c D) as [F Inc]. rewrite Inc, andb_true_r.
    apply forallb_forall. intros j Hj. rewrite Forall_forall in F.
    destruct (F j Hj) as [_ [acc [beh [Hn He]]]]. rewrite N.sub_0_r in Hn. now rewrite Hn.
  - reflexivity.
Qed.

Lemma sends_ok_model rs t customs ss : bind rs = Ok t ->
  sends_ok rs customs ss (map (do_send t customs) ss) = true.
Proof.
  intros Hb. induction ss as [|s ss IH]; [reflexivity|].
  cbn [map sends_ok]. now rewrite send_ok_model, IH.
Qed.

Lemma handed_eqb_refl h : handed_eqb h h = true.
Proof.
  destruct h as [| |k|[d s|k|k l]]; cbn; rewrite ?N.eqb_refl; try reflexivity.
  - assert (dst_eqb d d = true) as -> by (destruct d; cbn; now rewrite ?N.eqb_refl).
    destruct s as [[n|n]|]; cbn; now rewrite ?N.eqb_refl.
  - destruct l; cbn; now rewrite ?N.eqb_refl.
Qed.

Lemma outer_ok_model closed ops dest src :
  outer_ok closed ops dest (outer closed (fst (C18.run C18.init ops)) dest src) = true.
Proof.
  unfold outer_ok, outer. destruct closed; [reflexivity|]. cbn [negb andb].
  set (st := fst (C18.run C18.init ops)).
  destruct (C18.classify dest) as [o|o|o|sa].
  - destruct (C18.lookup_addr (C18.mE st) o) eqn:L; cbn; rewrite ?L; cbn; now rewrite ?N.eqb_refl.
  - destruct (C18.lookup_addr (C18.mR st) o) eqn:L; cbn; rewrite ?L; cbn; now rewrite ?N.eqb_refl.
  - destruct (C18.lookup_addr (C18.mC st) o) eqn:L; cbn; rewrite ?L; cbn; now rewrite ?N.eqb_refl.
  - reflexivity.
Qed.

Lemma bind_err_code rs e : bind rs = Err e -> e = 1 \/ e = 2 \/ e = 3.
Proof.
  intros Hb. unfold bind in Hb.
  destruct (bind_loop rs false false [] []) as [[a4 a6]|e'|] eqn:E; try discriminate.
  inversion Hb; subst. clear Hb.
  revert E. generalize false at 1 as h4. generalize false as h6.
  generalize (@nil sock) at 1 as a4. generalize (@nil sock) as a6.
  induction rs as [|r rs IH]; intros a6 a4 h6 h4 E; cbn [bind_loop] in E; [discriminate|].
  destruct (rbindable r); [|destruct (rrequired r); [inversion E; auto|eapply IH; eauto]].
  destruct (negb (v6 (rsock r))); destruct (isdef (rsock r)); try (eapply IH; eauto; fail).
  - destruct h4; [inversion E; auto|eapply IH; eauto].
  - destruct h6; [inversion E; auto|eapply IH; eauto].
Qed.

Lemma bind_no_panic rs : bind rs <> Panic.
Proof.
  intros Hb. unfold bind in Hb.
  destruct (bind_loop rs false false [] []) as [[a4 a6]|e'|] eqn:E; try discriminate.
  now apply bind_loop_no_panic in E.
Qed.

Lemma same_sock_refl a : same_sock a a = true.
Proof. destruct a as [i b|]; cbn; [apply N.eqb_refl|reflexivity]. Qed.

Lemma opt_ip_eqb_refl s : opt_eqb ip_eqb s s = true.
Proof. destruct s as [[n|n]|]; cbn; now rewrite ?N.eqb_refl. Qed.

Lemma custom_polled_ok customs id :
  forallb (accepts customs id) (fst (custom_dispatch 0 customs id)) = true /\
  increasing (fst (custom_dispatch 0 customs id)) = true.
Proof.
  destruct (custom_dispatch 0 customs id) as [l c] eqn:D. cbn [fst].
  destruct (custom_dispatch_ok id customs 0 l c D) as [F Inc]. split; [|exact Inc].
  apply forallb_forall. intros j Hj. rewrite Forall_forall in F.
  destruct (F j Hj) as [_ [acc [beh [Hn He]]]]. rewrite N.sub_0_r in Hn.
  unfold accepts. now rewrite Hn.
Qed.

(* one poll_send of the model passes the monitor unless it is in the known class *)
Lemma out_ok_model rs t customs relays inbox ops x :
  bind rs = Ok t -> scope_hit rs x = false ->
  out_ok rs customs ops x (out_send t customs relays inbox (fst (C18.run C18.init ops)) x) = true.
Proof.
  intros Hb Hk. destruct x as [[closed dest] src]. unfold out_send, out_ok.
  rewrite (outer_ok_model closed ops dest src). rewrite andb_true_r.
  set (st := fst (C18.run C18.init ops)).
  destruct closed; [reflexivity|].
  unfold scope_hit in Hk. cbn [negb andb] in Hk.
  unfold outer. cbn [negb andb].
  destruct (C18.classify dest) as [o|o|o|sa].
  - destruct (C18.lookup_addr (C18.mE st) o); reflexivity.
  - destruct (C18.lookup_addr (C18.mR st) o); reflexivity.
  - destruct (C18.lookup_addr (C18.mC st) o) as [k|]; [|reflexivity].
    cbn [quic_result deliv_of deliv_ok N.eqb andb].
    destruct (custom_polled_ok customs (custom_id k)) as [F I]. now rewrite F, I.
  - cbn [quic_result deliv_of deliv_ok N.eqb andb].
    rewrite opt_ip_eqb_refl. cbn [andb].
    rewrite (dispatch_spec rs t _ _ Hb).
    now apply negb_false_iff in Hk.
Qed.

Lemma outs_ok_model rs t customs relays inbox ops xs :
  bind rs = Ok t -> existsb (scope_hit rs) xs = false ->
  outs_ok rs customs ops xs
    (map (out_send t customs relays inbox (fst (C18.run C18.init ops))) xs) = true.
Proof.
  intros Hb. induction xs as [|x xs IH]; intros Hk; [reflexivity|].
  cbn [existsb] in Hk. apply orb_false_iff in Hk as [H1 H2].
  cbn [map outs_ok]. now rewrite (out_ok_model _ _ _ _ _ _ _ Hb H1), IH.
Qed.

Lemma model_satisfies_monitor i : known i = 0 -> monitor i (model i) = true.
Proof.
  destruct i as [s src d|rs customs sends|closed ops dest src|rs customs relays inbox ops sends];
    cbn [model monitor known]; intros Hk.
  - reflexivity.
  - destruct (bind rs) as [t|e|] eqn:Hb; cbn [monitor].
    + now apply sends_ok_model.
    + destruct (bind_err_code rs e Hb) as [->|[->| ->]]; reflexivity.
    + exfalso. now apply (bind_no_panic rs).
  - apply outer_ok_model.
  - destruct (bind rs) as [t|e|] eqn:Hb; cbn [monitor].
    + apply outs_ok_model; [exact Hb|].
      destruct (existsb (scope_hit rs) sends); [discriminate|reflexivity].
    + destruct (bind_err_code rs e Hb) as [->|[->| ->]]; reflexivity.
    + exfalso. now apply (bind_no_panic rs).
Qed.

(* the monitor's IP clause is the rule: an observed choice passes iff it is the spec's *)
Lemma action_eqb_eq a b : action_eqb a b = true -> a = b.
Proof.
  destruct a as [i x|], b as [j y|]; cbn; try discriminate; [|reflexivity].
  intros H. apply andb_prop in H as [H1 H2]. apply N.eqb_eq in H1. apply eqb_prop in H2. congruence.
Qed.

(* ------------------------------------------------------------------ witnesses *)
Definition sA := mkSock 0 false 2130706433 8 0 false.     (* 127.0.0.1/8 *)
Definition sB := mkSock 1 false 2130706689 24 0 true.     (* 127.0.1.1/24, default *)
Definition sC := mkSock 2 false 0 0 0 false.              (* 0.0.0.0/0 *)
Definition sD := mkSock 3 false 2130706690 24 0 false.    (* 127.0.1.2/24: ties with sB *)
Definition rq (s : sock) := mkReq s true true.

Example ex_bind :
  match bind [rq sA; rq sB; rq sC; rq sD] with
  | Ok t => map sid (t4 t) = [1; 3; 0; 2] /\ position (t4 t) 0 = Some 0
  | _ => False end.
Proof. vm_compute. auto. Qed.

Example ex_dispatch :
  match bind [rq sA; rq sB; rq sC; rq sD] with
  | Ok t =>
      dispatch t None (D4 2130706700) = SendOn 1 false /\        (* 127.0.1.12: /24, earlier bind wins *)
      dispatch t None (D4 2130707000) = SendOn 0 false /\        (* 127.0.2.56: /8 *)
      dispatch t None (D4 167772161) = SendOn 2 false /\         (* 10.0.0.1: /0 *)
      dispatch t (Some (IP4 2130706690)) (D4 167772161) = SendOn 3 false /\
      dispatch t (Some (IP6 1)) (D4 167772161) = Blackhole
  | _ => False end.
Proof. vm_compute. auto 10. Qed.

Example ex_default :
  match bind [rq sA; rq sB] with
  | Ok t => dispatch t None (D4 167772161) = SendOn 1 true /\
            dispatch t None (D6 1 0) = Blackhole
  | _ => False end.
Proof. vm_compute. auto. Qed.

Example ex_dup_default : bind [rq sB; rq (mkSock 5 false 0 0 0 true)] = Err E_DUP4.
Proof. reflexivity. Qed.

Example ex_skip_unbindable :
  match bind [mkReq sA false false; rq sC] with Ok t => map sid (t4 t) = [2] | _ => False end.
Proof. vm_compute. reflexivity. Qed.

(* The scope id of a link-local destination does not survive Sender::poll_send: the
   destination fe80::1%3 reaches the dispatch with scope 0. *)
Definition ll_octets : bytes := [254; 128; 0; 0; 0; 0; 0; 0; 0; 0; 0; 0; 0; 0; 0; 1].
Example ex_scope_dropped :
  outer false C18.init (C18.SV6 ll_octets 4433 0 3) None =
  HPath (PIp (D6 (num ll_octets 0) 0) None).
Proof. vm_compute. reflexivity. Qed.

Definition sL := mkSock 0 true (num ll_octets 0 + 9) 128 3 false.   (* fe80::a/128 on scope 3 *)
Definition sW := mkSock 1 true 0 0 0 true.                          (* [::]/0, default *)
Example ex_scope_matters :
  match bind [rq sL; rq sW] with
  | Ok t => dispatch t None (D6 (num ll_octets 0) 3) = SendOn 0 false /\
            dispatch t None (D6 (num ll_octets 0) 0) = SendOn 1 false
  | _ => False end.
Proof. vm_compute. auto. Qed.

(* The destination's scope id never reaches the dispatch. *)
Lemma scope_erased st o p f sc src :
  C18.classify (C18.SV6 o p f sc) = C18.MIp (C18.SV6 o p f sc) -> C18.is_v4_mapped o = false ->
  outer false st (C18.SV6 o p f sc) src = HPath (PIp (D6 (num o 0) 0) (option_map src_num src)).
Proof.
  intros Hc Hm. unfold outer. rewrite Hc. unfold dst_of, C18.canonical. now rewrite Hm.
Qed.

(* ------------------------------------------------------------------ known finding, class 1 *)
(* [::1]/128 bound with scope id 1, nothing else; QUIC sends to fe80::1%1 without a source
   address.  The rule ("for link-local IPv6, on the destination's scope") designates that
   socket; Sender::poll_send erases the scope id and the datagram is dropped. *)
Definition sS1 := mkSock 0 true 1 128 1 false.
Definition wit_scope : input :=
  IOut [rq sS1] [] [] [] [] [(false, C18.SV6 ll_octets 9 0 1, None)].

Example ex_wit_scope_model :
  model wit_scope = OOut [] None [0] None
    [(0, HPath (PIp (D6 (num ll_octets 0) 0) None), DIp Blackhole)].
Proof. vm_compute. reflexivity. Qed.

Lemma known_scope_witness : exists i, known i = 1 /\ monitor i (model i) = false.
Proof. exists wit_scope. split; vm_compute; reflexivity. Qed.

(* the reverse: [::1]/128 with scope id 0 is handed a datagram for fe80::1%1 *)
Example ex_wit_scope_reverse :
  let i := IOut [rq (mkSock 0 true 1 128 0 false)] [] [] [] []
                [(false, C18.SV6 ll_octets 9 0 1, None)] in
  known i = 1 /\ model i = OOut [] None [0] None
    [(0, HPath (PIp (D6 (num ll_octets 0) 0) None), DIp (SendOn 0 false))].
Proof. vm_compute. auto. Qed.

(* the real sender's observation on the witness, and what a scope-preserving sender would
   do, as the monitor sees them *)
Example ex_wit_scope_fixed_passes :
  monitor wit_scope (OOut [] None [0] None
    [(0, HPath (PIp (D6 (num ll_octets 0) 1) None), DIp (SendOn 0 false))]) = true.
Proof. vm_compute. reflexivity. Qed.

(* the class is confined to link-local destinations with a non-zero scope id and no source *)
Lemma best_ext (P Q : sock -> bool) l : (forall s, P s = Q s) -> best P l = best Q l.
Proof.
  intros H. induction l as [|a l IH]; [reflexivity|]. cbn [best fold_right].
  change (fold_right _ None l) with (best P l) at 1.
  change (fold_right _ None l) with (best Q l). rewrite IH, H. reflexivity.
Qed.

Lemma spec_choice_ext rs src d d' :
  (forall s, valid_send src d s = valid_send src d' s) ->
  (forall s, valid_default src d s = valid_default src d' s) ->
  fam_bound rs d = fam_bound rs d' ->
  spec_choice rs src d = spec_choice rs src d'.
Proof.
  intros H1 H2 H3. unfold spec_choice. rewrite H3.
  rewrite (best_ext _ _ _ H1). destruct (best (valid_send src d') (fam_bound rs d')); [reflexivity|].
  destruct (best isdef (fam_bound rs d')); [|reflexivity]. now rewrite H2.
Qed.

Lemma scope_hit_confined rs closed dest src :
  scope_hit rs (closed, dest, src) = true ->
  closed = false /\ src = None /\
  exists o p f sc, dest = C18.SV6 o p f sc /\ C18.is_v4_mapped o = false /\
    link_local (num o 0) = true /\ sc <> 0.
Proof.
  unfold scope_hit. intros H. apply andb_prop in H as [Hc H].
  destruct closed; [discriminate|]. split; [reflexivity|].
  destruct dest as [a p|o p f sc].
  - cbn in H. now rewrite same_sock_refl in H.
  - cbn [C18.classify] in H.
    destruct (C18.in_subnet C18.ENDPOINT_ID_SUBNET o); [discriminate|].
    destruct (C18.in_subnet C18.RELAY_MAPPED_SUBNET o); [discriminate|].
    destruct (C18.in_subnet C18.CUSTOM_MAPPED_SUBNET o); [discriminate|].
    unfold dst_of, orig_dst, C18.canonical in H.
    destruct (C18.is_v4_mapped o) eqn:Hm; [now rewrite same_sock_refl in H|].
    assert (Hne : spec_choice rs (option_map src_num src) (D6 (num o 0) 0)
                  <> spec_choice rs (option_map src_num src) (D6 (num o 0) sc)).
    { intros E. rewrite E, same_sock_refl in H. discriminate. }
    destruct src as [s|].
    + exfalso. apply Hne. apply spec_choice_ext; reflexivity.
    + split; [reflexivity|]. exists o, p, f, sc. split; [reflexivity|]. split; [exact Hm|].
      destruct (link_local (num o 0)) eqn:Hl.
      * split; [reflexivity|]. intros ->. now apply Hne.
      * exfalso. apply Hne. apply spec_choice_ext; try reflexivity.
        intros x. cbn [option_map valid_send]. now rewrite Hl.
Qed.
