(* C43 — proofs: the lock-and-handle model of RelayMap refines a plain map
   (total functions N -> option cfg) and never blocks. *)
From V Require Import Lib.Base Model.C43.
From Coq Require Import ZifyBool.
Import C43.
Open Scope N_scope.

(* ------------------------------------------------------------------ *)
(* equality deciders *)

Lemma optN_eqb_eq (a b : option N) : opt_eqb N.eqb a b = true <-> a = b.
Proof.
  destruct a, b; cbn; split; intros H; try discriminate; try reflexivity.
  - apply N.eqb_eq in H. now subst.
  - injection H as ->. apply N.eqb_refl.
Qed.

Lemma cfg_eqb_eq a b : cfg_eqb a b = true <-> a = b.
Proof.
  unfold cfg_eqb. rewrite !andb_true_iff, N.eqb_eq, !optN_eqb_eq.
  destruct a, b; cbn. split.
  - intros [[-> ->] ->]. reflexivity.
  - intros H. injection H as -> -> ->. auto.
Qed.

Lemma ocfg_eqb_eq a b : ocfg_eqb a b = true <-> a = b.
Proof.
  unfold ocfg_eqb. destruct a, b; cbn; split; intros H; try discriminate; try reflexivity.
  - apply cfg_eqb_eq in H. now subst.
  - injection H as ->. now apply cfg_eqb_eq.
Qed.

Lemma pair_eqb_eq x y : pair_eqb x y = true <-> x = y.
Proof.
  unfold pair_eqb. rewrite andb_true_iff, N.eqb_eq, cfg_eqb_eq.
  destruct x, y; cbn. split; [intros [-> ->]; reflexivity | intros H; injection H as -> ->; auto].
Qed.

Lemma map_eqb_eq a b : map_eqb a b = true <-> a = b.
Proof.
  split.
  - apply list_eqb_eq. intros x y. apply pair_eqb_eq.
  - intros ->. apply list_eqb_refl. intros x. now apply pair_eqb_eq.
Qed.

Lemma bool_eqb_iff (b c : bool) : Bool.eqb b c = true <-> (b = true <-> c = true).
Proof. destruct b, c; cbn; intuition congruence. Qed.

(* ------------------------------------------------------------------ *)
(* sorted association lists *)

Definition keys (m : amap) : list N := map fst m.

Fixpoint sorted (m : amap) : Prop :=
  match m with
  | [] => True
  | (k, _) :: r => (forall x, In x (keys r) -> k < x) /\ sorted r
  end.

Lemma sortedb_spec m : sortedb m = true <-> sorted m.
Proof.
  induction m as [|[k v] r IH]; cbn [sortedb sorted]; [tauto|].
  rewrite andb_true_iff, IH, forallb_forall. split; intros [H1 H2]; split; auto.
  - intros x Hx. unfold keys in Hx. apply in_map_iff in Hx as [[k' v'] [<- Hin]].
    specialize (H1 _ Hin). cbn in *. lia.
  - intros [k' v'] Hin. cbn. assert (k < k') by (apply H1; unfold keys; apply in_map_iff; exists (k', v'); auto). lia.
Qed.

Lemma lookup_notin m k : ~ In k (keys m) -> lookup m k = None.
Proof.
  induction m as [|[k' v] r IH]; cbn; [reflexivity|]. intros H.
  destruct (N.eqb_spec k k'); [subst; tauto|]. apply IH. tauto.
Qed.

Lemma lookup_in m k : In k (keys m) -> lookup m k <> None.
Proof.
  induction m as [|[k' v] r IH]; cbn; [tauto|]. intros [->|H].
  - rewrite N.eqb_refl. discriminate.
  - destruct (k =? k'); [discriminate|auto].
Qed.

Lemma lookup_some_in m k v : lookup m k = Some v -> In k (keys m).
Proof.
  intros H. destruct (in_dec N.eq_dec k (keys m)) as [|n]; [assumption|].
  rewrite (lookup_notin _ _ n) in H. discriminate.
Qed.

Lemma keys_ins m k v x : In x (keys (ins m k v)) <-> x = k \/ In x (keys m).
Proof.
  induction m as [|[k' v'] r IH]; cbn [ins].
  - cbn. intuition.
  - destruct (N.ltb_spec k k'); [cbn; intuition|].
    destruct (N.eqb_spec k k'); [subst; cbn; intuition|].
    cbn [keys map fst In] in *. rewrite IH. intuition.
Qed.

Lemma sorted_ins m k v : sorted m -> sorted (ins m k v).
Proof.
  induction m as [|[k' v'] r IH]; cbn [ins sorted].
  - intros _. split; [intros x []|exact I].
  - intros [H1 H2].
    destruct (N.ltb_spec k k').
    + cbn [sorted]. split; [|split; assumption].
      intros x [<-|Hx]; [assumption|]. specialize (H1 _ Hx). lia.
    + destruct (N.eqb_spec k k').
      * subst. cbn [sorted]. split; assumption.
      * cbn [sorted]. split; [|auto].
        intros x Hx. apply keys_ins in Hx as [->|Hx]; [lia|auto].
Qed.

Lemma lookup_ins m k v x : lookup (ins m k v) x = if x =? k then Some v else lookup m x.
Proof.
  induction m as [|[k' v'] r IH]; cbn [ins lookup].
  - reflexivity.
  - destruct (N.ltb_spec k k'); [reflexivity|].
    destruct (N.eqb_spec k k').
    + subst. cbn [lookup]. destruct (x =? k'); reflexivity.
    + cbn [lookup]. rewrite IH. destruct (N.eqb_spec x k'); [|reflexivity].
      subst. destruct (N.eqb_spec k' k); [congruence|reflexivity].
Qed.

Lemma keys_del m k x : In x (keys (del m k)) -> In x (keys m).
Proof.
  induction m as [|[k' v'] r IH]; cbn [del]; [tauto|].
  destruct (k =? k'); cbn; [tauto|]. intros [->|H]; [tauto|right; apply IH, H].
Qed.

Lemma sorted_del m k : sorted m -> sorted (del m k).
Proof.
  induction m as [|[k' v'] r IH]; cbn [del sorted]; [tauto|]. intros [H1 H2].
  destruct (k =? k'); [assumption|]. cbn [sorted]. split; [|auto].
  intros x Hx. apply H1. eapply keys_del, Hx.
Qed.

Lemma lookup_del m k x : sorted m -> lookup (del m k) x = if x =? k then None else lookup m x.
Proof.
  induction m as [|[k' v'] r IH]; cbn [del lookup sorted].
  - intros _. destruct (x =? k); reflexivity.
  - intros [H1 H2]. destruct (N.eqb_spec k k').
    + subst. destruct (N.eqb_spec x k'); [|reflexivity]. subst.
      apply lookup_notin. intros Hin. specialize (H1 _ Hin). lia.
    + cbn [lookup]. rewrite IH by assumption.
      destruct (N.eqb_spec x k'); [|reflexivity]. subst.
      destruct (N.eqb_spec k' k); [congruence|reflexivity].
Qed.

Lemma sorted_ext b : forall a, sorted a -> sorted (ext a b).
Proof.
  unfold ext. induction b as [|[k v] b IH]; intros a Ha; cbn [fold_left]; [assumption|].
  apply IH. now apply sorted_ins.
Qed.

Lemma keys_ext b : forall a x, In x (keys (ext a b)) -> In x (keys a) \/ In x (keys b).
Proof.
  unfold ext. induction b as [|[k v] b IH]; intros a x; cbn [fold_left]; [tauto|].
  intros H. apply IH in H as [H|H]; [|right; right; exact H].
  cbn [fst snd] in H. apply keys_ins in H as [->|H]; [right; left; reflexivity|left; exact H].
Qed.

Lemma lookup_ext b : forall a x, sorted b ->
  lookup (ext a b) x = match lookup b x with Some c => Some c | None => lookup a x end.
Proof.
  unfold ext. induction b as [|[k v] b IH]; intros a x Hb; cbn [fold_left lookup]; [reflexivity|].
  destruct Hb as [H1 H2]. rewrite IH by assumption. cbn [fst snd]. rewrite lookup_ins.
  destruct (N.eqb_spec x k); [|reflexivity]. subst.
  rewrite lookup_notin; [reflexivity|]. intros Hin. specialize (H1 _ Hin). lia.
Qed.

Lemma keys_set_tok t m : keys (set_tok t m) = keys m.
Proof. unfold keys, set_tok. rewrite map_map. apply map_ext. reflexivity. Qed.

Lemma sorted_set_tok t m : sorted m -> sorted (set_tok t m).
Proof.
  induction m as [|[k v] r IH]; cbn; [tauto|]. intros [H1 H2]. split; [|auto].
  fold (set_tok t r). rewrite keys_set_tok. exact H1.
Qed.

Lemma lookup_set_tok t m x : lookup (set_tok t m) x = option_map (with_tok t) (lookup m x).
Proof.
  induction m as [|[k v] r IH]; cbn; [reflexivity|]. destruct (x =? k); [reflexivity|exact IH].
Qed.

Lemma sorted_fold_from es : forall acc, sorted acc ->
  sorted (fold_left (fun acc c => ins acc (curl c) c) es acc).
Proof. induction es as [|c es IH]; intros acc H; cbn; [assumption|]. apply IH. now apply sorted_ins. Qed.

Lemma lookup_fold_from es : forall acc (f : fmap), (forall x, lookup acc x = f x) ->
  forall x, lookup (fold_left (fun acc c => ins acc (curl c) c) es acc) x
            = fold_left (fun f c => fins f (curl c) c) es f x.
Proof.
  induction es as [|c es IH]; intros acc f H x; cbn [fold_left]; [apply H|].
  apply IH. intros y. rewrite lookup_ins. unfold fins. now rewrite H.
Qed.

Lemma sorted_from_list es : sorted (from_list es).
Proof. apply sorted_fold_from. exact I. Qed.

Lemma lookup_from_list es x : lookup (from_list es) x = ffrom es x.
Proof. apply lookup_fold_from. reflexivity. Qed.

Lemma sorted_NoDup m : sorted m -> NoDup (keys m).
Proof.
  induction m as [|[k v] r IH]; cbn; [constructor|]. intros [H1 H2]. constructor; [|auto].
  intros Hin. specialize (H1 _ Hin). lia.
Qed.

(* two strictly sorted association lists with the same lookups are equal *)
Lemma sorted_ext_eq a : forall b, sorted a -> sorted b ->
  (forall k, lookup a k = lookup b k) -> a = b.
Proof.
  induction a as [|[k1 v1] a IH]; intros [|[k2 v2] b] Ha Hb H.
  - reflexivity.
  - specialize (H k2). cbn in H. rewrite N.eqb_refl in H. discriminate.
  - specialize (H k1). cbn in H. rewrite N.eqb_refl in H. discriminate.
  - destruct Ha as [Ha1 Ha2], Hb as [Hb1 Hb2].
    assert (Hk : k1 = k2).
    { destruct (N.lt_trichotomy k1 k2) as [Hlt|[->|Hlt]]; [|reflexivity|].
      - pose proof (H k1) as E. cbn in E. rewrite N.eqb_refl in E.
        destruct (N.eqb_spec k1 k2); [lia|].
        rewrite lookup_notin in E; [discriminate|].
        intros Hin. specialize (Hb1 _ Hin). lia.
      - pose proof (H k2) as E. cbn in E. rewrite N.eqb_refl in E.
        destruct (N.eqb_spec k2 k1); [lia|].
        rewrite lookup_notin in E; [discriminate|].
        intros Hin. specialize (Ha1 _ Hin). lia. }
    subst k2.
    assert (Hv : v1 = v2).
    { specialize (H k1). cbn in H. rewrite N.eqb_refl in H. congruence. }
    subst v2. f_equal. apply IH; try assumption.
    intros k. destruct (N.eqb_spec k k1) as [->|Hne].
    + rewrite !lookup_notin; [reflexivity| |].
      * intros Hin. specialize (Hb1 _ Hin). lia.
      * intros Hin. specialize (Ha1 _ Hin). lia.
    + specialize (H k). cbn in H. destruct (N.eqb_spec k k1); [congruence|exact H].
Qed.

Lemma map_eqb_spec a b : sorted a -> sorted b ->
  (map_eqb a b = true <-> forall k, lookup a k = lookup b k).
Proof.
  intros Ha Hb. rewrite map_eqb_eq. split; [intros ->; reflexivity|].
  now apply sorted_ext_eq.
Qed.

(* ------------------------------------------------------------------ *)
(* list helpers *)

Lemma nth_set_nth {A} (L : list A) : forall l l' x d,
  nth l' (set_nth l x L) d = if Nat.eqb l' l && Nat.ltb l (length L) then x else nth l' L d.
Proof.
  induction L as [|a L IH]; intros l l' x d.
  - destruct l, l'; cbn; rewrite ?andb_false_r; reflexivity.
  - destruct l as [|l], l' as [|l']; cbn [set_nth nth Nat.eqb andb length]; try reflexivity.
    rewrite IH. reflexivity.
Qed.

Lemma set_nth_length {A} (L : list A) : forall l x, length (set_nth l x L) = length L.
Proof. induction L as [|a L IH]; intros [|l] x; cbn; auto. Qed.

Lemma Forall_set_nth {A} (P : A -> Prop) (L : list A) : forall l x,
  Forall P L -> P x -> Forall P (set_nth l x L).
Proof.
  induction L as [|a L IH]; intros l x HL Hx; [destruct l; constructor|].
  inversion HL; subst. destruct l; cbn; constructor; auto.
Qed.

Lemma Forall_nth_default {A} (P : A -> Prop) (L : list A) d n : Forall P L -> P d -> P (nth n L d).
Proof.
  intros HL Hd. destruct (Nat.ltb_spec n (length L)).
  - rewrite Forall_forall in HL. apply HL, nth_In. assumption.
  - rewrite nth_overflow by lia. assumption.
Qed.

Lemma nth_snoc {A} (L : list A) x d n :
  nth n (L ++ [x]) d = if Nat.eqb n (length L) then x else nth n L d.
Proof.
  destruct (Nat.eqb_spec n (length L)) as [->|Hne].
  - rewrite app_nth2 by lia. now rewrite Nat.sub_diag.
  - destruct (Nat.ltb_spec n (length L)).
    + now apply app_nth1.
    + rewrite !nth_overflow; [reflexivity|lia|rewrite app_length; cbn; lia].
Qed.

Lemma In_nodupN l x : In x (nodupN l) <-> In x l.
Proof.
  induction l as [|a l IH]; cbn; [tauto|].
  destruct (existsb (N.eqb a) l) eqn:E.
  - rewrite IH. split; [auto|]. intros [<-|H]; [|assumption].
    apply existsb_exists in E as [y [Hy Ey]]. apply N.eqb_eq in Ey. now subst.
  - cbn. rewrite IH. tauto.
Qed.

Lemma NoDup_nodupN l : NoDup (nodupN l).
Proof.
  induction l as [|a l IH]; cbn; [constructor|].
  destruct (existsb (N.eqb a) l) eqn:E; [assumption|].
  constructor; [|assumption]. rewrite In_nodupN. intros Hin.
  assert (existsb (N.eqb a) l = true) by (apply existsb_exists; exists a; split; [assumption|apply N.eqb_refl]).
  congruence.
Qed.

Lemma NoDup_same_length (l1 l2 : list N) :
  NoDup l1 -> NoDup l2 -> (forall x, In x l1 <-> In x l2) -> length l1 = length l2.
Proof.
  intros H1 H2 H. apply Nat.le_antisymm; apply NoDup_incl_length; try assumption; intros x; apply H.
Qed.

Lemma forallb_combine_map {A B} (P : A * B -> bool) (f : A -> B) l :
  forallb P (combine l (map f l)) = forallb (fun x => P (x, f x)) l.
Proof. induction l as [|a l IH]; cbn; [reflexivity|]. now rewrite IH. Qed.

(* ------------------------------------------------------------------ *)
(* the specification: observations of a plain map *)

Definition obs_rel (a : astate) (o : op) (v : obs) : Prop :=
  match o, v with
  | ONew _, VUnit | OClone _, VUnit | OExtend _ _, VUnit | OToken _ _, VUnit => True
  | OInsert h u _, VOpt c | ORemove h u, VOpt c | OGet h u, VOpt c => c = acont a (alk a h) u
  | OContains h u, VBool b => b = is_some (acont a (alk a h) u)
  | OEq h1 h2, VBool b => b = true <-> forall k, acont a (alk a h1) k = acont a (alk a h2) k
  | OLen h, VNum n =>
      exists ks, NoDup ks /\ (forall k, In k ks <-> acont a (alk a h) k <> None) /\ n = len ks
  | OIsEmpty h, VBool b => b = true <-> forall k, acont a (alk a h) k = None
  | OSnap h, VSnap m => sorted m /\ forall k, lookup m k = acont a (alk a h) k
  | _, _ => False
  end.

Fixpoint refines (a : astate) (ops : list op) (vs : list obs) : Prop :=
  match ops, vs with
  | [], [] => True
  | o :: r, v :: vs' => obs_rel a o v /\ refines (astep a o) r vs'
  | _, _ => False
  end.

Definition snaps_rel (a : astate) (ss : list amap) : Prop :=
  Forall2 (fun l m => sorted m /\ forall k, lookup m k = acont a l k) (ahandles a) ss.

(* every operation of the history returned, with the plain map's answers *)
Definition spec (i : input) (o : output) : Prop :=
  ~ In VBlocked (fst o) /\ ~ In VPanic (fst o) /\
  refines ainit i (fst o) /\ snaps_rel (arun ainit i) (snd o).

(* ------------------------------------------------------------------ *)
(* the concrete machine simulates the plain-map machine *)

Definition wf (s : state) : Prop := Forall sorted (locks s).

Definition Rel (s : state) (a : astate) : Prop :=
  handles s = ahandles a /\ length (locks s) = length (alocks a) /\
  forall l x, lookup (cont s l) x = acont a l x.

Lemma wf_cont s l : wf s -> sorted (cont s l).
Proof. intros H. unfold cont. apply Forall_nth_default; [exact H|exact I]. Qed.

Lemma Rel_lk s a h : Rel s a -> lk s h = alk a h.
Proof. intros [H _]. unfold lk, alk. now rewrite H. Qed.

Lemma wf_setl s l m : wf s -> sorted m -> wf (setl s l m).
Proof. intros H Hm. unfold wf, setl. cbn. now apply Forall_set_nth. Qed.

Lemma Rel_setl s a l m f : Rel s a -> (forall x, lookup m x = f x) -> Rel (setl s l m) (asetl a l f).
Proof.
  intros (Hh & Hl & Hc) Hm. unfold Rel, setl, asetl, cont, acont in *. cbn [locks handles alocks ahandles].
  split; [assumption|]. split; [now rewrite !set_nth_length|].
  intros l' x. rewrite !nth_set_nth, Hl.
  destruct (Nat.eqb l' l && Nat.ltb l (length (alocks a))); [apply Hm|apply Hc].
Qed.

Lemma acqs_clean s o : check [] (acqs true s o) = Clean.
Proof.
  destruct o; cbn [acqs andb]; try reflexivity.
  - destruct (Nat.eqb (lk s h1) (lk s h2)) eqn:E; [reflexivity|].
    unfold check, conflict. cbn [existsb fst snd is_w orb andb]. rewrite E. reflexivity.
  - destruct (Nat.eqb (lk s h1) (lk s h2)) eqn:E; [reflexivity|].
    unfold check, conflict. cbn [existsb fst snd is_w orb andb]. rewrite E. reflexivity.
Qed.

Lemma step_exec s o : step true s o = (Some (fst (exec true s o)), snd (exec true s o)).
Proof. unfold step. rewrite acqs_clean. destruct (exec true s o). reflexivity. Qed.

Lemma len_keys m : len m = len (keys m).
Proof. unfold len, keys. now rewrite map_length. Qed.

Lemma step_refines s a o : wf s -> Rel s a ->
  wf (fst (exec true s o)) /\ Rel (fst (exec true s o)) (astep a o) /\ obs_rel a o (snd (exec true s o)).
Proof.
  intros Hwf HR. pose proof HR as (Hh & Hl & Hc).
  destruct o; cbn [exec astep fst snd obs_rel andb].
  - (* ONew *)
    split; [|split; [|exact I]].
    + unfold wf. cbn. apply Forall_app. split; [exact Hwf|]. constructor; [apply sorted_from_list|constructor].
    + unfold Rel, cont, acont. cbn. split; [now rewrite Hh, Hl|]. split; [rewrite !app_length; cbn; lia|].
      intros l x. rewrite !nth_snoc, Hl. destruct (Nat.eqb l (length (alocks a))).
      * apply lookup_from_list.
      * apply Hc.
  - (* OClone *)
    split; [exact Hwf|]. split; [|exact I].
    unfold Rel. cbn. rewrite (Rel_lk _ _ h HR), Hh. auto.
  - (* OInsert *)
    rewrite (Rel_lk _ _ h HR). split; [|split].
    + apply wf_setl; [assumption|]. apply sorted_ins, wf_cont, Hwf.
    + apply Rel_setl; [assumption|]. intros x. rewrite lookup_ins. unfold fins. now rewrite Hc.
    + now rewrite Hc.
  - (* ORemove *)
    rewrite (Rel_lk _ _ h HR). split; [|split].
    + apply wf_setl; [assumption|]. apply sorted_del, wf_cont, Hwf.
    + apply Rel_setl; [assumption|]. intros x. rewrite lookup_del by apply wf_cont, Hwf.
      unfold fdel. now rewrite Hc.
    + now rewrite Hc.
  - (* OExtend *)
    rewrite (Rel_lk _ _ h1 HR), (Rel_lk _ _ h2 HR).
    destruct (Nat.eqb_spec (alk a h1) (alk a h2)) as [E|E]; cbn [fst snd].
    + (* same Arc: early return; the plain map extended by itself is itself *)
      split; [exact Hwf|]. split; [|exact I].
      rewrite <- E. destruct HR as (Hh' & Hl' & Hc'). unfold Rel, asetl, acont. cbn [alocks ahandles].
      split; [assumption|]. split; [now rewrite set_nth_length|].
      intros l x. rewrite nth_set_nth.
      destruct (Nat.eqb_spec l (alk a h1)) as [->|Hne]; cbn [andb].
      * destruct (Nat.ltb (alk a h1) (length (alocks a))); [|apply Hc].
        unfold fext. rewrite Hc. unfold acont. destruct (nth (alk a h1) (alocks a) fempty x); reflexivity.
      * apply Hc.
    + split; [|split; [|exact I]].
      * apply wf_setl; [assumption|]. apply sorted_ext, wf_cont, Hwf.
      * apply Rel_setl; [assumption|]. intros x. rewrite lookup_ext by apply wf_cont, Hwf.
        unfold fext. now rewrite !Hc.
  - (* OToken *)
    rewrite (Rel_lk _ _ h HR). split; [|split; [|exact I]].
    + apply wf_setl; [assumption|]. apply sorted_set_tok, wf_cont, Hwf.
    + apply Rel_setl; [assumption|]. intros x. rewrite lookup_set_tok. unfold ftok. now rewrite Hc.
  - (* OEq *)
    rewrite (Rel_lk _ _ h1 HR), (Rel_lk _ _ h2 HR).
    destruct (Nat.eqb_spec (alk a h1) (alk a h2)) as [E|E]; cbn [fst snd].
    + split; [exact Hwf|]. split; [exact HR|]. rewrite E. tauto.
    + split; [exact Hwf|]. split; [exact HR|].
      rewrite map_eqb_spec by apply wf_cont, Hwf.
      split; intros H k; [rewrite <- !Hc|rewrite !Hc]; apply H.
  - (* OGet *)
    rewrite (Rel_lk _ _ h HR). split; [exact Hwf|]. split; [exact HR|]. now rewrite Hc.
  - (* OContains *)
    rewrite (Rel_lk _ _ h HR). split; [exact Hwf|]. split; [exact HR|]. now rewrite Hc.
  - (* OLen *)
    rewrite (Rel_lk _ _ h HR). split; [exact Hwf|]. split; [exact HR|].
    exists (keys (cont s (alk a h))). split; [apply sorted_NoDup, wf_cont, Hwf|]. split; [|apply len_keys].
    intros k. rewrite <- Hc. split; [apply lookup_in|].
    intros Hn. destruct (lookup (cont s (alk a h)) k) eqn:E; [|congruence]. eapply lookup_some_in, E.
  - (* OIsEmpty *)
    rewrite (Rel_lk _ _ h HR). split; [exact Hwf|]. split; [exact HR|].
    destruct (cont s (alk a h)) as [|[k v] r] eqn:E; cbn [is_nil].
    + split; [|reflexivity]. intros _ k. rewrite <- Hc, E. reflexivity.
    + split; [discriminate|]. intros H. specialize (H k). rewrite <- Hc, E in H. cbn in H.
      rewrite N.eqb_refl in H. discriminate.
  - (* OSnap *)
    rewrite (Rel_lk _ _ h HR). split; [exact Hwf|]. split; [exact HR|].
    split; [apply wf_cont, Hwf|]. intros k. apply Hc.
Qed.

Lemma run_refines ops : forall s a, wf s -> Rel s a ->
  exists vs s', run true s ops = (vs, Some s') /\ wf s' /\ Rel s' (arun a ops) /\ refines a ops vs.
Proof.
  induction ops as [|o ops IH]; intros s a Hwf HR; cbn [run arun refines].
  - exists [], s. auto.
  - rewrite step_exec.
    destruct (step_refines s a o Hwf HR) as (Hwf' & HR' & Hobs).
    destruct (IH _ _ Hwf' HR') as (vs & s' & Hrun & Hwf'' & HR'' & Href).
    rewrite Hrun. exists (snd (exec true s o) :: vs), s'. cbn [refines]. auto.
Qed.

Lemma wf_init : wf init.
Proof. unfold wf, init. cbn. constructor; [exact I|constructor]. Qed.

Lemma Rel_init : Rel init ainit.
Proof.
  unfold Rel, init, ainit, cont, acont. cbn. split; [reflexivity|]. split; [reflexivity|].
  intros [|[|l]] x; reflexivity.
Qed.

Lemma refines_not_bad a ops : forall a' vs, a' = a -> refines a ops vs -> existsb bad vs = false.
Proof.
  intros a' vs _. revert a vs. induction ops as [|o ops IH]; intros a [|v vs]; cbn [refines existsb]; try tauto.
  intros [Ho Hr]. rewrite (IH _ _ Hr), orb_false_r.
  destruct o, v; cbn in Ho |- *; try reflexivity; contradiction.
Qed.

Lemma snaps_of s a : wf s -> Rel s a -> snaps_rel a (snaps (Some s)).
Proof.
  intros Hwf (Hh & _ & Hc). unfold snaps_rel, snaps. rewrite <- Hh. clear Hh.
  generalize (handles s) as hs. intros hs.
  induction hs as [|l hs IH]; cbn; constructor; [|exact IH].
  split; [apply wf_cont, Hwf|apply Hc].
Qed.

(* refinement of a plain map, for every history *)
Lemma refines_map_lemma (ops : list op) :
  exists vs ss, model ops = (vs, ss) /\ refines ainit ops vs /\ snaps_rel (arun ainit ops) ss.
Proof.
  destruct (run_refines ops init ainit wf_init Rel_init) as (vs & s' & Hrun & Hwf & HR & Href).
  exists vs, (snaps (Some s')). unfold model, model_of. rewrite Hrun. split; [reflexivity|].
  split; [assumption|]. now apply snaps_of.
Qed.

Lemma bad_false_iff vs : existsb bad vs = false <-> ~ In VBlocked vs /\ ~ In VPanic vs.
Proof.
  induction vs as [|v vs IH]; cbn [existsb In]; [tauto|].
  rewrite orb_false_iff, IH. destruct v; cbn; intuition congruence.
Qed.

Lemma never_blocked_lemma (ops : list op) :
  ~ In VBlocked (fst (model ops)) /\ ~ In VPanic (fst (model ops)) /\
  length (fst (model ops)) = length ops.
Proof.
  destruct (refines_map_lemma ops) as (vs & ss & Hm & Href & _). rewrite Hm. cbn [fst].
  pose proof (refines_not_bad ainit ops ainit vs eq_refl Href) as Hb.
  apply bad_false_iff in Hb as [H1 H2]. split; [assumption|]. split; [assumption|].
  clear -Href. revert vs Href. generalize ainit. induction ops as [|o ops IH]; intros a [|v vs]; cbn; try tauto.
  intros [_ H]. f_equal. eapply IH, H.
Qed.

Lemma model_spec (ops : list op) : spec ops (model ops).
Proof.
  destruct (never_blocked_lemma ops) as (H1 & H2 & _).
  destruct (refines_map_lemma ops) as (vs & ss & Hm & Href & Hs).
  unfold spec. rewrite Hm in *. cbn [fst snd] in *. auto.
Qed.

(* no operation of the fixed code ever acquires a lock it already holds, in
   any state: neither the certain self-deadlock (write involved) nor the
   re-entrant read that deadlocks once another thread queues a writer *)
Lemma no_reentrant_lemma : forall s o, check [] (acqs true s o) = Clean.
Proof. exact acqs_clean. Qed.

(* the code before the fix: extend through a clone never returns; == through a
   clone re-enters its read lock *)
Lemma unfixed_blocks :
  model_of false [OClone 0; OExtend 0 1] = ([VUnit; VBlocked], []).
Proof. vm_compute. reflexivity. Qed.

Lemma unfixed_reentrant :
  check [] (acqs false init (OEq 0 0)) = Reentrant.
Proof. vm_compute. reflexivity. Qed.

Lemma unfixed_refuted_lemma : exists ops, In VBlocked (fst (model_of false ops)).
Proof. exists [OClone 0; OExtend 0 1]. rewrite unfixed_blocks. cbn. auto. Qed.

(* ------------------------------------------------------------------ *)
(* the boolean monitor is the specification *)

Definition asupp (U : list N) (a : astate) : Prop := forall l x, acont a l x <> None -> In x U.

Lemma asupp_init U : asupp U ainit.
Proof. intros [|[|l]] x H; exfalso; apply H; reflexivity. Qed.

Lemma acont_asetl a l f l' :
  acont (asetl a l f) l' = if Nat.eqb l' l && Nat.ltb l (length (alocks a)) then f else acont a l'.
Proof. unfold acont, asetl. cbn. apply nth_set_nth. Qed.

Lemma asupp_asetl U a l f : asupp U a -> (forall x, f x <> None -> In x U) -> asupp U (asetl a l f).
Proof.
  intros Ha Hf l' x. rewrite acont_asetl.
  destruct (Nat.eqb l' l && Nat.ltb l (length (alocks a))); [apply Hf|apply Ha].
Qed.

Lemma ffrom_supp U es : forall f : fmap, (forall x, f x <> None -> In x U) -> incl (map curl es) U ->
  forall x, fold_left (fun f c => fins f (curl c) c) es f x <> None -> In x U.
Proof.
  induction es as [|c es IH]; intros f Hf Hi x; cbn [fold_left]; [apply Hf|].
  apply IH.
  - intros y. unfold fins. destruct (N.eqb_spec y (curl c)); [|apply Hf].
    intros _. subst. apply Hi. cbn. auto.
  - intros y Hy. apply Hi. cbn. auto.
Qed.

Lemma asupp_astep U a o : asupp U a -> incl (opkeys o) U -> asupp U (astep a o).
Proof.
  intros Ha Hi. destruct o; cbn [astep]; try assumption.
  - intros l x. unfold acont. cbn. rewrite nth_snoc.
    destruct (Nat.eqb l (length (alocks a))); [|apply Ha].
    apply ffrom_supp; [intros y Hy; exfalso; apply Hy; reflexivity|exact Hi].
  - apply asupp_asetl; [assumption|]. intros x. unfold fins.
    destruct (N.eqb_spec x u); [|apply Ha]. intros _. subst. apply Hi. cbn. auto.
  - apply asupp_asetl; [assumption|]. intros x. unfold fdel.
    destruct (x =? u); [congruence|apply Ha].
  - apply asupp_asetl; [assumption|]. intros x. unfold fext.
    destruct (acont a (alk a h2) x) eqn:E; [|apply Ha].
    intros _. apply (Ha (alk a h2)). congruence.
  - apply asupp_asetl; [assumption|]. intros x. unfold ftok.
    destruct (acont a (alk a h) x) eqn:E; cbn; [|congruence].
    intros _. apply (Ha (alk a h)). congruence.
Qed.

Lemma is_some_ne {A} (o : option A) : is_some o = true <-> o <> None.
Proof. destruct o; cbn; split; congruence. Qed.

Lemma snapcheck_spec U (f : fmap) m : (forall x, f x <> None -> In x U) ->
  (sortedb m && forallb (fun kv => existsb (N.eqb (fst kv)) U) m
     && forallb (fun k => ocfg_eqb (lookup m k) (f k)) U = true
   <-> sorted m /\ forall k, lookup m k = f k).
Proof.
  intros Hf. rewrite !andb_true_iff, sortedb_spec, !forallb_forall. split.
  - intros [[Hs Hk] Hl]. split; [assumption|]. intros k.
    destruct (in_dec N.eq_dec k U) as [Hin|Hn].
    + apply ocfg_eqb_eq, Hl, Hin.
    + rewrite lookup_notin.
      * destruct (f k) eqn:E; [|reflexivity]. exfalso. apply Hn, Hf. congruence.
      * intros Hin. apply Hn. unfold keys in Hin. apply in_map_iff in Hin as [kv [<- Hkv]].
        specialize (Hk _ Hkv). apply existsb_exists in Hk as [y [Hy Ey]]. apply N.eqb_eq in Ey. now subst.
  - intros [Hs Hl]. split; [split; [assumption|]|].
    + intros kv Hkv. apply existsb_exists. exists (fst kv). split; [|apply N.eqb_refl].
      apply Hf. rewrite <- Hl. apply lookup_in. unfold keys. now apply in_map.
    + intros k _. apply ocfg_eqb_eq, Hl.
Qed.

Lemma bobs_spec U a o v : asupp U a -> (bobs U a o v = true <-> obs_rel a o v).
Proof.
  intros Ha. destruct o, v; cbn [bobs obs_rel]; try (split; [discriminate|contradiction]); try tauto.
  - apply ocfg_eqb_eq.
  - apply ocfg_eqb_eq.
  - (* OEq *)
    rewrite bool_eqb_iff, forallb_forall.
    assert (H : (forall x, In x U -> ocfg_eqb (acont a (alk a h1) x) (acont a (alk a h2) x) = true)
                <-> (forall k, acont a (alk a h1) k = acont a (alk a h2) k)).
    { split.
      - intros H k. destruct (in_dec N.eq_dec k U) as [Hin|Hn]; [apply ocfg_eqb_eq, H, Hin|].
        destruct (acont a (alk a h1) k) eqn:E1.
        { exfalso. apply Hn, (Ha (alk a h1)). congruence. }
        destruct (acont a (alk a h2) k) eqn:E2; [|reflexivity].
        exfalso. apply Hn, (Ha (alk a h2)). congruence.
      - intros H k _. apply ocfg_eqb_eq, H. }
    rewrite H. tauto.
  - apply ocfg_eqb_eq.
  - (* OContains *)
    destruct b, (is_some (acont a (alk a h) u)); cbn; split; congruence.
  - (* OLen *)
    rewrite N.eqb_eq.
    set (F := filter (fun k => is_some (acont a (alk a h) k)) (nodupN U)).
    assert (HF1 : NoDup F) by (apply NoDup_filter, NoDup_nodupN).
    assert (HF2 : forall k, In k F <-> acont a (alk a h) k <> None).
    { intros k. unfold F. rewrite filter_In, In_nodupN, is_some_ne. split; [tauto|].
      intros H. split; [apply (Ha (alk a h)), H|exact H]. }
    split.
    + intros ->. exists F. auto.
    + intros (ks & Hnd & Hks & ->). unfold len. f_equal. apply NoDup_same_length; try assumption.
      intros x. rewrite Hks, HF2. tauto.
  - (* OIsEmpty *)
    rewrite bool_eqb_iff, forallb_forall.
    assert (H : (forall x, In x U -> negb (is_some (acont a (alk a h) x)) = true)
                <-> (forall k, acont a (alk a h) k = None)).
    { split.
      - intros H k. destruct (in_dec N.eq_dec k U) as [Hin|Hn].
        + specialize (H _ Hin). destruct (acont a (alk a h) k); [discriminate|reflexivity].
        + destruct (acont a (alk a h) k) eqn:E; [|reflexivity]. exfalso. apply Hn, (Ha (alk a h)). congruence.
      - intros H k _. now rewrite H. }
    rewrite H. tauto.
  - (* OSnap *)
    apply snapcheck_spec. apply Ha.
Qed.

Lemma bcheck_spec U ops : forall a vs, asupp U a -> incl (flat_map opkeys ops) U ->
  (bcheck U a ops vs = true <-> refines a ops vs).
Proof.
  induction ops as [|o ops IH]; intros a [|v vs] Ha Hi; cbn [bcheck refines]; try tauto;
    try (split; [discriminate|contradiction]).
  cbn [flat_map] in Hi. apply incl_app_inv in Hi as [Hi1 Hi2].
  rewrite andb_true_iff, (bobs_spec U a o v Ha), (IH (astep a o) vs); [tauto| |assumption].
  now apply asupp_astep.
Qed.

Lemma asupp_arun U ops : forall a, asupp U a -> incl (flat_map opkeys ops) U -> asupp U (arun a ops).
Proof.
  induction ops as [|o ops IH]; intros a Ha Hi; cbn [arun]; [assumption|].
  cbn [flat_map] in Hi. apply incl_app_inv in Hi as [Hi1 Hi2].
  apply IH; [now apply asupp_astep|assumption].
Qed.

Lemma snap_ok_spec U a ss : asupp U a -> (snap_ok U a ss = true <-> snaps_rel a ss).
Proof.
  intros Ha. unfold snap_ok, snaps_rel. generalize (ahandles a) as hs.
  intros hs. revert ss. induction hs as [|l hs IH]; intros [|m ss]; cbn [length combine forallb Nat.eqb andb].
  - split; [constructor|reflexivity].
  - split; [discriminate|intros H; inversion H].
  - split; [discriminate|intros H; inversion H].
  - specialize (IH ss).
    assert (Hsc := snapcheck_spec U (acont a l) m (Ha l)).
    rewrite !andb_true_iff in *.
    split.
    + intros [Hlen [Hm Hr]]. constructor; [apply Hsc, Hm|apply IH; auto].
    + intros H. inversion H as [|? ? ? ? Hhd Htl]; subst. apply Hsc in Hhd. apply IH in Htl. tauto.
Qed.

Lemma monitor_spec (i : input) (o : output) : monitor i o = true <-> spec i o.
Proof.
  unfold monitor, spec. rewrite !andb_true_iff, negb_true_iff, bad_false_iff.
  rewrite (bcheck_spec (universe i) i ainit (fst o) (asupp_init _) (incl_refl _)).
  rewrite (snap_ok_spec (universe i) (arun ainit i) (snd o)
             (asupp_arun _ i ainit (asupp_init _) (incl_refl _))).
  tauto.
Qed.

Lemma model_monitor (i : input) : monitor i (model i) = true.
Proof. apply monitor_spec, model_spec. Qed.

(* ------------------------------------------------------------------ *)
(* non-vacuity / witnesses *)

Example ex_alias :
  model [OInsert 0 1 (mkCfg 1 (Some 7842) None); OClone 0; OExtend 1 0; OEq 0 1; OToken 1 2; OSnap 0]
  = ([VOpt None; VUnit; VUnit; VBool true; VUnit; VSnap [(1, mkCfg 1 (Some 7842) (Some 2))]],
     [[(1, mkCfg 1 (Some 7842) (Some 2))]; [(1, mkCfg 1 (Some 7842) (Some 2))]]).
Proof. vm_compute. reflexivity. Qed.

Example ex_extend_overwrites :
  fst (model [ONew [mkCfg 1 None None; mkCfg 2 None None]; ONew [mkCfg 2 (Some 1) None; mkCfg 3 None None];
              OExtend 1 2; OSnap 1; OLen 1; OEq 1 2])
  = [VUnit; VUnit; VUnit;
     VSnap [(1, mkCfg 1 None None); (2, mkCfg 2 (Some 1) None); (3, mkCfg 3 None None)]; VNum 3; VBool false].
Proof. vm_compute. reflexivity. Qed.

Example ex_monitor_rejects_blocked : monitor [OExtend 0 0] ([VBlocked], []) = false.
Proof. vm_compute. reflexivity. Qed.

Example ex_monitor_rejects_wrong_map :
  monitor [OInsert 0 1 (mkCfg 1 None None); OGet 0 1] ([VOpt None; VOpt None], [[(1, mkCfg 1 None None)]]) = false.
Proof. vm_compute. reflexivity. Qed.
