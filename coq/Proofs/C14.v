(* C14 — proofs about the PingTracker model. *)
From V Require Import Lib.Base Lib.MachineInt Gen.Consts Model.C14.
From Coq Require Import ZifyBool Lia.
Import C14.
Local Open Scope Z_scope.

Lemma MIN_TO_val : MIN_TO = 500000000.
Proof. reflexivity. Qed.

(* ---------- local facts about the operations ---------- *)

(* a pong that does not carry the latest ping's payload (older ping, forged
   data, or no ping outstanding) changes nothing: neither deadline nor RTT *)
Lemma stale_or_forged_pong_noop s now data :
  (forall p, inner s = Some p -> pdata p <> data) -> pong s now data = s.
Proof.
  intros H. unfold pong. destruct (inner s) as [p|] eqn:E; [|reflexivity].
  destruct (N.eqb (pdata p) data) eqn:Eq; [|reflexivity].
  apply N.eqb_eq in Eq. exfalso. exact (H p eq_refl Eq).
Qed.

(* the measured RTT changes only by a pong matching the latest ping, and is
   then the time since that ping was sent *)
Lemma rtt_only_from_latest s now data :
  last_rtt (pong s now data) <> last_rtt s ->
  exists p, inner s = Some p /\ pdata p = data /\
            last_rtt (pong s now data) = Some (now - sent_at p) /\
            inner (pong s now data) = None.
Proof.
  unfold pong. destruct (inner s) as [p|] eqn:E; [|congruence].
  destruct (N.eqb (pdata p) data) eqn:Eq; [|congruence].
  intros _. exists p. apply N.eqb_eq in Eq. cbn. auto.
Qed.

Lemma rtt_preserved_by_ping s now t d : last_rtt (new_ping_with s now t d) = last_rtt s.
Proof. reflexivity. Qed.

Lemma rtt_preserved_by_timeout s now : last_rtt (fst (timeout_poll s now)) = last_rtt s.
Proof. unfold timeout_poll. destruct (inner s) as [p|]; [destruct (fired _ _)|]; reflexivity. Qed.

(* the RTT-based timeout is 3 * rtt clamped to [MIN, max] *)
Lemma timeout_clamp s r :
  MIN_TO <= max_timeout s -> last_rtt s = Some r -> 0 <= r -> 3 * r <= DUR_MAX ->
  ping_timeout s = Ok (Z.max MIN_TO (Z.min (max_timeout s) (3 * r))) /\
  MIN_TO <= Z.max MIN_TO (Z.min (max_timeout s) (3 * r)) <= max_timeout s /\
  forall now d, exists s', new_ping s now d = Ok s' /\
    inner s' = Some (mkP d (now + Z.max MIN_TO (Z.min (max_timeout s) (3 * r))) now).
Proof.
  intros Hm Hr H0 H3. unfold new_ping, ping_timeout. rewrite Hr.
  replace (r * 3) with (3 * r) by ring.
  destruct (DUR_MAX <? 3 * r) eqn:E1; [lia|].
  destruct (max_timeout s <? MIN_TO) eqn:E2; [lia|].
  assert (Heq : (if 3 * r <? MIN_TO then MIN_TO
                 else if max_timeout s <? 3 * r then max_timeout s else 3 * r)
                = Z.max MIN_TO (Z.min (max_timeout s) (3 * r))).
  { destruct (3 * r <? MIN_TO) eqn:E3; [lia|]. destruct (max_timeout s <? 3 * r) eqn:E4; lia. }
  rewrite Heq. split; [reflexivity|]. split; [lia|].
  intros now d. eexists. split; reflexivity.
Qed.

Lemma timeout_default s : last_rtt s = None -> ping_timeout s = Ok (max_timeout s).
Proof. intros H. unfold ping_timeout. now rewrite H. Qed.

(* constructor precondition: with max_timeout < MIN the first measured RTT
   makes ping_timeout (hence new_ping) panic (std clamp asserts min <= max) *)
Lemma clamp_precondition s r :
  max_timeout s < MIN_TO -> last_rtt s = Some r -> 3 * r <= DUR_MAX ->
  ping_timeout s = Panic /\ forall now d, new_ping s now d = Panic.
Proof.
  intros Hm Hr H3. assert (P : ping_timeout s = Panic).
  { unfold ping_timeout. rewrite Hr. replace (r * 3) with (3 * r) by ring.
    destruct (DUR_MAX <? 3 * r) eqn:E1; [reflexivity|].
    destruct (max_timeout s <? MIN_TO) eqn:E2; [reflexivity|lia]. }
  split; [exact P|]. intros. unfold new_ping. now rewrite P.
Qed.

Lemma fired_le d now : fired d now = true -> d <= now.
Proof.
  unfold fired, NS_PER_MS. intros H. apply Z.leb_le in H.
  destruct (Z.le_gt_cases d now) as [|Hgt]; [assumption|exfalso].
  assert ((now + 1 * 1000000) / 1000000 <= (d + 999999) / 1000000) by (apply Z.div_le_mono; lia).
  rewrite Z.div_add in H0 by lia. lia.
Qed.

(* timeout() completes only with an outstanding ping whose deadline has passed *)
Lemma timeout_only_past_deadline s now s' :
  timeout_poll s now = (s', true) ->
  exists p, inner s = Some p /\ deadline p <= now /\ fired (deadline p) now = true /\ inner s' = None.
Proof.
  unfold timeout_poll. destruct (inner s) as [p|] eqn:E; [|intros [= _ ?]; discriminate].
  destruct (fired (deadline p) now) eqn:F; intros [= <-]. 
  exists p. split; [reflexivity|]. split; [apply fired_le; exact F|]. split; [exact F|reflexivity].
Qed.

(* ---------- what the declarative scan of the history means ---------- *)

Definition quiet (d : N) (x : hev) : Prop :=
  match x with
  | (NewPing _, _, _) | (NewPingT _ _, _, _) => False
  | (Pong d', _, _) => d' <> d
  | (Timeout, _, r) => r = false
  | (Advance _, _, _) => True
  end.

(* [fst (scan mx h) = Some (d, sa, dl)] says exactly: the MOST RECENT ping in
   the history carried d and was sent at sa with deadline dl, and since then
   there has been no pong with payload d and no completed timeout. *)
Lemma outstanding_sound mx h : forall d sa dl,
  fst (scan mx h) = Some (d, sa, dl) ->
  exists h1 e r h2, h = h1 ++ (e, sa, r) :: h2 /\ Forall (quiet d) h1 /\
    ((e = NewPing d /\ dl = sa + spec_timeout mx (snd (scan mx h2))) \/
     (exists t, e = NewPingT t d /\ dl = sa + t)).
Proof.
  induction h as [|[[e at_] f] h IH]; intros d sa dl; cbn [scan].
  - discriminate.
  - destruct (scan mx h) as [o r] eqn:Es. cbn [fst snd] in IH.
    destruct e as [dt|d0|t d0|d'|].
    + cbn [fst]. intros H. destruct (IH _ _ _ H) as (h1 & e & r' & h2 & -> & Q & P).
      exists ((Advance dt, at_, f) :: h1), e, r', h2. split; [reflexivity|]. split; [|exact P].
      constructor; [exact I|exact Q].
    + cbn [fst]. intros [= <- <- <-]. exists [], (NewPing d0), f, h.
      split; [reflexivity|]. split; [constructor|]. left. rewrite Es. auto.
    + cbn [fst]. intros [= <- <- <-]. exists [], (NewPingT t d0), f, h.
      split; [reflexivity|]. split; [constructor|]. right. eauto.
    + destruct o as [[[d1 sa1] dl1]|]; [|cbn [fst]; discriminate].
      destruct (N.eqb d1 d') eqn:Eq; cbn [fst]; [discriminate|].
      intros [= <- <- <-]. destruct (IH _ _ _ eq_refl) as (h1 & e & r' & h2 & -> & Q & P).
      exists ((Pong d', at_, f) :: h1), e, r', h2. split; [reflexivity|]. split; [|exact P].
      constructor; [|exact Q]. cbn. apply N.eqb_neq in Eq. congruence.
    + destruct f; cbn [fst]; [discriminate|].
      intros H. destruct (IH _ _ _ H) as (h1 & e & r' & h2 & -> & Q & P).
      exists ((Timeout, at_, false) :: h1), e, r', h2. split; [reflexivity|]. split; [|exact P].
      constructor; [reflexivity|exact Q].
Qed.

(* ---------- model state = scan of the history ---------- *)

Definition inner_match (i : option ping) (o : option (N * Z * Z)) : Prop :=
  match i, o with
  | Some p, Some (d, sa, dl) => pdata p = d /\ sent_at p = sa /\ deadline p = dl
  | None, None => True
  | _, _ => False
  end.

Definition srel (mx : Z) (h : list hev) (now : Z) (s : st) : Prop :=
  max_timeout s = mx /\ last_rtt s = snd (scan mx h) /\
  inner_match (inner s) (fst (scan mx h)) /\
  (forall p, inner s = Some p -> 0 <= sent_at p <= now) /\
  (forall r, last_rtt s = Some r -> 0 <= r <= now).

Lemma pt_obs_spec mx h now s :
  MIN_TO <= mx -> srel mx h now s -> 3 * now <= DUR_MAX ->
  ping_timeout s = Ok (spec_timeout mx (snd (scan mx h))) /\
  pt_obs s = Some (spec_timeout mx (snd (scan mx h))).
Proof.
  intros Hm (Hmx & Hr & _ & _ & Hb) Hn. unfold pt_obs.
  destruct (last_rtt s) as [r|] eqn:E.
  - destruct (Hb r eq_refl) as [H0 H1].
    destruct (timeout_clamp s r ltac:(lia) E H0 ltac:(lia)) as (-> & _).
    rewrite <- Hr, Hmx. cbn [spec_timeout]. auto.
  - rewrite (timeout_default s E), <- Hr, Hmx. cbn [spec_timeout]. auto.
Qed.

Definition now_after (now : Z) (e : ev) : Z :=
  match e with Advance dt => now + dt | _ => now end.

Lemma srel_intro mx h now s :
  max_timeout s = mx -> last_rtt s = snd (scan mx h) ->
  inner_match (inner s) (fst (scan mx h)) ->
  (forall p, inner s = Some p -> 0 <= sent_at p <= now) ->
  (forall r, last_rtt s = Some r -> 0 <= r <= now) ->
  srel mx h now s.
Proof. unfold srel; auto. Qed.

Lemma step_rel mx h now s e :
  MIN_TO <= mx -> srel mx h now s -> 0 <= now -> wf_ev e = true ->
  3 * now_after now e <= DUR_MAX ->
  exists s' r, step s now e = Ok (s', now_after now e, r) /\
    srel mx ((e, now, r) :: h) (now_after now e) s' /\
    (match e with
     | Timeout => if r then match fst (scan mx h) with
                            | Some (_, _, dl) => fired dl now
                            | None => false
                            end
                  else true
     | _ => negb r
     end) = true.
Proof.
  intros Hm R H0 Hw Hn. pose proof R as (Hmx & Hr & Hi & Hs & Hb).
  destruct (scan mx h) as [o rr] eqn:Es. cbn [fst snd] in *.
  destruct e as [dt|d|t d|d'|]; cbn [step now_after wf_ev] in *.
  - exists s, false. split; [reflexivity|]. split; [|reflexivity].
    apply srel_intro; cbn [scan]; rewrite ?Es; cbn [fst snd]; auto.
    + intros q Hq. specialize (Hs q Hq). lia.
    + intros q Hq. specialize (Hb q Hq). lia.
  - destruct (pt_obs_spec mx h now s Hm R ltac:(lia)) as [Hpt _]. rewrite Es in Hpt. cbn [snd] in Hpt.
    unfold new_ping. rewrite Hpt.
    eexists _, false. split; [reflexivity|]. split; [|reflexivity].
    apply srel_intro; cbn [scan]; rewrite ?Es;
      cbn [fst snd new_ping_with max_timeout last_rtt inner inner_match pdata sent_at deadline]; auto.
    intros q [= <-]. cbn. lia.
  - eexists _, false. split; [reflexivity|]. split; [|reflexivity].
    apply srel_intro; cbn [scan]; rewrite ?Es;
      cbn [fst snd new_ping_with max_timeout last_rtt inner inner_match pdata sent_at deadline]; auto.
    intros q [= <-]. cbn. lia.
  - eexists _, false. split; [reflexivity|]. split; [|reflexivity].
    unfold pong. unfold inner_match in Hi.
    destruct (inner s) as [p|] eqn:Ei; destruct o as [[[d1 sa1] dl1]|]; try contradiction.
    + destruct Hi as (Hd & Hsa & Hdl). rewrite Hd.
      destruct (N.eqb d1 d') eqn:Eq;
        apply srel_intro; cbn [scan]; rewrite ?Es, ?Eq;
        cbn [fst snd max_timeout last_rtt inner inner_match]; rewrite ?Ei; cbn [inner_match]; auto.
      * congruence.
      * intros q Hq; discriminate.
      * intros q [= <-]. specialize (Hs p eq_refl). lia.
    + apply srel_intro; cbn [scan]; rewrite ?Es; cbn [fst snd]; rewrite ?Ei; cbn [inner_match]; auto.
  - unfold timeout_poll. unfold inner_match in Hi.
    destruct (inner s) as [p|] eqn:Ei; destruct o as [[[d1 sa1] dl1]|]; try contradiction.
    + destruct Hi as (Hd & Hsa & Hdl). rewrite Hdl.
      destruct (fired dl1 now) eqn:F.
      * eexists _, true. split; [reflexivity|]. split; [|reflexivity].
        apply srel_intro; cbn [scan]; rewrite ?Es;
          cbn [fst snd max_timeout last_rtt inner inner_match]; auto.
        intros q Hq; discriminate.
      * eexists _, false. split; [reflexivity|]. split; [|reflexivity].
        apply srel_intro; cbn [scan]; rewrite ?Es; cbn [fst snd]; rewrite ?Ei; cbn [inner_match]; auto.
    + eexists _, false. split; [reflexivity|]. split; [|reflexivity].
      apply srel_intro; cbn [scan]; rewrite ?Es; cbn [fst snd]; rewrite ?Ei; cbn [inner_match]; auto.
Qed.

Lemma total_time_nonneg es : forallb wf_ev es = true -> 0 <= total_time es.
Proof.
  induction es as [|e es IH]; cbn [forallb total_time]; [lia|].
  intros H. apply andb_prop in H as [He Hes]. specialize (IH Hes).
  destruct e; cbn [wf_ev] in He; lia.
Qed.

Lemma run_mon mx es : forall h now s,
  MIN_TO <= mx -> srel mx h now s -> 0 <= now -> forallb wf_ev es = true ->
  3 * (now + total_time es) <= DUR_MAX ->
  exists os, run s now es = Ok os /\ mon mx h now es os = true.
Proof.
  induction es as [|e es IH]; intros h now s Hm R H0 Hwf Ht; cbn [run].
  - exists []. split; reflexivity.
  - cbn [forallb] in Hwf. apply andb_prop in Hwf as [He Hes].
    pose proof (total_time_nonneg es Hes) as Htn.
    assert (Hna : 0 <= now_after now e /\ now_after now e + total_time es = now + total_time (e :: es)).
    { destruct e; cbn [now_after total_time wf_ev] in *; lia. }
    destruct (step_rel mx h now s e Hm R H0 He ltac:(lia)) as (s' & r & -> & R' & Hc).
    destruct (IH _ (now_after now e) s' Hm R' ltac:(lia) Hes ltac:(lia)) as (os & -> & Hmon).
    eexists. split; [reflexivity|].
    cbn [mon]. fold (now_after now e).
    destruct (pt_obs_spec mx _ _ s' Hm R' ltac:(lia)) as [_ ->].
    rewrite Hc, Hmon. cbn [opt_eqb]. rewrite Z.eqb_refl. reflexivity.
Qed.

Lemma srel_init mx : srel mx [] 0 (new mx).
Proof. unfold srel, new. cbn. repeat split; auto; intros; discriminate. Qed.

Lemma model_monitor i : monitor i (model i) = true.
Proof.
  unfold monitor. destruct (wf_input i && (total_time (snd i) <=? TIME_MAX)) eqn:Hw; [|reflexivity].
  cbn [negb]. apply andb_prop in Hw as [Hw Ht]. unfold wf_input in Hw.
  apply andb_prop in Hw as [Hw He]. apply andb_prop in Hw as [Hm Hx].
  destruct i as [mx es]. cbn [fst snd] in *. unfold model. cbn [fst snd].
  assert (3 * (0 + total_time es) <= DUR_MAX).
  { apply Z.leb_le in Ht. unfold TIME_MAX in Ht.
    pose proof (Z.mul_div_le DUR_MAX 3 ltac:(lia)). lia. }
  destruct (run_mon mx es [] 0 (new mx) ltac:(lia) (srel_init mx) ltac:(lia) He H) as (os & -> & Hmon).
  exact Hmon.
Qed.

(* The timeout fires only if the latest ping is unanswered and past its
   deadline — over whole histories.  For every history (within the
   constructor precondition), whenever the k-th event's poll of timeout()
   completes, the history before it decomposes as: (most recent first) events
   that are neither a new ping, nor a pong carrying d, nor a completed
   timeout; then the ping carrying d, sent at sa; and the poll happens at a
   time >= its deadline. *)
Fixpoint hist_of (now : Z) (es : list ev) (os : list obs) (h : list hev) (k : nat) : list hev * Z :=
  match k, es, os with
  | S k', e :: es', (r, _) :: os' => hist_of (now_after now e) es' os' ((e, now, r) :: h) k'
  | _, _, _ => (h, now)
  end.

Lemma mon_dead mx : forall k es os h now,
  mon mx h now es os = true ->
  nth_error es k = Some Timeout -> (exists pt, nth_error os k = Some (true, pt)) ->
  let '(hk, tk) := hist_of now es os h k in
  exists d sa dl, fst (scan mx hk) = Some (d, sa, dl) /\ fired dl tk = true.
Proof.
  induction k as [|k IH]; intros es os h now Hmon He (pt & Ho).
  - destruct es as [|e es]; [discriminate|]. destruct os as [|[r p] os]; [discriminate|].
    cbn in He, Ho. injection He as ->. injection Ho as -> ->. cbn [hist_of].
    cbn [mon] in Hmon. apply andb_prop in Hmon as [Hmon _]. apply andb_prop in Hmon as [Hc _].
    destruct (fst (scan mx h)) as [[[d sa] dl]|]; [|discriminate]. eauto.
  - destruct es as [|e es]; [discriminate|]. destruct os as [|[r p] os]; [discriminate|].
    cbn [nth_error] in He, Ho. cbn [hist_of].
    cbn [mon] in Hmon. apply andb_prop in Hmon as [_ Hmon]. fold (now_after now e) in Hmon.
    apply (IH es os _ _ Hmon He). eauto.
Qed.

Lemma dead_only_if_latest_unanswered mx es os k pt :
  MIN_TO <= mx <= DUR_MAX -> forallb wf_ev es = true -> total_time es <= TIME_MAX ->
  model (mx, es) = Ok os ->
  nth_error es k = Some Timeout -> nth_error os k = Some (true, pt) ->
  let '(hk, tk) := hist_of 0 es os [] k in
  exists d sa dl h1 e r h2,
    hk = h1 ++ (e, sa, r) :: h2 /\ Forall (quiet d) h1 /\
    ((e = NewPing d /\ dl = sa + spec_timeout mx (snd (scan mx h2))) \/
     (exists t, e = NewPingT t d /\ dl = sa + t)) /\
    dl <= tk.
Proof.
  intros Hm Hwf Ht Hmod He Ho.
  pose proof (model_monitor (mx, es)) as Hmon. unfold monitor, wf_input in Hmon.
  cbn [fst snd] in Hmon. rewrite Hwf, Hmod in Hmon.
  replace ((MIN_TO <=? mx) && (mx <=? DUR_MAX)) with true in Hmon by lia.
  replace (total_time es <=? TIME_MAX) with true in Hmon by lia. cbn [andb negb] in Hmon.
  pose proof (mon_dead mx k es os [] 0 Hmon He (ex_intro _ pt Ho)) as H.
  destruct (hist_of 0 es os [] k) as [hk tk].
  destruct H as (d & sa & dl & Hs & Hf).
  destruct (outstanding_sound mx hk d sa dl Hs) as (h1 & e & r & h2 & Hh & Q & P).
  exists d, sa, dl, h1, e, r, h2. repeat split; auto. apply fired_le; exact Hf.
Qed.

(* ---------- non-vacuity ---------- *)

(* ping, pong after 100 ms (rtt 100 ms -> timeout clamped up to MIN 500 ms),
   stale pong, new ping, forged pong, deadline passes -> dead *)
Example history_example :
  model (5000000000,
    [NewPing 11; Advance 100000000; Pong 11; NewPing 12; Pong 11; Pong 99;
     Advance 499000000; Timeout; Advance 1000000; Timeout; Timeout])
  = Ok [(false, Some 5000000000); (false, Some 5000000000); (false, Some 500000000);
        (false, Some 500000000); (false, Some 500000000); (false, Some 500000000);
        (false, Some 500000000); (false, Some 500000000); (false, Some 500000000);
        (true, Some 500000000); (false, Some 500000000)].
Proof. vm_compute. reflexivity. Qed.

(* rtt 1 s -> 3 s ; rtt 2 s -> clamped to max 5 s *)
Example clamp_example :
  model (5000000000, [NewPing 1; Advance 1000000000; Pong 1; NewPing 2; Advance 2000000000; Pong 2])
  = Ok [(false, Some 5000000000); (false, Some 5000000000); (false, Some 3000000000);
        (false, Some 3000000000); (false, Some 3000000000); (false, Some 5000000000)].
Proof. vm_compute. reflexivity. Qed.

(* precondition violated: max 499 ms, first measured rtt, next new_ping panics *)
Example precondition_example :
  model (499000000, [NewPing 1; Pong 1; NewPing 2]) = Panic.
Proof. vm_compute. reflexivity. Qed.
