(* C03 — proofs about the relay-handshake model (Model/C03.v). *)
From V Require Import Lib.Base Lib.Crypto Lib.Varint Model.C03.
From Coq Require Import ZifyBool Lia.
Import C03.
Open Scope N_scope.
Ltac Zify.zify_post_hook ::= Z.to_euclidean_division_equations.

(* ---------- small list facts ---------- *)
Lemma firstn_app_exact {A} (a b : list A) : firstn (length a) (a ++ b) = a.
Proof. rewrite firstn_app, Nat.sub_diag, firstn_all. cbn. apply app_nil_r. Qed.
Lemma skipn_app_exact {A} (a b : list A) : skipn (length a) (a ++ b) = b.
Proof. rewrite skipn_app, Nat.sub_diag, skipn_all. reflexivity. Qed.

Ltac tr X := let E := fresh "E" in assert (E : X = true) by lia; rewrite E; clear E.

Lemma take_n_app n (a b : bytes) : length a = N.to_nat n -> take_n n (a ++ b) = Some (a, b).
Proof.
  intros H. unfold take_n, len. rewrite app_length.
  tr (n <=? N.of_nat (length a + length b)).
  rewrite <- H, firstn_app_exact, skipn_app_exact. reflexivity.
Qed.

Lemma take_n_exact n (a : bytes) : length a = N.to_nat n -> take_n n a = Some (a, []).
Proof. intros H. rewrite <- (app_nil_r a) at 1. now apply take_n_app. Qed.

Lemma take_n_spec n s a b : take_n n s = Some (a, b) -> s = a ++ b /\ length a = N.to_nat n.
Proof.
  unfold take_n. destruct (n <=? len s) eqn:E; [|discriminate]. intros [= <- <-].
  split; [symmetry; apply firstn_skipn|]. rewrite firstn_length. unfold len in E. lia.
Qed.

(* ---------- base64url ---------- *)
Lemma b64_val_sym_all :
  forallb (fun v => match b64_val (b64_sym v) with Some x => x =? v | None => false end)
          (map N.of_nat (seq 0 64)) = true.
Proof. vm_compute. reflexivity. Qed.

Lemma b64_val_sym v : v < 64 -> b64_val (b64_sym v) = Some v.
Proof.
  intros H. pose proof b64_val_sym_all as A. rewrite forallb_forall in A.
  specialize (A v). destruct (b64_val (b64_sym v)).
  - assert (In v (map N.of_nat (seq 0 64))) as I.
    { replace v with (N.of_nat (N.to_nat v)) by lia. apply in_map, in_seq. lia. }
    apply A in I. f_equal. lia.
  - assert (In v (map N.of_nat (seq 0 64))) as I.
    { replace v with (N.of_nat (N.to_nat v)) by lia. apply in_map, in_seq. lia. }
    apply A in I. discriminate.
Qed.

Lemma list_ind3 {A} (Pr : list A -> Prop) :
  Pr [] -> (forall a, Pr [a]) -> (forall a b, Pr [a; b]) ->
  (forall a b c r, Pr r -> Pr (a :: b :: c :: r)) -> forall l, Pr l.
Proof.
  intros H0 H1 H2 H3. fix F 1. intros [|a [|b [|c r]]]; [exact H0 | apply H1 | apply H2 | apply H3, F].
Qed.

Lemma b64_roundtrip bs : bytes_ok bs = true -> b64_decode (b64_encode bs) = Some bs.
Proof.
  induction bs as [|a|a b|a b c r IH] using list_ind3; intros H.
  - reflexivity.
  - cbn in H. unfold byte_ok in H. cbn [b64_encode b64_decode].
    rewrite !b64_val_sym by lia.
    tr (a mod 4 * 16 mod 16 =? 0). do 2 f_equal. lia.
  - cbn in H. unfold byte_ok in H. cbn [b64_encode b64_decode].
    rewrite !b64_val_sym by lia.
    tr (b mod 16 * 4 mod 4 =? 0). repeat f_equal; lia.
  - cbn [bytes_ok forallb] in H. fold (bytes_ok r) in H.
    apply andb_prop in H as [Ha H]. apply andb_prop in H as [Hb H]. apply andb_prop in H as [Hc H].
    unfold byte_ok in *. cbn [b64_encode b64_decode].
    rewrite !b64_val_sym by lia. rewrite (IH H). repeat f_equal; lia.
Qed.

(* ================= soundness of the server ================= *)
Section Sound.
Variable P : prims.

Lemma pc_key_point s k r : pc_key P s = Some (k, r) -> is_point P k = true /\ s = k ++ r /\ length k = 32%nat.
Proof.
  unfold pc_key. destruct (take_n 32 s) as [[k' r']|] eqn:T; [|discriminate].
  destruct (is_point P k') eqn:I; [|discriminate]. intros [= <- <-].
  apply take_n_spec in T as [T1 T2]. auto.
Qed.

Lemma pc_km_auth_point s k sg suf : pc_km_auth P s = Some (k, sg, suf) -> is_point P k = true.
Proof.
  unfold pc_km_auth. destruct (pc_key P s) as [[k' r]|] eqn:K; [|discriminate].
  destruct (pc_bytes64 r) as [[sg' r']|]; [|discriminate].
  destruct (take_n 16 r') as [[suf' ?]|]; [|discriminate]. intros [= <- <- <-].
  now apply pc_key_point in K.
Qed.

Lemma pc_client_auth_point s k sg : pc_client_auth P s = Some (k, sg) -> is_point P k = true.
Proof.
  unfold pc_client_auth. destruct (pc_key P s) as [[k' r]|] eqn:K; [|discriminate].
  destruct (pc_bytes64 r) as [[sg' r']|]; [|discriminate]. intros [= <- <-].
  now apply pc_key_point in K.
Qed.

(* the header step does not touch frames or the stream *)
Lemma km_phase_io i w ko w' : km_phase P i w = (ko, w') ->
  out w' = out w /\ wfl w' = wfl w /\ rds w' = rds w /\ nrd w' = nrd w.
Proof.
  unfold km_phase, km_verify, export.
  destruct (s_header i) as [h|]; [|intros [= <- <-]; auto].
  destruct (b64_decode h) as [bs|]; [|intros [= <- <-]; auto].
  destruct (pc_km_auth P bs) as [[[k sg] suf]|]; [|intros [= <- <-]; auto].
  destruct (assoc (s_kmt i) k (s_kmd i)) as [km|]; [|intros [= <- <-]; auto].
  destruct (bytes_eqb (skipn 16 km) suf); [|intros [= <- <-]; auto].
  destruct (verify P k (firstn 16 km) sg); intros [= <- <-]; auto.
Qed.

Lemma km_phase_ok i w k w' : km_phase P i w = (KmOk k, w') -> km_evidence P i k = true.
Proof.
  unfold km_phase, km_verify, export, km_evidence.
  destruct (s_header i) as [h|]; [|discriminate].
  destruct (b64_decode h) as [bs|]; [|discriminate].
  destruct (pc_km_auth P bs) as [[[k' sg] suf]|]; [|discriminate].
  destruct (assoc (s_kmt i) k' (s_kmd i)) as [km|] eqn:A; [|discriminate].
  destruct (bytes_eqb (skipn 16 km) suf) eqn:S; [|discriminate].
  destruct (verify P k' (firstn 16 km) sg) eqn:V; [|discriminate].
  intros [= <- <-]. rewrite bytes_eqb_refl, A, S, V. reflexivity.
Qed.

Lemma write_frame_spec w f r w' : write_frame w f = (r, w') ->
  rds w' = rds w /\ nrd w' = nrd w /\ exps w' = exps w /\
  (out w' = out w \/ out w' = out w ++ [f]) /\
  (r = Ok tt -> out w' = out w ++ [f]) /\ (r = Ok tt \/ r = Err E_WS).
Proof.
  unfold write_frame. intros [= <- <-]. cbn [rds nrd exps out].
  repeat split; auto.
  - destruct (negb _); auto.
  - destruct (wfl w) as [|c ?]; [reflexivity|].
    destruct (c =? 0) eqn:E; [|discriminate]. intros _.
    assert (c = 0) by lia. subst c. reflexivity.
  - destruct (_ =? 0); auto.
Qed.

Lemma read_frame_ok w ex t p w' : read_frame w ex = (Ok (t, p), w') ->
  exists f rest, rds w = RFrame f :: rest /\ frame_type f = Ok (t, p) /\
    existsb (N.eqb t) ex = true /\
    out w' = out w /\ wfl w' = wfl w /\ rds w' = rest /\ nrd w' = nrd w + 1 /\ exps w' = exps w.
Proof.
  unfold read_frame. destruct (rds w) as [|[f|] rest]; try discriminate.
  destruct (frame_type f) as [[t' p']| |] eqn:F; try discriminate.
  destruct (existsb (N.eqb t') ex) eqn:X; [|discriminate].
  intros [= <- <- <-]. exists f, rest. cbn. auto 10.
Qed.

Lemma challenge_phase_ok i w k m w' : challenge_phase P i w = (Ok (k, m), w') ->
  m = MECH_CH /\ out w' = out w ++ [challenge_frame (s_challenge i)] /\
  exists f rest p sg, rds w = RFrame f :: rest /\ frame_type f = Ok (TAG_CLIENT_AUTH, p) /\
    pc_client_auth P p = Some (k, sg) /\
    verify P k (blake3_derive P DOMAIN_SEP_CHALLENGE (s_challenge i)) sg = true.
Proof.
  unfold challenge_phase.
  destruct (write_frame w (challenge_frame (s_challenge i))) as [[[]| |] w1] eqn:W; try discriminate.
  apply write_frame_spec in W as (W1 & W2 & W3 & _ & W4 & _). specialize (W4 eq_refl).
  destruct (read_frame w1 [TAG_CLIENT_AUTH]) as [[[t p]| |] w2] eqn:R; try discriminate.
  apply read_frame_ok in R as (f & rest & R1 & R2 & R3 & R4 & _).
  destruct (pc_client_auth P p) as [[k' sg]|] eqn:C; [|discriminate].
  destruct (verify P k' _ sg) eqn:V.
  - intros [= <- <- <-]. split; [reflexivity|]. split; [congruence|].
    exists f, rest, p, sg. rewrite <- W1. repeat split; auto.
    cbn in R3. rewrite orb_false_r in R3. apply N.eqb_eq in R3. subst t. exact R2.
  - destruct (write_frame w2 _) as [[[]| |] w3]; discriminate.
Qed.

Lemma ch_evidence_of i k f rest p sg :
  s_reads i = RFrame f :: rest -> frame_type f = Ok (TAG_CLIENT_AUTH, p) ->
  pc_client_auth P p = Some (k, sg) ->
  verify P k (blake3_derive P DOMAIN_SEP_CHALLENGE (s_challenge i)) sg = true ->
  ch_evidence P i k = true.
Proof.
  intros R F C V. unfold ch_evidence. rewrite R, F, C, V, bytes_eqb_refl. reflexivity.
Qed.

Lemma serverside_sound i k m w' :
  serverside P i (io0 (s_reads i) (s_wfaults i)) = (Ok (k, m), w') ->
  (m = MECH_KM /\ km_evidence P i k = true /\ out w' = []) \/
  (m = MECH_CH /\ ch_evidence P i k = true /\ out w' = [challenge_frame (s_challenge i)]).
Proof.
  unfold serverside.
  destruct (km_phase P i _) as [ko w1] eqn:K.
  pose proof (km_phase_io _ _ _ _ K) as (K1 & K2 & K3 & K4). cbn in K1, K3.
  assert (CH : challenge_phase P i w1 = (Ok (k, m), w') ->
     m = MECH_CH /\ ch_evidence P i k = true /\ out w' = [challenge_frame (s_challenge i)]).
  { intros H. apply challenge_phase_ok in H as (-> & O & f & rest & p & sg & R & F & C & V).
    rewrite K3 in R. rewrite K1 in O. split; [reflexivity|]. split; [|exact O].
    eapply ch_evidence_of; eauto. }
  destruct ko; try (intros H; right; exact (CH H)); try discriminate.
  intros [= <- <- <-]. left. split; [reflexivity|]. split; [|exact K1].
  eapply km_phase_ok; eauto.
Qed.

End Sound.

(* ================= the whole server: serverside + authorize ================= *)
Definition reason_of (r : option bytes) : bytes := match r with Some r => r | None => NOT_AUTHORIZED end.

Lemma authorize_spec i w k r w1 l1 l2 : authorize i w k = (r, w1, l1, l2) ->
  nrd w1 = nrd w /\ exps w1 = exps w /\
  l2 = (if s_with i then match s_access i with Allow => [1; 2] | Deny _ => [1] end else []) /\
  match s_access i with
  | Allow => (r = Ok k /\ out w1 = out w ++ [confirm_frame] /\ l1 = if s_with i then [1] else [])
             \/ (r = Err E_WS /\ l1 = l2 /\ (out w1 = out w \/ out w1 = out w ++ [confirm_frame]))
  | Deny reason => ((r = Err E_DENIED /\ out w1 = out w ++ [deny_frame (reason_of reason)])
                    \/ (r = Err E_WS /\ (out w1 = out w \/ out w1 = out w ++ [deny_frame (reason_of reason)])))
                   /\ l1 = l2
  end.
Proof.
  unfold authorize. destruct (s_access i) as [|reason].
  - unfold accept. destruct (write_frame w confirm_frame) as [rr w'] eqn:W.
    apply write_frame_spec in W as (W1 & W2 & W3 & W4 & W5 & [-> | ->]).
    + specialize (W5 eq_refl). destruct (s_with i); intros [= <- <- <- <-]; auto 10.
    + destruct (s_with i); intros [= <- <- <- <-]; auto 10.
  - unfold deny. fold (reason_of reason).
    destruct (write_frame w (deny_frame (reason_of reason))) as [rr w'] eqn:W.
    apply write_frame_spec in W as (W1 & W2 & W3 & W4 & W5 & [-> | ->]).
    + specialize (W5 eq_refl). destruct (s_with i); intros [= <- <- <- <-]; auto 10.
    + destruct (s_with i); intros [= <- <- <- <-]; auto 10.
Qed.

Section Server.
Variable P : prims.

Lemma server_unfold i :
  (exists k m w r w1 l1 l2,
     serverside P i (io0 (s_reads i) (s_wfaults i)) = (Ok (k, m), w) /\
     authorize i w k = (r, w1, l1, l2) /\
     server P i = mkSO (Ok (k, m)) (Some r) (out w1) (nrd w1) (exps w1) l1 l2) \/
  (exists r w, serverside P i (io0 (s_reads i) (s_wfaults i)) = (r, w) /\
     (forall x, r <> Ok x) /\ server P i = mkSO r None (out w) (nrd w) (exps w) [] []).
Proof.
  unfold server. destruct (serverside P i _) as [[[k m]|e|] w] eqn:S.
  - left. destruct (authorize i w k) as [[[r w1] l1] l2] eqn:A.
    exists k, m, w, r, w1, l1, l2. auto.
  - right. exists (Err e), w. repeat split; auto. discriminate.
  - right. exists Panic, w. repeat split; auto. discriminate.
Qed.

(* Prop-level reading of the two kinds of evidence *)
Definition km_proof (i : sinput) (k : bytes) : Prop :=
  exists h payload sg km,
    s_header i = Some h /\ b64_decode h = Some payload /\
    pc_km_auth P payload = Some (k, sg, skipn 16 km) /\
    assoc (s_kmt i) k (s_kmd i) = Some km /\
    verify P k (firstn 16 km) sg = true.

Definition ch_proof (i : sinput) (k : bytes) : Prop :=
  exists f rest payload sg,
    s_reads i = RFrame f :: rest /\ frame_type f = Ok (TAG_CLIENT_AUTH, payload) /\
    pc_client_auth P payload = Some (k, sg) /\
    verify P k (blake3_derive P DOMAIN_SEP_CHALLENGE (s_challenge i)) sg = true.

Lemma km_evidence_spec i k : km_evidence P i k = true <-> km_proof i k.
Proof.
  unfold km_evidence, km_proof. split.
  - destruct (s_header i) as [h|]; [|discriminate].
    destruct (b64_decode h) as [bs|] eqn:B; [|discriminate].
    destruct (pc_km_auth P bs) as [[[k' sg] suf]|] eqn:A; [|discriminate].
    intros H. apply andb_prop in H as [H1 H2]. apply bytes_eqb_eq in H1. subst k'.
    destruct (assoc (s_kmt i) k (s_kmd i)) as [km|] eqn:L; [|discriminate].
    apply andb_prop in H2 as [H2 H3]. apply bytes_eqb_eq in H2. subst suf.
    exists h, bs, sg, km. repeat split; auto.
  - intros (h & bs & sg & km & -> & -> & -> & -> & ->).
    now rewrite !bytes_eqb_refl.
Qed.

Lemma ch_evidence_spec i k : ch_evidence P i k = true <-> ch_proof i k.
Proof.
  unfold ch_evidence, ch_proof. split.
  - destruct (s_reads i) as [|[f|] rest]; try discriminate.
    destruct (frame_type f) as [[t p]| |] eqn:F; try discriminate.
    intros H. apply andb_prop in H as [H1 H2]. apply N.eqb_eq in H1. subst t.
    destruct (pc_client_auth P p) as [[k' sg]|] eqn:C; [|discriminate].
    apply andb_prop in H2 as [H2 H3]. apply bytes_eqb_eq in H2. subst k'.
    exists f, rest, p, sg. repeat split; auto.
  - intros (f & rest & p & sg & -> & -> & -> & ->).
    now rewrite bytes_eqb_refl.
Qed.

Definition proves_possession (i : sinput) (k : bytes) (m : N) : Prop :=
  is_point P k = true /\
  ((m = MECH_KM /\ km_proof i k) \/ (m = MECH_CH /\ ch_proof i k)).

Lemma km_proof_point i k : km_proof i k -> is_point P k = true.
Proof. intros (h & bs & sg & km & _ & _ & H & _). eapply pc_km_auth_point; eauto. Qed.
Lemma ch_proof_point i k : ch_proof i k -> is_point P k = true.
Proof. intros (f & rest & p & sg & _ & _ & H & _). eapply pc_client_auth_point; eauto. Qed.

Lemma authorize_out_prefix i w k r w1 l1 l2 : authorize i w k = (r, w1, l1, l2) ->
  exists extra, out w1 = out w ++ extra.
Proof.
  intros A. apply authorize_spec in A as (_ & _ & _ & A).
  destruct (s_access i).
  - destruct A as [(_ & -> & _) | (_ & _ & [-> | ->])]; eauto. exists []. now rewrite app_nil_r.
  - destruct A as [[(_ & ->) | (_ & [-> | ->])] _]; eauto. exists []. now rewrite app_nil_r.
Qed.

Theorem auth_sound i k m : so_res (server P i) = Ok (k, m) ->
  proves_possession i k m /\
  (m = MECH_CH -> exists rest, so_written (server P i) = challenge_frame (s_challenge i) :: rest).
Proof.
  intros H. destruct (server_unfold i) as
    [(k' & m' & w & r & w1 & l1 & l2 & S & A & E) | (r & w & S & N & E)]; rewrite E in H; cbn in H.
  - injection H as -> ->. rewrite E. cbn [so_written].
    apply authorize_out_prefix in A as [extra A].
    apply serverside_sound in S as [(-> & EV & O) | (-> & EV & O)].
    + split; [|discriminate]. apply km_evidence_spec in EV.
      split; [eapply km_proof_point; eauto|]. auto.
    + split.
      * apply ch_evidence_spec in EV. split; [eapply ch_proof_point; eauto|]. auto.
      * intros _. exists extra. rewrite A, O. reflexivity.
  - exfalso. eapply N; eauto.
Qed.

(* a corollary under an explicit unforgeability reading of signatures:
   [signed K msg] = "the holder of K's secret key signed msg" *)
Theorem auth_unforgeable (signed : bytes -> bytes -> Prop) :
  (forall K msg sg, verify P K msg sg = true -> signed K msg) ->
  forall i k m, so_res (server P i) = Ok (k, m) ->
  (exists km, assoc (s_kmt i) k (s_kmd i) = Some km /\ signed k (firstn 16 km)) \/
  signed k (blake3_derive P DOMAIN_SEP_CHALLENGE (s_challenge i)).
Proof.
  intros U i k m H. apply auth_sound in H as [[_ [[_ H] | [_ H]]] _].
  - destruct H as (h & bs & sg & km & _ & _ & _ & A & V). left. exists km. eauto.
  - destruct H as (f & rest & p & sg & _ & _ & _ & V). right. eauto.
Qed.

(* the key that authorize_* hands on (and guards) is the authenticated key, and
   it is handed on only under Allow, after the confirmation was written *)
Theorem admitted_is_authenticated i k : so_auth (server P i) = Some (Ok k) ->
  s_access i = Allow /\ (exists m, so_res (server P i) = Ok (k, m)) /\
  exists pre, so_written (server P i) = pre ++ [confirm_frame].
Proof.
  intros H. destruct (server_unfold i) as
    [(k' & m' & w & r & w1 & l1 & l2 & S & A & E) | (r & w & S & N & E)]; rewrite E in H; cbn in H;
    [|discriminate].
  injection H as ->. rewrite E. cbn [so_res so_written].
  apply authorize_spec in A as (_ & _ & _ & A). destruct (s_access i).
  - destruct A as [(EQ & O & _) | (EQ & _)]; [|discriminate]. injection EQ as <-.
    split; [reflexivity|]. split; eauto.
  - destruct A as [[(EQ & _) | (EQ & _)] _]; discriminate.
Qed.

Theorem deny_never_admits i reason a : s_access i = Deny reason -> so_auth (server P i) = Some a ->
  ((a = Err E_DENIED /\ exists pre, so_written (server P i) = pre ++ [deny_frame (reason_of reason)])
   \/ a = Err E_WS) /\
  so_log1 (server P i) = so_log2 (server P i) /\ ~ In 2 (so_log2 (server P i)).
Proof.
  intros D H. destruct (server_unfold i) as
    [(k' & m' & w & r & w1 & l1 & l2 & S & A & E) | (r & w & S & N & E)]; rewrite E in H; cbn in H;
    [|discriminate].
  injection H as ->. rewrite E. cbn [so_written so_log1 so_log2].
  apply authorize_spec in A as (_ & _ & L2 & A). rewrite D in A, L2.
  destruct A as [A L1]. split; [|split; [exact L1|]].
  - destruct A as [(-> & O) | (-> & _)]; eauto.
  - rewrite L2. destruct (s_with i); cbn; intuition discriminate.
Qed.

(* a connection that is not confirmed never leaves a guard behind: whenever the
   authorize_with call does not return Ok, on_disconnect has already balanced on_connect *)
Theorem guard_balanced i : 
  so_log2 (server P i) = [] \/ so_log2 (server P i) = [1] /\ (exists r, s_access i = Deny r)
  \/ so_log2 (server P i) = [1; 2] /\ s_access i = Allow.
Proof.
  destruct (server_unfold i) as
    [(k' & m' & w & r & w1 & l1 & l2 & S & A & E) | (r & w & S & N & E)]; rewrite E; cbn; auto.
  apply authorize_spec in A as (_ & _ & -> & _).
  destruct (s_with i); auto. destruct (s_access i); eauto.
Qed.

End Server.

(* ================= the model satisfies its own monitors ================= *)
Lemma last_is_app l f : last_is (l ++ [f]) f = true.
Proof. unfold last_is. rewrite rev_app_distr. cbn. apply bytes_eqb_refl. Qed.

Section Monitor.
Variable P : prims.

Lemma monitor_s_model i : monitor_s P i (server P i) = true.
Proof.
  unfold monitor_s.
  destruct (server_unfold P i) as
    [(k & m & w & r & w1 & l1 & l2 & S & A & E) | (r & w & S & N & E)]; rewrite E;
    cbn [so_res so_auth so_written so_log2].
  - pose proof (authorize_out_prefix _ _ _ _ _ _ _ A) as [extra X].
    apply authorize_spec in A as (_ & _ & L2 & A).
    apply andb_true_intro. split; [apply andb_true_intro; split|].
    + apply serverside_sound in S as [(-> & EV & O) | (-> & EV & O)]; cbn.
      * exact EV.
      * rewrite EV, X, O. cbn. apply bytes_eqb_refl.
    + destruct r as [k'| |]; auto.
      destruct (s_access i).
      * destruct A as [(EQ & _) | (EQ & _)]; [|discriminate]. injection EQ as <-. apply bytes_eqb_refl.
      * destruct A as [[(EQ & _) | (EQ & _)] _]; discriminate.
    + destruct (s_access i) as [|reason]; [reflexivity|].
      destruct A as [[(-> & O) | (-> & _)] _].
      * cbn. rewrite O. fold (reason_of reason). rewrite last_is_app. cbn.
        rewrite L2. destruct (s_with i); reflexivity.
      * cbn. rewrite L2. destruct (s_with i); reflexivity.
  - destruct r as [x| |]; [exfalso; eapply N; eauto| |]; cbn; destruct (s_access i); reflexivity.
Qed.

Lemma monitor_c_model i : monitor_c i (client P i) = true.
Proof.
  unfold monitor_c, client.
  destruct (client_header P (c_sk i) (c_kmt i) (c_kmd i) _) as [h w0] eqn:H.
  assert (R0 : rds w0 = c_reads i /\ nrd w0 = 0).
  { unfold client_header, export in H. cbn in H.
    destruct (assoc (c_kmt i) (pk_of P (c_sk i)) (c_kmd i)); injection H as <- <-; auto. }
  destruct R0 as [R0 N0].
  destruct (clientside P (c_sk i) w0) as [[r reason] w] eqn:C. cbn [co_res co_nreads].
  destruct r as [[]| |]; auto.
  assert (FIN : forall t p, client_finish t p = (Ok tt, reason) -> t = TAG_CONFIRM).
  { intros t p. unfold client_finish. destruct (t =? TAG_CONFIRM) eqn:T; [intros _; lia|].
    destruct (pc_string p); discriminate. }
  unfold clientside in C.
  destruct (read_frame w0 _) as [[[t p]| |] w1] eqn:R1; try discriminate.
  apply read_frame_ok in R1 as (f & rest & A1 & A2 & A3 & A4 & A5 & A6 & A7 & A8).
  rewrite R0 in A1.
  destruct (t =? TAG_CHALLENGE) eqn:T.
  - destruct (take_n 16 p) as [[ch ?]|]; [|discriminate].
    destruct (write_frame w1 _) as [[[]| |] w2] eqn:W; try discriminate.
    apply write_frame_spec in W as (W1 & W2 & _).
    destruct (read_frame w2 _) as [[[t' p']| |] w3] eqn:R2; try discriminate.
    apply read_frame_ok in R2 as (f' & rest' & B1 & B2 & B3 & B4 & B5 & B6 & B7 & B8).
    injection C as C <-. apply FIN in C. subst t'.
    rewrite B7, W2, A7, N0, A1. rewrite W1, A6 in B1. subst rest.
    change (N.to_nat (0 + 1 + 1) - 1)%nat with 1%nat. rewrite B1. cbn [nth_error]. rewrite B2. reflexivity.
  - injection C as C <-. apply FIN in C. subst t.
    rewrite A7, N0, A1. change (N.to_nat (0 + 1) - 1)%nat with 0%nat. cbn [nth_error]. rewrite A2. reflexivity.
Qed.

(* ---- the completeness clause holds of the model's own output, for EVERY choice of
        primitives (no prims_ok needed: what makes the run honest is checked on the input) ---- *)
Lemma so_res_server i : so_res (server P i) = fst (serverside P i (io0 (s_reads i) (s_wfaults i))).
Proof.
  unfold server. destruct (serverside P i _) as [[[k m]|e|] w]; cbn [fst].
  - now destruct (authorize i w k) as [[[r w1] l1] l2].
  - reflexivity.
  - reflexivity.
Qed.

Lemma challenge_phase_evid i w k :
  ch_evidence P i k = true -> rds w = s_reads i ->
  match wfl w with [] => true | c :: _ => c =? 0 end = true ->
  fst (challenge_phase P i w) = Ok (k, MECH_CH).
Proof.
  intros EV R W. apply ch_evidence_spec in EV as (f & rest & p & sg & R1 & F & C & V).
  unfold challenge_phase.
  destruct (write_frame w (challenge_frame (s_challenge i))) as [r w1] eqn:WF.
  pose proof (write_frame_spec _ _ _ _ WF) as (W1 & _).
  assert (Hr : r = Ok tt).
  { unfold write_frame in WF. injection WF as <- _.
    destruct (wfl w) as [|c ?]; [reflexivity|]. now rewrite W. }
  subst r.
  unfold read_frame. rewrite W1, R, R1, F. cbn [existsb]. rewrite N.eqb_refl. cbn [orb].
  rewrite C, V. reflexivity.
Qed.

Lemma expected_mech_none_r i k ckm : assoc (s_kmt i) k (s_kmd i) = None -> expected_mech i k ckm MECH_CH = true.
Proof. intros H. unfold expected_mech. rewrite H. now destruct ckm. Qed.

Lemma honest_ok_model i k ckm : honest_ok P i k ckm (server P i) = true.
Proof.
  unfold honest_ok. destruct (honest_pre P i k ckm) eqn:HP; [|reflexivity].
  unfold honest_pre in HP. apply andb_prop in HP as [HP FW]. apply andb_prop in HP as [HH EV].
  rewrite so_res_server. unfold serverside.
  destruct (km_phase P i (io0 (s_reads i) (s_wfaults i))) as [ko w1] eqn:K.
  pose proof (km_phase_io _ _ _ _ _ K) as (_ & K2 & K3 & _). cbn in K2, K3.
  assert (CH : fst (challenge_phase P i w1) = Ok (k, MECH_CH)).
  { apply challenge_phase_evid; [assumption|assumption|]. rewrite K2. exact FW. }
  unfold km_phase in K.
  destruct ckm as [a|].
  - (* the client has material: the header is its claim *)
    unfold km_header_of in HH.
    destruct (s_header i) as [h|]; [|discriminate].
    destruct (b64_decode h) as [bs|]; [|discriminate].
    destruct (pc_km_auth P bs) as [[[k' sg] suf]|]; [|discriminate].
    apply andb_prop in HH as [HH V]. apply andb_prop in HH as [E1 E2].
    apply bytes_eqb_eq in E1, E2. subst k' suf.
    unfold km_verify, export in K. cbn [fst] in K.
    unfold expected_mech.
    destruct (assoc (s_kmt i) k (s_kmd i)) as [b|] eqn:A.
    + destruct (bytes_eqb (skipn 16 b) (skipn 16 a)) eqn:S.
      * apply bytes_eqb_eq in S.
        destruct (verify P k (firstn 16 b) sg) eqn:Vb.
        -- injection K as <- <-. cbn [fst]. rewrite bytes_eqb_refl. cbn [andb].
           destruct (bytes_eqb a b); [reflexivity|]. rewrite S, bytes_eqb_refl. reflexivity.
        -- injection K as <- <-. rewrite CH. rewrite bytes_eqb_refl. cbn [andb].
           destruct (bytes_eqb a b) eqn:Eab.
           ++ apply bytes_eqb_eq in Eab. subst b. congruence.
           ++ rewrite S, bytes_eqb_refl. reflexivity.
      * injection K as <- <-. rewrite CH. rewrite bytes_eqb_refl. cbn [andb].
        destruct (bytes_eqb a b) eqn:Eab.
        -- apply bytes_eqb_eq in Eab. subst b. rewrite bytes_eqb_refl in S. discriminate.
        -- destruct (bytes_eqb (skipn 16 a) (skipn 16 b)) eqn:S2; [|reflexivity].
           apply bytes_eqb_eq in S2. rewrite S2, bytes_eqb_refl in S. discriminate.
    + injection K as <- <-. rewrite CH. rewrite bytes_eqb_refl. reflexivity.
  - (* the client cannot export: no header *)
    destruct (s_header i); [discriminate|]. injection K as <- <-. rewrite CH.
    rewrite bytes_eqb_refl. unfold expected_mech. reflexivity.
Qed.

(* ---- the clause as a statement ---- *)
Definition mech_spec (i : sinput) (k : bytes) (ckm : option bytes) (m : N) : Prop :=
  (m = MECH_KM \/ m = MECH_CH) /\
  (forall a, ckm = Some a -> assoc (s_kmt i) k (s_kmd i) = Some a -> m = MECH_KM) /\
  ((ckm = None \/ assoc (s_kmt i) k (s_kmd i) = None \/
    exists a b, ckm = Some a /\ assoc (s_kmt i) k (s_kmd i) = Some b /\ skipn 16 a <> skipn 16 b) ->
   m = MECH_CH).

Lemma bytes_eqb_false a b : bytes_eqb a b = false -> a <> b.
Proof. intros H ->. rewrite bytes_eqb_refl in H. discriminate. Qed.

Lemma expected_mech_spec i k ckm m : expected_mech i k ckm m = true <-> mech_spec i k ckm m.
Proof.
  unfold expected_mech, mech_spec, MECH_KM, MECH_CH.
  destruct ckm as [a|]; destruct (assoc (s_kmt i) k (s_kmd i)) as [b|].
  - destruct (bytes_eqb a b) eqn:E1.
    + apply bytes_eqb_eq in E1. subst b. rewrite N.eqb_eq. split.
      * intros ->. split; [now left|]. split; [reflexivity|].
        intros [H|[H|(x & y & H1 & H2 & H3)]]; try discriminate. congruence.
      * intros (_ & H & _). now apply (H a).
    + apply bytes_eqb_false in E1.
      destruct (bytes_eqb (skipn 16 a) (skipn 16 b)) eqn:E2.
      * apply bytes_eqb_eq in E2. rewrite orb_true_iff, !N.eqb_eq. split.
        -- intros H. split; [exact H|]. split; [intros x [= <-] [= <-]; contradiction|].
           intros [H1|[H1|(x & y & H1 & H2 & H3)]]; try discriminate. congruence.
        -- intros (H & _). exact H.
      * apply bytes_eqb_false in E2. rewrite N.eqb_eq. split.
        -- intros ->. split; [now right|]. split; [intros x [= <-] [= <-]; contradiction|reflexivity].
        -- intros (_ & _ & H). apply H. right. right. eauto.
  - rewrite N.eqb_eq. split.
    + intros ->. split; [now right|]. split; [discriminate|reflexivity].
    + intros (_ & _ & H). apply H. right. now left.
  - rewrite N.eqb_eq. split.
    + intros ->. split; [now right|]. split; [discriminate|reflexivity].
    + intros (_ & _ & H). apply H. now left.
  - rewrite N.eqb_eq. split.
    + intros ->. split; [now right|]. split; [discriminate|reflexivity].
    + intros (_ & _ & H). apply H. now left.
Qed.

(* what makes a run honest, as a statement *)
Definition honest_run (i : sinput) (k : bytes) (ckm : option bytes) : Prop :=
  match ckm with
  | None => s_header i = None
  | Some km => exists h payload sg,
      s_header i = Some h /\ b64_decode h = Some payload /\
      pc_km_auth P payload = Some (k, sg, skipn 16 km) /\ verify P k (firstn 16 km) sg = true
  end /\
  (exists f rest payload sg,
     s_reads i = RFrame f :: rest /\ frame_type f = Ok (TAG_CLIENT_AUTH, payload) /\
     pc_client_auth P payload = Some (k, sg) /\
     verify P k (blake3_derive P DOMAIN_SEP_CHALLENGE (s_challenge i)) sg = true) /\
  (s_wfaults i = [] \/ exists r, s_wfaults i = 0 :: r).

Lemma honest_pre_spec i k ckm : honest_pre P i k ckm = true <-> honest_run i k ckm.
Proof.
  unfold honest_pre, honest_run. rewrite !andb_true_iff.
  assert (A : match ckm with
              | None => match s_header i with None => true | Some _ => false end
              | Some km => match km_header_of P i with
                           | Some (k', sg, suf) => bytes_eqb k' k && bytes_eqb suf (skipn 16 km) && verify P k (firstn 16 km) sg
                           | None => false end
              end = true <->
              match ckm with
              | None => s_header i = None
              | Some km => exists h payload sg, s_header i = Some h /\ b64_decode h = Some payload /\
                  pc_km_auth P payload = Some (k, sg, skipn 16 km) /\ verify P k (firstn 16 km) sg = true
              end).
  { destruct ckm as [km|].
    - unfold km_header_of. split.
      + destruct (s_header i) as [h|]; [|discriminate].
        destruct (b64_decode h) as [bs|] eqn:B; [|discriminate].
        destruct (pc_km_auth P bs) as [[[k' sg] suf]|] eqn:E; [|discriminate].
        intros H. apply andb_prop in H as [H V]. apply andb_prop in H as [E1 E2].
        apply bytes_eqb_eq in E1, E2. subst k' suf. exists h, bs, sg. auto.
      + intros (h & bs & sg & -> & -> & -> & ->). now rewrite !bytes_eqb_refl.
    - destruct (s_header i); split; congruence. }
  assert (B : first_write_ok i = true <-> (s_wfaults i = [] \/ exists r, s_wfaults i = 0 :: r)).
  { unfold first_write_ok. destruct (s_wfaults i) as [|c r].
    - split; auto.
    - rewrite N.eqb_eq. split.
      + intros ->. right. eauto.
      + intros [H|(r' & H)]; [discriminate|]. now injection H. }
  rewrite A, B. pose proof (ch_evidence_spec P i k) as C. unfold ch_proof in C. rewrite C. tauto.
Qed.

Lemma honest_ok_spec i k ckm o :
  honest_ok P i k ckm o = true <->
  (honest_run i k ckm -> exists m, so_res o = Ok (k, m) /\ mech_spec i k ckm m).
Proof.
  unfold honest_ok. rewrite <- honest_pre_spec.
  destruct (honest_pre P i k ckm).
  - destruct (so_res o) as [[k' m]|e|].
    + rewrite andb_true_iff, expected_mech_spec. split.
      * intros [E M] _. apply bytes_eqb_eq in E. subst. eauto.
      * intros H. destruct (H eq_refl) as (m' & [= -> ->] & M). split; [apply bytes_eqb_refl|exact M].
    + split; [discriminate|]. intros H. destruct (H eq_refl) as (m & E & _). discriminate.
    + split; [discriminate|]. intros H. destruct (H eq_refl) as (m & E & _). discriminate.
  - split; [intros _ H; discriminate H|reflexivity].
Qed.

End Monitor.

Theorem model_satisfies_monitor : forall i, monitor i (model i) = true.
Proof.
  intros [t s | t c | t s k ckm]; cbn [monitor model].
  - apply monitor_s_model.
  - apply monitor_c_model.
  - rewrite monitor_s_model, honest_ok_model. reflexivity.
Qed.

(* ================= completeness: the honest client ================= *)
(* postcard varint round trip *)
Lemma pc_varint_rt fuel : forall i n r X,
  (0 < fuel)%nat -> X = 2 ^ (7 * i) -> (N.to_nat i + fuel = 10)%nat -> n * X < 2 ^ 64 ->
  pc_varint_aux fuel i (pc_varint_enc_aux fuel n ++ r) = Some (n * X, r).
Proof.
  induction fuel as [|f IH]; intros i n r X HF HX Hi Hn.
  - lia.
  - cbn [pc_varint_enc_aux pc_varint_aux]. rewrite <- HX.
    assert (XP : 0 < X) by (subst X; apply N.neq_0_lt_0, N.pow_nonzero; lia).
    destruct (n <? 128) eqn:L.
    + cbn [app]. rewrite L.
      assert (G : (i =? 9) && (1 <? n) = false).
      { destruct (i =? 9) eqn:E9; [|reflexivity]. assert (i = 9) by lia. subst i. subst X.
        change (2 ^ (7 * 9)) with 9223372036854775808 in Hn.
        change (2 ^ 64) with (2 * 9223372036854775808) in Hn. cbn. lia. }
      rewrite G. do 2 f_equal. rewrite N.mod_small by lia. reflexivity.
    + cbn [app].
      assert (B : (n mod 128 + 128 <? 128) = false) by lia. rewrite B.
      assert (X' : 2 ^ (7 * (i + 1)) = X * 128).
      { subst X. replace (7 * (i + 1)) with (7 * i + 7) by lia. rewrite N.pow_add_r. reflexivity. }
      assert (D : n / 128 * 128 <= n) by lia.
      assert (Hn' : n / 128 * (X * 128) < 2 ^ 64).
      { apply N.le_lt_trans with (n * X); [|exact Hn].
        replace (n / 128 * (X * 128)) with (n / 128 * 128 * X) by lia.
        apply N.mul_le_mono_r. exact D. }
      destruct f as [|f'].
      { exfalso. assert (i = 9) by lia. subst i. subst X.
        change (2 ^ (7 * 9)) with 9223372036854775808 in Hn.
        change (2 ^ 64) with (2 * 9223372036854775808) in Hn. lia. }
      rewrite (IH (i + 1) (n / 128) r (X * 128)); [| lia | symmetry; exact X' | lia | exact Hn'].
      do 2 f_equal.
      replace ((n mod 128 + 128) mod 128) with (n mod 128) by lia.
      replace (n / 128 * (X * 128)) with (n / 128 * 128 * X) by lia.
      rewrite <- N.mul_add_distr_r. f_equal. lia.
Qed.

Lemma pc_varint_roundtrip n r : n < 2 ^ 64 -> pc_varint (pc_varint_enc n ++ r) = Some (n, r).
Proof.
  intros H. unfold pc_varint, pc_varint_enc.
  rewrite (pc_varint_rt 10 0 n r 1); [f_equal; f_equal; lia | lia | reflexivity | reflexivity | lia].
Qed.

Lemma pc_string_roundtrip s r : utf8_ok s = true -> len s < 2 ^ 64 ->
  pc_string (pc_varint_enc (len s) ++ s ++ r) = Some s.
Proof.
  intros U L. unfold pc_string. rewrite pc_varint_roundtrip by exact L.
  rewrite take_n_app by (unfold len; lia). now rewrite U.
Qed.

Lemma bytes_ok_app a b : bytes_ok (a ++ b) = bytes_ok a && bytes_ok b.
Proof. apply forallb_app. Qed.

Lemma bytes_ok_skipn n a : bytes_ok a = true -> bytes_ok (skipn n a) = true.
Proof.
  revert a; induction n as [|n IH]; intros [|x a]; cbn; auto.
  intros H. apply andb_prop in H as [_ H]. auto.
Qed.

Lemma ft_tag t r : t < 14 -> frame_type (t :: r) = Ok (t, r).
Proof.
  intros H. unfold frame_type, Varint.decode.
  replace (t / 64) with 0 by lia. replace (t mod 64) with t by lia.
  unfold TAG_LAST. tr (t <=? 13). reflexivity.
Qed.

Section Complete.
Variable P : prims.
Hypothesis OK : prims_ok P.

Lemma pc64_sig sg r : length sg = 64%nat -> pc_bytes64 (pc_varint_enc 64 ++ sg ++ r) = Some (sg, r).
Proof.
  intros L. unfold pc_bytes64. rewrite pc_varint_roundtrip by (cbn; lia).
  rewrite take_n_app by (rewrite L; reflexivity). reflexivity.
Qed.

Lemma pc_key_pk sk r : pc_key P (pk_of P sk ++ r) = Some (pk_of P sk, r).
Proof.
  unfold pc_key. destruct (pk_shape P OK sk) as [L _].
  rewrite take_n_app by (rewrite L; reflexivity). now rewrite (pk_point P OK).
Qed.

Lemma pc_km_auth_honest sk km : length km = 32%nat ->
  pc_km_auth P (km_auth_bytes P sk km) = Some (pk_of P sk, sign P sk (firstn 16 km), skipn 16 km).
Proof.
  intros L. unfold pc_km_auth, km_auth_bytes. rewrite pc_key_pk.
  destruct (sig_shape P OK sk (firstn 16 km)) as [LS _].
  rewrite pc64_sig by exact LS.
  rewrite take_n_exact; [reflexivity|]. rewrite skipn_length, L. reflexivity.
Qed.

Lemma pc_client_auth_honest sk msg r :
  pc_client_auth P (pk_of P sk ++ pc_varint_enc 64 ++ sign P sk msg ++ r) = Some (pk_of P sk, sign P sk msg).
Proof.
  unfold pc_client_auth. rewrite pc_key_pk.
  destruct (sig_shape P OK sk msg) as [LS _]. now rewrite pc64_sig by exact LS.
Qed.

Lemma pc_client_auth_honest_nil sk msg :
  pc_client_auth P (pk_of P sk ++ pc_varint_enc 64 ++ sign P sk msg) = Some (pk_of P sk, sign P sk msg).
Proof. rewrite <- (app_nil_r (sign P sk msg)) at 1. apply pc_client_auth_honest. Qed.

Lemma km_auth_bytes_ok sk km : bytes_ok km = true -> bytes_ok (km_auth_bytes P sk km) = true.
Proof.
  intros H. unfold km_auth_bytes. rewrite !bytes_ok_app.
  destruct (pk_shape P OK sk) as [_ ->]. destruct (sig_shape P OK sk (firstn 16 km)) as [_ ->].
  rewrite bytes_ok_skipn by exact H. reflexivity.
Qed.

Lemma write_ok w f : wfl w = [] ->
  write_frame w f = (Ok tt, mkIo (out w ++ [f]) [] (rds w) (nrd w) (exps w)).
Proof. intros H. unfold write_frame. rewrite H. reflexivity. Qed.

Lemma read_cons w f rest ex t p : rds w = RFrame f :: rest -> frame_type f = Ok (t, p) ->
  existsb (N.eqb t) ex = true ->
  read_frame w ex = (Ok (t, p), mkIo (out w) (wfl w) rest (nrd w + 1) (exps w)).
Proof. intros R F X. unfold read_frame. now rewrite R, F, X. Qed.

(* ---- the server's side of an honest session ---- *)
Variables (sk : bytes) (kmt : list (bytes * option bytes)) (kmd : option bytes) (i : sinput).
Let pk := pk_of P sk.
Let caf := client_auth_frame P sk (s_challenge i).
Let hdr := fst (client_header P sk kmt kmd (io0 [] [])).
Let i' := mkS hdr (s_kmt i) (s_kmd i) (s_challenge i) [RFrame caf] (s_wfaults i) (s_access i) (s_with i).

Hypothesis KMC : forall km, assoc kmt pk kmd = Some km -> length km = 32%nat /\ bytes_ok km = true.
Hypothesis NOFAULT : s_wfaults i = [].

Lemma km_phase_honest w :
  km_phase P i' w =
  match assoc kmt pk kmd with
  | None => (KmAbsent, w)
  | Some kmc => km_verify P i' w pk (sign P sk (firstn 16 kmc)) (skipn 16 kmc)
  end.
Proof.
  unfold km_phase. cbn [s_header i']. unfold hdr, client_header, export. cbn [fst].
  fold pk. destruct (assoc kmt pk kmd) as [kmc|] eqn:A; cbn [fst]; [|reflexivity].
  destruct (KMC _ eq_refl) as [L B].
  rewrite b64_roundtrip by (apply km_auth_bytes_ok; exact B).
  rewrite pc_km_auth_honest by exact L. reflexivity.
Qed.

Lemma challenge_phase_honest w : wfl w = [] -> rds w = [RFrame caf] ->
  challenge_phase P i' w =
  (Ok (pk, MECH_CH), mkIo (out w ++ [challenge_frame (s_challenge i)]) [] [] (nrd w + 1) (exps w)).
Proof.
  intros W R. unfold challenge_phase. cbn [s_challenge i'].
  rewrite write_ok by exact W.
  erewrite read_cons; [| cbn [rds]; exact R | unfold caf, client_auth_frame; apply ft_tag; cbv; reflexivity | reflexivity].
  rewrite pc_client_auth_honest_nil.
  rewrite (sign_verify P OK). reflexivity.
Qed.

Hypothesis CHLEN : length (s_challenge i) = 16%nat.
Hypothesis REASON : forall r, s_access i = Deny (Some r) -> utf8_ok r = true /\ len r < 2 ^ 64.

Definition same_material : Prop :=
  exists km, assoc kmt pk kmd = Some km /\ assoc (s_kmt i) pk (s_kmd i) = Some km.
Definition material_mismatch : Prop :=
  assoc kmt pk kmd = None \/ assoc (s_kmt i) pk (s_kmd i) = None \/
  exists a b, assoc kmt pk kmd = Some a /\ assoc (s_kmt i) pk (s_kmd i) = Some b /\ skipn 16 a <> skipn 16 b.

Lemma serverside_honest :
  exists m w, serverside P i' (io0 (s_reads i') (s_wfaults i')) = (Ok (pk, m), w) /\ wfl w = [] /\
    ((m = MECH_KM /\ out w = [] /\ nrd w = 0) \/
     (m = MECH_CH /\ out w = [challenge_frame (s_challenge i)] /\ nrd w = 1)) /\
    (same_material -> m = MECH_KM) /\ (material_mismatch -> m = MECH_CH).
Proof.
  unfold serverside. rewrite km_phase_honest. cbn [s_reads s_wfaults i']. rewrite NOFAULT.
  assert (CH : forall e, exists m w,
     challenge_phase P i' (mkIo [] [] [RFrame caf] 0 e) = (Ok (pk, m), w) /\ wfl w = [] /\
     ((m = MECH_KM /\ out w = [] /\ nrd w = 0) \/
      (m = MECH_CH /\ out w = [challenge_frame (s_challenge i)] /\ nrd w = 1)) /\ m = MECH_CH).
  { intros e. eexists _, _. rewrite challenge_phase_honest by reflexivity.
    split; [reflexivity|]. cbn. split; [reflexivity|]. split; [|reflexivity]. right. auto. }
  unfold same_material, material_mismatch.
  destruct (assoc kmt pk kmd) as [kmc|] eqn:A.
  - unfold km_verify, export. cbn [s_kmt s_kmd i' out wfl rds nrd exps io0].
    destruct (assoc (s_kmt i) pk (s_kmd i)) as [kms|] eqn:B.
    + destruct (bytes_eqb (skipn 16 kms) (skipn 16 kmc)) eqn:E.
      * destruct (verify P pk (firstn 16 kms) (sign P sk (firstn 16 kmc))) eqn:V.
        -- eexists _, _. split; [reflexivity|]. cbn [wfl out nrd]. split; [reflexivity|]. split; [left; auto|].
           split; [reflexivity|]. apply bytes_eqb_eq in E.
           intros [H | [H | (a & b & Ha & Hb & N)]]; try discriminate.
           injection Ha as <-. injection Hb as <-. congruence.
        -- destruct (CH (exps (io0 [RFrame caf] []) ++ [(DOMAIN_SEP_TLS_EXPORT_LABEL, pk)]))
             as (m & w & C1 & C2 & C3 & C4). cbn in C1.
           exists m, w. repeat split; auto.
           intros (km & [= <-] & [= <-]). unfold pk in V. rewrite (sign_verify P OK) in V. discriminate.
      * destruct (CH (exps (io0 [RFrame caf] []) ++ [(DOMAIN_SEP_TLS_EXPORT_LABEL, pk)]))
             as (m & w & C1 & C2 & C3 & C4). cbn in C1.
        exists m, w. repeat split; auto.
        intros (km & [= <-] & [= <-]). rewrite bytes_eqb_refl in E. discriminate.
    + destruct (CH (exps (io0 [RFrame caf] []) ++ [(DOMAIN_SEP_TLS_EXPORT_LABEL, pk)]))
             as (m & w & C1 & C2 & C3 & C4). cbn in C1.
      exists m, w. repeat split; auto.
      intros (km & _ & [=]).
  - destruct (CH []) as (m & w & C1 & C2 & C3 & C4).
    exists m, w. repeat split; auto.
    intros (km & [=] & _).
Qed.

Definition final_frame : bytes :=
  match s_access i with Allow => confirm_frame | Deny r => deny_frame (reason_of r) end.

Lemma authorize_honest w k : wfl w = [] ->
  exists w1 l1 l2,
    authorize i' w k =
      (match s_access i with Allow => Ok k | Deny _ => Err E_DENIED end, w1, l1, l2) /\
    out w1 = out w ++ [final_frame] /\ nrd w1 = nrd w.
Proof.
  intros W. unfold authorize, final_frame. cbn [s_access s_with i'].
  destruct (s_access i) as [|r].
  - unfold accept. rewrite write_ok by exact W. destruct (s_with i); eexists _, _, _; cbn; auto.
  - unfold deny. fold (reason_of r). rewrite write_ok by exact W.
    destruct (s_with i); eexists _, _, _; cbn; auto.
Qed.

Lemma final_frame_type :
  exists t p, frame_type final_frame = Ok (t, p) /\
    existsb (N.eqb t) [TAG_CONFIRM; TAG_DENY] = true /\
    existsb (N.eqb t) [TAG_CHALLENGE; TAG_CONFIRM; TAG_DENY] = true /\ (t =? TAG_CHALLENGE) = false /\
    client_finish t p =
      match s_access i with
      | Allow => (Ok tt, None)
      | Deny r => (Err E_DENIED, Some (reason_of r))
      end.
Proof.
  unfold final_frame. destruct (s_access i) as [|r] eqn:A.
  - exists TAG_CONFIRM, []. repeat split; reflexivity.
  - exists TAG_DENY, (pc_varint_enc (len (reason_of r)) ++ reason_of r).
    split; [apply ft_tag; cbv; reflexivity|]. repeat split; try reflexivity.
    unfold client_finish. cbn [N.eqb TAG_DENY TAG_CONFIRM].
    change (3 =? 2) with false. cbv iota.
    rewrite <- (app_nil_r (reason_of r)) at 2.
    rewrite pc_string_roundtrip; [reflexivity| |].
    + destruct r as [r|]; [apply (REASON r eq_refl) | reflexivity].
    + destruct r as [r|]; [apply (REASON r eq_refl) | cbv; reflexivity].
Qed.

Theorem honest_session :
  let so := fst (session P sk kmt kmd i) in
  let co := snd (session P sk kmt kmd i) in
  (exists m, so_res so = Ok (pk, m) /\ (m = MECH_KM \/ m = MECH_CH) /\
     (same_material -> m = MECH_KM) /\ (material_mismatch -> m = MECH_CH) /\
     so_nreads so = (if m =? MECH_CH then 1 else 0) /\
     co_written co = (if m =? MECH_CH then [caf] else [])) /\
  match s_access i with
  | Allow => so_auth so = Some (Ok pk) /\ co_res co = Ok tt
  | Deny r => so_auth so = Some (Err E_DENIED) /\ co_res co = Err E_DENIED /\
              co_reason co = Some (reason_of r)
  end.
Proof.
  unfold session. fold hdr. fold caf. fold i'. cbn [fst snd].
  destruct serverside_honest as (m & w & S & W & MO & M1 & M2).
  destruct (authorize_honest w pk W) as (w1 & l1 & l2 & A & O1 & N1).
  destruct final_frame_type as (t & p & FT & X2 & X3 & T0 & FIN).
  assert (SO : server P i' = mkSO (Ok (pk, m))
                 (Some (match s_access i with Allow => Ok pk | Deny _ => Err E_DENIED end))
                 (out w1) (nrd w1) (exps w1) l1 l2).
  { unfold server. rewrite S, A. reflexivity. }
  rewrite SO. cbn [so_res so_auth so_nreads so_written].
  (* the client on what the server wrote *)
  unfold client. cbn [c_sk c_kmt c_kmd c_reads c_wfaults].
  set (rd := map RFrame (out w1)).
  destruct (client_header P sk kmt kmd (io0 rd [])) as [h0 w0] eqn:H0.
  assert (W0 : out w0 = [] /\ wfl w0 = [] /\ rds w0 = rd /\ nrd w0 = 0).
  { unfold client_header, export in H0. cbn in H0.
    destruct (assoc kmt (pk_of P sk) kmd); injection H0 as <- <-; auto. }
  destruct W0 as (Wo & Ww & Wr & Wn).
  destruct MO as [(-> & O & N0) | (-> & O & N0)].
  - (* key material: the client reads the final frame only *)
    assert (RD : rd = [RFrame final_frame]) by (unfold rd; rewrite O1, O; reflexivity).
    assert (CS : clientside P sk w0 = (client_finish t p, mkIo (out w0) (wfl w0) [] (nrd w0 + 1) (exps w0))).
    { unfold clientside. erewrite read_cons; [| rewrite Wr, RD; reflexivity | exact FT | exact X3].
      rewrite T0. reflexivity. }
    rewrite CS, FIN.
    destruct (s_access i); cbn [co_res co_reason co_written out]; rewrite Wo;
      (split; [exists MECH_KM; rewrite N1, N0; repeat split; auto | auto]).
  - (* challenge: the client answers the challenge, then reads the final frame *)
    assert (RD : rd = [RFrame (challenge_frame (s_challenge i)); RFrame final_frame])
      by (unfold rd; rewrite O1, O; reflexivity).
    assert (CS : exists wz, clientside P sk w0 = (client_finish t p, wz) /\ out wz = [caf]).
    { unfold clientside.
      erewrite read_cons; [| rewrite Wr, RD; reflexivity
                           | unfold challenge_frame; apply ft_tag; cbv; reflexivity | reflexivity].
      change (TAG_CHALLENGE =? TAG_CHALLENGE) with true. cbv iota.
      rewrite take_n_exact by (rewrite CHLEN; reflexivity).
      rewrite write_ok by exact Ww. fold caf.
      erewrite read_cons; [| cbn [rds]; reflexivity | exact FT | exact X2].
      eexists. split; [reflexivity|]. cbn [out]. rewrite Wo. reflexivity. }
    destruct CS as (wz & CS & OZ). rewrite CS, FIN.
    destruct (s_access i); cbn [co_res co_reason co_written]; rewrite OZ;
      (split; [exists MECH_CH; rewrite N1, N0; repeat split; auto | auto]).
Qed.

End Complete.

(* ---- corollaries with the names used in the design ---- *)
Section Corollaries.
Variable P : prims.
Hypothesis OK : prims_ok P.
Variables (sk : bytes) (kmt : list (bytes * option bytes)) (kmd : option bytes) (i : sinput).
Hypothesis KMC : forall km, assoc kmt (pk_of P sk) kmd = Some km -> length km = 32%nat /\ bytes_ok km = true.
Hypothesis NOFAULT : s_wfaults i = [].
Hypothesis CHLEN : length (s_challenge i) = 16%nat.
Hypothesis REASON : forall r, s_access i = Deny (Some r) -> utf8_ok r = true /\ len r < 2 ^ 64.

Lemma auth_complete_km : same_material P sk kmt kmd i ->
  so_res (fst (session P sk kmt kmd i)) = Ok (pk_of P sk, MECH_KM) /\
  so_nreads (fst (session P sk kmt kmd i)) = 0.
Proof.
  intros S. destruct (honest_session P OK sk kmt kmd i KMC NOFAULT CHLEN REASON)
    as [(m & R & _ & M1 & _ & N & _) _].
  rewrite (M1 S) in *. auto.
Qed.

Lemma auth_complete_challenge : material_mismatch P sk kmt kmd i ->
  so_res (fst (session P sk kmt kmd i)) = Ok (pk_of P sk, MECH_CH) /\
  co_written (snd (session P sk kmt kmd i)) = [client_auth_frame P sk (s_challenge i)].
Proof.
  intros S. destruct (honest_session P OK sk kmt kmd i KMC NOFAULT CHLEN REASON)
    as [(m & R & _ & _ & M2 & _ & W) _].
  rewrite (M2 S) in *. auto.
Qed.

Lemma deny_reported r : s_access i = Deny r ->
  so_auth (fst (session P sk kmt kmd i)) = Some (Err E_DENIED) /\
  co_res (snd (session P sk kmt kmd i)) = Err E_DENIED /\
  co_reason (snd (session P sk kmt kmd i)) = Some (reason_of r).
Proof.
  intros D. destruct (honest_session P OK sk kmt kmd i KMC NOFAULT CHLEN REASON) as [_ H].
  rewrite D in H. exact H.
Qed.
End Corollaries.

(* ================= non-vacuity ================= *)
(* a toy instantiation of the primitives that satisfies prims_ok: the premises
   of the completeness theorems are satisfiable *)
Definition pad (n : nat) (l : bytes) : bytes := firstn n (map (fun b => b mod 256) l ++ repeat 0 n).
Definition P0 : prims :=
  mkPrims (fun _ => true)
          (fun k m s => bytes_eqb s (pad 64 (k ++ m)))
          (fun sk => pad 32 sk)
          (fun sk m => pad 64 (pad 32 sk ++ m))
          (fun _ m => pad 32 m).

Lemma pad_len n l : length (pad n l) = n.
Proof. unfold pad. rewrite firstn_length, app_length, repeat_length. lia. Qed.

Lemma forallb_firstn {A} (f : A -> bool) n l : forallb f l = true -> forallb f (firstn n l) = true.
Proof.
  revert l; induction n as [|n IH]; intros [|a l]; cbn; auto.
  intros H. apply andb_prop in H as [H1 H2]. rewrite H1. cbn. auto.
Qed.

Lemma pad_ok n l : bytes_ok (pad n l) = true.
Proof.
  unfold pad, bytes_ok. apply forallb_firstn. rewrite forallb_app. apply andb_true_intro. split.
  - induction l as [|a l IH]; cbn; auto. rewrite IH. unfold byte_ok. tr (a mod 256 <? 256). reflexivity.
  - induction n as [|n IH]; cbn; auto.
Qed.

Lemma P0_ok : prims_ok P0.
Proof.
  constructor; cbn [P0 verify pk_of sign is_point blake3_derive]; intros.
  - apply bytes_eqb_refl.
  - reflexivity.
  - split; [apply pad_len | apply pad_ok].
  - split; [apply pad_len | apply pad_ok].
  - apply pad_len.
Qed.

Definition ex_km : bytes := repeat 7 32%nat.
Definition ex_i (kms : option bytes) (a : access) : sinput :=
  mkS None [] kms (repeat 9 16%nat) [] [] a true.

(* same material: admitted by key material, nothing read, confirmation is the only frame *)
Example ex_km_path :
  let so := fst (session P0 [1; 2; 3] [] (Some ex_km) (ex_i (Some ex_km) Allow)) in
  so_res so = Ok (pad 32 [1; 2; 3], MECH_KM) /\ so_auth so = Some (Ok (pad 32 [1; 2; 3])) /\
  so_written so = [confirm_frame] /\ so_nreads so = 0 /\ so_log1 so = [1] /\ so_log2 so = [1; 2].
Proof. vm_compute. repeat split. Qed.

(* the server exports nothing: challenge path; denied with a reason that reaches the client *)
Example ex_challenge_deny :
  let s := session P0 [1; 2; 3] [] (Some ex_km) (ex_i None (Deny (Some (str_bytes "no")))) in
  so_res (fst s) = Ok (pad 32 [1; 2; 3], MECH_CH) /\ so_auth (fst s) = Some (Err E_DENIED) /\
  co_res (snd s) = Err E_DENIED /\ co_reason (snd s) = Some (str_bytes "no") /\
  so_log2 (fst s) = [1].
Proof. vm_compute. repeat split. Qed.

(* soundness is not vacuous and is tight: a ClientAuth signed for ANOTHER challenge
   (a replay) is refused with "signature invalid" *)
Example ex_replay_refused :
  let i := mkS None [] None (repeat 9 16%nat)
             [RFrame (client_auth_frame P0 [1; 2; 3] (repeat 8 16%nat))] [] Allow false in
  so_res (server P0 i) = Err E_DENIED /\
  so_written (server P0 i) = [challenge_frame (repeat 9 16%nat); deny_frame SIG_INVALID].
Proof. vm_compute. repeat split. Qed.
