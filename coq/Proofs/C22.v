(* C22 — lemmas about the model of the resolve machinery. *)
From Coq Require Import Permutation Sorted Lia ZifyBool.
From V Require Import Lib.Base Lib.Sorting Gen.Consts Model.C23 Proofs.C23 Model.C22.
Import C23 C22.
Open Scope N_scope.

(* ---------------- small facts ---------------- *)
Lemma nonempty_true {A} (l : list A) : nonempty l = true <-> l <> [].
Proof. destruct l; cbn; split; congruence. Qed.
Lemma nonempty_false {A} (l : list A) : nonempty l = false <-> l = [].
Proof. destruct l; cbn; split; congruence. Qed.

Lemma nonempty_perm {A} (l l' : list A) : Permutation l l' -> nonempty l = nonempty l'.
Proof.
  intros P. apply Permutation_length in P. destruct l, l'; cbn in *; congruence.
Qed.

Lemma nonempty_map {A B} (f : A -> B) l : nonempty (map f l) = nonempty l.
Proof. now destruct l. Qed.

Lemma reorder_perm ord ps : Permutation (reorder ord ps) ps.
Proof.
  unfold reorder.
  rewrite <- (map_id ps) at 2.
  rewrite <- (map_ext (fun p => snd (index_of (pid p) ord, p)) (fun p => p)) by reflexivity.
  rewrite <- (map_map (fun p => (index_of (pid p) ord, p)) snd).
  apply Permutation_map, sort_perm.
Qed.

Lemma NoDup_pid_perm ps ps' :
  Permutation ps ps' -> NoDup (map pid ps') -> NoDup (map pid ps).
Proof.
  intros P H. eapply Permutation_NoDup; [|exact H]. apply Permutation_sym, Permutation_map, P.
Qed.

Lemma has_In a ps : has a ps = true <-> In a (map pid ps).
Proof.
  unfold has. rewrite existsb_exists, in_map_iff. split.
  - intros [p [Hp E]]. exists p. split; [lia|exact Hp].
  - intros [p [E Hp]]. exists p. split; [exact Hp|lia].
Qed.

Lemma NoDup_snoc (l : list N) x : NoDup l -> ~ In x l -> NoDup (l ++ [x]).
Proof.
  intros H Hx. induction l as [|y r IH]; cbn; [repeat constructor; auto|].
  inversion H; subst. constructor.
  - rewrite in_app_iff. cbn. intros [K|[K|[]]]; [contradiction|]. subst. apply Hx. now left.
  - apply IH; auto. intros K. apply Hx. now right.
Qed.

Lemma add_unknown_NoDup ps a : NoDup (map pid ps) -> NoDup (map pid (add_unknown ps a)).
Proof.
  intros H. unfold add_unknown. destruct (has (fst a) ps) eqn:E; [exact H|].
  rewrite map_app. cbn [map pid]. apply NoDup_snoc; [exact H|].
  intros K. apply has_In in K. congruence.
Qed.

Lemma add_unknown_nonempty ps a : add_unknown ps a <> [].
Proof.
  unfold add_unknown. destruct (has (fst a) ps) eqn:E.
  - destruct ps; [discriminate|discriminate].
  - destruct ps; discriminate.
Qed.

Lemma add_unknown_keeps ps a : ps <> [] -> add_unknown ps a <> [].
Proof. intros _. apply add_unknown_nonempty. Qed.

Lemma fold_add_NoDup addrs ps :
  NoDup (map pid ps) -> NoDup (map pid (fold_left add_unknown addrs ps)).
Proof.
  revert ps. induction addrs as [|a r IH]; intros ps H; cbn [fold_left]; [exact H|].
  apply IH. now apply add_unknown_NoDup.
Qed.

Lemma fold_add_nonempty addrs ps :
  (ps <> [] \/ addrs <> []) -> fold_left add_unknown addrs ps <> [].
Proof.
  revert ps. induction addrs as [|a r IH]; intros ps H; cbn [fold_left].
  - destruct H; [assumption|congruence].
  - apply IH. left. apply add_unknown_nonempty.
Qed.

Lemma fold_add_empty ps : fold_left add_unknown [] ps = ps.
Proof. reflexivity. Qed.

Lemma set_open_NoDup a r ps : NoDup (map pid ps) -> NoDup (map pid (set_open a r ps)).
Proof.
  intros H. unfold set_open. destruct (has a ps) eqn:E.
  - rewrite map_map. erewrite map_ext; [exact H|]. intros p. now destruct (pid p =? a).
  - rewrite map_app. cbn [map pid]. apply NoDup_snoc; [exact H|].
    intros K. apply has_In in K. congruence.
Qed.

Lemma set_open_nonempty a r ps : set_open a r ps <> [].
Proof.
  unfold set_open. destruct (has a ps) eqn:E.
  - destruct ps; [discriminate|discriminate].
  - destruct ps; discriminate.
Qed.

Lemma abandoned_pid now a ps : map pid (abandoned_path now a ps) = map pid ps.
Proof.
  unfold abandoned_path. rewrite map_map. apply map_ext. intros p. now destruct (pid p =? a).
Qed.

Lemma prune_nil : prune [] = [].
Proof. destruct (prune []) eqn:E; [reflexivity|]. assert (In p (prune [])) by (rewrite E; now left).
  apply prune_incl in H. contradiction. Qed.

Lemma prune_NoDup' ps : NoDup (map pid ps) -> NoDup (map pid (prune ps)).
Proof. apply prune_NoDup. Qed.

(* ---------------- invariant ---------------- *)
Record Inv (s : state) : Prop := mkInv {
  inv_nodup : NoDup (map pid (paths s));
  inv_pend : pending s <> [] -> paths s = [];
  inv_pend_nodup : NoDup (pending s);
  inv_sel : was_emptied s = false -> selected s <> None -> paths s <> [];
  inv_look : was_emptied s = false -> pending s <> [] -> lookup s = true }.

Lemma Inv_init : Inv init.
Proof. constructor; cbn; try congruence; constructor. Qed.

Definition new_req (e : event) : list N := match e with Resolve r _ => [r] | _ => [] end.

(* What one step guarantees. *)
Record StepSpec (e : event) (s : state) (rs : list reply) (s1 : state) : Prop := mkSpec {
  sp_inv : Inv s1;
  (* every waiting or new request is either answered in this step or still waiting, never both *)
  sp_perm : Permutation (map fst rs ++ pending s1) (pending s ++ new_req e);
  (* answered Ok at once when a path is known or the request brings an address *)
  sp_imm : forall r a, e = Resolve r a -> was_emptied s1 = false -> (paths s <> [] \/ a <> []) -> In (r, 0) rs;
  (* Ok only when a path is known; failure only when a running lookup ends with no path known *)
  sp_codes : forall r, In r rs ->
     (snd r = 0 /\ (paths s <> [] \/ carries_addr e = true)) \/
     (snd r <> 0 /\ exists how, e = LookupEnd how /\ lookup s = true /\ paths s = [] /\ paths s1 = [] /\
                    snd r = (if how =? 0 then 2 else how));
  sp_end : forall how, e = LookupEnd how -> lookup s = true -> pending s1 = [];
  sp_mono : was_emptied s = true -> was_emptied s1 = true;
  sp_keep : was_emptied s1 = false -> paths s <> [] -> paths s1 <> [] }.

(* the state after `reorder` *)
Definition reord (ord : list N) (s : state) : state :=
  mkSt (reorder ord (paths s)) (pending s) (lookup s) (selected s) (was_emptied s).

Lemma reord_Inv ord s : Inv s -> Inv (reord ord s).
Proof.
  intros [H1 H2 H3 H4 H5]. constructor; cbn; auto.
  - eapply NoDup_pid_perm; [apply reorder_perm|exact H1].
  - intros P. specialize (H2 P). rewrite H2. reflexivity.
  - intros E S K. apply (H4 E S). apply nonempty_false in K. apply nonempty_false.
    now rewrite <- (nonempty_perm _ _ (reorder_perm ord (paths s))).
Qed.

Lemma reord_paths_nil ord s : paths (reord ord s) = [] <-> paths s = [].
Proof.
  cbn. rewrite <- !nonempty_false. now rewrite (nonempty_perm _ _ (reorder_perm ord (paths s))).
Qed.

Lemma emit_nil err ps : emit err ps [] = ([], []).
Proof. reflexivity. Qed.

Lemma emit_cons err ps x r :
  emit err ps (x :: r) =
  (map (fun q => (q, if nonempty ps then 0 else match err with Some e => e | None => 2 end)) (x :: r), []).
Proof. reflexivity. Qed.

Lemma emit_fst err ps pend : map fst (fst (emit err ps pend)) = pend /\ snd (emit err ps pend) = [].
Proof.
  destruct pend as [|x r]; [now cbn|]. rewrite emit_cons. cbn [fst snd]. split; [|reflexivity].
  rewrite map_map. cbn [fst]. apply map_id.
Qed.

Lemma emit_code err ps pend q :
  In q (fst (emit err ps pend)) ->
  snd q = if nonempty ps then 0 else match err with Some e => e | None => 2 end.
Proof.
  destruct pend as [|x r]; [contradiction|]. rewrite emit_cons. cbn [fst].
  intros H. apply in_map_iff in H as [y [<- _]]. reflexivity.
Qed.

(* ---------------- insert_multiple ---------------- *)
Record IMSpec (addrs : list addr) (s : state) (rs : list reply) (s1 : state) : Prop := mkIM {
  im_inv : Inv s1;
  im_perm : Permutation (map fst rs ++ pending s1) (pending s);
  im_codes : forall r, In r rs -> snd r = 0 /\ addrs <> [];
  im_lookup : lookup s1 = lookup s;
  im_sel : selected s1 = selected s;
  im_mono : was_emptied s = true -> was_emptied s1 = true;
  im_keep : was_emptied s1 = false -> (paths s <> [] \/ addrs <> []) -> paths s1 <> [];
  im_nil : paths s = [] -> addrs = [] -> paths s1 = [] }.

Lemma flag_false f a b : f || (a && negb b) = false -> f = false /\ (a = true -> b = true).
Proof. destruct f, a, b; cbn; intros H; try discriminate; auto. Qed.

Lemma insert_multiple_spec addrs s :
  Inv s -> IMSpec addrs s (fst (insert_multiple addrs s)) (snd (insert_multiple addrs s)).
Proof.
  intros I. destruct I as [H1 H2 H3 H4 H5].
  unfold insert_multiple, prune_flag.
  set (ps1 := fold_left add_unknown addrs (paths s)).
  assert (NoDup (map pid (prune ps1))) as ND by (apply prune_NoDup', fold_add_NoDup, H1).
  assert ((paths s <> [] \/ addrs <> []) -> ps1 <> []) as NE1 by apply fold_add_nonempty.
  assert (paths s = [] -> addrs = [] -> ps1 = []) as NIL by (intros E1 E2; unfold ps1; rewrite E1, E2; reflexivity).
  assert (forall f, f || (nonempty ps1 && negb (nonempty (prune ps1))) = false ->
          f = false /\ (ps1 <> [] -> prune ps1 <> [])) as FL.
  { intros f E. apply flag_false in E as [E1 E2]. split; [exact E1|].
    intros K. apply nonempty_true, E2. now apply nonempty_true. }
  destruct (nonempty (paths s)) eqn:NE; cbn [negb andb fst snd].
  - (* a path was known: nobody waits *)
    apply nonempty_true in NE.
    assert (pending s = []) as P0.
    { destruct (pending s) eqn:E; [reflexivity|]. exfalso. apply NE, H2. congruence. }
    constructor; cbn [paths pending lookup selected was_emptied fst snd map app].
    + constructor; cbn [paths pending lookup selected was_emptied].
      * exact ND.
      * rewrite P0. congruence.
      * exact H3.
      * intros E S. destruct (FL _ E) as [E1 E2]. apply E2, NE1. now left.
      * rewrite P0. congruence.
    + reflexivity.
    + intros r [].
    + reflexivity.
    + reflexivity.
    + intros ->. reflexivity.
    + intros E _. destruct (FL _ E) as [E1 E2]. apply E2, NE1. now left.
    + intros K. contradiction.
  - apply nonempty_false in NE. destruct (nonempty ps1) eqn:N1.
    + (* empty -> non-empty: wake everybody with Ok *)
      apply nonempty_true in N1.
      assert (addrs <> []) as AN.
      { intros E. apply N1. now apply NIL. }
      pose proof (emit_fst None ps1 (pending s)) as [EF ES].
      pose proof (emit_code None ps1 (pending s)) as EC.
      destruct (emit None ps1 (pending s)) as [rep pend] eqn:EM. cbn [fst snd] in *. subst pend.
      constructor; cbn [paths pending lookup selected was_emptied fst snd].
      * constructor; cbn [paths pending lookup selected was_emptied].
        -- exact ND.
        -- congruence.
        -- constructor.
        -- intros E S. destruct (FL _ E) as [E1 E2]. now apply E2.
        -- congruence.
      * rewrite EF, app_nil_r. reflexivity.
      * intros r Hr. split; [|exact AN].
        rewrite (EC r Hr). apply nonempty_true in N1. now rewrite N1.
      * reflexivity.
      * reflexivity.
      * intros ->. reflexivity.
      * intros E _. destruct (FL _ E) as [E1 E2]. now apply E2.
      * intros _ K. contradiction.
    + (* still empty *)
      apply nonempty_false in N1. cbn [fst snd]. rewrite N1, prune_nil.
      cbn [nonempty andb negb]. rewrite orb_false_r.
      constructor; cbn [paths pending lookup selected was_emptied fst snd map app].
      * constructor; cbn [paths pending lookup selected was_emptied].
        -- constructor.
        -- reflexivity.
        -- exact H3.
        -- intros E S. exfalso. now apply (H4 E S).
        -- exact H5.
      * reflexivity.
      * intros r [].
      * reflexivity.
      * reflexivity.
      * auto.
      * intros _ K. exfalso. now apply (NE1 K).
      * reflexivity.
Qed.

(* ---------------- one step ---------------- *)
Lemma trigger_fields s :
  paths (trigger_lookup s) = paths s /\ pending (trigger_lookup s) = pending s /\
  selected (trigger_lookup s) = selected s /\ was_emptied (trigger_lookup s) = was_emptied s /\
  (selected s = None -> lookup (trigger_lookup s) = true) /\
  (lookup s = true -> lookup (trigger_lookup s) = true).
Proof.
  unfold trigger_lookup. destruct (selected s) eqn:S; [repeat split; auto; discriminate|].
  destruct (lookup s) eqn:L; cbn; repeat split; auto.
Qed.

Lemma perm_in_tail {A} (u v w : list A) x : Permutation (u ++ v) w -> In x v -> In x w.
Proof. intros P H. eapply Permutation_in; [exact P|]. apply in_or_app. now right. Qed.

Lemma list_nil_dec {A} (l : list A) : l = [] \/ l <> [].
Proof. destruct l; [now left|right; discriminate]. Qed.

Lemma step_spec now ord e s :
  Inv s -> (forall r a, e = Resolve r a -> ~ In r (pending s)) ->
  StepSpec e s (fst (step now ord e s)) (snd (step now ord e s)).
Proof.
  intros I FR. pose proof (reord_Inv ord s I) as I'.
  pose proof (reord_paths_nil ord s) as PN.
  unfold step. fold (reord ord s). set (s' := reord ord s) in *.
  assert (pending s' = pending s) as EP by reflexivity.
  assert (lookup s' = lookup s) as EL by reflexivity.
  assert (selected s' = selected s) as ES by reflexivity.
  assert (was_emptied s' = was_emptied s) as EW by reflexivity.
  destruct e as [req addrs|addrs| |how|a rl sel|a|].
  - (* Resolve *)
    pose proof (insert_multiple_spec addrs s' I') as IM.
    destruct (insert_multiple addrs s') as [r1 s1]. cbn [fst snd] in IM.
    destruct IM as [J1 J2 J3 J4 J5 J6 J7 J8]. destruct J1 as [K1 K2 K3 K4 K5].
    assert (~ In req (pending s1)) as FR1.
    { intros K. apply (FR req addrs eq_refl). rewrite <- EP. eapply perm_in_tail; eauto. }
    unfold resolve_remote.
    destruct (nonempty (paths s1)) eqn:N1.
    + apply nonempty_true in N1.
      destruct (trigger_fields s1) as [T1 [T2 [T3 [T4 [T5 T6]]]]].
      cbn [fst snd]. constructor.
      * constructor; rewrite ?T1, ?T2, ?T3, ?T4; auto.
      * rewrite T2, map_app. cbn [map fst new_req]. rewrite <- EP.
        transitivity ((map fst r1 ++ pending s1) ++ [req]).
        -- rewrite <- !app_assoc. apply Permutation_app_head, Permutation_app_comm.
        -- now apply Permutation_app_tail.
      * intros r a E _ _. injection E as -> ->. apply in_or_app. right. now left.
      * intros r Hr. apply in_app_or in Hr as [Hr|Hr].
        -- destruct (J3 r Hr) as [C A]. left. split; [exact C|]. right. cbn. now apply nonempty_true.
        -- destruct Hr as [<-|[]]. left. split; [reflexivity|].
           destruct (list_nil_dec (paths s)) as [P0|P0]; [|now left].
           destruct (list_nil_dec addrs) as [A0|A0]; [|right; cbn; now apply nonempty_true].
           exfalso. apply N1. apply J8; [now apply PN|exact A0].
      * discriminate.
      * rewrite T4. intros E. apply J6. now rewrite EW.
      * rewrite T1, T4. intros E P. apply J7; [exact E|]. left. intros K. apply P. now apply PN.
    + apply nonempty_false in N1.
      set (s2 := mkSt (paths s1) (pending s1 ++ [req]) (lookup s1) (selected s1) (was_emptied s1)).
      destruct (trigger_fields s2) as [T1 [T2 [T3 [T4 [T5 T6]]]]].
      cbn [fst snd]. constructor.
      * constructor; rewrite ?T1, ?T2, ?T3, ?T4; cbn [s2 paths pending selected was_emptied]; auto.
        -- now apply NoDup_snoc.
        -- intros E _. apply T5. cbn [s2 selected].
           destruct (selected s1) eqn:S; [|reflexivity]. exfalso.
           apply (K4 E); [congruence|exact N1].
      * rewrite T2, app_nil_r. cbn [s2 pending new_req]. rewrite <- EP.
        rewrite app_assoc. now apply Permutation_app_tail.
      * intros r a E W [P|A]; exfalso.
        -- rewrite T4 in W. cbn [s2 was_emptied] in W. apply (J7 W); [|exact N1].
           left. intros K. apply P. now apply PN.
        -- injection E as -> ->. rewrite T4 in W. cbn [s2 was_emptied] in W.
           apply (J7 W); [|exact N1]. now right.
      * intros r Hr. rewrite app_nil_r in Hr.
        destruct (J3 r Hr) as [C A]. left. split; [exact C|]. right. cbn. now apply nonempty_true.
      * discriminate.
      * rewrite T4. cbn [s2 was_emptied]. intros E. apply J6. now rewrite EW.
      * rewrite T1, T4. cbn [s2 paths was_emptied]. intros E P. apply J7; [exact E|].
        left. intros K. apply P. now apply PN.
  - (* LookupItem *)
    destruct (lookup s') eqn:L.
    + pose proof (insert_multiple_spec addrs s' I') as IM.
      destruct (insert_multiple addrs s') as [r1 s1]. cbn [fst snd] in *.
      destruct IM as [J1 J2 J3 J4 J5 J6 J7 J8]. constructor.
      * exact J1.
      * cbn [new_req]. now rewrite app_nil_r, <- EP.
      * discriminate.
      * intros r Hr. destruct (J3 r Hr) as [C A]. left. split; [exact C|]. right. cbn.
        now apply nonempty_true.
      * discriminate.
      * exact J6.
      * intros E P. apply J7; [exact E|]. left. intros K. apply P. now apply PN.
    + cbn [fst snd]. constructor.
      * exact I'.
      * cbn [new_req map app]. now rewrite app_nil_r, EP.
      * discriminate.
      * intros r [].
      * discriminate.
      * auto.
      * intros _ P K. apply P. now apply PN.
  - (* LookupItemOther *)
    cbn [fst snd]. constructor.
    + exact I'.
    + cbn [new_req map app]. now rewrite app_nil_r, EP.
    + discriminate.
    + intros r [].
    + discriminate.
    + auto.
    + intros _ P K. apply P. now apply PN.
  - (* LookupEnd *)
    destruct (lookup s') eqn:L.
    + set (err := if how =? 0 then None else Some how).
      pose proof (emit_fst err (paths s') (pending s')) as [EF EE].
      pose proof (emit_code err (paths s') (pending s')) as EC.
      destruct (emit err (paths s') (pending s')) as [rep pend]. cbn [fst snd] in *. subst pend.
      destruct I' as [K1 K2 K3 K4 K5].
      constructor; cbn [paths pending lookup selected was_emptied].
      * constructor; cbn [paths pending lookup selected was_emptied]; auto; try congruence.
        constructor.
      * cbn [new_req]. rewrite !app_nil_r, EF. now rewrite EP.
      * discriminate.
      * intros r Hr. rewrite (EC r Hr). destruct (nonempty (paths s')) eqn:N.
        -- left. split; [reflexivity|]. left. apply nonempty_true in N. intros K. apply N. now apply PN.
        -- right. apply nonempty_false in N. split.
           ++ unfold err. destruct (how =? 0) eqn:H0; lia.
           ++ exists how. repeat split; auto; [now apply PN|].
              unfold err. destruct (how =? 0); reflexivity.
      * reflexivity.
      * auto.
      * intros _ P K. apply P. now apply PN.
    + cbn [fst snd]. constructor.
      * exact I'.
      * cbn [new_req map app]. now rewrite app_nil_r, EP.
      * discriminate.
      * intros r [].
      * intros h _ L'. rewrite <- EL in L'. congruence.
      * auto.
      * intros _ P K. apply P. now apply PN.
  - (* OpenPath *)
    unfold insert_open_path, prune_flag.
    set (ps1 := set_open a rl (paths s')).
    assert (ps1 <> []) as NE1 by apply set_open_nonempty.
    assert (NoDup (map pid (prune ps1))) as ND.
    { apply prune_NoDup', set_open_NoDup. now destruct I'. }
    pose proof (emit_fst None ps1 (pending s')) as [EF EE].
    pose proof (emit_code None ps1 (pending s')) as EC.
    destruct (emit None ps1 (pending s')) as [rep pend]. cbn [fst snd] in *. subst pend.
    assert (forall f, f || (nonempty ps1 && negb (nonempty (prune ps1))) = false ->
            f = false /\ prune ps1 <> []) as FL.
    { intros f E. apply flag_false in E as [E1 E2]. split; [exact E1|].
      apply nonempty_true, E2. now apply nonempty_true. }
    assert (StepSpec (OpenPath a rl sel) s rep
              (mkSt (prune ps1) [] (lookup s') (selected s')
                 (was_emptied s' || (nonempty ps1 && negb (nonempty (prune ps1)))))) as SP.
    { destruct I' as [K1 K2 K3 K4 K5].
      constructor; cbn [paths pending lookup selected was_emptied].
      - constructor; cbn [paths pending lookup selected was_emptied]; auto; try congruence.
        + constructor.
        + intros E _. now destruct (FL _ E).
      - cbn [new_req]. rewrite !app_nil_r, EF. now rewrite EP.
      - discriminate.
      - intros r Hr. rewrite (EC r Hr). apply nonempty_true in NE1. rewrite NE1.
        left. split; [reflexivity|]. now right.
      - discriminate.
      - rewrite EW. intros ->. reflexivity.
      - intros E _. now destruct (FL _ E). }
    destruct sel; cbn [fst snd]; [|exact SP].
    destruct SP as [J1 J2 J3 J4 J5 J6 J7]. destruct J1 as [K1 K2 K3 K4 K5].
    cbn [paths pending lookup selected was_emptied] in *.
    constructor; cbn [paths pending lookup selected was_emptied]; auto.
    constructor; cbn [paths pending lookup selected was_emptied]; auto.
    intros E _. now destruct (FL _ E).
  - (* Abandon *)
    cbn [fst snd]. destruct I' as [K1 K2 K3 K4 K5].
    assert (forall ps, abandoned_path now a ps = [] <-> ps = []) as AN.
    { intros ps. unfold abandoned_path. destruct ps; cbn; split; congruence. }
    constructor; cbn [paths pending lookup selected was_emptied].
    + constructor; cbn [paths pending lookup selected was_emptied]; auto.
      * now rewrite abandoned_pid.
      * intros P. apply AN. auto.
      * intros E S K. apply (K4 E S). now apply AN.
    + cbn [new_req map app]. now rewrite app_nil_r, EP.
    + discriminate.
    + intros r [].
    + discriminate.
    + auto.
    + intros _ P K. apply P. apply PN. now apply AN.
  - (* ConnClosed *)
    cbn [fst snd]. destruct I' as [K1 K2 K3 K4 K5].
    constructor; cbn [paths pending lookup selected was_emptied].
    + constructor; cbn [paths pending lookup selected was_emptied]; auto; congruence.
    + cbn [new_req map app]. now rewrite app_nil_r, EP.
    + discriminate.
    + intros r [].
    + discriminate.
    + auto.
    + intros _ P K. apply P. now apply PN.
Qed.

(* ---------------- the monitor on the model's observations ---------------- *)
Lemma NoDup_app_remove_r {A} (u v : list A) : NoDup (u ++ v) -> NoDup u.
Proof.
  induction u as [|x u IH]; cbn; [constructor|]. intros H. inversion H; subst. constructor.
  - intros K. apply H2. apply in_or_app. now left.
  - now apply IH.
Qed.
Lemma NoDup_app_remove_l {A} (u v : list A) : NoDup (u ++ v) -> NoDup v.
Proof. induction u as [|x u IH]; cbn; [auto|]. intros H. inversion H; subst. now apply IH. Qed.

Lemma memN_In x l : memN x l = true <-> In x l.
Proof. apply mem_In. Qed.
Lemma memN_false x l : memN x l = false <-> ~ In x l.
Proof. apply mem_false. Qed.
Lemma nodupN_NoDup l : nodupN l = true <-> NoDup l.
Proof.
  induction l as [|x r IH]; cbn [nodupN].
  - split; [constructor|reflexivity].
  - rewrite andb_true_iff, negb_true_iff, memN_false, IH. split.
    + intros [H1 H2]. now constructor.
    + intros H. inversion H; subst. now split.
Qed.

Lemma sort_replies_in r rs : In r (sort_replies rs) <-> In r rs.
Proof. apply sort_in. Qed.
Lemma sort_replies_perm rs : Permutation (map fst (sort_replies rs)) (map fst rs).
Proof. apply Permutation_map, sort_perm. Qed.

Lemma known_after_eq ps : nonempty (map path_obs (sort_paths ps)) = nonempty ps.
Proof. rewrite nonempty_map. apply nonempty_perm, sort_perm. Qed.

Lemma reply_eqb_refl x : reply_eqb x x = true.
Proof. unfold reply_eqb. now rewrite !N.eqb_refl. Qed.

Record Link (m : mstate) (s : state) : Prop := mkLink {
  l_known : m_known m = nonempty (paths s);
  l_lookup : m_lookup m = lookup s;
  l_pend_asked : incl (pending s) (m_asked m);
  l_pend_fresh : forall r, In r (pending s) -> ~ In r (m_answered m);
  l_ans_asked : incl (m_answered m) (m_asked m) }.

Lemma NoDup_app_disjoint {A} (u v : list A) x : NoDup (u ++ v) -> In x u -> In x v -> False.
Proof.
  induction u as [|y u IH]; cbn; [contradiction|].
  intros H [->|Hu] Hv; inversion H; subst.
  - apply H2. apply in_or_app. now right.
  - now apply IH.
Qed.

Lemma len_pos {A} (l : list A) : (0 <? len l) = nonempty l.
Proof. destruct l; [reflexivity|]. unfold len. cbn [length nonempty]. lia. Qed.
Lemma len_zero {A} (l : list A) : (len l =? 0) = negb (nonempty l).
Proof. destruct l; [reflexivity|]. unfold len. cbn [length nonempty negb]. lia. Qed.

Lemma monitor_step_ok strict e s rs s1 m :
  StepSpec e s rs s1 -> Link m s ->
  NoDup (pending s ++ new_req e) ->
  (forall r, In r (new_req e) -> ~ In r (m_asked m)) ->
  (strict = true -> was_emptied s1 = false) ->
  fst (monitor_step strict e (obs_of rs s1) m) = true /\
  Link (snd (monitor_step strict e (obs_of rs s1) m)) s1.
Proof.
  intros [S1 S2 S3 S4 S5 S6 S7] [L1 L2 L3 L4 L5] ND FR ST.
  destruct S1 as [K1 K2 K3 K4 K5].
  set (asked := match e with Resolve r _ => r :: m_asked m | _ => m_asked m end).
  assert (asked = new_req e ++ m_asked m) as EA by (unfold asked; now destruct e).
  assert (NoDup (map fst rs ++ pending s1)) as ND1.
  { eapply Permutation_NoDup; [apply Permutation_sym, S2|exact ND]. }
  assert (forall x, In x (map fst rs ++ pending s1) -> In x asked /\ ~ In x (m_answered m)) as AS.
  { intros x Hx. apply (Permutation_in _ S2) in Hx. rewrite EA. apply in_app_or in Hx as [Hx|Hx].
    - split; [apply in_or_app; right; now apply L3|now apply L4].
    - split; [apply in_or_app; now left|]. intros K. apply (FR x Hx). now apply L5. }
  unfold monitor_step. fold asked. cbn [obs_of o_replies o_paths o_pending o_lookup fst snd].
  rewrite known_after_eq. split.
  - repeat (apply andb_true_iff; split).
    + apply forallb_forall. intros r Hr. apply (proj1 (sort_replies_in _ _)) in Hr.
      destruct (AS (fst r)) as [A1 A2]; [apply in_or_app; left; apply in_map; exact Hr|].
      apply andb_true_iff. split; [now apply memN_In|]. now apply negb_true_iff, memN_false.
    + apply nodupN_NoDup. eapply Permutation_NoDup; [apply Permutation_sym, sort_replies_perm|].
      now apply NoDup_app_remove_r in ND1.
    + destruct e as [req addrs| | | | | |]; try reflexivity.
      destruct strict; [|reflexivity]. cbn [negb orb].
      destruct (m_known m || nonempty addrs) eqn:C; [|reflexivity]. cbn [implb].
      apply existsb_exists. exists (req, 0). split; [|apply reply_eqb_refl].
      apply (proj2 (sort_replies_in _ _)). apply (S3 req addrs eq_refl (ST eq_refl)).
      apply orb_prop in C as [C|C].
      * left. apply nonempty_true. now rewrite <- L1.
      * right. now apply nonempty_true.
    + apply forallb_forall. intros r Hr. apply (proj1 (sort_replies_in _ _)) in Hr.
      destruct (S4 r Hr) as [[C P]|[C [how [-> [P1 [P2 [P3 P4]]]]]]].
      * rewrite C. cbn. destruct P as [P|P]; [|rewrite P; apply orb_true_r].
        apply nonempty_true in P. now rewrite L1, P.
      * replace (snd r =? 0) with false by lia.
        rewrite L1, L2, P1, P2, P3, P4. cbn. lia.
    + destruct e as [| | |how| | |]; try reflexivity.
      destruct (m_lookup m) eqn:ML; [|reflexivity]. cbn [implb].
      rewrite (S5 how eq_refl); [reflexivity|congruence].
    + rewrite len_pos. destruct (nonempty (pending s1)) eqn:NP; [|reflexivity]. cbn [implb].
      apply nonempty_true in NP. rewrite (K2 NP). cbn [nonempty negb andb].
      destruct strict; [|reflexivity]. cbn [negb orb]. apply K5; [now apply ST|exact NP].
    + destruct strict; [|reflexivity]. cbn [negb orb].
      destruct (m_known m) eqn:MK; [|reflexivity]. cbn [implb].
      apply nonempty_true. apply S7; [now apply ST|]. apply nonempty_true. now rewrite <- L1.
  - constructor; cbn [m_known m_lookup m_asked m_answered].
    + reflexivity.
    + reflexivity.
    + intros x Hx. apply (AS x). apply in_or_app. now right.
    + intros x Hx K. apply in_app_or in K as [K|K].
      * apply (Permutation_in _ (sort_replies_perm rs)) in K.
        exact (NoDup_app_disjoint _ _ x ND1 K Hx).
      * destruct (AS x) as [_ A2]; [apply in_or_app; now right|]. now apply A2.
    + intros x Hx. apply in_app_or in Hx as [Hx|Hx].
      * apply (Permutation_in _ (sort_replies_perm rs)) in Hx.
        apply (AS x). apply in_or_app. now left.
      * rewrite EA. apply in_or_app. right. now apply L5.
Qed.

(* ---------------- whole histories ---------------- *)
Lemma req_ids_cons ord e i : req_ids ((ord, e) :: i) = new_req e ++ req_ids i.
Proof. unfold req_ids. cbn [flat_map snd]. now destruct e. Qed.

Lemma run_cons now ord e i s :
  run now ((ord, e) :: i) s =
  (obs_of (fst (step now ord e s)) (snd (step now ord e s)) ::
     fst (run (now + 1) i (snd (step now ord e s))),
   snd (run (now + 1) i (snd (step now ord e s)))).
Proof.
  cbn [run]. destruct (step now ord e s) as [rs s1]. cbn [fst snd].
  now destruct (run (now + 1) i s1).
Qed.

Lemma step_fresh e i s s1 rs :
  StepSpec e s rs s1 -> NoDup (new_req e ++ req_ids i) ->
  (forall r, In r (new_req e ++ req_ids i) -> ~ In r (pending s)) ->
  forall r, In r (req_ids i) -> ~ In r (pending s1).
Proof.
  intros SP ND FR r Hr K.
  assert (In r (pending s ++ new_req e)) as H.
  { eapply Permutation_in; [apply (sp_perm _ _ _ _ SP)|]. apply in_or_app. now right. }
  apply in_app_or in H as [H|H].
  - apply (FR r); [apply in_or_app; now right|exact H].
  - exact (NoDup_app_disjoint _ _ r ND H Hr).
Qed.

Lemma run_mono i : forall now s,
  Inv s -> NoDup (req_ids i) -> (forall r, In r (req_ids i) -> ~ In r (pending s)) ->
  was_emptied s = true -> was_emptied (snd (run now i s)) = true.
Proof.
  induction i as [|[ord e] i IH]; intros now s I ND FR W; [exact W|].
  rewrite run_cons. cbn [snd]. rewrite req_ids_cons in ND, FR.
  assert (StepSpec e s (fst (step now ord e s)) (snd (step now ord e s))) as SP.
  { apply step_spec; [exact I|]. intros r a ->. apply FR. now left. }
  apply IH.
  - apply (sp_inv _ _ _ _ SP).
  - now apply NoDup_app_remove_l in ND.
  - eapply step_fresh; eauto.
  - now apply (sp_mono _ _ _ _ SP).
Qed.

Lemma run_monitor strict i : forall now s m,
  Inv s -> Link m s -> NoDup (req_ids i) ->
  (forall r, In r (req_ids i) -> ~ In r (m_asked m)) ->
  (strict = true -> was_emptied (snd (run now i s)) = false) ->
  monitor_run strict i (fst (run now i s)) m = true.
Proof.
  induction i as [|[ord e] i IH]; intros now s m I L ND FR ST; [reflexivity|].
  rewrite run_cons in *. cbn [fst snd] in *. rewrite req_ids_cons in ND, FR.
  assert (forall r, In r (new_req e ++ req_ids i) -> ~ In r (pending s)) as FRp.
  { intros r Hr K. apply (FR r Hr). now apply (l_pend_asked _ _ L). }
  assert (StepSpec e s (fst (step now ord e s)) (snd (step now ord e s))) as SP.
  { apply step_spec; [exact I|]. intros r a ->. apply FRp. now left. }
  set (rs := fst (step now ord e s)) in *. set (s1 := snd (step now ord e s)) in *.
  assert (forall r, In r (req_ids i) -> ~ In r (pending s1)) as FR1 by (eapply step_fresh; eauto).
  assert (strict = true -> was_emptied s1 = false) as ST1.
  { intros E. destruct (was_emptied s1) eqn:W; [|reflexivity].
    rewrite (run_mono i (now + 1) s1) in ST; auto.
    - apply (sp_inv _ _ _ _ SP).
    - now apply NoDup_app_remove_l in ND. }
  destruct (monitor_step_ok strict e s rs s1 m SP L) as [OK L1]; auto.
  { apply NoDup_app_remove_r in ND as NDn.
    destruct e; cbn [new_req] in *; rewrite ?app_nil_r; try apply (inv_pend_nodup _ I).
    apply NoDup_snoc; [apply (inv_pend_nodup _ I)|]. apply FRp. now left. }
  { intros r Hr. apply FR. apply in_or_app. now left. }
  cbn [monitor_run]. destruct (monitor_step strict e (obs_of rs s1) m) as [ok m'] eqn:MS.
  cbn [fst snd] in *. subst ok. cbn [andb].
  apply IH; auto.
  - apply (sp_inv _ _ _ _ SP).
  - now apply NoDup_app_remove_l in ND.
  - intros r Hr K.
    assert (m_asked m' = new_req e ++ m_asked m) as EA.
    { unfold monitor_step in MS. injection MS as _ <-. cbn [m_asked]. now destruct e. }
    rewrite EA in K. apply in_app_or in K as [K|K].
    + exact (NoDup_app_disjoint _ _ r ND K Hr).
    + apply (FR r); [apply in_or_app; now right|exact K].
Qed.

Lemma Link_init : Link (mkM false false [] []) init.
Proof. constructor; cbn; auto; intros r []. Qed.

Lemma model_monitor_gen strict i :
  (strict = true -> known i = 0) -> monitor_gen strict i (model i) = true.
Proof.
  intros K. unfold monitor_gen, model. destruct (nodupN (req_ids i)) eqn:ND; [|reflexivity].
  cbn [negb]. apply nodupN_NoDup in ND as ND'.
  apply run_monitor; auto using Inv_init, Link_init.
  intros E. specialize (K E). unfold known, known_of in K. rewrite ND in K. cbn [andb] in K.
  destruct (was_emptied (snd (run 1 i init))); [discriminate|reflexivity].
Qed.

(* ---------------- readable consequences ---------------- *)
Lemma run_Inv i : forall now s,
  Inv s -> NoDup (req_ids i) -> (forall r, In r (req_ids i) -> ~ In r (pending s)) ->
  Inv (snd (run now i s)).
Proof.
  induction i as [|[ord e] i IH]; intros now s I ND FR; [exact I|].
  rewrite run_cons. cbn [snd]. rewrite req_ids_cons in ND, FR.
  assert (StepSpec e s (fst (step now ord e s)) (snd (step now ord e s))) as SP.
  { apply step_spec; [exact I|]. intros r a ->. apply FR. now left. }
  apply IH.
  - apply (sp_inv _ _ _ _ SP).
  - now apply NoDup_app_remove_l in ND.
  - eapply step_fresh; eauto.
Qed.

(* state reached after a history *)
Definition final (i : input) : state := snd (run 1 i init).
Definition observations (i : input) : list obs := fst (run 1 i init).
Definition all_replied (os : list obs) : list N := flat_map (fun o => map fst (o_replies o)) os.

Lemma t_final_state i :
  NoDup (req_ids i) ->
  NoDup (map pid (paths (final i))) /\
  (pending (final i) <> [] -> paths (final i) = []) /\
  (was_emptied (final i) = false -> pending (final i) <> [] -> lookup (final i) = true) /\
  (was_emptied (final i) = false -> selected (final i) <> None -> paths (final i) <> []).
Proof.
  intros ND. destruct (run_Inv i 1 init Inv_init ND) as [H1 H2 H3 H4 H5]; [intros r _ []|].
  unfold final. auto.
Qed.

Lemma monitor_run_once strict i : forall os m,
  monitor_run strict i os m = true -> NoDup (m_answered m) ->
  NoDup (all_replied os ++ m_answered m) /\
  (forall r, In r (all_replied os) -> In r (req_ids i ++ m_asked m)).
Proof.
  induction i as [|[ord e] i IH]; intros os m H ND.
  - destruct os; [|discriminate]. cbn. split; [exact ND|intros r []].
  - destruct os as [|o os]; [discriminate|]. cbn [monitor_run] in H.
    destruct (monitor_step strict e o m) as [ok m'] eqn:MS. apply andb_prop in H as [OK H].
    unfold monitor_step in MS. injection MS as E1 E2. subst ok.
    rewrite !andb_true_iff in OK. destruct OK as [[[[[[C1 C2] _] _] _] _] _].
    rewrite forallb_forall in C1. apply nodupN_NoDup in C2.
    assert (NoDup (m_answered m')) as ND'.
    { rewrite <- E2. cbn [m_answered]. clear -C1 C2 ND.
      induction (o_replies o) as [|x r IHr]; cbn [map app]; [exact ND|].
      cbn [map] in C2. inversion C2; subst. constructor.
      - intros K. apply in_app_or in K as [K|K]; [contradiction|].
        specialize (C1 x (or_introl eq_refl)). apply andb_prop in C1 as [_ C1].
        apply negb_true_iff, memN_false in C1. contradiction.
      - apply IHr; auto. intros y Hy. apply C1. now right. }
    destruct (IH os m' H ND') as [N1 N2]. split.
    + cbn [all_replied flat_map]. fold (all_replied os). rewrite <- E2 in N1. cbn [m_answered] in N1.
      eapply Permutation_NoDup; [|exact N1].
      rewrite <- !app_assoc. rewrite app_assoc. rewrite (app_assoc (map fst (o_replies o))).
      apply Permutation_app_tail, Permutation_app_comm.
    + intros r Hr. cbn [all_replied flat_map] in Hr. fold (all_replied os) in Hr.
      rewrite req_ids_cons. apply in_app_or in Hr as [Hr|Hr].
      * apply in_map_iff in Hr as [x [<- Hx]]. specialize (C1 x Hx). apply andb_prop in C1 as [C1 _].
        apply memN_In in C1. destruct e; cbn [new_req app]; try (apply in_or_app; now right).
        destruct C1 as [<-|C1]; [now left|]. right. apply in_or_app. now right.
      * specialize (N2 r Hr). rewrite <- E2 in N2. cbn [m_asked] in N2.
        apply in_app_or in N2 as [N2|N2]; [rewrite <- app_assoc; apply in_or_app; right; apply in_or_app; now left|].
        destruct e; cbn [new_req app]; try (apply in_or_app; now right).
        destruct N2 as [<-|N2]; [now left|]. right. apply in_or_app. now right.
Qed.

(* every request is answered at most once, and only requests are answered *)
Lemma t_reply_at_most_once i :
  NoDup (req_ids i) ->
  NoDup (all_replied (observations i)) /\ incl (all_replied (observations i)) (req_ids i).
Proof.
  intros ND. pose proof (model_monitor_gen false i) as M.
  unfold monitor_gen, model in M. rewrite (proj2 (nodupN_NoDup _) ND) in M. cbn [negb] in M.
  destruct (monitor_run_once false i _ _ (M ltac:(discriminate))) as [N1 N2]; [constructor|].
  cbn [m_answered m_asked] in *. rewrite app_nil_r in *. split; [exact N1|].
  intros r Hr. exact (N2 r Hr).
Qed.

(* ---------------- witnesses ---------------- *)
Definition w_open : list N := [0;1;2;3;4;5;6;8;9;10].
Definition w_more : list N := [11;12;13;14;16;17;18;19;20;21;22;24;25;26;27;28;29;30;32;33].
(* 10 paths opened (the first becomes the selected path), 20 more addresses learned, all 30
   abandoned; the next address-less request prunes the path set to empty and then waits
   although no lookup is running. *)
Definition witness : input :=
  map (fun a => ([], OpenPath a false (a =? 0))) w_open ++
  [([], Resolve 0 (map (fun a => (a, false)) w_more))] ++
  map (fun a => ([], Abandon a)) (w_open ++ w_more) ++
  [([], Resolve 1 [])].

Example witness_known : known witness = 1.
Proof. vm_compute. reflexivity. Qed.
Example witness_monitor : monitor witness (model witness) = false.
Proof. vm_compute. reflexivity. Qed.
(* before the last request 30 paths are known; after it none, the request waits, no lookup runs *)
Example witness_shape :
  len (paths (final (removelast witness))) = 30 /\
  paths (final witness) = [] /\ pending (final witness) = [1] /\ lookup (final witness) = false /\
  selected (final witness) = Some 0.
Proof. vm_compute. auto. Qed.

Lemma t_known_violates : exists i, known i = 1 /\ monitor i (model i) = false.
Proof. exists witness. split; [exact witness_known|exact witness_monitor]. Qed.

Lemma t_paths_never_emptied_refuted :
  exists i e, NoDup (req_ids (i ++ [e])) /\ paths (final i) <> [] /\ paths (final (i ++ [e])) = [] /\
              pending (final (i ++ [e])) <> [] /\ lookup (final (i ++ [e])) = false.
Proof.
  exists (removelast witness), ([], Resolve 1 []).
  split; [apply nodupN_NoDup; vm_compute; reflexivity|].
  repeat split; vm_compute; congruence.
Qed.

(* non-vacuity: histories outside the known class with waiting, Ok and failed replies *)
Example ex_regression_tests :
  let i := [([], Resolve 0 []); ([], Resolve 1 []); ([], LookupItem [(4, false)]);
            ([4], Resolve 2 []); ([4], LookupEnd 0)] in
  known i = 0 /\ map o_replies (observations i) = [[]; []; [(0, 0); (1, 0)]; [(2, 0)]; []].
Proof. vm_compute. auto. Qed.
Example ex_failure :
  let i := [([], Resolve 0 []); ([], LookupEnd 3); ([], Resolve 1 []); ([], LookupEnd 0)] in
  known i = 0 /\ map o_replies (observations i) = [[]; [(0, 3)]; []; [(1, 2)]].
Proof. vm_compute. auto. Qed.

Lemma t_model_monitor i : known i = 0 -> monitor i (model i) = true.
Proof. intros K. apply (model_monitor_gen true). auto. Qed.
Lemma t_model_monitor_core i : monitor_gen false i (model i) = true.
Proof. apply model_monitor_gen. discriminate. Qed.
