(* C31 — proofs about the endpoint-info publish/resolve model. *)
From V Require Import Lib.Base Lib.Dec Gen.Consts Model.C31.
From Coq Require Import ZifyBool.
Import C31.
Open Scope N_scope.

(* ---- splitting ---- *)
Lemma split_once_app c k v :
  ~ In c k -> split_once c (k ++ c :: v) = (k, Some v).
Proof.
  induction k as [|x k IH]; intros H; cbn [app split_once].
  - now rewrite N.eqb_refl.
  - destruct (x =? c) eqn:E.
    + apply N.eqb_eq in E. subst. exfalso. apply H. now left.
    + rewrite IH; [reflexivity|]. intros Hin. apply H. now right.
Qed.

Lemma attr_name_no_eq a : ~ In EQ (attr_name a).
Proof.
  destruct a; cbn; unfold EQ; intros H;
    repeat (destruct H as [H|H]; [discriminate H|]); exact H.
Qed.

Lemma attr_of_name_name a : attr_of_name (attr_name a) = Some a.
Proof. destruct a; vm_compute; reflexivity. Qed.

Lemma key_value_kv a v : key_value (kv_string a v) = Some (attr_name a, v).
Proof.
  unfold key_value, kv_string. rewrite split_once_app; [reflexivity | apply attr_name_no_eq].
Qed.

(* the pre-fix split keeps only the part of the value before its first '=' *)
Lemma key_value_old_kv a v :
  key_value_old (kv_string a v) = Some (attr_name a, fst (split_once EQ v)).
Proof.
  unfold key_value_old, kv_string. rewrite split_once_app; [reflexivity | apply attr_name_no_eq].
Qed.

(* ---- from_strings after to_txt_strings is the identity (fixed code) ---- *)
Definition pushes (k : attr) (vs : list bytes) (acc : txtattrs) : txtattrs :=
  fold_left (fun a v => push a k v) vs acc.

Lemma from_strings_go_map k vs : forall acc rest,
  from_strings_go key_value acc (map (kv_string k) vs ++ rest) =
  from_strings_go key_value (pushes k vs acc) rest.
Proof.
  induction vs as [|v vs IH]; intros acc rest; [reflexivity|].
  cbn [map app from_strings_go]. rewrite key_value_kv, attr_of_name_name. apply IH.
Qed.

Lemma pushes_relay vs : forall id r a u,
  pushes ARelay vs (mkAttrs id r a u) = mkAttrs id (r ++ vs) a u.
Proof.
  induction vs as [|v vs IH]; intros; cbn [pushes fold_left].
  - now rewrite app_nil_r.
  - unfold pushes in IH. cbn [push t_id t_relay t_addr t_ud]. rewrite IH, <- app_assoc. reflexivity.
Qed.
Lemma pushes_addr vs : forall id r a u,
  pushes AAddr vs (mkAttrs id r a u) = mkAttrs id r (a ++ vs) u.
Proof.
  induction vs as [|v vs IH]; intros; cbn [pushes fold_left].
  - now rewrite app_nil_r.
  - unfold pushes in IH. cbn [push t_id t_relay t_addr t_ud]. rewrite IH, <- app_assoc. reflexivity.
Qed.
Lemma pushes_ud vs : forall id r a u,
  pushes AUserData vs (mkAttrs id r a u) = mkAttrs id r a (u ++ vs).
Proof.
  induction vs as [|v vs IH]; intros; cbn [pushes fold_left].
  - now rewrite app_nil_r.
  - unfold pushes in IH. cbn [push t_id t_relay t_addr t_ud]. rewrite IH, <- app_assoc. reflexivity.
Qed.

Lemma from_strings_to_txt_strings a :
  from_strings (t_id a) (to_txt_strings a) = Ok a.
Proof.
  unfold from_strings, from_strings_with, to_txt_strings.
  rewrite from_strings_go_map, pushes_relay.
  rewrite from_strings_go_map, pushes_addr.
  rewrite <- (app_nil_r (map (kv_string AUserData) (t_ud a))).
  rewrite from_strings_go_map, pushes_ud. cbn [from_strings_go app].
  destruct a; reflexivity.
Qed.

(* ---- from_parts: which values end up under which key ---- *)
Fixpoint sel (k : attr) (pairs : list (attr * bytes)) : list bytes :=
  match pairs with
  | [] => []
  | (k', v) :: r =>
      match k, k' with
      | ARelay, ARelay | AAddr, AAddr | AUserData, AUserData => v :: sel k r
      | _, _ => sel k r
      end
  end.

Lemma from_parts_go pairs : forall id r a u,
  fold_left (fun acc kv => push acc (fst kv) (snd kv)) pairs (mkAttrs id r a u) =
  mkAttrs id (r ++ sel ARelay pairs) (a ++ sel AAddr pairs) (u ++ sel AUserData pairs).
Proof.
  induction pairs as [|[k v] pairs IH]; intros; cbn [fold_left sel].
  - now rewrite !app_nil_r.
  - destruct k; cbn [fst snd push t_id t_relay t_addr t_ud]; rewrite IH, <- ?app_assoc; reflexivity.
Qed.

Lemma from_parts_sel id pairs :
  from_parts id pairs = mkAttrs id (sel ARelay pairs) (sel AAddr pairs) (sel AUserData pairs).
Proof. unfold from_parts. now rewrite from_parts_go. Qed.

(* ---- custom addresses ---- *)
Lemma hex_not_uscore l : Forall (fun c => is_hex_low c = true) l -> ~ In USCORE l.
Proof.
  intros F H. rewrite Forall_forall in F. apply F in H. unfold is_hex_low, USCORE in H. lia.
Qed.

Lemma parse_custom_print i d :
  i <= 18446744073709551615 -> Forall (fun b => b < 256) d ->
  parse_custom (print_custom i d) = Some (i, d).
Proof.
  intros Hi Hd. unfold parse_custom, print_custom.
  rewrite split_once_app by (apply hex_not_uscore, hexnum_is_hex).
  rewrite parse_hex_u64_hexnum by exact Hi. now rewrite unhexlow_hexlow.
Qed.

Lemma print_custom_no_colon i d : Forall (fun b => b < 256) d -> ~ In COLON (print_custom i d).
Proof.
  intros Hd H. unfold print_custom in H. apply in_app_or in H as [H | [H | H]].
  - pose proof (hexnum_is_hex i) as F. rewrite Forall_forall in F. apply F in H.
    unfold is_hex_low, COLON in H. lia.
  - unfold USCORE, COLON in H. discriminate.
  - pose proof (hexlow_is_hex d Hd) as F. rewrite Forall_forall in F. apply F in H.
    unfold is_hex_low, COLON in H. lia.
Qed.

Section Proofs.
  Variables Url Sock : Type.
  Variable url_eqb : Url -> Url -> bool.
  Variable sock_eqb : Sock -> Sock -> bool.
  Variable print_url : Url -> bytes.
  Variable parse_url : bytes -> option Url.
  Variable print_sock : Sock -> bytes.
  Variable parse_sock : bytes -> option Sock.
  Hypothesis url_eqb_spec : forall u v, url_eqb u v = true <-> u = v.
  Hypothesis sock_eqb_spec : forall a b, sock_eqb a b = true <-> a = b.

  Notation addr := (addr Url Sock).
  Notation info := (info Url Sock).
  Notation addr_eqb := (addr_eqb Url Sock url_eqb sock_eqb).
  Notation print_addr := (print_addr Url Sock print_url print_sock).
  Notation to_attrs := (to_attrs Url Sock print_url print_sock).
  Notation parse_addr_value := (parse_addr_value Url Sock parse_sock).
  Notation parse_relay_value := (parse_relay_value Url Sock parse_url).
  Notation add_addrs := (add_addrs Url Sock url_eqb sock_eqb).
  Notation from_attrs := (from_attrs Url Sock url_eqb sock_eqb parse_url parse_sock).
  Notation resolve_txt := (resolve_txt Url Sock url_eqb sock_eqb print_url parse_url print_sock parse_sock).
  Notation resolve_txt_old := (resolve_txt_old Url Sock url_eqb sock_eqb print_url parse_url print_sock parse_sock).
  Notation resolve_pkt := (resolve_pkt Url Sock url_eqb sock_eqb print_url parse_url print_sock parse_sock).
  Notation same_info := (same_info Url Sock url_eqb sock_eqb).
  Notation subset := (subset Url Sock url_eqb sock_eqb).
  Notation addr_okb := (addr_okb Url Sock url_eqb sock_eqb print_url parse_url print_sock parse_sock).

  Lemma addr_eqb_spec x y : addr_eqb x y = true <-> x = y.
  Proof.
    destruct x as [u|a|i d], y as [v|b|j e]; cbn [C31.addr_eqb]; try (split; intros; discriminate).
    - rewrite url_eqb_spec. split; [intros ->; reflexivity | intros [= ->]; reflexivity].
    - rewrite sock_eqb_spec. split; [intros ->; reflexivity | intros [= ->]; reflexivity].
    - split.
      + intros H. apply andb_prop in H as [H1 H2]. apply N.eqb_eq in H1. apply bytes_eqb_eq in H2. now subst.
      + intros [= -> ->]. now rewrite N.eqb_refl, bytes_eqb_refl.
  Qed.

  (* what the theorem needs of the printers and parsers, per published address *)
  Definition addr_ok (a : addr) : Prop :=
    match a with
    | Relay u => parse_url (print_url u) = Some u
    | Ip s => parse_sock (print_sock s) = Some s
    | Custom i d => i <= 18446744073709551615 /\ Forall (fun b => b < 256) d /\
                    parse_sock (print_custom i d) = None
    end.
  Definition ud_ok (u : option bytes) : Prop :=
    match u with Some s => len s <= C31_USER_DATA_MAX_LENGTH | None => True end.

  Lemma addr_okb_ok a : addr_okb a = true -> addr_ok a.
  Proof.
    destruct a as [u|s|i d]; cbn [C31.addr_okb addr_ok]; unfold opt_is.
    - destruct (parse_url (print_url u)); [|discriminate]. intros H. apply url_eqb_spec in H. now subst.
    - destruct (parse_sock (print_sock s)); [|discriminate]. intros H. apply sock_eqb_spec in H. now subst.
    - intros H. apply andb_prop in H as [H H3]. apply andb_prop in H as [H1 H2].
      split; [lia|]. split.
      + apply Forall_forall. intros b Hb. rewrite forallb_forall in H2. apply H2 in Hb. lia.
      + destruct (parse_sock (print_custom i d)); [discriminate | reflexivity].
  Qed.

  Definition is_relay (a : addr) : bool := match a with Relay _ => true | _ => false end.

  Lemma parse_printed l tail :
    Forall addr_ok l -> (forall k v, In (k, v) tail -> k = AUserData) ->
    filter_map parse_relay_value (sel ARelay (map print_addr l ++ tail)) = filter is_relay l /\
    filter_map parse_addr_value (sel AAddr (map print_addr l ++ tail)) = filter (fun a => negb (is_relay a)) l.
  Proof.
    intros F Ht. induction F as [|a l Ha _ IH].
    - cbn [map app filter]. induction tail as [|[k v] t IHt]; [split; reflexivity|].
      assert (k = AUserData) by (apply (Ht k v); now left). subst k. cbn [sel].
      apply IHt. intros k' v' Hin. apply (Ht k' v'). now right.
    - destruct IH as [IH1 IH2].
      destruct a as [u|s|i d]; cbn [map app C31.print_addr sel filter is_relay negb filter_map addr_ok] in *.
      + unfold C31.parse_relay_value at 1. rewrite Ha. split; [now rewrite IH1 | exact IH2].
      + unfold C31.parse_addr_value at 1. rewrite Ha. split; [exact IH1 | now rewrite IH2].
      + destruct Ha as (Hi & Hd & Hn).
        unfold C31.parse_addr_value at 1. rewrite Hn, parse_custom_print by assumption.
        split; [exact IH1 | now rewrite IH2].
  Qed.

  Lemma sel_ud_printed l tail :
    sel AUserData (map print_addr l ++ tail) = sel AUserData tail.
  Proof. induction l as [|a l IH]; [reflexivity|]. destruct a; cbn [map app C31.print_addr sel]; exact IH. Qed.

  (* add_addrs keeps exactly the members *)
  Lemma add_addrs_in new : forall cur a, In a (add_addrs cur new) <-> In a cur \/ In a new.
  Proof.
    unfold C31.add_addrs. induction new as [|x new IH]; intros cur a; cbn [fold_left].
    - cbn. tauto.
    - rewrite IH. destruct (existsb (addr_eqb x) cur) eqn:E.
      + apply existsb_exists in E as (y & Hy & Hxy). apply addr_eqb_spec in Hxy. subst y.
        cbn [In]. split; [tauto|]. intros [H|[H|H]]; subst; tauto.
      + rewrite in_app_iff. cbn [In]. tauto.
  Qed.

  Lemma filter_partition (l : list addr) a :
    In a (filter is_relay l ++ filter (fun a => negb (is_relay a)) l) <-> In a l.
  Proof.
    rewrite in_app_iff, !filter_In. destruct (is_relay a); cbn; tauto.
  Qed.

  Definition same_prop (orig i' : info) : Prop :=
    eid i' = eid orig /\ (forall a, In a (addrs i') <-> In a (addrs orig)) /\ udata i' = udata orig.

  (* TXT route, hypotheses stated for the published addresses only *)
  Lemma txt_roundtrip_local (i : info) :
    Forall addr_ok (addrs i) -> ud_ok (udata i) ->
    exists i', resolve_txt i = Ok i' /\ same_prop i i'.
  Proof.
    intros Ha Hu. unfold C31.resolve_txt, resolve_with.
    assert (Hid : t_id (to_attrs i) = eid i).
    { unfold C31.to_attrs. now rewrite from_parts_sel. }
    rewrite <- Hid. fold from_strings. rewrite from_strings_to_txt_strings.
    eexists. split; [reflexivity|].
    unfold C31.to_attrs. rewrite from_parts_sel. unfold C31.from_attrs. cbn [t_id t_relay t_addr t_ud].
    set (tail := match udata i with Some u => [(AUserData, u)] | None => [] end).
    assert (Ht : forall k v, In (k, v) tail -> k = AUserData).
    { subst tail. intros k v H. destruct (udata i); cbn in H; [|contradiction].
      destruct H as [[= <- _]|[]]. reflexivity. }
    destruct (parse_printed (addrs i) tail Ha Ht) as [-> ->].
    rewrite sel_ud_printed. unfold same_prop. cbn [eid addrs udata]. split; [reflexivity|]. split.
    - intros a. rewrite add_addrs_in. cbn [In]. rewrite filter_partition. tauto.
    - subst tail. unfold ud_ok in Hu. destruct (udata i) as [u|]; cbn [sel]; [|reflexivity].
      destruct (len u <=? C31_USER_DATA_MAX_LENGTH) eqn:E; [reflexivity | lia].
  Qed.

  (* packet route: whenever the packet encodes, it resolves like the TXT route *)
  Lemma pkt_roundtrip_local (i : info) :
    Forall addr_ok (addrs i) -> ud_ok (udata i) ->
    (exists i', resolve_pkt i = Ok i' /\ same_prop i i') \/
    ((resolve_pkt i = Err 1 \/ resolve_pkt i = Err 2) /\
     encode_packet (to_txt_strings (to_attrs i)) <> Ok tt).
  Proof.
    intros Ha Hu. unfold C31.resolve_pkt, resolve_pkt_with.
    destruct (encode_packet (to_txt_strings (to_attrs i))) as [[]|e|] eqn:E.
    - left. apply txt_roundtrip_local; assumption.
    - right. unfold encode_packet in E.
      destruct (existsb _ _); [injection E as <-; split; [now left | discriminate]|].
      destruct (_ <? _); [injection E as <-; split; [now right | discriminate] | discriminate].
    - unfold encode_packet in E. destruct (existsb _ _); [discriminate|]. destruct (_ <? _); discriminate.
  Qed.

  (* boolean same_info reflects same_prop *)
  Lemma subset_spec l1 l2 : subset l1 l2 = true <-> (forall a, In a l1 -> In a l2).
  Proof.
    unfold C31.subset. rewrite forallb_forall. split; intros H a Hin.
    - apply H in Hin. apply existsb_exists in Hin as (y & Hy & E). apply addr_eqb_spec in E. now subst.
    - apply existsb_exists. exists a. split; [now apply H | now apply addr_eqb_spec].
  Qed.

  Lemma opt_bytes_eqb_spec (x y : option bytes) : opt_eqb bytes_eqb x y = true <-> x = y.
  Proof.
    destruct x, y; cbn; split; intros H; try discriminate; try reflexivity.
    - apply bytes_eqb_eq in H. now subst.
    - injection H as ->. apply bytes_eqb_refl.
  Qed.

  Lemma same_info_spec orig r :
    same_info orig r = true <-> exists i', r = Ok i' /\ same_prop orig i'.
  Proof.
    unfold C31.same_info, same_prop. destruct r as [i'|e|].
    - rewrite !andb_true_iff, !subset_spec, opt_bytes_eqb_spec. split.
      + intros [[[H1 H2] H3] H4]. exists i'. split; [reflexivity|]. apply bytes_eqb_eq in H1.
        split; [exact H1|]. split; [|exact H4]. intros a; split; auto.
      + intros (x & [= <-] & H1 & H2 & H3). rewrite H1, bytes_eqb_refl.
        repeat split; auto; intros a Hin; now apply H2.
    - split; [discriminate | intros (x & H & _); discriminate].
    - split; [discriminate | intros (x & H & _); discriminate].
  Qed.

  (* ---- the theorem under global printer/parser hypotheses ---- *)
  Hypothesis url_roundtrip : forall u, parse_url (print_url u) = Some u.
  Hypothesis sock_roundtrip : forall s, parse_sock (print_sock s) = Some s.
  Hypothesis sock_has_colon : forall s a, parse_sock s = Some a -> In COLON s.

  (* type invariants of the Rust values: u64 id, u8 data, UserData length *)
  Definition wf_addr (a : addr) : Prop :=
    match a with
    | Custom i d => i <= 18446744073709551615 /\ Forall (fun b => b < 256) d
    | _ => True
    end.
  Definition wf_info (i : info) : Prop := Forall wf_addr (addrs i) /\ ud_ok (udata i).

  Lemma wf_addr_ok a : wf_addr a -> addr_ok a.
  Proof.
    destruct a as [u|s|i d]; cbn [wf_addr addr_ok]; intros H; auto.
    destruct H as [Hi Hd]. split; [exact Hi|]. split; [exact Hd|].
    destruct (parse_sock (print_custom i d)) eqn:E; [|reflexivity].
    exfalso. apply sock_has_colon in E. now apply print_custom_no_colon in E.
  Qed.

  Lemma txt_roundtrip (i : info) :
    wf_info i -> exists i', resolve_txt i = Ok i' /\ same_prop i i'.
  Proof.
    intros [Ha Hu]. apply txt_roundtrip_local; [|exact Hu].
    eapply Forall_impl; [|exact Ha]. apply wf_addr_ok.
  Qed.

  Lemma packet_roundtrip (i : info) :
    wf_info i -> encode_packet (to_txt_strings (to_attrs i)) = Ok tt ->
    exists i', resolve_pkt i = Ok i' /\ same_prop i i'.
  Proof.
    intros [Ha Hu] He.
    destruct (pkt_roundtrip_local i) as [H | [_ H]]; auto.
    - eapply Forall_impl; [|exact Ha]. apply wf_addr_ok.
    - contradiction.
  Qed.
End Proofs.

(* ---- the pre-fix code loses data: user data "a=b=c" comes back as "a" ---- *)
Example old_split_loses_user_data :
  let i := mkInfo (Url:=bytes) (Sock:=bytes) [1] [] (Some (str_bytes "a=b=c")) in
  resolve_txt_old bytes bytes bytes_eqb bytes_eqb id_fn (fun _ => None) id_fn (fun _ => None) i
  = Ok (mkInfo [1] [] (Some (str_bytes "a"))).
Proof. vm_compute. reflexivity. Qed.

Lemma old_split_refuted :
  exists (i : info bytes bytes),
    (match udata i with Some s => len s <= C31_USER_DATA_MAX_LENGTH | None => True end) /\ addrs i = [] /\
    forall i', resolve_txt_old bytes bytes bytes_eqb bytes_eqb id_fn (fun _ => None) id_fn (fun _ => None) i = Ok i' ->
               udata i' <> udata i.
Proof.
  exists (mkInfo [1] [] (Some (str_bytes "a=b=c"))). split; [vm_compute; discriminate|]. split; [reflexivity|].
  intros i' H. rewrite old_split_loses_user_data in H. injection H as <-. cbn. discriminate.
Qed.

(* non-vacuity: a value with all address kinds and '=' everywhere resolves to itself *)
Example roundtrip_example :
  let o := [oe (str_bytes "https://example.com/?a=b") (Some (str_bytes "https://example.com/?a=b")) None;
            oe (str_bytes "127.0.0.1:1234") None (Some (str_bytes "127.0.0.1:1234"))] in
  let i := mkInfo [7] [Ip (str_bytes "127.0.0.1:1234"); Relay (str_bytes "https://example.com/?a=b");
                       Custom 42 [171; 205]] (Some (str_bytes "a=b=c")) in
  c_resolve_txt o i =
  Ok (mkInfo [7] [Relay (str_bytes "https://example.com/?a=b"); Ip (str_bytes "127.0.0.1:1234");
                  Custom 42 [171; 205]] (Some (str_bytes "a=b=c"))).
Proof. vm_compute. reflexivity. Qed.

(* ---- concrete instance: the model satisfies the monitor on every input ---- *)
Lemma bytes_eqb_spec (x y : bytes) : bytes_eqb x y = true <-> x = y.
Proof. split; [apply bytes_eqb_eq | intros ->; apply bytes_eqb_refl]. Qed.

Lemma mk_user_data_ok u ud : mk_user_data u = Ok ud ->
  ud = u /\ match ud with Some s => len s <= C31_USER_DATA_MAX_LENGTH | None => True end.
Proof.
  unfold mk_user_data. destruct u as [s|]; [|intros [= <-]; auto].
  destruct (len s <=? C31_USER_DATA_MAX_LENGTH) eqn:E; [|discriminate]. intros [= <-]. split; [reflexivity | lia].
Qed.

Lemma model_monitor i : monitor i (model i) = true.
Proof.
  unfold monitor, model. destruct (hyp_holds i) eqn:Hh; cbn [negb]; [|reflexivity].
  destruct (mk_user_data (in_ud i)) as [ud|e|] eqn:Hu; [|reflexivity|reflexivity].
  apply mk_user_data_ok in Hu as [-> Hlen].
  unfold hyp_holds in Hh. apply andb_prop in Hh as [_ Hh]. rewrite forallb_forall in Hh.
  set (inf := mkInfo (in_id i) (in_addrs i) (in_ud i)).
  assert (Ha : Forall (addr_ok bytes bytes id_fn (o_parse_url (in_oracle i)) id_fn (o_parse_sock (in_oracle i))) (addrs inf)).
  { apply Forall_forall. intros a Hin. apply (addr_okb_ok bytes bytes bytes_eqb bytes_eqb); try apply bytes_eqb_spec.
    now apply Hh. }
  cbn [o_txt o_pkt].
  destruct (txt_roundtrip_local bytes bytes bytes_eqb bytes_eqb id_fn (o_parse_url (in_oracle i)) id_fn
              (o_parse_sock (in_oracle i)) bytes_eqb_spec bytes_eqb_spec inf Ha Hlen) as (i' & Hr & Hs).
  assert (Hsame : c_same inf (c_resolve_txt (in_oracle i) inf) = true).
  { apply (same_info_spec bytes bytes bytes_eqb bytes_eqb); try apply bytes_eqb_spec.
    exists i'. split; [exact Hr | exact Hs]. }
  rewrite Hsame. cbn [andb].
  destruct (pkt_roundtrip_local bytes bytes bytes_eqb bytes_eqb id_fn (o_parse_url (in_oracle i)) id_fn
              (o_parse_sock (in_oracle i)) bytes_eqb_spec bytes_eqb_spec inf Ha Hlen) as [(p & Hp & Hps) | [[Hp|Hp] _]].
  - unfold c_resolve_pkt. rewrite Hp.
    apply (same_info_spec bytes bytes bytes_eqb bytes_eqb); try apply bytes_eqb_spec.
    exists p. split; [reflexivity | exact Hps].
  - unfold c_resolve_pkt. rewrite Hp. reflexivity.
  - unfold c_resolve_pkt. rewrite Hp. reflexivity.
Qed.

(* the monitor in readable form *)
Definition c_same_prop : cinfo -> cinfo -> Prop := same_prop bytes bytes.

Lemma monitor_spec i o ud :
  hyp_holds i = true -> mk_user_data (in_ud i) = Ok ud ->
  (monitor i o = true <->
   exists r, o = Ok r /\
     (exists t, o_txt r = Ok t /\ c_same_prop (mkInfo (in_id i) (in_addrs i) ud) t) /\
     (o_pkt r = Err 1 \/ o_pkt r = Err 2 \/
      exists p, o_pkt r = Ok p /\ c_same_prop (mkInfo (in_id i) (in_addrs i) ud) p)).
Proof.
  intros Hh Hu. unfold monitor. rewrite Hh, Hu. cbn [negb].
  pose proof (same_info_spec bytes bytes bytes_eqb bytes_eqb bytes_eqb_spec bytes_eqb_spec) as S.
  destruct o as [r|e|]; [|split; [discriminate | intros (r & H & _); discriminate] ..].
  rewrite andb_true_iff. unfold c_same. rewrite S. split.
  - intros [H1 H2]. exists r. split; [reflexivity|]. split; [exact H1|].
    destruct (o_pkt r) as [p|e|] eqn:E.
    + right; right. apply S in H2. destruct H2 as (p' & [= <-] & H2). exists p. auto.
    + destruct e as [|q]; [discriminate H2|].
      destruct q as [q|q|]; [destruct q; discriminate H2 | destruct q; try discriminate H2; right; left; reflexivity | left; reflexivity].
    + discriminate H2.
  - intros (r' & [= <-] & H1 & H2). split; [exact H1|].
    destruct H2 as [H2|[H2|(p & H2 & H3)]]; rewrite H2; try reflexivity.
    apply S. exists p. auto.
Qed.
