(* C16 — proofs about the take_segments model. *)
From V Require Import Lib.Base Lib.MachineInt Model.C16.
From Coq Require Import ZifyBool.
Import C16.
Open Scope N_scope.

Lemma len_firstn_skipn {A} k (l : list A) : firstn k l ++ skipn k l = l.
Proof. apply firstn_skipn. Qed.

(* One step: what take_segments returns, for a batch with a segment size. *)
Lemma take_some d n ss m :
  seg d = Some ss -> u64_sat_mul n ss = m ->
  exists p r, take_segments d n = Ok (p, r) /\
    contents p ++ contents r = contents d /\
    ecn p = ecn d /\ ecn r = ecn d /\
    len (contents p) = N.min m (len (contents d)) /\
    seg p = (if (1 <? n) && (ss <? len (contents p)) then Some ss else None) /\
    seg r = (if len (contents r) <=? ss then None else Some ss).
Proof.
  intros Hs Hm. unfold take_segments. rewrite Hs. cbv zeta. rewrite Hm.
  eexists _, _. split; [reflexivity|]. cbn [contents ecn seg].
  repeat split.
  - apply firstn_skipn.
  - unfold len. rewrite firstn_length. lia.
Qed.

Lemma take_none d n :
  seg d = None ->
  take_segments d n = Ok (mkDg (ecn d) None (contents d), mkDg (ecn d) None []).
Proof. intros Hs. unfold take_segments. now rewrite Hs. Qed.

(* The per-piece property relative to the ORIGINAL batch's ecn and segment size. *)
Definition pk (e ss n : N) (p : dg) : bool :=
  N.eqb (ecn p) e && ((len (contents p) <=? n * ss) &&
  match seg p with
  | None => len (contents p) <=? ss
  | Some s => N.eqb s ss && (ss <? len (contents p))
  end).

Lemma piece_ok_pk d n ss p : seg d = Some ss -> piece_ok d n p = pk (ecn d) ss n p.
Proof. intros Hs. unfold piece_ok, pk. now rewrite Hs. Qed.

Definition cat_pieces (steps : list (dg * (option N * N))) : bytes :=
  concat (map (fun s => contents (fst s)) steps).

(* Main induction.  [d] is the original batch or what an earlier step left
   in self: it still carries segment size ss, or it has shrunk to a single
   datagram of at most ss bytes and lost its segment size. *)
Lemma unfold_spec fuel : forall d n ss,
  1 <= n -> 1 <= ss ->
  (seg d = Some ss \/ (seg d = None /\ len (contents d) <= ss)) ->
  (length (contents d) < fuel)%nat ->
  exists steps, unfold_take fuel d n = Ok steps /\
    cat_pieces steps = contents d /\
    forallb (fun s => pk (ecn d) ss n (fst s)) steps = true.
Proof.
  induction fuel as [|f IH]; intros d n ss Hn Hss Hseg Hfuel; [lia|].
  cbn [unfold_take].
  destruct Hseg as [Hs | [Hs Hle]].
  - assert (Hnss : 1 <= n * ss) by nia.
    assert (Hm : u64_sat_mul n ss = N.min (n * ss) U64_MAX) by reflexivity.
    assert (HU : 1 <= U64_MAX) by (unfold U64_MAX; lia).
    destruct (take_some d n ss _ Hs Hm) as (p & r & Ht & Hcat & Hep & Her & Hlen & Hsp & Hsr).
    rewrite Ht.
    assert (Hpok : pk (ecn d) ss n p = true).
    { unfold pk. rewrite Hep, N.eqb_refl, Hsp. cbn [andb].
      destruct ((1 <? n) && (ss <? len (contents p))) eqn:E.
      - rewrite N.eqb_refl. lia.
      - destruct (N.ltb_spec 1 n) as [Hn1|Hn1].
        + cbn [andb] in E. lia.
        + assert (n = 1) by lia. subst n. lia. }
    destruct (contents r) as [|b rest] eqn:Hr.
    + eexists; split; [reflexivity|]. split.
      * unfold cat_pieces. cbn. rewrite app_nil_r. rewrite <- Hcat. now rewrite app_nil_r.
      * cbn. now rewrite Hpok.
    + rewrite <- Hr in Hcat, Hsr.
      assert (Hl : (length (contents p) + length (contents r) = length (contents d))%nat)
        by (rewrite <- Hcat, app_length; reflexivity).
      assert (Hlenr : (length (contents r) < length (contents d))%nat).
      { assert (1 <= n * ss) by nia.
        unfold len in Hlen. rewrite Hr in Hl |- *. cbn [length] in Hl |- *. lia. }
      assert (Hsegr : seg r = Some ss \/ (seg r = None /\ len (contents r) <= ss)).
      { rewrite Hsr. destruct (len (contents r) <=? ss) eqn:E; [right|left]; [split|]; try reflexivity. lia. }
      destruct (IH r n ss Hn Hss Hsegr ltac:(lia)) as (steps & Hu & Hcat' & Hall).
      rewrite Hu.
      eexists; split; [reflexivity|]. split.
      * unfold cat_pieces in *. cbn [map concat fst]. rewrite Hcat'. exact Hcat.
      * cbn [forallb fst]. rewrite Hpok. cbn [andb]. rewrite <- Her. exact Hall.
  - rewrite (take_none d n Hs). cbn [contents].
    eexists; split; [reflexivity|]. split.
    + unfold cat_pieces. cbn. now rewrite app_nil_r.
    + assert (ss <= n * ss) by nia.
      cbn. unfold pk. cbn. rewrite N.eqb_refl. cbn. lia.
Qed.

(* The model's output satisfies the monitor (the property) for every
   well-formed batch and every n >= 1 whose product with the segment size
   fits a usize. *)
Lemma model_monitor d n :
  monitor (d, n) (model (d, n)) = true.
Proof.
  unfold monitor.
  destruct (negb (wf d) || (n <? 1)) eqn:Hg; [reflexivity|].
  apply orb_false_elim in Hg as [Hwf Hn]. apply negb_false_iff in Hwf.
  unfold model. destruct (seg d) as [ss|] eqn:Hs.
  - assert (Hss : 1 <= ss) by (unfold wf in Hwf; rewrite Hs in Hwf; lia).
    destruct (unfold_spec (S (length (contents d))) d n ss ltac:(lia) Hss
                (or_introl Hs) ltac:(lia)) as (steps & Hu & Hcat & Hall).
    rewrite Hu. unfold cat_pieces in Hcat. rewrite Hcat, bytes_eqb_refl. cbn [andb].
    rewrite <- Hall. apply forallb_ext'. intros s. now apply piece_ok_pk.
  - cbn [unfold_take]. rewrite (take_none d n Hs). cbn [contents].
    cbn. rewrite app_nil_r, bytes_eqb_refl. unfold piece_ok. cbn. now rewrite N.eqb_refl, Hs.
Qed.

(* ---- the property in readable (Prop) form, and its link to the boolean monitor ---- *)
Definition piece_spec (d : dg) (n : N) (p : dg) : Prop :=
  ecn p = ecn d /\
  match seg d with
  | None => seg p = None
  | Some ss =>
      len (contents p) <= n * ss /\
      ((seg p = Some ss /\ ss < len (contents p)) \/
       (seg p = None /\ len (contents p) <= ss))
  end.

Definition partition_spec (d : dg) (n : N) (o : output) : Prop :=
  exists steps, o = Ok steps /\
    concat (map (fun s => contents (fst s)) steps) = contents d /\
    Forall (fun s => piece_spec d n (fst s)) steps.

Lemma piece_ok_spec d n p : piece_ok d n p = true <-> piece_spec d n p.
Proof.
  unfold piece_ok, piece_spec. destruct (seg d) as [ss|]; destruct (seg p) as [s|];
    rewrite ?andb_true_iff, ?N.eqb_eq, ?N.leb_le, ?N.ltb_lt; split; intros H.
  - destruct H as (He & Hl & Hs & Hlt). subst s. auto.
  - destruct H as (He & Hl & [[Hs Hlt]|[Hs _]]); [|discriminate]. injection Hs as ->. auto.
  - destruct H as (He & Hl & Hle). auto.
  - destruct H as (He & Hl & [[Hs _]|[_ Hle]]); [discriminate|]. auto.
  - destruct H as [_ H]; discriminate.
  - destruct H as [_ H]; discriminate.
  - destruct H; auto.
  - destruct H; auto.
Qed.

Lemma monitor_spec d n o :
  wf d = true -> 1 <= n ->
  (monitor (d, n) o = true <-> partition_spec d n o).
Proof.
  intros Hwf Hn. unfold monitor, partition_spec.
  rewrite Hwf. cbn [negb orb]. destruct (n <? 1) eqn:E; [lia|].
  destruct o as [steps|e|]; split; intros H.
  - apply andb_prop in H as [Hc Hf]. exists steps. split; [reflexivity|]. split.
    + now apply bytes_eqb_eq.
    + rewrite forallb_forall in Hf. apply Forall_forall. intros s Hin. apply piece_ok_spec. auto.
  - destruct H as (st & [= <-] & Hc & Hf). rewrite Hc, bytes_eqb_refl. cbn [andb].
    apply forallb_forall. intros s Hin. rewrite Forall_forall in Hf. apply piece_ok_spec. auto.
  - discriminate.
  - destruct H as (st & Hx & _); discriminate.
  - discriminate.
  - destruct H as (st & Hx & _); discriminate.
Qed.

Lemma take_partition d n :
  wf d = true -> 1 <= n ->
  partition_spec d n (model (d, n)).
Proof.
  intros Hwf Hn. apply monitor_spec; auto. apply model_monitor.
Qed.

(* The overflow class that panicked before the fix (n * ss > usize::MAX) now
   satisfies the property as well. *)
Example take_saturates :
  model (mkDg 0 (Some 2) [1;2;3], U64_MAX) = Ok [ (mkDg 0 (Some 2) [1;2;3], (None, 0)) ].
Proof. vm_compute. reflexivity. Qed.

(* Non-vacuity: a batch of 7 bytes, segment size 2, taken 2 segments at a time. *)
Example take_example :
  model (mkDg 1 (Some 2) [1;2;3;4;5;6;7], 2) =
  Ok [ (mkDg 1 (Some 2) [1;2;3;4], (Some 2, 3));
       (mkDg 1 (Some 2) [5;6;7], (None, 0)) ].
Proof. vm_compute. reflexivity. Qed.
